(** C08, phase 2: the walk model equals the loop-free closed-form specification,
      aggregate = agg_ref,
    for day/week resolutions (always) and month/quarter/year resolutions (origin a month end of any
    year >= 1, dates after the first q months of year 1: month_end (MINID + q - 1) < d). *)
From Coq Require Import ZArith List Bool Lia ZifyBool.
From Bermuda Require Import Model.Base Lib.Calendar Model.Summarize Model.Basis Model.Aggregate
  Proofs.SummarizeLib Proofs.Summarize Proofs.CalendarP Proofs.Aggregate Proofs.AggregateGrid Proofs.AggregateInst.
Import ListNotations.
Local Open Scope Z_scope.

(* ------------------------------------------------------------------ scope of a resolution *)
(* what the theorem asks of (resolution, origin, dates) *)
Definition res_scope (r : resolution) (origin : Z) (dates : list Z) : Prop :=
  match r with
  | RDay q => 1 <= q
  | RMonth q => month_origin_ok origin q /\
                forall d, In d dates -> month_end (MINID + q - 1) < d
  end.
(* ... which yields a grid covering the dates *)
Definition covered (r : resolution) (origin : Z) (dates : list Z) : Prop :=
  exists G klo khi kidx, grid_ok r origin G klo khi kidx /\ forall d, In d dates -> G klo < d < G khi.

Lemma covered_sub r origin D D' : covered r origin D -> (forall d, In d D' -> In d D) -> covered r origin D'.
Proof. intros (G & klo & khi & kidx & OK & H) Hs. exists G, klo, khi, kidx. split; auto. Qed.

Lemma res_scope_covered r origin dates : res_scope r origin dates -> covered r origin dates.
Proof.
  destruct r as [q|q]; cbn [res_scope].
  - intros (Hok & Hd). set (B := 1 + zmax_list 0 (map (fun d => Z.abs (d - origin)) dates)).
    assert (HB : forall d, In d dates -> Z.abs (d - origin) < B).
    { intros d Hin. pose proof (proj2 (zmax_list_spec (map (fun d => Z.abs (d - origin)) dates) 0) (Z.abs (d - origin))) as H.
      specialize (H ltac:(apply in_map_iff; eauto)). unfold B. lia. }
    assert (HBpos : 0 < B) by (pose proof (proj1 (zmax_list_spec (map (fun d => Z.abs (d - origin)) dates) 0)); unfold B; lia).
    pose proof (month_grid_ok origin q Hok B HBpos) as OK.
    exists (month_G origin q), (month_klo origin q), B, (month_kidx origin q). split; [exact OK|].
    intros d Hin. split; [apply month_range_lower; auto|].
    pose proof (G_gap' _ _ _ (g_mono _ _ _ _ _ _ OK) 0 B (g_lo _ _ _ _ _ _ OK) ltac:(lia) ltac:(lia)) as Hg.
    rewrite (g_origin _ _ _ _ _ _ OK) in Hg. specialize (HB d Hin). lia.
  - intros Hq. set (B := 1 + zmax_list 0 (map (fun d => Z.abs (d - origin)) dates)).
    assert (HB : forall d, In d dates -> Z.abs (d - origin) < B).
    { intros d Hd. pose proof (proj2 (zmax_list_spec (map (fun d => Z.abs (d - origin)) dates) 0) (Z.abs (d - origin))) as H.
      specialize (H ltac:(apply in_map_iff; eauto)). unfold B. lia. }
    assert (0 < B) by (pose proof (proj1 (zmax_list_spec (map (fun d => Z.abs (d - origin)) dates) 0)); unfold B; lia).
    exists (day_G origin q), (- B), B, (day_kidx origin q). split; [apply day_grid_ok; lia|].
    intros d Hd. specialize (HB d Hd). unfold day_G. nia.
Qed.

(* ------------------------------------------------------------------ groupby with any key equality *)
Lemma gb_insert_members {K A} (eqb : K -> K -> bool) (P : A -> Prop) k a d :
  P a -> (forall g, In g d -> snd g <> [] /\ forall x, In x (snd g) -> P x) ->
  forall g, In g (gb_insert eqb k a d) -> snd g <> [] /\ forall x, In x (snd g) -> P x.
Proof.
  intros Pa. induction d as [|[k' l] r IH]; intros Hd g Hg; cbn [gb_insert] in Hg.
  - destruct Hg as [<-|[]]. cbn. split; [discriminate|]. intros x [<-|[]]. exact Pa.
  - destruct (eqb k k').
    + destruct Hg as [<-|Hg]; [|apply Hd; now right]. cbn [snd].
      destruct (Hd (k', l) (or_introl eq_refl)) as [Hne Hl]. cbn [snd] in *. split.
      * destruct l; discriminate.
      * intros x Hx. apply in_app_or in Hx. destruct Hx as [Hx|[<-|[]]]; auto.
    + destruct Hg as [<-|Hg]; [apply Hd; now left|]. apply IH; [|exact Hg]. intros g' Hg'. apply Hd. now right.
Qed.
Lemma groupby_members {K A} (eqb : K -> K -> bool) (key : A -> K) l :
  forall g, In g (groupby eqb key l) -> snd g <> [] /\ forall x, In x (snd g) -> In x l.
Proof.
  unfold groupby.
  assert (H : forall l0 d, (forall g, In g d -> snd g <> [] /\ forall x, In x (snd g) -> In x l) ->
                           (forall x, In x l0 -> In x l) ->
                           forall g, In g (fold_left (fun d a => gb_insert eqb (key a) a d) l0 d) ->
                                     snd g <> [] /\ forall x, In x (snd g) -> In x l).
  { induction l0 as [|a l0 IH]; intros d Hd Hl0; cbn [fold_left]; [exact Hd|].
    apply IH; [|intros x Hx; apply Hl0; now right].
    apply (gb_insert_members eqb (fun x => In x l)); [apply Hl0; now left | exact Hd]. }
  apply (H l []); [intros g [] | auto].
Qed.
Lemma map_result_ext_in {A B} (f g : A -> result B) l :
  (forall x, In x l -> f x = g x) -> map_result f l = map_result g l.
Proof.
  induction l as [|a l IH]; intros H; [reflexivity|]. cbn [map_result].
  rewrite (H a (or_introl eq_refl)), IH; [reflexivity|]. intros x Hx. apply H. now right.
Qed.

Section Ref.
  Variable wavg : transform -> list value -> list value -> result value.
  Variable rules : rule_table.
  Variable nl : list str.
  Notation agg := (aggregate wavg rules nl).
  Notation ref := (agg_ref wavg rules nl).

  (* scope of a whole cumulative triangle *)
  Definition cum_scope (a : agg_args) (cum : list cell) : Prop :=
    (forall r, eval_res a = Some r -> res_scope r (eval_origin a) (map ev cum)) /\
    (forall r, period_res a = Some r -> res_scope r (period_origin a) (map ps cum)).

  Theorem slice_eq_ref a slice :
    slice <> [] ->
    (forall r, eval_res a = Some r -> covered r (eval_origin a) (map ev slice)) ->
    (forall r, period_res a = Some r -> covered r (period_origin a) (map ps slice)) ->
    aggregate_slice wavg rules nl a slice = ref_slice wavg rules nl a slice.
  Proof.
    intros Hne He Hp. unfold aggregate_slice, ref_slice.
    assert (Hev : aggregate_eval (eval_res a) (eval_origin a) slice
                  = Ok (match eval_res a with
                        | None => slice
                        | Some r => filter (fun c => on_grid r (eval_origin a) (ev c)) slice
                        end)).
    { destruct (eval_res a) as [r|] eqn:Er; [|reflexivity].
      destruct (He r eq_refl) as (G & klo & khi & kidx & OK & Hc).
      destruct slice as [|c0 rest]; [congruence|].
      apply (eval_closed_form r (eval_origin a) G klo khi kidx OK). intros c Hin. apply Hc. now apply in_map. }
    rewrite Hev.
    set (kept := match eval_res a with None => slice | Some r => filter (fun c => on_grid r (eval_origin a) (ev c)) slice end).
    assert (Hsub : forall c, In c kept -> In c slice).
    { intros c. unfold kept. destruct (eval_res a); [rewrite filter_In; tauto | auto]. }
    destruct (period_res a) as [r|] eqn:Er; [|reflexivity].
    destruct (Hp r eq_refl) as (G & klo & khi & kidx & OK & Hc).
    rewrite (period_closed_form wavg rules nl r (period_origin a) G klo khi kidx OK).
    - unfold ref_period. destruct kept; reflexivity.
    - intros c Hin. specialize (Hc (ps c) ltac:(apply in_map; auto)). lia.
  Qed.

  Theorem cum_eq_ref a cum :
    cum_scope a cum -> aggregate_cum wavg rules nl a cum = ref_cum wavg rules nl a cum.
  Proof.
    intros [He Hp]. unfold aggregate_cum, ref_cum.
    rewrite (map_result_ext_in _ (fun g => ref_slice wavg rules nl a (snd g))); [reflexivity|].
    intros g Hg. destruct (groupby_members _ _ _ g Hg) as [Hne Hsub]. apply slice_eq_ref; [exact Hne| |].
    - intros r Er. apply (covered_sub r _ (map ev cum)); [apply res_scope_covered; auto|].
      intros d Hd. apply in_map_iff in Hd. destruct Hd as (c & <- & Hc). apply in_map. auto.
    - intros r Er. apply (covered_sub r _ (map ps cum)); [apply res_scope_covered; auto|].
      intros d Hd. apply in_map_iff in Hd. destruct Hd as (c & <- & Hc). apply in_map. auto.
  Qed.

  (* the walk model IS the loop-free specification *)
  Theorem aggregate_eq_ref a t :
    (is_incremental t = false -> cum_scope a t) ->
    (forall cum, is_incremental t = true -> to_cumulative std_desc t = Ok cum -> cum_scope a cum) ->
    agg a t = ref a t.
  Proof.
    intros Hc Hi. unfold aggregate, agg_ref. destruct (is_incremental t) eqn:E.
    - destruct (to_cumulative std_desc t) as [cum|e] eqn:Ec; cbn [bind]; [|reflexivity].
      rewrite (cum_eq_ref a cum); [reflexivity | now apply Hi].
    - apply cum_eq_ref. now apply Hc.
  Qed.
  Corollary agg_spec_b_is_model_comparison a t out :
    (is_incremental t = false -> cum_scope a t) ->
    (forall cum, is_incremental t = true -> to_cumulative std_desc t = Ok cum -> cum_scope a cum) ->
    agg_spec_b wavg rules nl a t out = result_ueqb (agg a t) out.
  Proof. intros Hc Hi. unfold agg_spec_b. now rewrite (aggregate_eq_ref a t Hc Hi). Qed.

  (* the two halves separately, under the scope of one resolution *)
  Theorem period_eq_ref r origin prem cells :
    res_scope r origin (map ps cells) ->
    aggregate_period wavg rules nl (Some r) origin prem cells = ref_period wavg rules nl r origin prem cells.
  Proof.
    intros Hs. destruct (res_scope_covered _ _ _ Hs) as (G & klo & khi & kidx & OK & Hc).
    apply (period_closed_form wavg rules nl r origin G klo khi kidx OK).
    intros c Hin. specialize (Hc (ps c) ltac:(apply in_map; auto)). lia.
  Qed.
  Theorem eval_eq_filter r origin c0 rest :
    res_scope r origin (map ev (c0 :: rest)) ->
    aggregate_eval (Some r) origin (c0 :: rest) = Ok (filter (fun c => on_grid r origin (ev c)) (c0 :: rest)).
  Proof.
    intros Hs. destruct (res_scope_covered _ _ _ Hs) as (G & klo & khi & kidx & OK & Hc).
    apply (eval_closed_form r origin G klo khi kidx OK). intros c Hin. apply Hc. now apply in_map.
  Qed.
  (* no fuel exhaustion anywhere: inside the scope the only refusals of _aggregate_period are the
     straddle refusal and failures of summarising a group *)
  Theorem period_errors_in_scope r origin prem cells e :
    res_scope r origin (map ps cells) ->
    aggregate_period wavg rules nl (Some r) origin prem cells = Err e ->
    (e = TriangleError /\ exists c, In c cells /\ snd (window_of r origin (ps c)) < pe c) \/
    (forall c, In c cells -> pe c <= snd (window_of r origin (ps c))) /\
    map_result (window_cell wavg rules nl prem)
      (groupby coord_eqb coord3 (map (to_window r origin) (sort_coords cells))) = Err e.
  Proof.
    intros Hs. rewrite (period_eq_ref r origin prem cells Hs). unfold ref_period.
    destruct cells as [|x xs]; [discriminate|].
    destruct (existsb (straddles r origin) (sort_coords (x :: xs))) eqn:E.
    - intros H. inversion H. left. split; [reflexivity|]. apply existsb_exists in E.
      destruct E as (c & Hc & Hst). exists c. split; [now apply sort_coords_In|]. unfold straddles in Hst. lia.
    - intros H. right. split; [|exact H]. intros c Hc. apply sort_coords_In in Hc.
      destruct (straddles r origin c) eqn:Es.
      + assert (existsb (straddles r origin) (sort_coords (x :: xs)) = true); [|congruence].
        apply existsb_exists. eauto.
      + unfold straddles in Es. lia.
  Qed.

  (* ---------------------------------------------------------------- what the closed form says *)
  (* windows are the consecutive intervals (G k, G (k+1)], G k = origin + k*res; a date lies in the
     window window_of assigns to it, and in no other *)
  Theorem window_of_spec r origin G klo khi kidx d :
    grid_ok r origin G klo khi kidx -> G klo < d <= G khi ->
    let w := window_of r origin d in
    fst w <= d <= snd w /\
    exists k, klo <= k < khi /\ fst w = G k + 1 /\ snd w = G (k + 1) /\
              forall k', klo <= k' < khi -> G k' < d <= G (k' + 1) -> k' = k.
  Proof.
    intros OK Hd. cbv zeta. rewrite (g_window _ _ _ _ _ _ OK d Hd). cbn [fst snd].
    destruct (g_kidx _ _ _ _ _ _ OK d Hd) as [Hk Hw]. split; [lia|].
    exists (kidx d). repeat split; auto; try lia.
    intros k' Hk' Hw'. apply (kidx_unique G klo khi (g_mono _ _ _ _ _ _ OK) kidx (g_kidx _ _ _ _ _ _ OK)); auto.
  Qed.

  (* _aggregate_period, loop-free: refused iff some period reaches beyond the window of its start;
     otherwise exactly one output cell per distinct (window, evaluation date), summarising exactly the
     cells whose period start lies in the window *)
  Theorem ref_period_spec r origin prem cells out :
    ref_period wavg rules nl r origin prem cells = Ok out ->
    (forall c, In c cells -> snd (window_of r origin (ps c)) >= pe c) /\
    let l := map (to_window r origin) (sort_coords cells) in
    map coord3 out = dedupe coord_eqb (map coord3 l) /\
    forall o, In o out ->
      let g := members coord_eqb coord3 l (coord3 o) in
      ckind o = KCum /\ (exists c0 rest, g = c0 :: rest /\ cmeta o = cmeta c0) /\
      summarize_cell_values wavg rules nl prem g = Ok (cvals o).
  Proof.
    unfold ref_period. destruct cells as [|x xs].
    - intros H. inversion H. subst. split; [intros c []|]. cbn. split; [reflexivity | intros o []].
    - destruct (existsb (straddles r origin) (sort_coords (x :: xs))) eqn:E; [discriminate|].
      intros H. split.
      + intros c Hc. apply sort_coords_In in Hc.
        assert (straddles r origin c = false) as Hs.
        { destruct (straddles r origin c) eqn:Es; [|reflexivity].
          assert (existsb (straddles r origin) (sort_coords (x :: xs)) = true); [|congruence].
          apply existsb_exists. eauto. }
        unfold straddles in Hs. lia.
      + apply (windows_one_cell_each wavg rules nl prem _ out H).
  Qed.
  Theorem ref_period_straddle r origin prem c cells :
    In c cells -> snd (window_of r origin (ps c)) < pe c ->
    ref_period wavg rules nl r origin prem cells = Err TriangleError.
  Proof.
    intros Hc Hs. unfold ref_period. destruct cells as [|x xs]; [destruct Hc|].
    assert (existsb (straddles r origin) (sort_coords (x :: xs)) = true) as ->; [|reflexivity].
    apply existsb_exists. exists c. split; [now apply sort_coords_In|]. unfold straddles. lia.
  Qed.
  (* loses nothing: per evaluation date, the total of every summed field over the output of
     _aggregate_period equals its total over the slice's input cells *)
  Theorem ref_period_conserves r origin prem cells out k i e :
    ref_period wavg rules nl r origin prem cells = Ok out ->
    lookup_rule rules k = Some (RSum k) -> (prem = true \/ mem_str k nl = false) ->
    (forall o, In o out -> in_range i (getv k o)) ->
    total_at e i k out = total_at e i k cells.
  Proof.
    unfold ref_period. destruct cells as [|x xs].
    - intros H. inversion H. reflexivity.
    - destruct (existsb (straddles r origin) (sort_coords (x :: xs))); [discriminate|].
      intros H Hl Hp Hr. rewrite (windows_conserve wavg rules nl prem _ out k i e H Hl Hp Hr).
      unfold total_at. rewrite map_map. cbn [to_window ev getv cvals].
      change (fun c => if ev c =? e then vmeas i (getv k (to_window r origin c)) else 0)
        with (fun c => if ev c =? e then vmeas i (getv k c) else 0).
      apply sort_coords_sum.
  Qed.
End Ref.
