(** C14 -- writer lemma for the wide form: under [frame_hyps] the table is one non-empty block of
    rows per cell, [to_wide_rows] succeeds, and the scenario column is dropped only when every cell
    has a single row. *)
From Coq Require Import ZArith List Bool Lia ZifyBool.
From Bermuda Require Import Model.Base Model.Frame Proofs.FrameLib Proofs.FrameKey Proofs.FrameRow Proofs.FrameWide1.
Import ListNotations.
Local Open Scope Z_scope.

Lemma frame_hyps_inv fn dn ln t : frame_hyps fn dn ln t = true ->
  t <> [] /\ NoDup (reserved_names ++ fn ++ dn ++ ln)
  /\ (forall c, In c t -> cell_shape_ok fn dn ln c = true)
  /\ nodup_b same_coords t = true
  /\ (forallb cum_ok t = true \/ forallb inc_ok t = true).
Proof.
  unfold frame_hyps. intros H. repeat (apply andb_prop in H as [H ?]).
  repeat split.
  - destruct t; [discriminate|congruence].
  - apply (nodup_b_NoDup str_eqb str_eqb_eq). assumption.
  - apply forallb_forall. assumption.
  - assumption.
  - apply orb_true_iff. assumption.
Qed.

Lemma cell_shape_inv fn dn ln c : cell_shape_ok fn dn ln c = true ->
  cvals c <> [] /\ NoDup (keys (cvals c))
  /\ NoDup (keys (details (cmeta c))) /\ NoDup (keys (loss_details (cmeta c)))
  /\ meta_ok (cmeta c) = true
  /\ ordered_in fn (keys (cvals c)) = true
  /\ ordered_in dn (keys (details (cmeta c))) = true
  /\ ordered_in ln (keys (loss_details (cmeta c))) = true.
Proof.
  unfold cell_shape_ok. intros H. repeat (apply andb_prop in H as [H ?]).
  repeat split; auto; try (apply (nodup_b_NoDup str_eqb str_eqb_eq); assumption).
  destruct (cvals c); [discriminate|congruence].
Qed.

Definition uniform (c : cell) : Prop := scalar_cell c = true \/ sample_cell c = true.
Lemma cum_ok_inv c : cum_ok c = true -> ckind c = KCum /\ prev c = None /\ uniform c.
Proof.
  unfold cum_ok, uniform. destruct (ckind c); try discriminate. destruct (prev c); try discriminate.
  intros H. apply orb_true_iff in H. auto.
Qed.
Lemma inc_ok_inv c : inc_ok c = true -> ckind c = KInc /\ (exists d, prev c = Some d) /\ scalar_cell c = true.
Proof.
  unfold inc_ok. destruct (ckind c); try discriminate. destruct (prev c); try discriminate. eauto.
Qed.

Lemma nrows_scalar c : scalar_cell c = true -> nrows c = 1%nat.
Proof.
  unfold scalar_cell, nrows. destruct (cvals c) as [|[k v] r]; auto. cbn. destruct v; cbn; try discriminate; auto.
Qed.
Lemma nrows_sample c : sample_cell c = true -> (2 <= nrows c)%nat.
Proof.
  unfold sample_cell, nrows. destruct (cvals c) as [|[k [x| |b xs]] r]; try discriminate.
  intros H. apply andb_prop in H as [H _]. apply Nat.leb_le in H. exact H.
Qed.
Lemma nrows_pos c : uniform c -> (1 <= nrows c)%nat.
Proof. intros [H|H]; [rewrite nrows_scalar; auto | apply nrows_sample in H; lia]. Qed.

Lemma wide_rows_ok hp mn fn c :
  uniform c -> cvals c <> [] -> ordered_in fn (keys (cvals c)) = true ->
  wide_rows_of_cell hp mn fn c = Ok (map (wrow hp mn fn c) (seq 0 (nrows c))).
Proof.
  intros Hu Hne Ho. unfold wide_rows_of_cell.
  assert (Hk : exists k, In k (keys (cvals c)) /\ In k fn).
  { destruct (cvals c) as [|[k v] r] eqn:E; [congruence|]. exists k. split; [cbn; auto|].
    apply (ordered_in_incl _ _ Ho). cbn; auto. }
  assert (Hcl : common_len c fn = Ok (nrows c)).
  { destruct Hu as [Hs|Hs].
    - rewrite nrows_scalar by auto. apply common_len_scalar; auto.
      destruct Hk as [k [_ Hk]]. destruct fn; [destruct Hk|congruence].
    - apply common_len_sample; auto. }
  rewrite Hcl. reflexivity.
Qed.

Definition adjb (d : bool) (r : row) : row := if d then drop_col c_scenario r else r.
Definition wrow' (d hp : bool) (mn fn : list str) (c : cell) (ndx : nat) : row := adjb d (wrow hp mn fn c ndx).
Definition wtable (d hp : bool) (mn fn : list str) (t : list cell) : table :=
  flat_map (fun c => map (wrow' d hp mn fn c) (seq 0 (nrows c))) t.

Lemma map_flat_map {A B C} (f : B -> C) (g : A -> list B) l :
  map f (flat_map g l) = flat_map (fun a => map f (g a)) l.
Proof. induction l; cbn; auto. rewrite map_app. congruence. Qed.

Lemma seq_S_first n : seq 0 (S n) = 0%nat :: seq 1 n.
Proof. reflexivity. Qed.

(** the writer: success, block structure, and when the scenario column is dropped *)
Theorem to_wide_rows_ok fn dn ln t :
  frame_hyps fn dn ln t = true ->
  exists d, to_wide_rows fn dn ln t = Ok (wtable d (tri_is_inc t) (attr_names t ++ dn ++ ln) fn t)
            /\ (d = true -> forall c, In c t -> nrows c = 1%nat).
Proof.
  intros H. destruct (frame_hyps_inv _ _ _ _ H) as (Hne & Hnames & Hshape & Hnd & Hkind).
  assert (Hunif : forall c, In c t -> uniform c).
  { intros c Hc. destruct Hkind as [Hk|Hk]; rewrite forallb_forall in Hk; specialize (Hk c Hc).
    - apply cum_ok_inv in Hk. tauto.
    - apply inc_ok_inv in Hk. left. tauto. }
  set (hp := tri_is_inc t). set (mn := attr_names t ++ dn ++ ln).
  unfold to_wide_rows. fold hp. fold mn.
  rewrite (concat_result_ok _ (fun c => map (wrow hp mn fn c) (seq 0 (nrows c)))).
  2:{ intros c Hc. destruct (cell_shape_inv _ _ _ _ (Hshape c Hc)) as (Hv & _ & _ & _ & _ & Ho & _).
      apply wide_rows_ok; auto. }
  cbn [bind].
  remember (flat_map (fun c => map (wrow hp mn fn c) (seq 0 (nrows c))) t) as R eqn:ER.
  assert (HinR : forall c k, In c t -> (k < nrows c)%nat -> In (wrow hp mn fn c k) R).
  { intros c k Hc Hk. rewrite ER. apply in_flat_map. exists c. split; auto. apply in_map. apply in_seq. lia. }
  assert (Hmap : forall d, map (adjb d) R = wtable d hp mn fn t).
  { intros d. rewrite ER. unfold wtable. rewrite map_flat_map. apply flat_map_ext_in'. intros c Hc.
    rewrite map_map. reflexivity. }
  clearbody hp mn.
  destruct t as [|c0 t']; [congruence|].
  assert (Hn0 : exists n, nrows c0 = S n).
  { pose proof (nrows_pos c0 (Hunif c0 (or_introl eq_refl))). destruct (nrows c0); [lia|eauto]. }
  destruct Hn0 as [n0 Hn0].
  assert (HR : R = wrow hp mn fn c0 0 :: (map (wrow hp mn fn c0) (seq 1 n0)
                    ++ flat_map (fun c => map (wrow hp mn fn c) (seq 0 (nrows c))) t')).
  { rewrite ER. cbn [flat_map]. rewrite Hn0, seq_S_first. reflexivity. }
  clear ER. unfold drop_constant_scenario. rewrite HR. cbv iota. rewrite get_scenario. rewrite <- HR.
  destruct (forallb (scen_eq_first (TNum (1024 * (Z.of_nat 0 + 1)))) (map (get c_scenario) R)
            || forallb is_nan (map (get c_scenario) R)) eqn:Ec.
  - exists true. split.
    + f_equal. apply (Hmap true).
    + intros _ c Hc.
      assert (Hall : forall r, In r R -> get c_scenario r = TNum 1024).
      { apply orb_true_iff in Ec as [Ec|Ec].
        - rewrite forallb_forall in Ec. intros r Hr. specialize (Ec (get c_scenario r) (in_map _ _ _ Hr)).
          unfold scen_eq_first in Ec. destruct (get c_scenario r); try discriminate.
          apply Z.eqb_eq in Ec. change (1024 * (Z.of_nat 0 + 1)) with 1024 in Ec. congruence.
        - exfalso. rewrite HR in Ec. cbn [map forallb] in Ec. rewrite get_scenario in Ec. discriminate. }
      destruct (Hunif c Hc) as [Hs|Hs]; [apply nrows_scalar; auto|]. exfalso.
      pose proof (nrows_sample c Hs) as H2.
      specialize (Hall _ (HinR c 1%nat Hc H2)). rewrite get_scenario in Hall. discriminate.
  - exists false. split; [|discriminate].
    f_equal. rewrite <- (Hmap false). unfold adjb. symmetry. apply map_id.
Qed.
