(** C04 helper lemmas 6: the conversions THROUGH the Triangle constructor (Model/Order.mk_triangle,
    C01).  For a canonical triangle (sorted by cell_cmp, cells comparable, py-equal metadata
    identical) the model's first-occurrence grouping yields exactly the (slice, period) rows as
    consecutive segments; the rows emitted by the conversions, concatenated, are already sorted, so
    the constructor's sort is the identity on them. *)
From Coq Require Import ZArith List Bool Lia Permutation Sorted.
From Bermuda Require Import Model.Base Model.Order Proofs.OrderP Proofs.TriangleP.
From Bermuda Require Import Model.Basis Proofs.BasisEq Proofs.BasisVal Proofs.BasisRow
     Proofs.BasisTri Proofs.BasisP Proofs.BasisSpec.
Import ListNotations.
Local Open Scope Z_scope.

(* Metadata that Python considers equal (same comparison key) are the same object up to printing:
   what makes grouping by Metadata.__eq__ (the code) and by structural equality (the model) agree.
   The generators guarantee it and the harness asserts it on every case. *)
Definition meta_separated (t : list cell) : Prop :=
  forall a b, In a t -> In b t -> canonical_key (cmeta a) = canonical_key (cmeta b) -> cmeta a = cmeta b.

(* Boolean forms (used for the examples and usable by the harness) *)
Definition comparableb (t : list cell) : bool :=
  forallb (fun a => forallb (fun b => match cell_cmp a b with None => false | Some _ => true end) t) t.
Definition meta_separatedb (t : list cell) : bool :=
  forallb (fun a => forallb (fun b => negb (mkey_eqb (canonical_key (cmeta a)) (canonical_key (cmeta b)))
                                      || meta_seqb (cmeta a) (cmeta b)) t) t.
Lemma comparableb_spec t : comparableb t = true -> cells_comparable t.
Proof.
  unfold comparableb. rewrite forallb_forall. intros H a b Ha Hb.
  specialize (H a Ha). rewrite forallb_forall in H. specialize (H b Hb).
  destruct (cell_cmp a b); [discriminate|discriminate].
Qed.
Lemma meta_separatedb_spec t : meta_separatedb t = true -> meta_separated t.
Proof.
  unfold meta_separatedb. rewrite forallb_forall. intros H a b Ha Hb E.
  specialize (H a Ha). rewrite forallb_forall in H. specialize (H b Hb).
  rewrite E in H. rewrite (proj2 (EqP.mkey_eqb_eq _ _) eq_refl) in H. cbn in H.
  now apply meta_seqb_eq.
Qed.

(* ------------------------------------------------------------------ StronglySorted toolkit *)
Lemma SS_app {A} (R : A -> A -> Prop) l1 l2 :
  StronglySorted R l1 -> StronglySorted R l2 -> (forall a b, In a l1 -> In b l2 -> R a b) ->
  StronglySorted R (l1 ++ l2).
Proof.
  induction l1 as [|x l1 IH]; intros H1 H2 H; cbn; [exact H2|].
  inversion H1 as [|? ? S1 F1]; subst. constructor.
  - apply IH; auto. intros a b Ha Hb. apply H; cbn; auto.
  - apply Forall_app; split; [exact F1|]. apply Forall_forall. intros b Hb. apply H; cbn; auto.
Qed.
Lemma SS_impl_in {A} (R R' : A -> A -> Prop) l :
  StronglySorted R l -> (forall a b, In a l -> In b l -> R a b -> R' a b) -> StronglySorted R' l.
Proof.
  induction 1 as [|x l S IH F]; intros H; constructor.
  - apply IH. intros a b Ha Hb. apply H; cbn; auto.
  - rewrite Forall_forall in *. intros b Hb. apply H; cbn; auto.
Qed.
Lemma SS_and {A} (R1 R2 : A -> A -> Prop) l :
  StronglySorted R1 l -> StronglySorted R2 l -> StronglySorted (fun a b => R1 a b /\ R2 a b) l.
Proof.
  induction 1 as [|x l S IH F]; intros H2; constructor; inversion H2; subst; auto.
  rewrite Forall_forall in *. auto.
Qed.
Lemma Forall_transfer {A B} (P : A -> Prop) (P' : B -> Prop) (S : A -> B -> Prop) l l' :
  Forall2 S l l' -> Forall P l -> (forall a a', P a -> S a a' -> P' a') -> Forall P' l'.
Proof. induction 1; intros F H'; constructor; inversion F; subst; eauto. Qed.
Lemma SS_transfer {A B} (R : A -> A -> Prop) (R' : B -> B -> Prop) (S : A -> B -> Prop) l l' :
  Forall2 S l l' -> StronglySorted R l ->
  (forall a b a' b', R a b -> S a a' -> S b b' -> R' a' b') -> StronglySorted R' l'.
Proof.
  induction 1 as [|a a' l l' Sa F2 IH]; intros HS H; constructor; inversion HS; subst.
  - now apply IH.
  - eapply (Forall_transfer (R a) (R' a') S); eauto.
Qed.

(* ------------------------------------------------------------------ contiguity of rows in a sorted list *)
Definition contig (l : list cell) : Prop :=
  forall pre a l2 b l3 c, l = pre ++ a :: l2 ++ b :: l3 -> ckey a = ckey b -> In c l2 -> ckey c = ckey a.

Lemma contig_tail x l : contig (x :: l) -> contig l.
Proof. intros H pre a l2 b l3 c E. apply (H (x :: pre) a l2 b l3 c). now rewrite E. Qed.

Lemma lexl_z_cons x y r s :
  lexl zc (x :: r) (y :: s) = match x ?= y with Eq => lexl zc r s | c => Some c end.
Proof. cbn. unfold zc, total. destruct (x ?= y); reflexivity. Qed.

Lemma dates_between a b c :
  lexl zc (cell_dates c) (cell_dates a) <> Some Lt -> lexl zc (cell_dates b) (cell_dates c) <> Some Lt ->
  ps a = ps b -> pe a = pe b -> ps c = ps a /\ pe c = pe a.
Proof.
  unfold cell_dates. cbn [app]. rewrite !lexl_z_cons. intros H1 H2 Es Ee.
  destruct (Z.compare_spec (ps c) (ps a)) as [E1|L1|G1]; [|congruence|].
  - destruct (Z.compare_spec (ps b) (ps c)) as [E2|L2|G2]; [|congruence|lia].
    destruct (Z.compare_spec (pe c) (pe a)) as [E3|L3|G3]; [auto|congruence|].
    destruct (Z.compare_spec (pe b) (pe c)) as [E4|L4|G4]; [lia|congruence|lia].
  - destruct (Z.compare_spec (ps b) (ps c)) as [E2|L2|G2]; [lia|congruence|lia].
Qed.

Lemma sorted_contig t :
  StronglySorted cell_le t -> cells_comparable t -> meta_separated t -> contig t.
Proof.
  intros Hs Hc Hm pre a l2 b l3 c -> K Hin.
  assert (Ia : In a (pre ++ a :: l2 ++ b :: l3)) by (rewrite in_app_iff; cbn; auto).
  assert (Ic : In c (pre ++ a :: l2 ++ b :: l3))
    by (rewrite in_app_iff; cbn; rewrite in_app_iff; auto).
  assert (Ib : In b (pre ++ a :: l2 ++ b :: l3))
    by (rewrite in_app_iff; cbn; rewrite in_app_iff; cbn; auto).
  destruct (ckey_parts _ _ K) as [Ks [Ke Km]].
  assert (Kab : mkey_of a = mkey_of b) by (unfold mkey_of; now rewrite Km).
  pose proof (slices_contiguous pre a l2 b l3 c Hs Hc Kab Hin) as Kc.
  apply in_split in Hin. destruct Hin as [u [v ->]].
  assert (H1 := sorted_pairs pre a u c (v ++ b :: l3)).
  rewrite <- app_assoc in Hs. cbn in Hs. specialize (H1 Hs (Hc a c Ia Ic)).
  assert (H2 := sorted_pairs (pre ++ a :: u) c v b l3).
  rewrite <- app_assoc in H2. cbn in H2. specialize (H2 Hs (Hc c b Ic Ib)).
  destruct H1 as [L|[_ D1]].
  { rewrite Kc, (o_refl _ mkeyc_ok) in L. discriminate. }
  destruct H2 as [L|[_ D2]].
  { rewrite Kc, Kab, (o_refl _ mkeyc_ok) in L. discriminate. }
  destruct (dates_between a b c D1 D2 Ks Ke) as [E1 E2].
  unfold ckey. rewrite E1, E2. f_equal. apply Hm; auto.
Qed.

(* maximal runs of consecutive cells with one (period, metadata) *)
Fixpoint runs (l : list cell) : list (list cell) :=
  match l with
  | [] => []
  | c :: r => match runs r with
              | (h :: g) :: rs => if same_key c h then (c :: h :: g) :: rs else [c] :: (h :: g) :: rs
              | [] :: rs => [c] :: rs               (* never happens: runs are non-empty *)
              | [] => [[c]]
              end
  end.

Lemma concat_runs l : concat (runs l) = l.
Proof.
  induction l as [|c r IH]; [reflexivity|]. cbn [runs].
  destruct (runs r) as [|[|h g] rs] eqn:E.
  - cbn in *. now rewrite <- IH.
  - cbn in *. now rewrite <- IH.
  - destruct (same_key c h); cbn in *; now rewrite <- IH.
Qed.

Lemma runs_row_key l : forallb row_key_okb (runs l) = true.
Proof.
  induction l as [|c r IH]; [reflexivity|]. cbn [runs].
  destruct (runs r) as [|[|h g] rs] eqn:E; try reflexivity; [discriminate|].
  destruct (same_key c h) eqn:K.
  - cbn [forallb] in *. apply andb_true_iff in IH as [I1 I2]. rewrite I2, andb_true_r.
    cbn [row_key_okb forallb] in *. rewrite K. cbn [andb].
    apply forallb_forall. intros x Hx. rewrite forallb_forall in I1. specialize (I1 x Hx).
    apply same_key_iff in K, I1. apply same_key_iff. congruence.
  - cbn [forallb] in *. now rewrite IH.
Qed.

Lemma runs_heads l : contig l -> heads_distinctb (runs l) = true.
Proof.
  induction l as [|c r IH]; intros C; [reflexivity|].
  specialize (IH (contig_tail _ _ C)). pose proof (concat_runs r) as CR. cbn [runs].
  destruct (runs r) as [|[|h g] rs] eqn:E; try reflexivity; [discriminate|].
  cbn [heads_distinctb] in IH. apply andb_true_iff in IH as [I1 I2].
  destruct (same_key c h) eqn:K.
  - cbn [heads_distinctb]. rewrite I2, andb_true_r.
    apply forallb_forall. intros r' Hr'. rewrite forallb_forall in I1. specialize (I1 r' Hr').
    destruct r' as [|h' g']; [discriminate|]. apply same_key_iff in K.
    rewrite (same_key_ext h' c h' h) by congruence. exact I1.
  - cbn [heads_distinctb]. rewrite I1, I2. cbn [andb]. rewrite !andb_true_r.
    apply andb_true_iff; split.
    + apply negb_true_iff. apply same_key_false in K. apply same_key_false. congruence.
    + apply forallb_forall. intros r' Hr'. rewrite forallb_forall in I1. specialize (I1 r' Hr').
      destruct r' as [|h' g']; [discriminate|].
      apply negb_true_iff, same_key_false. intros Kc.
      (* c ... h ... h' with ckey h' = ckey c forces ckey h = ckey c *)
      apply in_split in Hr'. destruct Hr' as [u [v ->]].
      cbn [concat] in CR. rewrite concat_app in CR. cbn [concat] in CR.
      assert (Kh : ckey h = ckey c).
      { apply (C [] c (h :: g ++ concat u) h' (g' ++ concat v) h).
        - cbn. rewrite <- CR. cbn. f_equal. f_equal. now rewrite <- !app_assoc.
        - congruence.
        - now left. }
      apply same_key_false in K. congruence.
Qed.

Lemma runs_rows_okb l : contig l -> rows_okb (runs l) = true.
Proof. intros C. unfold rows_okb. now rewrite runs_row_key, runs_heads. Qed.

(** (d) grouping of a canonical triangle = its runs = consecutive (slice, period) segments *)
Lemma group_cells_sorted t :
  StronglySorted cell_le t -> cells_comparable t -> meta_separated t ->
  group_cells t = runs t /\ concat (group_cells t) = t /\ rows_okb (group_cells t) = true.
Proof.
  intros Hs Hc Hm. pose proof (runs_rows_okb t (sorted_contig t Hs Hc Hm)) as RO.
  assert (E : group_cells t = runs t).
  { rewrite <- (concat_runs t) at 1. now apply group_cells_concat. }
  rewrite E. split; [reflexivity|]. split; [apply concat_runs | exact RO].
Qed.

(* ------------------------------------------------------------------ sortedness survives the conversions *)
(* same coordinates up to prev / kind / values *)
Definition cell_sim (c o : cell) : Prop := ckey o = ckey c /\ ev o = ev c.

Definition Qrel (a b : cell) : Prop :=
  cell_cmp b a <> Some Lt /\ cell_cmp b a <> None
  /\ (ckey a = ckey b -> ev a < ev b) /\ (mkey_of a = mkey_of b -> cmeta a = cmeta b).

Lemma transfer_pair a0 b0 a b : Qrel a0 b0 -> cell_sim a0 a -> cell_sim b0 b -> cell_le a b.
Proof.
  intros [H1 [H2 [H3 H4]]] [Ka Ea] [Kb Eb]. unfold cell_le, le.
  destruct (ckey_parts _ _ Ka) as [As [Ae Am]]. destruct (ckey_parts _ _ Kb) as [Bs [Be Bm]].
  rewrite cell_cmp_unfold in *. unfold mkey_of in *. rewrite Am, Bm.
  destruct (mkeyc (canonical_key (cmeta b0)) (canonical_key (cmeta a0))) as [[| |]|] eqn:M;
    try congruence.
  apply (o_eq _ mkeyc_ok) in M. specialize (H4 (eq_sym M)).
  unfold cell_dates in *. cbn [app] in *. rewrite !lexl_z_cons in *. rewrite As, Ae, Bs, Be, Ea, Eb.
  destruct (Z.compare_spec (ps b0) (ps a0)) as [E1|L1|G1]; try congruence.
  destruct (Z.compare_spec (pe b0) (pe a0)) as [E2|L2|G2]; try congruence.
  assert (K : ckey a0 = ckey b0) by (unfold ckey; congruence). specialize (H3 K).
  destruct (Z.compare_spec (ev b0) (ev a0)) as [E3|L3|G3]; try lia. congruence.
Qed.

Lemma sorted_transfer t t' :
  StronglySorted Qrel t -> Forall2 cell_sim t t' -> StronglySorted cell_le t'.
Proof.
  intros HS F. apply (SS_transfer Qrel cell_le cell_sim t t' F HS).
  intros a b a' b' Q Sa Sb. eapply transfer_pair; eauto.
Qed.

Lemma asc_SS : forall rest p, ascb p rest = true -> StronglySorted (fun a b => ev a < ev b) (p :: rest).
Proof.
  induction rest as [|n r IH]; intros p H; [repeat constructor|].
  cbn [ascb] in H. apply andb_true_iff in H as [L A]. apply Z.ltb_lt in L.
  specialize (IH n A). constructor; [exact IH|]. constructor; [exact L|].
  inversion IH as [|? ? _ F]; subst. eapply Forall_impl; [|exact F]. cbn. intros; lia.
Qed.

Lemma rows_okb_tail r rs : rows_okb (r :: rs) = true -> rows_okb rs = true.
Proof.
  unfold rows_okb. cbn [forallb heads_distinctb]. rewrite !andb_true_iff. tauto.
Qed.

Lemma rows_ev_sorted rows :
  rows_okb rows = true -> forallb row_ascb rows = true ->
  StronglySorted (fun a b => ckey a = ckey b -> ev a < ev b) (concat rows).
Proof.
  induction rows as [|r rs IH]; intros RO AS; [constructor|]. cbn [concat].
  cbn [forallb] in AS. apply andb_true_iff in AS as [A1 A2].
  pose proof (rows_okb_tail _ _ RO) as RO'. apply SS_app.
  - destruct r as [|p rest]; [constructor|]. cbn [row_ascb] in A1.
    eapply SS_impl_in; [apply (asc_SS rest p A1)|]. auto.
  - now apply IH.
  - intros a b Ha Hb K. exfalso.
    unfold rows_okb in RO. cbn [forallb heads_distinctb] in RO.
    rewrite !andb_true_iff in RO. destruct RO as [[K1 K2] [D1 D2]].
    destruct (row_key_okb_spec _ K1) as [h [cs [-> HC]]].
    assert (Ka : ckey a = ckey h).
    { destruct Ha as [->|Ha]; [reflexivity|]. rewrite Forall_forall in HC. now apply HC. }
    apply in_concat in Hb. destruct Hb as [r' [Hr' Hb]].
    rewrite forallb_forall in D1. specialize (D1 r' Hr').
    rewrite forallb_forall in K2. specialize (K2 r' Hr').
    destruct (row_key_okb_spec _ K2) as [h' [cs' [-> HC']]].
    assert (Kb : ckey b = ckey h').
    { destruct Hb as [->|Hb]; [reflexivity|]. rewrite Forall_forall in HC'. now apply HC'. }
    apply negb_true_iff, same_key_false in D1. congruence.
Qed.

Lemma Q_sorted rows :
  StronglySorted cell_le (concat rows) -> cells_comparable (concat rows) ->
  meta_separated (concat rows) -> rows_okb rows = true -> forallb row_ascb rows = true ->
  StronglySorted Qrel (concat rows).
Proof.
  intros Hs Hc Hm RO AS.
  pose proof (SS_and _ _ _ Hs (rows_ev_sorted rows RO AS)) as H.
  eapply SS_impl_in; [exact H|]. intros a b Ha Hb [H1 H2]. unfold Qrel.
  split; [exact H1|]. split; [apply Hc; auto|]. split; [exact H2|].
  intros K. apply Hm; auto.
Qed.

(* row-wise similarity gives cell-wise similarity of the concatenations *)
Lemma row_sim_cells : forall row out, row_sim row out -> Forall2 cell_sim row out.
Proof.
  induction row as [|c r IH]; intros [|o os] [K E]; cbn [map] in *; try discriminate; constructor.
  - apply cons_inv in K as [K _]. apply cons_inv in E as [E _]. split; auto.
  - apply IH. apply cons_inv in K as [_ K]. apply cons_inv in E as [_ E]. split; auto.
Qed.
Lemma rows_sim_concat rows outs :
  Forall2 row_sim rows outs -> Forall2 cell_sim (concat rows) (concat outs).
Proof.
  induction 1 as [|r o rs os S _ IH]; [constructor|]. cbn [concat].
  apply Forall2_app; [now apply row_sim_cells | exact IH].
Qed.

Lemma mk_triangle_fix k l :
  StronglySorted cell_le l -> Forall (fun c => ckind c = k) l -> mk_triangle l = Ok l.
Proof.
  intros Hs Hk. unfold mk_triangle.
  rewrite (proj2 (same_kind_spec l) (ex_intro _ k Hk)). f_equal. now apply sorted_is_fixpoint.
Qed.

(* kinds of the increments, read off the structure predicate *)
Lemma tail_structb_kinds : forall rest p out,
  inc_tail_structb p rest out = true -> Forall (fun o => ckind o = KInc) out.
Proof.
  induction rest as [|n r IH]; intros p [|o os] H; try discriminate; constructor.
  - cbn [inc_tail_structb] in H. apply andb_true_iff in H as [H _]. unfold inc_cell_okb in H.
    rewrite !andb_true_iff in H. destruct H as [[[[[[[K _] _] _] _] _] _] _].
    destruct (ckind o); try discriminate; reflexivity.
  - cbn [inc_tail_structb] in H. apply andb_true_iff in H as [_ H]. eapply IH; eauto.
Qed.
Lemma rows_structb_kinds : forall rows outs,
  rows_structb rows outs = true -> Forall (fun o => ckind o = KInc) (concat outs).
Proof.
  induction rows as [|r rs IH]; intros [|o os] H; try discriminate; [constructor|].
  cbn [rows_structb] in H. apply andb_true_iff in H as [H1 H2]. cbn [concat].
  apply Forall_app; split; [|now apply IH].
  destruct r as [|c0 rest], o as [|o0 os0]; try discriminate; [constructor|].
  cbn [inc_row_structb] in H1. apply andb_true_iff in H1 as [K T]. constructor.
  - unfold inc_cell_okb in K. rewrite !andb_true_iff in K.
    destruct K as [[[[[[[K _] _] _] _] _] _] _]. destruct (ckind o0); try discriminate; reflexivity.
  - eapply tail_structb_kinds; eauto.
Qed.

Lemma cum_tail_okb_weaken d c0 : forall rest p,
  cum_tail_okb d true c0 p rest = true -> cum_tail_okb d false c0 p rest = true.
Proof.
  induction rest as [|n r IH]; intros p H; [reflexivity|]. cbn [cum_tail_okb] in *.
  rewrite !andb_true_iff in *. destruct H as [[[[[A B] C] D] E] F].
  repeat split; auto. now apply vals_compatb_weaken.
Qed.
Lemma cum_row_okb_weaken d row : cum_row_okb d true row = true -> cum_row_okb d false row = true.
Proof.
  destruct row as [|c0 rest]; [discriminate|]. cbn [cum_row_okb]. rewrite !andb_true_iff.
  intros [H T]. split; auto. now apply cum_tail_okb_weaken.
Qed.
Lemma cum_rows_okb_weaken d rows :
  forallb (cum_row_okb d true) rows = true -> forallb (cum_row_okb d false) rows = true.
Proof. rewrite !forallb_forall. intros H r Hr. apply cum_row_okb_weaken. auto. Qed.

(* the complete incremental triangle, row by row, with everything the constructor needs *)
Lemma tri_cum_full rows :
  rows_okb rows = true -> forallb (inc_row_okb SD) rows = true ->
  exists outs, to_cumulative SD (concat rows) = Ok (concat outs)
               /\ Forall2 row_sim rows outs /\ rows_structb outs rows = true
               /\ Forall (fun c => ckind c = KCum) (concat outs).
Proof.
  intros RO OK. destruct rows as [|r0 rs0] eqn:ER.
  { exists []. repeat split; constructor. }
  rewrite <- ER in *.
  pose proof (rows_asc_of _ _ (inc_row_okb_asc SD) OK) as HA.
  assert (IX : is_incremental (concat rows) = true).
  { subst rows. apply is_incremental_concat_true. pose proof (inc_rows_inc _ OK) as Q. now inversion Q. }
  rewrite to_cumulative_rows by auto.
  destruct (mapM_Forall (row_to_cumulative SD)
              (fun r o => (inc_row_structb o r = true /\ Forall (fun y => ckind y = KCum) o)
                          /\ row_sim r o) rows) as [outs [E F]].
  { pose proof (rows_okb_row_key _ RO) as HK. apply forallb_Forall in OK.
    rewrite Forall_forall in *. intros r Hr.
    destruct (row_cum_struct r (OK r Hr)) as [o [Eo [S Kc]]]. exists o.
    destruct (row_cum_shape SD r o (HK r Hr) Eo) as [S1 _]. repeat split; auto; apply S1. }
  rewrite E. cbn [bind]. exists outs.
  apply Forall2_and in F as [F1 F2]. apply Forall2_and in F1 as [F1 F1'].
  repeat split; auto.
  - apply rows_structb_Forall2. now apply Forall2_flip'.
  - apply (Forall2_right _ _ _) in F1'. clear - F1'.
    induction F1' as [|o os H _ IH]; [constructor|]. cbn [concat]. apply Forall_app; auto.
Qed.

(* ------------------------------------------------------------------ whole triangles through the constructor *)
Section Canonical.
Variable t : list cell.
Hypothesis Hmk : mk_triangle t = Ok t.
Hypothesis Hc : cells_comparable t.
Hypothesis Hm : meta_separated t.

Let rows := group_cells t.
Lemma canon_sorted : StronglySorted cell_le t.
Proof. apply (mk_triangle_canonical t t Hc Hmk). Qed.
Lemma canon_rows : concat rows = t /\ rows_okb rows = true /\ rows = runs t.
Proof.
  destruct (group_cells_sorted t canon_sorted Hc Hm) as [A [B C]]. unfold rows. auto.
Qed.

Lemma canon_Q : forallb row_ascb rows = true -> StronglySorted Qrel t.
Proof.
  intros AS. destruct canon_rows as [CT [RO _]]. rewrite <- CT.
  apply Q_sorted; auto; rewrite CT; auto. apply canon_sorted.
Qed.

Lemma canon_to_incremental :
  forallb (cum_row_okb SD false) rows = true ->
  exists outs, to_incremental SD t = Ok (concat outs) /\ mk_triangle (concat outs) = Ok (concat outs)
               /\ rows_structb rows outs = true /\ Forall2 row_sim rows outs.
Proof.
  intros OK. destruct canon_rows as [CT [RO _]].
  pose proof (rows_asc_of _ _ (cum_row_okb_asc SD false) OK) as AS.
  destruct (tri_inc_struct_heads rows RO OK) as [outs [E [S [SIM _]]]]. rewrite CT in E.
  exists outs. repeat split; auto.
  apply (mk_triangle_fix KInc).
  - apply (sorted_transfer t); [now apply canon_Q|]. rewrite <- CT. now apply rows_sim_concat.
  - now apply (rows_structb_kinds rows).
Qed.

Lemma canon_roundtrip_cum :
  forallb (cum_row_okb SD true) rows = true ->
  bind (bind (to_incremental SD t) mk_triangle) (fun i => bind (to_cumulative SD i) mk_triangle)
  = Ok (map retag_cum t).
Proof.
  intros OK. destruct canon_rows as [CT [RO _]].
  pose proof (cum_rows_okb_weaken _ _ OK) as OK'.
  pose proof (rows_asc_of _ _ (cum_row_okb_asc SD true) OK) as AS.
  destruct (canon_to_incremental OK') as [outs [E [M _]]].
  rewrite E. cbn [bind]. rewrite M. cbn [bind].
  destruct (tri_inc_cum rows RO OK) as [incs [E1 E2]]. rewrite CT in E1, E2.
  rewrite E in E1. injection E1 as <-. rewrite E2. cbn [bind].
  apply (mk_triangle_fix KCum).
  - apply (sorted_transfer t); [now apply canon_Q|].
    clear. induction t as [|c r IH]; constructor; auto. split; reflexivity.
  - apply Forall_forall. intros c Hin. apply in_map_iff in Hin. destruct Hin as [x [<- _]]. reflexivity.
Qed.

Lemma canon_to_cumulative :
  forallb (inc_row_okb SD) rows = true ->
  exists outs, to_cumulative SD t = Ok (concat outs) /\ mk_triangle (concat outs) = Ok (concat outs)
               /\ rows_structb outs rows = true /\ Forall2 row_sim rows outs
               /\ Forall (fun c => ckind c = KCum) (concat outs).
Proof.
  intros OK. destruct canon_rows as [CT [RO _]].
  pose proof (rows_asc_of _ _ (inc_row_okb_asc SD) OK) as AS.
  destruct (tri_cum_full rows RO OK) as [outs [E [SIM [S K]]]]. rewrite CT in E.
  exists outs. repeat split; auto.
  apply (mk_triangle_fix KCum); auto.
  apply (sorted_transfer t); [now apply canon_Q|]. rewrite <- CT. now apply rows_sim_concat.
Qed.

Lemma canon_roundtrip_inc :
  forallb (inc_row_okb SD) rows = true ->
  bind (bind (to_cumulative SD t) mk_triangle) (fun c => bind (to_incremental SD c) mk_triangle)
  = Ok t.
Proof.
  intros OK. destruct canon_rows as [CT [RO _]].
  destruct (canon_to_cumulative OK) as [outs [E [M _]]].
  rewrite E. cbn [bind]. rewrite M. cbn [bind].
  destruct (tri_cum_inc rows RO OK) as [cums [E1 E2]]. rewrite CT in E1, E2.
  rewrite E in E1. injection E1 as <-. rewrite E2. cbn [bind]. exact Hmk.
Qed.
End Canonical.

(* ------------------------------------------------------------------ final forms for every d with spec_ok d *)
Lemma PC_grouping t :
  mk_triangle t = Ok t -> cells_comparable t -> meta_separated t ->
  group_cells t = runs t /\ concat (group_cells t) = t /\ rows_okb (group_cells t) = true.
Proof.
  intros Hmk Hc Hm. apply group_cells_sorted; auto. apply (mk_triangle_canonical t t Hc Hmk).
Qed.

Lemma PC_to_incremental d t :
  spec_ok d = true -> mk_triangle t = Ok t -> cells_comparable t -> meta_separated t ->
  forallb (cum_row_okb d false) (group_cells t) = true ->
  exists outs, bind (to_incremental d t) mk_triangle = Ok (concat outs)
               /\ to_incremental d t = Ok (concat outs)
               /\ rows_structb (group_cells t) outs = true.
Proof.
  intros H; std d H. intros Hmk Hc Hm OK.
  destruct (canon_to_incremental t Hmk Hc Hm OK) as [outs [E [M [S _]]]].
  exists outs. rewrite E. cbn [bind]. auto.
Qed.

Lemma PC_to_cumulative d x :
  spec_ok d = true -> mk_triangle x = Ok x -> cells_comparable x -> meta_separated x ->
  forallb (inc_row_okb d) (group_cells x) = true ->
  exists outs, bind (to_cumulative d x) mk_triangle = Ok (concat outs)
               /\ to_cumulative d x = Ok (concat outs)
               /\ rows_structb outs (group_cells x) = true
               /\ Forall (fun c => ckind c = KCum) (concat outs).
Proof.
  intros H; std d H. intros Hmk Hc Hm OK.
  destruct (canon_to_cumulative x Hmk Hc Hm OK) as [outs [E [M [S [_ K]]]]].
  exists outs. rewrite E. cbn [bind]. auto.
Qed.

Lemma PC_roundtrip_cum d t :
  spec_ok d = true -> mk_triangle t = Ok t -> cells_comparable t -> meta_separated t ->
  forallb (cum_row_okb d true) (group_cells t) = true ->
  bind (bind (to_incremental d t) mk_triangle) (fun i => bind (to_cumulative d i) mk_triangle)
  = Ok (map retag_cum t).
Proof. intros H; std d H. apply canon_roundtrip_cum. Qed.

Lemma PC_roundtrip_inc d x :
  spec_ok d = true -> mk_triangle x = Ok x -> cells_comparable x -> meta_separated x ->
  forallb (inc_row_okb d) (group_cells x) = true ->
  bind (bind (to_cumulative d x) mk_triangle) (fun c => bind (to_incremental d c) mk_triangle)
  = Ok x.
Proof. intros H; std d H. apply canon_roundtrip_inc. Qed.

(* ------------------------------------------------------------------ grouping by Python == (Model/BasisPy.v) *)
From Bermuda Require Import Model.BasisPy Proofs.EqP.

Lemma set_meta_id c : set_meta (cmeta c) c = c.
Proof. destruct c; reflexivity. Qed.

Lemma rep_meta_separated t c : meta_separated t -> In c t -> rep_meta t c = cmeta c.
Proof.
  intros Hm Hc. unfold rep_meta. destruct (find (same_row_py c) t) as [c'|] eqn:F; [|reflexivity].
  apply find_some in F as [Hin E]. unfold same_row_py in E. rewrite !andb_true_iff in E.
  destruct E as [_ E]. apply EqP.meta_pyeq_key in E. now apply Hm.
Qed.

(* on inputs whose ==-metadata are identical, grouping by == and by structure coincide *)
Lemma py_normalise_separated t : meta_separated t -> py_normalise t = t.
Proof.
  intros Hm. unfold py_normalise. rewrite <- (map_id t) at 2. apply map_ext_in.
  intros c Hc. rewrite rep_meta_separated by auto. apply set_meta_id.
Qed.
Lemma to_incremental_py_separated d t : meta_separated t -> to_incremental_py d t = to_incremental d t.
Proof.
  intros Hm. unfold to_incremental_py, to_incremental. rewrite py_normalise_separated by auto.
  destruct (is_incremental t); reflexivity.
Qed.
Lemma to_cumulative_py_separated d t : meta_separated t -> to_cumulative_py d t = to_cumulative d t.
Proof.
  intros Hm. unfold to_cumulative_py, to_cumulative. rewrite py_normalise_separated by auto.
  destruct (negb (is_incremental t)); reflexivity.
Qed.
