(** C01 -- the Triangle constructor: permutation invariance, canonical form, closure. *)
From Coq Require Import ZArith List Bool Lia Permutation Sorted.
From Bermuda Require Import Model.Base Model.Order Model.Eq Proofs.OrderP Proofs.EqP.
Import ListNotations.
Local Open Scope Z_scope.

Lemma ins_cell_is_ins x l : ins_cell x l = ins cell_cmp x l.
Proof. induction l as [|y r IH]; cbn; [reflexivity|]. unfold cell_ltb, ltb. now rewrite IH. Qed.
Lemma sort_cells_is_isort l : sort_cells l = isort cell_cmp l.
Proof.
  unfold sort_cells, isort. generalize (@nil cell).
  induction l as [|x r IH]; intros acc; cbn; [reflexivity|]. rewrite ins_cell_is_ins. apply IH.
Qed.

Definition cells_comparable := comparable cell_cmp.
(* order-equivalent cells (same metadata `==`, same coordinates) are identical *)
Definition cells_separated := separated cell_cmp.
Definition cell_le := le cell_cmp.

(* one class throughout *)
Definition all_kind (k : kind) (l : list cell) : Prop := Forall (fun c => ckind c = k) l.
Lemma kind_eqb_eq a b : kind_eqb a b = true <-> a = b.
Proof. destruct a, b; cbn; split; congruence. Qed.
Lemma same_kind_spec l : same_kind l = true <-> exists k, all_kind k l.
Proof.
  destruct l as [|c r]; cbn.
  - split; [exists KCell; constructor | reflexivity].
  - rewrite forallb_forall. split.
    + intros H. exists (ckind c). constructor; [reflexivity|]. apply Forall_forall. intros d Hd.
      now apply kind_eqb_eq, H.
    + intros [k H] d Hd. inversion H; subst. rewrite Forall_forall in H3. apply kind_eqb_eq. now apply H3.
Qed.
Lemma same_kind_perm l l' : Permutation l l' -> same_kind l = same_kind l'.
Proof.
  intros P. apply eq_true_iff_eq. rewrite !same_kind_spec. unfold all_kind.
  split; intros [k H]; exists k; [rewrite <- P | rewrite P]; exact H.
Qed.

(** Same cells in, same sequence out -- whatever the order in which they are supplied. *)
Theorem mk_triangle_perm l l' : Permutation l l' -> cells_comparable l -> cells_separated l ->
  mk_triangle l = mk_triangle l'.
Proof.
  intros P Hc Hs. unfold mk_triangle. rewrite (same_kind_perm _ _ P).
  destruct (same_kind l'); [|reflexivity]. f_equal. rewrite !sort_cells_is_isort.
  exact (isort_perm_invariant cell_tuple cell_cmp cell_cmp_ok l l' P Hc Hs).
Qed.

(** The constructor's result: a sorted permutation of the input with a single class. *)
Theorem mk_triangle_canonical l t : cells_comparable l -> mk_triangle l = Ok t ->
  Permutation l t /\ StronglySorted cell_le t /\ same_kind t = true.
Proof.
  intros Hc. unfold mk_triangle. destruct (same_kind l) eqn:Hk; [|discriminate].
  intros H. injection H as <-. rewrite sort_cells_is_isort. repeat split.
  - apply isort_perm.
  - exact (isort_sorted cell_tuple cell_cmp cell_cmp_ok l Hc).
  - rewrite <- (same_kind_perm _ _ (isort_perm cell_cmp l)). exact Hk.
Qed.
Theorem mk_triangle_mixed_rejected l : same_kind l = false -> mk_triangle l = Err TriangleError.
Proof. intros H. unfold mk_triangle. now rewrite H. Qed.

(** Whatever sorting algorithm the interpreter uses: any sorted permutation IS the model's result. *)
Theorem any_sorted_arrangement_is_the_triangle l s :
  Permutation l s -> StronglySorted cell_le s -> cells_comparable l -> cells_separated l ->
  s = sort_cells l.
Proof.
  intros P Hs Hc Hsep. rewrite sort_cells_is_isort.
  exact (any_sorted_is_isort cell_tuple cell_cmp cell_cmp_ok l s P Hs Hc Hsep).
Qed.

(* ---- the shape of a sorted cell list: slices contiguous and ascending, dates ascending ---- *)
Definition mkey_of (c : cell) : mkey := canonical_key (cmeta c).

Lemma cell_cmp_unfold a b : cell_cmp a b =
  match mkeyc (mkey_of a) (mkey_of b) with
  | Some Eq => lexl zc (cell_dates a) (cell_dates b)
  | r => r
  end.
Proof. reflexivity. Qed.

(* in a sorted list a later cell never has a smaller metadata key, and within equal metadata
   never smaller dates *)
Theorem sorted_pairs t1 a t2 b t3 : StronglySorted cell_le (t1 ++ a :: t2 ++ b :: t3) ->
  cell_cmp a b <> None ->
  (mkeyc (mkey_of a) (mkey_of b) = Some Lt) \/
  (mkey_of a = mkey_of b /\ lexl zc (cell_dates b) (cell_dates a) <> Some Lt).
Proof.
  intros Hs Hc.
  assert (Hle : cell_le a b).
  { induction t1 as [|x r IH]; cbn in Hs.
    - inversion Hs as [|? ? _ Hall]; subst. rewrite Forall_forall in Hall. apply Hall.
      rewrite in_app_iff. right. now left.
    - inversion Hs; subst. now apply IH. }
  unfold cell_le, le in Hle. rewrite cell_cmp_unfold in Hle, Hc.
  pose proof (o_opp _ mkeyc_ok (mkey_of a) (mkey_of b)) as Hopp.
  destruct (mkeyc (mkey_of a) (mkey_of b)) as [[| |]|] eqn:E.
  - right. pose proof (o_eq _ mkeyc_ok _ _ E) as Ek. split; [exact Ek|].
    specialize (Hopp _ eq_refl). cbn in Hopp. rewrite Hopp in Hle. exact Hle.
  - now left.
  - exfalso. specialize (Hopp _ eq_refl). cbn in Hopp. rewrite Hopp in Hle. now apply Hle.
  - congruence.
Qed.

(** slices are contiguous: between two cells of one slice there is no cell of another slice *)
Theorem slices_contiguous t1 a t2 b t3 c :
  StronglySorted cell_le (t1 ++ a :: t2 ++ b :: t3) -> cells_comparable (t1 ++ a :: t2 ++ b :: t3) ->
  mkey_of a = mkey_of b -> In c t2 -> mkey_of c = mkey_of a.
Proof.
  intros Hs Hc Hab Hin.
  apply in_split in Hin. destruct Hin as [u [v ->]].
  assert (Cac : cell_cmp a c <> None).
  { apply Hc; rewrite !in_app_iff; cbn; rewrite ?in_app_iff; cbn; auto 10. }
  assert (Ccb : cell_cmp c b <> None).
  { apply Hc; rewrite !in_app_iff; cbn; rewrite ?in_app_iff; cbn; auto 10. }
  (* a ... c ... b *)
  assert (H1 := sorted_pairs t1 a u c (v ++ b :: t3)).
  rewrite <- app_assoc in Hs. cbn in Hs. specialize (H1 Hs Cac).
  assert (H2 := sorted_pairs (t1 ++ a :: u) c v b t3).
  rewrite <- app_assoc in H2. cbn in H2. specialize (H2 Hs Ccb).
  destruct H1 as [Lac|[Eac _]]; [|now symmetry].
  destruct H2 as [Lcb|[Ecb _]].
  - (* key a < key c < key b = key a : impossible *)
    rewrite <- Hab in Lcb. pose proof (o_trans _ mkeyc_ok _ _ _ Lac Lcb) as Haa.
    rewrite (o_refl _ mkeyc_ok) in Haa. discriminate.
  - rewrite Ecb, <- Hab in Lac. rewrite (o_refl _ mkeyc_ok) in Lac. discriminate.
Qed.

(** a sorted list is a fixed point of the sort, hence a Triangle of the constructor *)
Lemma ins_at_end y acc : Forall (fun z => cell_le z y) acc -> ins cell_cmp y acc = acc ++ [y].
Proof.
  induction acc as [|z acc IHa]; cbn; intros H; [reflexivity|].
  inversion H as [|? ? Hzy Hr]; subst. unfold cell_le, le in Hzy. unfold ltb.
  destruct (cell_cmp y z) as [[| |]|] eqn:Ec; try congruence; now rewrite IHa.
Qed.
Lemma fold_sorted_id l : forall acc, StronglySorted cell_le (acc ++ l) ->
  fold_left (fun acc c => ins cell_cmp c acc) l acc = acc ++ l.
Proof.
  induction l as [|y l IHl]; intros acc Hs; cbn; [now rewrite app_nil_r|].
  rewrite ins_at_end.
  - rewrite IHl; rewrite <- app_assoc; [reflexivity|exact Hs].
  - clear IHl. induction acc as [|z acc IHa]; [constructor|].
    cbn in Hs. inversion Hs as [|? ? Hs' Hz]; subst. constructor.
    + rewrite Forall_forall in Hz. apply Hz. rewrite in_app_iff. cbn. auto.
    + now apply IHa.
Qed.
Lemma sorted_is_fixpoint s : StronglySorted cell_le s -> sort_cells s = s.
Proof. intros H. rewrite sort_cells_is_isort. exact (fold_sorted_id s [] H). Qed.

Theorem mk_triangle_idempotent l t : cells_comparable l -> mk_triangle l = Ok t -> mk_triangle t = Ok t.
Proof.
  intros Hc H. destruct (mk_triangle_canonical l t Hc H) as [_ [Hs Hk]].
  unfold mk_triangle. rewrite Hk. f_equal. now apply sorted_is_fixpoint.
Qed.

(** every chain of operations that ends each step in the constructor stays canonical *)
Definition op := list cell -> list cell.        (* the cell-level effect of a public operation *)
Definition step (t : result (list cell)) (f : op) : result (list cell) :=
  bind t (fun cells => mk_triangle (f cells)).
Lemma fold_err ops e : fold_left step ops (Err e) = Err e.
Proof. induction ops as [|g r IH]; cbn; [reflexivity|exact IH]. Qed.
Theorem ops_preserve_canonical (ops : list op) t0 tn :
  (* no step produces two cells whose metadata cannot be compared (same detail key, different kinds) *)
  cells_comparable t0 -> (forall f t, In f ops -> cells_comparable (f t)) ->
  mk_triangle t0 = Ok t0 ->
  fold_left step ops (Ok t0) = Ok tn ->
  StronglySorted cell_le tn /\ same_kind tn = true /\ mk_triangle tn = Ok tn.
Proof.
  revert t0. induction ops as [|f r IH]; intros t0 Hc0 Hc H0 H; cbn in H.
  - injection H as <-. destruct (mk_triangle_canonical t0 t0 Hc0 H0) as [_ [Hs Hk]]. auto.
  - destruct (mk_triangle (f t0)) as [t1|e] eqn:E.
    + assert (Cf : cells_comparable (f t0)) by (apply Hc; now left).
      apply (IH t1); [| |exact (mk_triangle_idempotent _ _ Cf E)|exact H].
      * destruct (mk_triangle_canonical _ _ Cf E) as [P _].
        exact (comparable_perm cell_cmp _ _ P Cf).
      * intros g t Hg. apply Hc. now right.
    + rewrite fold_err in H. discriminate.
Qed.
