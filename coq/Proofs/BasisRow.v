(** C04 helper lemmas 3: one row (cells of one slice and period, ascending evaluation date). *)
From Coq Require Import ZArith List Bool Lia.
From Bermuda Require Import Model.Base Model.Basis Proofs.BasisEq Proofs.BasisVal.
Import ListNotations.
Local Open Scope Z_scope.

Notation SD := std_desc.
Notation vsub := (fun a b : value => val_sub b a).

Lemma spec_ok_std d : spec_ok d = true -> d = std_desc.
Proof.
  destruct d as [cd ca o1 o2]. unfold spec_ok; cbn [carry_d carry_a off_first off_check].
  rewrite !andb_true_iff, !str_eqb_eq, !Z.eqb_eq. intros [[[-> ->] ->] ->]. reflexivity.
Qed.

Lemma values_diff_zip p n :
  keys p = keys n -> NoDup (keys n) -> values_diff SD p n = zipM EP vsub p n.
Proof. intros. unfold values_diff. now apply values_combine_zip. Qed.
Lemma values_add_zip p n :
  keys p = keys n -> NoDup (keys n) -> values_add SD p n = zipM EP val_add p n.
Proof. intros. unfold values_add. now apply values_combine_zip. Qed.

Lemma mk_inc_ok s e p v m vs :
  cell_dates_ok s e v = true -> p < v -> mk_inc s e p v m vs = Ok (mkCell KInc s e v (Some p) m vs).
Proof. intros H L. unfold mk_inc. rewrite H. apply Z.ltb_lt in L. now rewrite L. Qed.
Lemma mk_cum_ok s e v m vs :
  cell_dates_ok s e v = true -> mk_cum s e v m vs = Ok (mkCell KCum s e v None m vs).
Proof. intros H. unfold mk_cum. now rewrite H. Qed.

Lemma cell_dates_ps_le_ev s e v : cell_dates_ok s e v = true -> s <= v.
Proof. unfold cell_dates_ok. rewrite !andb_true_iff, !Z.leb_le. tauto. Qed.

Lemma cum_tail_okb_cons d mono c0 p n r :
  cum_tail_okb d mono c0 p (n :: r) = true ->
  is_inc n = false /\ ckey c0 = ckey n /\ cell_dates_ok (ps n) (pe n) (ev n) = true
  /\ ev p < ev n /\ vals_compatb mono (carry_d d) (cvals p) (cvals n) = true
  /\ cum_tail_okb d mono c0 n r = true.
Proof.
  cbn [cum_tail_okb]. rewrite !andb_true_iff, negb_true_iff, same_key_iff, Z.ltb_lt. tauto.
Qed.
Lemma inc_tail_okb_cons d c0 p n r :
  inc_tail_okb d c0 p (n :: r) = true ->
  is_inc n = true /\ ckey c0 = ckey n /\ cell_dates_ok (ps n) (pe n) (ev n) = true
  /\ prev n = Some (ev p) /\ ev p < ev n
  /\ vals_compatb true (carry_a d) (cvals p) (cvals n) = true /\ inc_tail_okb d c0 n r = true.
Proof.
  cbn [inc_tail_okb].
  rewrite !andb_true_iff, same_key_iff, Z.ltb_lt, (opt_eqb_eq Z.eqb Z.eqb_eq). tauto.
Qed.

Lemma ckey_parts a b : ckey a = ckey b -> ps a = ps b /\ pe a = pe b /\ cmeta a = cmeta b.
Proof. unfold ckey. inversion 1; auto. Qed.

Lemma keys_kshape a b : map kshape a = map kshape b -> keys a = keys b.
Proof.
  intros H. unfold keys. apply (f_equal (map fst)) in H. rewrite !map_map in H. exact H.
Qed.

Lemma value_seqb_refl v : value_seqb v v = true.
Proof. now apply value_seqb_eq. Qed.

(* ---------------------------------------------------------------- structure of the increments *)
Lemma zip_sub_values_ok P N : forall p n dv,
  keys p = keys n ->
  (forall k a, In (k, a) p -> assoc k P = Some a) ->
  (forall k b, In (k, b) n -> assoc k N = Some b) ->
  zipM EP vsub p n = Ok dv ->
  forallb (inc_value_okb (Some P) N) dv = true.
Proof.
  induction p as [|[k a] p IH]; destruct n as [|[k' b] n]; intros dv K HP HN E;
    try discriminate.
  - inversion E; reflexivity.
  - cbn [keys map fst] in K. injection K as <- K. rewrite zipM_cons in E.
    destruct (comb1 EP vsub k a b) as [kv|] eqn:C; [|discriminate]. cbn [bind] in E.
    destruct (zipM EP vsub p n) as [r|] eqn:R; [|discriminate]. cbn [bind] in E.
    injection E as <-. cbn [forallb]. apply andb_true_iff; split.
    + unfold inc_value_okb. unfold comb1 in C. destruct (str_eqb k EP) eqn:Q.
      * injection C as <-. cbn [fst snd]. rewrite (HN k b) by (left; reflexivity).
        rewrite Q. apply value_seqb_refl.
      * destruct (val_sub b a) as [v|] eqn:V; [|discriminate]. cbn [bind] in C.
        injection C as <-. cbn [fst snd]. rewrite (HN k b) by (left; reflexivity).
        rewrite Q, (HP k a) by (left; reflexivity). rewrite V. apply value_seqb_refl.
    + apply (IH n); auto.
      * intros; apply HP; right; assumption.
      * intros; apply HN; right; assumption.
Qed.

Lemma copy_values_ok N : forall n,
  (forall k b, In (k, b) n -> assoc k N = Some b) ->
  forallb (inc_value_okb None N) n = true.
Proof.
  induction n as [|[k b] n IH]; intros HN; cbn [forallb]; auto.
  apply andb_true_iff; split.
  - unfold inc_value_okb. cbn [fst snd]. rewrite (HN k b) by (left; reflexivity).
    apply value_seqb_refl.
  - apply IH. intros; apply HN; right; assumption.
Qed.

Lemma keys_eqb_refl l : list_eqb str_eqb l l = true.
Proof. now apply (list_eqb_eq str_eqb str_eqb_eq). Qed.

Lemma inc_tail_struct c0 : forall rest p,
  cum_tail_okb SD false c0 p rest = true -> NoDup (keys (cvals p)) ->
  exists incs, inc_tail SD (ps c0) (pe c0) (cmeta c0) (ev p) (cvals p) rest = Ok incs
               /\ inc_tail_structb p rest incs = true.
Proof.
  induction rest as [|n r IH]; intros p H ND.
  - exists []; split; reflexivity.
  - apply cum_tail_okb_cons in H as [_ [K [Dn [L [C T]]]]].
    cbn [carry_d SD] in C.
    pose proof (vals_compatb_keys _ _ _ _ C) as KK.
    assert (NDn : NoDup (keys (cvals n))) by (rewrite <- KK; exact ND).
    destruct (ckey_parts _ _ K) as [Ks [Ke Km]].
    destruct (zip_sub_defined _ _ _ C) as [dv [E1 E2]].
    destruct (IH n T NDn) as [incs [I1 I2]].
    cbn [inc_tail]. rewrite values_diff_zip, E1 by auto. cbn [bind].
    rewrite mk_inc_ok by (rewrite ?Ks, ?Ke; auto). cbn [bind].
    rewrite I1. cbn [bind]. eexists; split; [reflexivity|].
    cbn [inc_tail_structb]. rewrite I2, andb_true_r.
    unfold inc_cell_okb. cbn [ckind ps pe ev prev cmeta cvals kind_eqb opt_eqb].
    rewrite Ks, Ke, Km, !Z.eqb_refl. rewrite (proj2 (meta_seqb_eq _ _) eq_refl).
    rewrite E2, KK, keys_eqb_refl. cbn [andb].
    apply (zip_sub_values_ok (cvals p) (cvals n) (cvals p) (cvals n)); auto.
    + intros; now apply assoc_In_nodup.
    + intros; now apply assoc_In_nodup.
Qed.

Lemma row_inc_struct row :
  cum_row_okb SD false row = true ->
  exists incs, row_to_incremental SD row = Ok incs /\ inc_row_structb row incs = true.
Proof.
  destruct row as [|c0 rest]; [discriminate|]. cbn [cum_row_okb].
  rewrite !andb_true_iff. intros [[[_ D0] N0] T]. apply nodupb_NoDup in N0.
  destruct (inc_tail_struct c0 rest c0 T N0) as [incs [I1 I2]].
  cbn [row_to_incremental off_first SD].
  rewrite mk_inc_ok by (auto; apply cell_dates_ps_le_ev in D0; lia). cbn [bind].
  rewrite I1. cbn [bind]. eexists; split; [reflexivity|].
  cbn [inc_row_structb]. rewrite I2, andb_true_r.
  unfold inc_cell_okb. cbn [ckind ps pe ev prev cmeta cvals kind_eqb opt_eqb].
  rewrite !Z.eqb_refl, (proj2 (meta_seqb_eq _ _) eq_refl), keys_eqb_refl.
  replace (ps c0 + -1 =? ps c0 - 1) with true by (symmetry; apply Z.eqb_eq; lia). cbn [andb].
  apply copy_values_ok. intros; now apply assoc_In_nodup.
Qed.

(* ---------------------------------------------------------------- cum -> inc -> cum *)
Lemma retag_cum_eq c0 n vs :
  ckey c0 = ckey n -> vs = cvals n ->
  mkCell KCum (ps c0) (pe c0) (ev n) None (cmeta c0) vs = retag_cum n.
Proof. intros K ->. destruct (ckey_parts _ _ K) as [-> [-> ->]]. reflexivity. Qed.

Lemma inc_cum_tail c0 : forall rest p,
  cum_tail_okb SD true c0 p rest = true -> NoDup (keys (cvals p)) ->
  exists incs, inc_tail SD (ps c0) (pe c0) (cmeta c0) (ev p) (cvals p) rest = Ok incs
               /\ cum_tail SD (ps c0) (pe c0) (cmeta c0) (ev p) (cvals p) incs
                  = Ok (map retag_cum rest).
Proof.
  induction rest as [|n r IH]; intros p H ND.
  - exists []; split; reflexivity.
  - apply cum_tail_okb_cons in H as [_ [K [Dn [L [C T]]]]].
    cbn [carry_d SD] in C.
    pose proof (vals_compatb_keys _ _ _ _ C) as KK.
    assert (NDn : NoDup (keys (cvals n))) by (rewrite <- KK; exact ND).
    destruct (ckey_parts _ _ K) as [Ks [Ke Km]].
    destruct (zip_sub_add _ _ _ C) as [dv [E1 [E2 E3]]].
    destruct (IH n T NDn) as [incs [I1 I2]].
    assert (Dn' : cell_dates_ok (ps c0) (pe c0) (ev n) = true) by (rewrite Ks, Ke; auto).
    cbn [inc_tail]. rewrite values_diff_zip, E1 by auto. cbn [bind].
    rewrite mk_inc_ok by auto. cbn [bind].
    rewrite I1. cbn [bind]. eexists; split; [reflexivity|].
    cbn [cum_tail prev cvals ev]. rewrite Z.eqb_refl. cbn [negb].
    rewrite values_add_zip, E2 by (rewrite ?E3; auto). cbn [bind].
    rewrite mk_cum_ok by auto. cbn [bind]. rewrite I2. cbn [bind map].
    now rewrite (retag_cum_eq c0 n _ K eq_refl).
Qed.

Lemma row_inc_cum row :
  cum_row_okb SD true row = true ->
  exists incs, row_to_incremental SD row = Ok incs
               /\ row_to_cumulative SD incs = Ok (map retag_cum row).
Proof.
  destruct row as [|c0 rest]; [discriminate|]. cbn [cum_row_okb].
  rewrite !andb_true_iff. intros [[[_ D0] N0] T]. apply nodupb_NoDup in N0.
  destruct (inc_cum_tail c0 rest c0 T N0) as [incs [I1 I2]].
  cbn [row_to_incremental off_first SD].
  rewrite mk_inc_ok by (auto; apply cell_dates_ps_le_ev in D0; lia). cbn [bind].
  rewrite I1. cbn [bind]. eexists; split; [reflexivity|].
  cbn [row_to_cumulative prev ps pe ev cmeta cvals off_check SD].
  replace (ps c0 + -1 + 1 =? ps c0) with true by (symmetry; apply Z.eqb_eq; lia). cbn [negb].
  rewrite mk_cum_ok by auto. cbn [bind]. rewrite I2. cbn [bind map]. reflexivity.
Qed.

(* ---------------------------------------------------------------- inc -> cum -> inc *)
Lemma inc_cell_eq c0 n p :
  is_inc n = true -> ckey c0 = ckey n -> prev n = Some p ->
  mkCell KInc (ps c0) (pe c0) (ev n) (Some p) (cmeta c0) (cvals n) = n.
Proof.
  intros I K P. destruct (ckey_parts _ _ K) as [-> [-> ->]].
  destruct n as [k s e v pr m vs]. cbn in *. subst pr.
  unfold is_inc in I. cbn in I. destruct k; try discriminate. reflexivity.
Qed.

Lemma cum_inc_tail c0 : forall rest p cur,
  inc_tail_okb SD c0 p rest = true ->
  map kshape cur = map kshape (cvals p) -> NoDup (keys cur) ->
  exists cums, cum_tail SD (ps c0) (pe c0) (cmeta c0) (ev p) cur rest = Ok cums
               /\ inc_tail SD (ps c0) (pe c0) (cmeta c0) (ev p) cur cums = Ok rest.
Proof.
  induction rest as [|n r IH]; intros p cur H SH ND.
  - exists []; split; reflexivity.
  - apply inc_tail_okb_cons in H as [In' [K [Dn [P [L [C T]]]]]].
    cbn [carry_a SD] in C.
    rewrite <- (vals_compatb_shape _ _ _ _ _ SH) in C.
    pose proof (vals_compatb_keys _ _ _ _ C) as KK.
    assert (NDn : NoDup (keys (cvals n))) by (rewrite <- KK; exact ND).
    destruct (ckey_parts _ _ K) as [Ks [Ke Km]].
    destruct (zip_add_sub _ _ _ C) as [s [E1 [E2 [E3 E4]]]].
    assert (NDs : NoDup (keys s)) by (rewrite E4; exact ND).
    destruct (IH n s T E3 NDs) as [cums [I1 I2]].
    assert (Dn' : cell_dates_ok (ps c0) (pe c0) (ev n) = true) by (rewrite Ks, Ke; auto).
    cbn [cum_tail]. rewrite P, Z.eqb_refl. cbn [negb].
    rewrite values_add_zip, E1 by auto. cbn [bind].
    rewrite mk_cum_ok by auto. cbn [bind]. rewrite I1. cbn [bind].
    eexists; split; [reflexivity|].
    cbn [inc_tail cvals ev]. rewrite values_diff_zip, E2 by (rewrite ?E4; auto). cbn [bind].
    rewrite mk_inc_ok by auto. cbn [bind]. rewrite I2. cbn [bind].
    do 2 f_equal. now apply inc_cell_eq.
Qed.

Lemma row_cum_inc row :
  inc_row_okb SD row = true ->
  exists cums, row_to_cumulative SD row = Ok cums /\ row_to_incremental SD cums = Ok row.
Proof.
  destruct row as [|c0 rest]; [discriminate|]. cbn [inc_row_okb].
  rewrite !andb_true_iff, (opt_eqb_eq Z.eqb Z.eqb_eq). intros [[[[I0 D0] N0] P0] T].
  apply nodupb_NoDup in N0.
  destruct (cum_inc_tail c0 rest c0 (cvals c0) T eq_refl N0) as [cums [I1 I2]].
  cbn [row_to_cumulative off_check SD]. rewrite P0.
  replace (ps c0 - 1 + 1 =? ps c0) with true by (symmetry; apply Z.eqb_eq; lia). cbn [negb].
  rewrite mk_cum_ok by auto. cbn [bind]. rewrite I1. cbn [bind].
  eexists; split; [reflexivity|].
  cbn [row_to_incremental ps pe ev cmeta cvals off_first SD].
  rewrite mk_inc_ok by (auto; apply cell_dates_ps_le_ev in D0; lia). cbn [bind].
  rewrite I2. cbn [bind]. f_equal. f_equal.
  replace (ps c0 + -1) with (ps c0 - 1) by lia.
  apply (inc_cell_eq c0 c0); auto.
Qed.

(* the cumulative row produced from a complete incremental row: kinds, and the increments of it are
   the original cells (structure as Boolean spec) *)
Lemma row_cum_kinds_tail d s e m : forall rest cur_ev cur cums,
  cum_tail d s e m cur_ev cur rest = Ok cums -> Forall (fun c => ckind c = KCum) cums.
Proof.
  induction rest as [|n r IH]; intros cur_ev cur cums H; cbn [cum_tail] in H.
  - inversion H; constructor.
  - destruct (prev n); [|discriminate]. destruct (negb (d0 =? cur_ev)); [discriminate|].
    destruct (values_add d cur (cvals n)) as [vs|]; [|discriminate]. cbn [bind] in H.
    unfold mk_cum in H. destruct (cell_dates_ok s e (ev n)); [|discriminate]. cbn [bind] in H.
    destruct (cum_tail d s e m (ev n) vs r) as [cs|] eqn:E; [|discriminate]. cbn [bind] in H.
    inversion H; subst. constructor; [reflexivity | eapply IH; eauto].
Qed.

(* ---------------------------------------------------------------- refusals *)
Lemma first_prev_refused c0 rest p0 :
  prev c0 = Some p0 -> p0 + 1 <> ps c0 -> row_to_cumulative SD (c0 :: rest) = Err TriangleError.
Proof.
  intros P N. cbn [row_to_cumulative off_check SD]. rewrite P.
  apply Z.eqb_neq in N. rewrite N. reflexivity.
Qed.

Lemma has_key_iff {V} k (l : list (str * V)) : has_key k l = true <-> In k (keys l).
Proof.
  split; [|apply has_key_In]. unfold has_key.
  destruct (assoc k l) eqn:E; [intros _|discriminate].
  destruct (in_dec (list_eq_dec Z.eq_dec) k (keys l)) as [H|H]; auto.
  rewrite assoc_not_in in E by auto. discriminate.
Qed.
Lemma subset_keys_incl a b : subset_keys a b = true <-> incl (keys a) (keys b).
Proof.
  unfold subset_keys, incl. rewrite forallb_forall. split; intros H k Hk.
  - apply has_key_iff; auto.
  - apply has_key_iff; auto.
Qed.
Lemma keyset_eqb_iff a b : keyset_eqb a b = true <-> incl (keys a) (keys b) /\ incl (keys b) (keys a).
Proof. unfold keyset_eqb. now rewrite andb_true_iff, !subset_keys_incl. Qed.
Lemma keyset_eqb_keys a a' b : keys a = keys a' -> keyset_eqb a b = keyset_eqb a' b.
Proof.
  intros K. destruct (keyset_eqb a b) eqn:E, (keyset_eqb a' b) eqn:F; auto.
  - apply keyset_eqb_iff in E. rewrite K in E. apply keyset_eqb_iff in E. congruence.
  - apply keyset_eqb_iff in F. rewrite <- K in F. apply keyset_eqb_iff in F. congruence.
Qed.
Lemma keyset_eqb_trans_false a b c :
  keyset_eqb a b = true -> keyset_eqb b c = false -> keyset_eqb a c = false.
Proof.
  intros H1 H2. destruct (keyset_eqb a c) eqn:E; auto.
  apply keyset_eqb_iff in H1 as [A1 A2]. apply keyset_eqb_iff in E as [B1 B2].
  assert (keyset_eqb b c = true); [|congruence].
  apply keyset_eqb_iff. split; eapply incl_tran; eauto.
Qed.

Lemma mapM_keys carry (op : value -> value -> result value) (second : list (str * value)) :
  forall (first out : list (str * value)),
  mapM (fun kv => match assoc (fst kv) second with
                  | None => Err KeyError
                  | Some s => if str_eqb (fst kv) carry then Ok (fst kv, s)
                              else bind (op (snd kv) s) (fun v => Ok (fst kv, v))
                  end) first = Ok out -> keys out = keys first.
Proof.
  induction first as [|[k a] f IH]; intros out H; cbn [mapM] in H.
  - inversion H; reflexivity.
  - cbn [fst snd] in H. destruct (assoc k second) as [s|]; [|discriminate].
    destruct (str_eqb k carry).
    + cbn [bind] in H. destruct (mapM _ f) as [r|] eqn:R; [|discriminate]. cbn [bind] in H.
      inversion H; subst. cbn [keys map fst]. f_equal. now apply IH.
    + destruct (op a s) as [v|]; [|discriminate]. cbn [bind] in H.
      destruct (mapM _ f) as [r|] eqn:R; [|discriminate]. cbn [bind] in H.
      inversion H; subst. cbn [keys map fst]. f_equal. now apply IH.
Qed.

Lemma values_combine_ok_keys carry op first second out :
  values_combine carry op first second = Ok out ->
  keys out = keys first /\ keyset_eqb first second = true.
Proof.
  unfold values_combine, keyset_eqb.
  destruct (subset_keys first second && subset_keys second first); [|discriminate].
  intros H. split; auto. eapply mapM_keys; eauto.
Qed.

(* to_incremental: consecutive cells a, b with different key sets, everything before converts *)
Lemma inc_tail_keys_refused s e m a b post : forall l pev pv outs,
  inc_tail SD s e m pev pv (l ++ [a]) = Ok outs ->
  keyset_eqb (cvals a) (cvals b) = false ->
  inc_tail SD s e m pev pv (l ++ a :: b :: post) = Err TriangleError.
Proof.
  induction l as [|x l IH]; intros pev pv outs H KD; cbn [app inc_tail] in *.
  - destruct (values_diff SD pv (cvals a)); [|discriminate]. cbn [bind] in *.
    destruct (mk_inc s e pev (ev a) m a0); [|discriminate]. cbn [bind] in *.
    unfold values_diff at 1. rewrite values_combine_keys_differ by auto. reflexivity.
  - destruct (values_diff SD pv (cvals x)); [|discriminate]. cbn [bind] in *.
    destruct (mk_inc s e pev (ev x) m a0); [|discriminate]. cbn [bind] in *.
    destruct (inc_tail SD s e m (ev x) (cvals x) (l ++ [a])) eqn:E; [|discriminate].
    rewrite (IH _ _ _ E KD). reflexivity.
Qed.

Lemma row_inc_keys_refused pre a b post outs :
  row_to_incremental SD (pre ++ [a]) = Ok outs ->
  keyset_eqb (cvals a) (cvals b) = false ->
  row_to_incremental SD (pre ++ a :: b :: post) = Err TriangleError.
Proof.
  destruct pre as [|c0 l]; cbn [app row_to_incremental]; intros H KD.
  - destruct (mk_inc _ _ _ _ _ _); [|discriminate]. cbn [bind] in *.
    cbn [inc_tail]. unfold values_diff at 1. rewrite values_combine_keys_differ by auto.
    reflexivity.
  - destruct (mk_inc _ _ _ _ _ _); [|discriminate]. cbn [bind] in *.
    destruct (inc_tail SD (ps c0) (pe c0) (cmeta c0) (ev c0) (cvals c0) (l ++ [a])) eqn:E;
      [|discriminate].
    rewrite (inc_tail_keys_refused _ _ _ _ _ _ _ _ _ _ E KD). reflexivity.
Qed.

(* to_cumulative: b's link to a is broken (prev b <> ev a) or the key sets differ; everything
   before converts *)
Lemma cum_tail_refused s e m a b post pb :
  prev b = Some pb ->
  forall l cur_ev cur outs,
  cum_tail SD s e m cur_ev cur (l ++ [a]) = Ok outs ->
  pb <> ev a \/ keyset_eqb (cvals a) (cvals b) = false ->
  cum_tail SD s e m cur_ev cur (l ++ a :: b :: post) = Err TriangleError.
Proof.
  intros PB. induction l as [|x l IH]; intros cur_ev cur outs H BR; cbn [app cum_tail] in *.
  - destruct (prev a); [|discriminate]. destruct (negb (d =? cur_ev)); [discriminate|].
    destruct (values_add SD cur (cvals a)) as [vs|] eqn:VA; [|discriminate]. cbn [bind] in *.
    destruct (mk_cum s e (ev a) m vs); [|discriminate]. cbn [bind] in *.
    rewrite PB. destruct (pb =? ev a) eqn:Q; cbn [negb]; [|reflexivity].
    apply Z.eqb_eq in Q. destruct BR as [BR|BR]; [contradiction|].
    unfold values_add in VA. apply values_combine_ok_keys in VA as [K1 K2].
    unfold values_add at 1. rewrite values_combine_keys_differ; [reflexivity|].
    rewrite (keyset_eqb_keys _ _ _ K1). eapply keyset_eqb_trans_false; eauto.
  - destruct (prev x); [|discriminate]. destruct (negb (d =? cur_ev)); [discriminate|].
    destruct (values_add SD cur (cvals x)) as [vs|] eqn:VA; [|discriminate]. cbn [bind] in *.
    destruct (mk_cum s e (ev x) m vs); [|discriminate]. cbn [bind] in *.
    destruct (cum_tail SD s e m (ev x) vs (l ++ [a])) eqn:E; [|discriminate].
    rewrite (IH _ _ _ E BR).
    reflexivity.
Qed.
