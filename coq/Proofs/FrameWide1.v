(** C14 -- the rows written by triangle_to_wide_data_frame: structure, columns, and what every
    column of a row carries (writer lemma for the wide form). *)
From Coq Require Import ZArith List Bool Lia ZifyBool.
From Bermuda Require Import Model.Base Model.Frame Proofs.FrameLib Proofs.FrameKey Proofs.FrameRow.
Import ListNotations.
Local Open Scope Z_scope.

Definition idx4 : list str := [c_ps; c_pe; c_ev; c_prev].
Lemma reserved_split : reserved_names = idx4 ++ meta_col_names ++ [c_scenario; c_field; c_value].
Proof. reflexivity. Qed.
Lemma NoDup_reserved : NoDup reserved_names.
Proof. apply (nodup_b_NoDup str_eqb str_eqb_eq). vm_compute. reflexivity. Qed.

Lemma idx4_reserved n : In n idx4 -> In n reserved_names.
Proof. rewrite reserved_split. intros; apply in_or_app; auto. Qed.
Lemma scenario_reserved : In c_scenario reserved_names.
Proof. rewrite reserved_split. apply in_or_app; right. apply in_or_app; right. cbn; auto. Qed.
Lemma field_reserved : In c_field reserved_names.
Proof. rewrite reserved_split. apply in_or_app; right. apply in_or_app; right. cbn; auto. Qed.
Lemma value_reserved : In c_value reserved_names.
Proof. rewrite reserved_split. apply in_or_app; right. apply in_or_app; right. cbn; auto. Qed.
Lemma meta_reserved n : In n meta_col_names -> In n reserved_names.
Proof. rewrite reserved_split. intros; apply in_or_app; right; apply in_or_app; auto. Qed.
Lemma meta_not_idx4 n : In n meta_col_names -> ~ In n idx4.
Proof.
  intros Hm Hi. pose proof NoDup_reserved as ND. rewrite reserved_split in ND.
  apply (NoDup_app_disj _ _ n ND Hi). apply in_or_app; auto.
Qed.
Lemma scenario_not_idx4 : ~ In c_scenario idx4.
Proof.
  intros Hi. pose proof NoDup_reserved as ND. rewrite reserved_split in ND.
  apply (NoDup_app_disj _ _ _ ND Hi). apply in_or_app; right. cbn; auto.
Qed.
Lemma scenario_not_meta : ~ In c_scenario meta_col_names.
Proof.
  intros Hi. pose proof NoDup_reserved as ND. rewrite reserved_split in ND. apply NoDup_app_r in ND.
  apply (NoDup_app_disj _ _ _ ND Hi). cbn; auto.
Qed.

(* ---------- drop_col ---------- *)
Lemma assoc_drop_col k n (r : row) : n <> k -> assoc n (drop_col k r) = assoc n r.
Proof.
  intros Hn. unfold drop_col. induction r as [|[k' v] r IH]; [reflexivity|].
  cbn [filter fst]. destruct (str_eqb k' k) eqn:E; cbn [negb assoc].
  - apply str_eqb_eq in E. subst k'. rewrite (proj2 (str_eqb_neq n k) Hn). exact IH.
  - rewrite IH. reflexivity.
Qed.
Lemma get_drop_col k n (r : row) : n <> k -> get n (drop_col k r) = get n r.
Proof. intros Hn. unfold get. rewrite assoc_drop_col; auto. Qed.
Lemma keys_drop_col k (r : row) : keys (drop_col k r) = filter (fun x => negb (str_eqb x k)) (keys r).
Proof.
  unfold drop_col, keys. induction r as [|[k' v] r IH]; [reflexivity|]. cbn [filter map fst].
  destruct (str_eqb k' k); cbn [negb map fst]; rewrite IH; reflexivity.
Qed.

(* ---------- one row ---------- *)
Definition fcols (fn : list str) (c : cell) (ndx : nat) : row :=
  map (fun f => (f, field_entry (assoc f (cvals c)) ndx)) fn.
Definition wrow (hp : bool) (mn fn : list str) (c : cell) (ndx : nat) : row :=
  base_cols hp c ++ [(c_scenario, TNum (1024 * (Z.of_nat ndx + 1)))] ++ fcols fn c ndx ++ meta_cols mn (cmeta c).

Definition base_keys (hp : bool) : list str := [c_ps; c_pe; c_ev] ++ (if hp then [c_prev] else []).
Lemma keys_base hp c : keys (base_cols hp c) = base_keys hp.
Proof. destruct hp; reflexivity. Qed.
Lemma base_keys_idx4 hp n : In n (base_keys hp) -> In n idx4.
Proof. destruct hp; cbn; tauto. Qed.
Lemma keys_wrow hp mn fn c ndx : keys (wrow hp mn fn c ndx) = base_keys hp ++ [c_scenario] ++ fn ++ mn.
Proof.
  unfold wrow. rewrite !keys_app, keys_base. f_equal. f_equal. f_equal.
  - unfold fcols. apply keys_map_pair.
  - unfold meta_cols. apply keys_map_pair.
Qed.

Lemma get_ps hp c rest : get c_ps (base_cols hp c ++ rest) = TDate (ps c).
Proof. destruct hp; reflexivity. Qed.
Lemma get_pe hp c rest : get c_pe (base_cols hp c ++ rest) = TDate (pe c).
Proof. destruct hp; reflexivity. Qed.
Lemma get_ev hp c rest : get c_ev (base_cols hp c ++ rest) = TDate (ev c).
Proof. destruct hp; reflexivity. Qed.
Lemma get_prev c rest : get c_prev (base_cols true c ++ rest) = match prev c with Some d => TDate d | None => TNaN end.
Proof. reflexivity. Qed.

Lemma get_skip_base hp c n rest : ~ In n idx4 -> get n (base_cols hp c ++ rest) = get n rest.
Proof. intros H. apply get_app_notin. rewrite keys_base. intros Hi. apply H. eapply base_keys_idx4; eauto. Qed.

Lemma get_scenario hp mn fn c ndx : get c_scenario (wrow hp mn fn c ndx) = TNum (1024 * (Z.of_nat ndx + 1)).
Proof.
  unfold wrow. rewrite get_skip_base by apply scenario_not_idx4.
  unfold get. cbn [app assoc]. rewrite str_eqb_refl. reflexivity.
Qed.
Lemma get_skip_scen n v rest : n <> c_scenario -> get n ([(c_scenario, v)] ++ rest) = get n rest.
Proof.
  intros H. apply get_app_notin. unfold keys. cbn [map fst In]. intros [E|[]]. apply H. symmetry. exact E.
Qed.

Section Names.
  Variables (fn dn ln : list str).
  Hypothesis names : NoDup (reserved_names ++ fn ++ dn ++ ln).

  Lemma ne_scen_of_notres n : ~ In n reserved_names -> n <> c_scenario.
  Proof. intros H E. apply H. subst. apply scenario_reserved. Qed.

  Lemma get_field hp mn c ndx f : In f fn ->
    get f (wrow hp mn fn c ndx) = field_entry (assoc f (cvals c)) ndx.
  Proof.
    intros Hf. pose proof (fn_not_reserved fn dn ln names f Hf) as Hr. unfold wrow.
    rewrite get_skip_base by (intros H; apply Hr, idx4_reserved; auto).
    rewrite get_skip_scen by (apply ne_scen_of_notres; auto).
    rewrite get_app. unfold fcols.
    rewrite (assoc_map_pair (fun f => field_entry (assoc f (cvals c)) ndx)); auto.
  Qed.

  (* columns that are neither index columns, nor scenario, nor fields live in the metadata part *)
  Lemma get_in_meta hp mn c ndx n : ~ In n idx4 -> n <> c_scenario -> ~ In n fn ->
    get n (wrow hp mn fn c ndx) = get n (meta_cols mn (cmeta c)).
  Proof.
    intros Hi Hs Hf. unfold wrow. rewrite get_skip_base by auto. rewrite get_skip_scen by auto.
    apply get_app_notin. unfold fcols. rewrite keys_map_pair. auto.
  Qed.

  Lemma meta_name_in_meta hp mn c ndx n : In n meta_col_names ->
    get n (wrow hp mn fn c ndx) = get n (meta_cols mn (cmeta c)).
  Proof.
    intros Hn. apply get_in_meta.
    - apply meta_not_idx4; auto.
    - intros E; subst. apply scenario_not_meta; auto.
    - intros Hf. apply (fn_not_reserved fn dn ln names n Hf). apply meta_reserved; auto.
  Qed.
  Lemma dn_name_in_meta hp mn c ndx n : In n dn ->
    get n (wrow hp mn fn c ndx) = get n (meta_cols mn (cmeta c)).
  Proof.
    intros Hn. pose proof (dn_not_reserved fn dn ln names n Hn) as Hr. apply get_in_meta.
    - intros H; apply Hr, idx4_reserved; auto.
    - apply ne_scen_of_notres; auto.
    - intros Hf. apply (fn_dn_disj fn dn ln names n Hf Hn).
  Qed.
  Lemma ln_name_in_meta hp mn c ndx n : In n ln ->
    get n (wrow hp mn fn c ndx) = get n (meta_cols mn (cmeta c)).
  Proof.
    intros Hn. pose proof (ln_not_reserved fn dn ln names n Hn) as Hr. apply get_in_meta.
    - intros H; apply Hr, idx4_reserved; auto.
    - apply ne_scen_of_notres; auto.
    - intros Hf. apply (fn_ln_disj fn dn ln names n Hf Hn).
  Qed.
End Names.
