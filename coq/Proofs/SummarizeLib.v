(** List / groupby / map_result / conforming-sum lemmas used by Proofs/Summarize.v and
    Proofs/Aggregate.v. *)
From Coq Require Import ZArith List Bool Lia ZifyBool Permutation.
From Bermuda Require Import Model.Base Model.Summarize.
Import ListNotations.
Local Open Scope Z_scope.

(* ------------------------------------------------------------------ boolean equalities *)
Lemma list_eqb_Z_eq (a b : list Z) : list_eqb Z.eqb a b = true <-> a = b.
Proof.
  revert b. induction a as [|x a IH]; intros [|y b]; cbn [list_eqb]; try (split; congruence).
  rewrite andb_true_iff, Z.eqb_eq, IH. split; [intros [-> ->]; reflexivity | intros H; inversion H; auto].
Qed.
Lemma str_eqb_eq (a b : str) : str_eqb a b = true <-> a = b.
Proof. apply list_eqb_Z_eq. Qed.
Lemma str_eqb_refl (a : str) : str_eqb a a = true.
Proof. now apply str_eqb_eq. Qed.
Lemma str_eqb_neq (a b : str) : str_eqb a b = false <-> a <> b.
Proof. rewrite <- str_eqb_eq. destruct (str_eqb a b); split; congruence. Qed.
Lemma str_eqb_sym (a b : str) : str_eqb a b = str_eqb b a.
Proof.
  destruct (str_eqb a b) eqn:E, (str_eqb b a) eqn:F; auto.
  - apply str_eqb_eq in E. subst. now rewrite str_eqb_refl in F.
  - apply str_eqb_eq in F. subst. now rewrite str_eqb_refl in E.
Qed.

Lemma mem_str_In k l : mem_str k l = true <-> In k l.
Proof.
  unfold mem_str. rewrite existsb_exists. split.
  - intros (x & Hx & E). apply str_eqb_eq in E. now subst.
  - intros H. exists k. split; auto using str_eqb_refl.
Qed.

Lemma opt_eqb_Z_eq (a b : option Z) : opt_eqb Z.eqb a b = true <-> a = b.
Proof.
  destruct a, b; cbn; try (split; congruence). rewrite Z.eqb_eq. split; congruence.
Qed.
Lemma coord_eqb_eq (a b : coord) : coord_eqb a b = true <-> a = b.
Proof.
  destruct a as [[[a1 a2] a3] a4], b as [[[b1 b2] b3] b4]. cbn [coord_eqb].
  rewrite !andb_true_iff, !Z.eqb_eq, opt_eqb_Z_eq. split.
  - intros [[[-> ->] ->] ->]. reflexivity.
  - intros H. inversion H. auto.
Qed.

(* ------------------------------------------------------------------ assoc *)
Lemma assoc_In {V} k (d : list (str * V)) v : assoc k d = Some v -> In (k, v) d.
Proof.
  induction d as [|[k' v'] r IH]; cbn [assoc]; [discriminate|].
  destruct (str_eqb k k') eqn:E.
  - apply str_eqb_eq in E. subst. intros H. inversion H. now left.
  - intros H. right. auto.
Qed.
Lemma In_assoc {V} k (d : list (str * V)) v :
  NoDup (keys d) -> In (k, v) d -> assoc k d = Some v.
Proof.
  unfold keys. induction d as [|[k' v'] r IH]; cbn [assoc map fst]; [intros _ []|].
  intros Hnd [H|H].
  - inversion H. subst. now rewrite str_eqb_refl.
  - inversion Hnd as [|? ? Hni Hnd']. subst. destruct (str_eqb k k') eqn:E.
    + apply str_eqb_eq in E. subst. exfalso. apply Hni. apply (in_map fst) in H. exact H.
    + auto.
Qed.
Lemma assoc_None_keys {V} k (d : list (str * V)) : assoc k d = None <-> ~ In k (keys d).
Proof.
  unfold keys. induction d as [|[k' v'] r IH]; cbn [assoc map fst]; [tauto|].
  destruct (str_eqb k k') eqn:E.
  - apply str_eqb_eq in E. subst. split; [discriminate | intros H; exfalso; apply H; now left].
  - apply str_eqb_neq in E. rewrite IH. cbn. split; [intros H [?|?]; congruence + auto | tauto].
Qed.

(* ------------------------------------------------------------------ map_result *)
Lemma map_result_Ok {A B} (f : A -> result B) l out :
  map_result f l = Ok out -> Forall2 (fun a b => f a = Ok b) l out.
Proof.
  revert out. induction l as [|a r IH]; cbn [map_result]; intros out H.
  - inversion H. constructor.
  - destruct (f a) eqn:Fa; [|discriminate]. destruct (map_result f r) eqn:Fr; [|discriminate].
    inversion H. subst. constructor; auto.
Qed.
Lemma map_result_Err {A B} (f : A -> result B) l e :
  map_result f l = Err e -> exists a, In a l /\ f a = Err e.
Proof.
  induction l as [|a r IH]; cbn [map_result]; [discriminate|].
  destruct (f a) eqn:Fa.
  - destruct (map_result f r) eqn:Fr; [discriminate|]. intros H. inversion H. subst.
    destruct (IH eq_refl) as (x & Hx & Fx). exists x. split; [now right | exact Fx].
  - intros H. inversion H. subst. exists a. split; [now left | exact Fa].
Qed.
Lemma map_result_Err_if {A B} (f : A -> result B) l a e :
  In a l -> f a = Err e -> exists e', map_result f l = Err e'.
Proof.
  induction l as [|x r IH]; cbn [map_result]; [intros []|].
  intros [->|H] Fa.
  - rewrite Fa. eauto.
  - destruct (f x); [|eauto]. destruct (IH H Fa) as (e' & ->). eauto.
Qed.
Lemma Forall2_map_fst {A B C} (R : A -> B -> Prop) (ka : A -> C) (kb : B -> C) l out :
  Forall2 R l out -> (forall a b, R a b -> kb b = ka a) -> map kb out = map ka l.
Proof. induction 1; cbn; intros H'; [reflexivity|]. f_equal; auto. Qed.
Lemma Forall2_In_r {A B} (R : A -> B -> Prop) l out b :
  Forall2 R l out -> In b out -> exists a, In a l /\ R a b.
Proof.
  induction 1; [intros []|]. intros [->|H']; [eexists; split; [now left|eauto]|].
  destruct (IHForall2 H') as (a & ? & ?). exists a. split; [now right|auto].
Qed.

(* ------------------------------------------------------------------ first-occurrence dedupe and groupby *)
Section GroupBy.
  Context {K A : Type} (eqb : K -> K -> bool) (key : A -> K).
  Hypothesis eqb_eq : forall a b, eqb a b = true <-> a = b.

  Definition dedupe_step (acc : list K) (k : K) : list K := if existsb (eqb k) acc then acc else acc ++ [k].
  Definition dedupe (ks : list K) : list K := fold_left dedupe_step ks [].
  Definition members (l : list A) (k : K) : list A := filter (fun a => eqb (key a) k) l.
  Definition groupby_spec (l : list A) : list (K * list A) :=
    map (fun k => (k, members l k)) (dedupe (map key l)).

  Lemma existsb_eqb_In k ks : existsb (eqb k) ks = true <-> In k ks.
  Proof.
    rewrite existsb_exists. split.
    - intros (x & Hx & E). apply eqb_eq in E. now subst.
    - intros H. exists k. split; [exact H | now apply eqb_eq].
  Qed.
  Lemma eqb_refl k : eqb k k = true.
  Proof. now apply eqb_eq. Qed.

  Lemma NoDup_snoc {X} (l : list X) x : NoDup l -> ~ In x l -> NoDup (l ++ [x]).
  Proof.
    induction l as [|y l IH]; intros Hnd Hni; cbn [app]; [constructor; [intros []|constructor]|].
    inversion Hnd. subst. constructor.
    - rewrite in_app_iff. cbn [In]. intros [H|[H|[]]]; [contradiction|]. subst. apply Hni. now left.
    - apply IH; [assumption|]. intros H. apply Hni. now right.
  Qed.
  Lemma dedupe_snoc ks k : dedupe (ks ++ [k]) = dedupe_step (dedupe ks) k.
  Proof. unfold dedupe. now rewrite fold_left_app. Qed.
  Lemma dedupe_NoDup ks : NoDup (dedupe ks).
  Proof.
    induction ks as [|k ks IH] using rev_ind; [constructor|].
    rewrite dedupe_snoc. unfold dedupe_step. destruct (existsb (eqb k) (dedupe ks)) eqn:E; [exact IH|].
    apply NoDup_snoc; [exact IH|]. intros H. apply existsb_eqb_In in H. congruence.
  Qed.
  Lemma dedupe_In ks k : In k (dedupe ks) <-> In k ks.
  Proof.
    induction ks as [|x ks IH] using rev_ind; [reflexivity|].
    rewrite dedupe_snoc, in_app_iff. unfold dedupe_step. cbn [In].
    destruct (existsb (eqb x) (dedupe ks)) eqn:E.
    - apply existsb_eqb_In in E. rewrite IH. intuition (subst; tauto).
    - rewrite in_app_iff, IH. cbn [In]. tauto.
  Qed.

  Lemma members_snoc l a k :
    members (l ++ [a]) k = members l k ++ (if eqb (key a) k then [a] else []).
  Proof. unfold members. rewrite filter_app. cbn [filter]. reflexivity. Qed.

  Lemma members_other l a k : eqb (key a) k = false -> members (l ++ [a]) k = members l k.
  Proof. intros E. rewrite members_snoc, E. apply app_nil_r. Qed.

  (* inserting into a spec-shaped dict *)
  Lemma gb_insert_map l a ks :
    NoDup ks ->
    gb_insert eqb (key a) a (map (fun k => (k, members l k)) ks)
    = if existsb (eqb (key a)) ks then map (fun k => (k, members (l ++ [a]) k)) ks
      else map (fun k => (k, members (l ++ [a]) k)) ks ++ [(key a, [a])].
  Proof.
    induction ks as [|k ks IH]; intros Hnd; [reflexivity|].
    inversion Hnd as [|? ? Hni Hnd']. subst.
    cbn [map gb_insert existsb]. destruct (eqb (key a) k) eqn:E.
    - cbn [orb]. rewrite members_snoc, E. f_equal.
      apply map_ext_in. intros k' Hk'. f_equal. symmetry. apply members_other.
      destruct (eqb (key a) k') eqn:E'; [|reflexivity].
      apply eqb_eq in E, E'. subst. contradiction.
    - cbn [orb]. rewrite (IH Hnd'). rewrite (members_other _ _ _ E).
      destruct (existsb (eqb (key a)) ks); reflexivity.
  Qed.

  Lemma filter_nil_if {X} (p : X -> bool) l : (forall x, In x l -> p x = false) -> filter p l = [].
  Proof.
    induction l as [|x r IH]; intros H; [reflexivity|]. cbn [filter].
    rewrite (H x (or_introl eq_refl)). apply IH. intros y Hy. apply H. now right.
  Qed.

  Theorem groupby_eq_spec l : groupby eqb key l = groupby_spec l.
  Proof.
    induction l as [|a l IH] using rev_ind; [reflexivity|].
    unfold groupby in *. rewrite fold_left_app. cbn [fold_left]. rewrite IH.
    unfold groupby_spec. rewrite map_app. cbn [map]. rewrite dedupe_snoc.
    rewrite gb_insert_map by apply dedupe_NoDup. unfold dedupe_step.
    destruct (existsb (eqb (key a)) (dedupe (map key l))) eqn:E; [reflexivity|].
    rewrite map_app. cbn [map]. rewrite members_snoc, eqb_refl.
    assert (members l (key a) = []) as ->; [|reflexivity].
    unfold members. apply filter_nil_if. intros x Hx.
    destruct (eqb (key x) (key a)) eqn:E'; [|reflexivity].
    apply eqb_eq in E'. exfalso.
    assert (existsb (eqb (key a)) (dedupe (map key l)) = true); [|congruence].
    apply existsb_eqb_In, dedupe_In. rewrite <- E'. now apply in_map.
  Qed.

  Lemma groupby_keys l : map fst (groupby eqb key l) = dedupe (map key l).
  Proof. rewrite groupby_eq_spec. unfold groupby_spec. rewrite map_map. cbn [fst]. apply map_id. Qed.
  Lemma groupby_In l k g : In (k, g) (groupby eqb key l) -> g = members l k /\ In k (map key l).
  Proof.
    rewrite groupby_eq_spec. unfold groupby_spec. rewrite in_map_iff.
    intros (k' & H & Hk'). inversion H. subst. split; [reflexivity|]. now apply dedupe_In.
  Qed.
  Lemma members_nonempty l k : In k (map key l) -> members l k <> [].
  Proof.
    rewrite in_map_iff. intros (a & <- & Ha) E.
    assert (In a (members l (key a))) as H; [|rewrite E in H; exact H].
    unfold members. apply filter_In. split; [exact Ha | apply eqb_refl].
  Qed.

  (* ---------------------------------------------------------------- sums over the partition *)
  Fixpoint zsum (l : list Z) : Z := match l with [] => 0 | x :: r => x + zsum r end.
  Lemma zsum_app a b : zsum (a ++ b) = zsum a + zsum b.
  Proof. induction a as [|x a IH]; cbn [zsum app]; [reflexivity|]. rewrite IH. lia. Qed.
  Lemma zsum_map_add {X} (g h : X -> Z) l :
    zsum (map (fun x => g x + h x) l) = zsum (map g l) + zsum (map h l).
  Proof. induction l as [|x l IH]; cbn [zsum map]; [reflexivity|]. rewrite IH. lia. Qed.
  Lemma zsum_indicator k0 x ks :
    NoDup ks -> In k0 ks -> zsum (map (fun k => if eqb k0 k then x else 0) ks) = x.
  Proof.
    induction ks as [|k ks IH]; intros Hnd Hin; [destruct Hin|].
    inversion Hnd as [|? ? Hni Hnd']. subst. cbn [zsum map].
    destruct (eqb k0 k) eqn:E.
    - apply eqb_eq in E. subst.
      assert (zsum (map (fun k1 => if eqb k k1 then x else 0) ks) = 0) as ->; [|lia].
      clear IH Hnd Hin Hnd'. induction ks as [|k' ks IH]; [reflexivity|].
      cbn [zsum map]. destruct (eqb k k') eqn:E'.
      + apply eqb_eq in E'. subst. exfalso. apply Hni. now left.
      + rewrite IH; [lia|]. intros H. apply Hni. now right.
    - destruct Hin as [->|Hin]; [rewrite eqb_refl in E; discriminate|]. rewrite (IH Hnd' Hin). lia.
  Qed.
  Lemma zsum_members (f : A -> Z) l ks :
    NoDup ks -> (forall a, In a l -> In (key a) ks) ->
    zsum (map (fun k => zsum (map f (members l k))) ks) = zsum (map f l).
  Proof.
    intros Hnd. induction l as [|a r IH]; intros Hcov.
    - cbn [members filter map zsum]. clear Hnd Hcov. induction ks as [|k ks IHk]; cbn [map zsum]; [reflexivity|].
      rewrite IHk. reflexivity.
    - assert (forall k, zsum (map f (members (a :: r) k))
                        = (if eqb (key a) k then f a else 0) + zsum (map f (members r k))) as E.
      { intros k. unfold members. cbn [filter]. destruct (eqb (key a) k); cbn [map zsum]; lia. }
      rewrite (map_ext _ _ E), zsum_map_add, zsum_indicator, IH; auto.
      + intros x Hx. apply Hcov. now right.
      + apply Hcov. now left.
  Qed.
  Theorem zsum_groupby (f : A -> Z) l :
    zsum (map (fun g => zsum (map f (snd g))) (groupby eqb key l)) = zsum (map f l).
  Proof.
    rewrite groupby_eq_spec. unfold groupby_spec. rewrite map_map. cbn [snd].
    apply zsum_members; [apply dedupe_NoDup|]. intros a Ha. apply dedupe_In. now apply in_map.
  Qed.
End GroupBy.

(* ------------------------------------------------------------------ _conforming_sum is a sum *)
(* i-th component of a value: a scalar counts in every component, None counts 0 *)
Definition vmeas (i : nat) (v : value) : Z :=
  match v with VNum x => num_n x | VNone => 0 | VArr _ xs => nth i xs 0 end.
Definition in_range (i : nat) (v : value) : Prop :=
  match v with VArr _ xs => (i < length xs)%nat | _ => True end.

Lemma nth_map_lt {X} (f : X -> Z) l i d : (i < length l)%nat -> nth i (map f l) 0 = f (nth i l d).
Proof.
  revert i. induction l as [|x l IH]; intros i H; cbn [length] in H; [lia|].
  destruct i; cbn [nth map]; [reflexivity|]. apply IH. lia.
Qed.
Lemma nth_zip_add xs ys i :
  length xs = length ys -> (i < length xs)%nat -> nth i (zip_add xs ys) 0 = nth i xs 0 + nth i ys 0.
Proof.
  unfold zip_add. revert ys i. induction xs as [|x xs IH]; intros [|y ys] i Hl Hi; cbn [length] in *; try lia.
  destruct i; cbn [combine map nth fst snd]; [reflexivity|]. apply IH; lia.
Qed.
Lemma zip_add_length xs ys : length xs = length ys -> length (zip_add xs ys) = length xs.
Proof.
  unfold zip_add. intros H. rewrite map_length, combine_length. lia.
Qed.

Lemma value_add_meas i a v r :
  value_add a v = Ok r -> in_range i r ->
  vmeas i r = vmeas i a + vmeas i v /\ in_range i a.
Proof.
  destruct v as [b| |g ys]; cbn [value_add].
  - destruct a as [a| |f xs]; [| discriminate |].
    + intros H _. inversion H. subst. cbn. split; [reflexivity | exact I].
    + destruct (negb f && num_isf b); [discriminate|]. intros H Hr. inversion H. subst.
      cbn [in_range vmeas] in *. rewrite map_length in Hr. split; [|exact Hr].
      now rewrite (nth_map_lt _ _ _ 0 Hr).
  - intros H Hr. inversion H. subst. cbn [vmeas]. split; [lia | exact Hr].
  - destruct a as [a| |f xs]; [| discriminate |].
    + intros H Hr. inversion H. subst. cbn [in_range vmeas] in *. rewrite map_length in Hr.
      split; [|exact I]. now rewrite (nth_map_lt _ _ _ 0 Hr).
    + destruct (Nat.eqb (length xs) (length ys)) eqn:E; cbn [negb]; [|discriminate].
      apply Nat.eqb_eq in E. destruct (negb f && g); [discriminate|]. intros H Hr. inversion H. subst.
      cbn [in_range vmeas] in *. rewrite (zip_add_length _ _ E) in Hr. split; [|exact Hr].
      now apply nth_zip_add.
Qed.

Lemma sum_from_meas i vals : forall a r,
  sum_from a vals = Ok r -> in_range i r ->
  vmeas i r = vmeas i a + zsum (map (vmeas i) vals) /\ in_range i a.
Proof.
  induction vals as [|v vals IH]; intros a r H Hr; cbn [sum_from map zsum] in *.
  - inversion H. subst. split; [lia | exact Hr].
  - destruct (value_add a v) as [t'|] eqn:E; [|discriminate].
    destruct (IH _ _ H Hr) as [E1 R1]. destruct (value_add_meas i _ _ _ E R1) as [E2 R2].
    split; [lia | exact R2].
Qed.
Theorem conforming_sum_meas i vals r :
  conforming_sum vals = Ok r -> in_range i r -> vmeas i r = zsum (map (vmeas i) vals).
Proof.
  intros H Hr. destruct (sum_from_meas i vals _ _ H Hr) as [E _]. cbn [vzero vmeas num_n] in E. lia.
Qed.
(* scalar-only inputs never fail and give a scalar *)
Definition scalar_or_none (v : value) : bool := match v with VArr _ _ => false | _ => true end.
Lemma sum_from_scalar vals : forall a, forallb scalar_or_none vals = true ->
  exists x, sum_from (VNum a) vals = Ok (VNum x).
Proof.
  induction vals as [|v vals IH]; intros a H; cbn [sum_from]; [eauto|].
  cbn [forallb] in H. apply andb_prop in H. destruct H as [Hv H].
  destruct v; cbn [value_add]; try discriminate; auto.
Qed.
