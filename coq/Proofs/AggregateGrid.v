(** C08, phase 2: the window walks in CLOSED FORM over an indexed grid.

    A resolution and an origin define the grid  G k = origin + k*res  (k in Z).  This file proves,
    for any (step, back, G) with  step (G k) = G (k+1),  back (G k) = G (k-1),  G k < G (k+1)  on an
    index range klo..khi (range-relative hypotheses: month arithmetic satisfies them on month ends of
    1970-2100 only), that the fuelled loops of Model/Aggregate.v compute exactly

      align            -> the grid point G k with  G k < first <= G (k+1)
      grid_upto        -> the grid points up to `last`
      relabel          -> every cell re-labelled with the unique window (G k, G (k+1)] holding its
                          period start, or TriangleError at the first cell reaching beyond it

    and that the fuel handed over by the model suffices for every loop, including the per-cell
    advance loop of relabel.  Instances: day/week units (no range bound) and month units (month ids
    0..1571, by kernel computation). *)
From Coq Require Import ZArith List Bool Lia ZifyBool.
From Bermuda Require Import Model.Base Lib.Calendar Model.Summarize Model.Basis Model.Aggregate
  Proofs.SummarizeLib Proofs.Summarize Proofs.Summarize2 Proofs.Aggregate.
Import ListNotations.
Local Open Scope Z_scope.

(* ------------------------------------------------------------------ min / max of the model *)
Lemma zmax_list_spec l : forall d, d <= zmax_list d l /\ (forall x, In x l -> x <= zmax_list d l).
Proof.
  unfold zmax_list. induction l as [|a l IH]; intros d; cbn [fold_left]; [split; [lia | intros x []]|].
  destruct (IH (Z.max d a)) as [H1 H2]. split; [lia|]. intros x [<-|Hx]; [lia | auto].
Qed.
Lemma zmin_list_spec l : forall d, zmin_list d l <= d /\ (forall x, In x l -> zmin_list d l <= x).
Proof.
  unfold zmin_list. induction l as [|a l IH]; intros d; cbn [fold_left]; [split; [lia | intros x []]|].
  destruct (IH (Z.min d a)) as [H1 H2]. split; [lia|]. intros x [<-|Hx]; [lia | auto].
Qed.
Lemma zmax_list_in l : forall d, zmax_list d l = d \/ In (zmax_list d l) l.
Proof.
  unfold zmax_list. induction l as [|a l IH]; intros d; cbn [fold_left]; [now left|].
  destruct (IH (Z.max d a)) as [H|H]; [|right; now right].
  rewrite H. destruct (Z.max_spec d a) as [[_ ->]|[_ ->]]; [right; now left | now left].
Qed.
Lemma zmin_list_in l : forall d, zmin_list d l = d \/ In (zmin_list d l) l.
Proof.
  unfold zmin_list. induction l as [|a l IH]; intros d; cbn [fold_left]; [now left|].
  destruct (IH (Z.min d a)) as [H|H]; [|right; now right].
  rewrite H. destruct (Z.min_spec d a) as [[_ ->]|[_ ->]]; [now left | right; now left].
Qed.

Section Grid.
  Variables (step back : Z -> Z) (G : Z -> Z) (klo khi : Z).
  Hypothesis G_step : forall k, klo <= k < khi -> step (G k) = G (k + 1).
  Hypothesis G_back : forall k, klo < k <= khi -> back (G k) = G (k - 1).
  Hypothesis G_mono : forall k, klo <= k < khi -> G k < G (k + 1).

  (* ---------------------------------------------------------------- order facts *)
  Lemma G_gap : forall n i, klo <= i -> i + Z.of_nat n <= khi -> Z.of_nat n <= G (i + Z.of_nat n) - G i.
  Proof.
    induction n as [|n IH]; intros i Hi Hj.
    - replace (i + Z.of_nat 0) with i by lia. lia.
    - specialize (IH i Hi ltac:(lia)). pose proof (G_mono (i + Z.of_nat n) ltac:(lia)).
      replace (i + Z.of_nat (S n)) with (i + Z.of_nat n + 1) by lia. lia.
  Qed.
  Lemma G_gap' i j : klo <= i -> j <= khi -> i <= j -> j - i <= G j - G i.
  Proof.
    intros Hi Hj Hij. pose proof (G_gap (Z.to_nat (j - i)) i Hi ltac:(lia)) as H.
    replace (i + Z.of_nat (Z.to_nat (j - i))) with j in H by lia. lia.
  Qed.
  Lemma G_lt i j : klo <= i -> j <= khi -> i < j -> G i < G j.
  Proof. intros. pose proof (G_gap' i j). lia. Qed.
  Lemma G_le i j : klo <= i -> j <= khi -> i <= j -> G i <= G j.
  Proof. intros. pose proof (G_gap' i j). lia. Qed.
  Lemma G_lt_inv i j : klo <= i <= khi -> klo <= j <= khi -> G i < G j -> i < j.
  Proof. intros Hi Hj H. destruct (Z_lt_le_dec i j) as [|Hge]; [assumption|]. pose proof (G_le j i). lia. Qed.
  Lemma G_inj i j : klo <= i <= khi -> klo <= j <= khi -> G i = G j -> i = j.
  Proof.
    intros Hi Hj H. destruct (Z.lt_trichotomy i j) as [Hlt|[->|Hgt]]; [|reflexivity|].
    - pose proof (G_lt i j). lia.
    - pose proof (G_lt j i). lia.
  Qed.

  (* ---------------------------------------------------------------- the loops, in closed form *)
  (* while step(cur) < first: cur = step(cur) *)
  Lemma walk_up_grid : forall n fuel k first,
    (n < fuel)%nat -> klo <= k -> k + Z.of_nat n < khi ->
    G (k + Z.of_nat n) < first <= G (k + Z.of_nat n + 1) ->
    walk_up step fuel (G k) first = Some (G (k + Z.of_nat n)).
  Proof.
    induction n as [|n IH]; intros fuel k first Hf Hk Hn Hw; (destruct fuel as [|fuel]; [lia|]); cbn [walk_up].
    - rewrite G_step by lia. replace (k + Z.of_nat 0) with k in * by lia.
      destruct (G (k + 1) <? first) eqn:E; [lia | reflexivity].
    - rewrite G_step by lia.
      assert (G (k + 1) < first) as Hlt.
      { pose proof (G_le (k + 1) (k + Z.of_nat (S n))). lia. }
      destruct (G (k + 1) <? first) eqn:E; [|lia].
      replace (k + Z.of_nat (S n)) with (k + 1 + Z.of_nat n) in * by lia.
      apply IH; lia.
  Qed.
  (* while cur >= first: cur = back(cur) *)
  Lemma walk_down_grid : forall n fuel k first,
    (n < fuel)%nat -> k <= khi -> klo <= k - Z.of_nat n ->
    G (k - Z.of_nat n) < first -> ((0 < n)%nat -> first <= G (k - Z.of_nat n + 1)) ->
    walk_down back fuel (G k) first = Some (G (k - Z.of_nat n)).
  Proof.
    induction n as [|n IH]; intros fuel k first Hf Hk Hn Hlt Hge; (destruct fuel as [|fuel]; [lia|]); cbn [walk_down].
    - replace (k - Z.of_nat 0) with k in * by lia.
      destruct (first <=? G k) eqn:E; [lia | reflexivity].
    - assert (first <= G k) as Hle.
      { specialize (Hge ltac:(lia)). pose proof (G_le (k - Z.of_nat (S n) + 1) k). lia. }
      destruct (first <=? G k) eqn:E; [|lia]. rewrite G_back by lia.
      replace (k - Z.of_nat (S n)) with (k - 1 - Z.of_nat n) in * by lia.
      apply IH; try lia; try (intros _; apply Hge; lia).
  Qed.

  (* both alignment loops, from the origin G 0 *)
  Theorem align_grid ks fuel first :
    klo <= 0 -> 0 < khi -> klo <= ks < khi -> G ks < first <= G (ks + 1) ->
    Z.abs ks + 1 < Z.of_nat fuel ->
    align step back fuel (G 0) first = Some (G ks).
  Proof.
    intros H0 H1 Hks Hw Hf. unfold align. destruct (Z_le_gt_dec 0 ks) as [Hpos|Hneg].
    - pose proof (walk_up_grid (Z.to_nat ks) fuel 0 first) as Hu.
      replace (0 + Z.of_nat (Z.to_nat ks)) with ks in Hu by lia.
      rewrite Hu by lia.
      pose proof (walk_down_grid O fuel ks first) as Hd. replace (ks - Z.of_nat 0) with ks in Hd by lia.
      apply Hd; lia.
    - (* first <= G (ks+1) <= G 0: the first loop does not move *)
      assert (first <= G 0) as Hle by (pose proof (G_le (ks + 1) 0); lia).
      assert (walk_up step fuel (G 0) first = Some (G 0)) as ->.
      { destruct fuel as [|fuel]; [lia|]. cbn [walk_up]. rewrite G_step by lia.
        pose proof (G_mono 0 ltac:(lia)). destruct (G (0 + 1) <? first) eqn:E; [lia | reflexivity]. }
      pose proof (walk_down_grid (Z.to_nat (- ks)) fuel 0 first) as Hd.
      replace (0 - Z.of_nat (Z.to_nat (- ks))) with ks in Hd by lia.
      apply Hd; try lia.
  Qed.

  (* while cur <= last: valid.append(cur); cur = step(cur) *)
  Definition grid_list (k : Z) (n : nat) : list Z := map (fun j => G (k + Z.of_nat j)) (seq 0 n).
  Lemma grid_list_S k n : grid_list k (S n) = G k :: grid_list (k + 1) n.
  Proof.
    unfold grid_list. cbn [seq map]. f_equal; [f_equal; lia|].
    rewrite <- seq_shift, map_map. apply map_ext. intros j. f_equal. lia.
  Qed.
  Lemma grid_upto_grid : forall n fuel k last,
    (n < fuel)%nat -> klo <= k -> k + Z.of_nat n <= khi ->
    ((0 < n)%nat -> G (k + Z.of_nat n - 1) <= last) -> last < G (k + Z.of_nat n) ->
    grid_upto step fuel (G k) last = Some (grid_list k n).
  Proof.
    induction n as [|n IH]; intros fuel k last Hf Hk Hn Hle Hlt; (destruct fuel as [|fuel]; [lia|]); cbn [grid_upto].
    - replace (k + Z.of_nat 0) with k in * by lia. destruct (G k <=? last) eqn:E; [lia | reflexivity].
    - assert (G k <= last) as Hk0.
      { specialize (Hle ltac:(lia)). pose proof (G_le k (k + Z.of_nat (S n) - 1)). lia. }
      destruct (G k <=? last) eqn:E; [|lia]. rewrite G_step by lia.
      replace (k + Z.of_nat (S n)) with (k + 1 + Z.of_nat n) in * by lia.
      rewrite (IH fuel (k + 1) last) by (try lia; intros; apply Hle; lia).
      now rewrite grid_list_S.
  Qed.
  Lemma grid_list_In k n x : In x (grid_list k n) <-> exists j, k <= j < k + Z.of_nat n /\ x = G j.
  Proof.
    unfold grid_list. rewrite in_map_iff. split.
    - intros (j & <- & Hj). apply in_seq in Hj. exists (k + Z.of_nat j). split; [lia | reflexivity].
    - intros (j & Hj & ->). exists (Z.to_nat (j - k)). split; [f_equal; lia|]. apply in_seq. lia.
  Qed.

  (* ---------------------------------------------------------------- window index of a date *)
  Variable kidx : Z -> Z.
  Hypothesis kidx_spec : forall d, G klo < d <= G khi ->
    klo <= kidx d < khi /\ G (kidx d) < d <= G (kidx d + 1).

  Lemma kidx_unique d k : G klo < d <= G khi -> klo <= k < khi -> G k < d <= G (k + 1) -> k = kidx d.
  Proof.
    intros Hd Hk Hw. destruct (kidx_spec d Hd) as [Hr Hx].
    assert (k < kidx d + 1) by (apply G_lt_inv; lia).
    assert (kidx d < k + 1) by (apply G_lt_inv; lia). lia.
  Qed.
  Lemma kidx_mono d1 d2 : G klo < d1 <= G khi -> G klo < d2 <= G khi -> d1 <= d2 -> kidx d1 <= kidx d2.
  Proof.
    intros H1 H2 Hle. destruct (kidx_spec d1 H1) as [R1 W1]. destruct (kidx_spec d2 H2) as [R2 W2].
    assert (kidx d1 < kidx d2 + 1) by (apply G_lt_inv; lia). lia.
  Qed.
  (* |index| is bounded by the distance in days: every step is at least one day *)
  Lemma kidx_abs d : klo <= 0 <= khi -> G klo < d <= G khi -> Z.abs (kidx d) <= Z.abs (d - G 0) + 1.
  Proof.
    intros H0 Hd. destruct (kidx_spec d Hd) as [Hr Hw]. destruct (Z_le_gt_dec 0 (kidx d)) as [Hp|Hn].
    - pose proof (G_gap' 0 (kidx d)). lia.
    - pose proof (G_gap' (kidx d + 1) 0). lia.
  Qed.

  (* ---------------------------------------------------------------- relabel in closed form *)
  Definition wcell (c : cell) : cell :=
    mkCell KCell (G (kidx (ps c)) + 1) (G (kidx (ps c) + 1)) (ev c) None (cmeta c) (cvals c).
  Definition wstraddles (c : cell) : bool := G (kidx (ps c) + 1) <? pe c.
  Definition in_grid_range (d : Z) : Prop := G klo < d <= G khi.

  Theorem relabel_grid fuel : forall cells kprev,
    ps_nondecr cells -> klo <= kprev ->
    (forall c, In c cells -> in_grid_range (ps c) /\ kprev <= kidx (ps c) /\ kidx (ps c) - kprev < Z.of_nat fuel) ->
    relabel step fuel (G kprev) cells
    = if existsb wstraddles cells then Err TriangleError else Ok (map wcell cells).
  Proof.
    induction cells as [|c r IH]; intros kprev Hs Hk Hall; [reflexivity|]. cbn [relabel existsb map].
    destruct (Hall c (or_introl eq_refl)) as (Hr & Hge & Hf).
    destruct (kidx_spec (ps c) Hr) as [Hkr Hw].
    pose proof (walk_up_grid (Z.to_nat (kidx (ps c) - kprev)) fuel kprev (ps c)) as Hu.
    replace (kprev + Z.of_nat (Z.to_nat (kidx (ps c) - kprev))) with (kidx (ps c)) in Hu by lia.
    rewrite Hu by lia. rewrite G_step by lia. unfold wstraddles at 1.
    destruct (G (kidx (ps c) + 1) <? pe c) eqn:E; [reflexivity|]. cbn [orb].
    rewrite (IH (kidx (ps c))).
    - destruct (existsb wstraddles r); reflexivity.
    - destruct r; [exact I | apply Hs].
    - lia.
    - intros c' Hc'. destruct (Hall c' (or_intror Hc')) as (Hr' & Hge' & Hf').
      pose proof (ps_nondecr_head _ _ Hs c' Hc') as Hle.
      pose proof (kidx_mono _ _ Hr Hr' Hle). unfold in_grid_range in *. repeat split; lia.
  Qed.
End Grid.

(* ================================================================== the model's loops in closed form *)
Lemma bool_eq_iff (a b : bool) : (a = true <-> b = true) -> a = b.
Proof. destruct a, b; intros [H1 H2]; try reflexivity; [symmetry; now apply H1 | now apply H2]. Qed.
Lemma existsb_eqb_In x l : existsb (Z.eqb x) l = true <-> In x l.
Proof.
  rewrite existsb_exists. split.
  - intros (y & Hy & E). apply Z.eqb_eq in E. now subst.
  - intros H. exists x. split; [exact H | apply Z.eqb_refl].
Qed.
Lemma existsb_ext_in {X} (p q : X -> bool) l : (forall x, In x l -> p x = q x) -> existsb p l = existsb q l.
Proof.
  induction l as [|x l IH]; intros H; [reflexivity|]. cbn [existsb].
  rewrite (H x (or_introl eq_refl)), IH; [reflexivity|]. intros y Hy. apply H. now right.
Qed.
Lemma filter_ext_in' {X} (p q : X -> bool) l : (forall x, In x l -> p x = q x) -> filter p l = filter q l.
Proof.
  induction l as [|x l IH]; intros H; [reflexivity|]. cbn [filter].
  rewrite (H x (or_introl eq_refl)), IH; [reflexivity|]. intros y Hy. apply H. now right.
Qed.

(* the period half of the loop-free specification (ref_slice of Model/Aggregate.v) *)
Definition ref_period wavg rules nl (r : resolution) (origin : Z) (prem : bool) (cells : list cell)
  : result (list cell) :=
  match cells with
  | [] => Ok []
  | _ :: _ =>
      let sorted := sort_coords cells in
      if existsb (straddles r origin) sorted then Err TriangleError
      else map_result (window_cell wavg rules nl prem)
                      (groupby coord_eqb coord3 (map (to_window r origin) sorted))
  end.

(* what a resolution + origin must satisfy: a grid indexed by k in klo..khi with a closed-form window
   index and a closed-form grid test.  Instances below: day units, month units. *)
Record grid_ok (r : resolution) (origin : Z) (G : Z -> Z) (klo khi : Z) (kidx : Z -> Z) : Prop := {
  g_origin : G 0 = origin;
  g_lo : klo <= 0;
  g_hi : 0 < khi;
  g_step : forall k, klo <= k < khi -> delta r false (G k) = G (k + 1);
  g_back : forall k, klo < k <= khi -> delta r true (G k) = G (k - 1);
  g_mono : forall k, klo <= k < khi -> G k < G (k + 1);
  g_kidx : forall d, G klo < d <= G khi -> klo <= kidx d < khi /\ G (kidx d) < d <= G (kidx d + 1);
  g_window : forall d, G klo < d <= G khi -> window_of r origin d = (G (kidx d) + 1, G (kidx d + 1));
  g_grid : forall e, G klo < e <= G khi -> (on_grid r origin e = true <-> exists j, klo <= j <= khi /\ e = G j) }.

Section GridModel.
  Variable wavg : transform -> list value -> list value -> result value.
  Variable rules : rule_table.
  Variable nl : list str.
  Variables (r : resolution) (origin : Z) (G : Z -> Z) (klo khi : Z) (kidx : Z -> Z).
  Hypothesis OK : grid_ok r origin G klo khi kidx.

  Let Gs := g_step _ _ _ _ _ _ OK.
  Let Gb := g_back _ _ _ _ _ _ OK.
  Let Gm := g_mono _ _ _ _ _ _ OK.
  Let Gk := g_kidx _ _ _ _ _ _ OK.

  Lemma fuel_nat a b c : Z.of_nat (walk_fuel a b c) = Z.abs (b - a) + Z.abs (c - b) + 3.
  Proof. unfold walk_fuel. lia. Qed.

  (* _aggregate_period = sort, refuse straddlers, re-label with the closed-form window, group, sum *)
  Theorem period_closed_form prem cells :
    (forall c, In c cells -> G klo < ps c <= G khi) ->
    aggregate_period wavg rules nl (Some r) origin prem cells = ref_period wavg rules nl r origin prem cells.
  Proof.
    intros Hr. destruct cells as [|x xs]; [reflexivity|].
    unfold aggregate_period, ref_period. cbv zeta.
    pose proof (sort_coords_ps_nondecr (x :: xs)) as Hs.
    assert (Hin : forall c, In c (sort_coords (x :: xs)) -> G klo < ps c <= G khi).
    { intros c Hc. apply Hr. now apply sort_coords_In. }
    destruct (sort_coords (x :: xs)) as [|c0 rest] eqn:Esort.
    { exfalso. assert (In x (sort_coords (x :: xs))) as Hx by (apply sort_coords_In; now left).
      rewrite Esort in Hx. destruct Hx. }
    set (last := zmax_list (ps c0) (map ps (c0 :: rest))).
    set (fuel := walk_fuel origin (ps c0) last).
    assert (Hlast : forall c, In c (c0 :: rest) -> ps c <= last).
    { intros c Hc. apply (zmax_list_spec (map ps (c0 :: rest)) (ps c0)). now apply in_map. }
    pose proof (Hin c0 (or_introl eq_refl)) as Hr0.
    destruct (Gk _ Hr0) as [Hk0 Hw0].
    pose proof (kidx_abs G klo khi Gm kidx Gk (ps c0) ltac:(pose proof (g_lo _ _ _ _ _ _ OK); pose proof (g_hi _ _ _ _ _ _ OK); lia) Hr0) as Habs.
    rewrite (g_origin _ _ _ _ _ _ OK) in Habs.
    rewrite <- (g_origin _ _ _ _ _ _ OK) at 1.
    rewrite (align_grid _ _ G klo khi Gs Gb Gm (kidx (ps c0)) fuel (ps c0) (g_lo _ _ _ _ _ _ OK) (g_hi _ _ _ _ _ _ OK) Hk0 Hw0)
      by (unfold fuel; rewrite fuel_nat; lia).
    rewrite (relabel_grid _ G klo khi Gs Gm kidx Gk fuel (c0 :: rest) (kidx (ps c0)) Hs ltac:(lia)).
    - (* closed-form window = window_of *)
      assert (E1 : existsb (wstraddles G kidx) (c0 :: rest) = existsb (straddles r origin) (c0 :: rest)).
      { apply existsb_ext_in. intros c Hc. unfold wstraddles, straddles.
        now rewrite (g_window _ _ _ _ _ _ OK _ (Hin c Hc)). }
      assert (E2 : map (wcell G kidx) (c0 :: rest) = map (to_window r origin) (c0 :: rest)).
      { apply map_ext_in. intros c Hc. unfold wcell, to_window.
        now rewrite (g_window _ _ _ _ _ _ OK _ (Hin c Hc)). }
      rewrite E1, E2. destruct (existsb (straddles r origin) (c0 :: rest)); reflexivity.
    - intros c Hc. pose proof (Hin c Hc) as Hrc. destruct (Gk _ Hrc) as [Hkc Hwc].
      assert (ps c0 <= ps c) as Hle.
      { destruct Hc as [<-|Hc]; [lia|]. exact (ps_nondecr_head _ _ Hs c Hc). }
      pose proof (kidx_mono G klo khi Gm kidx Gk _ _ Hr0 Hrc Hle) as Hmono.
      split; [exact Hrc|]. split; [exact Hmono|].
      unfold fuel. rewrite fuel_nat. pose proof (Hlast c Hc).
      destruct (Z_le_gt_dec (kidx (ps c)) (kidx (ps c0))) as [|Hgt]; [lia|].
      pose proof (G_gap' G klo khi Gm (kidx (ps c0) + 1) (kidx (ps c))). lia.
  Qed.

  (* _aggregate_eval = filter (evaluation date on the grid) *)
  Theorem eval_closed_form c0 rest :
    (forall c, In c (c0 :: rest) -> G klo < ev c < G khi) ->
    aggregate_eval (Some r) origin (c0 :: rest)
    = Ok (filter (fun c => on_grid r origin (ev c)) (c0 :: rest)).
  Proof.
    intros Hr. unfold aggregate_eval, valid_evals.
    set (evs := map ev (c0 :: rest)).
    set (first := zmin_list (ev c0) evs). set (last := zmax_list (ev c0) evs).
    set (fuel := walk_fuel origin first last).
    assert (Hev : forall c, In c (c0 :: rest) -> first <= ev c <= last).
    { intros c Hc. split; [apply (zmin_list_spec evs (ev c0)) | apply (zmax_list_spec evs (ev c0))]; now apply in_map. }
    assert (Hfirst : G klo < first < G khi).
    { destruct (zmin_list_in evs (ev c0)) as [E|E]; fold first in E.
      - rewrite E. apply Hr. now left.
      - apply in_map_iff in E. destruct E as (c & <- & Hc). now apply Hr. }
    assert (Hlast : G klo < last < G khi).
    { destruct (zmax_list_in evs (ev c0)) as [E|E]; fold last in E.
      - rewrite E. apply Hr. now left.
      - apply in_map_iff in E. destruct E as (c & <- & Hc). now apply Hr. }
    assert (Hfl : first <= last) by (destruct (Hev c0 (or_introl eq_refl)); lia).
    pose proof (g_lo _ _ _ _ _ _ OK) as Hlo. pose proof (g_hi _ _ _ _ _ _ OK) as Hhi.
    destruct (Gk first ltac:(lia)) as [Hks Hws]. set (ks := kidx first) in *.
    destruct (Gk (last + 1) ltac:(lia)) as [Hkm Hwm]. set (m := kidx (last + 1)) in *.
    assert (Hkm' : ks <= m) by (apply (kidx_mono G klo khi Gm kidx Gk); lia).
    pose proof (kidx_abs G klo khi Gm kidx Gk first ltac:(lia) ltac:(lia)) as Habs. fold ks in Habs.
    rewrite (g_origin _ _ _ _ _ _ OK) in Habs.
    rewrite <- (g_origin _ _ _ _ _ _ OK) at 1.
    rewrite (align_grid _ _ G klo khi Gs Gb Gm ks fuel first Hlo Hhi Hks Hws)
      by (unfold fuel; rewrite fuel_nat; lia).
    rewrite Gs by lia.
    rewrite (grid_upto_grid _ G klo khi Gs Gm (Z.to_nat (m - ks)) fuel (ks + 1) last).
    - f_equal. apply filter_ext_in'. intros c Hc. apply bool_eq_iff.
      rewrite existsb_eqb_In, grid_list_In. destruct (Hev c Hc) as [He1 He2].
      rewrite (g_grid _ _ _ _ _ _ OK (ev c)) by lia. split.
      + intros (j & Hj & E). exists j. split; [lia | exact E].
      + intros (j & Hj & E). exists j. split; [|exact E].
        assert (ks < j) by (apply (G_lt_inv G klo khi Gm); lia).
        assert (j < m + 1) by (apply (G_lt_inv G klo khi Gm); lia). lia.
    - unfold fuel. apply Nat2Z.inj_lt. rewrite fuel_nat.
      destruct (Z_le_gt_dec m ks) as [|Hgt]; [lia|].
      pose proof (G_gap' G klo khi Gm (ks + 1) m). lia.
    - lia.
    - lia.
    - intros _. replace (ks + 1 + Z.of_nat (Z.to_nat (m - ks)) - 1) with m by lia. lia.
    - replace (ks + 1 + Z.of_nat (Z.to_nat (m - ks))) with (m + 1) by lia. lia.
  Qed.
End GridModel.
