(** C07 -- decode (encode t) for the standard layout, layer by layer (values, cell, metadata,
    slice, triangle). *)
From Coq Require Import ZArith List Bool Lia ZifyBool.
From Bermuda Require Import Model.Base Lib.Calendar Model.Json Proofs.JsonBase.
Import ListNotations.
Local Open Scope Z_scope.

Notation L := std_layout.
Arguments print_date : simpl never.
Arguments parse_date : simpl never.

(* ------------------------------------------------------------------ Python images of wire values *)
Definition py_cval (v : cval) : pyv :=
  match v with
  | CInt z => PInt z | CFloat f => PFloat f | CBool b => PBool b | CNone => PNone
  | CArrI l => PList (map PInt l) | CArrF l => PList (map PFloat l)
  end.
Definition py_dval (v : dval) : pyv :=
  match v with
  | DStr s => PStr s | DInt z => PInt z | DFloat f => PFloat f | DBool b => PBool b | DNone => PNone
  end.
Definition py_dict {V} (f : V -> pyv) (d : list (str * V)) : list (str * pyv) :=
  map (fun kv => (fst kv, f (snd kv))) d.

Lemma hook_enc_cval : forall v, hook L (enc_cval v) = Ok (py_cval v).
Proof.
  destruct v; try reflexivity; unfold enc_cval; rewrite hook_arr.
  - rewrite (map_res_ok _ _ (hook L) (fun j => match j with JInt z => PInt z | _ => PNone end)).
    + cbn. rewrite map_map. reflexivity.
    + intros x Hx. apply in_map_iff in Hx. destruct Hx as [z [<- _]]. reflexivity.
  - rewrite (map_res_ok _ _ (hook L) (fun j => match j with JFloat z => PFloat z | _ => PNone end)).
    + cbn. rewrite map_map. reflexivity.
    + intros x Hx. apply in_map_iff in Hx. destruct Hx as [z [<- _]]. reflexivity.
Qed.
Lemma hook_enc_dval : forall v, hook L (enc_dval v) = Ok (py_dval v).
Proof. destruct v; reflexivity. Qed.

(* an inert dictionary passes through the hook unchanged *)
Lemma dispatch_inert : forall obj,
  hook_inert L (keys obj) = true -> dispatch (L_dispatch L) obj = None.
Proof.
  intros obj H. unfold hook_inert in H. cbn [L_dispatch std_layout forallb fst] in H.
  cbn [L_dispatch std_layout dispatch forallb].
  rewrite !has_key_mem.
  destruct (str_mem k_slices (keys obj)), (str_mem k_cells (keys obj)), (str_mem k_ps (keys obj)),
    (str_mem k_pe (keys obj)), (str_mem k_values (keys obj)); cbn in H |- *; congruence.
Qed.

Lemma hook_enc_dict : forall V (enc : V -> json) (py : V -> pyv) (d : list (str * V)),
  (forall v, hook L (enc v) = Ok (py v)) -> wf_dict L d = true ->
  hook L (enc_dict enc d) = Ok (PDict (py_dict py d)).
Proof.
  intros V enc py d He Hwf. unfold wf_dict in Hwf. apply andb_true_iff in Hwf. destruct Hwf as [Hn Hi].
  unfold enc_dict. rewrite hook_obj.
  rewrite (map_res_ok _ _ (hook_member L) (fun p => (fst p, match hook L (snd p) with Ok v => v | Err _ => PNone end))).
  2:{ intros x Hx. apply in_map_iff in Hx. destruct Hx as [[k v] [<- _]]. unfold hook_member. cbn.
      rewrite He. reflexivity. }
  rewrite map_map. cbn [fst snd bind].
  assert (E : map (fun x : str * V => (fst x, match hook L (enc (snd x)) with Ok v => v | Err _ => PNone end)) d
              = py_dict py d).
  { unfold py_dict. apply map_ext. intros [k v]. cbn. rewrite He. reflexivity. }
  rewrite E. rewrite dict_of_pairs_nd.
  - unfold object_hook. rewrite dispatch_inert; [reflexivity|]. unfold py_dict. rewrite keys_map. exact Hi.
  - unfold py_dict. rewrite keys_map. rewrite <- nodup_keys_nd. exact Hn.
Qed.

(* ------------------------------------------------------------------ values come back *)
Lemma all_ints_map : forall l, forallb int64_ok l = true -> all_ints (map PInt l) = Some l.
Proof.
  unfold all_ints. induction l as [|z r IH]; intros H; [reflexivity|].
  cbn [forallb] in H. apply andb_true_iff in H. destruct H as [H1 H2].
  cbn [map fold_right]. rewrite (IH H2), H1. reflexivity.
Qed.
Lemma all_nums_map : forall l, all_nums (map PFloat l) = Some l.
Proof.
  unfold all_nums. induction l as [|z r IH]; [reflexivity|]. cbn [map fold_right]. rewrite IH. reflexivity.
Qed.
Lemma conv_py_cval : forall v, wf_cval v = true -> conv_value (py_cval v) = Ok (PvOk v).
Proof.
  destruct v; try reflexivity; intros H; cbn [py_cval conv_value].
  - cbn in H. apply andb_true_iff in H. destruct H as [H1 H2].
    destruct l as [|z r]; [discriminate|]. unfold np_array.
    change (PInt z :: map PInt r) with (map PInt (z :: r)). rewrite (all_ints_map _ H2). reflexivity.
  - destruct l as [|z r]; [reflexivity|]. unfold np_array.
    change (map PFloat (z :: r)) with (PFloat z :: map PFloat r).
    replace (all_ints (PFloat z :: map PFloat r)) with (@None (list Z)) by reflexivity.
    change (PFloat z :: map PFloat r) with (map PFloat (z :: r)). rewrite all_nums_map. reflexivity.
Qed.

Lemma conv_values : forall vals, forallb (fun kv => wf_cval (snd kv)) vals = true ->
  bind (map_res (fun p : str * pyv => bind (conv_value (snd p)) (fun v => Ok (fst p, v))) (py_dict py_cval vals))
       (fun pre => map_res check_value pre) = Ok vals.
Proof.
  induction vals as [|[k v] r IH]; intros H; [reflexivity|].
  cbn in H. apply andb_true_iff in H. destruct H as [H1 H2]. specialize (IH H2).
  cbn [py_dict map fst snd map_res]. rewrite (conv_py_cval _ H1). cbn [bind].
  fold (py_dict py_cval r).
  destruct (map_res (fun p : str * pyv => bind (conv_value (snd p)) (fun v0 => Ok (fst p, v0))) (py_dict py_cval r))
    as [pre|] eqn:E; cbn [bind] in *; [|discriminate].
  cbn [map_res check_value snd fst bind]. rewrite IH. reflexivity.
Qed.

(* ------------------------------------------------------------------ a cell comes back *)
Definition default_wmeta : wmeta := mkWMeta (Some s_accident) None None None None None [] [].
Definition bare (c : wcell) : wcell := with_meta default_wmeta (retag c).

Lemma members_ok : forall kv vs,
  Forall2 (fun p v => hook L (snd p) = Ok v) kv vs ->
  map_res (hook_member L) kv = Ok (combine (map fst kv) vs).
Proof.
  induction 1 as [|[k j] v kv vs H _ IH]; [reflexivity|].
  cbn in H. cbn [map_res]. unfold hook_member at 1. cbn [fst snd]. rewrite H. cbn [bind].
  rewrite IH. reflexivity.
Qed.

Ltac members :=
  erewrite members_ok;
  [| repeat (first [apply Forall2_nil | apply Forall2_cons; [cbn [snd]; first [eassumption | reflexivity] |]])];
  cbn [combine map fst].

Lemma hook_enc_cell : forall c, wf_cell L c = true -> hook L (enc_cell L c) = Ok (PCell (bare c)).
Proof.
  intros [k ps pe ev prev m vals] H. unfold wf_cell in H. cbn [w_kind w_ps w_pe w_ev w_prev w_meta w_vals] in H.
  repeat (apply andb_true_iff in H; destruct H as [H ?]).
  rename H0 into Hv, H1 into Hd, H3 into Hok, H4 into Hk, H5 into Hprev, H6 into Hev, H7 into Hpe, H into Hps.
  unfold enc_cell. rewrite hook_obj.
  pose proof (hook_enc_dict _ enc_cval py_cval vals hook_enc_cval Hd) as Hvals.
  pose proof (conv_values vals Hv) as Hconv.
  destruct k; destruct prev as [p|]; cbn in Hk; try discriminate;
    cbn [w_kind w_ps w_pe w_ev w_prev w_vals is_inc_kind enc_dates L_cell_out L_prev_out L_values std_layout
         map app fst snd date_attr];
    members; cbn [bind]; (rewrite dict_of_pairs_nd by reflexivity);
    unfold object_hook;
    match goal with |- context [dispatch ?t ?o] => change (dispatch t o) with (Some AObservation) end;
    cbv beta iota; unfold parse_observation;
    match goal with |- context [assoc (L_values_in L) ?o] =>
      change (assoc (L_values_in L) o) with (Some (PDict (py_dict py_cval vals))) end;
    cbv beta iota;
    destruct (map_res (fun p0 : str * pyv => bind (conv_value (snd p0)) (fun v => Ok (fst p0, v)))
                (py_dict py_cval vals)) as [pre|] eqn:E; cbn [bind] in Hconv |- *; try discriminate.
  all: repeat match goal with |- context [has_key (L_inc_test L) ?o] =>
         first [change (has_key (L_inc_test L) o) with false | change (has_key (L_inc_test L) o) with true] end;
       cbv iota;
       repeat match goal with |- context [date_arg ?o ?t ?a] =>
         first [change (date_arg o t a) with (parse_date (print_date ps))
               | change (date_arg o t a) with (parse_date (print_date pe))
               | change (date_arg o t a) with (parse_date (print_date ev))
               | match goal with p : ymd |- _ => change (date_arg o t a) with (parse_date (print_date p)) end] end.
  all: assert (Hps' : wf_date ps = true) by (unfold wf_date; rewrite Hps, H8; reflexivity).
  all: rewrite (parse_print_date _ Hps'), (parse_print_date _ Hpe), (parse_print_date _ Hev);
       try rewrite (parse_print_date _ Hprev); cbn [bind L_class_if L_class_else std_layout is_inc_kind].
  all: rewrite Hconv; cbn [bind]; rewrite Hok; reflexivity.
Qed.

(* ------------------------------------------------------------------ metadata of a slice object *)
Definition py_opt {A} (f : A -> pyv) (o : option A) : pyv := match o with Some x => f x | None => PNone end.
Definition py_lim (l : lim) : pyv := match l with LInt z => PInt z | LFloat f => PFloat f end.
Definition py_attr (a : mattr) (m : wmeta) : pyv :=
  match a with
  | ARisk => py_opt PStr (w_risk m) | ACountry => py_opt PStr (w_country m)
  | ACurrency => py_opt PStr (w_currency m) | AReins => py_opt PStr (w_reins m)
  | ALossDef => py_opt PStr (w_lossdef m) | ALimit => py_opt py_lim (w_limit m)
  | ADetails => PDict (py_dict py_dval (w_details m))
  | ALossDetails => PDict (py_dict py_dval (w_loss_details m))
  end.
Definition present (m : wmeta) (ka : str * mattr) : bool :=
  negb (attr_is_empty (snd ka) m) || str_mem (fst ka) (L_always L).
Definition fm {V} (f : mattr -> wmeta -> V) (m : wmeta) (tbl : list (str * mattr)) : list (str * V) :=
  flat_map (fun ka => if present m ka then [(fst ka, f (snd ka) m)] else []) tbl.

Lemma enc_meta_fm : forall m, enc_meta L m = fm attr_json m (L_meta_out L).
Proof. reflexivity. Qed.

Lemma hook_attr : forall a m, wf_meta L m = true -> hook L (attr_json a m) = Ok (py_attr a m).
Proof.
  intros a m H. unfold wf_meta in H. apply andb_true_iff in H. destruct H as [H1 H2].
  destruct a; cbn [attr_json py_attr];
    try (match goal with |- context [opt_json _ ?o] => destruct o as [x|]; try destruct x; reflexivity end).
  - apply hook_enc_dict; [exact hook_enc_dval|exact H1].
  - apply hook_enc_dict; [exact hook_enc_dval|exact H2].
Qed.

Lemma hook_fm : forall m tbl, wf_meta L m = true ->
  map_res (hook_member L) (fm attr_json m tbl) = Ok (fm py_attr m tbl).
Proof.
  intros m tbl H. induction tbl as [|ka r IH]; [reflexivity|].
  unfold fm in *. cbn [flat_map]. destruct (present m ka).
  - cbn [app map_res]. unfold hook_member at 1. cbn [fst snd]. rewrite (hook_attr _ _ H). cbn [bind].
    rewrite IH. reflexivity.
  - exact IH.
Qed.

Lemma mem_fm : forall V (f : mattr -> wmeta -> V) m k tbl s,
  str_mem k (keys (fm f m tbl) ++ s) = true -> str_mem k (keys tbl ++ s) = true.
Proof.
  intros V f m k tbl s. unfold keys. induction tbl as [|ka r IH]; [easy|].
  unfold fm in *. cbn [flat_map map]. destruct (present m ka).
  - rewrite map_app. cbn [map app fst]. rewrite !str_mem_cons.
    intros H. apply orb_true_iff in H. destruct H as [H|H]; [rewrite H; reflexivity|].
    rewrite (IH H). apply orb_true_r.
  - cbn [app]. intros H. rewrite str_mem_cons, (IH H). apply orb_true_r.
Qed.
Lemma nd_fm : forall V (f : mattr -> wmeta -> V) m tbl s,
  nd (keys tbl ++ s) = true -> nd (keys (fm f m tbl) ++ s) = true.
Proof.
  intros V f m tbl s. induction tbl as [|ka r IH]; [easy|].
  unfold keys in *. cbn [map app nd]. intros H. apply andb_true_iff in H. destruct H as [H1 H2].
  unfold fm in *. cbn [flat_map]. destruct (present m ka) eqn:Ep.
  - rewrite map_app. cbn [map app fst nd]. rewrite (IH H2), andb_true_r.
    apply negb_true_iff. apply negb_true_iff in H1.
    match goal with |- ?x = false => destruct x eqn:E; [|reflexivity] end.
    pose proof (mem_fm V f m (fst ka) r s) as G. unfold keys, fm in G. rewrite (G E) in H1. discriminate.
  - cbn [app]. exact (IH H2).
Qed.
Lemma assoc_fm : forall V (f : mattr -> wmeta -> V) m k tbl, nd (keys tbl) = true ->
  assoc k (fm f m tbl) =
  match assoc k tbl with Some a => if present m (k, a) then Some (f a m) else None | None => None end.
Proof.
  intros V f m k tbl. induction tbl as [|[k0 a0] r IH]; [reflexivity|].
  change (keys ((k0, a0) :: r)) with (k0 :: keys r). cbn [nd].
  intros H. apply andb_true_iff in H. destruct H as [H1 H2]. specialize (IH H2).
  unfold fm in *. cbn [flat_map assoc]. destruct (str_eqb k k0) eqn:E.
  - apply str_eqb_eq in E. subst k0. destruct (present m (k, a0)).
    + cbn [app assoc fst snd]. rewrite str_eqb_refl. reflexivity.
    + cbn [app]. apply assoc_none_mem. apply negb_true_iff in H1.
      match goal with |- ?x = false => destruct x eqn:F; [|reflexivity] end.
      pose proof (mem_fm V f m k r []) as G. unfold fm in G. rewrite !app_nil_r in G. rewrite (G F) in H1. discriminate.
  - destruct (present m (k0, a0)); cbn [app assoc fst snd]; [rewrite E|]; exact IH.
Qed.

Lemma get_attr_obj : forall a m v,
  get_attr L (fm py_attr m (L_meta_out L) ++ [(k_cells, v)]) a =
  if present m (match a with ARisk => k_risk | _ => [] end, a) then py_attr a m else class_default a.
Proof.
  intros a m v. unfold get_attr.
  destruct a; cbn [find L_meta_in std_layout mattr_eqb fst snd];
    rewrite assoc_app, assoc_fm by reflexivity;
    match goal with |- context [assoc ?k (L_meta_out L)] =>
      let r := eval vm_compute in (assoc k (L_meta_out L)) in change (assoc k (L_meta_out L)) with r end;
    unfold present; cbn [fst snd]; cbn [str_mem L_always std_layout existsb];
    match goal with |- context [attr_is_empty ?a m] => destruct (attr_is_empty a m) end; reflexivity.
Qed.

Lemma as_details_py : forall d, as_details (PDict (py_dict py_dval d)) = Ok d.
Proof.
  intros d. cbn [as_details]. induction d as [|[k v] r IH]; [reflexivity|].
  cbn [py_dict map map_res fst snd]. fold (py_dict py_dval r). rewrite IH.
  destruct v; reflexivity.
Qed.

Lemma parse_meta_obj : forall m v, parse_meta L (fm py_attr m (L_meta_out L) ++ [(k_cells, v)]) = Ok m.
Proof.
  intros [r co cu re ld li de lde] v. unfold parse_meta. rewrite !get_attr_obj.
  unfold present. cbn [fst snd attr_is_empty w_risk w_country w_currency w_reins w_lossdef w_limit
                       w_details w_loss_details py_attr].
  destruct r, co, cu, re, ld, li as [[z|f]|]; cbn [negb orb str_mem existsb L_always std_layout py_opt py_lim
     as_opt_str as_limit bind class_default];
  try (replace (str_eqb k_risk k_risk) with true by reflexivity); cbn [orb as_opt_str py_opt bind];
  (destruct de as [|d1 de]; destruct lde as [|d2 lde];
   cbn [negb orb class_default]; rewrite ?as_details_py; cbn [bind as_details map_res]; reflexivity).
Qed.

(* ------------------------------------------------------------------ a slice comes back *)
Lemma map_res_map : forall A B C (f : B -> result C) (h : A -> B) (g : A -> C) l,
  (forall x, In x l -> f (h x) = Ok (g x)) -> map_res f (map h l) = Ok (map g l).
Proof.
  induction l as [|x r IH]; intros H; [reflexivity|]. cbn. rewrite (H x (or_introl eq_refl)). cbn.
  rewrite IH; [reflexivity|]. intros; apply H; now right.
Qed.

Definition back (m : wmeta) (c : wcell) : wcell := with_meta m (retag c).

Lemma hook_enc_slice : forall g, wf_meta L (fst g) = true -> forallb (wf_cell L) (snd g) = true ->
  hook L (enc_slice L g) = Ok (PList (map (fun c => PCell (back (fst g) c)) (snd g))).
Proof.
  intros [m cs] Hm Hcs. cbn [fst snd] in *. unfold enc_slice. cbn [fst snd]. rewrite hook_obj, enc_meta_fm.
  assert (Hc : hook L (JArr (map (enc_cell L) cs)) = Ok (PList (map (fun c => PCell (bare c)) cs))).
  { rewrite hook_arr. rewrite (map_res_map _ _ _ (hook L) (enc_cell L) (fun c => PCell (bare c))); [reflexivity|].
    intros c Hin. apply hook_enc_cell. rewrite forallb_forall in Hcs. apply Hcs. exact Hin. }
  rewrite (map_res_app _ _ (hook_member L) _ _ (fm py_attr m (L_meta_out L))
             [(k_cells, PList (map (fun c => PCell (bare c)) cs))]).
  2:{ apply hook_fm. exact Hm. }
  2:{ cbn [map_res L_cells std_layout]. unfold hook_member. cbn [fst snd]. rewrite Hc. reflexivity. }
  cbn [bind].
  set (v := PList (map (fun c => PCell (bare c)) cs)).
  set (obj := fm py_attr m (L_meta_out L) ++ [(k_cells, v)]).
  assert (Hnd : nd (keys obj) = true).
  { unfold obj. rewrite keys_app. apply nd_fm. reflexivity. }
  rewrite (dict_of_pairs_nd _ _ Hnd).
  assert (Hs : has_key k_slices obj = false).
  { rewrite has_key_mem. unfold obj. rewrite keys_app.
    destruct (str_mem k_slices (keys (fm py_attr m (L_meta_out L)) ++ keys [(k_cells, v)])) eqn:E; [|reflexivity].
    apply mem_fm in E. vm_compute in E. discriminate. }
  assert (Hcells : assoc k_cells obj = Some v).
  { unfold obj. rewrite assoc_app.
    replace (assoc k_cells (fm py_attr m (L_meta_out L))) with (@None pyv); [reflexivity|].
    symmetry. apply assoc_none_mem.
    destruct (str_mem k_cells (keys (fm py_attr m (L_meta_out L)))) eqn:E; [|reflexivity].
    pose proof (mem_fm _ py_attr m k_cells (L_meta_out L) []) as G. rewrite !app_nil_r in G.
    apply G in E. vm_compute in E. discriminate. }
  assert (Hk : has_key k_cells obj = true) by (unfold has_key; rewrite Hcells; reflexivity).
  unfold object_hook. cbn [L_dispatch std_layout dispatch forallb]. rewrite Hs, Hk. cbn [andb].
  unfold parse_cell_set. unfold obj at 1. rewrite parse_meta_obj. cbn [bind L_cells_in std_layout].
  rewrite Hcells. unfold v.
  rewrite (map_res_map _ _ _ (replace_meta m) (fun c => PCell (bare c)) (fun c => PCell (back m c)));
    [reflexivity|]. intros; reflexivity.
Qed.

(* ------------------------------------------------------------------ the triangle comes back *)
Definition regroup (t : list wcell) : list wcell :=
  flat_map (fun g => map (back (fst g)) (snd g)) (groups t).

Lemma group_add_forall : forall (P : wcell -> Prop) (Q : wmeta -> Prop) c gs,
  (forall c, P c -> Q (w_meta c)) -> P c ->
  Forall (fun g => Q (fst g) /\ Forall P (snd g)) gs ->
  Forall (fun g => Q (fst g) /\ Forall P (snd g)) (group_add c gs).
Proof.
  intros P Q c gs HPQ Hc. induction 1 as [|[m cs] r [H1 H2] Hr IH]; cbn [group_add].
  - constructor; [|constructor]. cbn. split; [apply HPQ; exact Hc|constructor; [exact Hc|constructor]].
  - destruct (meta_pyeq m (w_meta c)).
    + constructor; [|exact Hr]. cbn in *. split; [exact H1|]. apply Forall_app. split; [exact H2|]. constructor; [exact Hc|constructor].
    + constructor; [|exact IH]. cbn in *. split; assumption.
Qed.
Lemma groups_forall : forall (P : wcell -> Prop) (Q : wmeta -> Prop) t,
  (forall c, P c -> Q (w_meta c)) -> Forall P t ->
  Forall (fun g => Q (fst g) /\ Forall P (snd g)) (groups t).
Proof.
  intros P Q t HPQ. unfold groups.
  assert (G : forall acc, Forall (fun g => Q (fst g) /\ Forall P (snd g)) acc -> Forall P t ->
              Forall (fun g => Q (fst g) /\ Forall P (snd g)) (fold_left (fun gs c => group_add c gs) t acc)).
  { induction t as [|c r IH]; intros acc Ha Ht; [exact Ha|]. cbn [fold_left]. inversion Ht; subst.
    apply IH; [|assumption]. apply group_add_forall; assumption. }
  intros Ht. apply G; [constructor|exact Ht].
Qed.

Lemma concat_lists_map : forall (ls : list (list pyv)), concat_lists (map PList ls) = Ok (concat ls).
Proof. induction ls as [|a r IH]; [reflexivity|]. cbn. rewrite IH. reflexivity. Qed.
Lemma cells_of_map : forall cs, cells_of (map PCell cs) = Ok cs.
Proof. induction cs as [|c r IH]; [reflexivity|]. cbn. rewrite IH. reflexivity. Qed.

Lemma hook_encode : forall t, forallb (wf_cell L) t = true ->
  hook L (encode L t) = Ok (PList (map PCell (regroup t))).
Proof.
  intros t Hwf. unfold encode. rewrite hook_obj. cbn [L_slices std_layout map_res].
  assert (Hg : Forall (fun g => wf_meta L (fst g) = true /\ Forall (fun c => wf_cell L c = true) (snd g)) (groups t)).
  { apply (groups_forall (fun c => wf_cell L c = true) (fun m => wf_meta L m = true)).
    - intros c Hc. unfold wf_cell in Hc. repeat (apply andb_true_iff in Hc; destruct Hc as [Hc ?]). assumption.
    - apply Forall_forall. rewrite forallb_forall in Hwf. exact Hwf. }
  assert (Ha : hook L (JArr (map (enc_slice L) (groups t))) =
               Ok (PList (map (fun g => PList (map (fun c => PCell (back (fst g) c)) (snd g))) (groups t)))).
  { rewrite hook_arr. rewrite (map_res_map _ _ _ (hook L) (enc_slice L)
      (fun g => PList (map (fun c => PCell (back (fst g) c)) (snd g)))); [reflexivity|].
    intros g Hin. rewrite Forall_forall in Hg. destruct (Hg g Hin) as [H1 H2].
    apply hook_enc_slice; [exact H1|]. apply forallb_forall. rewrite Forall_forall in H2. exact H2. }
  unfold hook_member at 1. cbn [fst snd]. rewrite Ha. cbn [bind].
  rewrite dict_of_pairs_nd by reflexivity.
  unfold object_hook.
  match goal with |- context [dispatch ?tb ?o] => change (dispatch tb o) with (Some AConcat) end.
  cbv beta iota. cbn [L_slices_in std_layout].
  match goal with |- context [assoc k_slices [(k_slices, ?v)]] =>
    change (assoc k_slices [(k_slices, v)]) with (Some v) end.
  cbv beta iota. unfold sum_lists.
  rewrite <- (map_map (fun g => map (fun c => PCell (back (fst g) c)) (snd g)) PList).
  rewrite concat_lists_map. cbn [bind]. f_equal. f_equal.
  unfold regroup. rewrite flat_map_concat_map, concat_map, map_map.
  f_equal. apply map_ext. intros g. rewrite map_map. reflexivity.
Qed.

Lemma kind_forall_regroup : forall K t,
  forallb (fun x => kind_eqb (w_kind x) K) t = true ->
  forallb (fun x => kind_eqb (w_kind x) (retag_kind K)) (regroup t) = true.
Proof.
  intros K t H. apply forallb_forall. intros x Hx. unfold regroup in Hx. apply in_flat_map in Hx.
  destruct Hx as [g [Hg Hx]]. apply in_map_iff in Hx. destruct Hx as [c [<- Hc]].
  pose proof (groups_forall (fun c => kind_eqb (w_kind c) K = true) (fun _ => True) t (fun _ _ => I)) as G.
  rewrite forallb_forall in H. assert (H' : Forall (fun c => kind_eqb (w_kind c) K = true) t) by (apply Forall_forall; exact H).
  specialize (G H'). rewrite Forall_forall in G. specialize (G g Hg). destruct G as [_ G].
  rewrite Forall_forall in G. specialize (G c Hc). cbn. destruct (w_kind c), K; cbn in *; congruence.
Qed.

Theorem decode_encode_general : forall t, wf_tri L t = true -> decode L (encode L t) = Ok (regroup t).
Proof.
  intros t H. unfold wf_tri in H. apply andb_true_iff in H. destruct H as [Hwf Hone].
  unfold decode. rewrite (hook_encode t Hwf). cbn [bind]. rewrite cells_of_map. cbn [bind].
  replace (one_class (regroup t)) with true; [reflexivity|].
  symmetry. unfold one_class in *. apply orb_true_iff in Hone. destruct Hone as [Hone|Hone];
    [apply orb_true_iff in Hone; destruct Hone as [Hone|Hone]|];
    apply kind_forall_regroup in Hone; cbn [retag_kind] in Hone; rewrite Hone; rewrite ?orb_true_r; reflexivity.
Qed.

(* ------------------------------------------------------------------ strict Boolean equalities decide = *)
Lemma ymd_eqb_eq : forall a b, ymd_eqb a b = true -> a = b.
Proof. intros [[y1 m1] d1] [[y2 m2] d2] H. unfold ymd_eqb in H. f_equal; [f_equal|]; lia. Qed.
Lemma list_eqb_eq : forall A (e : A -> A -> bool), (forall x y, e x y = true -> x = y) ->
  forall l1 l2, list_eqb e l1 l2 = true -> l1 = l2.
Proof.
  intros A e He. induction l1 as [|a r IH]; destruct l2 as [|b s]; cbn; try congruence.
  intros H. apply andb_true_iff in H. destruct H as [H1 H2]. f_equal; [apply He; exact H1|apply IH; exact H2].
Qed.
Lemma opt_eqb_eq : forall A (e : A -> A -> bool), (forall x y, e x y = true -> x = y) ->
  forall a b, opt_eqb e a b = true -> a = b.
Proof. intros A e He [x|] [y|]; cbn; try congruence. intros H. f_equal. apply He; exact H. Qed.
Lemma dval_eqb_eq : forall a b, dval_eqb a b = true -> a = b.
Proof.
  intros x y; destruct x, y; cbn [dval_eqb]; try congruence; intros H; f_equal; try lia;
    try (apply str_eqb_eq; exact H); try (apply eqb_prop; exact H).
Qed.
Lemma cval_eqb_eq : forall a b, cval_eqb a b = true -> a = b.
Proof.
  intros x y; destruct x, y; cbn [cval_eqb]; try congruence; intros H; f_equal; try lia;
    try (apply eqb_prop; exact H); try (apply (list_eqb_eq _ Z.eqb); [intros; lia|exact H]).
Qed.
Lemma lim_eqb_eq : forall a b, lim_eqb a b = true -> a = b.
Proof. intros x y; destruct x, y; cbn; try congruence; intros; f_equal; lia. Qed.
Lemma pair_eqb_eq : forall A (e : A -> A -> bool), (forall x y, e x y = true -> x = y) ->
  forall (a b : str * A), pair_eqb str_eqb e a b = true -> a = b.
Proof.
  intros A e He [k v] [k' v'] H. unfold pair_eqb in H. cbn in H. apply andb_true_iff in H. destruct H as [H1 H2].
  apply str_eqb_eq in H1. apply He in H2. congruence.
Qed.
Lemma wmeta_eqb_eq : forall a b, wmeta_eqb a b = true -> a = b.
Proof.
  intros [a1 a2 a3 a4 a5 a6 a7 a8] [b1 b2 b3 b4 b5 b6 b7 b8] H. unfold wmeta_eqb in H. cbn in H.
  repeat (apply andb_true_iff in H; destruct H as [H ?]).
  pose proof (fun x y => proj1 (str_eqb_eq x y)) as S.
  f_equal; try (apply (opt_eqb_eq _ str_eqb S); assumption).
  - apply (opt_eqb_eq _ lim_eqb lim_eqb_eq); assumption.
  - apply (list_eqb_eq _ _ (pair_eqb_eq _ _ dval_eqb_eq)); assumption.
  - apply (list_eqb_eq _ _ (pair_eqb_eq _ _ dval_eqb_eq)); assumption.
Qed.
Lemma kind_eqb_eq : forall a b, kind_eqb a b = true -> a = b.
Proof. destruct a, b; cbn; congruence. Qed.
Lemma wcell_eqb_eq : forall a b, wcell_eqb a b = true -> a = b.
Proof.
  intros [a1 a2 a3 a4 a5 a6 a7] [b1 b2 b3 b4 b5 b6 b7] H. unfold wcell_eqb in H. cbn in H.
  repeat (apply andb_true_iff in H; destruct H as [H ?]).
  f_equal.
  - apply kind_eqb_eq; assumption.
  - apply ymd_eqb_eq; assumption.
  - apply ymd_eqb_eq; assumption.
  - apply ymd_eqb_eq; assumption.
  - apply (opt_eqb_eq _ ymd_eqb ymd_eqb_eq); assumption.
  - apply wmeta_eqb_eq; assumption.
  - apply (list_eqb_eq _ _ (pair_eqb_eq _ _ cval_eqb_eq)); assumption.
Qed.

Lemma regroup_grouped : forall t, grouped t = true -> regroup t = map retag t.
Proof.
  intros t H. unfold grouped in H. apply andb_true_iff in H. destruct H as [H1 H2].
  apply (list_eqb_eq _ _ wcell_eqb_eq) in H1. rewrite <- H1 at 2. unfold regroup.
  rewrite flat_map_concat_map, flat_map_concat_map, concat_map, map_map. f_equal.
  apply map_ext_in. intros g Hg. rewrite forallb_forall in H2. specialize (H2 g Hg).
  apply map_ext_in. intros c Hc. rewrite forallb_forall in H2. specialize (H2 c Hc).
  apply wmeta_eqb_eq in H2. unfold back, with_meta, retag. cbn. rewrite <- H2. reflexivity.
Qed.

Theorem decode_encode : forall t, wf_tri L t = true -> grouped t = true ->
  decode L (encode L t) = Ok (map retag t).
Proof. intros t H1 H2. rewrite decode_encode_general by exact H1. rewrite regroup_grouped by exact H2. reflexivity. Qed.
