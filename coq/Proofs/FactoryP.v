(** Theorems about the wrapper model of Model/Factory.v: for every argument list the method form is
    the module-level function applied to the receiver followed by the arguments. *)
From Coq Require Import List String Bool Arith.
Import ListNotations.
From Bermuda Require Import Model.Factory.
Open Scope string_scope.

Section Call.
  Variables A R : Type.
  Variable cons_list : A -> A -> A.
  Notation apply := (apply_wrap cons_list).

  (** Alias / Pass: every call is accepted and is f(self, *args, **kwargs). *)
  Theorem transparent_spec (w : wrap) (f : pyfun A R) self pos kws :
    transparent w = true -> apply w f self pos kws = Some (f (self :: pos) kws).
  Proof. destruct w; simpl; intro H; try discriminate; reflexivity. Qed.

  (** Unary: exactly the argument-free call is accepted, and it is f(self). *)
  Theorem unary_spec (f : pyfun A R) self pos kws r :
    apply Unary f self pos kws = Some r <-> pos = [] /\ kws = [] /\ r = f [self] [].
  Proof.
    simpl; destruct pos, kws; split; intro H; try discriminate.
    - inversion H; auto.
    - destruct H as (_ & _ & ->); reflexivity.
    - destruct H as (_ & H & _); discriminate.
    - destruct H as (H & _); discriminate.
    - destruct H as (H & _); discriminate.
  Qed.

  (** blend-style: the receiver is put in front of the given sequence and everything else is passed on
      untouched (no keyword is dropped, renamed or defaulted). *)
  Theorem prepend_kw_spec n (f : pyfun A R) self pos kws r :
    apply (PrependKw n) f self pos kws = Some r ->
    (exists ts, pos = [ts] /\ kw_find n kws = None /\ r = f [] ((n, cons_list self ts) :: kws)) \/
    (exists ts, pos = [] /\ kw_find n kws = Some ts /\ r = f [] ((n, cons_list self ts) :: kw_remove n kws)).
  Proof.
    simpl; destruct pos as [|ts [|? ?]]; try discriminate.
    - destruct (kw_find n kws) eqn:E; try discriminate. intro H; inversion H; right; eauto.
    - destruct (kw_find n kws) eqn:E; try discriminate. intro H; inversion H; left; eauto.
  Qed.

  Lemma kw_remove_other n m (k : kwargs A) : m <> n -> kw_find m (kw_remove n k) = kw_find m k.
  Proof.
    intro Hne; induction k as [|[x v] k IH]; simpl; auto.
    destruct (String.eqb n x) eqn:E1.
    - apply String.eqb_eq in E1; subst x.
      destruct (String.eqb m n) eqn:E2; [apply String.eqb_eq in E2; contradiction|]. exact IH.
    - simpl. destruct (String.eqb m x); auto.
  Qed.

  (** every other keyword (method=, weights=, seed= ... whatever its value, 0 and None included) reaches f *)
  Theorem prepend_kw_keeps_keywords n (f : pyfun A R) self pos kws m :
    m <> n ->
    forall g : kwargs A -> option A, (forall k, g k = kw_find m k) ->
    match pos with
    | [ts] => kw_find n kws = None -> g ((n, cons_list self ts) :: kws) = kw_find m kws
    | [] => forall ts, kw_find n kws = Some ts -> g ((n, cons_list self ts) :: kw_remove n kws) = kw_find m kws
    | _ => True
    end.
  Proof.
    intros Hne g Hg. destruct pos as [|ts [|? ?]]; auto.
    - intros ts _. rewrite Hg. simpl.
      destruct (String.eqb m n) eqn:E; [apply String.eqb_eq in E; contradiction|]. now apply kw_remove_other.
    - intros _. rewrite Hg. simpl.
      destruct (String.eqb m n) eqn:E; [apply String.eqb_eq in E; contradiction|]. reflexivity.
  Qed.

  Theorem prepend_pos_spec n (f : pyfun A R) self pos kws r :
    apply (PrependPos n) f self pos kws = Some r ->
    exists ts, r = f [cons_list self ts] [] /\ ((pos = [ts] /\ kws = []) \/ (pos = [] /\ kws = [(n, ts)])).
  Proof.
    simpl; destruct pos as [|ts [|? ?]]; try discriminate.
    - destruct kws as [|[m ts] [|? ?]]; try discriminate.
      destruct (String.eqb n m) eqn:E; try discriminate. apply String.eqb_eq in E; subst m.
      intro H; inversion H; eauto.
    - destruct kws; try discriminate. intro H; inversion H; eauto.
  Qed.

End Call.

(** From the Boolean check on a generated table to the statement the harnesses rely on. *)
Lemma entry_eqb_eq a b : entry_eqb a b = true -> a = b.
Proof.
  destruct a as [[f w] s], b as [[g v] t]; simpl; intro H.
  apply andb_true_iff in H as [H Hs]; apply andb_true_iff in H as [Hf Hw].
  apply String.eqb_eq in Hf; apply wrap_eqb_eq in Hw; apply Bool.eqb_prop in Hs; now subst.
Qed.

Theorem names_ok_spec tbl names :
  names_ok tbl names = true ->
  forall n, In n names ->
    count_name n tbl = 1 /\ exists e, lookup n tbl = Some e /\ lookup n expected = Some e.
Proof.
  unfold names_ok; intros H n Hn. rewrite forallb_forall in H. specialize (H n Hn).
  unfold name_ok in H. apply andb_true_iff in H as [Hc H]. apply Nat.eqb_eq in Hc. split; auto.
  destruct (lookup n tbl) as [a|]; try discriminate. destruct (lookup n expected) as [b|]; try discriminate.
  apply entry_eqb_eq in H; subst. eauto.
Qed.

(** Headline: a method whose row passed the check and whose expected shape is transparent behaves, for
    every receiver and every positional/keyword argument list, exactly as its module-level function. *)
Theorem method_form_is_function_form (A R : Type) (cons_list : A -> A -> A) tbl names :
  names_ok tbl names = true ->
  forall n fn w st, In n names -> lookup n expected = Some (fn, w, st) -> transparent w = true ->
  lookup n tbl = Some (fn, w, st) /\
  forall (f : pyfun A R) self pos kws, apply_wrap cons_list w f self pos kws = Some (f (self :: pos) kws).
Proof.
  intros H n fn w st Hn He Ht. destruct (names_ok_spec _ _ H n Hn) as (_ & e & Hl & He').
  rewrite He in He'; inversion He'; subst e. split; auto.
  intros; now apply transparent_spec.
Qed.
