(** C15 lemmas: right triangle / right diagonal (membership, placement, exactness, chain),
    fill_forward_gaps and backfill (observed cells kept, shape of the added cells). *)
From Coq Require Import ZArith List Bool Lia Sorted.
From Bermuda Require Import Lib.Calendar Model.Base Model.Accessors Model.Extend
  Proofs.Accessors Proofs.AccessorsTax Proofs.CalendarP Proofs.AccessorsCal.
Import ListNotations.
Local Open Scope Z_scope.

(* ================================================================== rows, edges, slices *)
Lemma zpair_eqb_eq a b : zpair_eqb a b = true <-> a = b.
Proof.
  unfold zpair_eqb. rewrite andb_true_iff, !Z.eqb_eq. destruct a, b; simpl. split; [intros [-> ->]; reflexivity|].
  intros E; inversion E; auto.
Qed.

Lemma fold_later_spec : forall r c,
  let e := fold_left later r c in
  In e (c :: r) /\ forall d, In d (c :: r) -> ev d <= ev e.
Proof.
  induction r as [|x r IH]; intros c; simpl.
  - split; [now left|]. intros d [<-|[]]. lia.
  - destruct (IH (later c x)) as [H1 H2]. simpl in H1, H2. split.
    + destruct H1 as [H1|H1]; [|tauto]. rewrite <- H1. unfold later. destruct (ev c <=? ev x); tauto.
    + intros d Hd.
      assert (ev c <= ev (later c x) /\ ev x <= ev (later c x)) as [Hc Hx]
        by (unfold later; destruct (ev c <=? ev x) eqn:E; lia).
      pose proof (H2 (later c x) (or_introl eq_refl)) as Hl.
      destruct Hd as [<-|[<-|Hd]]; [lia|lia|]. apply H2. now right.
Qed.

(* the edge cell of a slice's period: a cell of that slice, the latest of its period *)
Lemma edges_spec s e :
  In e (edges s) ->
  In e s /\ forall c, In c s -> period c = period e -> ev c <= ev e.
Proof.
  unfold edges, rows_of. rewrite in_flat_map. intros [row [Hrow He]].
  apply in_map_iff in Hrow. destruct Hrow as [p [<- Hp]].
  destruct (filter (in_period p) s) as [|c r] eqn:E; simpl in He; [contradiction|].
  destruct He as [<-|[]]. destruct (fold_later_spec r c) as [H1 H2]. rewrite <- E in H1, H2.
  apply filter_In in H1. destruct H1 as [H1 Hper]. unfold in_period in Hper. apply zpair_eqb_eq in Hper.
  split; [assumption|]. intros d Hd Hpd. apply H2. apply filter_In. split; [assumption|].
  unfold in_period. apply zpair_eqb_eq. congruence.
Qed.

Lemma edges_complete s c : In c s -> exists e, In e (edges s) /\ period e = period c.
Proof.
  intros Hc. unfold edges, rows_of.
  assert (Hp : In (period c) (periods s)) by (apply periods_spec; eauto).
  destruct (filter (in_period (period c)) s) as [|c0 r] eqn:E.
  - exfalso. assert (In c (filter (in_period (period c)) s)) as H.
    { apply filter_In. split; [assumption|]. apply zpair_eqb_eq. reflexivity. }
    rewrite E in H. destruct H.
  - exists (fold_left later r c0). split.
    + apply in_flat_map. exists (c0 :: r). split; [|simpl; now left].
      apply in_map_iff. exists (period c). auto.
    + destruct (fold_later_spec r c0) as [H1 _]. rewrite <- E in H1. apply filter_In in H1.
      destruct H1 as [_ H1]. apply zpair_eqb_eq in H1. auto.
Qed.

Lemma slices_spec t s : In s (slices t) <-> exists m, In m (metadata t) /\ s = slice_cells m t.
Proof. unfold slices. rewrite in_map_iff. split; intros [m [H1 H2]]; eauto. Qed.

Lemma slice_cells_In m t c : In c (slice_cells m t) <-> In c t /\ meta_pyeq m (cmeta c) = true.
Proof. unfold slice_cells. apply filter_In. Qed.

Lemma slices_cover t c : In c t -> exists s, In s (slices t) /\ In c s.
Proof.
  intros Hc. destruct (metadata_spec t) as [_ [H _]]. destruct (H c Hc) as [m [Hm E]].
  exists (slice_cells m t). split; [apply slices_spec; eauto|apply slice_cells_In; auto].
Qed.

(* two cells are in the same slice of t iff their metadata are Python-equal *)
Lemma same_slice_closed m t c d :
  In c (slice_cells m t) -> In d t -> meta_pyeq (cmeta c) (cmeta d) = true -> In d (slice_cells m t).
Proof.
  intros Hc Hd E. apply slice_cells_In in Hc. destruct Hc as [_ Hc]. apply slice_cells_In. split; [assumption|].
  eapply meta_pyeq_trans; eassumption.
Qed.

(* ================================================================== right triangle: membership *)
Lemma rt_row_In u lags e c' :
  In c' (rt_row u lags e) <->
  exists l, In l lags /\ cell_lag u e < l /\ c' = new_cell e (add_lag u (pe e) l).
Proof.
  unfold rt_row, rt_row_with. rewrite in_map_iff. split.
  - intros [l [<- H]]. apply filter_In in H. destruct H as [H1 H2]. unfold lag_above in H2.
    exists l. repeat split; [assumption|lia].
  - intros [l [H1 [H2 ->]]]. exists l. split; [reflexivity|]. apply filter_In. split; [assumption|].
    unfold lag_above. lia.
Qed.

Lemma isort_In l x : In x (isort l) <-> In x l.
Proof.
  assert (forall a r y, In y (isort_ins a r) <-> y = a \/ In y r) as Hins.
  { intros a r y. induction r as [|b r IH]; simpl; [intuition|]. destruct (a <=? b); simpl; [intuition|].
    rewrite IH. intuition. }
  induction l as [|a r IH]; simpl; [tauto|]. rewrite Hins, IH. intuition.
Qed.

(* the lags wanted for a slice: its own observed lags, or the requested list *)
Lemma slice_lags_In u lags s l :
  In l (slice_lags u lags s) <->
  match lags with None => exists c, In c s /\ cell_lag u c = l | Some ls => In l ls end.
Proof. destruct lags as [ls|]; simpl; [apply isort_In|apply dev_lags_spec]. Qed.

Theorem right_triangle_cum_In u lags t c' :
  In c' (flat_map (rt_slice false u lags) (slices t)) <->
  exists s e l, In s (slices t) /\ In e (edges s) /\ In l (slice_lags u lags s) /\
                cell_lag u e < l /\ c' = new_cell e (add_lag u (pe e) l).
Proof.
  rewrite in_flat_map. unfold rt_slice, finish_row. split.
  - intros [s [Hs H]]. apply in_flat_map in H. destruct H as [e [He H]]. apply rt_row_In in H.
    destruct H as [l [H1 [H2 H3]]]. exists s, e, l. auto.
  - intros [s [e [l [Hs [He [Hl [Hlt ->]]]]]]]. exists s. split; [assumption|]. apply in_flat_map.
    exists e. split; [assumption|]. apply rt_row_In. eauto.
Qed.

(* ================================================================== placement *)
(* a cell is month-aligned (period end and evaluation date are month ends of year >= 1) *)
Definition aligned (c : cell) : Prop :=
  exists a b, MINID <= a /\ MINID <= b /\ pe c = month_end a /\ ev c = month_end b.
Definition lag_in_range (c : cell) (l : Z) : Prop := MINID <= month_id (pe c) + l.

Lemma month_lag_after e l :
  aligned e -> lag_in_range e l -> cell_lag UMonth e < l ->
  ev e < add_lag UMonth (pe e) l /\ lag_months (pe e) (add_lag UMonth (pe e) l) = l.
Proof.
  intros [a [b [Ha [Hb [Hpe Hev]]]]] Hr Hlt. unfold lag_in_range in Hr. simpl in *. rewrite Hpe, Hev in *.
  rewrite month_id_end in Hr by assumption. rewrite lag_months_ends in Hlt by assumption.
  rewrite addm_end by assumption. split.
  - apply month_end_mono; lia.
  - rewrite lag_months_ends by assumption. lia.
Qed.

Lemma day_lag_after e l :
  cell_lag UDay e < l -> ev e < add_lag UDay (pe e) l /\ add_lag UDay (pe e) l - pe e = l.
Proof. simpl. lia. Qed.

Definition unit_ok (u : unit_) (e : cell) (l : Z) : Prop :=
  match u with UDay => True | UMonth => aligned e /\ lag_in_range e l end.

Lemma lag_after u e l : unit_ok u e l -> cell_lag u e < l ->
  ev e < add_lag u (pe e) l /\ cell_lag u (new_cell e (add_lag u (pe e) l)) = l.
Proof.
  destruct u; intros H Hlt.
  - destruct (day_lag_after e l Hlt). split; [assumption|]. simpl in *. lia.
  - destruct H as [Ha Hr]. destruct (month_lag_after e l Ha Hr Hlt). split; assumption.
Qed.

(* a new cell built on edge e with a later evaluation date occupies no coordinate of t *)
Lemma new_cell_unoccupied t s e d :
  In s (slices t) -> In e (edges s) -> ev e < d -> occupied t (new_cell e d) = false.
Proof.
  intros Hs He Hlt. apply slices_spec in Hs. destruct Hs as [m [Hm ->]].
  destruct (edges_spec _ _ He) as [Hes Hmax].
  unfold occupied. destruct (existsb (coord_eqb (new_cell e d)) t) eqn:E; [|reflexivity].
  apply existsb_exists in E. destruct E as [c [Hc E]]. unfold coord_eqb in E. simpl in E.
  rewrite !andb_true_iff in E. destruct E as [[E1 E2] E3]. apply zpair_eqb_eq in E2. apply Z.eqb_eq in E3.
  assert (In c (slice_cells m t)) by (eapply same_slice_closed; eassumption).
  assert (ev c <= ev e) by (apply Hmax; [assumption|unfold period in *; simpl in E2; congruence]). lia.
Qed.

Theorem right_triangle_placement u lags t c' :
  (forall s e l, In s (slices t) -> In e (edges s) -> In l (slice_lags u lags s) -> unit_ok u e l) ->
  In c' (flat_map (rt_slice false u lags) (slices t)) ->
  exists s e, In s (slices t) /\ In e (edges s) /\ In e t /\
    period c' = period e /\ cmeta c' = cmeta e /\ cvals c' = [] /\ ckind c' = KCum /\ prev c' = None /\
    (forall c, In c s -> period c = period e -> ev c < ev c') /\         (* strictly after the latest observation *)
    In (cell_lag u c') (slice_lags u lags s) /\ cell_lag u e < cell_lag u c' /\  (* on the lag grid, above the edge *)
    occupied t c' = false.
Proof.
  intros Hok H. apply right_triangle_cum_In in H. destruct H as [s [e [l [Hs [He [Hl [Hlt ->]]]]]]].
  destruct (lag_after u e l (Hok s e l Hs He Hl) Hlt) as [Hafter Hlag].
  destruct (edges_spec _ _ He) as [Hes Hmax].
  exists s, e. repeat split; try assumption; try reflexivity.
  - apply slices_spec in Hs. destruct Hs as [m [_ ->]]. apply slice_cells_In in Hes. tauto.
  - intros c Hc Hp. specialize (Hmax c Hc Hp). simpl. lia.
  - rewrite Hlag. assumption.
  - rewrite Hlag. assumption.
  - eapply new_cell_unoccupied; eassumption.
Qed.

(* exactly the wanted lags above the edge lag *)
Theorem right_triangle_exact u lags s e :
  In e (edges s) -> (forall l, In l (slice_lags u lags s) -> unit_ok u e l) ->
  forall l,
  ((In l (slice_lags u lags s) /\ cell_lag u e < l) <->
   exists c', In c' (rt_row u (slice_lags u lags s) e) /\ cell_lag u c' = l).
Proof.
  intros He Hok l. split.
  - intros [Hl Hlt]. exists (new_cell e (add_lag u (pe e) l)). split; [apply rt_row_In; eauto|].
    apply lag_after; auto.
  - intros [c' [H Hlag]]. apply rt_row_In in H. destruct H as [l' [H1 [H2 ->]]].
    destruct (lag_after u e l' (Hok l' H1) H2) as [_ E]. rewrite E in Hlag. subst. auto.
Qed.

(* empty result exactly when nothing is missing *)
Lemma flat_map_nil {A B} (f : A -> list B) l : flat_map f l = [] <-> forall x, In x l -> f x = [].
Proof.
  induction l as [|a r IH]; simpl; [tauto|]. split.
  - intros H. apply app_eq_nil in H. destruct H as [H1 H2]. intros x [<-|Hx]; [assumption|]. now apply IH.
  - intros H. rewrite (H a (or_introl eq_refl)). simpl. apply IH. auto.
Qed.

Theorem right_triangle_empty u lags t :
  flat_map (rt_slice false u lags) (slices t) = [] <->
  forall s e l, In s (slices t) -> In e (edges s) -> In l (slice_lags u lags s) -> l <= cell_lag u e.
Proof.
  split.
  - intros H s e l Hs He Hl. destruct (Z_lt_le_dec (cell_lag u e) l) as [Hlt|]; [|assumption]. exfalso.
    assert (In (new_cell e (add_lag u (pe e) l)) (flat_map (rt_slice false u lags) (slices t))) as Hin
      by (apply right_triangle_cum_In; exists s, e, l; auto).
    rewrite H in Hin. destruct Hin.
  - intros H. destruct (flat_map (rt_slice false u lags) (slices t)) as [|c' r] eqn:E; [reflexivity|]. exfalso.
    assert (In c' (flat_map (rt_slice false u lags) (slices t))) as Hin by (rewrite E; now left).
    apply right_triangle_cum_In in Hin. destruct Hin as [s [e [l [Hs [He [Hl [Hlt _]]]]]]].
    specialize (H s e l Hs He Hl). lia.
Qed.

(* ================================================================== incremental chain *)
Lemma chain_spec : forall row p,
  map ps (chain p row) = map ps row /\ map pe (chain p row) = map pe row /\
  map ev (chain p row) = map ev row /\ map cmeta (chain p row) = map cmeta row /\
  map cvals (chain p row) = map cvals row /\ Forall (fun c => ckind c = KInc) (chain p row) /\
  chained_b p (chain p row) = true.
Proof.
  induction row as [|c r IH]; intros p; simpl.
  - repeat split; constructor.
  - destruct (IH (ev c)) as [H1 [H2 [H3 [H4 [H5 [H6 H7]]]]]].
    rewrite H1, H2, H3, H4, H5, H7, Z.eqb_refl. repeat split; try reflexivity. constructor; [reflexivity|assumption].
Qed.

(* chained_b read as a statement: the first prev is p, each later prev is the previous evaluation date *)
Lemma chained_b_spec : forall row p, chained_b p row = true <->
  forall i, (i < length row)%nat ->
    prev (nth i row (new_cell (nth 0 row (mkCell KCum 0 0 0 None default_meta [])) 0)) =
    Some (match i with O => p | S j => ev (nth j row (new_cell (nth 0 row (mkCell KCum 0 0 0 None default_meta [])) 0)) end).
Proof.
  intros row. set (dflt := new_cell (nth 0 row (mkCell KCum 0 0 0 None default_meta [])) 0). clearbody dflt.
  induction row as [|c r IH]; intros p.
  - simpl. split; [intros _ i Hi; lia|reflexivity].
  - simpl chained_b. rewrite andb_true_iff, IH. split.
    + intros [H1 H2] [|i] Hi.
      * simpl. destruct (prev c) as [q|]; simpl in H1; [|discriminate]. apply Z.eqb_eq in H1. now subst.
      * simpl in Hi. specialize (H2 i ltac:(lia)). simpl. rewrite H2. destruct i; reflexivity.
    + intros H. split.
      * specialize (H 0%nat ltac:(simpl; lia)). simpl in H. rewrite H. simpl. apply Z.eqb_refl.
      * intros i Hi. specialize (H (S i) ltac:(simpl; lia)). simpl in H. rewrite H. destruct i; reflexivity.
Qed.

(* what the incremental finishing step does to a row of new cells *)
Lemma map_set_meta {B} (f : cell -> B) m row :
  (forall c, f (set_meta m c) = f c) -> map f (map (set_meta m) row) = map f row.
Proof. intros H. rewrite map_map. apply map_ext. exact H. Qed.

Theorem finish_row_inc_spec hd_ e row :
  let out := finish_row true hd_ e row in
  map (fun c => (ps c, pe c, ev c, cvals c)) out = map (fun c => (ps c, pe c, ev c, cvals c)) row /\
  Forall (fun c => ckind c = KInc /\ cmeta c = cmeta hd_) out /\ chained_b (ev e) out = true.
Proof.
  intros out. unfold out, finish_row.
  destruct (chain_spec (map (set_meta (cmeta hd_)) row) (ev e)) as [H1 [H2 [H3 [H4 [H5 [H6 H7]]]]]].
  rewrite (map_set_meta ps) in H1 by reflexivity. rewrite (map_set_meta pe) in H2 by reflexivity.
  rewrite (map_set_meta ev) in H3 by reflexivity. rewrite (map_set_meta cvals) in H5 by reflexivity.
  rewrite map_map in H4. cbn [set_meta cmeta] in H4.
  split; [|split; [|assumption]].
  - clear H4 H6 H7. revert H1 H2 H3 H5. generalize (chain (ev e) (map (set_meta (cmeta hd_)) row)). clear.
    induction row as [|c r IH]; intros [|d l]; simpl; intros H1 H2 H3 H5; try discriminate; [reflexivity|].
    inversion H1; inversion H2; inversion H3; inversion H5. rewrite (IH l) by assumption. congruence.
  - clear H1 H2 H3 H5 H7. revert H4 H6. generalize (chain (ev e) (map (set_meta (cmeta hd_)) row)). clear.
    induction row as [|c r IH]; intros [|d l]; simpl; intros H4 H6; try discriminate; [constructor|].
    injection H4 as E1 E2. inversion H6 as [|? ? K1 K2]. constructor; [split; assumption|].
    apply IH; assumption.
Qed.

Theorem right_triangle_inc_rows u lags s e :
  let row := rt_row u (slice_lags u lags s) e in
  let out := finish_row true (row_head s e) e row in
  map (fun c => (ps c, pe c, ev c, cvals c)) out = map (fun c => (ps c, pe c, ev c, cvals c)) row /\
  Forall (fun c => ckind c = KInc /\ cmeta c = cmeta (row_head s e)) out /\ chained_b (ev e) out = true.
Proof. intros row out. apply finish_row_inc_spec. Qed.

(* the group key of to_cumulative: the first cell of the edge's row, a cell of the same slice and period *)
Lemma row_head_spec s e : In e s -> In (row_head s e) s /\ period (row_head s e) = period e.
Proof.
  intros He. unfold row_head. destruct (filter (in_period (period e)) s) as [|c r] eqn:E; [auto|].
  assert (In c (filter (in_period (period e)) s)) as H by (rewrite E; now left).
  apply filter_In in H. destruct H as [H1 H2]. apply zpair_eqb_eq in H2. auto.
Qed.
Lemma row_head_same_slice m t e :
  In e (slice_cells m t) -> meta_pyeq (cmeta (row_head (slice_cells m t) e)) (cmeta e) = true.
Proof.
  intros He. destruct (row_head_spec _ _ He) as [Hh _].
  apply slice_cells_In in Hh. apply slice_cells_In in He. destruct Hh as [_ Hh]. destruct He as [_ He].
  eapply meta_pyeq_trans; [|exact He]. rewrite meta_pyeq_sym. exact Hh.
Qed.

(* the operator as a whole *)
Theorem make_right_triangle_cases u lags t :
  (is_incremental t = false -> make_right_triangle u lags t = Ok (flat_map (rt_slice false u lags) (slices t))) /\
  (is_incremental t = true -> to_cum_ok t = true ->
     make_right_triangle u lags t = Ok (flat_map (rt_slice true u lags) (slices t))) /\
  (is_incremental t = true -> to_cum_ok t = false -> make_right_triangle u lags t = Err TriangleError) /\
  (t = [] -> make_right_triangle u lags t = Ok []).
Proof.
  unfold make_right_triangle. repeat split.
  - intros ->. reflexivity.
  - intros -> ->. reflexivity.
  - intros -> ->. reflexivity.
  - intros ->. reflexivity.
Qed.

(* the incremental result has the same coordinates / values as the cumulative one *)
Lemma rt_slice_inc_coords u lags s :
  map (fun c => (ps c, pe c, ev c, cvals c)) (rt_slice true u lags s) =
  map (fun c => (ps c, pe c, ev c, cvals c)) (rt_slice false u lags s).
Proof.
  unfold rt_slice. induction (edges s) as [|e r IH]; [reflexivity|].
  cbn [flat_map]. rewrite !map_app. f_equal; [apply right_triangle_inc_rows|exact IH].
Qed.

(* ================================================================== right diagonal *)
Lemma max_ev_ge s c : In c s -> ev c <= max_ev s.
Proof.
  destruct s as [|c0 r]; [intros []|]. simpl. destruct (list_max_ge (map ev r) (ev c0)) as [H1 [H2 _]].
  intros [<-|H]; [assumption|]. apply H2. now apply in_map.
Qed.

Theorem right_diagonal_In dates s c' :
  In c' (rd_slice false dates false s) <->
  exists e d, In e (edges s) /\ In d dates /\ max_ev s < d /\ ps e <= d /\ c' = new_cell e d.
Proof.
  unfold rd_slice, finish_row, rd_row, rd_dates. rewrite in_flat_map. split.
  - intros [e [He H]]. apply in_map_iff in H. destruct H as [d [<- H]]. apply filter_In in H.
    destruct H as [H1 H2]. apply (proj1 (isort_In _ _)) in H1. apply filter_In in H1. destruct H1 as [H1 H3].
    exists e, d. repeat split; try assumption; lia.
  - intros [e [d [He [Hd [Hmax [Hps ->]]]]]]. exists e. split; [assumption|]. apply in_map_iff. exists d.
    split; [reflexivity|]. apply filter_In. split; [|lia]. apply isort_In. apply filter_In. split; [assumption|lia].
Qed.

Theorem right_diagonal_placement dates t c' :
  In c' (flat_map (rd_slice false dates false) (slices t)) ->
  exists s e, In s (slices t) /\ In e (edges s) /\ In e t /\
    period c' = period e /\ cmeta c' = cmeta e /\ cvals c' = [] /\ ckind c' = KCum /\
    In (ev c') dates /\ (forall c, In c s -> ev c < ev c') /\ occupied t c' = false.
Proof.
  rewrite in_flat_map. intros [s [Hs H]]. apply right_diagonal_In in H.
  destruct H as [e [d [He [Hd [Hmax [Hps ->]]]]]]. destruct (edges_spec _ _ He) as [Hes _].
  exists s, e. repeat split; try assumption; try reflexivity.
  - apply slices_spec in Hs. destruct Hs as [m [_ ->]]. apply slice_cells_In in Hes. tauto.
  - intros c Hc. pose proof (max_ev_ge s c Hc). simpl. lia.
  - eapply new_cell_unoccupied; try eassumption. pose proof (max_ev_ge s e Hes). lia.
Qed.

(* ================================================================== fill_forward_gaps *)
Lemma ins_ev_In c l x : In x (ins_ev c l) <-> x = c \/ In x l.
Proof. induction l as [|d r IH]; simpl; [intuition|]. destruct (ev d <=? ev c); simpl; [rewrite IH|]; intuition. Qed.
Lemma sort_ev_In l x : In x (sort_ev l) <-> In x l.
Proof.
  unfold sort_ev. assert (forall acc, In x (fold_left (fun acc c => ins_ev c acc) l acc) <-> In x l \/ In x acc) as H.
  { induction l as [|c r IH]; intros acc; simpl; [tauto|]. rewrite IH, ins_ev_In. intuition. }
  rewrite H. simpl. tauto.
Qed.

Lemma zget_zset k v d k' : zget k' (zset k v d) = if k' =? k then Some v else zget k' d.
Proof.
  induction d as [|[k0 v0] r IH]; simpl.
  - destruct (k' =? k); reflexivity.
  - destruct (k =? k0) eqn:E; simpl.
    + apply Z.eqb_eq in E. subst k0. destruct (k' =? k); reflexivity.
    + destruct (k' =? k0) eqn:E'; [|apply IH]. apply Z.eqb_eq in E'. subst k0.
      destruct (k' =? k) eqn:E''; [|reflexivity]. apply Z.eqb_eq in E''. subst. rewrite Z.eqb_refl in E. discriminate.
Qed.
Lemma zget_In k v d : zget k d = Some v -> In v (map snd d).
Proof.
  induction d as [|[k0 v0] r IH]; simpl; [discriminate|]. destruct (k =? k0); [intros H; inversion H; now left|auto].
Qed.
Lemma In_zset_values x k v d : In x (map snd (zset k v d)) -> x = v \/ In x (map snd d).
Proof.
  induction d as [|[k0 v0] r IH]; simpl; [intuition|]. destruct (k =? k0); simpl; intuition.
Qed.

(* the dictionary built from the observed row *)
Lemma row_dict_values row : forall d x,
  In x (map snd (fold_left (fun d c => zset (mlag c) c d) row d)) -> In x row \/ In x (map snd d).
Proof.
  induction row as [|c r IH]; intros d x; simpl; [tauto|].
  intros H. apply IH in H. destruct H as [H|H]; [tauto|]. apply In_zset_values in H. intuition.
Qed.
Lemma row_dict_get row : NoDup (map mlag row) -> forall d c,
  In c row -> zget (mlag c) (fold_left (fun d c => zset (mlag c) c d) row d) = Some c.
Proof.
  induction row as [|c0 r IH]; intros Hnd d c; simpl; [tauto|].
  inversion Hnd as [|? ? Hn Hnd']; subst. intros [<-|Hc].
  - (* later insertions use other keys *)
    assert (forall l d', ~ In (mlag c0) (map mlag l) -> zget (mlag c0) d' = Some c0 ->
              zget (mlag c0) (fold_left (fun d c => zset (mlag c) c d) l d') = Some c0) as Hkeep.
    { induction l as [|a l IHl]; intros d' Hnot Hg; simpl; [assumption|]. apply IHl.
      - intros C. apply Hnot. now right.
      - rewrite zget_zset. destruct (mlag c0 =? mlag a) eqn:E; [|assumption].
        exfalso. apply Hnot. left. apply Z.eqb_eq in E. auto. }
    apply Hkeep; [assumption|]. rewrite zget_zset, Z.eqb_refl. reflexivity.
  - apply IH; assumption.
Qed.

(* one fill step keeps every entry and only adds a fill of an existing entry *)
Definition is_fill (none : bool) (res : Z) (d : list (Z * cell)) (x : cell) (lag : Z) : Prop :=
  exists src, zget (lag - res) d = Some src /\ x = fill_cell none src lag.

Lemma fill_fold_spec res none : forall lags d0 d,
  fold_left (fill_step res none) lags (Ok d0) = Ok d ->
  (forall k v, zget k d0 = Some v -> zget k d = Some v) /\
  (forall x, In x (map snd d) -> In x (map snd d0) \/
     exists lag src, In lag lags /\ zget lag d0 = None /\ In src (map snd d) /\ x = fill_cell none src lag).
Proof.
  induction lags as [|lag r IH]; intros d0 d; simpl.
  - intros H. inversion H; subst. split; [auto|tauto].
  - destruct (zget lag d0) as [v0|] eqn:E0.
    + intros H. destruct (IH _ _ H) as [H1 H2]. split; [assumption|].
      intros x Hx. destruct (H2 x Hx) as [?|[l [src [Hl [Hn [Hs ->]]]]]]; [tauto|]. right. exists l, src. auto.
    + destruct (zget (lag - res) d0) as [src|] eqn:Es.
      * intros H. destruct (IH _ _ H) as [H1 H2]. split.
        -- intros k v Hk. apply H1. rewrite zget_zset. destruct (k =? lag) eqn:E; [|assumption].
           apply Z.eqb_eq in E. subst. congruence.
        -- intros x Hx. destruct (H2 x Hx) as [Hx0|[l [src' [Hl [Hn [Hs ->]]]]]].
           ++ apply In_zset_values in Hx0. destruct Hx0 as [->|?]; [|tauto]. right. exists lag, src.
              split; [now left|split; [assumption|split; [|reflexivity]]].
              ** apply (zget_In (lag - res)). apply H1. rewrite zget_zset.
                 destruct (lag - res =? lag) eqn:E; [|assumption]. apply Z.eqb_eq in E.
                 (* res = 0 would make the source the new entry itself; still a member *)
                 assert (lag - res = lag) by assumption. rewrite H0 in Es. congruence.
           ++ right. exists l, src'. split; [now right|split; [|split; [assumption|reflexivity]]].
              rewrite zget_zset in Hn. destruct (l =? lag); [discriminate|assumption].
      * intros H. exfalso. clear -H. induction r as [|a r IHr]; simpl in H; [discriminate|auto].
Qed.

Lemma required_lags_In first last res l :
  0 < res -> In l (required_lags first last res) ->
  exists k, 0 <= k /\ l = first + k * res /\ l < last + res.
Proof.
  intros Hr. unfold required_lags. destruct (last <? first) eqn:E; [intros []|].
  rewrite in_map_iff. intros [k [<- Hk]]. apply in_seq in Hk. exists (Z.of_nat k). repeat split; [lia|].
  apply Z.ltb_ge in E.
  assert (0 <= (last - first + res - 1) / res) by (apply Z.div_pos; lia).
  assert (Z.of_nat k <= (last - first + res - 1) / res) by (destruct Hk as [_ Hk]; simpl in Hk; lia).
  assert (res * ((last - first + res - 1) / res) <= last - first + res - 1) by (apply Z.mul_div_le; lia). nia.
Qed.

Theorem fill_row_spec res none row out :
  0 < res -> NoDup (map mlag row) -> fill_row res none row = Ok out ->
  (forall c, In c row -> In c out) /\
  (forall x, In x out -> In x row \/
     exists lag src c0, hd_error row = Some c0 /\ In src out /\ x = fill_cell none src lag /\
       (forall c, In c row -> mlag c <> lag) /\
       (exists k, 0 < k /\ lag = mlag c0 + k * res /\ lag < mlag (last row c0) + res)).
Proof.
  intros Hr Hnd. unfold fill_row. destruct row as [|c0 r] eqn:Erow; [intros H; inversion H; subst; split; [intros ? []|intros ? []]|].
  rewrite <- Erow in *. set (d0 := fold_left (fun d c => zset (mlag c) c d) row []).
  destruct (fold_left (fill_step res none) (required_lags (mlag c0) (mlag (last row c0)) res) (Ok d0)) as [d|e] eqn:E;
    [|discriminate].
  intros H. inversion H; subst out. clear H. destruct (fill_fold_spec res none _ _ _ E) as [H1 H2]. split.
  - intros c Hc. apply (proj2 (sort_ev_In _ _)). apply (zget_In (mlag c)). apply H1. apply row_dict_get; assumption.
  - intros x Hx. apply (proj1 (sort_ev_In _ _)) in Hx. destruct (H2 x Hx) as [Hx0|[lag [src [Hl [Hn [Hs ->]]]]]].
    + left. apply row_dict_values in Hx0. simpl in Hx0. tauto.
    + right. exists lag, src, c0. repeat split.
      * rewrite Erow. reflexivity.
      * apply (proj2 (sort_ev_In _ _)). assumption.
      * intros c Hc Elag. rewrite <- Elag in Hn. unfold d0 in Hn. rewrite row_dict_get in Hn by assumption. discriminate.
      * destruct (required_lags_In _ _ _ _ Hr Hl) as [k [Hk [-> Hlt]]]. exists k. repeat split; try assumption.
        destruct (Z.eq_dec k 0) as [->|]; [|lia]. exfalso. rewrite Z.mul_0_l, Z.add_0_r in Hn.
        unfold d0 in Hn. rewrite row_dict_get in Hn; [discriminate|assumption|rewrite Erow; now left].
Qed.

(* what a fill looks like: same kind, period, prev, metadata; values carried forward or all None *)
Lemma fill_cell_shape none src lag :
  let x := fill_cell none src lag in
  ckind x = ckind src /\ period x = period src /\ prev x = prev src /\ cmeta x = cmeta src /\
  ev x = addm (pe src) lag /\
  cvals x = if none then map (fun kv => (fst kv, VNone)) (cvals src) else cvals src.
Proof. unfold fill_cell. destruct none; simpl; repeat split. Qed.

Lemma concat_results_Ok l : forall out, concat_results l = Ok out ->
  (forall x, In x out <-> exists r o, In r l /\ r = Ok o /\ In x o) /\ forall r, In r l -> exists o, r = Ok o.
Proof.
  induction l as [|[a|e] r IH]; simpl; intros out H.
  - inversion H; subst. split; [|intros ? []]. intros x. split; [intros []|intros [? [? [[] _]]]].
  - destruct (concat_results r) as [b|e] eqn:E; [|discriminate]. inversion H; subst. destruct (IH b eq_refl) as [H1 H2].
    split.
    + intros x. rewrite in_app_iff, H1. split.
      * intros [Hx|[r0 [o [Hr [-> Hx]]]]]; [exists (Ok a), a; auto|exists (Ok o), o; auto].
      * intros [r0 [o [[<-|Hr] [E0 Hx]]]]; [inversion E0; subst; auto|right; eauto].
    + intros r0 [<-|Hr]; eauto.
  - discriminate.
Qed.

Lemma all_rows_cover t c : In c t -> exists row, In row (all_rows t) /\ In c row.
Proof.
  intros Hc. destruct (slices_cover t c Hc) as [s [Hs Hcs]]. unfold all_rows.
  exists (filter (in_period (period c)) s). split.
  - apply in_flat_map. exists s. split; [assumption|]. unfold rows_of. apply in_map_iff. exists (period c).
    split; [reflexivity|]. apply periods_spec. eauto.
  - apply filter_In. split; [assumption|]. apply zpair_eqb_eq. reflexivity.
Qed.
Lemma all_rows_sub t row c : In row (all_rows t) -> In c row -> In c t.
Proof.
  unfold all_rows. rewrite in_flat_map. intros [s [Hs Hrow]] Hc. unfold rows_of in Hrow.
  apply in_map_iff in Hrow. destruct Hrow as [p [<- _]]. apply filter_In in Hc. destruct Hc as [Hc _].
  apply slices_spec in Hs. destruct Hs as [m [_ ->]]. apply slice_cells_In in Hc. tauto.
Qed.

Theorem fill_forward_gaps_spec res none t out :
  0 < res -> (forall row, In row (all_rows t) -> NoDup (map mlag row)) ->
  fill_forward_gaps (Some res) none t = Ok out ->
  (forall c, In c t -> In c out) /\
  (forall x, In x out -> In x t \/
     exists row lag src c0, In row (all_rows t) /\ hd_error row = Some c0 /\ In src out /\
       x = fill_cell none src lag /\ (forall c, In c row -> mlag c <> lag) /\
       (exists k, 0 < k /\ lag = mlag c0 + k * res /\ lag < mlag (last row c0) + res)).
Proof.
  intros Hr Hnd. unfold fill_forward_gaps. destruct t as [|c1 t'] eqn:Et; [intros H; inversion H; split; [auto|intros ? []]|].
  rewrite <- Et in *. assert (res =? 0 = false) as -> by lia. assert (res <? 0 = false) as -> by lia.
  intros H. destruct (concat_results_Ok _ _ H) as [H1 H2]. split.
  - intros c Hc. destruct (all_rows_cover t c Hc) as [row [Hrow Hcr]].
    destruct (H2 (fill_row res none row)) as [o Ho]; [apply in_map; assumption|].
    apply H1. exists (fill_row res none row), o. repeat split; [apply in_map; assumption|assumption|].
    destruct (fill_row_spec res none row o Hr (Hnd row Hrow) Ho) as [Hk _]. auto.
  - intros x Hx. apply H1 in Hx. destruct Hx as [r [o [Hr0 [-> Hx]]]]. apply in_map_iff in Hr0.
    destruct Hr0 as [row [Ho Hrow]]. destruct (fill_row_spec res none row o Hr (Hnd row Hrow) Ho) as [_ Hs].
    destruct (Hs x Hx) as [Hin|[lag [src [c0 [Hh [Hsrc [-> [Hno Hk]]]]]]]].
    + left. eapply all_rows_sub; eassumption.
    + right. exists row, lag, src, c0. repeat split; try assumption.
      apply H1. exists (fill_row res none row), o. repeat split; [apply in_map; assumption|assumption|assumption].
Qed.

(* ================================================================== backfill *)
Lemma take_while_In {A} (f : A -> bool) l x : In x (take_while f l) -> In x l /\ f x = true.
Proof.
  induction l as [|a r IH]; simpl; [tauto|]. destruct (f a) eqn:E; [|intros []].
  intros [<-|H]; [auto|]. destruct (IH H). auto.
Qed.

Lemma back_lags_In current res bound l :
  0 < res -> In l (back_lags current res bound) ->
  exists k, 0 < k /\ l = current - k * res /\ bound <= l.
Proof.
  intros Hr. unfold back_lags. destruct (current - res <? bound) eqn:E; [intros []|].
  apply Z.ltb_ge in E. rewrite in_map_iff. intros [k [<- Hk]]. apply in_seq in Hk.
  exists (Z.of_nat k + 1). repeat split; [lia|].
  assert (0 <= (current - res - bound) / res) by (apply Z.div_pos; lia).
  assert (Z.of_nat k <= (current - res - bound) / res) by (destruct Hk as [_ Hk]; simpl in Hk; lia).
  assert (res * ((current - res - bound) / res) <= current - res - bound) by (apply Z.mul_div_le; lia). nia.
Qed.

Lemma backfill_cells_In res bound vals c x :
  0 < res -> In x (backfill_cells res bound vals c) ->
  exists k, 0 < k /\ bound <= mlag c - k * res /\
    x = mkCell (ckind c) (ps c) (pe c) (addm (pe c) (mlag c - k * res)) (prev c) (cmeta c) vals /\
    ps c <= ev x /\ match prev c with Some p => p < ev x | None => True end.
Proof.
  intros Hr. unfold backfill_cells. rewrite <- in_rev, in_map_iff. intros [d [<- Hd]].
  apply take_while_In in Hd. destruct Hd as [Hd Hv]. apply in_map_iff in Hd. destruct Hd as [l [<- Hl]].
  destruct (back_lags_In _ _ _ _ Hr Hl) as [k [Hk [-> Hb]]]. exists k. unfold valid_back in Hv.
  apply andb_true_iff in Hv. destruct Hv as [Hv1 Hv2]. repeat split; try assumption; simpl; [lia|].
  destruct (prev c); [lia|exact I].
Qed.

Theorem bf_go_spec res bound statics : 0 < res -> forall t seen out,
  bf_go res bound statics seen t = Ok out ->
  (forall c, In c t -> In c out) /\
  (forall x, In x out -> In x t \/
     exists c vals, In c t /\ backfill_values statics c = Ok vals /\ In x (backfill_cells res bound vals c)).
Proof.
  intros Hr. induction t as [|c r IH]; intros seen out; simpl.
  - intros H. inversion H. split; [auto|intros ? []].
  - destruct (existsb (zpair_eqb (period c)) seen).
    + destruct (bf_go res bound statics seen r) as [l|e] eqn:E; [|discriminate]. intros H. inversion H; subst.
      destruct (IH _ _ E) as [H1 H2]. split.
      * intros d [<-|Hd]; [now left|right; auto].
      * intros x [<-|Hx]; [left; now left|]. destruct (H2 x Hx) as [?|[c' [v [Hc' [Hv Hx']]]]]; [left; now right|].
        right. exists c', v. repeat split; [now right|assumption|assumption].
    + destruct (backfill_values statics c) as [vals|e] eqn:Ev; [|discriminate].
      destruct (bf_go res bound statics (period c :: seen) r) as [l|e] eqn:E; [|discriminate].
      intros H. inversion H; subst. destruct (IH _ _ E) as [H1 H2]. split.
      * intros d [<-|Hd]; apply in_or_app; right; [now left|right; auto].
      * intros x Hx. apply in_app_or in Hx. destruct Hx as [Hx|[<-|Hx]].
        -- right. exists c, vals. repeat split; [now left|assumption|assumption].
        -- left. now left.
        -- destruct (H2 x Hx) as [?|[c' [v [Hc' [Hv Hx']]]]]; [left; now right|].
           right. exists c', v. repeat split; [now right|assumption|assumption].
Qed.

(* backfilled values: same keys as the first observation; zero, or the static's own value *)
Lemma dict_set_keys {V} k (v : V) d : has_key k d = true -> keys (dict_set k v d) = keys d.
Proof.
  unfold has_key. induction d as [|[k0 v0] r IH]; simpl; [discriminate|].
  destruct (str_eqb k k0) eqn:E; simpl; [reflexivity|]. intros H. f_equal. apply IH. assumption.
Qed.
Lemma assoc_dict_set {V} k (v : V) d k' :
  assoc k' (dict_set k v d) = if str_eqb k' k then (if has_key k d then Some v else Some v) else assoc k' d.
Proof.
  induction d as [|[k0 v0] r IH]; simpl.
  - destruct (str_eqb k' k); reflexivity.
  - destruct (str_eqb k k0) eqn:E; simpl.
    + apply str_eqb_eq in E. subst k0. destruct (str_eqb k' k) eqn:E'; [destruct (has_key k ((k, v0) :: r)); reflexivity|reflexivity].
    + destruct (str_eqb k' k0) eqn:E'.
      * apply str_eqb_eq in E'. subst k0. destruct (str_eqb k' k) eqn:E''; [|reflexivity].
        apply str_eqb_eq in E''. subst. rewrite str_eqb_refl in E. discriminate.
      * rewrite IH. destruct (str_eqb k' k); [|reflexivity]. destruct (has_key k r), (has_key k ((k0, v0) :: r)); reflexivity.
Qed.

Lemma set_statics_spec src : forall statics vals out,
  keys vals = keys src -> set_statics statics src vals = Ok out ->
  keys out = keys src /\
  forall k, assoc k out = (if existsb (str_eqb k) statics then assoc k src else assoc k vals).
Proof.
  induction statics as [|f r IH]; intros vals out Hk; simpl.
  - intros H. inversion H; subst. auto.
  - destruct (assoc f src) as [v|] eqn:E; [|discriminate]. intros H.
    assert (Hhas : has_key f vals = true).
    { unfold has_key. destruct (assoc f vals) eqn:E2; [reflexivity|]. exfalso.
      apply assoc_None_keys in E2. rewrite Hk in E2. apply E2. apply assoc_Some_In in E.
      unfold keys. apply in_map_iff. exists (f, v). auto. }
    destruct (IH (dict_set f v vals) out) as [H1 H2]; [rewrite dict_set_keys; assumption|assumption|].
    split; [assumption|]. intros k. rewrite H2. rewrite assoc_dict_set.
    destruct (str_eqb k f) eqn:Ekf; simpl.
    + apply str_eqb_eq in Ekf. subst k. destruct (existsb (str_eqb f) r); [reflexivity|].
      rewrite Hhas. congruence.
    + reflexivity.
Qed.

Theorem backfill_values_spec statics c vals :
  backfill_values statics c = Ok vals ->
  keys vals = keys (cvals c) /\
  forall k, assoc k vals = if existsb (str_eqb k) statics then assoc k (cvals c)
                           else option_map (fun _ => zero) (assoc k (cvals c)).
Proof.
  unfold backfill_values. intros H.
  assert (Hk : keys (map (fun kv : str * value => (fst kv, zero)) (cvals c)) = keys (cvals c)).
  { unfold keys. rewrite map_map. reflexivity. }
  destruct (set_statics_spec _ _ _ _ Hk H) as [H1 H2]. split; [assumption|]. intros k. rewrite H2.
  destruct (existsb (str_eqb k) statics); [reflexivity|].
  generalize (cvals c). clear. intros l.
  induction l as [|[k0 v0] r IH]; simpl; [reflexivity|]. destruct (str_eqb k k0); [reflexivity|assumption].
Qed.

(* month arithmetic for the placement of backfilled / filled cells *)
Lemma back_before c k res :
  aligned c -> 0 < res -> 0 < k -> MINID <= month_id (pe c) + (mlag c - k * res) ->
  addm (pe c) (mlag c - k * res) < ev c /\
  lag_months (pe c) (addm (pe c) (mlag c - k * res)) = mlag c - k * res.
Proof.
  intros [a [b [Ha [Hb [Hpe Hev]]]]] Hr Hk Hlo. unfold mlag in *. rewrite Hpe, Hev in *.
  rewrite month_id_end in Hlo by assumption. rewrite lag_months_ends in * by assumption.
  rewrite addm_end by assumption. assert (a + (b - a - k * res) = b - k * res) as E by lia. rewrite E in *.
  split.
  - apply month_end_mono; nia.
  - rewrite lag_months_ends by lia. lia.
Qed.

Lemma fill_lag_in_gap first last res k lag :
  0 < res -> 0 < k -> lag = first + k * res -> lag < last + res -> (res | last - first) -> lag <> last ->
  first < lag < last.
Proof.
  intros Hr Hk -> Hlt [q Hq] Hne.
  assert (k * res < (q + 1) * res) by lia.
  assert (k < q + 1) by (apply (Z.mul_lt_mono_pos_r res); lia).
  assert (k < q) by (destruct (Z.eq_dec k q) as [->|]; [exfalso; apply Hne; lia|lia]).
  assert (k * res < q * res) by (apply Z.mul_lt_mono_pos_r; lia).
  assert (0 < k * res) by (apply Z.mul_pos_pos; lia).
  lia.
Qed.

(* lag of a filled cell on an aligned source *)
Lemma fill_cell_lag none src lag :
  aligned src -> lag_in_range src lag -> mlag (fill_cell none src lag) = lag.
Proof.
  intros [a [b [Ha [Hb [Hpe Hev]]]]] Hr. unfold lag_in_range in Hr. unfold mlag.
  destruct (fill_cell_shape none src lag) as [_ [Hp [_ [_ [He _]]]]].
  assert (pe (fill_cell none src lag) = pe src) as -> by (unfold period in Hp; congruence).
  rewrite He, Hpe in *. rewrite month_id_end in Hr by assumption.
  rewrite addm_end, lag_months_ends by assumption. lia.
Qed.

Theorem backfill_spec statics res min_lag t out :
  0 < res -> backfill statics (Some res) min_lag t = Ok out ->
  exists pres, period_resolution t = Ok (Some pres) /\
  (forall c, In c t -> In c out) /\
  (forall x, In x out -> In x t \/
     exists c vals k, In c t /\ backfill_values statics c = Ok vals /\ 0 < k /\
       Z.max min_lag (- pres + 1) <= mlag c - k * res /\
       x = mkCell (ckind c) (ps c) (pe c) (addm (pe c) (mlag c - k * res)) (prev c) (cmeta c) vals /\
       ps c <= ev x /\ match prev c with Some p => p < ev x | None => True end).
Proof.
  intros Hr. unfold backfill. destruct (period_resolution t) as [[pres|]|e]; try discriminate.
  assert (res <=? 0 = false) as -> by lia. intros H. exists pres. split; [reflexivity|].
  destruct (bf_go_spec res _ statics Hr t [] out H) as [H1 H2]. split; [assumption|].
  intros x Hx. destruct (H2 x Hx) as [?|[c [vals [Hc [Hv Hx']]]]]; [tauto|]. right.
  destruct (backfill_cells_In _ _ _ _ _ Hr Hx') as [k [Hk [Hb [-> [Hps Hprev]]]]].
  exists c, vals, k. repeat split; assumption.
Qed.

Lemma last_In {A} (l : list A) d : l <> [] -> In (last l d) l.
Proof.
  induction l as [|a r IH]; [congruence|]. intros _. destruct r as [|b r']; [now left|].
  right. apply IH. discriminate.
Qed.

Theorem fill_forward_gaps_full res none t out :
  0 < res -> (forall row, In row (all_rows t) -> NoDup (map mlag row)) ->
  fill_forward_gaps (Some res) none t = Ok out ->
  (forall c, In c t -> In c out) /\
  (forall x, In x out -> In x t \/
     exists row lag src c0, In row (all_rows t) /\ hd_error row = Some c0 /\ In src out /\
       x = fill_cell none src lag /\ (forall c, In c row -> mlag c <> lag) /\
       (exists k, 0 < k /\ lag = mlag c0 + k * res /\ lag < mlag (last row c0) + res /\
          ((res | mlag (last row c0) - mlag c0) -> mlag c0 < lag < mlag (last row c0)))).
Proof.
  intros Hr Hnd H. destruct (fill_forward_gaps_spec res none t out Hr Hnd H) as [H1 H2].
  split; [assumption|]. intros x Hx.
  destruct (H2 x Hx) as [?|[row [lag [src [c0 [Hrow [Hh [Hs [Ex [Hno [k [Hk [El Hlt]]]]]]]]]]]]]; [tauto|].
  right. exists row, lag, src, c0. split; [assumption|]. split; [assumption|]. split; [assumption|].
  split; [assumption|]. split; [assumption|]. exists k. split; [assumption|]. split; [assumption|].
  split; [assumption|]. intros Hdiv.
  apply (fill_lag_in_gap (mlag c0) (mlag (last row c0)) res k lag); try assumption.
  intros E. apply (Hno (last row c0)); [|symmetry; exact E].
  apply last_In. destruct row; [discriminate|discriminate].
Qed.

(* ================================================================== regenerated decision tokens *)
Lemma lagcmp_ok_sound d : lagcmp_spec_ok d = true -> forall a b, eval_lagcmp d a b = lag_above a b.
Proof.
  destruct d as [l o r]. destruct l, o, r; simpl; try discriminate; intros _ a b;
    unfold eval_lagcmp, lag_above; simpl; lia.
Qed.
Theorem rt_row_gen d u lags e : lagcmp_spec_ok d = true -> rt_row_with (eval_lagcmp d) u lags e = rt_row u lags e.
Proof.
  intros H. unfold rt_row, rt_row_with. f_equal. apply filter_ext. intros a. apply lagcmp_ok_sound, H.
Qed.

(* the cell that backfill extends backwards is the FIRST cell of its period in t.cells (for a sorted
   triangle: the earliest observation of the period's first slice) *)
Theorem bf_go_first res bound statics : 0 < res -> forall t seen out,
  bf_go res bound statics seen t = Ok out ->
  forall x, In x out -> In x t \/
    exists c vals pre post, t = pre ++ c :: post /\ (forall d, In d pre -> period d <> period c) /\
      existsb (zpair_eqb (period c)) seen = false /\
      backfill_values statics c = Ok vals /\ In x (backfill_cells res bound vals c).
Proof.
  intros Hr. induction t as [|c r IH]; intros seen out; simpl.
  - intros H. inversion H. intros ? [].
  - destruct (existsb (zpair_eqb (period c)) seen) eqn:Eseen.
    + destruct (bf_go res bound statics seen r) as [l|e] eqn:E; [|discriminate]. intros H. inversion H; subst.
      intros x [<-|Hx]; [left; now left|].
      destruct (IH _ _ E x Hx) as [?|[c' [v [pre [post [-> [Hpre [Hs [Hv Hx']]]]]]]]]; [left; now right|].
      right. exists c', v, (c :: pre), post. repeat split; try assumption.
      intros d [<-|Hd]; [|auto]. intros Ep. rewrite Ep in Eseen. congruence.
    + destruct (backfill_values statics c) as [vals|e] eqn:Ev; [|discriminate].
      destruct (bf_go res bound statics (period c :: seen) r) as [l|e] eqn:E; [|discriminate].
      intros H. inversion H; subst. intros x Hx. apply in_app_or in Hx. destruct Hx as [Hx|[<-|Hx]].
      * right. exists c, vals, [], r. repeat split; try assumption. intros d [].
      * left. now left.
      * destruct (IH _ _ E x Hx) as [?|[c' [v [pre [post [-> [Hpre [Hs [Hv Hx']]]]]]]]]; [left; now right|].
        simpl in Hs. apply orb_false_iff in Hs. destruct Hs as [Hs1 Hs2].
        right. exists c', v, (c :: pre), post. repeat split; try assumption.
        intros d [<-|Hd]; [|auto]. intros Ep. rewrite Ep in Hs1.
        assert (zpair_eqb (period c') (period c') = true) by (apply zpair_eqb_eq; reflexivity). congruence.
Qed.

Theorem backfill_first statics res min_lag t out :
  0 < res -> backfill statics (Some res) min_lag t = Ok out ->
  forall x, In x out -> In x t \/
    exists c vals pre post pres, t = pre ++ c :: post /\ (forall d, In d pre -> period d <> period c) /\
      period_resolution t = Ok (Some pres) /\ backfill_values statics c = Ok vals /\
      In x (backfill_cells res (Z.max min_lag (- pres + 1)) vals c).
Proof.
  intros Hr. unfold backfill. destruct (period_resolution t) as [[pres|]|e]; try discriminate.
  assert (res <=? 0 = false) as -> by lia. intros H x Hx.
  destruct (bf_go_first res _ statics Hr t [] out H x Hx) as [?|[c [v [pre [post [E [Hpre [_ [Hv Hx']]]]]]]]]; [tauto|].
  right. exists c, v, pre, post, pres. auto.
Qed.

(* with the sortedness invariant of a triangle (C01), that cell is the earliest of its slice & period *)
Definition rows_sorted (t : list cell) : Prop :=
  forall pre c post, t = pre ++ c :: post -> forall d, In d post ->
    period d = period c -> meta_pyeq (cmeta c) (cmeta d) = true -> ev c <= ev d.
Lemma first_of_period_earliest t pre c post :
  rows_sorted t -> t = pre ++ c :: post -> (forall d, In d pre -> period d <> period c) ->
  forall d, In d t -> period d = period c -> meta_pyeq (cmeta c) (cmeta d) = true -> ev c <= ev d.
Proof.
  intros Hs E Hpre d Hd Hp Hm. rewrite E in Hd. apply in_app_or in Hd. destruct Hd as [Hd|[<-|Hd]].
  - exfalso. apply (Hpre d Hd Hp).
  - lia.
  - eapply Hs; eassumption.
Qed.
