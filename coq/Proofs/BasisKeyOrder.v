(** C04: the two dict combinators of basis.py look the second operand up BY KEY, so the order in which the second
    cell's values dict was written is irrelevant (round 9: `merge` / `to_incremental` hand out ==-equal cells whose
    value dicts hold the same fields in another order; a positional pairing would subtract across fields). *)
From Coq Require Import ZArith List Bool Lia.
From Bermuda Require Import Model.Base Model.Basis Proofs.BasisEq.
Import ListNotations.

Lemma assoc_some_in_keys {V} k (d : list (str * V)) : (exists v, assoc k d = Some v) <-> In k (keys d).
Proof.
  induction d as [|[k' v'] r IH]; cbn [assoc keys map fst].
  - split; [intros [v H]; discriminate | intros []].
  - destruct (str_eqb k k') eqn:E.
    + apply str_eqb_eq in E; subst. split; [intros _; now left | intros _; eauto].
    + assert (E' : k <> k') by (intros ->; rewrite str_eqb_refl in E; discriminate). clear E. rename E' into E. rewrite IH. unfold keys. split; [intros H; now right | intros [H|H]; [congruence|exact H]].
Qed.

Lemma has_key_in {V} k (d : list (str * V)) : has_key k d = true <-> In k (keys d).
Proof.
  rewrite <- assoc_some_in_keys. unfold has_key. destruct (assoc k d); split; intros H; eauto; try discriminate.
  destruct H as [v H]; discriminate.
Qed.

Definition same_map {V} (a b : list (str * V)) : Prop := forall k, assoc k a = assoc k b.

Lemma same_map_keys {V} (a b : list (str * V)) k : same_map a b -> (In k (keys a) <-> In k (keys b)).
Proof. intros H. rewrite <- !assoc_some_in_keys, (H k). tauto. Qed.

Lemma subset_keys_same_map_r first (s s' : list (str * value)) :
  same_map s' s -> subset_keys first s' = subset_keys first s.
Proof.
  intros H. unfold subset_keys. induction (keys first) as [|k r IH]; cbn [forallb]; [reflexivity|].
  rewrite IH. unfold has_key. now rewrite (H k).
Qed.

Lemma subset_keys_same_map_l first (s s' : list (str * value)) :
  same_map s' s -> subset_keys s' first = subset_keys s first.
Proof.
  intros H. unfold subset_keys. apply Bool.eq_true_iff_eq. rewrite !forallb_forall.
  split; intros A k Hk; apply A; now apply (same_map_keys s' s k H).
Qed.

Lemma mapM_ext {A B} (f g : A -> result B) l : (forall a, f a = g a) -> mapM f l = mapM g l.
Proof. intros E. induction l as [|a r IH]; cbn [mapM]; [reflexivity|]. now rewrite E, IH. Qed.

Lemma values_combine_second_key_order carry op first second second' :
  same_map second' second ->
  values_combine carry op first second' = values_combine carry op first second.
Proof.
  intros H. unfold values_combine.
  rewrite (subset_keys_same_map_r first second second' H), (subset_keys_same_map_l first second second' H).
  destruct (subset_keys first second && subset_keys second first); [|reflexivity].
  apply mapM_ext. intros kv. now rewrite (H (fst kv)).
Qed.

(* the order of the FIRST operand only permutes the result (when there is one) *)
From Coq Require Import Permutation.

Lemma mapM_perm {A B} (f : A -> result B) l l' r :
  Permutation l l' -> mapM f l = Ok r -> exists r', mapM f l' = Ok r' /\ Permutation r r'.
Proof.
  intros P. revert r. induction P as [|x l l' P IH|x y l|l l' l'' P1 IH1 P2 IH2]; intros r H.
  - exists r. split; [exact H|apply Permutation_refl].
  - cbn [mapM] in *. destruct (f x) as [b|e]; cbn [bind] in *; [|discriminate].
    destruct (mapM f l) as [bs|e] eqn:E; cbn [bind] in *; [|discriminate].
    injection H as <-. destruct (IH bs eq_refl) as (bs' & -> & Pb). cbn [bind].
    exists (b :: bs'). split; [reflexivity|now apply perm_skip].
  - cbn [mapM] in *. destruct (f y) as [by_|e]; cbn [bind] in *; [|discriminate].
    destruct (f x) as [bx|e]; cbn [bind] in *; [|discriminate].
    destruct (mapM f l) as [bs|e]; cbn [bind] in *; [|discriminate].
    injection H as <-. exists (bx :: by_ :: bs). split; [reflexivity|apply perm_swap].
  - destruct (IH1 r H) as (r1 & H1 & Q1). destruct (IH2 r1 H1) as (r2 & H2 & Q2).
    exists r2. split; [exact H2|eapply Permutation_trans; eauto].
Qed.

Lemma keys_perm {V} (a b : list (str * V)) : Permutation a b -> Permutation (keys a) (keys b).
Proof. intros P. unfold keys. now apply Permutation_map. Qed.

Lemma subset_keys_perm_l (a a' b : list (str * value)) :
  Permutation a a' -> subset_keys a' b = subset_keys a b.
Proof.
  intros P. unfold subset_keys. apply Bool.eq_true_iff_eq. rewrite !forallb_forall.
  pose proof (keys_perm a a' P) as Pk.
  split; intros H k Hk; apply H; [eapply Permutation_in; [exact Pk|exact Hk] | eapply Permutation_in; [apply Permutation_sym; exact Pk|exact Hk]].
Qed.

Lemma subset_keys_perm_r (a a' b : list (str * value)) :
  Permutation a a' -> subset_keys b a' = subset_keys b a.
Proof.
  intros P. unfold subset_keys. induction (keys b) as [|k r IH]; cbn [forallb]; [reflexivity|].
  rewrite IH. f_equal. apply Bool.eq_true_iff_eq. rewrite !has_key_in.
  pose proof (keys_perm a a' P) as Pk.
  split; intros H; [eapply Permutation_in; [apply Permutation_sym; exact Pk|exact H] | eapply Permutation_in; [exact Pk|exact H]].
Qed.

Lemma values_combine_first_key_order carry op first first' second out :
  Permutation first first' ->
  values_combine carry op first second = Ok out ->
  exists out', values_combine carry op first' second = Ok out' /\ Permutation out out'.
Proof.
  intros P. unfold values_combine.
  rewrite (subset_keys_perm_l first first' second P), (subset_keys_perm_r first first' second P).
  destruct (subset_keys first second && subset_keys second first); [|discriminate].
  now apply mapM_perm.
Qed.
