(** C07 -- generic lemmas: strings, association lists, map_res, ISO dates. *)
From Coq Require Import ZArith List Bool Lia ZifyBool.
From Bermuda Require Import Model.Base Lib.Calendar Model.Json.
Import ListNotations.
Local Open Scope Z_scope.

(* ------------------------------------------------------------------ strings *)
Lemma str_eqb_eq : forall a b : str, str_eqb a b = true <-> a = b.
Proof.
  unfold str_eqb. induction a as [|x a IH]; destruct b as [|y b]; cbn; split; try congruence; try easy.
  - rewrite andb_true_iff, Z.eqb_eq, IH. intros [-> ->]; reflexivity.
  - intros E; inversion E; subst. rewrite Z.eqb_refl. cbn. apply IH. reflexivity.
Qed.
Lemma str_eqb_refl : forall a, str_eqb a a = true.
Proof. intros; apply str_eqb_eq; reflexivity. Qed.
Lemma str_eqb_sym : forall a b, str_eqb a b = str_eqb b a.
Proof.
  intros. destruct (str_eqb a b) eqn:E.
  - apply str_eqb_eq in E; subst. symmetry; apply str_eqb_refl.
  - destruct (str_eqb b a) eqn:F; [|reflexivity]. apply str_eqb_eq in F; subst.
    rewrite str_eqb_refl in E; discriminate.
Qed.
Lemma str_eqb_neq : forall a b, str_eqb a b = false <-> a <> b.
Proof.
  intros. split.
  - intros E H. apply str_eqb_eq in H. congruence.
  - intros H. destruct (str_eqb a b) eqn:E; [apply str_eqb_eq in E; contradiction|reflexivity].
Qed.
Lemma str_mem_In : forall k l, str_mem k l = true <-> In k l.
Proof.
  unfold str_mem. intros. rewrite existsb_exists. split.
  - intros [x [H1 H2]]. apply str_eqb_eq in H2; subst; assumption.
  - intros H. exists k. split; [assumption|apply str_eqb_refl].
Qed.

(* ------------------------------------------------------------------ association lists *)
Lemma has_key_mem : forall V k (d : list (str * V)), has_key k d = str_mem k (keys d).
Proof.
  unfold has_key, keys, str_mem. induction d as [|[k' v] r IH]; cbn; [reflexivity|].
  destruct (str_eqb k k'); cbn; [reflexivity|exact IH].
Qed.
Lemma assoc_none_mem : forall V k (d : list (str * V)), assoc k d = None <-> str_mem k (keys d) = false.
Proof.
  intros. rewrite <- has_key_mem. unfold has_key. destruct (assoc k d); split; congruence.
Qed.
Lemma assoc_app : forall V k (a b : list (str * V)),
  assoc k (a ++ b) = match assoc k a with Some v => Some v | None => assoc k b end.
Proof.
  induction a as [|[k' v] r IH]; intros; cbn; [reflexivity|]. destruct (str_eqb k k'); [reflexivity|apply IH].
Qed.
Lemma assoc_map : forall V W (f : V -> W) k (d : list (str * V)),
  assoc k (map (fun kv => (fst kv, f (snd kv))) d) = option_map f (assoc k d).
Proof.
  induction d as [|[k' v] r IH]; cbn; [reflexivity|]. destruct (str_eqb k k'); [reflexivity|exact IH].
Qed.
Lemma keys_map : forall V W (f : V -> W) (d : list (str * V)),
  keys (map (fun kv => (fst kv, f (snd kv))) d) = keys d.
Proof. unfold keys. intros. rewrite map_map. reflexivity. Qed.
Lemma keys_app : forall V (a b : list (str * V)), keys (a ++ b) = keys a ++ keys b.
Proof. unfold keys. intros. apply map_app. Qed.

(* nodup on key lists *)
Fixpoint nd (l : list str) : bool :=
  match l with [] => true | k :: r => negb (str_mem k r) && nd r end.
Lemma nodup_keys_nd : forall V (d : list (str * V)), nodup_keys d = nd (keys d).
Proof. unfold nodup_keys. intros. generalize (keys d). induction l; cbn; congruence. Qed.

Lemma dict_set_fresh : forall V k (v : V) d, str_mem k (keys d) = false -> dict_set k v d = d ++ [(k, v)].
Proof.
  induction d as [|[k' v'] r IH]; cbn; intros H; [reflexivity|].
  unfold str_mem in H. cbn in H. apply orb_false_iff in H. destruct H as [H1 H2].
  rewrite H1. f_equal. apply IH. exact H2.
Qed.
Lemma str_mem_app : forall k a b, str_mem k (a ++ b) = str_mem k a || str_mem k b.
Proof. unfold str_mem. intros. apply existsb_app. Qed.
Lemma str_mem_cons : forall k x r, str_mem k (x :: r) = str_eqb k x || str_mem k r.
Proof. reflexivity. Qed.
Lemma nd_app_single : forall l k, nd (l ++ [k]) = nd l && negb (str_mem k l).
Proof.
  induction l as [|x r IH]; intros; [reflexivity|].
  cbn [app nd]. rewrite IH, str_mem_app, !str_mem_cons, (str_eqb_sym k x).
  replace (str_mem x []) with false by reflexivity.
  generalize (str_mem x r), (str_eqb x k), (nd r), (str_mem k r). intros [] [] [] []; reflexivity.
Qed.
Lemma nd_app_mem : forall a k r, nd (a ++ k :: r) = true -> str_mem k a = false.
Proof.
  induction a as [|x l IH]; intros k r H; [reflexivity|].
  cbn [app nd] in H. apply andb_true_iff in H. destruct H as [H1 H2].
  rewrite str_mem_cons, (IH _ _ H2), orb_false_r.
  apply negb_true_iff in H1. rewrite str_mem_app, str_mem_cons in H1.
  rewrite str_eqb_sym. destruct (str_eqb x k); [|reflexivity].
  rewrite orb_true_r in H1. discriminate.
Qed.
Lemma dict_of_pairs_nd : forall V (kv : list (str * V)), nd (keys kv) = true -> dict_of_pairs kv = kv.
Proof.
  intros V kv. unfold dict_of_pairs.
  assert (G : forall acc, nd (keys (acc ++ kv)) = true ->
            fold_left (fun a p => dict_set (fst p) (snd p) a) kv acc = acc ++ kv).
  { induction kv as [|[k v] r IH]; intros acc H; cbn [fold_left]; [now rewrite app_nil_r|].
    assert (E : acc ++ (k, v) :: r = (acc ++ [(k, v)]) ++ r) by (rewrite <- app_assoc; reflexivity).
    cbn [fst snd]. rewrite dict_set_fresh.
    - rewrite E in H |- *. apply IH. exact H.
    - rewrite keys_app in H. cbn in H. apply (nd_app_mem _ _ _ H). }
  intros H. apply (G []). exact H.
Qed.

(* ------------------------------------------------------------------ map_res *)
Lemma map_res_ok : forall A B (f : A -> result B) (g : A -> B) l,
  (forall x, In x l -> f x = Ok (g x)) -> map_res f l = Ok (map g l).
Proof.
  induction l as [|x r IH]; intros H; cbn; [reflexivity|].
  rewrite (H x (or_introl eq_refl)). cbn. rewrite IH; [reflexivity|]. intros; apply H; now right.
Qed.
Lemma map_res_app : forall A B (f : A -> result B) a b ra rb,
  map_res f a = Ok ra -> map_res f b = Ok rb -> map_res f (a ++ b) = Ok (ra ++ rb).
Proof.
  induction a as [|x r IH]; intros b ra rb Ha Hb; cbn in *.
  - inversion Ha; subst. exact Hb.
  - destruct (f x) as [y|]; cbn in *; [|discriminate].
    destruct (map_res f r) as [ys|] eqn:E; cbn in *; [|discriminate].
    inversion Ha; subst. rewrite (IH b ys rb eq_refl Hb). reflexivity.
Qed.

(* the anonymous fixpoints inside [hook] are map_res *)
Lemma hook_arr : forall L l,
  hook L (JArr l) = bind (map_res (hook L) l) (fun vs => Ok (PList vs)).
Proof.
  intros. cbn. f_equal. induction l as [|x r IH]; [reflexivity|]. cbn. rewrite IH. reflexivity.
Qed.
Definition hook_member (L : layout) (p : str * json) : result (str * pyv) :=
  bind (hook L (snd p)) (fun v => Ok (fst p, v)).
Lemma hook_obj : forall L kv,
  hook L (JObj kv) = bind (map_res (hook_member L) kv) (fun ms => object_hook L (dict_of_pairs ms)).
Proof.
  intros. cbn. f_equal. induction kv as [|[k x] r IH]; [reflexivity|]. cbn. rewrite IH.
  unfold hook_member. cbn. destruct (hook L x); reflexivity.
Qed.

(* ------------------------------------------------------------------ ISO dates *)
Lemma digits4 : forall y, 1000 <= y <= 9999 ->
  0 <= y / 1000 <= 9 /\ 0 <= (y / 100) mod 10 <= 9 /\ 0 <= (y / 10) mod 10 <= 9 /\ 0 <= y mod 10 <= 9 /\
  1000 * (y / 1000) + 100 * ((y / 100) mod 10) + 10 * ((y / 10) mod 10) + y mod 10 = y.
Proof.
  intros y H.
  pose proof (Z.div_mod y 10 ltac:(lia)). pose proof (Z.mod_pos_bound y 10 ltac:(lia)).
  pose proof (Z.div_mod (y / 10) 10 ltac:(lia)). pose proof (Z.mod_pos_bound (y / 10) 10 ltac:(lia)).
  pose proof (Z.div_mod (y / 100) 10 ltac:(lia)). pose proof (Z.mod_pos_bound (y / 100) 10 ltac:(lia)).
  assert (y / 100 = y / 10 / 10) by (rewrite Z.div_div by lia; reflexivity).
  assert (y / 1000 = y / 100 / 10) by (rewrite Z.div_div by lia; reflexivity).
  lia.
Qed.
Lemma digits2 : forall n, 0 <= n <= 99 ->
  0 <= n / 10 <= 9 /\ 0 <= n mod 10 <= 9 /\ 10 * (n / 10) + n mod 10 = n.
Proof.
  intros n H. pose proof (Z.div_mod n 10 ltac:(lia)). pose proof (Z.mod_pos_bound n 10 ltac:(lia)). lia.
Qed.

Lemma days_in_month_le : forall y m, days_in_month y m <= 31.
Proof.
  intros. unfold days_in_month.
  destruct (m =? 2); [destruct (is_leap y); lia|].
  destruct ((m =? 4) || (m =? 6) || (m =? 9) || (m =? 11)); lia.
Qed.

Lemma parse_print_date : forall d, wf_date d = true -> parse_date (print_date d) = Ok d.
Proof.
  intros [[y m] dd] H. unfold wf_date, valid_ymd, year_ok in H.
  pose proof (days_in_month_le y m) as Hd.
  assert (Hy : 1000 <= y <= 9999) by lia.
  assert (Hm : 0 <= m <= 99) by lia.
  assert (Hdd : 0 <= dd <= 99) by lia.
  destruct (digits4 y Hy) as (A1 & A2 & A3 & A4 & A5).
  destruct (digits2 m Hm) as (B1 & B2 & B3).
  destruct (digits2 dd Hdd) as (C1 & C2 & C3).
  unfold print_date, dec_year.
  replace (y <? 10) with false by lia. replace (y <? 100) with false by lia.
  replace (y <? 1000) with false by lia.
  unfold dec2, dig. cbn [app]. unfold parse_date.
  replace (forallb is_digit _ && _ && _) with true.
  2:{ symmetry. unfold is_digit. cbn [forallb]. lia. }
  replace (1000 * (48 + y / 1000 - 48) + 100 * (48 + (y / 100) mod 10 - 48)
           + 10 * (48 + (y / 10) mod 10 - 48) + (48 + y mod 10 - 48)) with y by lia.
  replace (10 * (48 + m / 10 - 48) + (48 + m mod 10 - 48)) with m by lia.
  replace (10 * (48 + dd / 10 - 48) + (48 + dd mod 10 - 48)) with dd by lia.
  unfold valid_ymd. replace (_ && _ && _ && _ && _ && _) with true by (symmetry; lia). reflexivity.
Qed.

