(** C18 -- lemmas about Model/Units.v (part 1: rational list algebra, program_earned_premium) *)
From Coq Require Import ZArith QArith Qabs List Bool Lia Lqa Arith.
From Bermuda Require Import Model.Base Model.Blend Model.Units Proofs.BlendP.
Import ListNotations.
Local Open Scope Q_scope.

Definition nonnegl (l : list Q) : Prop := Forall (fun x => 0 <= x) l.

(* ------------------------------------------------------------------ qsum algebra *)
Lemma qsum_app a b : qsum (a ++ b) == qsum a + qsum b.
Proof. induction a as [|x a IH]; simpl; [ring|rewrite IH; ring]. Qed.
Lemma qsum_repeat_n x n : qsum (repeat x n) == inject_Z (Z.of_nat n) * x.
Proof.
  induction n as [|n IH]; [simpl; ring|].
  rewrite Nat2Z.inj_succ. simpl repeat. simpl qsum. rewrite IH. unfold Z.succ. rewrite inject_Z_plus. ring.
Qed.
Lemma qsum_repeat_each n l : qsum (repeat_each n l) == inject_Z (Z.of_nat n) * qsum l.
Proof.
  induction l as [|x l IH]; simpl; [ring|]. rewrite qsum_app, qsum_repeat_n, IH. ring.
Qed.
Lemma qsum_map_mult w l : qsum (map (Qmult w) l) == w * qsum l.
Proof. induction l as [|x l IH]; simpl; [ring|rewrite IH; ring]. Qed.
Lemma qsum_map_ext {A} (f g : A -> Q) l : (forall a, In a l -> f a == g a) -> qsum (map f l) == qsum (map g l).
Proof.
  induction l as [|x l IH]; simpl; intro H; [reflexivity|].
  rewrite (H x (or_introl eq_refl)), IH; [reflexivity|]. intros a Ha. apply H. right. exact Ha.
Qed.
Lemma qsum_map_add {A} (f g : A -> Q) l : qsum (map (fun a => f a + g a) l) == qsum (map f l) + qsum (map g l).
Proof. induction l as [|x l IH]; simpl; [ring|rewrite IH; ring]. Qed.
Lemma qsum_map_scale {A} (f : A -> Q) c l : qsum (map (fun a => f a * c) l) == qsum (map f l) * c.
Proof. induction l as [|x l IH]; simpl; [ring|rewrite IH; ring]. Qed.
Lemma qsum_map_zero {A} (f : A -> Q) l : (forall a, In a l -> f a == 0) -> qsum (map f l) == 0.
Proof.
  induction l as [|x l IH]; simpl; intro H; [reflexivity|].
  rewrite (H x (or_introl eq_refl)), IH; [ring|]. intros a Ha. apply H. right. exact Ha.
Qed.
Lemma qsum_swap {A B} (g : A -> B -> Q) la lb :
  qsum (map (fun a => qsum (map (g a) lb)) la) == qsum (map (fun b => qsum (map (fun a => g a b) la)) lb).
Proof.
  induction la as [|a la IH]; simpl.
  - symmetry. apply qsum_map_zero. intros; reflexivity.
  - rewrite IH. rewrite <- qsum_map_add. reflexivity.
Qed.
Lemma qsum_addl a : forall b, qsum (addl a b) == qsum a + qsum b.
Proof.
  induction a as [|x a IH]; intros [|y b]; cbn [addl qsum]; try ring.
  rewrite Qred_correct, IH. ring.
Qed.
Lemma qsum_firstn_skipn n : forall l, qsum (firstn n l) + qsum (skipn n l) == qsum l.
Proof.
  induction n as [|n IH]; intros [|x l]; simpl; try ring. rewrite <- (IH l). ring.
Qed.
Lemma firstn_plus {A} a : forall b (l : list A), firstn (a + b) l = firstn a l ++ firstn b (skipn a l).
Proof.
  induction a as [|a IH]; intros b [|x l]; simpl; auto.
  - rewrite firstn_nil. reflexivity.
  - rewrite IH. reflexivity.
Qed.
Lemma qsum_nonneg l : nonnegl l -> 0 <= qsum l.
Proof. induction 1; simpl; lra. Qed.
Lemma nonnegl_firstn n : forall l, nonnegl l -> nonnegl (firstn n l).
Proof.
  induction n as [|n IH]; intros [|x l] H; simpl; try constructor; inversion H; subst; auto.
  apply IH. assumption.
Qed.
Lemma nonnegl_skipn n : forall l, nonnegl l -> nonnegl (skipn n l).
Proof. induction n as [|n IH]; intros [|x l] H; simpl; auto. apply IH. inversion H; auto. Qed.
Lemma nonnegl_app a b : nonnegl a -> nonnegl b -> nonnegl (a ++ b).
Proof. intros. apply Forall_app. split; assumption. Qed.
Lemma nonnegl_repeat x n : 0 <= x -> nonnegl (repeat x n).
Proof. intro H. apply Forall_forall. intros y Hy. apply repeat_spec in Hy. subst. exact H. Qed.
Lemma nonnegl_repeat_each n l : nonnegl l -> nonnegl (repeat_each n l).
Proof. induction 1; simpl; [constructor|]. apply nonnegl_app; auto using nonnegl_repeat. Qed.
Lemma nonnegl_map (f : Q -> Q) l : (forall x, 0 <= x -> 0 <= f x) -> nonnegl l -> nonnegl (map f l).
Proof. intros Hf H. induction H; simpl; constructor; auto. Qed.
Lemma nonnegl_addl a : forall b, nonnegl a -> nonnegl b -> nonnegl (addl a b).
Proof.
  induction a as [|x a IH]; intros [|y b] Ha Hb; cbn [addl]; auto.
  inversion Ha; inversion Hb; subst. constructor; [rewrite Qred_correct; lra|apply IH; assumption].
Qed.
Lemma qsum_firstn_le n : forall l, nonnegl l -> qsum (firstn n l) <= qsum l.
Proof.
  intros l H. rewrite <- (qsum_firstn_skipn n l). pose proof (qsum_nonneg _ (nonnegl_skipn n l H)). lra.
Qed.
Lemma firstn_addl n : forall a b, firstn n (addl a b) = addl (firstn n a) (firstn n b).
Proof.
  induction n as [|n IH]; intros [|x a] [|y b]; simpl; auto. rewrite IH. reflexivity.
Qed.

(* ------------------------------------------------------------------ the convolution *)
Lemma qsum_conv me : forall mw, qsum (conv mw me) == qsum mw * qsum me.
Proof.
  induction mw as [|w r IH]; simpl; [ring|].
  rewrite qsum_addl, qsum_map_mult. simpl. rewrite IH. ring.
Qed.
Lemma nonnegl_conv me : nonnegl me -> forall mw, nonnegl mw -> nonnegl (conv mw me).
Proof.
  intros Hme mw H. induction H as [|w r Hw Hr IH]; simpl; [constructor|].
  apply nonnegl_addl.
  - apply nonnegl_map; auto. intros x Hx. nra.
  - constructor; [lra|exact IH].
Qed.
Lemma length_addl a : forall b, length (addl a b) = Nat.max (length a) (length b).
Proof. induction a as [|x a IH]; intros [|y b]; simpl; auto. Qed.
Lemma length_conv_ge me : forall mw, (length mw <= length (conv mw me))%nat.
Proof.
  induction mw as [|w r IH]; simpl; [lia|]. rewrite length_addl. simpl. lia.
Qed.
(* never more earned than written, at every month: prefix sums *)
Lemma conv_prefix_le me : nonnegl me -> qsum me <= 1 ->
  forall mw, nonnegl mw -> forall T, qsum (firstn T (conv mw me)) <= qsum (firstn T mw).
Proof.
  intros Hme H1 mw H. induction H as [|w r Hw Hr IH]; intros T.
  - simpl. rewrite firstn_nil. simpl. lra.
  - destruct T as [|T]; [simpl; lra|].
    cbn [conv]. rewrite firstn_addl, qsum_addl. rewrite firstn_map, qsum_map_mult.
    change (firstn (S T) (0 :: conv r me)) with (0 :: firstn T (conv r me)).
    change (firstn (S T) (w :: r)) with (w :: firstn T r).
    cbn [qsum]. specialize (IH T).
    pose proof (qsum_firstn_le (S T) me Hme) as P.
    pose proof (qsum_nonneg _ (nonnegl_firstn (S T) me Hme)) as P0.
    assert (w * qsum (firstn (S T) me) <= w) by nra. lra.
Qed.

(* ------------------------------------------------------------------ the output loop *)
Lemma buckets_total : forall fuel sz next mw comb,
  (length comb <= fuel)%nat -> (1 <= sz)%nat -> (1 <= next)%nat -> (length mw <= length comb)%nat ->
  qsum (map fst (buckets fuel sz next mw comb)) == qsum mw /\
  qsum (map snd (buckets fuel sz next mw comb)) == qsum comb.
Proof.
  induction fuel as [|fuel IH]; intros sz next mw comb Hf Hs Hn Hl.
  - destruct comb; simpl in Hf; [|lia]. destruct mw; simpl in Hl; [|lia]. simpl. split; reflexivity.
  - destruct comb as [|c comb'] eqn:Ec.
    + destruct mw; simpl in Hl; [|lia]. simpl. split; reflexivity.
    + rewrite <- Ec in *. assert (Hc : comb <> []) by (rewrite Ec; discriminate).
      assert (E : buckets (S fuel) sz next mw comb =
                  (Qred (qsum (firstn sz mw)), Qred (qsum (firstn sz comb)))
                    :: buckets fuel next next (skipn sz mw) (skipn sz comb)).
      { rewrite Ec. reflexivity. }
      rewrite E. clear E. cbn [map fst snd qsum]. rewrite !Qred_correct.
      destruct (IH next next (skipn sz mw) (skipn sz comb)) as [I1 I2]; auto.
      * rewrite skipn_length. assert (length comb = S (length comb')) by (rewrite Ec; reflexivity). lia.
      * rewrite !skipn_length. lia.
      * rewrite I1, I2. split; apply qsum_firstn_skipn.
Qed.
(* after j output steps both patterns have summed a common prefix (T months) of the monthly series *)
Lemma buckets_prefix : forall fuel sz next mw comb j,
  exists T, qsum (map fst (firstn j (buckets fuel sz next mw comb))) == qsum (firstn T mw) /\
            qsum (map snd (firstn j (buckets fuel sz next mw comb))) == qsum (firstn T comb).
Proof.
  induction fuel as [|fuel IH]; intros sz next mw comb j.
  - exists O. simpl. rewrite firstn_nil. simpl. split; reflexivity.
  - destruct j as [|j]; [exists O; simpl; split; reflexivity|].
    destruct comb as [|c comb'] eqn:Ec.
    + exists O. simpl. split; reflexivity.
    + rewrite <- Ec.
      assert (E : buckets (S fuel) sz next mw comb =
                  (Qred (qsum (firstn sz mw)), Qred (qsum (firstn sz comb)))
                    :: buckets fuel next next (skipn sz mw) (skipn sz comb)).
      { rewrite Ec. reflexivity. }
      rewrite E. clear E. cbn [firstn map fst snd qsum].
      destruct (IH next next (skipn sz mw) (skipn sz comb) j) as [T [I1 I2]].
      exists (sz + T)%nat. rewrite !Qred_correct, I1, I2, !firstn_plus, !qsum_app. split; reflexivity.
Qed.
Lemma buckets_nonneg : forall fuel sz next mw comb, nonnegl mw -> nonnegl comb ->
  nonnegl (map fst (buckets fuel sz next mw comb)) /\ nonnegl (map snd (buckets fuel sz next mw comb)).
Proof.
  induction fuel as [|fuel IH]; intros sz next mw comb Hm Hc; [simpl; split; constructor|].
  destruct comb as [|c comb'] eqn:Ec; [simpl; split; constructor|]. rewrite <- Ec in *.
  assert (E : buckets (S fuel) sz next mw comb =
              (Qred (qsum (firstn sz mw)), Qred (qsum (firstn sz comb)))
                :: buckets fuel next next (skipn sz mw) (skipn sz comb)).
  { rewrite Ec. reflexivity. }
  rewrite E. clear E. simpl map.
  destruct (IH next next (skipn sz mw) (skipn sz comb)) as [I1 I2]; auto using nonnegl_skipn.
  split; constructor; auto; rewrite Qred_correct; apply qsum_nonneg; apply nonnegl_firstn; assumption.
Qed.

(* ------------------------------------------------------------------ monthly series *)
Lemma inject_nat_pos n : n <> O -> 0 < inject_Z (Z.of_nat n).
Proof. intro H. unfold Qlt, inject_Z. simpl. lia. Qed.

Lemma qsum_map_times c l : qsum (map (fun x => x * c) l) == qsum l * c.
Proof. induction l as [|x l IH]; simpl; [ring|rewrite IH; ring]. Qed.
Lemma qsum_monthly_writing pv wp wres :
  ~ qsum wp == 0 -> wres <> O -> qsum (monthly_writing pv wp wres) == pv.
Proof.
  intros Hs Hr. unfold monthly_writing. rewrite qsum_repeat_each.
  pose proof (inject_nat_pos wres Hr) as Hk.
  rewrite (qsum_map_ext _ (fun x => x * (pv / qsum wp / inject_Z (Z.of_nat wres)))).
  - rewrite qsum_map_times. field. split; (exact Hs || lra).
  - intros a _. field. split; (exact Hs || lra).
Qed.
Lemma nonnegl_monthly_writing pv wp wres :
  0 <= pv -> nonnegl wp -> ~ qsum wp == 0 -> wres <> O -> nonnegl (monthly_writing pv wp wres).
Proof.
  intros Hp Hw Hs Hr. unfold monthly_writing. apply nonnegl_repeat_each.
  pose proof (inject_nat_pos wres Hr) as Hk. pose proof (qsum_nonneg _ Hw) as H0.
  assert (Hpos : 0 < qsum wp) by (destruct (Qlt_le_dec 0 (qsum wp)); auto; exfalso; apply Hs; lra).
  apply nonnegl_map; auto. intros x Hx.
  apply Qle_shift_div_l; auto. rewrite Qmult_0_l.
  apply Qmult_le_0_compat; auto. apply Qle_shift_div_l; auto. lra.
Qed.
Definition raw_earning (ep : list Q) (eres : nat) : list Q :=
  repeat_each eres (map (fun x => x / qsum ep / inject_Z (Z.of_nat eres)) ep).
Lemma qsum_raw_earning ep eres : ~ qsum ep == 0 -> eres <> O -> qsum (raw_earning ep eres) == 1.
Proof.
  intros Hs Hr. unfold raw_earning. rewrite qsum_repeat_each.
  pose proof (inject_nat_pos eres Hr) as Hk.
  rewrite (qsum_map_ext _ (fun x => x * (1 / qsum ep / inject_Z (Z.of_nat eres)))).
  - rewrite qsum_map_times. field. split; (exact Hs || lra).
  - intros a _. field. split; (exact Hs || lra).
Qed.
Lemma nonnegl_raw_earning ep eres : nonnegl ep -> ~ qsum ep == 0 -> eres <> O -> nonnegl (raw_earning ep eres).
Proof.
  intros Hw Hs Hr. unfold raw_earning. apply nonnegl_repeat_each.
  pose proof (inject_nat_pos eres Hr) as Hk. pose proof (qsum_nonneg _ Hw) as H0.
  assert (Hpos : 0 < qsum ep) by (destruct (Qlt_le_dec 0 (qsum ep)); auto; exfalso; apply Hs; lra).
  apply nonnegl_map; auto. intros x Hx.
  apply Qle_shift_div_l; auto. rewrite Qmult_0_l. apply Qle_shift_div_l; auto. lra.
Qed.
Lemma monthly_earning_raw ep eres c :
  monthly_earning ep eres c =
  if c then addl (map (fun x => x / 2) (raw_earning ep eres) ++ [0]) (0 :: map (fun x => x / 2) (raw_earning ep eres))
  else raw_earning ep eres.
Proof. reflexivity. Qed.
Lemma qsum_half l : qsum (map (fun x => x / 2) l) == qsum l / 2.
Proof. induction l as [|x l IH]; simpl; [field|rewrite IH; field]. Qed.
Lemma qsum_monthly_earning ep eres c : ~ qsum ep == 0 -> eres <> O -> qsum (monthly_earning ep eres c) == 1.
Proof.
  intros Hs Hr. rewrite monthly_earning_raw. pose proof (qsum_raw_earning ep eres Hs Hr) as H.
  destruct c; auto. rewrite qsum_addl, qsum_app. simpl. rewrite qsum_half, H. field.
Qed.
Lemma nonnegl_monthly_earning ep eres c :
  nonnegl ep -> ~ qsum ep == 0 -> eres <> O -> nonnegl (monthly_earning ep eres c).
Proof.
  intros Hw Hs Hr. rewrite monthly_earning_raw. pose proof (nonnegl_raw_earning ep eres Hw Hs Hr) as H.
  destruct c; auto.
  assert (Hh : nonnegl (map (fun x => x / 2) (raw_earning ep eres))).
  { apply nonnegl_map; auto. intros x Hx. apply Qle_shift_div_l; lra. }
  apply nonnegl_addl; [apply nonnegl_app; auto; constructor; [lra|constructor] | constructor; [lra|auto]].
Qed.

(* ------------------------------------------------------------------ program_earned_premium *)
Lemma premium_inv pv wp wres ep eres ores off c ow oe :
  program_earned_premium pv wp wres ep eres ores off c = Ok (ow, oe) ->
  ~ qsum wp == 0 /\ ~ qsum ep == 0 /\ wres <> O /\ eres <> O /\ ores <> O /\
  let mw := monthly_writing pv wp wres in
  let comb := conv mw (monthly_earning ep eres c) in
  let b := buckets (length comb) (if (0 <? off)%nat then off else ores) ores mw comb in
  ow = 0 :: map fst b /\ oe = 0 :: map snd b.
Proof.
  unfold program_earned_premium.
  destruct (Qeq_bool (qsum wp) 0) eqn:E1; [discriminate|].
  destruct (Qeq_bool (qsum ep) 0) eqn:E2; [discriminate|].
  destruct (wres =? 0)%nat eqn:E3; [discriminate|].
  destruct (eres =? 0)%nat eqn:E4; [discriminate|].
  destruct (ores =? 0)%nat eqn:E5; [discriminate|].
  simpl. intro H. inversion H. subst.
  apply Qeq_bool_neq in E1. apply Qeq_bool_neq in E2.
  apply Nat.eqb_neq in E3. apply Nat.eqb_neq in E4. apply Nat.eqb_neq in E5. auto 10.
Qed.

Lemma premium_sums pv wp wres ep eres ores off c ow oe :
  program_earned_premium pv wp wres ep eres ores off c = Ok (ow, oe) ->
  qsum ow == pv /\ qsum oe == pv.
Proof.
  intro H. apply premium_inv in H. destruct H as [H1 [H2 [H3 [H4 [H5 H]]]]]. cbv zeta in H.
  destruct H as [Hw He]. subst ow oe. simpl qsum.
  set (mw := monthly_writing pv wp wres) in *. set (me := monthly_earning ep eres c) in *.
  assert (Hsz : (1 <= (if (0 <? off)%nat then off else ores))%nat).
  { destruct (0 <? off)%nat eqn:E; [apply Nat.ltb_lt in E; lia|lia]. }
  destruct (buckets_total (length (conv mw me)) _ ores mw (conv mw me) (le_n _) Hsz) as [B1 B2];
    [lia|apply length_conv_ge|].
  rewrite B1, B2, qsum_conv. unfold mw, me. rewrite qsum_monthly_writing, qsum_monthly_earning by assumption.
  split; ring.
Qed.

Lemma premium_nonneg pv wp wres ep eres ores off c ow oe :
  program_earned_premium pv wp wres ep eres ores off c = Ok (ow, oe) ->
  0 <= pv -> nonnegl wp -> nonnegl ep -> nonnegl ow /\ nonnegl oe.
Proof.
  intros H Hp Hwp Hep. apply premium_inv in H. destruct H as [H1 [H2 [H3 [H4 [H5 H]]]]]. cbv zeta in H.
  destruct H as [Hw He]. subst ow oe.
  pose proof (nonnegl_monthly_writing pv wp wres Hp Hwp H1 H3) as Nw.
  pose proof (nonnegl_monthly_earning ep eres c Hep H2 H4) as Ne.
  destruct (buckets_nonneg (length (conv (monthly_writing pv wp wres) (monthly_earning ep eres c)))
              (if (0 <? off)%nat then off else ores) ores _ _ Nw (nonnegl_conv _ Ne _ Nw)) as [B1 B2].
  split; constructor; auto; lra.
Qed.

Lemma premium_earned_le_written pv wp wres ep eres ores off c ow oe :
  program_earned_premium pv wp wres ep eres ores off c = Ok (ow, oe) ->
  0 <= pv -> nonnegl wp -> nonnegl ep ->
  forall j, qsum (firstn j oe) <= qsum (firstn j ow).
Proof.
  intros H Hp Hwp Hep j. apply premium_inv in H. destruct H as [H1 [H2 [H3 [H4 [H5 H]]]]]. cbv zeta in H.
  destruct H as [Hw He]. subst ow oe.
  pose proof (nonnegl_monthly_writing pv wp wres Hp Hwp H1 H3) as Nw.
  pose proof (nonnegl_monthly_earning ep eres c Hep H2 H4) as Ne.
  pose proof (qsum_monthly_earning ep eres c H2 H4) as Se.
  destruct j as [|j]; [simpl; lra|]. cbn [firstn qsum].
  destruct (buckets_prefix (length (conv (monthly_writing pv wp wres) (monthly_earning ep eres c)))
              (if (0 <? off)%nat then off else ores) ores (monthly_writing pv wp wres)
              (conv (monthly_writing pv wp wres) (monthly_earning ep eres c)) j) as [T [P1 P2]].
  rewrite !firstn_map. rewrite P1, P2.
  assert (qsum (firstn T (conv (monthly_writing pv wp wres) (monthly_earning ep eres c)))
          <= qsum (firstn T (monthly_writing pv wp wres))).
  { apply conv_prefix_le; auto. lra. }
  lra.
Qed.
