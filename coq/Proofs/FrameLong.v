(** C14 -- the LONG-FORM round trip: triangle -> triangle_to_long_data_frame -> long_data_frame_to_triangle
    gives the triangle back (every number a float), for any description satisfying [frame_spec_ok] and
    any triangle inside [frame_hyps] (scalar cells, sample cells, mixed, incremental), and through the
    CSV entry point (loss_detail_cols = []) with the loss details appended to the details.

    Part A: generic lemmas on first-occurrence de-duplication / grouping of interleaved rows.
    Part B: the strict Boolean equalities are Leibniz equality.
    Part C: accumulation of the fields of one index by [add_field].
    Part D: the rows the writer produces, [drop_constant_scenario], reserved column names.
    Part E: the reader on these rows (Section Long; [csv] selects loss_detail_cols = ln / []).
    Part F: the theorems [long_round_trip], [long_round_trip_csv].  Everything is proved. *)
From Coq Require Import ZArith List Bool Lia ZifyBool.
From Bermuda Require Import Model.Base Model.Frame Proofs.FrameLib Proofs.FrameKey Proofs.FrameGroups
  Proofs.FrameSort Proofs.FrameMeta Proofs.FrameRow Proofs.FrameExample.
Import ListNotations.
Local Open Scope Z_scope.

(* ====================================================================================== *)
(** * Part A: generic list / grouping lemmas *)
Lemma filter_filter {A} (p q : A -> bool) l :
  filter p (filter q l) = filter (fun x => q x && p x) l.
Proof.
  induction l as [|a l IH]; cbn; auto. destruct (q a); cbn; [destruct (p a)|]; rewrite IH; auto.
Qed.
Lemma filter_flat_map {A B} (p : B -> bool) (g : A -> list B) l :
  filter p (flat_map g l) = flat_map (fun x => filter p (g x)) l.
Proof. induction l as [|a l IH]; cbn; auto. rewrite filter_app, IH. reflexivity. Qed.
Lemma filter_map {A B} (p : B -> bool) (f : A -> B) l :
  filter p (map f l) = map f (filter (fun x => p (f x)) l).
Proof. induction l as [|a l IH]; cbn; auto. destruct (p (f a)); cbn; rewrite IH; auto. Qed.
Lemma map_flat_map {A B C} (f : B -> C) (g : A -> list B) l :
  map f (flat_map g l) = flat_map (fun x => map f (g x)) l.
Proof. induction l as [|a l IH]; cbn; auto. rewrite map_app, IH. reflexivity. Qed.
Lemma flat_map_nil {A B} (g : A -> list B) l : (forall x, In x l -> g x = []) -> flat_map g l = [].
Proof. induction l as [|a l IH]; cbn; auto. intros H. rewrite H, IH; auto. Qed.
Lemma fold_left_flat_map {A B C} (f : A -> B -> A) (g : C -> list B) l a :
  fold_left f (flat_map g l) a = fold_left (fun acc c => fold_left f (g c) acc) l a.
Proof. revert a. induction l as [|c l IH]; intros a; cbn; auto. rewrite fold_left_app. apply IH. Qed.
Lemma fold_left_map {A B C} (f : A -> B -> A) (h : C -> B) l a :
  fold_left f (map h l) a = fold_left (fun acc x => f acc (h x)) l a.
Proof. revert a. induction l as [|c l IH]; intros a; cbn; auto. Qed.
Lemma fold_left_ext_in {A B} (f g : A -> B -> A) l :
  (forall x, In x l -> forall a, f a x = g a x) -> forall a, fold_left f l a = fold_left g l a.
Proof.
  induction l as [|x l IH]; intros H a; cbn; auto. rewrite H by (cbn; auto). apply IH. intros; apply H; cbn; auto.
Qed.

Section DedupApp.
  Context {K : Type} (eqb : K -> K -> bool).
  Hypothesis eqb_eq : forall a b, eqb a b = true <-> a = b.

  Lemma dedup_app l1 l2 :
    dedup eqb (l1 ++ l2) = dedup eqb l1 ++ filter (fun x => negb (existsb (eqb x) l1)) (dedup eqb l2).
  Proof.
    induction l1 as [|k l1 IH]; cbn [app dedup existsb].
    - cbn. symmetry. apply filter_all. auto.
    - rewrite IH, filter_app, filter_filter. cbn [app]. f_equal. f_equal.
      apply filter_ext. intros x. destruct (eqb x k); cbn; [apply andb_false_r | apply andb_true_r].
  Qed.
  Lemma existsb_eqb_In x l : existsb (eqb x) l = true <-> In x l.
  Proof.
    rewrite existsb_exists. split.
    - intros [y [Hy E]]. apply eqb_eq in E; subst; auto.
    - intros H. exists x. split; auto. apply eqb_eq; auto.
  Qed.
  Lemma dedup_app_disj l1 l2 :
    (forall x, In x l1 -> In x l2 -> False) -> dedup eqb (l1 ++ l2) = dedup eqb l1 ++ dedup eqb l2.
  Proof.
    intros H. rewrite dedup_app. f_equal. apply filter_all. intros x Hx.
    apply (proj1 (In_dedup eqb eqb_eq _ _)) in Hx. apply negb_true_iff.
    destruct (existsb (eqb x) l1) eqn:E; auto. apply existsb_eqb_In in E. exfalso; eauto.
  Qed.
  Lemma dedup_app_sub l1 l2 :
    (forall x, In x l2 -> In x l1) -> dedup eqb (l1 ++ l2) = dedup eqb l1.
  Proof.
    intros H. rewrite dedup_app. rewrite filter_none; [apply app_nil_r|]. intros x Hx.
    apply (proj1 (In_dedup eqb eqb_eq _ _)) in Hx. apply negb_false_iff. apply existsb_eqb_In. auto.
  Qed.
  Lemma dedup_NoDup l : NoDup l -> dedup eqb l = l.
  Proof.
    induction l as [|k l IH]; cbn; auto. intros ND. inversion ND as [|? ? Hn ND']; subst.
    rewrite IH by auto. f_equal. apply filter_all. intros x Hx. apply negb_true_iff.
    apply (eqb_false eqb eqb_eq). intros ->. tauto.
  Qed.
  (* n >= 1 copies of a duplicate-free list *)
  Lemma dedup_copies {I} (L : list K) (ix : list I) :
    NoDup L -> ix <> [] -> dedup eqb (flat_map (fun _ => L) ix) = L.
  Proof.
    intros ND Hix. destruct ix as [|i ix]; [congruence|]. cbn [flat_map].
    rewrite dedup_app_sub; [apply dedup_NoDup; auto|].
    intros x Hx. apply in_flat_map in Hx as [_ [_ Hx]]. exact Hx.
  Qed.

  Lemma group_by_app_disj {A} (kf : A -> K) l1 l2 :
    (forall a b, In a l1 -> In b l2 -> kf a <> kf b) ->
    group_by eqb kf (l1 ++ l2) = group_by eqb kf l1 ++ group_by eqb kf l2.
  Proof.
    intros H. unfold group_by. rewrite map_app, dedup_app_disj, map_app.
    - f_equal; apply map_ext_in; intros k Hk; f_equal; rewrite filter_app;
        apply (proj1 (In_dedup eqb eqb_eq _ _)) in Hk; apply in_map_iff in Hk as [a0 [<- Ha0]].
      + rewrite (filter_none _ l2); [apply app_nil_r|]. intros b Hb. apply (eqb_false eqb eqb_eq).
        intros E. apply (H a0 b); auto.
      + rewrite (filter_none _ l1); [reflexivity|]. intros b Hb. apply (eqb_false eqb eqb_eq).
        apply H; auto.
    - intros x H1 H2. apply in_map_iff in H1 as [a [<- Ha]]. apply in_map_iff in H2 as [b [E Hb]].
      apply (H a b); auto.
  Qed.

  (** different elements contribute rows with different keys: grouping is per element *)
  Lemma group_by_flat_map {A C} (kf : A -> K) (rows : C -> list A) (t : list C) :
    NoDup t ->
    (forall c c' a a', In c t -> In c' t -> In a (rows c) -> In a' (rows c') -> kf a = kf a' -> c = c') ->
    group_by eqb kf (flat_map rows t) = flat_map (fun c => group_by eqb kf (rows c)) t.
  Proof.
    induction t as [|c t IH]; intros ND H; [reflexivity|]. inversion ND as [|? ? Hn ND']; subst.
    cbn [flat_map]. rewrite group_by_app_disj.
    - f_equal. apply IH; auto. intros c1 c2 a a' H1 H2. apply H; cbn; auto.
    - intros a b Ha Hb E. apply in_flat_map in Hb as [c' [Hc' Hb]].
      apply Hn. rewrite (H c c' a b); cbn; auto.
  Qed.

  (** the rows of one element: for every index, one row per field; the key depends on the field only *)
  Lemma group_by_fields {A F I} (kf : A -> K) (row : I -> F -> A) (key : F -> K) (fvs : list F) (ix : list I) :
    ix <> [] -> NoDup (map key fvs) ->
    (forall i fv, In i ix -> In fv fvs -> kf (row i fv) = key fv) ->
    group_by eqb kf (flat_map (fun i => map (row i) fvs) ix)
    = map (fun fv => (key fv, map (fun i => row i fv) ix)) fvs.
  Proof.
    intros Hix ND Hk. unfold group_by.
    assert (E : map kf (flat_map (fun i => map (row i) fvs) ix) = flat_map (fun _ : I => map key fvs) ix).
    { rewrite map_flat_map. apply flat_map_ext_in'. intros i Hi. rewrite map_map. apply map_ext_in. auto. }
    rewrite E, dedup_copies by auto. rewrite map_map. apply map_ext_in. intros fv Hfv. f_equal.
    rewrite filter_flat_map.
    assert (Hone : forall i, In i ix -> filter (fun a => eqb (kf a) (key fv)) (map (row i) fvs) = [row i fv]).
    { intros i Hi. rewrite filter_map.
      assert (Hf : forall l, incl l fvs -> NoDup (map key l) -> In fv l ->
                filter (fun x => eqb (kf (row i x)) (key fv)) l = [fv]).
      { induction l as [|x l IHl]; intros Hl NDl Hin; [destruct Hin|].
        inversion NDl as [|? ? Hnx NDl']; subst. cbn [filter]. rewrite Hk by (auto; apply Hl; cbn; auto).
        destruct Hin as [->|Hin].
        - rewrite (eqb_refl' eqb eqb_eq). f_equal. apply filter_none. intros y Hy.
          rewrite Hk by (auto; apply Hl; cbn; auto). apply (eqb_false eqb eqb_eq). intros E'.
          apply Hnx. rewrite <- E'. apply in_map; auto.
        - assert (Hne : eqb (key x) (key fv) = false).
          { apply (eqb_false eqb eqb_eq). intros E'. apply Hnx. rewrite E'. apply in_map; auto. }
          rewrite Hne. apply IHl; auto. intros y Hy; apply Hl; cbn; auto. }
      rewrite (Hf fvs); auto. apply incl_refl. }
    clear E Hix. induction ix as [|i ix IH]; cbn [flat_map map]; auto.
    rewrite Hone by (cbn; auto). cbn [app]. f_equal. apply IH.
    - intros i' fv' Hi'. apply Hk; cbn; auto.
    - intros i' Hi'. apply Hone; cbn; auto.
  Qed.
End DedupApp.
(* ====================================================================================== *)
(** * Part B: strict equality of metadata is Leibniz equality *)
Lemma opt_eqb_eq {A} (eqb : A -> A -> bool) :
  (forall a b, eqb a b = true <-> a = b) -> forall a b, opt_eqb eqb a b = true <-> a = b.
Proof.
  intros H [a|] [b|]; cbn; try (split; congruence). rewrite H. split; congruence.
Qed.
Lemma num_seqb_eq a b : num_seqb a b = true <-> a = b.
Proof.
  destruct a as [f n], b as [g m]. unfold num_seqb. cbn. rewrite andb_true_iff, Z.eqb_eq.
  split.
  - intros [E ->]. apply eqb_prop in E. subst; auto.
  - intros E; inversion E; subst. split; auto. apply eqb_reflx.
Qed.
Lemma mval_seqb_eq a b : mval_seqb a b = true <-> a = b.
Proof.
  destruct a, b; cbn; try (split; congruence).
  - rewrite str_eqb_eq; split; congruence.
  - rewrite num_seqb_eq; split; congruence.
  - split; [intros E; apply eqb_prop in E; congruence | intros E; inversion E; apply eqb_reflx].
  - rewrite Z.eqb_eq; split; congruence.
Qed.
Lemma pair_eqb_eq {A B} (ea : A -> A -> bool) (eb : B -> B -> bool) :
  (forall a b, ea a b = true <-> a = b) -> (forall a b, eb a b = true <-> a = b) ->
  forall x y, pair_eqb ea eb x y = true <-> x = y.
Proof.
  intros Ha Hb [a b] [c d]. unfold pair_eqb. cbn. rewrite andb_true_iff, Ha, Hb. split.
  - intros [-> ->]; auto.
  - intros E; inversion E; auto.
Qed.
Lemma meta_seqb_eq a b : meta_seqb a b = true <-> a = b.
Proof.
  destruct a, b. unfold meta_seqb. cbn.
  rewrite !andb_true_iff, !(opt_eqb_eq _ str_eqb_eq), (opt_eqb_eq _ num_seqb_eq),
          !(list_eqb_eq _ (pair_eqb_eq _ _ str_eqb_eq mval_seqb_eq)).
  split.
  - intros [[[[[[[-> ->] ->] ->] ->] ->] ->] ->]. reflexivity.
  - intros E; inversion E; subst. repeat split; auto.
Qed.
Lemma kind_eqb_eq a b : kind_eqb a b = true <-> a = b.
Proof. destruct a, b; cbn; split; congruence. Qed.

(* ====================================================================================== *)
(** * Part C: accumulation of the fields of one cell by [add_field] *)
Section Accumulate.
  Variables (k : kind) (ps0 pe0 ev0 : date) (pv : option date) (M : meta).

  Definition fresh (d : cell) : Prop := same_index d k ps0 pe0 ev0 pv M = false.

  Lemma same_index_self vals : same_index (mkCell k ps0 pe0 ev0 pv M vals) k ps0 pe0 ev0 pv M = true.
  Proof.
    unfold same_index. cbn. rewrite (proj2 (kind_eqb_eq k k) eq_refl), !Z.eqb_refl,
      (proj2 (opt_eqb_eq _ Z.eqb_eq pv pv) eq_refl), (proj2 (meta_seqb_eq M M) eq_refl). reflexivity.
  Qed.

  Lemma add_field_new f v done :
    (forall d, In d done -> fresh d) ->
    add_field k ps0 pe0 ev0 pv M f v done = Ok (done ++ [mkCell k ps0 pe0 ev0 pv M [(f, v)]]).
  Proof.
    induction done as [|d done IH]; intros H; cbn [add_field app]; auto.
    rewrite (H d) by (cbn; auto). rewrite IH by (intros; apply H; cbn; auto). reflexivity.
  Qed.
  Lemma add_field_partial f v done vals :
    (forall d, In d done -> fresh d) -> has_key f vals = false ->
    add_field k ps0 pe0 ev0 pv M f v (done ++ [mkCell k ps0 pe0 ev0 pv M vals])
    = Ok (done ++ [mkCell k ps0 pe0 ev0 pv M (vals ++ [(f, v)])]).
  Proof.
    induction done as [|d done IH]; intros H Hk; cbn [add_field app].
    - rewrite same_index_self. cbn [cvals cmeta]. rewrite Hk. reflexivity.
    - rewrite (H d) by (cbn; auto). rewrite IH by (auto; intros; apply H; cbn; auto). reflexivity.
  Qed.

  Lemma has_key_notin {V} f (d : list (str * V)) : ~ In f (keys d) -> has_key f d = false.
  Proof. intros H. unfold has_key. rewrite assoc_notin; auto. Qed.

  (** a fold whose steps add the fields [map fv l] of one and the same index *)
  Lemma fold_cell {X} (step : result (list cell) -> X -> result (list cell)) (fv : X -> str * value)
        (l : list X) (done : list cell) :
    (forall x, In x l -> forall acc, step acc x = bind acc (add_field k ps0 pe0 ev0 pv M (fst (fv x)) (snd (fv x)))) ->
    l <> [] -> NoDup (keys (map fv l)) -> (forall d, In d done -> fresh d) ->
    fold_left step l (Ok done) = Ok (done ++ [mkCell k ps0 pe0 ev0 pv M (map fv l)]).
  Proof.
    intros Hstep Hl ND Hd. destruct l as [|x l]; [congruence|]. cbn [fold_left map].
    rewrite Hstep by (cbn; auto). cbn [bind]. rewrite add_field_new by auto.
    assert (G : forall l' vals, (forall y, In y l' -> In y (x :: l)) -> NoDup (keys (vals ++ map fv l')) ->
              fold_left step l' (Ok (done ++ [mkCell k ps0 pe0 ev0 pv M vals]))
              = Ok (done ++ [mkCell k ps0 pe0 ev0 pv M (vals ++ map fv l')])).
    { induction l' as [|y l' IH]; intros vals Hin NDv; cbn [fold_left map].
      - rewrite app_nil_r. reflexivity.
      - rewrite Hstep by (apply Hin; cbn; auto). cbn [bind]. cbn [map] in NDv.
        destruct (fv y) as [f1 v1] eqn:Ey. cbn [fst snd]. rewrite add_field_partial; auto.
        + rewrite IH.
          * rewrite <- app_assoc. reflexivity.
          * intros z Hz. apply Hin; cbn; auto.
          * rewrite <- app_assoc. exact NDv.
        + apply has_key_notin. rewrite keys_app in NDv. cbn [map keys fst] in NDv.
          apply NoDup_remove_2 in NDv. intros Hf. apply NDv. apply in_or_app; auto. }
    destruct (fv x) as [f0 v0] eqn:Ex. cbn [fst snd].
    rewrite (G l [(f0, v0)]); auto.
    - intros y Hy; cbn; auto.
    - cbn [map] in ND. rewrite Ex in ND. exact ND.
  Qed.
End Accumulate.
(* ====================================================================================== *)
(** * Part D: the rows written by triangle_to_long_data_frame *)
Definition ltail (ndx : nat) (fv : str * value) : row :=
  [(c_scenario, if is_scalar (snd fv) then TNaN else TNum (1024 * (Z.of_nat ndx + 1)));
   (c_field, TStr (fst fv)); (c_value, field_entry (Some (snd fv)) ndx)].
Definition lrow (hp : bool) (mn : list str) (c : cell) (ndx : nat) (fv : str * value) : row :=
  base_cols hp c ++ meta_cols mn (cmeta c) ++ ltail ndx fv.
Definition cell_rows (hp : bool) (mn : list str) (c : cell) : list row :=
  flat_map (fun ndx => map (lrow hp mn c ndx) (cvals c)) (seq 0 (nrows c)).

Lemma cell_kind c : cvals c <> [] -> scalar_cell c || sample_cell c = true ->
  (scalar_cell c = true /\ nrows c = 1%nat) \/ (sample_cell c = true /\ (2 <= nrows c)%nat).
Proof.
  intros Hne H. apply orb_true_iff in H as [H|H]; [left|right]; split; auto.
  - unfold scalar_cell in H. unfold nrows. destruct (cvals c) as [|[k v] r]; [congruence|].
    cbn in H. apply andb_prop in H as [H _]. destruct v; try discriminate; reflexivity.
  - unfold sample_cell in H. unfold nrows. destruct (cvals c) as [|[k0 [x| |b xs]] r]; try discriminate.
    apply andb_prop in H as [H _]. apply Nat.leb_le in H. exact H.
Qed.
Lemma scalar_In c fv : scalar_cell c = true -> In fv (cvals c) -> exists x, snd fv = VNum x.
Proof.
  unfold scalar_cell. rewrite forallb_forall. intros H Hin. specialize (H _ Hin). cbn in H.
  destruct (snd fv); try discriminate; eauto.
Qed.
Lemma sample_In c fv : sample_cell c = true -> In fv (cvals c) ->
  exists b xs, snd fv = VArr b xs /\ length xs = nrows c.
Proof.
  unfold sample_cell, nrows. destruct (cvals c) as [|[k0 [x| |b0 xs0]] r] eqn:Ec; try discriminate.
  intros H Hin. apply andb_prop in H as [_ H]. rewrite forallb_forall in H. specialize (H _ Hin). cbn in H.
  destruct (snd fv) as [x| |b xs]; try discriminate. exists b, xs. split; auto. apply Nat.eqb_eq in H; auto.
Qed.

Lemma long_rows_ok hp mn c : cvals c <> [] -> scalar_cell c || sample_cell c = true ->
  long_rows_of_cell hp mn c = Ok (cell_rows hp mn c).
Proof.
  intros Hne H. unfold long_rows_of_cell.
  assert (Hn : common_len c (keys (cvals c)) = Ok (nrows c)).
  { destruct (cell_kind c Hne H) as [[Hs Hn]|[Hs Hn]].
    - rewrite Hn. apply common_len_scalar; auto. destruct (cvals c); [congruence|discriminate].
    - apply common_len_sample; auto. destruct (cvals c) as [|[k v] r]; [congruence|]. exists k. cbn; auto. }
  rewrite Hn. cbn [bind].
  assert (Hf : filter not_none (cvals c) = cvals c).
  { apply filter_all. intros fv Hfv. unfold not_none. apply orb_true_iff in H as [H|H].
    - destruct (scalar_In c fv H Hfv) as [x ->]. reflexivity.
    - destruct (sample_In c fv H Hfv) as (b & xs & -> & _). reflexivity. }
  rewrite Hf. reflexivity.
Qed.

Lemma drop_cases (R : table) : R <> [] ->
  drop_constant_scenario R = Ok R \/
  (drop_constant_scenario R = Ok (map (drop_col c_scenario) R) /\
   forall r1 r2 x y, In r1 R -> In r2 R -> get c_scenario r1 = TNum x -> get c_scenario r2 = TNum y -> x = y).
Proof.
  intros Hne. destruct R as [|r0 R']; [congruence|]. unfold drop_constant_scenario.
  set (R := r0 :: R'). destruct (_ || _) eqn:E; [right|left]; auto. split; auto.
  intros r1 r2 x y H1 H2 E1 E2. apply orb_true_iff in E as [E|E]; rewrite forallb_forall in E.
  - pose proof (E _ (in_map (get c_scenario) _ _ H1)) as A1.
    pose proof (E _ (in_map (get c_scenario) _ _ H2)) as A2. rewrite E1 in A1. rewrite E2 in A2.
    destruct (get c_scenario r0); try discriminate. cbn in A1, A2. lia.
  - pose proof (E _ (in_map (get c_scenario) _ _ H1)) as A1. rewrite E1 in A1. discriminate.
Qed.

(* ---------- the reserved column names are pairwise different ---------- *)
Definition coordp : list str := [c_ps; c_pe; c_ev; c_prev].
Definition tail3n : list str := [c_scenario; c_field; c_value].
Lemma nd_reserved : NoDup reserved_names.
Proof. apply (nodup_b_NoDup str_eqb str_eqb_eq). vm_compute. reflexivity. Qed.
Lemma res_split : reserved_names = coordp ++ meta_col_names ++ tail3n.
Proof. reflexivity. Qed.
Lemma coord_meta_disj k : In k coordp -> In k meta_col_names -> False.
Proof.
  intros H1 H2. pose proof nd_reserved as ND. rewrite res_split in ND.
  apply (NoDup_app_disj _ _ k ND H1). apply in_or_app; auto.
Qed.
Lemma coord_tail_disj k : In k coordp -> In k tail3n -> False.
Proof.
  intros H1 H2. pose proof nd_reserved as ND. rewrite res_split in ND.
  apply (NoDup_app_disj _ _ k ND H1). apply in_or_app; auto.
Qed.
Lemma meta_tail_disj k : In k meta_col_names -> In k tail3n -> False.
Proof.
  intros H1 H2. pose proof nd_reserved as ND. rewrite res_split in ND. apply NoDup_app_r in ND.
  apply (NoDup_app_disj _ _ k ND H1 H2).
Qed.
Lemma coordp_reserved k : In k coordp -> In k reserved_names.
Proof. intros H. rewrite res_split. apply in_or_app; auto. Qed.
Lemma tail3_reserved k : In k tail3n -> In k reserved_names.
Proof. intros H. rewrite res_split. apply in_or_app; right. apply in_or_app; auto. Qed.

Lemma get_app_notin_r k (a b : row) : ~ In k (keys b) -> get k (a ++ b) = get k a.
Proof. intros H. rewrite get_app. unfold get. destruct (assoc k a); auto. rewrite assoc_notin; auto. Qed.
Lemma drop_col_notin k (r : row) : ~ In k (keys r) -> drop_col k r = r.
Proof.
  intros H. unfold drop_col. apply filter_all. intros [k' v] Hin. cbn. apply negb_true_iff, str_eqb_neq.
  intros ->. apply H. unfold keys. apply in_map_iff. exists (k, v); auto.
Qed.
Lemma drop_col_app k (a b : row) : drop_col k (a ++ b) = drop_col k a ++ drop_col k b.
Proof. apply filter_app. Qed.
Definition bcols (hp : bool) : list str := [c_ps; c_pe; c_ev] ++ (if hp then [c_prev] else []).
Lemma keys_base hp c : keys (base_cols hp c) = bcols hp.
Proof. destruct hp; reflexivity. Qed.
Lemma bcols_coordp hp k : In k (bcols hp) -> In k coordp.
Proof. destruct hp; cbn; tauto. Qed.
(* ====================================================================================== *)
(** * Part E: the table read back *)
Definition SameC (a b : cell) : Prop :=
  ps a = ps b /\ pe a = pe b /\ ev a = ev b /\ prev a = prev b /\ fl_meta (cmeta a) = fl_meta (cmeta b).
Lemma same_coords_iff a b : same_coords a b = true <-> SameC a b.
Proof.
  unfold same_coords, SameC. rewrite !andb_true_iff, !Z.eqb_eq, (opt_eqb_eq _ Z.eqb_eq), meta_seqb_eq. tauto.
Qed.
Lemma nodup_b_inj (l : list cell) : nodup_b same_coords l = true ->
  NoDup l /\ forall c c', In c l -> In c' l -> SameC c c' -> c = c'.
Proof.
  induction l as [|a l IH]; cbn [nodup_b]; intros H.
  - split; [constructor | intros c c' []].
  - apply andb_prop in H as [Ha Hl]. apply negb_true_iff in Ha. destruct (IH Hl) as [ND Hinj].
    assert (Hno : forall x, In x l -> ~ SameC a x).
    { intros x Hx S. apply same_coords_iff in S.
      assert (existsb (same_coords a) l = true) by (apply existsb_exists; eauto). congruence. }
    split.
    + constructor; auto. intros Hin. apply (Hno a Hin). repeat split.
    + intros c c' [->|Hc] [->|Hc'] S; auto.
      * exfalso. apply (Hno c' Hc' S).
      * exfalso. apply (Hno c Hc). destruct S as (A & B & C & D & E). repeat split; auto.
Qed.
Lemma NoDup_map_key {A B C} (f : A -> B) (g : A -> C) (l : list A) :
  NoDup (map f l) -> (forall x y, In x l -> In y l -> g x = g y -> f x = f y) -> NoDup (map g l).
Proof.
  induction l as [|x l IH]; cbn; intros ND H; constructor.
  - inversion ND as [|? ? Hn _]; subst. intros Hin. apply in_map_iff in Hin as [y [E Hy]].
    apply Hn. rewrite <- (H y x); auto. apply in_map; auto.
  - inversion ND; subst. apply IH; auto.
Qed.
Lemma app_split_keys {V} (P : str -> Prop) (a1 : list (str * V)) : forall a2 b1 b2,
  (forall k, In k (keys a1) -> P k) -> (forall k, In k (keys b1) -> P k) ->
  (forall k, In k (keys a2) -> ~ P k) -> (forall k, In k (keys b2) -> ~ P k) ->
  a1 ++ a2 = b1 ++ b2 -> a1 = b1 /\ a2 = b2.
Proof.
  induction a1 as [|x a1 IH]; intros a2 b1 b2 Ha1 Hb1 Ha2 Hb2 E.
  - destruct b1 as [|y b1]; [auto|]. cbn in E. subst a2. exfalso.
    apply (Ha2 (fst y)); cbn; auto. apply Hb1; cbn; auto.
  - destruct b1 as [|y b1].
    + cbn in E. subst b2. exfalso. apply (Hb2 (fst x)); cbn; auto. apply Ha1; cbn; auto.
    + cbn in E. injection E as -> E. destruct (IH a2 b1 b2) as [-> ->]; auto.
      * intros k Hk. apply Ha1; cbn; auto.
      * intros k Hk. apply Hb1; cbn; auto.
Qed.
Lemma keys_fl_dict d : keys (fl_dict d) = keys d.
Proof. unfold keys, fl_dict. rewrite map_map. reflexivity. Qed.
Lemma nth_error_seq (xs : list Z) :
  map (fun i => match nth_error xs i with Some x => TNum x | None => TNaN end) (seq 0 (length xs)) = map TNum xs.
Proof.
  induction xs as [|x xs IH]; [reflexivity|]. cbn [length seq map nth_error]. f_equal.
  rewrite <- seq_shift, map_map. exact IH.
Qed.
Lemma all_nums_TNum xs : all_nums (map TNum xs) = Some xs.
Proof. induction xs as [|x xs IH]; cbn; auto. rewrite IH. reflexivity. Qed.

Section Long.
  Variables (sp : frame_spec) (fn dn ln : list str) (t : list cell).
  Hypothesis Hsp : frame_spec_ok sp = true.
  Hypothesis names : NoDup (reserved_names ++ fn ++ dn ++ ln).
  Hypothesis shapes : forall c, In c t -> cell_shape_ok fn dn ln c = true.
  Hypothesis sep : nodup_b same_coords t = true.
  Variables (hp dr csv : bool).
  Let mn := attr_names t ++ dn ++ ln.

  Definition lc : list str := if csv then [] else ln.
  Definition pureL : list str := if csv then dn ++ ln else dn.
  Definition FM (m : meta) : meta := if csv then fl_meta_merged m else fl_meta m.
  Definition FMcell (c : cell) : cell :=
    mkCell (ckind c) (ps c) (pe c) (ev c) (prev c) (FM (cmeta c))
           (map (fun kv => (fst kv, fl_value (snd kv))) (cvals c)).
  Definition atail (ndx : nat) (fv : str * value) : row :=
    if dr then [(c_field, TStr (fst fv)); (c_value, field_entry (Some (snd fv)) ndx)] else ltail ndx fv.
  Definition arow (c : cell) (ndx : nat) (fv : str * value) : row :=
    base_cols hp c ++ meta_cols mn (cmeta c) ++ atail ndx fv.
  Definition acols : list str := bcols hp ++ mn ++ (if dr then [c_field; c_value] else tail3n).
  Definition adj (r : row) : row := if dr then drop_col c_scenario r else r.

  (* ---------- names ---------- *)
  Definition metaish (k : str) : Prop := In k meta_col_names \/ In k dn \/ In k ln.
  Lemma mn_metaish k : In k mn -> metaish k.
  Proof.
    unfold mn, metaish. intros H. apply in_app_or in H as [H|H]; [left; apply (attr_names_incl t); auto|].
    apply in_app_or in H as [H|H]; auto.
  Qed.
  Lemma metaish_not_coord k : metaish k -> ~ In k coordp.
  Proof.
    intros [H|[H|H]] Hc.
    - apply (coord_meta_disj k); auto.
    - apply (dn_not_reserved fn dn ln names k H). apply coordp_reserved; auto.
    - apply (ln_not_reserved fn dn ln names k H). apply coordp_reserved; auto.
  Qed.
  Lemma metaish_not_tail k : metaish k -> ~ In k tail3n.
  Proof.
    intros [H|[H|H]] Hc.
    - apply (meta_tail_disj k); auto.
    - apply (dn_not_reserved fn dn ln names k H). apply tail3_reserved; auto.
    - apply (ln_not_reserved fn dn ln names k H). apply tail3_reserved; auto.
  Qed.
  Lemma keys_atail ndx fv k : In k (keys (atail ndx fv)) -> In k tail3n.
  Proof. unfold atail. destruct dr; cbn; tauto. Qed.
  Lemma keys_meta_cols m : keys (meta_cols mn m) = mn.
  Proof. unfold meta_cols. apply keys_map_pair. Qed.
  Lemma tail_not_base k c : In k tail3n -> ~ In k (keys (base_cols hp c)).
  Proof. rewrite keys_base. intros H Hb. apply (coord_tail_disj k); auto. apply (bcols_coordp hp); auto. Qed.
  Lemma tail_not_mn k m : In k tail3n -> ~ In k (keys (meta_cols mn m)).
  Proof. rewrite keys_meta_cols. intros H Hm. apply (metaish_not_tail k); auto. apply mn_metaish; auto. Qed.

  Lemma adj_lrow c ndx fv : adj (lrow hp mn c ndx fv) = arow c ndx fv.
  Proof.
    unfold adj, arow, atail, lrow. destruct dr; [|reflexivity].
    rewrite !drop_col_app.
    rewrite (drop_col_notin c_scenario (base_cols hp c)) by (apply tail_not_base; cbn; auto).
    rewrite (drop_col_notin c_scenario (meta_cols mn (cmeta c))) by (apply tail_not_mn; cbn; auto).
    reflexivity.
  Qed.
  Lemma keys_arow c ndx fv : keys (arow c ndx fv) = acols.
  Proof.
    unfold arow, acols, atail. rewrite !keys_app, keys_base, keys_meta_cols. destruct dr; reflexivity.
  Qed.

  (* ---------- what a row carries ---------- *)
  Lemma arow_ps c ndx fv : get c_ps (arow c ndx fv) = TDate (ps c).
  Proof. reflexivity. Qed.
  Lemma arow_pe c ndx fv : get c_pe (arow c ndx fv) = TDate (pe c).
  Proof. reflexivity. Qed.
  Lemma arow_ev c ndx fv : get c_ev (arow c ndx fv) = TDate (ev c).
  Proof. reflexivity. Qed.
  Lemma arow_prev c ndx fv : hp = true ->
    get c_prev (arow c ndx fv) = match prev c with Some d => TDate d | None => TNaN end.
  Proof. intros E. unfold arow. rewrite E. reflexivity. Qed.
  Lemma arow_tail k c ndx fv : In k tail3n -> get k (arow c ndx fv) = get k (atail ndx fv).
  Proof.
    intros H. unfold arow. rewrite get_app_notin by (apply tail_not_base; auto).
    rewrite get_app_notin by (apply tail_not_mn; auto). reflexivity.
  Qed.
  Lemma arow_field c ndx fv : get c_field (arow c ndx fv) = TStr (fst fv).
  Proof. rewrite arow_tail by (cbn; auto). unfold atail. destruct dr; reflexivity. Qed.
  Lemma arow_value c ndx fv : get c_value (arow c ndx fv) = field_entry (Some (snd fv)) ndx.
  Proof. rewrite arow_tail by (cbn; auto). unfold atail. destruct dr; reflexivity. Qed.
  Lemma arow_scen c ndx fv : dr = false ->
    get c_scenario (arow c ndx fv) = if is_scalar (snd fv) then TNaN else TNum (1024 * (Z.of_nat ndx + 1)).
  Proof. intros E. rewrite arow_tail by (cbn; auto). unfold atail. rewrite E. reflexivity. Qed.
  Lemma arow_metaish k c ndx fv : metaish k -> get k (arow c ndx fv) = get k (meta_cols mn (cmeta c)).
  Proof.
    intros H. unfold arow. rewrite get_app_notin.
    - apply get_app_notin_r. intros Hk. apply (metaish_not_tail k H). apply (keys_atail ndx fv); auto.
    - rewrite keys_base. intros Hk. apply (metaish_not_coord k H). apply (bcols_coordp hp); auto.
  Qed.
  Lemma shape_parts c : In c t ->
    cvals c <> [] /\ NoDup (keys (cvals c)) /\ meta_ok (cmeta c) = true
    /\ ordered_in dn (keys (details (cmeta c))) = true /\ ordered_in ln (keys (loss_details (cmeta c))) = true.
  Proof.
    intros Hc. pose proof (shapes c Hc) as H. unfold cell_shape_ok in H.
    repeat (apply andb_prop in H as [H ?]). repeat split; auto.
    - destruct (cvals c); [discriminate|congruence].
    - apply (nodup_b_NoDup str_eqb str_eqb_eq); auto.
  Qed.
  Lemma arow_attr k c ndx fv : In c t -> In k meta_col_names ->
    get k (arow c ndx fv) = get k (attr_dict (cmeta c)).
  Proof.
    intros Hc Hk. rewrite arow_metaish by (left; auto). apply (meta_cols_attr t fn dn ln names c Hc k Hk).
  Qed.
  Lemma arow_dn k c ndx fv : In c t -> In k dn -> get k (arow c ndx fv) = get k (tdict (details (cmeta c))).
  Proof.
    intros Hc Hk. rewrite arow_metaish by (right; left; auto).
    destruct (shape_parts c Hc) as (_ & _ & _ & Od & Ol). apply (meta_cols_detail t fn dn ln names c Ol k Hk).
  Qed.
  Lemma arow_ln k c ndx fv : In c t -> In k ln -> get k (arow c ndx fv) = get k (tdict (loss_details (cmeta c))).
  Proof.
    intros Hc Hk. rewrite arow_metaish by (right; right; auto).
    destruct (shape_parts c Hc) as (_ & _ & _ & Od & Ol). apply (meta_cols_loss t fn dn ln names c Od k Hk).
  Qed.
  Lemma arow_same k c i j fv : k <> c_scenario -> k <> c_value -> get k (arow c i fv) = get k (arow c j fv).
  Proof.
    intros Hs Hv. unfold arow. unfold get. rewrite !assoc_app.
    destruct (assoc k (base_cols hp c)); auto. destruct (assoc k (meta_cols mn (cmeta c))); auto.
    apply str_eqb_neq in Hs, Hv. unfold atail, ltail. destruct dr; cbn [assoc]; rewrite ?Hs, ?Hv; reflexivity.
  Qed.

  (* ---------- metadata read back ---------- *)
  Lemma arow_meta_dnln c ndx fv : In c t -> meta_of_row dn ln (arow c ndx fv) = fl_meta (cmeta c).
  Proof.
    intros Hc. destruct (shape_parts c Hc) as (_ & _ & Mo & Od & Ol).
    apply meta_rebuilt; auto.
    - apply (nd_dn fn dn ln names).
    - apply (nd_ln fn dn ln names).
    - intros n Hn. apply arow_attr; auto.
    - intros n Hn. apply arow_dn; auto.
    - intros n Hn. apply arow_ln; auto.
  Qed.
  Lemma details_of_app a b r : details_of (a ++ b) r = details_of a r ++ details_of b r.
  Proof. unfold details_of. apply flat_map_app. Qed.
  Lemma arow_FM c ndx fv : In c t -> meta_of_row pureL lc (arow c ndx fv) = FM (cmeta c).
  Proof.
    intros Hc. pose proof (arow_meta_dnln c ndx fv Hc) as E. unfold pureL, lc, FM. destruct csv; auto.
    unfold meta_of_row, fl_meta in E. unfold meta_of_row, fl_meta_merged. rewrite details_of_app.
    injection E as -> -> -> -> -> -> -> ->. reflexivity.
  Qed.
  Lemma FM_inj c1 c2 : In c1 t -> In c2 t -> FM (cmeta c1) = FM (cmeta c2) ->
    fl_meta (cmeta c1) = fl_meta (cmeta c2).
  Proof.
    intros H1 H2. unfold FM. destruct csv; auto. unfold fl_meta_merged, fl_meta. intros E.
    injection E as -> -> -> -> -> -> E.
    destruct (shape_parts c1 H1) as (_ & _ & _ & Od1 & Ol1). destruct (shape_parts c2 H2) as (_ & _ & _ & Od2 & Ol2).
    apply (app_split_keys (fun k => In k dn)) in E as [-> ->]; auto.
    - intros k Hk. rewrite keys_fl_dict in Hk. apply (ordered_in_incl _ _ Od1); auto.
    - intros k Hk. rewrite keys_fl_dict in Hk. apply (ordered_in_incl _ _ Od2); auto.
    - intros k Hk Hd. rewrite keys_fl_dict in Hk. apply (dn_ln_disj fn dn ln names k Hd). apply (ordered_in_incl _ _ Ol1); auto.
    - intros k Hk Hd. rewrite keys_fl_dict in Hk. apply (dn_ln_disj fn dn ln names k Hd). apply (ordered_in_incl _ _ Ol2); auto.
  Qed.

  (* rows that agree on every coordinate / metadata / detail column belong to cells with the
     same coordinates (up to prev) *)
  Lemma rows_agree c1 c2 i j fv1 fv2 : In c1 t -> In c2 t ->
    (forall k, In k ([c_ps; c_pe; c_ev] ++ meta_col_names ++ dn ++ ln) ->
       get k (arow c1 i fv1) = get k (arow c2 j fv2)) ->
    ps c1 = ps c2 /\ pe c1 = pe c2 /\ ev c1 = ev c2 /\ fl_meta (cmeta c1) = fl_meta (cmeta c2).
  Proof.
    intros H1 H2 H.
    assert (Hps := H c_ps (or_introl eq_refl)). assert (Hpe := H c_pe (or_intror (or_introl eq_refl))).
    assert (Hev := H c_ev (or_intror (or_intror (or_introl eq_refl)))).
    rewrite !arow_ps in Hps. rewrite !arow_pe in Hpe. rewrite !arow_ev in Hev.
    repeat split; try congruence.
    rewrite <- (arow_meta_dnln c1 i fv1 H1), <- (arow_meta_dnln c2 j fv2 H2).
    assert (Hm : forall k, In k meta_col_names -> get k (arow c1 i fv1) = get k (arow c2 j fv2)).
    { intros k Hk. apply H. apply in_or_app; right. apply in_or_app; auto. }
    unfold meta_of_row.
    rewrite (Hm c_risk_basis), (Hm c_country), (Hm c_currency), (Hm c_reinsurance_basis),
            (Hm c_loss_definition), (Hm c_pol) by (cbn; auto 10).
    f_equal; apply details_of_ext; intros k Hk; apply H; apply in_or_app; right; apply in_or_app; right;
      apply in_or_app; auto.
  Qed.
  (* ---------- the table handed to the reader ---------- *)
  Hypothesis kinds : forall c, In c t -> scalar_cell c || sample_cell c = true.

  Definition rows_of (c : cell) : list row :=
    flat_map (fun ndx => map (arow c ndx) (cvals c)) (seq 0 (nrows c)).
  Definition T_of (l : list cell) : table := flat_map rows_of l.

  Lemma map_adj_rows l : map adj (flat_map (cell_rows hp mn) l) = T_of l.
  Proof.
    unfold T_of. rewrite map_flat_map. apply flat_map_ext. intros c. unfold cell_rows, rows_of.
    rewrite map_flat_map. apply flat_map_ext. intros ndx. rewrite map_map. apply map_ext. intros fv.
    apply adj_lrow.
  Qed.
  Lemma cell_kind_t c : In c t ->
    (scalar_cell c = true /\ nrows c = 1%nat) \/ (sample_cell c = true /\ (2 <= nrows c)%nat).
  Proof. intros Hc. apply cell_kind; [apply (shape_parts c Hc) | apply kinds; auto]. Qed.
  Lemma nrows_pos c : In c t -> exists n, nrows c = S n.
  Proof.
    intros Hc. destruct (cell_kind_t c Hc) as [[_ H]|[_ H]]; [exists 0%nat; auto|].
    destruct (nrows c); [lia|eauto].
  Qed.
  Lemma columns_T l : l <> [] -> incl l t -> columns (T_of l) = acols.
  Proof.
    intros Hl Hin. destruct l as [|c l]; [congruence|]. assert (Hc : In c t) by (apply Hin; cbn; auto).
    destruct (nrows_pos c Hc) as [n Hn]. destruct (shape_parts c Hc) as (Hv & _).
    unfold T_of, rows_of. cbn [flat_map]. rewrite Hn. cbn [seq flat_map].
    destruct (cvals c) as [|fv0 r]; [congruence|]. cbn [map app columns]. apply keys_arow.
  Qed.

  (* ---------- columns ---------- *)
  Lemma in_acols_coord k : In k [c_ps; c_pe; c_ev] -> In k acols.
  Proof. intros H. unfold acols, bcols. apply in_or_app; left. apply in_or_app; auto. Qed.
  Lemma in_acols_field : In c_field acols.
  Proof. unfold acols. apply in_or_app; right. apply in_or_app; right. destruct dr; cbn; auto. Qed.
  Lemma in_acols_value : In c_value acols.
  Proof. unfold acols. apply in_or_app; right. apply in_or_app; right. destruct dr; cbn; auto. Qed.
  Lemma in_acols_cases k : In k acols -> In k (bcols hp) \/ In k mn \/ (In k tail3n /\ (dr = true -> k <> c_scenario)).
  Proof.
    unfold acols. intros H. apply in_app_or in H as [H|H]; auto. apply in_app_or in H as [H|H]; auto.
    right; right. destruct dr; cbn in H |- *.
    - split; [tauto|]. intros _. destruct H as [<-|[<-|[]]]; discriminate.
    - split; [tauto|discriminate].
  Qed.
  Lemma mem_prev_acols : mem c_prev acols = hp.
  Proof.
    destruct hp eqn:E.
    - apply mem_In. unfold acols, bcols. rewrite E. apply in_or_app; left. cbn; auto.
    - apply mem_false. intros H. apply in_acols_cases in H as [H|[H|[H _]]].
      + rewrite E in H. cbn in H. destruct H as [H|[H|[H|[]]]]; discriminate.
      + apply (metaish_not_coord c_prev (mn_metaish _ H)). cbn; auto.
      + apply (coord_tail_disj c_prev); cbn; auto.
  Qed.
  Lemma mem_scen_acols : mem c_scenario acols = negb dr.
  Proof.
    destruct dr eqn:E; cbn [negb].
    - apply mem_false. intros H. apply in_acols_cases in H as [H|[H|[_ H]]].
      + apply (coord_tail_disj c_scenario); [apply (bcols_coordp hp); auto | cbn; auto].
      + apply (metaish_not_tail c_scenario (mn_metaish _ H)). cbn; auto.
      + apply H; auto.
    - apply mem_In. unfold acols. rewrite E. apply in_or_app; right. apply in_or_app; right. cbn; auto.
  Qed.

  Definition Ppure (c : str) : bool := not_in (fs_core sp) c && not_in [c_field; c_value] c && not_in lc c.
  Lemma core_iff k : In k (fs_core sp) <-> In k (coordp ++ meta_col_names ++ [c_scenario]).
  Proof. apply (proj2 (spec_ok_consts sp Hsp)). Qed.
  Lemma Ppure_core k : In k (coordp ++ meta_col_names ++ [c_scenario]) -> Ppure k = false.
  Proof.
    intros H. unfold Ppure, not_in. rewrite (proj2 (mem_In k (fs_core sp))) by (apply core_iff; auto). reflexivity.
  Qed.
  Lemma Ppure_fv k : In k [c_field; c_value] -> Ppure k = false.
  Proof.
    intros H. unfold Ppure, not_in. rewrite (proj2 (mem_In k [c_field; c_value])) by auto.
    cbn [negb]. rewrite andb_false_r. reflexivity.
  Qed.
  Lemma Ppure_detail k : In k dn \/ In k ln -> Ppure k = not_in lc k.
  Proof.
    intros H. unfold Ppure.
    assert (Hr : ~ In k reserved_names).
    { destruct H as [H|H]; [apply (dn_not_reserved fn dn ln names k H) | apply (ln_not_reserved fn dn ln names k H)]. }
    assert (H1 : not_in (fs_core sp) k = true).
    { unfold not_in. apply negb_true_iff, mem_false. intros Hc. apply core_iff in Hc. apply Hr.
      rewrite res_split. apply in_app_or in Hc as [Hc|Hc]; [apply in_or_app; auto|].
      apply in_or_app; right. apply in_app_or in Hc as [Hc|Hc]; apply in_or_app; auto.
      right. destruct Hc as [<-|[]]. cbn; auto. }
    assert (H2 : not_in [c_field; c_value] k = true).
    { unfold not_in. apply negb_true_iff, mem_false. intros Hc. apply Hr. apply tail3_reserved.
      destruct Hc as [<-|[<-|[]]]; cbn; auto. }
    rewrite H1, H2. reflexivity.
  Qed.
  Lemma pure_acols : filter Ppure acols = pureL.
  Proof.
    unfold acols, mn. rewrite !filter_app.
    rewrite (filter_none Ppure (bcols hp)).
    2:{ intros k Hk. apply Ppure_core. apply in_or_app; left. apply (bcols_coordp hp); auto. }
    rewrite (filter_none Ppure (attr_names t)).
    2:{ intros k Hk. apply Ppure_core. apply in_or_app; right. apply in_or_app; left. apply (attr_names_incl t); auto. }
    rewrite (filter_none Ppure (if dr then [c_field; c_value] else tail3n)).
    2:{ intros k Hk. destruct dr; [apply Ppure_fv; auto|]. destruct Hk as [<-|Hk]; [|apply Ppure_fv; auto].
        apply Ppure_core. apply in_or_app; right. apply in_or_app; right. cbn; auto. }
    cbn [app]. rewrite app_nil_r. unfold pureL. 
    assert (Hd : filter Ppure dn = dn).
    { apply filter_all. intros k Hk. rewrite Ppure_detail by auto. unfold not_in, lc. apply negb_true_iff, mem_false.
      destruct csv; [cbn; tauto|]. intros Hl. apply (dn_ln_disj fn dn ln names k); auto. }
    rewrite Hd. destruct csv eqn:Ecsv.
    - f_equal. apply filter_all. intros k Hk. rewrite Ppure_detail by auto. unfold lc. rewrite Ecsv. reflexivity.
    - rewrite filter_none; [apply app_nil_r|]. intros k Hk. rewrite Ppure_detail by auto.
      unfold not_in, lc. rewrite Ecsv. apply negb_false_iff, mem_In; auto.
  Qed.

  Definition kc : list str := key_cols (fs_long_key sp) acols pureL lc.

  Lemma from_long_unfold l : l <> [] -> incl l t ->
    from_long_rows sp lc (T_of l) =
    if hp then fold_left (long_step_inc_row pureL lc) (T_of l) (Ok [])
    else fold_left (long_step_group sp pureL lc acols)
                   (map snd (group_by key_eqb (row_key kc) (T_of l))) (Ok []).
  Proof.
    intros Hl Hin. unfold from_long_rows. rewrite (columns_T l Hl Hin). cbv zeta.
    assert (Hchk : forallb (fun c => mem c acols) (fs_index_cum sp) && mem c_field acols && mem c_value acols = true).
    { rewrite (proj1 (spec_ok_consts sp Hsp)). cbn [forallb].
      rewrite !(proj2 (mem_In _ acols)); auto using in_acols_field, in_acols_value;
        apply in_acols_coord; cbn; auto. }
    rewrite Hchk. cbn [negb]. fold Ppure. rewrite pure_acols, mem_prev_acols. reflexivity.
  Qed.
  (* ---------- grouping keys ---------- *)
  Lemma in_pl k : In k (pureL ++ lc) <-> In k (dn ++ ln).
  Proof. unfold pureL, lc. destruct csv; [rewrite app_nil_r|]; tauto. Qed.
  Lemma kc_not_sv k : In k kc -> k <> c_scenario /\ k <> c_value.
  Proof.
    intros Hk. destruct (spec_ok_long sp Hsp) as (_ & _ & _ & Hall & _).
    destruct (key_cols_allowed _ _ _ _ _ _ Hall Hk) as [H|H].
    - assert (Hm : mem c_scenario ([c_ps; c_pe; c_ev; c_field] ++ meta_col_names) = false) by reflexivity.
      assert (Hm' : mem c_value ([c_ps; c_pe; c_ev; c_field] ++ meta_col_names) = false) by reflexivity.
      apply mem_false in Hm, Hm'. split; intros ->; tauto.
    - assert (Hd : In k (dn ++ ln)) by (apply in_pl; apply in_or_app; tauto).
      assert (Hr : ~ In k reserved_names).
      { apply in_app_or in Hd as [Hd|Hd];
          [apply (dn_not_reserved fn dn ln names k Hd) | apply (ln_not_reserved fn dn ln names k Hd)]. }
      split; intros ->; apply Hr; apply tail3_reserved; cbn; auto.
  Qed.
  Lemma key_same c i fv : row_key kc (arow c i fv) = row_key kc (arow c 0%nat fv).
  Proof.
    apply row_key_ext. intros k Hk. destruct (kc_not_sv k Hk). apply arow_same; auto.
  Qed.
  Lemma key_field c c' i j fv fv' :
    row_key kc (arow c i fv) = row_key kc (arow c' j fv') -> fst fv = fst fv'.
  Proof.
    intros E. destruct (spec_ok_long sp Hsp) as (Hcov & _).
    assert (Hin : In c_field kc).
    { apply covered_in_key; [|apply in_acols_field]. rewrite forallb_forall in Hcov. apply Hcov. cbn; auto. }
    pose proof (row_key_get _ _ _ _ E Hin) as G. rewrite !arow_field in G. congruence.
  Qed.
  Lemma key_sep c c' i j fv fv' : In c t -> In c' t -> prev c = prev c' ->
    row_key kc (arow c i fv) = row_key kc (arow c' j fv') -> c = c'.
  Proof.
    intros Hc Hc' Hp E.
    pose proof (long_key_separates sp acols pureL lc _ _ Hsp (keys_arow c i fv) (keys_arow c' j fv') E) as S.
    destruct (rows_agree c c' i j fv fv' Hc Hc') as (A & B & C & D).
    { intros k Hk. apply S. apply in_app_or in Hk as [Hk|Hk].
      - apply in_or_app; left. cbn in Hk |- *. tauto.
      - apply in_or_app; right. apply in_app_or in Hk as [Hk|Hk]; apply in_or_app; auto.
        right. apply in_pl; auto. }
    apply (proj2 (nodup_b_inj t sep)); auto. repeat split; auto.
  Qed.

  Definition grp (c : cell) (fv : str * value) : list row :=
    map (fun ndx => arow c ndx fv) (seq 0 (nrows c)).
  Definition pairs (l : list cell) : list (cell * (str * value)) :=
    flat_map (fun c => map (pair c) (cvals c)) l.

  Lemma groups_of_T : (forall c, In c t -> prev c = None) ->
    map snd (group_by key_eqb (row_key kc) (T_of t)) = map (fun x => grp (fst x) (snd x)) (pairs t).
  Proof.
    intros Hprev. unfold T_of.
    rewrite (group_by_flat_map key_eqb key_eqb_eq (row_key kc) rows_of t).
    - unfold pairs. rewrite !map_flat_map. apply flat_map_ext_in'. intros c Hc. unfold rows_of.
      destruct (shape_parts c Hc) as (_ & ND & _). destruct (nrows_pos c Hc) as [n Hn].
      rewrite (group_by_fields key_eqb key_eqb_eq (row_key kc) (arow c) (fun fv => row_key kc (arow c 0%nat fv))).
      + rewrite !map_map. reflexivity.
      + rewrite Hn. discriminate.
      + apply (NoDup_map_key fst); auto. intros x y _ _ E. apply (key_field c c 0%nat 0%nat); auto.
      + intros i fv _ _. apply key_same.
    - apply (proj1 (nodup_b_inj t sep)).
    - intros c c' a a' Hc Hc' Ha Ha' E. unfold rows_of in Ha, Ha'.
      apply in_flat_map in Ha as [i [_ Ha]]. apply in_map_iff in Ha as [fv [<- _]].
      apply in_flat_map in Ha' as [j [_ Ha']]. apply in_map_iff in Ha' as [fv' [<- _]].
      apply (key_sep c c' i j fv fv'); auto. rewrite !Hprev; auto.
  Qed.

  (* ---------- the value of one group ---------- *)
  Hypothesis Hdr : dr = true -> forall c, In c t -> scalar_cell c = true.

  Lemma scalar_not_sample c : In c t -> scalar_cell c = true -> sample_cell c = true -> False.
  Proof.
    intros Hc Hs Hm. destruct (shape_parts c Hc) as (Hv & _). unfold scalar_cell, sample_cell in *.
    destruct (cvals c) as [|[k0 [x| |b xs]] r]; try discriminate; congruence.
  Qed.

  Lemma value_of_grp c fv : In c t -> In fv (cvals c) ->
    long_value_of_group sp acols (grp c fv) = Ok (fl_value (snd fv)).
  Proof.
    intros Hc Hfv. unfold grp. destruct (cell_kind_t c Hc) as [[Hs Hn]|[Hs Hn]].
    - rewrite Hn. cbn [seq map long_value_of_group]. rewrite arow_value.
      destruct (scalar_In c fv Hs Hfv) as [[f x] ->]. reflexivity.
    - assert (Ed : dr = false).
      { destruct dr eqn:E; auto. exfalso. apply (scalar_not_sample c Hc); auto. }
      destruct (sample_In c fv Hs Hfv) as (b & xs & Ev & Hl).
      destruct (spec_ok_long sp Hsp) as (_ & _ & _ & _ & Hsort).
      assert (Hsc : forall i, get c_scenario (arow c i fv) = TNum (1024 * (Z.of_nat i + 1))).
      { intros i. rewrite arow_scen by auto. rewrite Ev. reflexivity. }
      destruct (scen_seq_sorted (fun ndx => arow c ndx fv) (nrows c)) as [ND SS].
      { intros i. unfold scen. rewrite Hsc. reflexivity. }
      set (g := map (fun ndx => arow c ndx fv) (seq 0 (nrows c))) in *.
      assert (Hg : exists r r' rest, g = r :: r' :: rest /\ r = arow c 0%nat fv).
      { unfold g. destruct (nrows c) as [|[|n]]; try lia. cbn [seq map]. eauto. }
      destruct Hg as (r & r' & rest & Eg & Er).
      assert (Hsg : sort_group acols (fs_long_sort sp) g = Ok g).
      { rewrite Eg. unfold sort_group. rewrite Hsort.
        assert (Hm : mem c_scenario [c_scenario] = true) by reflexivity. rewrite Hm.
        rewrite mem_scen_acols, Ed. cbn [negb]. rewrite <- Eg. f_equal. apply sort_scen_id; auto. }
      assert (Hlv : long_value_of_group sp acols g =
                bind (sort_group acols (fs_long_sort sp) g) (fun g' =>
                  if mem c_scenario acols && forallb (fun x => is_nan (get c_scenario x)) g'
                  then match get c_value (hd r g') with TNum n => Ok (VNum (Num true n)) | _ => Err OtherError end
                  else match all_nums (map (get c_value) g') with
                       | Some xs => Ok (VArr true xs) | None => Err OtherError end)).
      { rewrite Eg. reflexivity. }
      rewrite Hlv, Hsg.
      cbn [bind].
      assert (Hnan : forallb (fun x => is_nan (get c_scenario x)) g = false).
      { rewrite Eg. cbn [forallb]. rewrite Er, Hsc. reflexivity. }
      rewrite Hnan, andb_false_r.
      assert (Hvals : map (get c_value) g = map TNum xs).
      { unfold g. rewrite map_map. rewrite <- Hl. rewrite <- nth_error_seq. apply map_ext. intros i.
        rewrite arow_value, Ev. destruct xs as [|x1 [|x2 xs']]; cbn in Hl; try lia. reflexivity. }
      rewrite Hvals, all_nums_TNum, Ev. reflexivity.
  Qed.
  (* ---------- one step of the reader = one [add_field] ---------- *)
  Lemma step_group c fv acc : In c t -> In fv (cvals c) -> ckind c = KCum -> prev c = None ->
    long_step_group sp pureL lc acols acc (grp c fv)
    = bind acc (add_field (ckind c) (ps c) (pe c) (ev c) (prev c) (FM (cmeta c)) (fst fv) (fl_value (snd fv))).
  Proof.
    intros Hc Hfv Hk Hp. pose proof (value_of_grp c fv Hc Hfv) as Hv.
    unfold long_step_group. destruct acc as [cells|e]; [|reflexivity]. cbn [bind].
    destruct (nrows_pos c Hc) as [n Hn].
    assert (Eg : grp c fv = arow c 0%nat fv :: map (fun ndx => arow c ndx fv) (seq 1 n)).
    { unfold grp. rewrite Hn. reflexivity. }
    rewrite Hv. rewrite Eg. rewrite arow_ps, arow_pe, arow_ev. cbn [date_of bind]. unfold field_of.
    rewrite arow_field. cbn [bind]. rewrite arow_FM by auto. rewrite Hk, Hp. reflexivity.
  Qed.
  Lemma inc_parts c : inc_ok c = true -> ckind c = KInc /\ (exists pv, prev c = Some pv) /\ scalar_cell c = true.
  Proof. unfold inc_ok. destruct (ckind c), (prev c); try discriminate. eauto. Qed.
  Lemma cum_parts c : cum_ok c = true -> ckind c = KCum /\ prev c = None.
  Proof. unfold cum_ok. destruct (ckind c), (prev c); try discriminate. eauto. Qed.
  Lemma step_inc c fv acc : In c t -> In fv (cvals c) -> hp = true -> inc_ok c = true ->
    long_step_inc_row pureL lc acc (arow c 0%nat fv)
    = bind acc (add_field (ckind c) (ps c) (pe c) (ev c) (prev c) (FM (cmeta c)) (fst fv) (fl_value (snd fv))).
  Proof.
    intros Hc Hfv Hh Hi. destruct (inc_parts c Hi) as (Hk & [pv Hp] & Hs).
    unfold long_step_inc_row. destruct acc as [cells|e]; [|reflexivity]. cbn [bind].
    rewrite arow_ps, arow_pe, arow_ev, arow_prev by auto. rewrite Hp. cbn [date_of bind]. unfold field_of.
    rewrite arow_field. cbn [bind]. rewrite arow_value, arow_FM by auto.
    destruct (scalar_In c fv Hs Hfv) as [[f x] ->]. rewrite Hk. reflexivity.
  Qed.

  (* ---------- accumulation over the cells ---------- *)
  Lemma fresh_done done c l : t = done ++ c :: l ->
    forall d, In d (map FMcell done) ->
    same_index d (ckind c) (ps c) (pe c) (ev c) (prev c) (FM (cmeta c)) = false.
  Proof.
    intros Et d Hd. apply in_map_iff in Hd as [c' [<- Hc']].
    destruct (same_index _ _ _ _ _ _ _) eqn:E; auto. exfalso.
    unfold same_index, FMcell in E. cbn [ckind Base.ps Base.pe Base.ev prev cmeta] in E.
    rewrite !andb_true_iff, !Z.eqb_eq, (opt_eqb_eq _ Z.eqb_eq), meta_seqb_eq in E.
    destruct E as [[[[[_ A] B] C] D] E].
    destruct (nodup_b_inj t sep) as [ND Hinj].
    assert (Hc : In c t) by (rewrite Et; apply in_or_app; right; cbn; auto).
    assert (Hc't : In c' t) by (rewrite Et; apply in_or_app; auto).
    assert (c = c').
    { apply Hinj; auto. repeat split; auto. apply FM_inj; auto. }
    subst c'. rewrite Et in ND. apply NoDup_remove_2 in ND. apply ND. apply in_or_app; auto.
  Qed.

  Lemma fold_cells (step : result (list cell) -> cell * (str * value) -> result (list cell)) :
    (forall c fv, In c t -> In fv (cvals c) -> forall acc,
       step acc (c, fv) = bind acc (add_field (ckind c) (ps c) (pe c) (ev c) (prev c) (FM (cmeta c))
                                              (fst fv) (fl_value (snd fv)))) ->
    forall l done, t = done ++ l ->
    fold_left step (pairs l) (Ok (map FMcell done)) = Ok (map FMcell (done ++ l)).
  Proof.
    intros Hstep. induction l as [|c l IH]; intros done Et.
    - cbn. rewrite app_nil_r. reflexivity.
    - assert (Hc : In c t) by (rewrite Et; apply in_or_app; right; cbn; auto).
      destruct (shape_parts c Hc) as (Hv & ND & _).
      unfold pairs. cbn [flat_map]. rewrite fold_left_app.
      rewrite (fold_cell (ckind c) (ps c) (pe c) (ev c) (prev c) (FM (cmeta c)) step
                 (fun x => (fst (snd x), fl_value (snd (snd x)))) (map (pair c) (cvals c)) (map FMcell done)).
      + assert (Ecell : mkCell (ckind c) (ps c) (pe c) (ev c) (prev c) (FM (cmeta c))
                          (map (fun x => (fst (snd x), fl_value (snd (snd x)))) (map (pair c) (cvals c)))
                        = FMcell c).
        { rewrite map_map. reflexivity. }
        rewrite Ecell. change [FMcell c] with (map FMcell [c]). rewrite <- map_app.
        fold (pairs l). rewrite IH by (rewrite <- app_assoc; exact Et). rewrite <- app_assoc. reflexivity.
      + intros x Hx acc. apply in_map_iff in Hx as [fv [<- Hfv]]. apply Hstep; auto.
      + destruct (cvals c); [congruence|discriminate].
      + unfold keys. rewrite !map_map. exact ND.
      + apply (fresh_done done c l Et).
  Qed.

  (* ---------- the two paths of the reader ---------- *)
  Lemma cum_path : t <> [] -> hp = false -> (forall c, In c t -> cum_ok c = true) ->
    from_long_rows sp lc (T_of t) = Ok (map FMcell t).
  Proof.
    intros Hne Hh Hcum. rewrite (from_long_unfold t Hne (incl_refl t)), Hh.
    rewrite groups_of_T by (intros c Hc; apply (cum_parts c (Hcum c Hc))).
    rewrite fold_left_map.
    apply (fold_cells (fun acc x => long_step_group sp pureL lc acols acc (grp (fst x) (snd x))) ) with (done := []); auto.
    intros c fv Hc Hfv acc. cbn [fst snd]. destruct (cum_parts c (Hcum c Hc)). apply step_group; auto.
  Qed.
  Lemma inc_path : t <> [] -> hp = true -> (forall c, In c t -> inc_ok c = true) ->
    from_long_rows sp lc (T_of t) = Ok (map FMcell t).
  Proof.
    intros Hne Hh Hinc. rewrite (from_long_unfold t Hne (incl_refl t)), Hh.
    assert (ET : T_of t = map (fun x => arow (fst x) 0%nat (snd x)) (pairs t)).
    { unfold T_of, pairs. rewrite map_flat_map. apply flat_map_ext_in'. intros c Hc. unfold rows_of.
      destruct (cell_kind_t c Hc) as [[_ Hn]|[Hs _]].
      - rewrite Hn. cbn [seq flat_map]. rewrite app_nil_r, map_map. reflexivity.
      - exfalso. apply (scalar_not_sample c Hc); auto. apply (inc_parts c (Hinc c Hc)). }
    rewrite ET, fold_left_map.
    apply (fold_cells (fun acc x => long_step_inc_row pureL lc acc (arow (fst x) 0%nat (snd x)))) with (done := []); auto.
    intros c fv Hc Hfv acc. cbn [fst snd]. apply step_inc; auto.
  Qed.
End Long.

(* ====================================================================================== *)
(** * Part F: the round trip *)
Lemma frame_hyps_parts fn dn ln t : frame_hyps fn dn ln t = true ->
  t <> [] /\ NoDup (reserved_names ++ fn ++ dn ++ ln)
  /\ (forall c, In c t -> cell_shape_ok fn dn ln c = true)
  /\ nodup_b same_coords t = true
  /\ ((forall c, In c t -> cum_ok c = true) \/ (forall c, In c t -> inc_ok c = true)).
Proof.
  unfold frame_hyps. intros H. repeat (apply andb_prop in H as [H ?]).
  repeat split.
  - destruct t; [discriminate|congruence].
  - apply (nodup_b_NoDup str_eqb str_eqb_eq). assumption.
  - apply forallb_forall. assumption.
  - assumption.
  - match goal with X : _ || _ = true |- _ => apply orb_true_iff in X as [X|X]; [left|right]; apply forallb_forall; exact X end.
Qed.

Theorem long_round_trip_gen sp fn dn ln t csv :
  frame_spec_ok sp = true -> frame_hyps fn dn ln t = true ->
  bind (to_long_rows dn ln t) (from_long_rows sp (lc ln csv)) = Ok (map (FMcell csv) t).
Proof.
  intros Hsp Hh. destruct (frame_hyps_parts fn dn ln t Hh) as (Hne & names & shapes & sep & Hk).
  set (hp := tri_is_inc t). set (mn := attr_names t ++ dn ++ ln).
  assert (kinds : forall c, In c t -> scalar_cell c || sample_cell c = true).
  { intros c Hc. destruct Hk as [Hk|Hk]; specialize (Hk c Hc).
    - unfold cum_ok in Hk. destruct (ckind c), (prev c); try discriminate; auto.
    - destruct (inc_parts c Hk) as (_ & _ & ->). reflexivity. }
  assert (Hv : forall c, In c t -> cvals c <> []).
  { intros c Hc. apply (shape_parts fn dn ln t shapes c Hc). }
  assert (Hhp : ((forall c, In c t -> cum_ok c = true) /\ hp = false)
                \/ ((forall c, In c t -> inc_ok c = true) /\ hp = true)).
  { unfold hp. destruct t as [|c0 t']; [congruence|]. unfold tri_is_inc, is_inc.
    destruct Hk as [Hk|Hk]; [left|right]; split; auto.
    - destruct (cum_parts c0 (Hk c0 (or_introl eq_refl))) as [-> _]. reflexivity.
    - destruct (inc_parts c0 (Hk c0 (or_introl eq_refl))) as [-> _]. reflexivity. }
  unfold to_long_rows. cbv zeta. fold hp mn.
  rewrite (concat_result_ok _ (cell_rows hp mn)) by (intros c Hc; apply long_rows_ok; auto).
  cbn [bind]. set (R := flat_map (cell_rows hp mn) t).
  assert (Hin : forall c i fv, In c t -> (i < nrows c)%nat -> In fv (cvals c) -> In (lrow hp mn c i fv) R).
  { intros c i fv Hc Hi Hfv. unfold R. apply in_flat_map. exists c. split; auto. unfold cell_rows.
    apply in_flat_map. exists i. split; [apply in_seq; lia | apply in_map; auto]. }
  assert (HR : R <> []).
  { destruct t as [|c0 t']; [congruence|]. assert (Hc0 : In c0 (c0 :: t')) by (cbn; auto).
    assert (Hn : (0 < nrows c0)%nat) by (destruct (cell_kind c0 (Hv c0 Hc0) (kinds c0 Hc0)) as [[_ ?]|[_ ?]]; lia).
    specialize (Hv c0 Hc0).
    destruct (cvals c0) as [|fv r] eqn:Ev; [congruence|].
    intros E. assert (Hx : In (lrow hp mn c0 0 fv) R) by (apply Hin; auto; rewrite Ev; cbn; auto).
    rewrite E in Hx. destruct Hx. }
  destruct (drop_cases R HR) as [E|[E Hconst]]; rewrite E; cbn [bind].
  - assert (ER : R = T_of dn ln t hp false t).
    { rewrite <- (map_adj_rows fn dn ln t names hp false t). unfold adj. symmetry. apply map_id. }
    rewrite ER. destruct Hhp as [[Hc Hf]|[Hc Hf]].
    + apply (cum_path sp fn dn ln t Hsp names shapes sep hp false csv kinds); auto. discriminate.
    + apply (inc_path sp fn dn ln t Hsp names shapes sep hp false csv kinds); auto.
  - assert (ER : map (drop_col c_scenario) R = T_of dn ln t hp true t).
    { rewrite <- (map_adj_rows fn dn ln t names hp true t). apply map_ext. reflexivity. }
    rewrite ER.
    assert (Hdr : forall c, In c t -> scalar_cell c = true).
    { intros c Hc. destruct (cell_kind c (Hv c Hc) (kinds c Hc)) as [[Hs _]|[Hs Hn]]; auto. exfalso.
      specialize (Hv c Hc). destruct (cvals c) as [|fv r] eqn:Ev; [congruence|].
      assert (Hfv : In fv (cvals c)) by (rewrite Ev; cbn; auto).
      destruct (sample_In c fv Hs Hfv) as (b & xs & Evv & _).
      assert (Hs' : forall i, get c_scenario (lrow hp mn c i fv) = TNum (1024 * (Z.of_nat i + 1))).
      { intros i. unfold mn.
        change (lrow hp (attr_names t ++ dn ++ ln) c i fv) with (adj false (lrow hp (attr_names t ++ dn ++ ln) c i fv)).
        rewrite (adj_lrow fn dn ln t names hp false c i fv).
        rewrite (arow_scen fn dn ln t names hp false c i fv eq_refl). rewrite Evv. reflexivity. }
      pose proof (Hconst _ _ _ _ (Hin c 0%nat fv Hc ltac:(lia) Hfv) (Hin c 1%nat fv Hc ltac:(lia) Hfv) (Hs' 0%nat) (Hs' 1%nat)).
      lia. }
    destruct Hhp as [[Hc Hf]|[Hc Hf]].
    + apply (cum_path sp fn dn ln t Hsp names shapes sep hp true csv kinds); auto.
    + apply (inc_path sp fn dn ln t Hsp names shapes sep hp true csv kinds); auto.
Qed.

(** C14, long form: triangle -> long table -> triangle gives the triangle back with every number a float *)
Theorem long_round_trip : forall sp fn dn ln t,
  frame_spec_ok sp = true -> frame_hyps fn dn ln t = true ->
  long_trip sp dn ln t = Ok (floatify t).
Proof. intros sp fn dn ln t Hsp Hh. exact (long_round_trip_gen sp fn dn ln t false Hsp Hh). Qed.

(** the CSV entry point (loss_detail_cols = []): loss details come back appended to the details *)
Theorem long_round_trip_csv : forall sp fn dn ln t,
  frame_spec_ok sp = true -> frame_hyps fn dn ln t = true ->
  long_trip_csv sp dn ln t = Ok (floatify_merged t).
Proof. intros sp fn dn ln t Hsp Hh. exact (long_round_trip_gen sp fn dn ln t true Hsp Hh). Qed.
