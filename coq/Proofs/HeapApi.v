(** C03 -- lifting the frame property from kernels to programs, and the modelled public entry points. *)
From Coq Require Import ZArith List Bool PeanoNat Lia.
From Bermuda Require Import Model.Base Model.Heap Model.HeapApi Proofs.HeapFrame Proofs.HeapKernels.
Import ListNotations.

(* ------------------------------------------------------------------ 1. the generic lifting lemma *)
(* [framed m]: started in ANY store, m leaves every object of that store untouched (return or raise).
   This is the per-kernel statement of Props/C03.v.  Because allocation only appends and a step that
   preserves the store it starts from a fortiori preserves what existed before the whole program began,
   framed steps compose: sequences, maps and folds of framed steps are framed. *)
Definition framed {A} (m : M A) : Prop := forall h, outcome_frame h (m h).

Lemma framed_sat {A} (m : M A) : framed m -> forall h0, sat h0 m (fun _ => True).
Proof.
  intros F h0 h [L E]. specialize (F h). unfold outcome_frame in F.
  destruct (m h) as [h' a|h' e]; destruct F as [L' E']; [split; [|exact I]|]; (split; [lia|]);
    intros l Hl; rewrite E' by lia; apply E; auto.
Qed.
Lemma sat_framed {A} (m : M A) : (forall h0, sat h0 m (fun _ => True)) -> framed m.
Proof. intros H h. eapply sat_frame. apply H. Qed.
Lemma framed_ret {A} (a : A) : framed (ret a).
Proof. apply sat_framed; intros; apply sat_ret; auto. Qed.
Lemma framed_raise {A} e : framed (@raise A e).
Proof. apply sat_framed; intros; apply sat_raise. Qed.
Lemma framed_alloc o : framed (alloc o).
Proof. apply sat_framed; intros; eapply sat_true; apply sat_alloc. Qed.
Lemma framed_bind {A B} (m : M A) (f : A -> M B) :
  framed m -> (forall a, framed (f a)) -> framed (mbind m f).
Proof.
  intros Fm Ff. apply sat_framed. intros h0.
  eapply sat_bind; [apply framed_sat; exact Fm|]. intros a _. apply framed_sat. apply Ff.
Qed.
Lemma framed_mapM {A B} (f : A -> M B) xs : (forall x, framed (f x)) -> framed (mapM f xs).
Proof.
  intros F. apply sat_framed. intros h0. eapply sat_true.
  apply sat_mapM_all with (Q := fun _ => True). intros x. apply framed_sat. apply F.
Qed.
Lemma framed_foldM {A B} (f : B -> A -> M B) xs b : (forall b x, framed (f b x)) -> framed (foldM f xs b).
Proof.
  intros F. apply sat_framed. intros h0.
  apply sat_foldM with (I := fun _ => True); auto. intros; apply framed_sat; apply F.
Qed.
Lemma framed_kernel c k : framed (run c k).
Proof. intros h. apply kernels_frame. Qed.

(* ------------------------------------------------------------------ membership-aware loop rules *)
Section Api.
  Variable h0 : heap.

  Lemma sat_foldM_in {A B} (f : B -> A -> M B) (I : B -> Prop) : forall xs,
    (forall b x, In x xs -> I b -> sat h0 (f b x) I) -> forall b, I b -> sat h0 (foldM f xs b) I.
  Proof.
    induction xs as [|x r IH]; intros Hf b Hb; simpl; [apply sat_ret; auto|].
    eapply sat_bind; [apply Hf; simpl; auto|]. intros b' Hb'. apply IH; auto.
    intros; apply Hf; simpl; auto.
  Qed.
  Lemma sat_mapM_in {A B} (f : A -> M B) (Q : B -> Prop) : forall xs,
    (forall x, In x xs -> sat h0 (f x) Q) -> sat h0 (mapM f xs) (Forall Q).
  Proof.
    induction xs as [|x r IH]; intros Hf; simpl; [apply sat_ret; constructor|].
    eapply sat_bind; [apply Hf; simpl; auto|]. intros y Hy.
    eapply sat_bind; [apply IH; intros; apply Hf; simpl; auto|]. intros ys Hys.
    apply sat_ret; constructor; auto.
  Qed.
  Lemma Forall_concat' {A} (P : A -> Prop) (ls : list (list A)) :
    Forall (Forall P) ls -> Forall P (concat ls).
  Proof. induction 1; simpl; [constructor|apply Forall_app; auto]. Qed.

  (* grouping and indexing only rearrange the argument's own cell references *)
  Lemma ginsert_incl cells k c gs :
    In c cells -> Forall (fun g => incl (snd g) cells) gs -> Forall (fun g => incl (snd g) cells) (ginsert k c gs).
  Proof.
    intros Hc. induction 1 as [|[k' l] r H F IH]; simpl.
    - constructor; [|constructor]. intros x [E|[]]; subst; auto.
    - destruct (k =? k')%Z; constructor; auto. simpl in *. apply incl_app; auto. intros x [E|[]]; subst; auto.
  Qed.
  Lemma sat_group_cells key cells :
    sat h0 (group_cells key cells) (Forall (fun g => incl (snd g) cells)).
  Proof.
    unfold group_cells. apply sat_foldM_in; [|constructor].
    intros gs c Hc Hgs. eapply sat_bind; [apply sat_get_cell|]. intros x _. apply sat_ret.
    apply ginsert_incl; auto.
  Qed.
  Lemma dset_in cells k c (ix : items) :
    In c cells -> Forall (fun kc => In (snd kc) cells) ix -> Forall (fun kc => In (snd kc) cells) (dset k c ix).
  Proof.
    intros Hc. induction 1 as [|[k' v] r H F IH]; simpl; [constructor; auto|].
    destruct (k =? k')%Z; constructor; auto.
  Qed.
  Lemma sat_index_cells key cells :
    sat h0 (index_cells key cells) (Forall (fun kc => In (snd kc) cells)).
  Proof.
    unfold index_cells. apply sat_foldM_in; [|constructor].
    intros ix c Hc Hix. eapply sat_bind; [apply sat_get_cell|]. intros x _. apply sat_ret.
    apply dset_in; auto.
  Qed.
  Lemma dget_in cells k (ix : items) c :
    Forall (fun kc => In (snd kc) cells) ix -> dget k ix = Some c -> In c cells.
  Proof.
    induction 1 as [|[k' v] r H F IH]; simpl; [discriminate|].
    destruct (k =? k')%Z; [intros E; inversion E; subst; auto|auto].
  Qed.

  (* ---------------------------------------------------------------- basis.py *)
  Lemma sat_api_to_incremental f c is_inc cells :
    sat h0 (api_to_incremental f c is_inc cells)
        (fun r => if is_inc then r = cells else Forall (fresh h0) r).
  Proof.
    unfold api_to_incremental. destruct is_inc; [apply sat_ret; auto|].
    eapply sat_bind; [apply sat_group_cells|]. intros gs _.
    eapply sat_bind; [apply sat_mapM_all; intros; apply sat_to_incremental_row|]. intros rows H.
    apply sat_ret. apply Forall_concat'; auto.
  Qed.
  Lemma sat_api_to_cumulative f c is_inc cells :
    sat h0 (api_to_cumulative f c is_inc cells)
        (fun r => if is_inc then Forall (fresh h0) r else r = cells).
  Proof.
    unfold api_to_cumulative. destruct is_inc; simpl; [|apply sat_ret; auto].
    eapply sat_bind; [apply sat_group_cells|]. intros gs _.
    eapply sat_bind; [apply sat_mapM_all; intros; apply sat_to_cumulative_row|]. intros rows H.
    apply sat_ret. apply Forall_concat'; auto.
  Qed.

  (* ---------------------------------------------------------------- summarize.py *)
  Lemma sat_api_summarize f c gcd_ok prem cells :
    sat h0 (api_summarize f c gcd_ok prem cells) (Forall (fresh h0)).
  Proof.
    unfold api_summarize. destruct (negb gcd_ok); [apply sat_raise|].
    eapply sat_bind; [apply sat_group_cells|]. intros gs _.
    apply sat_mapM_all. intros g.
    eapply sat_bind; [apply sat_summarize_cell_values|]. intros d _.
    eapply sat_bind; [apply sat_new_dict|]. intros; apply sat_new_cell.
  Qed.
  Lemma sat_api_blend f c tris picks : sat h0 (api_blend f c tris picks) (Forall (fresh h0)).
  Proof.
    unfold api_blend. destruct tris as [|t0 rest]; [apply sat_raise|].
    destruct (negb _); [apply sat_raise|].
    eapply sat_bind; [apply sat_mapM_all with (Q := fun _ => True); intros; eapply sat_true; apply sat_index_cells|].
    intros ixs _. destruct ixs as [|ix0 ixr]; [apply sat_raise|].
    apply sat_mapM_all. intros kc.
    eapply sat_bind.
    { apply sat_mapM_all with (Q := fun _ => True). intros ix.
      destruct (dget (fst kc) ix); [apply sat_ret; auto|apply sat_raise]. }
    intros cs _. apply sat_blend_cells.
  Qed.

  (* ---------------------------------------------------------------- triangle.py *)
  Lemma sat_api_select cells ks : sat h0 (api_select cells ks) (Forall (fresh h0)).
  Proof. apply sat_mapM_all. intros; apply sat_select. Qed.
  Lemma sat_api_replace cells defs : sat h0 (api_replace cells defs) (Forall (fresh h0)).
  Proof. apply sat_mapM_all. intros; apply sat_replace. Qed.
  Lemma sat_api_derive_fields cells defs :
    sat h0 (api_derive_fields cells defs) (fun r => defs <> [] -> Forall (fresh h0) r).
  Proof.
    eapply sat_weaken; [apply sat_mapM_all with (Q := fun r => defs <> [] -> fresh h0 r); intros; apply sat_derive_fields|].
    intros r H N. eapply Forall_impl; [|exact H]. auto.
  Qed.

  (* ---------------------------------------------------------------- merge.py *)
  Lemma sat_merge_cell_pair' c1 c2 :
    sat h0 (merge_cell_pair c1 c2) (fun r => fresh h0 r \/ r = c1 \/ r = c2).
  Proof.
    destruct c1 as [| |l1]; [apply sat_ret; auto| |]; (destruct c2 as [| |l2]; [apply sat_ret; auto| |]);
      (eapply sat_weaken; [apply sat_merge_cell_pair|]; intros r H; left; apply H; congruence).
  Qed.
  Lemma sat_join_pairs f kl kr km cells1 cells2 :
    sat h0 (join_pairs f kl kr km cells1 cells2)
        (Forall (fun p => (fst p = PNone \/ In (fst p) cells1) /\ (snd p = PNone \/ In (snd p) cells2))).
  Proof.
    unfold join_pairs. eapply sat_bind; [apply sat_index_cells|]. intros ix1 H1.
    eapply sat_bind; [apply sat_index_cells|]. intros ix2 H2. apply sat_ret.
    apply Forall_forall. intros p Hp. apply filter_In in Hp. destruct Hp as [Hp _].
    apply in_map_iff in Hp. destruct Hp as [k [E _]]. subst p. simpl. split.
    - destruct (dget k ix1) eqn:G; simpl; auto. right. eapply dget_in; eauto.
    - destruct (dget k ix2) eqn:G; simpl; auto. right. eapply dget_in; eauto.
  Qed.
  (* every merged cell is new, or IS a cell of one of the two arguments (unmatched side) *)
  Lemma sat_api_merge f kl kr km cells1 cells2 :
    sat h0 (api_merge f kl kr km cells1 cells2)
        (Forall (fun r => fresh h0 r \/ In r (cells1 ++ cells2))).
  Proof.
    unfold api_merge. eapply sat_bind; [apply sat_join_pairs|]. intros ps Hps.
    apply sat_mapM_in. intros p Hp. rewrite Forall_forall in Hps. destruct (Hps p Hp) as [[A|A] [B|B]];
      (eapply sat_weaken; [apply sat_merge_cell_pair'|]); intros r [F|[E|E]]; auto; subst r;
      try (rewrite A; left; exact I); try (rewrite B; left; exact I);
      right; apply in_or_app; auto.
  Qed.
  (* coalesce returns the arguments' own cell objects *)
  Lemma sat_api_coalesce f tris :
    sat h0 (api_coalesce f tris) (Forall (fun r => In r (concat tris))).
  Proof.
    unfold api_coalesce. eapply sat_bind; [apply sat_group_cells|]. intros gs H. apply sat_ret.
    apply Forall_forall. intros r Hr. apply in_flat_map in Hr. destruct Hr as [g [Hg Hr]].
    rewrite Forall_forall in H. specialize (H g Hg). destruct (snd g) as [|c l]; simpl in Hr; [contradiction|].
    destruct Hr as [E|[]]; subst. apply H. simpl; auto.
  Qed.

  (* ---------------------------------------------------------------- fields.py *)
  Lemma sat_api_add_statics f cells source fields :
    sat h0 (api_add_statics f cells source fields) (Forall (fun r => fresh h0 r \/ In r cells)).
  Proof.
    unfold api_add_statics. eapply sat_bind.
    { apply sat_mapM_all with (Q := fun _ => True). intros s.
      eapply sat_bind; [apply sat_get_cell|]. intros; apply sat_ret; auto. }
    intros src _. apply sat_mapM_in. intros c Hc.
    eapply sat_bind; [apply sat_get_cell|]. intros x _.
    destruct (pick_source f (fst x) src).
    - eapply sat_weaken; [apply sat_add_statics|]. auto.
    - apply sat_ret; auto.
  Qed.

  (* ---------------------------------------------------------------- thin.py *)
  Lemma sat_api_thin n k cells ndxs :
    sat h0 (api_thin n k cells ndxs) (fun r => (n = k -> r = cells) /\ (k < n -> Forall (fresh h0) r)).
  Proof.
    unfold api_thin. destruct (n <? k) eqn:E1; [apply sat_raise|]. apply Nat.ltb_ge in E1.
    destruct (n =? k) eqn:E2.
    - apply Nat.eqb_eq in E2. apply sat_ret. split; auto. lia.
    - apply Nat.eqb_neq in E2. eapply sat_weaken; [apply sat_mapM_all; intros; apply sat_thin_cell|].
      intros r H. split; auto. congruence.
  Qed.

  (* ---------------------------------------------------------------- aggregate.py *)
  Lemma sat_api_aggregate_period f c prem cells :
    sat h0 (api_aggregate_period f c prem cells) (Forall (fresh h0)).
  Proof.
    unfold api_aggregate_period. eapply sat_bind; [apply sat_group_cells|]. intros gs _.
    apply sat_mapM_all. intros; apply sat_aggregate_group.
  Qed.
  Lemma sat_api_aggregate f c is_inc prem keep cells :
    sat h0 (api_aggregate f c is_inc prem keep cells) (Forall (fresh h0)).
  Proof.
    unfold api_aggregate. eapply sat_bind; [apply sat_api_to_cumulative|]. intros cum _.
    eapply sat_bind; [apply sat_group_cells|]. intros slices _.
    eapply sat_bind.
    { apply sat_mapM_all with (Q := Forall (fresh h0)). intros g.
      eapply sat_bind.
      { apply sat_foldM with (I := fun _ => True); auto. intros acc x _.
        eapply sat_bind; [apply sat_get_cell|]. intros; apply sat_ret; auto. }
      intros kept _. apply sat_api_aggregate_period. }
    intros agg Hagg. eapply sat_weaken; [apply sat_api_to_incremental|].
    intros r H. destruct (negb is_inc); auto. subst r. apply Forall_concat'; auto.
  Qed.

  Lemma sat_run_api f c a : sat h0 (run_api f c a) (fun _ => True).
  Proof.
    unfold run_api. eapply sat_lift. destruct a.
    - eapply sat_true; apply sat_api_to_incremental.
    - eapply sat_true; apply sat_api_to_cumulative.
    - eapply sat_true; apply sat_api_summarize.
    - eapply sat_true; apply sat_api_blend.
    - eapply sat_true; apply sat_api_select.
    - eapply sat_true; apply sat_api_derive_fields.
    - eapply sat_true; apply sat_api_replace.
    - eapply sat_true; apply sat_api_merge.
    - eapply sat_true; apply sat_api_coalesce.
    - eapply sat_true; apply sat_api_add_statics.
    - eapply sat_true; apply sat_api_thin.
    - eapply sat_true; apply sat_api_aggregate_period.
    - eapply sat_true; apply sat_api_aggregate.
  Qed.
End Api.

(* ------------------------------------------------------------------ statements for Props/C03.v *)
Theorem api_frame : forall f c h a, outcome_frame h (run_api f c a h).
Proof. intros. eapply sat_frame. apply sat_run_api. Qed.
Theorem api_frame_reachable : forall f c h a,
  heap_ok h -> Forall (val_ok (length h)) (api_args a) ->
  match run_api f c a h with
  | Ret h' _ | Raise h' _ => forall x l, In x (api_args a) -> reach h x l -> nth_error h' l = nth_error h l
  end.
Proof.
  intros f c h a Hh Ha. pose proof (api_frame f c h a) as F. unfold outcome_frame in F.
  destruct (run_api f c a h) as [h1 r1|h1 e1]; destruct F as [_ F]; intros x l Hin R; apply F;
    (eapply reach_valid; [exact Hh| |exact R]); rewrite Forall_forall in Ha; auto.
Qed.
(* frame and alias statement of one entry point, from its [sat] lemma *)
Definition post {A} (m : M A) (h : heap) (Q : A -> Prop) : Prop :=
  outcome_frame h (m h) /\ match m h with Ret _ a => Q a | Raise _ _ => True end.
Lemma sat_both {A} h (m : M A) Q : sat h m Q -> post m h Q.
Proof. intros H. split; [eapply sat_frame; eauto|apply (sat_post h m Q H)]. Qed.
