(** C16 -- top-level statements about [blend] assembled from BlendP / BlendQ *)
From Coq Require Import ZArith QArith Qabs List Bool Lia Lqa Arith.
From Bermuda Require Import Model.Base Model.Blend Proofs.BlendP Proofs.BlendQ.
Import ListNotations.
Local Open Scope Q_scope.

(* the cells that blend looks up for the i-th coordinate of the first triangle: one per input triangle,
   each a member of its triangle at exactly that coordinate; the first one is the first triangle's cell *)
Definition at_coordinate (tris : list (list cell)) (k : coord) (c0 : cell) (cells : list cell) : Prop :=
  Forall2 (fun t c => In c t /\ coord_of c = k) tris cells /\ hd_error cells = Some c0.

Lemma blend_fieldwise fo draw tris w m out :
  blend fo draw tris w m = Ok out ->
  exists t0 rest wl, tris = t0 :: rest /\ weight_list w (length t0) = Ok wl /\
    length out = length (index_tri t0) /\
    forall i o, nth_error out i = Some o ->
      exists k c0 wi cells,
        nth_error (index_tri t0) i = Some (k, c0) /\ In c0 t0 /\ k = coord_of c0 /\
        nth_error wl i = Some wi /\ at_coordinate tris k c0 cells /\
        qhdr o = hdr c0 /\ map fst (qvals o) = fo (keys (cvals c0)) /\
        Forall (fun c => keyset_eqb (keys (cvals c0)) (keys (cvals c)) = true) (tl cells) /\
        forall f v, In (f, v) (qvals o) -> blend_field (draw i f) cells wi m f = Ok v.
Proof.
  intro H. apply blend_cellwise in H. destruct H as [t0 [rest [wl [Ht [Hw [Hlen Hall]]]]]].
  exists t0, rest, wl. repeat split; auto.
  intros i o Hi. destruct (Hall i o Hi) as [k [c0 [wi [cells [H1 [H2 [H3 [H4 [H5 H6]]]]]]]]].
  apply blend_cells_spec in H6. destruct H6 as [c0' [rs [Hc [Hh [Hk [Hks Hf]]]]]].
  subst cells. simpl in H5. inversion H5. subst c0'.
  apply nth_error_In in H1 as Hin. apply index_tri_in in Hin. destruct Hin as [Hin Hkc].
  exists k, c0, wi, (c0 :: rs). unfold at_coordinate. simpl. repeat split; auto.
Qed.

(* structure: one output cell per coordinate of the first triangle, carrying that cell's period, dates,
   cell type and metadata, and its field set (in the set-iteration order given by the oracle) *)
Lemma blend_structure fo draw tris w m out :
  blend fo draw tris w m = Ok out ->
  exists t0 rest, tris = t0 :: rest /\
    map qhdr out = map (fun kc => hdr (snd kc)) (index_tri t0) /\
    Forall2 (fun o kc => map fst (qvals o) = fo (keys (cvals (snd kc)))) out (index_tri t0).
Proof.
  intro H. apply blend_fieldwise in H. destruct H as [t0 [rest [wl [Ht [Hw [Hlen Hall]]]]]].
  exists t0, rest. split; auto.
  assert (Hall' : forall i o, nth_error out i = Some o ->
            exists k c0, nth_error (index_tri t0) i = Some (k, c0) /\ qhdr o = hdr c0 /\
                         map fst (qvals o) = fo (keys (cvals c0))).
  { intros i o Hi. destruct (Hall i o Hi) as [k [c0 [wi [cells [H1 [_ [_ [_ [_ [Hh [Hk _]]]]]]]]]]]. eauto. }
  revert Hlen Hall'. generalize (index_tri t0) as idx. clear. intros idx. revert idx.
  induction out as [|o out IH]; intros [|[k c] idx] Hlen Hall; simpl in Hlen; try discriminate.
  - split; constructor.
  - destruct (Hall O o eq_refl) as [k' [c0 [H1 [Hh Hk]]]].
    simpl in H1. inversion H1. subst k' c0.
    destruct (IH idx (eq_add_S _ _ Hlen)) as [I1 I2].
    { intros i o' Hi. exact (Hall (S i) o' Hi). }
    split; simpl; [f_equal; auto|constructor; auto].
Qed.

(* for a triangle with pairwise distinct coordinates the index is the triangle itself, in its order *)
Lemma blend_structure_nodup fo draw t0 rest w m out :
  blend fo draw (t0 :: rest) w m = Ok out -> NoDup (map coord_of t0) ->
  map qhdr out = map hdr t0 /\
  Forall2 (fun o c0 => map fst (qvals o) = fo (keys (cvals c0))) out t0.
Proof.
  intros H Hnd. apply blend_structure in H. destruct H as [t0' [rest' [Ht [H1 H2]]]].
  inversion Ht. subst t0' rest'. rewrite (index_tri_nodup t0 Hnd) in H1, H2. split.
  - rewrite H1, map_map. reflexivity.
  - clear - H2. revert H2. generalize out. induction t0 as [|c r IH]; intros o H; inversion H; subst; constructor; auto.
Qed.

(* linear blending, top level *)
Lemma blend_linear_top fo draw tris w out :
  blend fo draw tris w MLinear = Ok out ->
  exists t0 rest wl, tris = t0 :: rest /\ weight_list w (length t0) = Ok wl /\
    forall i o f v, nth_error out i = Some o -> In (f, v) (qvals o) ->
      exists k c0 wi cells vals vs xs,
        nth_error (index_tri t0) i = Some (k, c0) /\ nth_error wl i = Some wi /\
        at_coordinate tris k c0 cells /\
        field_vals cells f = Some vals /\ all_some (map samples vals) = Some vs /\
        v = QArr xs /\ length xs = max_len vs /\
        let ws := eff_weights wi (length vals) in
        length ws = length vs /\
        (* value = weighted sum, scalars broadcast against samples *)
        (forall j, (j < max_len vs)%nat -> nth j xs 0 = dot ws (map (fun x => pick x j) vs)) /\
        (* convex weights: between any common bounds of the inputs, hence between min and max *)
        (convex ws -> forall j lo hi, (j < max_len vs)%nat ->
           Forall (fun x => lo <= pick x j /\ pick x j <= hi) vs -> lo <= nth j xs 0 /\ nth j xs 0 <= hi) /\
        (* weights summing to one: equal inputs give that value *)
        (qsum ws == 1 -> forall j c, (j < max_len vs)%nat ->
           Forall (fun x => pick x j == c) vs -> nth j xs 0 == c).
Proof.
  intro H. apply blend_fieldwise in H. destruct H as [t0 [rest [wl [Ht [Hw [Hlen Hall]]]]]].
  exists t0, rest, wl. repeat split; auto.
  intros i o f v Hi Hin.
  destruct (Hall i o Hi) as [k [c0 [wi [cells [H1 [_ [_ [H2 [H3 [_ [_ [_ Hf]]]]]]]]]]]].
  specialize (Hf f v Hin).
  pose proof (linear_field_value _ _ _ _ _ Hf) as [vals [vs [xs [V1 [V2 [V3 [V4 [V5 V6]]]]]]]].
  exists k, c0, wi, cells, vals, vs, xs. cbv zeta.
  split; [exact H1|]. split; [exact H2|]. split; [exact H3|]. split; [exact V1|]. split; [exact V2|].
  split; [exact V3|]. split; [exact V4|]. split; [exact V5|]. split; [exact V6|]. split.
  - intros Hc j lo hi Hj Hb.
    destruct (linear_field_convex _ _ _ _ _ Hf vals V1 Hc) as [vs' [xs' [W1 [W2 [W3 W4]]]]].
    rewrite V2 in W1. inversion W1. subst vs'. rewrite V3 in W2. inversion W2. subst xs'.
    apply (W4 j lo hi Hj Hb).
  - intros Hs j c Hj Hc.
    destruct (linear_field_equal _ _ _ _ _ Hf vals V1 Hs) as [vs' [xs' [W1 [W2 [W3 W4]]]]].
    rewrite V2 in W1. inversion W1. subst vs'. rewrite V3 in W2. inversion W2. subst xs'.
    apply (W4 j c Hj Hc).
Qed.

(* mixture blending, top level; [draw] is arbitrary *)
Lemma blend_mixture_top fo draw tris w out :
  blend fo draw tris w MMixture = Ok out ->
  exists t0 rest wl, tris = t0 :: rest /\ weight_list w (length t0) = Ok wl /\
    forall i o f v, nth_error out i = Some o -> In (f, v) (qvals o) ->
      exists k c0 wi cells v0 others,
        nth_error (index_tri t0) i = Some (k, c0) /\ nth_error wl i = Some wi /\
        at_coordinate tris k c0 cells /\
        field_vals cells f = Some (v0 :: others) /\
        (* equal scalars pass through unchanged *)
        (is_scalar v0 = true ->
           v = QKeep v0 /\ Forall (fun x => vtype x = vtype v0 /\ val_pyeq x v0 = true) others) /\
        (* samples: output sample j is sample j of the input chosen by the oracle *)
        (is_scalar v0 = false ->
           exists xs, v = QArr xs /\ length xs = length (arr_of v0) /\ length (draw i f) = length xs /\
             forall j, (j < length xs)%nat ->
               let pickd := nth j (draw i f) O in
               (pickd < length (v0 :: others))%nat /\
               nth j xs 0 = nth j (arr_of (nth pickd (v0 :: others) VNone)) 0 /\
               length (arr_of (nth pickd (v0 :: others) VNone)) = length xs).
Proof.
  intro H. apply blend_fieldwise in H. destruct H as [t0 [rest [wl [Ht [Hw [Hlen Hall]]]]]].
  exists t0, rest, wl. repeat split; auto.
  intros i o f v Hi Hin.
  destruct (Hall i o Hi) as [k [c0 [wi [cells [H1 [_ [_ [H2 [H3 [_ [_ [_ Hf]]]]]]]]]]]].
  specialize (Hf f v Hin).
  destruct (field_vals cells f) as [[|v0 others]|] eqn:EV.
  - unfold blend_field in Hf. unfold field_vals in EV. rewrite EV in Hf. discriminate.
  - exists k, c0, wi, cells, v0, others.
    split; [exact H1|]. split; [exact H2|]. split; [exact H3|]. split; [exact EV|]. split.
    + intro Hs. eapply blend_field_mixture_scalar; eauto.
    + intro Hs. eapply mixture_field_membership; eauto.
  - unfold blend_field in Hf. unfold field_vals in EV. rewrite EV in Hf. discriminate.
Qed.
