(** C03 -- the remaining kernels, the theorem over every kernel call, alias-graph predictions. *)
From Coq Require Import ZArith List Bool PeanoNat Lia.
From Bermuda Require Import Model.Base Model.Heap Proofs.HeapFrame.
Import ListNotations.

Section Kernels.
  Variable h0 : heap.
  Let freshkv (kv : key * val) : Prop := fresh h0 (snd kv).

  Lemma sat_deepcopy_dict v : sat h0 (deepcopy_dict v) (fresh h0).
  Proof.
    unfold deepcopy_dict. eapply sat_bind; [apply sat_deepcopy_items|]. intros; apply sat_new_dict.
  Qed.

  (* to_cumulative: every produced cell is a new object *)
  Lemma sat_cum_step c st cell :
    Forall (fresh h0) (snd st) -> sat h0 (cum_step c st cell) (fun st' => Forall (fresh h0) (snd st')).
  Proof.
    destruct st as [[cur cur_tag] out]; simpl. intros Hout.
    eapply sat_bind; [apply sat_get_cell|]. intros x _.
    destruct (negb _); [apply sat_raise|].
    eapply sat_bind; [apply sat_values_add|]. intros cur' _.
    eapply sat_bind; [apply sat_new_cell|]. intros nc Fnc.
    apply sat_ret; simpl. apply Forall_app; split; auto.
  Qed.
  Lemma sat_to_cumulative_row c cells : sat h0 (to_cumulative_row c cells) (Forall (fresh h0)).
  Proof.
    unfold to_cumulative_row. destruct cells as [|c0 rest]; [apply sat_ret; constructor|].
    eapply sat_bind; [apply sat_get_cell|]. intros x0 _.
    destruct (negb _); [apply sat_raise|].
    eapply sat_bind; [apply sat_deepcopy_dict|]. intros cur _.
    eapply sat_bind; [apply sat_deepcopy_dict|]. intros v0 _.
    eapply sat_bind; [apply sat_new_cell|]. intros n0 Fn0.
    eapply sat_bind.
    - apply sat_foldM with (I := fun st => Forall (fresh h0) (snd st)).
      + intros; apply sat_cum_step; auto.
      + simpl; auto.
    - intros st Hst. apply sat_ret; auto.
  Qed.
  Lemma sat_inc_pairs cf cells : forall prev, sat h0 (inc_pairs cf prev cells) (Forall (fresh h0)).
  Proof.
    induction cells as [|c r IH]; intros prev; simpl; [apply sat_ret; constructor|].
    eapply sat_bind; [apply sat_get_cell|]. intros xp _.
    eapply sat_bind; [apply sat_get_cell|]. intros x _.
    eapply sat_bind; [apply sat_values_diff|]. intros d _.
    eapply sat_bind; [apply sat_new_cell|]. intros nc Fnc.
    eapply sat_bind; [apply IH|]. intros rest Hrest. apply sat_ret; auto.
  Qed.
  Lemma sat_to_incremental_row cf cells : sat h0 (to_incremental_row cf cells) (Forall (fresh h0)).
  Proof.
    unfold to_incremental_row. destruct cells as [|c0 rest]; [apply sat_ret; constructor|].
    eapply sat_bind; [apply sat_get_cell|]. intros x0 _.
    eapply sat_bind; [apply sat_deepcopy_dict|]. intros v0 _.
    eapply sat_bind; [apply sat_new_cell|]. intros n0 Fn0.
    eapply sat_bind; [apply sat_inc_pairs|]. intros r Hr. apply sat_ret; auto.
  Qed.

  Lemma sat_aggregate_group c newtag cells p : sat h0 (aggregate_group c newtag cells p) (fresh h0).
  Proof.
    unfold aggregate_group, aggregate_group_gen. fold summarize_cell_values.
    eapply sat_bind.
    { apply sat_mapM_all with (Q := fun _ => True). intros cell.
      eapply sat_bind; [apply sat_cell_values|]. intros; eapply sat_true; apply sat_new_cell. }
    intros tmp _. eapply sat_bind; [apply sat_summarize_cell_values|]. intros d _.
    eapply sat_bind; [apply sat_new_dict|]. intros; apply sat_new_cell.
  Qed.

  (* disaggregate: every weighted value is a number or a fresh array *)
  Lemma sat_weight_field c ws kv : sat h0 (weight_field c ws kv) (Forall freshkv).
  Proof.
    unfold weight_field. eapply sat_bind; [apply sat_view|]. intros x _.
    destruct x; try apply sat_raise.
    - apply sat_ret. apply Forall_forall. intros y Hy. apply in_map_iff in Hy.
      destruct Hy as [w [E _]]; subst; exact I.
    - apply sat_mapM_all. intros w. eapply sat_bind; [apply sat_new_arr|]. intros; apply sat_ret; auto.
  Qed.
  Lemma transpose_fresh n : forall rows,
    Forall (Forall freshkv) rows -> Forall (Forall freshkv) (transpose_rows n rows).
  Proof.
    induction n; intros rows H; simpl; constructor.
    - apply Forall_forall. intros x Hx. apply in_flat_map in Hx. destruct Hx as [r [Hr Hx]].
      rewrite Forall_forall in H. specialize (H r Hr). destruct r; simpl in Hx; [contradiction|].
      destruct Hx as [E|[]]; subst. inversion H; auto.
    - apply IHn. apply Forall_forall. intros r Hr. apply in_map_iff in Hr.
      destruct Hr as [r' [E Hr']]; subst. rewrite Forall_forall in H. specialize (H r' Hr').
      destruct r'; simpl; auto. inversion H; auto.
  Qed.
  Lemma sat_weight_cell_values c cell ws :
    sat h0 (weight_cell_values c cell ws) (Forall (Forall freshkv)).
  Proof.
    unfold weight_cell_values. eapply sat_bind; [apply sat_cell_items|]. intros d _.
    eapply sat_bind; [apply sat_mapM_all; intros; apply sat_weight_field|]. intros rows Hrows.
    apply sat_ret. apply transpose_fresh; auto.
  Qed.

  (* policy year accumulation: every entry of vals_dict is fresh-or-immutable at every step *)
  Lemma dget_fresh k acc t : Forall freshkv acc -> dget k acc = Some t -> fresh h0 t.
  Proof.
    induction acc as [|[k' v] r IH]; simpl; [discriminate|]. intros H G. inversion H; subst.
    destruct (k =? k')%Z; [inversion G; subst; auto|auto].
  Qed.
  Lemma dset_fresh k t acc : Forall freshkv acc -> fresh h0 t -> Forall freshkv (dset k t acc).
  Proof.
    induction acc as [|[k' v] r IH]; simpl; intros H Ft; [constructor; auto|].
    inversion H; subst. destruct (k =? k')%Z; constructor; auto.
  Qed.
  Lemma sat_py_accumulate c acc cs :
    Forall freshkv acc -> sat h0 (py_accumulate c acc cs) (Forall freshkv).
  Proof.
    intros Hacc. unfold py_accumulate. destruct (snd cs); [|apply sat_ret; auto].
    eapply sat_bind; [apply sat_cell_items|]. intros d _.
    apply sat_foldM; auto. intros acc' kv Hacc'.
    eapply sat_bind; [apply sat_binop|]. intros p Fp.
    eapply sat_bind with (P := fresh h0).
    - apply sat_iop. destruct (dget (fst kv) acc') eqn:G; [eapply dget_fresh; eauto|exact I].
    - intros t Ft. apply sat_ret. apply dset_fresh; auto.
  Qed.
  Lemma sat_policy_year_cell c tag cells shares :
    sat h0 (policy_year_cell c tag cells shares) (fresh h0).
  Proof.
    unfold policy_year_cell. eapply sat_bind.
    - apply sat_foldM with (I := Forall freshkv); [intros; apply sat_py_accumulate; auto|constructor].
    - intros acc _. destruct acc; [apply sat_ret; exact I|].
      eapply sat_bind; [apply sat_new_dict|]. intros; apply sat_new_cell.
  Qed.

  (* blend: every blended entry is a number or a fresh array *)
  Lemma sat_blend_field ds picks k : sat h0 (blend_field ds picks k) freshkv.
  Proof.
    unfold blend_field. eapply sat_bind.
    { apply sat_mapM_all with (Q := fun _ => True). intros d.
      destruct (dget k d); [eapply sat_true; apply sat_view|apply sat_raise]. }
    intros vs _. destruct vs as [|[| z | l xs0 |] r]; try apply sat_raise.
    - destruct (forallb _ r); [apply sat_ret; exact I|]. destruct (forallb _ r); apply sat_raise.
    - destruct (forallb _ r); [|apply sat_raise].
      destruct (negb _); [apply sat_raise|].
      destruct (pick_samples _ _ _); [|apply sat_raise].
      destruct (length xs0 <=? length picks); [|apply sat_raise].
      eapply sat_bind; [apply sat_new_arr|]. intros; apply sat_ret; auto.
  Qed.
  Lemma sat_blend_cells c cells picks : sat h0 (blend_cells c cells picks) (fresh h0).
  Proof.
    unfold blend_cells. destruct cells as [|c0 cr]; [apply sat_raise|].
    eapply sat_bind; [apply sat_mapM_all with (Q := fun _ => True); intros; apply sat_cell_items|].
    intros ds _. destruct ds as [|d0 dr]; [apply sat_raise|].
    destruct (negb _); [apply sat_raise|].
    eapply sat_bind; [apply sat_mapM_all; intros; apply sat_blend_field|]. intros clean _.
    eapply sat_bind; [apply sat_new_dict|]. intros; apply sat_replace.
  Qed.

  Lemma sat_blend_field_linear c ds ws k : sat h0 (blend_field_linear c ds ws k) freshkv.
  Proof.
    unfold blend_field_linear. eapply sat_bind.
    { apply sat_mapM_all with (Q := fun _ => True). intros d.
      destruct (dget k d); [eapply sat_true; apply sat_view|apply sat_raise]. }
    intros vs _. destruct (negb _); [apply sat_raise|]. destruct (negb _); [apply sat_raise|].
    eapply sat_bind; [apply sat_new_arr|]. intros; apply sat_ret; auto.
  Qed.
  Lemma sat_blend_cells_linear c cells ws : sat h0 (blend_cells_linear c cells ws) (fresh h0).
  Proof.
    unfold blend_cells_linear. destruct cells as [|c0 cr]; [apply sat_raise|].
    eapply sat_bind; [apply sat_mapM_all with (Q := fun _ => True); intros; apply sat_cell_items|].
    intros ds _. destruct ds as [|d0 dr]; [apply sat_raise|].
    destruct (negb _); [apply sat_raise|]. destruct (negb _); [apply sat_raise|].
    eapply sat_bind; [apply sat_mapM_all; intros; apply sat_blend_field_linear|]. intros clean _.
    eapply sat_bind; [apply sat_new_dict|]. intros; apply sat_replace.
  Qed.

  (* ---------------------------------------------------------------- every kernel *)
  Lemma sat_lift {A} (f : A -> res) (m : M A) Q : sat h0 m Q -> sat h0 (lift f m) (fun _ => True).
  Proof. intros H. unfold lift. eapply sat_bind; [apply H|]. intros; apply sat_ret; auto. Qed.
  Lemma sat_run c k : sat h0 (run c k) (fun _ => True).
  Proof.
    destruct k; simpl; eapply sat_lift.
    - apply sat_conforming_sum.
    - apply sat_cwa.
    - apply sat_summarize_cell_values.
    - apply sat_base_replace.
    - apply sat_replace.
    - apply sat_select.
    - apply sat_derive_fields.
    - apply sat_add_statics.
    - apply sat_merge_cell_pair.
    - apply sat_overwrite_values.
    - apply sat_thin_cell.
    - apply sat_values_add.
    - apply sat_values_diff.
    - apply sat_to_cumulative_row.
    - apply sat_to_incremental_row.
    - apply sat_aggregate_group.
    - apply sat_weight_cell_values.
    - apply sat_policy_year_cell.
    - apply sat_blend_cells.
    - apply sat_blend_cells_linear.
  Qed.
End Kernels.

(* ------------------------------------------------------------------ the statements used by Props/C03.v *)
(* an outcome -- return or raise -- leaves every object of h untouched *)
Definition outcome_frame {A} (h : heap) (o : outcome A) : Prop :=
  match o with
  | Ret h' _ | Raise h' _ =>
      length h <= length h' /\ forall l, l < length h -> nth_error h' l = nth_error h l
  end.
Lemma sat_frame {A} h (m : M A) Q : sat h m Q -> outcome_frame h (m h).
Proof.
  intros H. specialize (H h (frozen_refl h)). unfold outcome_frame.
  destruct (m h); [destruct H as [F _]|]; exact F || exact H.
Qed.
Theorem kernels_frame : forall (c : cfg) (h : heap) (k : call), outcome_frame h (run c k h).
Proof. intros. eapply sat_frame. apply sat_run. Qed.

(* reachability from the arguments (the object graph), for the corollary in the property's words *)
Inductive reach (h : heap) : val -> loc -> Prop :=
| reach_self l : reach h (PRef l) l
| reach_dict l d k v m : nth_error h l = Some (ODict d) -> In (k, v) d -> reach h v m -> reach h (PRef l) m
| reach_cell l t vs m : nth_error h l = Some (OCell t vs) -> reach h vs m -> reach h (PRef l) m.
(* well-formed store: no dangling reference *)
Definition val_ok (n : nat) (v : val) : Prop := match v with PRef l => l < n | _ => True end.
Definition obj_ok (n : nat) (o : obj) : Prop :=
  match o with
  | OArr _ => True
  | ODict d => Forall (fun kv => val_ok n (snd kv)) d
  | OCell _ vs => val_ok n vs
  end.
Definition heap_ok (h : heap) : Prop := Forall (obj_ok (length h)) h.
Lemma reach_valid h v m : heap_ok h -> val_ok (length h) v -> reach h v m -> m < length h.
Proof.
  intros Hh Hv R. induction R; simpl in *; auto.
  - apply IHR. unfold heap_ok in Hh. rewrite Forall_forall in Hh.
    apply nth_error_In in H. specialize (Hh _ H). simpl in Hh. rewrite Forall_forall in Hh.
    apply (Hh (k, v)); auto.
  - apply IHR. unfold heap_ok in Hh. rewrite Forall_forall in Hh.
    apply nth_error_In in H. specialize (Hh _ H). simpl in Hh. auto.
Qed.
(* the values mentioned by a call *)
Definition defn_vals (d : defn) : list val := match d with DTag _ => [] | DValues v => [v] end.
Definition call_args (k : call) : list val :=
  match k with
  | KConformingSum vs => vs
  | KWeightedAverage vs ws => vs ++ ws
  | KSummarizeCellValues cells _ => cells
  | KBaseReplace _ self defs => self :: flat_map defn_vals defs
  | KReplace self defs => self :: flat_map defn_vals defs
  | KSelect self _ => [self]
  | KDeriveFields self defs => self :: map snd defs
  | KAddStatics self source _ => [self; source]
  | KMergeCellPair c1 c2 => [c1; c2]
  | KOverwriteValues c1 c2 _ => [c1; c2]
  | KThinCell cell _ => [cell]
  | KValuesAdd a b => [a; b]
  | KValuesDiff a b => [a; b]
  | KToCumulativeRow cells => cells
  | KToIncrementalRow cells => cells
  | KAggregateGroup _ cells _ => cells
  | KWeightCellValues cell _ => [cell]
  | KPolicyYearCell _ cells _ => cells
  | KBlendCells cells _ => cells
  | KBlendCellsLinear cells _ => cells
  end.
Theorem kernels_frame_reachable : forall (c : cfg) (h : heap) (k : call),
  heap_ok h -> Forall (val_ok (length h)) (call_args k) ->
  match run c k h with
  | Ret h' _ | Raise h' _ =>
      forall a l, In a (call_args k) -> reach h a l -> nth_error h' l = nth_error h l
  end.
Proof.
  intros c h k Hh Ha. pose proof (kernels_frame c h k) as F. unfold outcome_frame in F.
  destruct (run c k h) as [h1 r1|h1 e1]; destruct F as [_ F]; intros arg l Hin R; apply F;
    (eapply reach_valid; [exact Hh| |exact R]); rewrite Forall_forall in Ha; auto.
Qed.

(* ---------------------------------------------------------------- alias-graph predictions *)
Definition res_fresh (h : heap) (r : res) : Prop :=
  match r with
  | RVal v => fresh h v
  | RVals vs => Forall (fresh h) vs
  | RItems d => True
  | RNested ds => Forall (Forall (fun kv => fresh h (snd kv))) ds
  end.
(* kernels whose result is NEVER one of the argument objects (a number, None, or a new object) *)
Definition always_new (k : call) : bool :=
  match k with
  | KDeriveFields _ [] => false                         (* no definitions: returns self *)
  | KMergeCellPair PNone _ | KMergeCellPair _ PNone => false   (* returns the other cell itself *)
  | _ => true
  end.
Lemma sat_post {A} h (m : M A) (Q : A -> Prop) :
  sat h m Q -> match m h with Ret _ a => Q a | Raise _ _ => True end.
Proof. intros H. specialize (H h (frozen_refl h)). destruct (m h); [destruct H|]; auto. Qed.
Lemma lift_post {A} (f : A -> res) (m : M A) h (Q : res -> Prop) :
  match m h with Ret _ a => Q (f a) | Raise _ _ => True end ->
  match lift f m h with Ret _ r => Q r | Raise _ _ => True end.
Proof. unfold lift, mbind, ret. destruct (m h); auto. Qed.
Theorem alias_result_new : forall c h k, always_new k = true ->
  match run c k h with Ret _ r => res_fresh h r | Raise _ _ => True end.
Proof.
  intros c h k N. destruct k; simpl run; apply lift_post.
  - apply (sat_post h _ _ (sat_conforming_sum h values)).
  - apply (sat_post h _ _ (sat_cwa h c values weights)).
  - destruct (summarize_cell_values c cells summarize_premium h); simpl; auto.
  - apply (sat_post h _ _ (sat_base_replace h validate self defs)).
  - apply (sat_post h _ _ (sat_replace h self defs)).
  - apply (sat_post h _ _ (sat_select h self ks)).
  - pose proof (sat_post h _ _ (sat_derive_fields h self defs)) as P.
    destruct (derive_fields self defs h); auto. simpl. apply P. destruct defs; simpl in N; [discriminate N|intro E; discriminate E].
  - apply (sat_post h _ _ (sat_add_statics h self source fields)).
  - pose proof (sat_post h _ _ (sat_merge_cell_pair h c1 c2)) as P.
    destruct (merge_cell_pair c1 c2 h); auto. simpl. apply P; destruct c1, c2; simpl in N; congruence.
  - apply (sat_post h _ _ (sat_overwrite_values h c1 c2 suffix)).
  - apply (sat_post h _ _ (sat_thin_cell h cell ndxs)).
  - apply (sat_post h _ _ (sat_values_add h c cur next)).
  - apply (sat_post h _ _ (sat_values_diff h c prev next)).
  - apply (sat_post h _ _ (sat_to_cumulative_row h c cells)).
  - apply (sat_post h _ _ (sat_to_incremental_row h c cells)).
  - apply (sat_post h _ _ (sat_aggregate_group h c newtag cells summarize_premium)).
  - apply (sat_post h _ _ (sat_weight_cell_values h c cell weights)).
  - apply (sat_post h _ _ (sat_policy_year_cell h c tag cells shares)).
  - apply (sat_post h _ _ (sat_blend_cells h c cells picks)).
  - apply (sat_post h _ _ (sat_blend_cells_linear h c cells weights)).
Qed.
(* the cases where the result IS an argument object *)
Lemma alias_derive_fields_none self h : derive_fields self [] h = Ret h self.
Proof. reflexivity. Qed.
Lemma alias_merge_left_none c2 h : merge_cell_pair PNone c2 h = Ret h c2.
Proof. reflexivity. Qed.
Lemma alias_merge_right_none c1 h : c1 <> PNone -> merge_cell_pair c1 PNone h = Ret h c1.
Proof. intros H; destruct c1; try reflexivity; congruence. Qed.

(* entry level: what the new values dicts hold *)
Definition entry_spec_combine (h : heap) (dn : items) (kv : key * val) : Prop :=
  if (fst kv =? EP)%Z then dget EP dn = Some (snd kv) else fresh h (snd kv).
Theorem alias_values_combine : forall c op swap h a l dn,
  l < length h -> nth_error h l = Some (ODict dn) ->
  match values_combine c op swap a (PRef l) h with
  | Ret _ d => Forall (entry_spec_combine h dn) d
  | Raise _ _ => True
  end.
Proof.
  intros c op swap h a l dn Hl N.
  pose proof (sat_post h _ _ (sat_values_combine h c op swap a (PRef l))) as P.
  destruct (values_combine c op swap a (PRef l) h); auto. exact (P dn l eq_refl Hl N).
Qed.
Theorem alias_thin_entries : forall h ndxs d,
  match mapM (thin_value ndxs) d h with
  | Ret _ d' => Forall2 (fun kv kv' => kv' = kv \/ (fst kv' = fst kv /\ fresh h (snd kv'))) d d'
  | Raise _ _ => True
  end.
Proof.
  intros h ndxs d.
  exact (sat_post h _ _ (sat_mapM h (thin_value ndxs) _ (sat_thin_value h ndxs) d)).
Qed.
Theorem alias_summarize_new : forall c h cells,
  match summarize_cell_values c cells true h with
  | Ret _ d => Forall (fun kv => fresh h (snd kv)) d
  | Raise _ _ => True
  end.
Proof.
  intros c h cells. pose proof (sat_post h _ _ (sat_summarize_cell_values h c cells true)) as P.
  destruct (summarize_cell_values c cells true h); auto.
Qed.
Theorem alias_deepcopy_new : forall h v,
  match deepcopy_items v h with Ret _ d => Forall (fun kv => fresh h (snd kv)) d | Raise _ _ => True end.
Proof. intros. apply (sat_post h _ _ (sat_deepcopy_items h v)). Qed.

(* the new cell holds the SAME values object unless it is overridden (no validation, values not None) *)
Lemma pure_deref l h : deref l h = match nth_error h l with Some o => Ret h o | None => Raise h OtherError end.
Proof. reflexivity. Qed.
Theorem alias_base_replace_shares_values : forall h l t vs defs,
  nth_error h l = Some (OCell t vs) ->
  snd (fold_left apply_def defs (t, vs)) <> PNone ->
  base_replace false (PRef l) defs h =
    Ret (h ++ [OCell (fst (fold_left apply_def defs (t, vs))) (snd (fold_left apply_def defs (t, vs)))])
        (PRef (length h)).
Proof.
  intros h l t vs defs N NN. unfold base_replace, get_cell, mbind. rewrite pure_deref, N.
  unfold ret. destruct (fold_left apply_def defs (t, vs)) as [t' vs'] eqn:E. simpl in *.
  unfold new_cell, mbind, ret. destruct vs'; try congruence; reflexivity.
Qed.
