(** C14 -- NaN -> default and the reconstruction of the Metadata of a row: a row that carries the flat
    dict of [m] (attribute columns may be absent when the attribute is None everywhere) is read back
    as [fl_meta m]: same attributes, every number a float, details in enumeration order. *)
From Coq Require Import ZArith List Bool Lia ZifyBool.
From Bermuda Require Import Model.Base Model.Frame Proofs.FrameLib.
Import ListNotations.
Local Open Scope Z_scope.

Lemma get_attr_risk m : get c_risk_basis (attr_dict m) = ostr (risk_basis m).
Proof. reflexivity. Qed.
Lemma get_attr_country m : get c_country (attr_dict m) = ostr (country m).
Proof. reflexivity. Qed.
Lemma get_attr_currency m : get c_currency (attr_dict m) = ostr (currency m).
Proof. reflexivity. Qed.
Lemma get_attr_reins m : get c_reinsurance_basis (attr_dict m) = ostr (reinsurance_basis m).
Proof. reflexivity. Qed.
Lemma get_attr_lossdef m : get c_loss_definition (attr_dict m) = ostr (loss_definition m).
Proof. reflexivity. Qed.
Lemma get_attr_pol m : get c_pol (attr_dict m) = onum (per_occurrence_limit m).
Proof. reflexivity. Qed.

Lemma str_or_ostr o d : str_or (ostr o) d = match o with Some s => Some s | None => d end.
Proof. destruct o; reflexivity. Qed.
Lemma num_or_onum o : num_or (onum o) None = option_map fl_num o.
Proof. destruct o as [[f n]|]; reflexivity. Qed.

Lemma mval_roundtrip v : mval_ok v = true -> mval_of (tval_of_mval v) = Some (fl_mval v).
Proof. destruct v as [s|[f n]| | |]; cbn; try discriminate; reflexivity. Qed.

Lemma details_rebuilt (U : list str) (d : list (str * mval)) (r : row) :
  NoDup U -> ordered_in U (keys d) = true ->
  forallb (fun kv => mval_ok (snd kv)) d = true ->
  (forall n, In n U -> get n r = get n (tdict d)) ->
  details_of U r = fl_dict d.
Proof.
  intros ND Ho Hok Hget. unfold details_of, fl_dict.
  rewrite <- (rebuild_dict fl_mval U ND d (ordered_in_spec _ _ Ho)).
  apply flat_map_ext_in'. intros c Hc. rewrite (Hget c Hc). unfold get, tdict. rewrite assoc_map.
  destruct (assoc c d) as [v|] eqn:E; cbn; auto.
  rewrite mval_roundtrip; auto.
  rewrite forallb_forall in Hok.
  assert (Hin : In (c, v) d \/ True) by auto.
  clear Hin. revert E. clear -Hok. induction d as [|[k w] d IH]; cbn; [discriminate|].
  destruct (str_eqb c k).
  - intros E; inversion E; subst. apply (Hok (k, v)). cbn; auto.
  - intros E. apply IH; auto. intros x Hx. apply Hok. cbn; auto.
Qed.

Theorem meta_rebuilt (m : meta) (r : row) (dn ln : list str) :
  meta_ok m = true -> NoDup dn -> NoDup ln ->
  ordered_in dn (keys (details m)) = true -> ordered_in ln (keys (loss_details m)) = true ->
  (forall n, In n meta_col_names -> get n r = get n (attr_dict m)) ->
  (forall n, In n dn -> get n r = get n (tdict (details m))) ->
  (forall n, In n ln -> get n r = get n (tdict (loss_details m))) ->
  meta_of_row dn ln r = fl_meta m.
Proof.
  intros Hok NDd NDl Od Ol Ha Hd Hl.
  unfold meta_ok in Hok. apply andb_prop in Hok as [Hok Hokl]. apply andb_prop in Hok as [Hrb Hokd].
  unfold meta_of_row, fl_meta.
  rewrite (Ha c_risk_basis), (Ha c_country), (Ha c_currency), (Ha c_reinsurance_basis),
          (Ha c_loss_definition), (Ha c_pol) by (cbn; auto 10).
  rewrite get_attr_risk, get_attr_country, get_attr_currency, get_attr_reins, get_attr_lossdef, get_attr_pol.
  rewrite !str_or_ostr, num_or_onum.
  rewrite (details_rebuilt dn (details m) r), (details_rebuilt ln (loss_details m) r); auto.
  destruct (risk_basis m); [|discriminate].
  destruct (country m), (currency m), (reinsurance_basis m), (loss_definition m); reflexivity.
Qed.
