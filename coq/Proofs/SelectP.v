(** C11 -- lemmas about Model/Select.v.  (statements fixed by wp-join; all proved, no axioms) *)
From Coq Require Import ZArith List Bool Lia ZifyBool Permutation Sorted RelationClasses.
From Bermuda Require Import Model.Base Lib.Calendar Model.Select.
Import ListNotations.
Local Open Scope Z_scope.

(* ================================================================ generic list helpers *)
Lemma existsb_false_forall : forall {A} (f : A -> bool) l,
  existsb f l = false -> forall x, In x l -> f x = false.
Proof.
  intros A f l H x Hx. destruct (f x) eqn:E; [|reflexivity].
  assert (existsb f l = true) by (apply existsb_exists; exists x; split; assumption).
  congruence.
Qed.

Lemma filter_nil_forall : forall {A} (p : A -> bool) l,
  (forall x, In x l -> p x = false) -> filter p l = [].
Proof.
  intros A p l. induction l as [|a l IH]; intros H; cbn [filter]; [reflexivity|].
  rewrite (H a (or_introl eq_refl)). apply IH. intros x Hx. apply H. right. exact Hx.
Qed.

Lemma filter_filter : forall {A} (p q : A -> bool) l,
  filter p (filter q l) = filter (fun x => q x && p x) l.
Proof.
  intros A p q l. induction l as [|a l IH]; cbn [filter]; [reflexivity|].
  destruct (q a); cbn [filter andb].
  - destruct (p a); rewrite IH; reflexivity.
  - exact IH.
Qed.

Lemma filter_map_comm : forall {A B} (f : A -> B) (p : B -> bool) l,
  filter p (map f l) = map f (filter (fun x => p (f x)) l).
Proof.
  intros A B f p l. induction l as [|a l IH]; cbn [filter map]; [reflexivity|].
  destruct (p (f a)); cbn [map]; rewrite IH; reflexivity.
Qed.

Lemma forallb_same_set : forall {A} (f : A -> bool) l1 l2,
  (forall x, In x l1 <-> In x l2) -> forallb f l1 = forallb f l2.
Proof.
  intros A f l1 l2 H. destruct (forallb f l1) eqn:E1, (forallb f l2) eqn:E2; try reflexivity.
  - assert (forallb f l2 = true); [|congruence].
    rewrite forallb_forall in E1. apply forallb_forall. intros x Hx. apply E1, H, Hx.
  - assert (forallb f l1 = true); [|congruence].
    rewrite forallb_forall in E2. apply forallb_forall. intros x Hx. apply E2, H, Hx.
Qed.

Lemma max_exists : forall {A} (f : A -> Z) (p : A -> bool) l,
  (exists c, In c l /\ p c = true) ->
  exists y, In y l /\ p y = true /\ forall x, In x l -> p x = true -> f x <= f y.
Proof.
  intros A f p l. induction l as [|a l IH]; intros [c [Hc Hp]]; [destruct Hc|].
  destruct (existsb p l) eqn:E.
  - apply existsb_exists in E. destruct (IH E) as [y [Hy [Hpy Hmax]]].
    destruct (p a) eqn:Ea.
    + destruct (Z_le_gt_dec (f a) (f y)) as [Hle|Hgt].
      * exists y. split; [right; exact Hy|]. split; [exact Hpy|].
        intros x [<-|Hx] Hpx; [exact Hle|apply Hmax; assumption].
      * exists a. split; [left; reflexivity|]. split; [exact Ea|].
        intros x [<-|Hx] Hpx; [lia|]. specialize (Hmax x Hx Hpx). lia.
    + exists y. split; [right; exact Hy|]. split; [exact Hpy|].
      intros x [<-|Hx] Hpx; [congruence|apply Hmax; assumption].
  - assert (Hall := existsb_false_forall p l E). destruct Hc as [<-|Hc].
    + exists a. split; [left; reflexivity|]. split; [exact Hp|].
      intros x [<-|Hx] Hpx; [lia|]. rewrite (Hall x Hx) in Hpx. discriminate.
    + rewrite (Hall c Hc) in Hp. discriminate.
Qed.

Lemma bool_sym_from_norm : forall {A B} (f : A -> A -> bool) (n : A -> B),
  (forall a b, f a b = true <-> n a = n b) -> forall a b, f a b = f b a.
Proof.
  intros A B f n H a b. destruct (f a b) eqn:E1, (f b a) eqn:E2; try reflexivity.
  - apply H in E1. symmetry in E1. apply H in E1. congruence.
  - apply H in E2. symmetry in E2. apply H in E2. congruence.
Qed.

(* ================================================================ sublists *)
Inductive sublist {A} : list A -> list A -> Prop :=
| sub_nil : forall l, sublist [] l
| sub_skip : forall x l1 l2, sublist l1 l2 -> sublist l1 (x :: l2)
| sub_keep : forall x l1 l2, sublist l1 l2 -> sublist (x :: l1) (x :: l2).

Lemma filter_sublist : forall {A} (p : A -> bool) l, sublist (filter p l) l.
Proof.
  intros A p l. induction l as [|x l IH]; cbn [filter]; [constructor|].
  destruct (p x); [apply sub_keep|apply sub_skip]; exact IH.
Qed.

Lemma sublist_In : forall {A} (l1 l2 : list A) x, sublist l1 l2 -> In x l1 -> In x l2.
Proof.
  intros A l1 l2 x H. induction H as [l|y l1 l2 H IH|y l1 l2 H IH]; intros Hin.
  - destruct Hin.
  - right. apply IH. exact Hin.
  - destruct Hin as [->|Hin]; [left; reflexivity|right; apply IH; exact Hin].
Qed.

Lemma sublist_length : forall {A} (l1 l2 : list A), sublist l1 l2 -> (length l1 <= length l2)%nat.
Proof.
  intros A l1 l2 H. induction H; cbn [length]; lia.
Qed.

Lemma sublist_Forall : forall {A} (P : A -> Prop) l1 l2, sublist l1 l2 -> Forall P l2 -> Forall P l1.
Proof.
  intros A P l1 l2 H HF. rewrite Forall_forall in *. intros x Hx. apply HF.
  eapply sublist_In; eassumption.
Qed.

Lemma sublist_StronglySorted : forall {A} (R : A -> A -> Prop) l1 l2,
  sublist l1 l2 -> StronglySorted R l2 -> StronglySorted R l1.
Proof.
  intros A R l1 l2 H. induction H as [l|y l1 l2 H IH|y l1 l2 H IH]; intros HS.
  - constructor.
  - apply IH. inversion HS; assumption.
  - inversion HS as [|? ? HS' HF]; subst. constructor.
    + apply IH. exact HS'.
    + eapply sublist_Forall; eassumption.
Qed.

Lemma sublist_Sorted : forall {A} (R : A -> A -> Prop), Transitive R -> forall l1 l2,
  sublist l1 l2 -> Sorted R l2 -> Sorted R l1.
Proof.
  intros A R HT l1 l2 H HS. apply StronglySorted_Sorted.
  eapply sublist_StronglySorted; [exact H|]. apply Sorted_StronglySorted; assumption.
Qed.

Lemma sublist_refl : forall {A} (l : list A), sublist l l.
Proof. intros A l. induction l; constructor; assumption. Qed.

Lemma sublist_trans : forall {A} (l1 l2 l3 : list A), sublist l1 l2 -> sublist l2 l3 -> sublist l1 l3.
Proof.
  intros A l1 l2 l3 H12 H23. revert l1 H12.
  induction H23 as [l|y l2 l3 H IH|y l2 l3 H IH]; intros l1 H12.
  - inversion H12; subst. constructor.
  - constructor. apply IH. exact H12.
  - inversion H12; subst.
    + apply sub_nil.
    + apply sub_skip. apply IH. assumption.
    + apply sub_keep. apply IH. assumption.
Qed.

Lemma sublist_filter : forall {A} (p : A -> bool) l1 l2,
  sublist l1 l2 -> (forall x, In x l1 -> p x = true) -> sublist l1 (filter p l2).
Proof.
  intros A p l1 l2 H. induction H as [l|y l1 l2 H IH|y l1 l2 H IH]; intros Hp.
  - constructor.
  - cbn [filter]. destruct (p y); [apply sub_skip|]; apply IH; exact Hp.
  - cbn [filter]. rewrite (Hp y (or_introl eq_refl)). apply sub_keep. apply IH.
    intros x Hx. apply Hp. right. exact Hx.
Qed.

Lemma sublist_same_length : forall {A} (l1 l2 : list A),
  sublist l1 l2 -> length l1 = length l2 -> l1 = l2.
Proof.
  intros A l1 l2 H. induction H as [l|y l1 l2 H IH|y l1 l2 H IH]; cbn [length]; intros HL.
  - destruct l; [reflexivity|discriminate].
  - apply sublist_length in H. lia.
  - f_equal. apply IH. lia.
Qed.

Lemma firstn_sublist : forall {A} n (l : list A), sublist (firstn n l) l.
Proof.
  intros A n. induction n as [|n IH]; intros l; cbn [firstn]; [apply sub_nil|].
  destruct l; [apply sub_nil|apply sub_keep; apply IH].
Qed.

Lemma skipn_sublist : forall {A} n (l : list A), sublist (skipn n l) l.
Proof.
  intros A n. induction n as [|n IH]; intros l; cbn [skipn]; [apply sublist_refl|].
  destruct l; [apply sub_nil|apply sub_skip; apply IH].
Qed.

(* ================================================================ reflection of the strict equalities *)
Lemma list_eqb_eq : forall {A} (eqb : A -> A -> bool),
  (forall a b, eqb a b = true <-> a = b) ->
  forall l1 l2, list_eqb eqb l1 l2 = true <-> l1 = l2.
Proof.
  intros A eqb H. induction l1 as [|a l1 IH]; intros [|b l2]; cbn [list_eqb];
    split; intros E; try discriminate E; try reflexivity.
  - apply andb_true_iff in E. destruct E as [E1 E2]. apply H in E1. apply IH in E2.
    subst. reflexivity.
  - inversion E; subst. apply andb_true_iff. split; [apply H|apply IH]; reflexivity.
Qed.

Lemma opt_eqb_eq : forall {A} (eqb : A -> A -> bool),
  (forall a b, eqb a b = true <-> a = b) ->
  forall x y, opt_eqb eqb x y = true <-> x = y.
Proof.
  intros A eqb H [x|] [y|]; cbn [opt_eqb]; split; intros E; try discriminate E; try reflexivity.
  - apply H in E. subst. reflexivity.
  - inversion E; subst. apply H. reflexivity.
Qed.

Lemma pair_eqb_eq : forall {A B} (ea : A -> A -> bool) (eb : B -> B -> bool),
  (forall a b, ea a b = true <-> a = b) -> (forall a b, eb a b = true <-> a = b) ->
  forall x y, pair_eqb ea eb x y = true <-> x = y.
Proof.
  intros A B ea eb Ha Hb [x1 x2] [y1 y2]. unfold pair_eqb. cbn [fst snd].
  rewrite andb_true_iff, Ha, Hb.
  split; [intros [-> ->]; reflexivity|intros E; inversion E; auto].
Qed.

Lemma str_eqb_eq : forall a b, str_eqb a b = true <-> a = b.
Proof. exact (list_eqb_eq Z.eqb Z.eqb_eq). Qed.

Lemma num_seqb_eq : forall a b, num_seqb a b = true <-> a = b.
Proof.
  intros [f n] [g m]. unfold num_seqb. cbn [num_isf num_n].
  rewrite andb_true_iff, Bool.eqb_true_iff, Z.eqb_eq.
  split; [intros [-> ->]; reflexivity|intros E; inversion E; auto].
Qed.

Ltac refl_case lem E :=
  first [ apply (proj1 (lem _ _)) in E; subst; reflexivity
        | inversion E; subst; apply (proj2 (lem _ _)); reflexivity ].

Lemma mval_seqb_eq : forall a b, mval_seqb a b = true <-> a = b.
Proof.
  intros [s|x|b|d|] [s'|x'|b'|d'|]; cbn [mval_seqb]; split; intros E;
    try discriminate E; try reflexivity.
  - refl_case str_eqb_eq E.
  - refl_case str_eqb_eq E.
  - refl_case num_seqb_eq E.
  - refl_case num_seqb_eq E.
  - refl_case Bool.eqb_true_iff E.
  - refl_case Bool.eqb_true_iff E.
  - refl_case Z.eqb_eq E.
  - refl_case Z.eqb_eq E.
Qed.

Lemma value_seqb_eq : forall a b, value_seqb a b = true <-> a = b.
Proof.
  intros [x| |f xs] [y| |g ys]; cbn [value_seqb]; split; intros E;
    try discriminate E; try reflexivity.
  - refl_case num_seqb_eq E.
  - refl_case num_seqb_eq E.
  - apply andb_true_iff in E. destruct E as [E1 E2]. apply (proj1 (Bool.eqb_true_iff _ _)) in E1.
    apply (proj1 (list_eqb_eq Z.eqb Z.eqb_eq _ _)) in E2. subst. reflexivity.
  - inversion E; subst. apply andb_true_iff. split.
    + apply Bool.eqb_true_iff. reflexivity.
    + apply (list_eqb_eq Z.eqb Z.eqb_eq). reflexivity.
Qed.

Lemma kind_eqb_eq : forall a b, kind_eqb a b = true <-> a = b.
Proof. intros [] []; cbn [kind_eqb]; split; intros E; try discriminate E; reflexivity. Qed.

Lemma opt_str_eqb_eq : forall a b, opt_eqb str_eqb a b = true <-> a = b.
Proof. exact (opt_eqb_eq str_eqb str_eqb_eq). Qed.
Lemma opt_num_seqb_eq : forall a b, opt_eqb num_seqb a b = true <-> a = b.
Proof. exact (opt_eqb_eq num_seqb num_seqb_eq). Qed.
Lemma opt_Z_eqb_eq : forall a b, opt_eqb Z.eqb a b = true <-> a = b.
Proof. exact (opt_eqb_eq Z.eqb Z.eqb_eq). Qed.
Lemma details_eqb_eq : forall a b, list_eqb (pair_eqb str_eqb mval_seqb) a b = true <-> a = b.
Proof. exact (list_eqb_eq _ (pair_eqb_eq _ _ str_eqb_eq mval_seqb_eq)). Qed.
Lemma vals_eqb_eq : forall a b, list_eqb (pair_eqb str_eqb value_seqb) a b = true <-> a = b.
Proof. exact (list_eqb_eq _ (pair_eqb_eq _ _ str_eqb_eq value_seqb_eq)). Qed.

Lemma meta_seqb_eq : forall a b, meta_seqb a b = true <-> a = b.
Proof.
  intros [a1 a2 a3 a4 a5 a6 a7 a8] [b1 b2 b3 b4 b5 b6 b7 b8]. unfold meta_seqb.
  cbn [risk_basis country currency reinsurance_basis loss_definition per_occurrence_limit
       details loss_details].
  rewrite !andb_true_iff, !opt_str_eqb_eq, opt_num_seqb_eq, !details_eqb_eq.
  split.
  - intros [[[[[[[-> ->] ->] ->] ->] ->] ->] ->]. reflexivity.
  - intros E. inversion E; subst. repeat split.
Qed.

Lemma cell_seqb_eq : forall a b, cell_seqb a b = true <-> a = b.
Proof.
  intros [a1 a2 a3 a4 a5 a6 a7] [b1 b2 b3 b4 b5 b6 b7]. unfold cell_seqb.
  cbn [ckind ps pe ev prev cmeta cvals].
  rewrite !andb_true_iff, kind_eqb_eq, !Z.eqb_eq, opt_Z_eqb_eq, meta_seqb_eq, vals_eqb_eq.
  split.
  - intros [[[[[[-> ->] ->] ->] ->] ->] ->]. reflexivity.
  - intros E. inversion E; subst. repeat split.
Qed.

(* ================================================================ Python == is an equivalence *)
Lemma meta_pyeq_iff : forall a b, meta_pyeq a b = true <-> meta_norm a = meta_norm b.
Proof. intros a b. unfold meta_pyeq. apply meta_seqb_eq. Qed.

Lemma meta_pyeq_refl : forall a, meta_pyeq a a = true.
Proof. intros a. apply meta_pyeq_iff. reflexivity. Qed.
Lemma meta_pyeq_sym : forall a b, meta_pyeq a b = meta_pyeq b a.
Proof. exact (bool_sym_from_norm meta_pyeq meta_norm meta_pyeq_iff). Qed.
Lemma meta_pyeq_trans : forall a b c, meta_pyeq a b = true -> meta_pyeq b c = true -> meta_pyeq a c = true.
Proof.
  intros a b c H1 H2. apply meta_pyeq_iff in H1. apply meta_pyeq_iff in H2.
  apply meta_pyeq_iff. congruence.
Qed.

Lemma same_period_iff : forall a b, same_period a b = true <-> (ps a, pe a) = (ps b, pe b).
Proof.
  intros a b. unfold same_period. rewrite andb_true_iff, !Z.eqb_eq.
  split; [intros [-> ->]; reflexivity|intros E; inversion E; auto].
Qed.

Lemma same_row_iff : forall a b, same_row a b = true <->
  (meta_norm (cmeta a), (ps a, pe a)) = (meta_norm (cmeta b), (ps b, pe b)).
Proof.
  intros a b. unfold same_row. rewrite andb_true_iff, meta_pyeq_iff, same_period_iff.
  split; [intros [-> ->]; reflexivity|intros E; split; congruence].
Qed.

Lemma same_row_refl : forall a, same_row a a = true.
Proof. intros a. apply same_row_iff. reflexivity. Qed.
Lemma same_row_sym : forall a b, same_row a b = same_row b a.
Proof.
  exact (bool_sym_from_norm same_row (fun c => (meta_norm (cmeta c), (ps c, pe c))) same_row_iff).
Qed.
Lemma same_row_trans : forall a b c, same_row a b = true -> same_row b c = true -> same_row a c = true.
Proof.
  intros a b c H1 H2. apply same_row_iff in H1. apply same_row_iff in H2.
  apply same_row_iff. congruence.
Qed.

Lemma mval_pyeq_iff : forall a b, mval_pyeq a b = true <-> mval_norm a = mval_norm b.
Proof. intros a b. unfold mval_pyeq. apply mval_seqb_eq. Qed.

Lemma detail_key_eqb_iff : forall a b,
  detail_key_eqb a b = true <-> map mval_norm a = map mval_norm b.
Proof.
  unfold detail_key_eqb. induction a as [|x a IH]; intros [|y b]; cbn [list_eqb map];
    split; intros E; try discriminate E; try reflexivity.
  - apply andb_true_iff in E. destruct E as [E1 E2]. apply mval_pyeq_iff in E1.
    apply IH in E2. congruence.
  - inversion E as [[E1 E2]]. apply andb_true_iff. split; [apply mval_pyeq_iff|apply IH]; assumption.
Qed.

Lemma detail_key_eqb_refl : forall a, detail_key_eqb a a = true.
Proof. intros a. apply detail_key_eqb_iff. reflexivity. Qed.
Lemma detail_key_eqb_sym : forall a b, detail_key_eqb a b = detail_key_eqb b a.
Proof. exact (bool_sym_from_norm detail_key_eqb (map mval_norm) detail_key_eqb_iff). Qed.
Lemma detail_key_eqb_trans : forall a b c,
  detail_key_eqb a b = true -> detail_key_eqb b c = true -> detail_key_eqb a c = true.
Proof.
  intros a b c H1 H2. apply detail_key_eqb_iff in H1. apply detail_key_eqb_iff in H2.
  apply detail_key_eqb_iff. congruence.
Qed.

(* ================================================================ clip *)
Lemma bound_eqb_eq : forall a b, bound_eqb a b = true <-> a = b.
Proof. intros [] []; cbn [bound_eqb]; split; intros E; try discriminate E; reflexivity. Qed.
Lemma cattr_eqb_eq : forall a b, cattr_eqb a b = true <-> a = b.
Proof. intros [] []; cbn [cattr_eqb]; split; intros E; try discriminate E; reflexivity. Qed.
Lemma cmp_op_eqb_eq : forall a b, cmp_op_eqb a b = true <-> a = b.
Proof. intros [] []; cbn [cmp_op_eqb]; split; intros E; try discriminate E; reflexivity. Qed.
Lemma guard_eqb_eq : forall a b, guard_eqb a b = true <-> a = b.
Proof. intros [] []; cbn [guard_eqb]; split; intros E; try discriminate E; reflexivity. Qed.
Lemma dflt_eqb_eq : forall a b, dflt_eqb a b = true <-> a = b.
Proof. intros [] []; cbn [dflt_eqb]; split; intros E; try discriminate E; reflexivity. Qed.

Lemma clip_entry_eqb_eq : forall a b, clip_entry_eqb a b = true <-> a = b.
Proof.
  intros [[[b1 a1] o1] g1] [[[b2 a2] o2] g2]. unfold clip_entry_eqb.
  rewrite !andb_true_iff, bound_eqb_eq, cattr_eqb_eq, cmp_op_eqb_eq, guard_eqb_eq.
  split; [intros [[[-> ->] ->] ->]; reflexivity|intros E; inversion E; auto].
Qed.

Lemma clip_spec_ok_In : forall s, clip_spec_ok s = true ->
  forall e, In e s <-> In e expected_clip_spec.
Proof.
  intros s H e. unfold clip_spec_ok in H. rewrite !andb_true_iff in H.
  destruct H as [[_ H1] H2]. rewrite forallb_forall in H1, H2. split; intros Hin.
  - apply H2 in Hin. apply existsb_exists in Hin. destruct Hin as [e' [Hin E]].
    apply clip_entry_eqb_eq in E. subst. exact Hin.
  - apply H1 in Hin. apply existsb_exists in Hin. destruct Hin as [e' [Hin E]].
    apply clip_entry_eqb_eq in E. subst. exact Hin.
Qed.

Lemma clip_pred_inclusive : forall s a c, clip_spec_ok s = true -> clip_pred s a c = inclusive_pred a c.
Proof.
  intros s a c H. unfold clip_pred.
  rewrite (forallb_same_set _ s expected_clip_spec (clip_spec_ok_In s H)).
  unfold expected_clip_spec, inclusive_pred, opt_le, opt_ge.
  cbn [forallb entry_pred bound_val guard_holds attr_val cmp].
  rewrite andb_true_r, !andb_assoc. reflexivity.
Qed.

Lemma clip_is_filter : forall s a t, clip_spec_ok s = true -> clip s a t = filter (inclusive_pred a) t.
Proof.
  intros s a t H. unfold clip. apply filter_ext. intros c. apply clip_pred_inclusive. exact H.
Qed.

Lemma clip_sublist : forall s a t, sublist (clip s a t) t.
Proof. intros s a t. unfold clip. apply filter_sublist. Qed.

Lemma opt_le_iff : forall o x, opt_le o x = true <-> (forall d, o = Some d -> d <= x).
Proof.
  intros [l|] x; cbn [opt_le]; split; intros H.
  - intros d E. inversion E; subst. lia.
  - specialize (H l eq_refl). lia.
  - intros d E. discriminate E.
  - reflexivity.
Qed.
Lemma opt_ge_iff : forall o x, opt_ge o x = true <-> (forall d, o = Some d -> x <= d).
Proof.
  intros [l|] x; cbn [opt_ge]; split; intros H.
  - intros d E. inversion E; subst. lia.
  - specialize (H l eq_refl). lia.
  - intros d E. discriminate E.
  - reflexivity.
Qed.
Lemma opt_le_num_iff : forall o x,
  opt_le (option_map num_n o) x = true <-> (forall n, o = Some n -> num_n n <= x).
Proof.
  intros [l|] x; cbn [opt_le option_map]; split; intros H.
  - intros d E. inversion E; subst. lia.
  - specialize (H l eq_refl). lia.
  - intros d E. discriminate E.
  - reflexivity.
Qed.
Lemma opt_ge_num_iff : forall o x,
  opt_ge (option_map num_n o) x = true <-> (forall n, o = Some n -> x <= num_n n).
Proof.
  intros [l|] x; cbn [opt_ge option_map]; split; intros H.
  - intros d E. inversion E; subst. lia.
  - specialize (H l eq_refl). lia.
  - intros d E. discriminate E.
  - reflexivity.
Qed.

(* every given bound is inclusive, bounds combine conjunctively, nothing else is removed *)
Lemma clip_in_iff : forall s a t c, clip_spec_ok s = true ->
  (In c (clip s a t) <->
   In c t
   /\ (forall d, min_eval a = Some d -> d <= ev c) /\ (forall d, max_eval a = Some d -> ev c <= d)
   /\ (forall d, min_period a = Some d -> d <= ps c) /\ (forall d, max_period a = Some d -> pe c <= d)
   /\ (forall x, min_dev a = Some x -> num_n x <= 1024 * dev_lag (dev_unit a) c)
   /\ (forall x, max_dev a = Some x -> 1024 * dev_lag (dev_unit a) c <= num_n x)).
Proof.
  intros s a t c H. rewrite (clip_is_filter s a t H), filter_In. unfold inclusive_pred.
  rewrite !andb_true_iff, !opt_le_num_iff, !opt_ge_num_iff, !opt_le_iff, !opt_ge_iff.
  tauto.
Qed.

(* month ids 0..1571 = 1970-01 .. 2100-12 *)
Lemma month_id_check_ok :
  forallb (fun i => month_id (month_end i) =? i) (map Z.of_nat (seq 0 1572)) = true.
Proof. vm_compute. reflexivity. Qed.

Lemma in_month_range : forall i, 0 <= i <= 1571 -> In i (map Z.of_nat (seq 0 1572)).
Proof.
  intros i Hi. apply in_map_iff. exists (Z.to_nat i). split; [lia|]. apply in_seq. lia.
Qed.

Lemma month_id_month_end_bounded : forall i, 0 <= i <= 1571 -> month_id (month_end i) = i.
Proof.
  intros i Hi. apply Z.eqb_eq.
  apply (proj1 (forallb_forall _ _) month_id_check_ok i). apply in_month_range. exact Hi.
Qed.

Lemma lag_months_month_ends : forall a b, 0 <= a <= 1571 -> 0 <= b <= 1571 ->
  lag_months (month_end a) (month_end b) = b - a.
Proof.
  intros a b Ha Hb. unfold lag_months.
  rewrite (month_id_month_end_bounded a Ha), (month_id_month_end_bounded b Hb). reflexivity.
Qed.

(* ================================================================ partitions *)
Lemma filter_partition : forall {A} (p : A -> bool) l,
  Permutation l (filter p l ++ filter (fun x => negb (p x)) l).
Proof.
  intros A p l. induction l as [|a l IH]; cbn [filter]; [constructor|].
  destruct (p a); cbn [negb app].
  - apply perm_skip. exact IH.
  - apply Permutation_cons_app. exact IH.
Qed.

Lemma filter_partition2 : forall {A} (p q r : A -> bool) l,
  (forall x, p x = true -> (q x = negb (r x))) -> (forall x, q x = true -> p x = true) ->
  (forall x, r x = true -> p x = true) ->
  Permutation (filter p l) (filter q l ++ filter r l).
Proof.
  intros A p q r l Hpq Hq Hr. induction l as [|a l IH]; cbn [filter]; [constructor|].
  specialize (Hpq a). specialize (Hq a). specialize (Hr a).
  destruct (p a) eqn:Ep, (q a) eqn:Eq, (r a) eqn:Er; cbn [app];
    try (specialize (Hpq eq_refl); discriminate Hpq);
    try (specialize (Hq eq_refl); discriminate Hq);
    try (specialize (Hr eq_refl); discriminate Hr).
  - apply perm_skip. exact IH.
  - apply Permutation_cons_app. exact IH.
  - exact IH.
Qed.

(* complementary evaluation-date clips: max_eval = d  versus  min_eval = d+1, other bounds shared *)
Lemma clip_eval_partition : forall s a t d, clip_spec_ok s = true ->
  min_eval a = None -> max_eval a = None ->
  Permutation (clip s a t)
              (clip s (with_bound a BMaxEval (Some d)) t ++ clip s (with_bound a BMinEval (Some (d + 1))) t)
  /\ (forall c, ~ (In c (clip s (with_bound a BMaxEval (Some d)) t)
                   /\ In c (clip s (with_bound a BMinEval (Some (d + 1))) t))).
Proof.
  intros s a t d H Hmin Hmax. rewrite !(clip_is_filter s _ t H).
  destruct a as [me Me mp Mp md Md u]. cbn [min_eval max_eval] in Hmin, Hmax. subst me Me.
  cbn [with_bound min_eval max_eval min_period max_period min_dev max_dev dev_unit].
  split.
  - apply filter_partition2; intros x; unfold inclusive_pred;
      cbn [min_eval max_eval min_period max_period min_dev max_dev dev_unit opt_le opt_ge];
      destruct (opt_le mp (ps x)), (opt_ge Mp (pe x)),
               (opt_le (option_map num_n md) _), (opt_ge (option_map num_n Md) _);
      cbn [andb]; lia.
  - intros c [H1 H2]. apply filter_In in H1, H2. destruct H1 as [_ H1], H2 as [_ H2].
    unfold inclusive_pred in H1, H2.
    cbn [min_eval max_eval min_period max_period min_dev max_dev dev_unit opt_le opt_ge] in H1, H2.
    rewrite !andb_true_iff in H1, H2. lia.
Qed.

(* complementary development-lag clips with integer lags k / k+1 *)
Lemma clip_dev_partition : forall s a t k, clip_spec_ok s = true ->
  min_dev a = None -> max_dev a = None ->
  Permutation (clip s a t)
              (clip s (with_bound a BMaxDev (Some (1024 * k))) t
               ++ clip s (with_bound a BMinDev (Some (1024 * (k + 1)))) t)
  /\ (forall c, ~ (In c (clip s (with_bound a BMaxDev (Some (1024 * k))) t)
                   /\ In c (clip s (with_bound a BMinDev (Some (1024 * (k + 1)))) t))).
Proof.
  intros s a t k H Hmin Hmax. rewrite !(clip_is_filter s _ t H).
  destruct a as [me Me mp Mp md Md u]. cbn [min_dev max_dev] in Hmin, Hmax. subst md Md.
  cbn [with_bound min_eval max_eval min_period max_period min_dev max_dev dev_unit option_map].
  split.
  - apply filter_partition2; intros x; unfold inclusive_pred;
      cbn [min_eval max_eval min_period max_period min_dev max_dev dev_unit opt_le opt_ge
           option_map num_n];
      destruct (opt_le me (ev x)), (opt_ge Me (ev x)), (opt_le mp (ps x)), (opt_ge Mp (pe x));
      cbn [andb]; lia.
  - intros c [H1 H2]. apply filter_In in H1, H2. destruct H1 as [_ H1], H2 as [_ H2].
    unfold inclusive_pred in H1, H2.
    cbn [min_eval max_eval min_period max_period min_dev max_dev dev_unit opt_le opt_ge
         option_map num_n] in H1, H2.
    rewrite !andb_true_iff in H1, H2. lia.
Qed.

(* ================================================================ groupby: slices, split *)
Lemma FOP_map : forall {A B} (f : A -> B) (R : B -> B -> Prop) l,
  ForallOrdPairs (fun a b => R (f a) (f b)) l -> ForallOrdPairs R (map f l).
Proof.
  intros A B f R l H. induction H as [|a l HF H IH]; cbn [map]; constructor; [|exact IH].
  rewrite Forall_forall in *. intros y Hy. apply in_map_iff in Hy.
  destruct Hy as [x [<- Hx]]. apply HF. exact Hx.
Qed.

Section GroupByP.
  Context {K : Type} (keqb : K -> K -> bool) (key : cell -> K).
  Hypothesis keqb_refl : forall a, keqb a a = true.
  Hypothesis keqb_sym : forall a b, keqb a b = keqb b a.
  Hypothesis keqb_trans : forall a b c, keqb a b = true -> keqb b c = true -> keqb a c = true.

  (* --- invariants of distinct_keys *)
  Lemma dk_in : forall l seen k, In k (distinct_keys keqb seen l) -> In k l.
  Proof.
    induction l as [|a l IH]; intros seen k H; cbn [distinct_keys] in H; [destruct H|].
    destruct (existsb (fun s => keqb s a) seen).
    - right. eapply IH. exact H.
    - destruct H as [<-|H]; [left; reflexivity|right; eapply IH; exact H].
  Qed.

  Lemma dk_notseen : forall l seen k, In k (distinct_keys keqb seen l) ->
    forall s, In s seen -> keqb s k = false.
  Proof.
    induction l as [|a l IH]; intros seen k H s Hs; cbn [distinct_keys] in H; [destruct H|].
    destruct (existsb (fun s => keqb s a) seen) eqn:E.
    - eapply IH; eassumption.
    - destruct H as [<-|H].
      + exact (existsb_false_forall _ _ E s Hs).
      + eapply IH; [exact H|right; exact Hs].
  Qed.

  Lemma dk_distinct : forall l seen,
    ForallOrdPairs (fun a b => keqb a b = false) (distinct_keys keqb seen l).
  Proof.
    induction l as [|a l IH]; intros seen; cbn [distinct_keys]; [constructor|].
    destruct (existsb (fun s => keqb s a) seen); [apply IH|].
    constructor; [|apply IH]. apply Forall_forall. intros b Hb.
    eapply dk_notseen; [exact Hb|left; reflexivity].
  Qed.

  Lemma dk_cover : forall l seen k, In k l ->
    existsb (fun s => keqb s k) seen = true
    \/ exists k', In k' (distinct_keys keqb seen l) /\ keqb k' k = true.
  Proof.
    induction l as [|a l IH]; intros seen k Hk; [destruct Hk|].
    cbn [distinct_keys]. destruct (existsb (fun s => keqb s a) seen) eqn:E.
    - destruct Hk as [<-|Hk]; [left; exact E|]. apply IH. exact Hk.
    - destruct Hk as [<-|Hk].
      + right. exists a. split; [left; reflexivity|apply keqb_refl].
      + destruct (IH (a :: seen) k Hk) as [H|[k' [Hk' Hkk]]].
        * cbn [existsb] in H. destruct (keqb a k) eqn:Ea.
          -- right. exists a. split; [left; reflexivity|exact Ea].
          -- left. exact H.
        * right. exists k'. split; [right; exact Hk'|exact Hkk].
  Qed.

  (* --- a list of pairwise inequivalent keys: at most one matches *)
  Definition gb_distinct (ks : list K) : Prop := ForallOrdPairs (fun a b => keqb a b = false) ks.

  Lemma distinct_head_only : forall a l x, gb_distinct (a :: l) -> keqb a x = true ->
    forall b, In b l -> keqb b x = false.
  Proof.
    intros a l x Hd Ha b Hb. inversion Hd as [|? ? HF _]; subst.
    rewrite Forall_forall in HF. specialize (HF b Hb).
    destruct (keqb b x) eqn:Eb; [|reflexivity].
    rewrite keqb_sym in Eb. rewrite (keqb_trans a x b Ha Eb) in HF. discriminate HF.
  Qed.

  Lemma distinct_match_count : forall ks x, gb_distinct ks ->
    (exists k0, In k0 ks /\ keqb k0 x = true) ->
    length (filter (fun k => keqb k x) ks) = 1%nat.
  Proof.
    intros ks x Hd. induction Hd as [|a l HF Hd IH]; intros [k0 [Hin Hk0]]; [destruct Hin|].
    cbn [filter]. destruct (keqb a x) eqn:Ea.
    - rewrite (filter_nil_forall (fun k => keqb k x) l); [reflexivity|].
      apply (distinct_head_only a l x); [constructor; assumption|exact Ea].
    - destruct Hin as [<-|Hin]; [congruence|]. apply IH. exists k0. split; assumption.
  Qed.

  Definition gb_bucket (t : list cell) (k : K) : list cell := filter (fun c => keqb k (key c)) t.

  Lemma buckets_nomatch : forall ks c r, (forall k, In k ks -> keqb k (key c) = false) ->
    map (gb_bucket (c :: r)) ks = map (gb_bucket r) ks.
  Proof.
    intros ks c r H. apply map_ext_in. intros k Hk. unfold gb_bucket. cbn [filter].
    rewrite (H k Hk). reflexivity.
  Qed.

  Lemma buckets_cons : forall ks c r, gb_distinct ks ->
    (exists k0, In k0 ks /\ keqb k0 (key c) = true) ->
    Permutation (c :: concat (map (gb_bucket r) ks)) (concat (map (gb_bucket (c :: r)) ks)).
  Proof.
    intros ks c r Hd. induction Hd as [|a l HF Hd IH]; intros [k0 [Hin Hk0]]; [destruct Hin|].
    cbn [map concat]. destruct (keqb a (key c)) eqn:Ea.
    - rewrite (buckets_nomatch l c r).
      + unfold gb_bucket at 3. cbn [filter]. rewrite Ea. fold (gb_bucket r a). apply Permutation_refl.
      + apply (distinct_head_only a l (key c)); [constructor; assumption|exact Ea].
    - destruct Hin as [<-|Hin]; [congruence|].
      unfold gb_bucket at 3. cbn [filter]. rewrite Ea. fold (gb_bucket r a).
      eapply Permutation_trans; [apply Permutation_middle|].
      apply Permutation_app_head. apply IH. exists k0. split; assumption.
  Qed.

  Lemma buckets_perm : forall ks t, gb_distinct ks ->
    (forall c, In c t -> exists k0, In k0 ks /\ keqb k0 (key c) = true) ->
    Permutation t (concat (map (gb_bucket t) ks)).
  Proof.
    intros ks t Hd. induction t as [|c r IH]; intros Hcov.
    - assert (E : concat (map (gb_bucket []) ks) = []).
      { clear. induction ks as [|k ks IH]; cbn [map concat]; [reflexivity|].
        rewrite IH. reflexivity. }
      rewrite E. constructor.
    - eapply Permutation_trans; [|apply buckets_cons; [exact Hd|apply Hcov; left; reflexivity]].
      apply perm_skip. apply IH. intros c' Hc'. apply Hcov. right. exact Hc'.
  Qed.

  Lemma group_by_eq : forall t,
    group_by keqb key t = map (fun k => (k, gb_bucket t k)) (distinct_keys keqb [] (map key t)).
  Proof. reflexivity. Qed.

  Lemma group_keys_cover : forall t c, In c t ->
    exists k0, In k0 (distinct_keys keqb [] (map key t)) /\ keqb k0 (key c) = true.
  Proof.
    intros t c Hc. destruct (dk_cover (map key t) [] (key c) (in_map key t c Hc)) as [H|H].
    - cbn [existsb] in H. discriminate H.
    - exact H.
  Qed.

  Lemma group_by_perm : forall t, Permutation t (concat (map snd (group_by keqb key t))).
  Proof using keqb_refl keqb_sym keqb_trans.
    intros t. rewrite group_by_eq, map_map. cbn [snd].
    apply buckets_perm; [apply dk_distinct|apply group_keys_cover].
  Qed.

  Lemma group_by_keyed : forall t k g, In (k, g) (group_by keqb key t) ->
    g = filter (fun c => keqb k (key c)) t /\ g <> [] /\ sublist g t
    /\ (exists c, In c t /\ k = key c).
  Proof using keqb_refl keqb_sym keqb_trans.
    intros t k g H. rewrite group_by_eq in H. apply in_map_iff in H.
    destruct H as [k' [E Hk']]. inversion E; subst. clear E.
    apply dk_in in Hk'. apply in_map_iff in Hk'. destruct Hk' as [c [Ek Hc]].
    split; [reflexivity|]. split; [|split].
    - intros Hnil. assert (Hin : In c (gb_bucket t k)).
      { unfold gb_bucket. apply filter_In. split; [exact Hc|]. rewrite Ek. apply keqb_refl. }
      rewrite Hnil in Hin. destruct Hin.
    - apply filter_sublist.
    - exists c. split; [exact Hc|symmetry; exact Ek].
  Qed.

  Lemma group_by_keys_distinct : forall t,
    ForallOrdPairs (fun a b => keqb (fst a) (fst b) = false) (group_by keqb key t).
  Proof using keqb_refl keqb_sym keqb_trans.
    intros t. rewrite group_by_eq.
    apply (FOP_map (fun k => (k, gb_bucket t k)) (fun a b => keqb (fst a) (fst b) = false)).
    cbn [fst]. apply dk_distinct.
  Qed.

  Lemma group_by_unique : forall t c, In c t ->
    length (filter (fun g => keqb (fst g) (key c)) (group_by keqb key t)) = 1%nat.
  Proof using keqb_refl keqb_sym keqb_trans.
    intros t c Hc. rewrite group_by_eq, filter_map_comm, map_length. cbn [fst].
    apply distinct_match_count; [apply dk_distinct|apply group_keys_cover; exact Hc].
  Qed.
End GroupByP.

(* ================================================================ __getitem__ *)
Lemma nth_cell_nth_error : forall t n,
  nth_cell n t = match nth_error t n with Some c => Ok c | None => Err IndexError end.
Proof.
  induction t as [|c t IH]; intros [|n]; cbn [nth_cell nth_error]; try reflexivity. apply IH.
Qed.

Lemma getitem_int_nonneg : forall g s t i, 0 <= i < Z.of_nat (length t) ->
  getitem g s (IInt i) t = match nth_error t (Z.to_nat i) with Some c => Ok (GCell c) | None => Err IndexError end.
Proof.
  intros g s t i Hi. unfold getitem. cbv zeta.
  destruct (i <? 0) eqn:E1; [lia|]. cbv iota.
  destruct ((i <? 0) || (Z.of_nat (length t) <=? i)) eqn:E2; [lia|].
  rewrite nth_cell_nth_error. destruct (nth_error t (Z.to_nat i)); reflexivity.
Qed.

Lemma getitem_int_neg : forall g s t i, - Z.of_nat (length t) <= i < 0 ->
  getitem g s (IInt i) t = getitem g s (IInt (i + Z.of_nat (length t))) t.
Proof.
  intros g s t i Hi. unfold getitem. cbv zeta.
  destruct (i <? 0) eqn:E1; [|lia]. cbv iota.
  assert (E2 : (i + Z.of_nat (length t) <? 0) = false) by lia.
  rewrite E2. cbv iota. rewrite E2. reflexivity.
Qed.

Lemma getitem_int_out : forall g s t i, (i < - Z.of_nat (length t) \/ Z.of_nat (length t) <= i) ->
  getitem g s (IInt i) t = Err IndexError.
Proof.
  intros g s t i Hi. unfold getitem. cbv zeta.
  destruct (i <? 0) eqn:E1; cbv iota.
  - destruct ((i + Z.of_nat (length t) <? 0) || (Z.of_nat (length t) <=? i + Z.of_nat (length t))) eqn:E2;
      [reflexivity|lia].
  - destruct ((i <? 0) || (Z.of_nat (length t) <=? i)) eqn:E2; [reflexivity|lia].
Qed.

Lemma getitem_full_range : forall g s t, getitem g s (IRange None None None) t = Ok (GTri t).
Proof.
  intros g s t. unfold getitem, list_slice. cbn [norm_bound].
  rewrite Z.sub_0_r, Nat2Z.id. cbn [Z.to_nat skipn]. rewrite firstn_all. reflexivity.
Qed.

Lemma every_nth_sublist : forall k l skip, sublist (every_nth k skip l) l.
Proof.
  intros k l. induction l as [|c l IH]; intros skip; cbn [every_nth]; [apply sub_nil|].
  destruct skip; [apply sub_keep|apply sub_skip]; apply IH.
Qed.

Lemma list_slice_sublist : forall a b st t, sublist (list_slice a b st t) t.
Proof.
  intros a b st t. unfold list_slice.
  assert (Hseg : forall n m, sublist (firstn n (skipn m t)) t).
  { intros n m. eapply sublist_trans; [apply firstn_sublist|apply skipn_sublist]. }
  destruct st as [p|]; [|apply Hseg].
  eapply sublist_trans; [apply every_nth_sublist|apply Hseg].
Qed.

Lemma getitem_range_sublist : forall g s t a b st,
  exists r, getitem g s (IRange a b st) t = Ok (GTri r) /\ sublist r t.
Proof.
  intros g s t a b st. exists (list_slice a b st t). split; [reflexivity|apply list_slice_sublist].
Qed.

Lemma getitem_desc_eqb_eq : forall a b, getitem_desc_eqb a b = true -> a = b.
Proof.
  intros [a1 a2 a3 a4 a5 a6 a7 a8] [b1 b2 b3 b4 b5 b6 b7 b8]. unfold getitem_desc_eqb.
  cbn [gi_attr gi_lo_op gi_hi_op gi_lo_default gi_hi_default gi_eval_lo gi_eval_hi gi_meta_op].
  rewrite !andb_true_iff, cattr_eqb_eq, !cmp_op_eqb_eq, !dflt_eqb_eq, !bound_eqb_eq.
  intros [[[[[[[-> ->] ->] ->] ->] ->] ->] ->]. reflexivity.
Qed.

Lemma getitem_triple_cells : forall s t m pb eb, clip_spec_ok s = true ->
  Forall (fun c => DATE_MIN <= ps c <= DATE_MAX) t ->
  clip s (with_bound (with_bound no_clip BMinEval (fst eb)) BMaxEval (snd eb))
    (filter (fun c => opt_cmp OpGe (attr_val UMonth APeriodStart c) (dflt_val DMin (fst pb))
                      && opt_cmp OpLe (attr_val UMonth APeriodStart c) (dflt_val DMax (snd pb)))
       (match m with
        | MMeta mm => filter (fun c => meta_cmp OpEq (cmeta c) mm) t
        | _ => t
        end))
  = filter (getitem_filter pb eb m) t.
Proof.
  intros s t m [plo phi] [elo ehi] Hs Ht. rewrite (clip_is_filter s _ _ Hs).
  rewrite Forall_forall in Ht. unfold DATE_MIN, DATE_MAX in Ht.
  assert (Hpred : forall c, In c t ->
    (opt_cmp OpGe (attr_val UMonth APeriodStart c) (dflt_val DMin plo)
     && opt_cmp OpLe (attr_val UMonth APeriodStart c) (dflt_val DMax phi))
    && inclusive_pred (with_bound (with_bound no_clip BMinEval elo) BMaxEval ehi) c
    = opt_le plo (ps c) && opt_ge phi (ps c) && opt_le elo (ev c) && opt_ge ehi (ev c)).
  { intros c Hc. specialize (Ht c Hc). unfold inclusive_pred, no_clip.
    cbn [with_bound min_eval max_eval min_period max_period min_dev max_dev dev_unit
         option_map opt_le opt_ge attr_val].
    rewrite !andb_true_r.
    destruct plo as [lo|], phi as [hi|];
      cbn [dflt_val opt_cmp cmp opt_le opt_ge]; unfold DATE_MIN, DATE_MAX;
      destruct (opt_le elo (ev c)), (opt_ge ehi (ev c)); lia. }
  cbn [fst snd]. rewrite filter_filter.
  destruct m as [| |mm].
  - apply filter_ext_in. intros c Hc. rewrite (Hpred c Hc). unfold getitem_filter.
    cbn [fst snd]. reflexivity.
  - apply filter_ext_in. intros c Hc. rewrite (Hpred c Hc). unfold getitem_filter.
    cbn [fst snd]. reflexivity.
  - rewrite filter_filter. apply filter_ext_in. intros c Hc.
    rewrite (Hpred c Hc). unfold getitem_filter, meta_cmp. cbn [fst snd].
    rewrite !andb_assoc. reflexivity.
Qed.

(* dates of real cells lie in date.min..date.max, so the defaults date.min/date.max exclude nothing *)
Lemma getitem_triple : forall g s t p e m pb eb, getitem_ok g = true -> clip_spec_ok s = true ->
  Forall (fun c => DATE_MIN <= ps c <= DATE_MAX) t ->
  pidx_bounds p = Ok pb -> pidx_bounds e = Ok eb ->
  getitem g s (ITriple p e m) t =
  let r := filter (getitem_filter pb eb m) t in
  if is_slice_p p || is_slice_p e || (match m with MAll => true | _ => false end) then Ok (GTri r)
  else match r with c :: _ => Ok (GCell c) | [] => Err IndexError end.
Proof.
  intros g s t p e m pb eb Hg Hs Ht Hp He. apply getitem_desc_eqb_eq in Hg. subst g.
  unfold getitem. rewrite Hp. cbn [bind]. rewrite He. cbn [bind]. cbv zeta.
  unfold expected_getitem.
  cbn [gi_attr gi_lo_op gi_hi_op gi_lo_default gi_hi_default gi_eval_lo gi_eval_hi gi_meta_op].
  rewrite (getitem_triple_cells s t m pb eb Hs Ht). reflexivity.
Qed.

Lemma getitem_triple_bad : forall g s t p e m,
  (p = PBad \/ e = PBad) -> getitem g s (ITriple p e m) t = Err ValueError.
Proof.
  intros g s t p e m [->| ->]; unfold getitem.
  - reflexivity.
  - destruct p; reflexivity.
Qed.

(* ================================================================ right_edge *)
Lemma in_seen_cons : forall (c x : cell) seen l,
  In x ((c :: seen) ++ l) <-> In x (seen ++ c :: l).
Proof.
  intros c x seen l. cbn [app In]. rewrite !in_app_iff. cbn [In]. tauto.
Qed.

Lemma right_edge_aux_sublist : forall l seen, sublist (right_edge_aux seen l) l.
Proof.
  induction l as [|c l IH]; intros seen; cbn [right_edge_aux]; [apply sub_nil|].
  destruct (existsb (fun x => same_row c x && (ev c <? ev x)) seen
            || existsb (fun x => same_row c x && (ev c <=? ev x)) l);
    [apply sub_skip|apply sub_keep]; apply IH.
Qed.

Lemma right_edge_aux_max : forall l seen r, In r (right_edge_aux seen l) ->
  In r l /\ forall x, In x (seen ++ l) -> same_row r x = true -> ev x <= ev r.
Proof.
  induction l as [|c l IH]; intros seen r Hin; cbn [right_edge_aux] in Hin; [destruct Hin|].
  destruct (existsb (fun x => same_row c x && (ev c <? ev x)) seen
            || existsb (fun x => same_row c x && (ev c <=? ev x)) l) eqn:E.
  - destruct (IH (c :: seen) r Hin) as [Hr Hmax]. split; [right; exact Hr|].
    intros x Hx. apply Hmax. apply in_seen_cons. exact Hx.
  - destruct Hin as [<-|Hin].
    + split; [left; reflexivity|]. apply orb_false_iff in E. destruct E as [E1 E2].
      intros x Hx Hrow. apply in_app_iff in Hx. destruct Hx as [Hx|[<-|Hx]].
      * pose proof (existsb_false_forall _ _ E1 x Hx) as Hf. cbv beta in Hf.
        rewrite Hrow in Hf. cbn [andb] in Hf. lia.
      * lia.
      * pose proof (existsb_false_forall _ _ E2 x Hx) as Hf. cbv beta in Hf.
        rewrite Hrow in Hf. cbn [andb] in Hf. lia.
    + destruct (IH (c :: seen) r Hin) as [Hr Hmax]. split; [right; exact Hr|].
      intros x Hx. apply Hmax. apply in_seen_cons. exact Hx.
Qed.

Lemma right_edge_aux_exists : forall l seen y, In y l ->
  (forall x, In x (seen ++ l) -> same_row y x = true -> ev x <= ev y) ->
  exists r, In r (right_edge_aux seen l) /\ same_row y r = true /\ ev r = ev y.
Proof.
  induction l as [|c l IH]; intros seen y Hy Hmax; [destruct Hy|].
  assert (Hrec : forall y', In y' l ->
            (forall x, In x (seen ++ c :: l) -> same_row y' x = true -> ev x <= ev y') ->
            exists r, In r (right_edge_aux (c :: seen) l) /\ same_row y' r = true /\ ev r = ev y').
  { intros y' Hy' Hmax'. apply IH; [exact Hy'|].
    intros x Hx. apply Hmax'. apply in_seen_cons. exact Hx. }
  cbn [right_edge_aux].
  destruct (existsb (fun x => same_row c x && (ev c <? ev x)) seen
            || existsb (fun x => same_row c x && (ev c <=? ev x)) l) eqn:E.
  - (* the head is dropped *)
    destruct Hy as [<-|Hy]; [|apply Hrec; assumption].
    apply orb_true_iff in E. destruct E as [E|E]; apply existsb_exists in E;
      destruct E as [x [Hx Hc]]; apply andb_true_iff in Hc; destruct Hc as [Hrow Hev].
    + assert (ev x <= ev c) by (apply Hmax; [apply in_app_iff; left; exact Hx|exact Hrow]). lia.
    + assert (Hle : ev x <= ev c)
        by (apply Hmax; [apply in_app_iff; right; right; exact Hx|exact Hrow]).
      assert (Heq : ev x = ev c) by lia.
      destruct (Hrec x Hx) as [r [Hr [Hrow' Hev']]].
      * intros z Hz Hxz. rewrite Heq. apply Hmax; [exact Hz|].
        eapply same_row_trans; eassumption.
      * exists r. split; [exact Hr|]. split; [eapply same_row_trans; eassumption|lia].
  - (* the head is kept *)
    destruct Hy as [<-|Hy].
    + exists c. split; [left; reflexivity|]. split; [apply same_row_refl|reflexivity].
    + destruct (Hrec y Hy Hmax) as [r [Hr Hrest]]. exists r. split; [right; exact Hr|exact Hrest].
Qed.

Lemma right_edge_aux_atmost : forall l seen c,
  (length (filter (same_row c) (right_edge_aux seen l)) <= 1)%nat.
Proof.
  induction l as [|a l IH]; intros seen c; cbn [right_edge_aux]; [cbn; lia|].
  destruct (existsb (fun x => same_row a x && (ev a <? ev x)) seen
            || existsb (fun x => same_row a x && (ev a <=? ev x)) l) eqn:E; [apply IH|].
  cbn [filter]. destruct (same_row c a) eqn:Eca; [|apply IH].
  rewrite (filter_nil_forall (same_row c) (right_edge_aux (a :: seen) l)); [cbn; lia|].
  intros r Hr. destruct (same_row c r) eqn:Ecr; [exfalso|reflexivity].
  apply orb_false_iff in E. destruct E as [_ E2].
  destruct (right_edge_aux_max l (a :: seen) r Hr) as [Hrl Hmax].
  assert (Har : same_row a r = true).
  { eapply same_row_trans; [|exact Ecr]. rewrite same_row_sym. exact Eca. }
  assert (Hle : ev a <= ev r).
  { apply Hmax; [left; reflexivity|]. rewrite same_row_sym. exact Har. }
  pose proof (existsb_false_forall _ _ E2 r Hrl) as Hf. cbv beta in Hf.
  rewrite Har in Hf. cbn [andb] in Hf. lia.
Qed.

Lemma right_edge_sublist : forall t, sublist (right_edge t) t.
Proof. intros t. apply right_edge_aux_sublist. Qed.

Lemma right_edge_maximal : forall t r, In r (right_edge t) ->
  In r t /\ forall c, In c t -> same_row r c = true -> ev c <= ev r.
Proof. intros t r H. exact (right_edge_aux_max t [] r H). Qed.

Lemma right_edge_exists : forall t c, In c t ->
  exists r, In r (right_edge t) /\ same_row c r = true
            /\ forall x, In x t -> same_row c x = true -> ev x <= ev r.
Proof.
  intros t c Hc.
  destruct (max_exists ev (same_row c) t) as [y [Hy [Hcy Hmax]]].
  { exists c. split; [exact Hc|apply same_row_refl]. }
  destruct (right_edge_aux_exists t [] y Hy) as [r [Hr [Hyr Hev]]].
  { intros x Hx Hyx. apply Hmax; [exact Hx|]. eapply same_row_trans; eassumption. }
  exists r. split; [exact Hr|]. split; [eapply same_row_trans; eassumption|].
  intros x Hx Hcx. rewrite Hev. apply Hmax; assumption.
Qed.

Lemma right_edge_unique : forall t c, In c t ->
  length (filter (same_row c) (right_edge t)) = 1%nat.
Proof.
  intros t c Hc. destruct (right_edge_exists t c Hc) as [r [Hr [Hcr _]]].
  pose proof (right_edge_aux_atmost t [] c) as Hle. fold (right_edge t) in Hle.
  assert (Hin : In r (filter (same_row c) (right_edge t)))
    by (apply filter_In; split; assumption).
  destruct (filter (same_row c) (right_edge t)) as [|z zs]; [destruct Hin|].
  cbn [length] in *. lia.
Qed.

Lemma right_edge_nothing_else : forall t c,
  (forall x, In x t -> same_row c x = false) -> filter (same_row c) (right_edge t) = [].
Proof.
  intros t c H. apply filter_nil_forall. intros x Hx. apply H.
  eapply sublist_In; [apply right_edge_sublist|exact Hx].
Qed.

(* ================================================================ select / extract *)
Lemma select_length : forall ks t, length (tri_select ks t) = length t.
Proof. intros ks t. unfold tri_select. apply map_length. Qed.

Lemma select_coordinates : forall ks t,
  map (fun c => set_vals c []) (tri_select ks t) = map (fun c => set_vals c []) t.
Proof.
  intros ks t. unfold tri_select. rewrite map_map. apply map_ext. intros c. reflexivity.
Qed.

Lemma select_keys : forall ks c,
  keys (cvals (cell_select ks c)) = filter (fun k => str_mem k ks) (keys (cvals c)).
Proof.
  intros ks c. unfold cell_select, set_vals. cbn [cvals]. unfold keys.
  induction (cvals c) as [|[k v] r IH]; cbn [filter map fst]; [reflexivity|].
  destruct (str_mem k ks); cbn [map fst]; rewrite IH; reflexivity.
Qed.

Lemma str_mem_eqb : forall k k' ks, str_eqb k k' = true -> str_mem k ks = str_mem k' ks.
Proof. intros k k' ks E. apply str_eqb_eq in E. subst. reflexivity. Qed.

Lemma select_values : forall ks c k,
  assoc k (cvals (cell_select ks c)) = if str_mem k ks then assoc k (cvals c) else None.
Proof.
  intros ks c k. unfold cell_select, set_vals. cbn [cvals].
  induction (cvals c) as [|[k0 v] r IH]; cbn [filter assoc fst].
  - destruct (str_mem k ks); reflexivity.
  - destruct (str_mem k0 ks) eqn:E0; cbn [assoc].
    + destruct (str_eqb k k0) eqn:Ek.
      * rewrite (str_mem_eqb k k0 ks Ek), E0. reflexivity.
      * exact IH.
    + rewrite IH. destruct (str_eqb k k0) eqn:Ek; [|reflexivity].
      rewrite (str_mem_eqb k k0 ks Ek), E0. reflexivity.
Qed.

Lemma select_sorted : forall (R : cell -> cell -> Prop) ks t,
  (forall a b, R a b -> R (cell_select ks a) (cell_select ks b)) ->
  StronglySorted R t -> StronglySorted R (tri_select ks t).
Proof.
  intros R ks t HR HS. unfold tri_select.
  induction HS as [|a l HS IH HF]; cbn [map]; constructor; [exact IH|].
  rewrite Forall_forall in *. intros y Hy. apply in_map_iff in Hy.
  destruct Hy as [x [<- Hx]]. apply HR. apply HF. exact Hx.
Qed.

Lemma extract_length : forall k t, length (extract_field k t) = length t.
Proof. intros k t. unfold extract_field. apply map_length. Qed.

Lemma extract_nth : forall k t i c, nth_error t i = Some c ->
  nth_error (extract_field k t) i = Some (match assoc k (cvals c) with Some v => v | None => VNone end).
Proof.
  intros k t i c H. unfold extract_field.
  exact (map_nth_error (fun c => match assoc k (cvals c) with Some v => v | None => VNone end) i t H).
Qed.

(* ================================================================ executable spec is sound *)
Lemma sublistb_sublist : forall t out, sublistb out t = true -> sublist out t.
Proof.
  induction t as [|c t IH]; intros [|o ro]; cbn [sublistb]; intros H; try apply sub_nil.
  - discriminate H.
  - destruct (cell_seqb o c) eqn:E.
    + apply cell_seqb_eq in E. subst. apply sub_keep. apply IH. exact H.
    + apply sub_skip. apply IH. exact H.
Qed.

Lemma selection_spec_sound : forall p t out, selection_spec_b p t out = true -> out = filter p t.
Proof.
  intros p t out H. unfold selection_spec_b, count_b in H. rewrite !andb_true_iff in H.
  destruct H as [[Hsub Hall] Hlen]. apply sublistb_sublist in Hsub.
  rewrite forallb_forall in Hall. apply Nat.eqb_eq in Hlen.
  apply sublist_same_length; [|exact Hlen]. apply sublist_filter; assumption.
Qed.
