(** C18 -- aggregate o disaggregate at the original resolution (month-aligned periods of 1970-2100).

    The aggregate side is wp-summ's Model/Aggregate.v: we work against its loop-free specification
    [ref_slice] (closed-form windows; C08 ties it to the walk model and to the code on every run) and use its
    lemma [scv_sum_entry] (additive fields of a window cell are conforming sums of the merged cells).
    The disaggregate side is Model/Units.v over Q.  Adapter: a Q-valued sub-period cell is turned into a
    Base cell (values n/1024) when every value is exactly representable ([cell_of_ucell]); the theorem is
    stated for disaggregations that are representable in both. *)
From Coq Require Import ZArith QArith Qabs List Bool Lia Lqa Arith.
From Bermuda Require Import Model.Base Lib.Calendar Model.Summarize Model.Basis Model.Aggregate
  Proofs.SummarizeLib Proofs.Aggregate.
From Bermuda Require Import Model.Blend Model.Units Proofs.BlendP Proofs.UnitsP Proofs.UnitsQ.
Import ListNotations.
Local Open Scope Z_scope.

(* ================================================================== 1. month starts (ids 0..1571) *)
Definition month_start_ok (i : Z) : bool :=
  (day_of (month_start i) =? 1) && negb (is_month_end (month_start i)).
Lemma month_starts_ok : all_ids 1572 0 month_start_ok = true.
Proof. vm_compute. reflexivity. Qed.
Lemma days_in_month_pos y m : 1 <= days_in_month y m.
Proof.
  unfold days_in_month. destruct (m =? 2); [destruct (is_leap y); lia|].
  destruct ((m =? 4) || (m =? 6) || (m =? 9) || (m =? 11)); lia.
Qed.
(* add_months on the first day of a month is the first day k months later *)
Lemma addm_month_start i k : 0 <= i <= 1571 -> addm (month_start i) k = month_start (i + k).
Proof.
  intro Hi. pose proof (all_ids_spec _ _ _ month_starts_ok i ltac:(lia)) as H.
  unfold month_start_ok in H. apply andb_prop in H. destruct H as [H1 H2].
  apply Z.eqb_eq in H1. apply negb_true_iff in H2.
  destruct (month_end_facts i Hi) as (_ & _ & _ & E & _).
  unfold addm. rewrite E, H2, H1. rewrite Z.min_l by apply days_in_month_pos. reflexivity.
Qed.
Lemma month_end_succ i : month_end i = month_start (i + 1) - 1.
Proof. reflexivity. Qed.
Lemma month_end_le i j : 0 <= i -> j <= 1572 -> i <= j -> month_end i <= month_end j.
Proof.
  intros Hi Hj Hij. destruct (Z.eq_dec i j) as [->|Hne]; [lia|].
  pose proof (month_end_increasing i j Hi Hj ltac:(lia)). lia.
Qed.
Lemma month_start_lt i j : 1 <= i -> j <= 1573 -> i < j -> month_start i < month_start j.
Proof.
  intros Hi Hj Hij. pose proof (month_end_increasing (i - 1) (j - 1) ltac:(lia) ltac:(lia) ltac:(lia)) as H.
  rewrite !month_end_succ in H. replace (i - 1 + 1) with i in H by lia. replace (j - 1 + 1) with j in H by lia. lia.
Qed.

(* ================================================================== 2. sub-periods of a month-aligned cell *)
(* c covers the months a .. a+R-1, R = n*r *)
Definition aligned (c : cell) (a R : Z) : Prop :=
  ps c = month_start a /\ pe c = month_end (a + R - 1).
Definition sub_k (a r k : Z) : Z * Z := (month_start (a + k * r), month_end (a + (k + 1) * r - 1)).

Lemma subperiods_aligned c a (r n : nat) :
  0 <= a <= 1571 -> ps c = month_start a ->
  subperiods r n c = map (fun k : nat => sub_k a (Z.of_nat r) (Z.of_nat k)) (seq 0 n).
Proof.
  intros Ha Hps. unfold subperiods, sub_k. apply map_ext. intro k. rewrite Hps, !addm_month_start by exact Ha.
  rewrite month_end_succ, !Nat2Z.inj_mul, Nat2Z.inj_add. change (Z.of_nat 1) with 1.
  replace (a + (Z.of_nat k + 1) * Z.of_nat r - 1 + 1) with (a + (Z.of_nat k + 1) * Z.of_nat r) by ring. reflexivity.
Qed.
Lemma filter_all_true {A} (p : A -> bool) l : (forall x, In x l -> p x = true) -> filter p l = l.
Proof.
  induction l as [|x l IH]; intro H; simpl; auto. rewrite (H x (or_introl eq_refl)). f_equal. apply IH.
  intros y Hy. apply H. right. exact Hy.
Qed.
Lemma observable_all c a (r n : nat) :
  1 <= a <= 1571 -> (0 < r)%nat -> a + Z.of_nat (n * r) <= 1572 -> aligned c a (Z.of_nat (n * r)) -> pe c <= ev c ->
  observable c (subperiods r n c) = subperiods r n c.
Proof.
  intros Ha Hr Hb [Hps Hpe] Hev. rewrite (subperiods_aligned c a r n) by (auto; lia).
  unfold observable. apply filter_all_true. intros p Hp.
  apply in_map_iff in Hp. destruct Hp as [k [Hk Hin]]. subst p. apply in_seq in Hin. cbn [snd sub_k].
  apply Z.leb_le. etransitivity; [|exact Hev]. rewrite Hpe. apply month_end_le; nia.
Qed.

(* windows of the original resolution, origin = the day before the cell's period *)
Lemma window_of_sub a R r k :
  1 <= a -> a + R <= 1572 -> 1 <= r -> 0 <= k -> (k + 1) * r <= R ->
  window_of (RMonth R) (month_start a - 1) (fst (sub_k a r k)) = (month_start a, month_end (a + R - 1)).
Proof.
  intros Ha Hb Hr Hk Hkr. unfold window_of, sub_k. cbn [fst].
  assert (E0 : month_start a - 1 = month_end (a - 1)) by (rewrite month_end_succ; f_equal; f_equal; lia).
  rewrite E0. destruct (month_end_facts (a - 1) ltac:(lia)) as (E1 & _).
  destruct (month_end_facts (a + k * r) ltac:(nia)) as (_ & _ & _ & E2 & _).
  rewrite E1, E2. replace (a + k * r - (a - 1 + 1)) with (k * r) by lia.
  rewrite Z.div_small by nia. f_equal; f_equal; lia.
Qed.

(* ================================================================== 3. the adapter Q -> n/1024 *)
Definition z_of_q (q : Q) : option Z :=
  let n := Qnum q * 1024 in let d := Z.pos (Qden q) in
  if n mod d =? 0 then Some (n / d) else None.
Lemma z_of_q_spec q z : z_of_q q = Some z -> (q == Qmake z 1024)%Q.
Proof.
  unfold z_of_q. destruct (Qnum q * 1024 mod Z.pos (Qden q) =? 0) eqn:E; [|discriminate].
  intro H. inversion H. subst z. apply Z.eqb_eq in E. unfold Qeq. cbn [Qnum Qden].
  pose proof (Z.div_mod (Qnum q * 1024) (Z.pos (Qden q)) ltac:(lia)) as D. rewrite E in D. lia.
Qed.
Definition value_of_uval (u : uval) : option value :=
  match u with
  | UNum f q => match z_of_q q with Some z => Some (VNum (Num f z)) | None => None end
  | UArr f qs => match all_some (map z_of_q qs) with Some zs => Some (VArr f zs) | None => None end
  | UKeep v => Some v
  | UOther => None
  end.
Definition kv_of_uv (kv : str * uval) : option (str * value) :=
  match value_of_uval (snd kv) with Some v => Some (fst kv, v) | None => None end.
Definition cell_of_ucell (o : ucell) : option cell :=
  match all_some (map kv_of_uv (uvals o)) with
  | Some vs => Some (mkCell (ckind (uhdr o)) (ps (uhdr o)) (pe (uhdr o)) (ev (uhdr o)) (prev (uhdr o))
                            (cmeta (uhdr o)) vs)
  | None => None
  end.

Lemma assoc_kv_of_uv f : forall us vs, all_some (map kv_of_uv us) = Some vs ->
  assoc f vs = match uassoc f us with Some u => value_of_uval u | None => None end.
Proof.
  induction us as [|[k u] us IH]; intros vs H; simpl in H.
  - inversion H. reflexivity.
  - unfold kv_of_uv at 1 in H. cbn [fst snd] in H. destruct (value_of_uval u) as [v|] eqn:Ev; [|discriminate].
    destruct (all_some (map kv_of_uv us)) as [vs'|] eqn:Es; [|discriminate]. inversion H. subst vs.
    cbn [assoc uassoc]. destruct (str_eqb f k); [symmetry; exact Ev|]. apply IH. reflexivity.
Qed.

(* ================================================================== 4. summing the sub-period values *)
Local Open Scope Q_scope.
(* t holds W times the original value v (exactly, in n/1024 units) *)
Definition scaled (W : Q) (t v : value) : Prop :=
  match v, t with
  | VNum x, VNum y => Qmake (num_n y) 1024 == Qmake (num_n x) 1024 * W
  | VArr _ xs, VArr true ys => Forall2 (fun y x => Qmake y 1024 == Qmake x 1024 * W) ys xs
  | _, _ => False
  end.
Definition value_numeq (a b : value) : Prop :=
  match a, b with
  | VNum x, VNum y => num_n x = num_n y
  | VArr _ xs, VArr _ ys => xs = ys
  | VNone, VNone => True
  | _, _ => False
  end.

Lemma q1024_inj a b : Qmake a 1024 == Qmake b 1024 -> a = b.
Proof. unfold Qeq. simpl. lia. Qed.
Lemma scaled_one t v : scaled 1 t v -> value_numeq t v.
Proof.
  destruct v as [x| |f xs], t as [y| |g ys]; simpl; try tauto.
  - intro H. apply q1024_inj. rewrite H. ring.
  - destruct g; [|tauto]. intro H. induction H as [|y x ys xs Hy H IH]; [reflexivity|].
    f_equal; auto. apply q1024_inj. rewrite Hy. ring.
Qed.
Lemma scaled_ext W W' t v : W == W' -> scaled W t v -> scaled W' t v.
Proof.
  intro E. destruct v as [x| |f xs], t as [y| |g ys]; simpl; try tauto.
  - intro H. rewrite H, E. reflexivity.
  - destruct g; [|tauto]. intro H. induction H; constructor; auto. rewrite H, E. reflexivity.
Qed.

(* what the adapter makes of  v * w  is v scaled by w *)
Lemma all_some_z_of_q : forall qs zs, all_some (map z_of_q qs) = Some zs ->
  Forall2 (fun z q => q == Qmake z 1024) zs qs.
Proof.
  induction qs as [|q qs IH]; intros zs H; simpl in H.
  - inversion H. constructor.
  - destruct (z_of_q q) as [z|] eqn:Ez; [|discriminate].
    destruct (all_some (map z_of_q qs)) as [zs'|] eqn:Es; [|discriminate]. inversion H. subst zs.
    constructor; auto. apply z_of_q_spec. exact Ez.
Qed.
Lemma value_of_weighted w v u : v <> VNone -> value_of_uval (weight_value w v) = Some u -> scaled w u v.
Proof.
  destruct v as [x| |f xs]; intros Hn H; [|congruence|]; simpl in H.
  - destruct (z_of_q (q_of_n (num_n x) * w)) as [z|] eqn:Ez; [|discriminate]. inversion H. subst u. simpl.
    apply z_of_q_spec in Ez. rewrite <- Ez. reflexivity.
  - destruct (all_some (map z_of_q (map (fun n => q_of_n n * w) xs))) as [zs|] eqn:Es; [|discriminate].
    inversion H. subst u. simpl. apply all_some_z_of_q in Es. clear H Hn.
    revert zs Es. induction xs as [|x xs IH]; intros zs Es; simpl in Es;
      inversion Es as [|z q zs' qs' Hz Hrest]; subst; constructor.
    + rewrite <- Hz. reflexivity.
    + apply IH. assumption.
Qed.

(* one step of _conforming_sum keeps the invariant *)
Lemma value_add_scaled W w t u v :
  ((W == 0 /\ t = vzero) \/ scaled W t v) -> scaled w u v ->
  exists t', value_add t u = Ok t' /\ scaled (W + w) t' v.
Proof.
  intros [[HW Ht]|Ht] Hu.
  - subst t. destruct v as [x| |f xs], u as [y| |g ys]; simpl in Hu; try tauto.
    + eexists. split; [reflexivity|]. simpl. rewrite ?Z.add_0_l, Hu, HW. ring.
    + destruct g; [|tauto]. eexists. split; [reflexivity|]. simpl.
      induction Hu; simpl; constructor; auto. rewrite ?Z.add_0_l, H, HW. ring.
  - destruct v as [x| |f xs], t as [a| |h ts], u as [y| |g ys]; simpl in Ht, Hu; try tauto;
      try (destruct h; tauto); try (destruct g; tauto).
    + eexists. split; [reflexivity|]. simpl. destruct a as [fa na], y as [fy ny]. simpl in *.
      assert (E : Qmake (na + ny) 1024 == Qmake na 1024 + Qmake ny 1024) by (unfold Qeq, Qplus; simpl; lia).
      rewrite E, Ht, Hu. ring.
    + destruct h; [|tauto]. destruct g; [|tauto].
      assert (L : length ts = length ys).
      { rewrite (Forall2_length' _ _ _ Ht), (Forall2_length' _ _ _ Hu). reflexivity. }
      unfold value_add. rewrite L, Nat.eqb_refl. simpl. eexists. split; [reflexivity|]. simpl.
      unfold zip_add. clear L. revert ys Hu. induction Ht as [|a x ts xs Ha Ht IH]; intros ys Hu;
        inversion Hu as [|y0 x0 ys0 xs0 Hy0 Hrest]; subst; simpl; constructor.
      * assert (E : Qmake (a + y0) 1024 == Qmake a 1024 + Qmake y0 1024) by (unfold Qeq, Qplus; simpl; lia).
        rewrite E, Ha, Hy0. ring.
      * apply IH. assumption.
Qed.
Lemma sum_from_scaled v : forall us ws W t,
  ((W == 0 /\ t = vzero) \/ scaled W t v) -> Forall2 (fun u w => scaled w u v) us ws ->
  us <> [] ->
  exists t', sum_from t us = Ok t' /\ scaled (W + qsum ws) t' v.
Proof.
  induction us as [|u us IH]; intros ws W t Ht Hu Hne; [congruence|].
  inversion Hu as [|u' w us' ws' Huw Hrest]; subst.
  destruct (value_add_scaled W w t u v Ht Huw) as [t1 [E1 S1]]. cbn [sum_from]. rewrite E1.
  destruct us as [|u2 us].
  - inversion Hrest. subst. simpl. eexists. split; [reflexivity|]. eapply scaled_ext; [|exact S1]. ring.
  - destruct (IH ws' (W + w) t1 (or_intror S1) Hrest ltac:(discriminate)) as [t2 [E2 S2]].
    eexists. split; [exact E2|]. eapply scaled_ext; [|exact S2]. simpl. ring.
Qed.
(* the conforming sum of parts that carry weights summing to one is the original value *)
Lemma conforming_sum_parts v us ws :
  Forall2 (fun u w => scaled w u v) us ws -> us <> [] -> qsum ws == 1 ->
  exists t, conforming_sum us = Ok t /\ value_numeq t v.
Proof.
  intros Hu Hne Hs. unfold conforming_sum.
  destruct (sum_from_scaled v us ws 0 vzero (or_introl (conj (Qeq_refl 0) eq_refl)) Hu Hne) as [t [E S]].
  exists t. split; auto. apply scaled_one. eapply scaled_ext; [|exact S]. rewrite Hs. ring.
Qed.

(* ================================================================== 5. the sub-period cells as Base cells *)
Local Open Scope Z_scope.
(* what the k-th sub-period cell (weight w) of c looks like after the adapter *)
Definition sub_cell_ok (fields : list str) (c : cell) (a r : Z) (kw : nat * Q) (c' : cell) : Prop :=
  ps c' = month_start (a + Z.of_nat (fst kw) * r) /\ pe c' = month_end (a + (Z.of_nat (fst kw) + 1) * r - 1) /\
  ev c' = ev c /\ cmeta c' = cmeta c /\
  forall f v, Units.mem_str f fields = true -> assoc f (cvals c) = Some v -> v <> VNone ->
    exists u, assoc f (cvals c') = Some u /\ scaled (snd kw) u v.

Lemma sub_cell_adapter fields c a r k w o c' :
  uhdr o = uhdr (sub_cell fields c (sub_k a r (Z.of_nat k), w)) ->
  uvals o = uvals (sub_cell fields c (sub_k a r (Z.of_nat k), w)) ->
  cell_of_ucell o = Some c' -> sub_cell_ok fields c a r (k, w) c'.
Proof.
  intros Hh Hv Hc. unfold cell_of_ucell in Hc.
  destruct (all_some (map kv_of_uv (uvals o))) as [vs|] eqn:Es; [|discriminate].
  inversion Hc. subst c'. clear Hc. rewrite Hh. unfold sub_cell_ok. cbn.
  repeat split; auto.
  intros f v Hm Ha Hn.
  assert (Hin : uassoc f (uvals o) = Some (weight_value w v)).
  { rewrite Hv. apply sub_cell_value; auto. }
  rewrite (assoc_kv_of_uv f _ _ Es), Hin.
  destruct (value_of_uval (weight_value w v)) as [u|] eqn:Eu.
  - exists u. split; auto. apply value_of_weighted; auto.
  - (* every value of the cell is representable, this one included *)
    exfalso. clear - Es Hin Eu.
    revert vs Es Hin. induction (uvals o) as [|[k0 u0] us IH]; intros vs Es Hin; simpl in *; [discriminate|].
    unfold kv_of_uv at 1 in Es. cbn [fst snd] in Es.
    destruct (value_of_uval u0) as [v0|] eqn:E0; [|discriminate].
    destruct (all_some (map kv_of_uv us)) as [vs'|] eqn:Es'; [|discriminate].
    destruct (str_eqb f k0); [inversion Hin; subst; congruence|]. eapply IH; eauto.
Qed.

(* the list of all sub-period cells, indices s, s+1, ... *)
Lemma sub_cells_ok fields c a (r : nat) : forall (n s : nat) wn outs cs',
  outs = map (sub_cell fields c) (combine (map (fun k : nat => sub_k a (Z.of_nat r) (Z.of_nat k)) (seq s n)) wn) ->
  Forall2 (fun o c' => cell_of_ucell o = Some c') outs cs' ->
  Forall2 (sub_cell_ok fields c a (Z.of_nat r)) (combine (seq s n) wn) cs'.
Proof.
  induction n as [|n IH]; intros s wn outs cs' Ho Hf.
  - simpl in Ho. subst outs. inversion Hf. constructor.
  - destruct wn as [|w wn]; simpl in Ho; [subst outs; inversion Hf; constructor|].
    subst outs. inversion Hf as [|o c1 os cs1 Hc1 Hrest]; subst. simpl. constructor.
    + eapply sub_cell_adapter; eauto.
    + eapply IH; eauto.
Qed.

(* consecutive sub-period cells are strictly increasing in (period_start, ...): already sorted *)
Fixpoint adj_lt (l : list cell) : Prop :=
  match l with
  | x :: ((y :: _) as t) => coord_ltb x y = true /\ adj_lt t
  | _ => True
  end.
Lemma sort_coords_sorted_id l : adj_lt l -> sort_coords l = l.
Proof.
  induction l as [|x l IH]; intro H; [reflexivity|]. cbn [sort_coords fold_right].
  change (fold_right coord_insert [] l) with (sort_coords l).
  destruct l as [|y t]; [reflexivity|]. destruct H as [Hxy Ht]. rewrite (IH Ht). cbn [coord_insert]. rewrite Hxy. reflexivity.
Qed.
Lemma sub_cells_sorted fields c a (r : nat) : forall (n s : nat) wn cs',
  1 <= a -> (0 < r)%nat -> a + Z.of_nat ((s + n) * r) <= 1572 -> length wn = n ->
  Forall2 (sub_cell_ok fields c a (Z.of_nat r)) (combine (seq s n) wn) cs' -> adj_lt cs'.
Proof.
  induction n as [|n IH]; intros s wn cs' Ha Hr Hb Hl Hf.
  - simpl in Hf. inversion Hf. exact I.
  - destruct wn as [|w wn]; [discriminate|]. simpl in Hf. inversion Hf as [|kw c1 kws cs1 H1 Hrest]; subst.
    assert (Hrec : adj_lt cs1).
    { eapply (IH (S s) wn); eauto. replace (S s + n)%nat with (s + S n)%nat by lia. exact Hb. }
    destruct cs1 as [|c2 cs2]; [exact I|]. split; [|exact Hrec].
    destruct n as [|n]; [simpl in Hrest; inversion Hrest|]. destruct wn as [|w2 wn]; [discriminate|].
    simpl in Hrest. inversion Hrest as [|kw2 c2' kws2 cs2' H2 _]; subst.
    destruct H1 as (P1 & _). destruct H2 as (P2 & _). cbn [fst] in P1, P2.
    unfold coord_ltb. rewrite P1, P2.
    assert (month_start (a + Z.of_nat s * Z.of_nat r) < month_start (a + Z.of_nat (S s) * Z.of_nat r)) as Hlt.
    { apply month_start_lt; nia. }
    apply Z.ltb_lt in Hlt. rewrite Hlt. reflexivity.
Qed.

(* all sub-period cells fall into the window of the original period; none straddles *)
Lemma sub_cells_window fields c a (r : nat) R : forall (n s : nat) wn cs',
  1 <= a -> (0 < r)%nat -> a + R <= 1572 -> Z.of_nat ((s + n) * r) <= R -> aligned c a R ->
  Forall2 (sub_cell_ok fields c a (Z.of_nat r)) (combine (seq s n) wn) cs' ->
  Forall (fun c' => straddles (RMonth R) (ps c - 1) c' = false /\
                    coord3 (to_window (RMonth R) (ps c - 1) c') = (ps c, pe c, ev c, None) /\
                    cmeta c' = cmeta c) cs'.
Proof.
  induction n as [|n IH]; intros s wn cs' Ha Hr Hb Hn [Hps Hpe] Hf.
  - simpl in Hf. inversion Hf. constructor.
  - destruct wn as [|w wn]; simpl in Hf; [inversion Hf; constructor|].
    inversion Hf as [|kw c1 kws cs1 H1 Hrest]; subst. constructor.
    + destruct H1 as (P1 & P2 & P3 & P4 & _). cbn [fst] in P1, P2.
      assert (W : window_of (RMonth R) (ps c - 1) (ps c1) = (ps c, pe c)).
      { rewrite Hps, Hpe, P1. apply (window_of_sub a R (Z.of_nat r) (Z.of_nat s)); nia. }
      unfold straddles, to_window, coord3. rewrite W. cbn [fst snd ps pe ev]. rewrite P3. repeat split; auto.
      apply Z.ltb_ge. rewrite P2, Hpe. apply month_end_le; nia.
    + eapply (IH (S s) wn); eauto; try (split; auto). replace (S s + n)%nat with (s + S n)%nat by lia. exact Hn.
Qed.

(* the field values of the sub-period cells carry the normalised weights *)
Lemma sub_cells_raw fields c a r f v : forall kws cs',
  Units.mem_str f fields = true -> assoc f (cvals c) = Some v -> v <> VNone ->
  Forall2 (sub_cell_ok fields c a r) kws cs' ->
  Forall2 (fun u w => scaled w u v) (raw f cs') (map snd kws).
Proof.
  intros kws cs' Hm Ha Hn Hf. induction Hf as [|kw c1 kws cs1 H1 Hrest IH]; simpl; constructor; auto.
  destruct H1 as (_ & _ & _ & _ & P). destruct (P f v Hm Ha Hn) as [u [Eu Su]].
  unfold getv. rewrite Eu. exact Su.
Qed.

(* groupby of a list whose keys are all the same *)
Lemma groupby_one_key {A} (key : A -> Summarize.coord) k : forall l acc,
  (forall x, In x l -> key x = k) ->
  fold_left (fun d a => gb_insert Summarize.coord_eqb (key a) a d) l [(k, acc)] = [(k, acc ++ l)].
Proof.
  assert (R : Summarize.coord_eqb k k = true).
  { destruct k as [[[k1 k2] k3] k4]. unfold Summarize.coord_eqb. rewrite !Z.eqb_refl.
    destruct k4; simpl; [apply Z.eqb_refl|reflexivity]. }
  induction l as [|x l IH]; intros acc H; simpl; [rewrite app_nil_r; reflexivity|].
  rewrite (H x (or_introl eq_refl)), R. rewrite IH; [rewrite <- app_assoc; reflexivity|].
  intros y Hy. apply H. right. exact Hy.
Qed.

(* ================================================================== 6. aggregate o disaggregate *)
Lemma raw_to_window r o f l : raw f (map (to_window r o) l) = raw f l.
Proof. unfold raw. rewrite map_map. reflexivity. Qed.
Lemma map_snd_combine_seq {B} : forall n s (l : list B), length l = n -> map snd (combine (seq s n) l) = l.
Proof.
  induction n as [|n IH]; intros s [|x l] H; simpl in *; try discriminate; auto. f_equal. apply IH. lia.
Qed.

Section Roundtrip.
  Variable wavg : transform -> list value -> list value -> result value.
  Variable rules : rule_table.
  Variable nl : list str.

  (* c: a cumulative cell covering the months a .. a+n*r-1 (1970-2100), evaluated at or after its period end;
     outs: its disaggregation into n sub-periods of r months with weights ws; cs': the same cells with values
     in n/1024 units (exactly representable).  Aggregating cs' back at the original resolution n*r (window grid
     aligned with the cell) by C08's loop-free specification gives, whenever it gives anything, exactly ONE cell:
     the original period, evaluation date and metadata, and every additive field that was disaggregated carries
     numerically the original value. *)
  Theorem disaggregate_then_aggregate fields c a (r n : nat) ws outs cs' eo prem out :
    1 <= a <= 1571 -> (0 < r)%nat -> (0 < n)%nat -> a + Z.of_nat (n * r) <= 1572 ->
    aligned c a (Z.of_nat (n * r)) -> pe c <= ev c ->
    length ws = n -> ~ (qsum ws == 0)%Q ->
    disagg_cell r n ws fields c = Ok outs ->
    Forall2 (fun o c' => cell_of_ucell o = Some c') outs cs' ->
    ref_slice wavg rules nl (mkArgs (Some (RMonth (Z.of_nat (n * r)))) None (ps c - 1) eo prem) cs' = Ok out ->
    exists vals,
      out = [mkCell KCum (ps c) (pe c) (ev c) None (cmeta c) vals] /\
      forall f v v', Units.mem_str f fields = true -> assoc f (cvals c) = Some v -> v <> VNone ->
        In (f, v') vals -> lookup_rule rules f = Some (RSum f) ->
        (prem = true \/ Summarize.mem_str f nl = false) -> value_numeq v' v.
  Proof.
    intros Ha Hr Hn Hb Hal Hev Hlw Hsum Hd Hcs Href.
    (* 1. the disaggregation in closed form *)
    assert (Hsubs : observable c (subperiods r n c) = map (fun k : nat => sub_k a (Z.of_nat r) (Z.of_nat k)) (seq 0 n)).
    { rewrite (observable_all c a r n Ha Hr Hb Hal Hev). apply subperiods_aligned; [lia|apply Hal]. }
    unfold disagg_cell in Hd. rewrite Hsubs in Hd. rewrite map_length, seq_length in Hd.
    assert (Hf : firstn n ws = ws) by (rewrite <- Hlw; apply firstn_all). rewrite Hf in Hd.
    destruct (n =? 0)%nat eqn:En; [apply Nat.eqb_eq in En; lia|].
    destruct (Qeq_bool (qsum ws) 0) eqn:Eq; [apply Qeq_bool_iff in Eq; contradiction|].
    inversion Hd as [Houts]. clear Hd. symmetry in Houts.
    set (wn := norm_weights ws) in *.
    assert (Lwn : length wn = n) by (unfold wn; rewrite norm_weights_length; exact Hlw).
    (* 2. the adapted cells *)
    pose proof (sub_cells_ok fields c a r n 0%nat wn outs cs' Houts Hcs) as Hok.
    pose proof (sub_cells_sorted fields c a r n 0%nat wn cs' ltac:(lia) Hr ltac:(simpl; exact Hb) Lwn Hok) as Hsorted.
    pose proof (sub_cells_window fields c a r (Z.of_nat (n * r)) n 0%nat wn cs' ltac:(lia) Hr Hb ltac:(simpl; lia) Hal Hok) as Hwin.
    (* 3. unfold the specification *)
    unfold ref_slice in Href. cbn [eval_res period_res period_origin summ_premium] in Href.
    destruct cs' as [|c1 cs1].
    { exfalso. destruct n; [lia|]. destruct wn; [discriminate|]. simpl in Hok. inversion Hok. }
    rewrite (sort_coords_sorted_id _ Hsorted) in Href.
    assert (Hns : existsb (straddles (RMonth (Z.of_nat (n * r))) (ps c - 1)) (c1 :: cs1) = false).
    { apply not_true_is_false. intro E. apply existsb_exists in E. destruct E as [x [Hx Sx]].
      rewrite Forall_forall in Hwin. destruct (Hwin x Hx) as [Sx' _]. congruence. }
    rewrite Hns in Href.
    set (tw := to_window (RMonth (Z.of_nat (n * r))) (ps c - 1)) in *.
    assert (Hkeys : forall x, In x (map tw cs1) -> coord3 x = (ps c, pe c, ev c, None)).
    { intros x Hx. apply in_map_iff in Hx. destruct Hx as [y [<- Hy]]. rewrite Forall_forall in Hwin.
      apply (Hwin y). right. exact Hy. }
    assert (Hk1 : coord3 (tw c1) = (ps c, pe c, ev c, None)).
    { rewrite Forall_forall in Hwin. apply (Hwin c1). left. reflexivity. }
    unfold groupby in Href. cbn [map fold_left] in Href. rewrite Hk1 in Href. cbn [gb_insert] in Href.
    rewrite (groupby_one_key coord3 (ps c, pe c, ev c, None) (map tw cs1) [tw c1] Hkeys) in Href.
    cbn [app] in Href. cbn [Summarize.map_result] in Href. unfold window_cell at 1 in Href. cbn [snd] in Href.
    destruct (summarize_cell_values wavg rules nl prem (tw c1 :: map tw cs1)) as [vals|e] eqn:Es; [|discriminate].
    inversion Href. subst out. clear Href. exists vals. split.
    - rewrite Forall_forall in Hwin. destruct (Hwin c1 (or_introl eq_refl)) as (_ & _ & Hm).
      unfold coord3 in Hk1. injection Hk1 as Q1 Q2 Q3.
      f_equal. f_equal; try assumption.
    - intros f v v' Hm Hav Hnn Hin Hrule Hprem.
      pose proof (scv_sum_entry wavg rules nl prem (tw c1 :: map tw cs1) vals f v' Es ltac:(discriminate) Hin Hrule Hprem) as Hs.
      change (tw c1 :: map tw cs1) with (map tw (c1 :: cs1)) in Hs. unfold tw in Hs. rewrite raw_to_window in Hs.
      pose proof (sub_cells_raw fields c a (Z.of_nat r) f v _ _ Hm Hav Hnn Hok) as Hraw.
      rewrite (map_snd_combine_seq n 0%nat wn Lwn) in Hraw.
      destruct (conforming_sum_parts v (raw f (c1 :: cs1)) wn Hraw ltac:(discriminate)
                  (norm_weights_sum ws Hsum)) as [t [Et Nt]].
      rewrite Et in Hs. inversion Hs. subst. exact Nt.
  Qed.
End Roundtrip.
