(** C18 -- aggregate o disaggregate at the original resolution (month-aligned periods of 1970-2100).

    The aggregate side is wp-summ's Model/Aggregate.v: we work against its loop-free specification
    [ref_slice] (closed-form windows; C08 ties it to the walk model and to the code on every run) and use its
    lemma [scv_sum_entry] (additive fields of a window cell are conforming sums of the merged cells).
    The disaggregate side is Model/Units.v over Q.  Adapter: a Q-valued sub-period cell is turned into a
    Base cell (values n/1024) when every value is exactly representable ([cell_of_ucell]); the theorem is
    stated for disaggregations that are representable in both. *)
From Coq Require Import ZArith QArith Qabs List Bool Lia Lqa Arith Permutation.
From Bermuda Require Import Model.Base Lib.Calendar Model.Summarize Model.Basis Model.Aggregate
  Proofs.SummarizeLib Proofs.Aggregate Proofs.CalendarP.
From Bermuda Require Import Model.Blend Model.Units Proofs.BlendP Proofs.UnitsP Proofs.UnitsQ.
Import ListNotations.
Local Open Scope Z_scope.

(* ================================================================== 1. month arithmetic (any year >= 1) *)
(* wp-basis's Proofs/CalendarP.v: unbounded facts about Lib/Calendar.v for month ids >= MINID (January of year 1).
   Calendar.addm equals the source's float-based add_months only where C12's bridge theorem says so
   (month-aligned dates of 1970-2100); beyond that range the statements below are about the model. *)
Lemma month_end_pred i : month_end i = month_start (i + 1) - 1.
Proof. reflexivity. Qed.
Lemma month_end_le i j : i <= j -> month_end i <= month_end j.
Proof. intro H. rewrite !month_end_pred. pose proof (CalendarP.month_start_mono (i + 1) (j + 1) ltac:(lia)). lia. Qed.

(* ================================================================== 2. sub-periods of a month-aligned cell *)
(* c covers the months a .. a+R-1 *)
Definition aligned (c : cell) (a R : Z) : Prop :=
  ps c = month_start a /\ pe c = month_end (a + R - 1).
Definition sub_k (a r k : Z) : Z * Z := (month_start (a + k * r), month_end (a + (k + 1) * r - 1)).

Lemma subperiods_aligned c a (r n : nat) :
  MINID <= a -> ps c = month_start a ->
  subperiods r n c = map (fun k : nat => sub_k a (Z.of_nat r) (Z.of_nat k)) (seq 0 n).
Proof.
  intros Ha Hps. unfold subperiods, sub_k. apply map_ext. intro k. rewrite Hps, !CalendarP.addm_month_start by exact Ha.
  rewrite month_end_pred, !Nat2Z.inj_mul, Nat2Z.inj_add. change (Z.of_nat 1) with 1.
  replace (a + (Z.of_nat k + 1) * Z.of_nat r - 1 + 1) with (a + (Z.of_nat k + 1) * Z.of_nat r) by ring. reflexivity.
Qed.
Lemma filter_all_true {A} (p : A -> bool) l : (forall x, In x l -> p x = true) -> filter p l = l.
Proof.
  induction l as [|x l IH]; intro H; simpl; auto. rewrite (H x (or_introl eq_refl)). f_equal. apply IH.
  intros y Hy. apply H. right. exact Hy.
Qed.
Lemma observable_all c a (r n : nat) :
  MINID <= a -> (0 < r)%nat -> aligned c a (Z.of_nat (n * r)) -> pe c <= ev c ->
  observable c (subperiods r n c) = subperiods r n c.
Proof.
  intros Ha Hr [Hps Hpe] Hev. rewrite (subperiods_aligned c a r n) by auto.
  unfold observable. apply filter_all_true. intros p Hp.
  apply in_map_iff in Hp. destruct Hp as [k [Hk Hin]]. subst p. apply in_seq in Hin. cbn [snd sub_k].
  apply Z.leb_le. etransitivity; [|exact Hev]. rewrite Hpe. apply month_end_le. nia.
Qed.

(* windows of the original resolution R on the grid with base month a0 (origin = the day before month a0):
   the k-th sub-period of the cell occupying grid window p starts inside that window *)
Lemma window_of_sub a0 p R r k :
  MINID < a0 -> MINID <= a0 + p * R -> 1 <= r -> 0 <= k -> (k + 1) * r <= R ->
  window_of (RMonth R) (month_start a0 - 1) (fst (sub_k (a0 + p * R) r k))
  = (month_start (a0 + p * R), month_end (a0 + p * R + R - 1)).
Proof.
  intros Ha0 Ha Hr Hk Hkr. unfold window_of, sub_k. cbn [fst].
  assert (E0 : month_start a0 - 1 = month_end (a0 - 1)) by (rewrite month_end_pred; f_equal; f_equal; lia).
  rewrite E0, CalendarP.month_id_month_end by lia. rewrite CalendarP.month_id_month_start by nia.
  replace (a0 + p * R + k * r - (a0 - 1 + 1)) with (k * r + p * R) by ring.
  rewrite Z.div_add by nia. rewrite Z.div_small by nia. f_equal; f_equal; ring.
Qed.

(* ================================================================== 3. the adapter Q -> n/1024 *)
Definition z_of_q (q : Q) : option Z :=
  let n := Qnum q * 1024 in let d := Z.pos (Qden q) in
  if n mod d =? 0 then Some (n / d) else None.
Lemma z_of_q_spec q z : z_of_q q = Some z -> (q == Qmake z 1024)%Q.
Proof.
  unfold z_of_q. destruct (Qnum q * 1024 mod Z.pos (Qden q) =? 0) eqn:E; [|discriminate].
  intro H. inversion H. subst z. apply Z.eqb_eq in E. unfold Qeq. cbn [Qnum Qden].
  pose proof (Z.div_mod (Qnum q * 1024) (Z.pos (Qden q)) ltac:(lia)) as D. rewrite E in D. lia.
Qed.
Definition value_of_uval (u : uval) : option value :=
  match u with
  | UNum f q => match z_of_q q with Some z => Some (VNum (Num f z)) | None => None end
  | UArr f qs => match all_some (map z_of_q qs) with Some zs => Some (VArr f zs) | None => None end
  | UKeep v => Some v
  | UOther => None
  end.
Definition kv_of_uv (kv : str * uval) : option (str * value) :=
  match value_of_uval (snd kv) with Some v => Some (fst kv, v) | None => None end.
Definition cell_of_ucell (o : ucell) : option cell :=
  match all_some (map kv_of_uv (uvals o)) with
  | Some vs => Some (mkCell (ckind (uhdr o)) (ps (uhdr o)) (pe (uhdr o)) (ev (uhdr o)) (prev (uhdr o))
                            (cmeta (uhdr o)) vs)
  | None => None
  end.

Lemma assoc_kv_of_uv f : forall us vs, all_some (map kv_of_uv us) = Some vs ->
  assoc f vs = match uassoc f us with Some u => value_of_uval u | None => None end.
Proof.
  induction us as [|[k u] us IH]; intros vs H; simpl in H.
  - inversion H. reflexivity.
  - unfold kv_of_uv at 1 in H. cbn [fst snd] in H. destruct (value_of_uval u) as [v|] eqn:Ev; [|discriminate].
    destruct (all_some (map kv_of_uv us)) as [vs'|] eqn:Es; [|discriminate]. inversion H. subst vs.
    cbn [assoc uassoc]. destruct (str_eqb f k); [symmetry; exact Ev|]. apply IH. reflexivity.
Qed.

(* ================================================================== 4. summing the sub-period values *)
Local Open Scope Q_scope.
(* t holds W times the original value v (exactly, in n/1024 units) *)
Definition scaled (W : Q) (t v : value) : Prop :=
  match v, t with
  | VNum x, VNum y => Qmake (num_n y) 1024 == Qmake (num_n x) 1024 * W
  | VArr _ xs, VArr true ys => Forall2 (fun y x => Qmake y 1024 == Qmake x 1024 * W) ys xs
  | _, _ => False
  end.
Definition value_numeq (a b : value) : Prop :=
  match a, b with
  | VNum x, VNum y => num_n x = num_n y
  | VArr _ xs, VArr _ ys => xs = ys
  | VNone, VNone => True
  | _, _ => False
  end.

Lemma q1024_inj a b : Qmake a 1024 == Qmake b 1024 -> a = b.
Proof. unfold Qeq. simpl. lia. Qed.
Lemma scaled_one t v : scaled 1 t v -> value_numeq t v.
Proof.
  destruct v as [x| |f xs], t as [y| |g ys]; simpl; try tauto.
  - intro H. apply q1024_inj. rewrite H. ring.
  - destruct g; [|tauto]. intro H. induction H as [|y x ys xs Hy H IH]; [reflexivity|].
    f_equal; auto. apply q1024_inj. rewrite Hy. ring.
Qed.
Lemma scaled_ext W W' t v : W == W' -> scaled W t v -> scaled W' t v.
Proof.
  intro E. destruct v as [x| |f xs], t as [y| |g ys]; simpl; try tauto.
  - intro H. rewrite H, E. reflexivity.
  - destruct g; [|tauto]. intro H. induction H; constructor; auto. rewrite H, E. reflexivity.
Qed.

(* what the adapter makes of  v * w  is v scaled by w *)
Lemma all_some_z_of_q : forall qs zs, all_some (map z_of_q qs) = Some zs ->
  Forall2 (fun z q => q == Qmake z 1024) zs qs.
Proof.
  induction qs as [|q qs IH]; intros zs H; simpl in H.
  - inversion H. constructor.
  - destruct (z_of_q q) as [z|] eqn:Ez; [|discriminate].
    destruct (all_some (map z_of_q qs)) as [zs'|] eqn:Es; [|discriminate]. inversion H. subst zs.
    constructor; auto. apply z_of_q_spec. exact Ez.
Qed.
Lemma value_of_weighted w v u : v <> VNone -> value_of_uval (weight_value w v) = Some u -> scaled w u v.
Proof.
  destruct v as [x| |f xs]; intros Hn H; [|congruence|]; simpl in H.
  - destruct (z_of_q (q_of_n (num_n x) * w)) as [z|] eqn:Ez; [|discriminate]. inversion H. subst u. simpl.
    apply z_of_q_spec in Ez. rewrite <- Ez. reflexivity.
  - destruct (all_some (map z_of_q (map (fun n => q_of_n n * w) xs))) as [zs|] eqn:Es; [|discriminate].
    inversion H. subst u. simpl. apply all_some_z_of_q in Es. clear H Hn.
    revert zs Es. induction xs as [|x xs IH]; intros zs Es; simpl in Es;
      inversion Es as [|z q zs' qs' Hz Hrest]; subst; constructor.
    + rewrite <- Hz. reflexivity.
    + apply IH. assumption.
Qed.

(* one step of _conforming_sum keeps the invariant *)
Lemma value_add_scaled W w t u v :
  ((W == 0 /\ t = vzero) \/ scaled W t v) -> scaled w u v ->
  exists t', value_add t u = Ok t' /\ scaled (W + w) t' v.
Proof.
  intros [[HW Ht]|Ht] Hu.
  - subst t. destruct v as [x| |f xs], u as [y| |g ys]; simpl in Hu; try tauto.
    + eexists. split; [reflexivity|]. simpl. rewrite ?Z.add_0_l, Hu, HW. ring.
    + destruct g; [|tauto]. eexists. split; [reflexivity|]. simpl.
      induction Hu; simpl; constructor; auto. rewrite ?Z.add_0_l, H, HW. ring.
  - destruct v as [x| |f xs], t as [a| |h ts], u as [y| |g ys]; simpl in Ht, Hu; try tauto;
      try (destruct h; tauto); try (destruct g; tauto).
    + eexists. split; [reflexivity|]. simpl. destruct a as [fa na], y as [fy ny]. simpl in *.
      assert (E : Qmake (na + ny) 1024 == Qmake na 1024 + Qmake ny 1024) by (unfold Qeq, Qplus; simpl; lia).
      rewrite E, Ht, Hu. ring.
    + destruct h; [|tauto]. destruct g; [|tauto].
      assert (L : length ts = length ys).
      { rewrite (Forall2_length' _ _ _ Ht), (Forall2_length' _ _ _ Hu). reflexivity. }
      unfold value_add. rewrite L, Nat.eqb_refl. simpl. eexists. split; [reflexivity|]. simpl.
      unfold zip_add. clear L. revert ys Hu. induction Ht as [|a x ts xs Ha Ht IH]; intros ys Hu;
        inversion Hu as [|y0 x0 ys0 xs0 Hy0 Hrest]; subst; simpl; constructor.
      * assert (E : Qmake (a + y0) 1024 == Qmake a 1024 + Qmake y0 1024) by (unfold Qeq, Qplus; simpl; lia).
        rewrite E, Ha, Hy0. ring.
      * apply IH. assumption.
Qed.
Lemma sum_from_scaled v : forall us ws W t,
  ((W == 0 /\ t = vzero) \/ scaled W t v) -> Forall2 (fun u w => scaled w u v) us ws ->
  us <> [] ->
  exists t', sum_from t us = Ok t' /\ scaled (W + qsum ws) t' v.
Proof.
  induction us as [|u us IH]; intros ws W t Ht Hu Hne; [congruence|].
  inversion Hu as [|u' w us' ws' Huw Hrest]; subst.
  destruct (value_add_scaled W w t u v Ht Huw) as [t1 [E1 S1]]. cbn [sum_from]. rewrite E1.
  destruct us as [|u2 us].
  - inversion Hrest. subst. simpl. eexists. split; [reflexivity|]. eapply scaled_ext; [|exact S1]. ring.
  - destruct (IH ws' (W + w) t1 (or_intror S1) Hrest ltac:(discriminate)) as [t2 [E2 S2]].
    eexists. split; [exact E2|]. eapply scaled_ext; [|exact S2]. simpl. ring.
Qed.
(* the conforming sum of parts that carry weights summing to one is the original value *)
Lemma conforming_sum_parts v us ws :
  Forall2 (fun u w => scaled w u v) us ws -> us <> [] -> qsum ws == 1 ->
  exists t, conforming_sum us = Ok t /\ value_numeq t v.
Proof.
  intros Hu Hne Hs. unfold conforming_sum.
  destruct (sum_from_scaled v us ws 0 vzero (or_introl (conj (Qeq_refl 0) eq_refl)) Hu Hne) as [t [E S]].
  exists t. split; auto. apply scaled_one. eapply scaled_ext; [|exact S]. rewrite Hs. ring.
Qed.

(* ================================================================== 5. the sub-period cells as Base cells *)
Local Open Scope Z_scope.
(* what the k-th sub-period cell (weight w) of c looks like after the adapter *)
Definition sub_cell_ok (fields : list str) (c : cell) (a r : Z) (kw : nat * Q) (c' : cell) : Prop :=
  ps c' = month_start (a + Z.of_nat (fst kw) * r) /\ pe c' = month_end (a + (Z.of_nat (fst kw) + 1) * r - 1) /\
  ev c' = ev c /\ cmeta c' = cmeta c /\
  forall f v, Units.mem_str f fields = true -> assoc f (cvals c) = Some v -> v <> VNone ->
    exists u, assoc f (cvals c') = Some u /\ scaled (snd kw) u v.

Lemma sub_cell_adapter fields c a r k w o c' :
  uhdr o = uhdr (sub_cell fields c (sub_k a r (Z.of_nat k), w)) ->
  uvals o = uvals (sub_cell fields c (sub_k a r (Z.of_nat k), w)) ->
  cell_of_ucell o = Some c' -> sub_cell_ok fields c a r (k, w) c'.
Proof.
  intros Hh Hv Hc. unfold cell_of_ucell in Hc.
  destruct (all_some (map kv_of_uv (uvals o))) as [vs|] eqn:Es; [|discriminate].
  inversion Hc. subst c'. clear Hc. rewrite Hh. unfold sub_cell_ok. cbn.
  repeat split; auto.
  intros f v Hm Ha Hn.
  assert (Hin : uassoc f (uvals o) = Some (weight_value w v)).
  { rewrite Hv. apply sub_cell_value; auto. }
  rewrite (assoc_kv_of_uv f _ _ Es), Hin.
  destruct (value_of_uval (weight_value w v)) as [u|] eqn:Eu.
  - exists u. split; auto. apply value_of_weighted; auto.
  - (* every value of the cell is representable, this one included *)
    exfalso. clear - Es Hin Eu.
    revert vs Es Hin. induction (uvals o) as [|[k0 u0] us IH]; intros vs Es Hin; simpl in *; [discriminate|].
    unfold kv_of_uv at 1 in Es. cbn [fst snd] in Es.
    destruct (value_of_uval u0) as [v0|] eqn:E0; [|discriminate].
    destruct (all_some (map kv_of_uv us)) as [vs'|] eqn:Es'; [|discriminate].
    destruct (str_eqb f k0); [inversion Hin; subst; congruence|]. eapply IH; eauto.
Qed.

(* the list of all sub-period cells, indices s, s+1, ... *)
Lemma sub_cells_ok fields c a (r : nat) : forall (n s : nat) wn outs cs',
  outs = map (sub_cell fields c) (combine (map (fun k : nat => sub_k a (Z.of_nat r) (Z.of_nat k)) (seq s n)) wn) ->
  Forall2 (fun o c' => cell_of_ucell o = Some c') outs cs' ->
  Forall2 (sub_cell_ok fields c a (Z.of_nat r)) (combine (seq s n) wn) cs'.
Proof.
  induction n as [|n IH]; intros s wn outs cs' Ho Hf.
  - simpl in Ho. subst outs. inversion Hf. constructor.
  - destruct wn as [|w wn]; simpl in Ho; [subst outs; inversion Hf; constructor|].
    subst outs. inversion Hf as [|o c1 os cs1 Hc1 Hrest]; subst. simpl. constructor.
    + eapply sub_cell_adapter; eauto.
    + eapply IH; eauto.
Qed.

(* consecutive sub-period cells are strictly increasing in (period_start, ...): already sorted *)
Fixpoint adj_lt (l : list cell) : Prop :=
  match l with
  | x :: ((y :: _) as t) => coord_ltb x y = true /\ adj_lt t
  | _ => True
  end.
Lemma sort_coords_sorted_id l : adj_lt l -> sort_coords l = l.
Proof.
  induction l as [|x l IH]; intro H; [reflexivity|]. cbn [sort_coords fold_right].
  change (fold_right coord_insert [] l) with (sort_coords l).
  destruct l as [|y t]; [reflexivity|]. destruct H as [Hxy Ht]. rewrite (IH Ht). cbn [coord_insert].
  rewrite (coord_ltb_asym _ _ Hxy). reflexivity.
Qed.
Lemma sub_cells_sorted fields c a (r : nat) : forall (n s : nat) wn cs',
  (0 < r)%nat -> length wn = n ->
  Forall2 (sub_cell_ok fields c a (Z.of_nat r)) (combine (seq s n) wn) cs' -> adj_lt cs'.
Proof.
  induction n as [|n IH]; intros s wn cs' Hr Hl Hf.
  - simpl in Hf. inversion Hf. exact I.
  - destruct wn as [|w wn]; [discriminate|]. simpl in Hf. inversion Hf as [|kw c1 kws cs1 H1 Hrest]; subst.
    assert (Hrec : adj_lt cs1) by (eapply (IH (S s) wn); eauto).
    destruct cs1 as [|c2 cs2]; [exact I|]. split; [|exact Hrec].
    destruct n as [|n]; [simpl in Hrest; inversion Hrest|]. destruct wn as [|w2 wn]; [discriminate|].
    simpl in Hrest. inversion Hrest as [|kw2 c2' kws2 cs2' H2 _]; subst.
    destruct H1 as (P1 & _). destruct H2 as (P2 & _). cbn [fst] in P1, P2.
    unfold coord_ltb. rewrite P1, P2.
    assert (month_start (a + Z.of_nat s * Z.of_nat r) < month_start (a + Z.of_nat (S s) * Z.of_nat r)) as Hlt.
    { apply CalendarP.month_start_strict_mono. nia. }
    apply Z.ltb_lt in Hlt. rewrite Hlt. reflexivity.
Qed.

(* all sub-period cells fall into the window of the original period; none straddles *)
(* c' lies in the window of c on the grid (R, base a0): not straddling, re-labelled with c's period *)
Definition win_ok (R a0 : Z) (c c' : cell) : Prop :=
  straddles (RMonth R) (month_start a0 - 1) c' = false /\
  ps (to_window (RMonth R) (month_start a0 - 1) c') = ps c /\
  pe (to_window (RMonth R) (month_start a0 - 1) c') = pe c /\
  ev c' = ev c /\ cmeta c' = cmeta c.
Lemma sub_cells_window fields c a0 p (r : nat) R : forall (n s : nat) wn cs',
  MINID < a0 -> MINID <= a0 + p * R -> (0 < r)%nat -> Z.of_nat ((s + n) * r) <= R -> aligned c (a0 + p * R) R ->
  Forall2 (sub_cell_ok fields c (a0 + p * R) (Z.of_nat r)) (combine (seq s n) wn) cs' ->
  Forall (win_ok R a0 c) cs'.
Proof.
  induction n as [|n IH]; intros s wn cs' Ha0 Ha Hr Hn [Hps Hpe] Hf.
  - simpl in Hf. inversion Hf. constructor.
  - destruct wn as [|w wn]; simpl in Hf; [inversion Hf; constructor|].
    inversion Hf as [|kw c1 kws cs1 H1 Hrest]; subst. constructor.
    + destruct H1 as (P1 & P2 & P3 & P4 & _). cbn [fst] in P1, P2.
      assert (W : window_of (RMonth R) (month_start a0 - 1) (ps c1) = (ps c, pe c)).
      { rewrite Hps, Hpe, P1. apply (window_of_sub a0 p R (Z.of_nat r) (Z.of_nat s)); nia. }
      unfold win_ok, straddles, to_window. rewrite W. cbn [fst snd ps pe]. repeat split; auto.
      apply Z.ltb_ge. rewrite P2, Hpe. apply month_end_le. nia.
    + eapply (IH (S s) wn); eauto; try (split; auto). replace (S s + n)%nat with (s + S n)%nat by lia. exact Hn.
Qed.

(* the field values of the sub-period cells carry the normalised weights *)
Lemma sub_cells_raw fields c a r f v : forall kws cs',
  Units.mem_str f fields = true -> assoc f (cvals c) = Some v -> v <> VNone ->
  Forall2 (sub_cell_ok fields c a r) kws cs' ->
  Forall2 (fun u w => scaled w u v) (raw f cs') (map snd kws).
Proof.
  intros kws cs' Hm Ha Hn Hf. induction Hf as [|kw c1 kws cs1 H1 Hrest IH]; simpl; constructor; auto.
  destruct H1 as (_ & _ & _ & _ & P). destruct (P f v Hm Ha Hn) as [u [Eu Su]].
  unfold getv. rewrite Eu. exact Su.
Qed.

(* from here on the calendar functions are only rewritten with the lemmas above, never unfolded *)
Local Opaque month_start month_end month_id window_of addm.

(* everything we need to know about the adapted sub-period cells of ONE original cell sitting in window p of the
   grid with base month a0 and resolution R = n*r *)
Lemma block_facts fields c a0 p (r n : nat) ws outs cs' :
  let R := Z.of_nat (n * r) in
  MINID < a0 -> MINID <= a0 + p * R -> (0 < r)%nat -> (0 < n)%nat ->
  aligned c (a0 + p * R) R -> pe c <= ev c -> length ws = n -> ~ (qsum ws == 0)%Q ->
  disagg_cell r n ws fields c = Ok outs ->
  Forall2 (fun o c' => cell_of_ucell o = Some c') outs cs' ->
  let wn := norm_weights ws in
  length wn = n /\ cs' <> [] /\
  Forall2 (sub_cell_ok fields c (a0 + p * R) (Z.of_nat r)) (combine (seq 0 n) wn) cs' /\
  adj_lt cs' /\
  Forall (win_ok R a0 c) cs'.
Proof.
  intros R Ha0 Ha Hr Hn Hal Hev Hlw Hsum Hd Hcs wn.
  assert (Hsubs : observable c (subperiods r n c)
                  = map (fun k : nat => sub_k (a0 + p * R) (Z.of_nat r) (Z.of_nat k)) (seq 0 n)).
  { rewrite (observable_all c (a0 + p * R) r n Ha Hr Hal Hev). apply subperiods_aligned; [exact Ha|apply Hal]. }
  unfold disagg_cell in Hd. rewrite Hsubs in Hd. rewrite map_length, seq_length in Hd.
  assert (Hf : firstn n ws = ws) by (rewrite <- Hlw; apply firstn_all). rewrite Hf in Hd.
  destruct (n =? 0)%nat eqn:En; [apply Nat.eqb_eq in En; lia|].
  destruct (Qeq_bool (qsum ws) 0) eqn:Eq; [apply Qeq_bool_iff in Eq; contradiction|].
  inversion Hd as [Houts]. clear Hd. symmetry in Houts. fold wn in Houts.
  assert (Lwn : length wn = n) by (unfold wn; rewrite norm_weights_length; exact Hlw).
  pose proof (sub_cells_ok fields c (a0 + p * R) r n 0%nat wn outs cs' Houts Hcs) as Hok.
  split; [exact Lwn|]. split.
  { intro E. subst cs'. destruct n; [lia|]. destruct wn; [discriminate|]. simpl in Hok. inversion Hok. }
  split; [exact Hok|]. split.
  - exact (sub_cells_sorted fields c (a0 + p * R) r n 0%nat wn cs' Hr Lwn Hok).
  - apply (sub_cells_window fields c a0 p r R n 0%nat wn cs' Ha0 Ha Hr ltac:(simpl; unfold R; lia) Hal Hok).
Qed.

(* the conforming sum over (any arrangement of) the sub-period cells of one original cell is the original value *)
Lemma block_sum fields c a r f v kws g :
  Units.mem_str f fields = true -> assoc f (cvals c) = Some v -> v <> VNone ->
  Forall2 (sub_cell_ok fields c a r) kws g -> g <> [] -> (qsum (map snd kws) == 1)%Q ->
  exists t, conforming_sum (raw f g) = Ok t /\ value_numeq t v.
Proof.
  intros Hm Ha Hn Hok Hne Hs.
  pose proof (sub_cells_raw fields c a r f v kws g Hm Ha Hn Hok) as Hraw.
  apply (conforming_sum_parts v (raw f g) (map snd kws) Hraw); auto.
  destruct g; [congruence|discriminate].
Qed.

(* ================================================================== 6. plumbing of ref_slice, generically *)
Lemma to_window_keeps r o c' : ev (to_window r o c') = ev c' /\ cmeta (to_window r o c') = cmeta c' /\
                               cvals (to_window r o c') = cvals c'.
Proof. unfold to_window. cbn. auto. Qed.
Lemma raw_to_window r o f l : raw f (map (to_window r o) l) = raw f l.
Proof. unfold raw. rewrite map_map. apply map_ext. intro c'. unfold getv. destruct (to_window_keeps r o c') as (_ & _ & ->). reflexivity. Qed.
Lemma map_snd_combine_seq {B} : forall n s (l : list B), length l = n -> map snd (combine (seq s n) l) = l.
Proof.
  induction n as [|n IH]; intros s [|x l] H; simpl in *; try discriminate; auto. f_equal. apply IH. lia.
Qed.
Lemma coord_eqb_refl3 k : Summarize.coord_eqb k k = true.
Proof.
  destruct k as [[[k1 k2] k3] k4]. unfold Summarize.coord_eqb. rewrite !Z.eqb_refl.
  destruct k4; simpl; [apply Z.eqb_refl|reflexivity].
Qed.
Lemma groupby_fold_one_key {A} (key : A -> Summarize.coord) k : forall l acc,
  (forall x, In x l -> key x = k) ->
  fold_left (fun d a => gb_insert Summarize.coord_eqb (key a) a d) l [(k, acc)] = [(k, acc ++ l)].
Proof.
  induction l as [|x l IH]; intros acc H; simpl; [rewrite app_nil_r; reflexivity|].
  rewrite (H x (or_introl eq_refl)), coord_eqb_refl3. rewrite IH; [rewrite <- app_assoc; reflexivity|].
  intros y Hy. apply H. right. exact Hy.
Qed.
Lemma groupby_one_key {A} (key : A -> Summarize.coord) k x l :
  (forall y, In y (x :: l) -> key y = k) -> groupby Summarize.coord_eqb key (x :: l) = [(k, x :: l)].
Proof.
  intro H. unfold groupby. cbn [fold_left gb_insert]. rewrite (H x (or_introl eq_refl)).
  apply (groupby_fold_one_key key k l [x]). intros y Hy. apply H. right. exact Hy.
Qed.

Section Roundtrip.
  Variable wavg : transform -> list value -> list value -> result value.
  Variable rules : rule_table.
  Variable nl : list str.

  Lemma ref_slice_period r origin eo prem c1 cs1 :
    ref_slice wavg rules nl (mkArgs (Some r) None origin eo prem) (c1 :: cs1)
    = if existsb (straddles r origin) (sort_coords (c1 :: cs1)) then Err TriangleError
      else Summarize.map_result (window_cell wavg rules nl prem)
             (groupby Summarize.coord_eqb coord3 (map (to_window r origin) (sort_coords (c1 :: cs1)))).
  Proof. reflexivity. Qed.
  Lemma window_cell_single prem k g :
    Summarize.map_result (window_cell wavg rules nl prem) [(k, g)]
    = match g with
      | [] => Err IndexError
      | c0 :: _ => match summarize_cell_values wavg rules nl prem g with
                   | Ok vals => Ok [mkCell KCum (ps c0) (pe c0) (ev c0) None (cmeta c0) vals]
                   | Err e => Err e
                   end
      end.
  Proof.
    cbn [Summarize.map_result]. unfold window_cell. cbn [snd]. destruct g as [|c0 g']; [reflexivity|].
    destruct (summarize_cell_values wavg rules nl prem (c0 :: g')); reflexivity.
  Qed.

  (* one group: all cells of l are re-labelled to the coordinates of c *)
  Lemma one_window_slice R a0 c l eo prem out :
    l <> [] -> adj_lt l -> Forall (win_ok R a0 c) l ->
    ref_slice wavg rules nl (mkArgs (Some (RMonth R)) None (month_start a0 - 1) eo prem) l = Ok out ->
    exists vals,
      out = [mkCell KCum (ps c) (pe c) (ev c) None (cmeta c) vals] /\
      summarize_cell_values wavg rules nl prem (map (to_window (RMonth R) (month_start a0 - 1)) l) = Ok vals.
  Proof.
    intros Hne Hsorted Hwin Href. destruct l as [|c1 cs1]; [congruence|].
    rewrite ref_slice_period, (sort_coords_sorted_id _ Hsorted) in Href.
    assert (Hns : existsb (straddles (RMonth R) (month_start a0 - 1)) (c1 :: cs1) = false).
    { apply not_true_is_false. intro E. apply existsb_exists in E. destruct E as [x [Hx Sx]].
      rewrite Forall_forall in Hwin. destruct (Hwin x Hx) as [Sx' _]. congruence. }
    rewrite Hns in Href.
    set (tw := to_window (RMonth R) (month_start a0 - 1)) in *.
    assert (Hkeys : forall y, In y (map tw (c1 :: cs1)) -> coord3 y = (ps c, pe c, ev c, None)).
    { intros y Hy. apply in_map_iff in Hy. destruct Hy as [x [<- Hx]]. rewrite Forall_forall in Hwin.
      destruct (Hwin x Hx) as (_ & Q1 & Q2 & Q3 & _). unfold coord3. fold tw in Q1, Q2.
      destruct (to_window_keeps (RMonth R) (month_start a0 - 1) x) as (E1 & _). fold tw in E1.
      rewrite Q1, Q2, E1, Q3. reflexivity. }
    cbn [map] in Href, Hkeys.
    rewrite (groupby_one_key coord3 _ (tw c1) (map tw cs1) Hkeys), window_cell_single in Href.
    destruct (summarize_cell_values wavg rules nl prem (tw c1 :: map tw cs1)) as [vals|e] eqn:Es; [|discriminate].
    injection Href as <-. exists vals. split; [|cbn [map]; exact Es].
    rewrite Forall_forall in Hwin. destruct (Hwin c1 (or_introl eq_refl)) as (_ & Q1 & Q2 & Q3 & Q4).
    destruct (to_window_keeps (RMonth R) (month_start a0 - 1) c1) as (E1 & E2 & _).
    unfold to_window in Q1, Q2. cbn [ps pe] in Q1, Q2. unfold tw, to_window. cbn [ps pe ev cmeta].
    rewrite Q1, Q2, Q3, Q4. reflexivity.
  Qed.

  (* c: a cumulative cell covering the months a .. a+n*r-1 (any year >= 1 on the model side), evaluated at or
     after its period end; outs: its disaggregation into n sub-periods of r months with weights ws; cs': the same
     cells with values in n/1024 units (exactly representable).  Aggregating cs' back at the original resolution
     n*r (window grid aligned with the cell) by C08's loop-free specification gives, whenever it gives anything,
     exactly ONE cell: the original period, evaluation date and metadata, and every additive field that was
     disaggregated carries numerically the original value. *)
  Theorem disaggregate_then_aggregate fields c a (r n : nat) ws outs cs' eo prem out :
    MINID < a -> (0 < r)%nat -> (0 < n)%nat ->
    aligned c a (Z.of_nat (n * r)) -> pe c <= ev c ->
    length ws = n -> ~ (qsum ws == 0)%Q ->
    disagg_cell r n ws fields c = Ok outs ->
    Forall2 (fun o c' => cell_of_ucell o = Some c') outs cs' ->
    ref_slice wavg rules nl (mkArgs (Some (RMonth (Z.of_nat (n * r)))) None (ps c - 1) eo prem) cs' = Ok out ->
    exists vals,
      out = [mkCell KCum (ps c) (pe c) (ev c) None (cmeta c) vals] /\
      forall f v v', Units.mem_str f fields = true -> assoc f (cvals c) = Some v -> v <> VNone ->
        In (f, v') vals -> lookup_rule rules f = Some (RSum f) ->
        (prem = true \/ Summarize.mem_str f nl = false) -> value_numeq v' v.
  Proof.
    intros Ha Hr Hn Hal Hev Hlw Hsum Hd Hcs Href.
    set (R := Z.of_nat (n * r)) in *.
    assert (Hal' : aligned c (a + 0 * R) R) by (replace (a + 0 * R) with a by ring; exact Hal).
    destruct (block_facts fields c a 0 r n ws outs cs' Ha ltac:(fold R; lia) Hr Hn Hal' Hev Hlw Hsum Hd Hcs)
      as (Lwn & Hne & Hok & Hsorted & Hwin).
    fold R in Hok, Hwin.
    assert (Eo : ps c - 1 = month_start a - 1) by (destruct Hal as [-> _]; reflexivity).
    rewrite Eo in Href.
    destruct (one_window_slice R a c cs' eo prem out Hne Hsorted Hwin Href) as [vals [Eout Es]].
    exists vals. split; [exact Eout|].
    intros f v v' Hm Hav Hnn Hin Hrule Hprem.
    assert (Hne' : map (to_window (RMonth R) (month_start a - 1)) cs' <> []) by (destruct cs'; [congruence|discriminate]).
    pose proof (scv_sum_entry wavg rules nl prem _ vals f v' Es Hne' Hin Hrule Hprem) as Hs.
    rewrite raw_to_window in Hs.
    destruct (block_sum fields c (a + 0 * R) (Z.of_nat r) f v _ _ Hm Hav Hnn Hok Hne) as [t [Et Nt]].
    { rewrite (map_snd_combine_seq n 0%nat _ Lwn). apply norm_weights_sum. exact Hsum. }
    rewrite Et in Hs. injection Hs as <-. exact Nt.
  Qed.

End Roundtrip.

(* ================================================================== 7. a whole slice: generic list facts *)
Lemma coord_insert_perm x l : Permutation (coord_insert x l) (x :: l).
Proof.
  induction l as [|y t IH]; cbn [coord_insert]; [reflexivity|].
  destruct (coord_ltb y x); [|reflexivity]. rewrite IH. apply perm_swap.
Qed.
Lemma sort_coords_perm l : Permutation (sort_coords l) l.
Proof.
  induction l as [|x l IH]; [reflexivity|]. cbn [sort_coords fold_right].
  change (fold_right coord_insert [] l) with (sort_coords l). rewrite coord_insert_perm, IH. reflexivity.
Qed.
Lemma perm_filter {A} (p : A -> bool) l l' : Permutation l l' -> Permutation (filter p l) (filter p l').
Proof.
  induction 1 as [|x l l' H IH|x y l|l1 l2 l3 H1 IH1 H2 IH2]; cbn [filter].
  - reflexivity.
  - destruct (p x); [apply perm_skip|]; exact IH.
  - destruct (p x), (p y); try reflexivity. apply perm_swap.
  - etransitivity; eassumption.
Qed.
Lemma Forall2_perm_r {A B} (R : A -> B -> Prop) l2 l2' :
  Permutation l2 l2' -> forall l1, Forall2 R l1 l2 -> exists l1', Permutation l1 l1' /\ Forall2 R l1' l2'.
Proof.
  induction 1 as [|y l2 l2' H IH|y z l2|la lb lc H1 IH1 H2 IH2]; intros l1 HF.
  - inversion HF. subst. exists []. split; [reflexivity|constructor].
  - inversion HF as [|x y' l1t l2t Hxy Ht]; subst. destruct (IH l1t Ht) as [l1' [P F]].
    exists (x :: l1'). split; [apply perm_skip; exact P|constructor; assumption].
  - inversion HF as [|x1 y' l1t l2t H1 Ht]; subst. inversion Ht as [|x2 z' l1t2 l2t2 H2 Ht2]; subst.
    exists (x2 :: x1 :: l1t2). split; [apply perm_swap|repeat constructor; assumption].
  - destruct (IH1 l1 HF) as [l1' [P1 F1]]. destruct (IH2 l1' F1) as [l1'' [P2 F2]].
    exists l1''. split; [etransitivity; eassumption|exact F2].
Qed.
Lemma qsum_perm l l' : Permutation l l' -> (qsum l == qsum l')%Q.
Proof.
  induction 1 as [|x l l' H IH|x y l|l1 l2 l3 H1 IH1 H2 IH2]; cbn [qsum].
  - reflexivity.
  - rewrite IH. reflexivity.
  - ring.
  - etransitivity; eassumption.
Qed.
Lemma filter_map_comm {A B} (f : A -> B) p l : filter p (map f l) = map f (filter (fun x => p (f x)) l).
Proof. induction l as [|x l IH]; cbn [map filter]; [reflexivity|]. destruct (p (f x)); cbn [map]; rewrite IH; reflexivity. Qed.
Lemma filter_none {A} (p : A -> bool) l : (forall x, In x l -> p x = false) -> filter p l = [].
Proof.
  induction l as [|x l IH]; intro H; cbn [filter]; [reflexivity|]. rewrite (H x (or_introl eq_refl)). apply IH.
  intros y Hy. apply H. right. exact Hy.
Qed.
(* a concatenation of blocks with pairwise different keys, filtered by "belongs to the block with key K" *)
Lemma filter_concat_block {A X} (key : A -> X) (items : A -> list cell) (q : cell -> bool) (K : X) :
  forall blocks b,
  NoDup (map key blocks) -> In b blocks -> key b = K ->
  (forall b' x, In b' blocks -> In x (items b') -> q x = true <-> key b' = K) ->
  filter q (concat (map items blocks)) = items b.
Proof.
  induction blocks as [|h t IH]; intros b Hnd Hin HK Hq; [destruct Hin|].
  cbn [map concat]. rewrite filter_app. cbn [map] in Hnd. inversion Hnd as [|k ks Hnotin Hnd']; subst.
  destruct Hin as [->|Hin].
  - rewrite (filter_all_true q (items b)) by (intros x Hx; apply (Hq b x (or_introl eq_refl) Hx); reflexivity).
    rewrite filter_none; [apply app_nil_r|].
    intros x Hx. apply in_concat in Hx. destruct Hx as [l [Hl Hxl]]. apply in_map_iff in Hl.
    destruct Hl as [b' [<- Hb']]. destruct (q x) eqn:E; [|reflexivity]. exfalso.
    apply (Hq b' x (or_intror Hb') Hxl) in E. apply Hnotin. rewrite <- E. apply in_map. exact Hb'.
  - rewrite filter_none.
    + cbn [app]. apply IH; auto. intros b' x Hb' Hx. apply Hq; [right; exact Hb'|exact Hx].
    + intros x Hx. destruct (q x) eqn:E; [|reflexivity]. exfalso.
      apply (Hq h x (or_introl eq_refl) Hx) in E. apply Hnotin. rewrite E. apply in_map. exact Hin.
Qed.

Section RoundtripSlice.
  Variable wavg : transform -> list value -> list value -> result value.
  Variable rules : rule_table.
  Variable nl : list str.

  Lemma ref_slice_period' r origin eo prem l :
    ref_slice wavg rules nl (mkArgs (Some r) None origin eo prem) l
    = match l with
      | [] => Ok []
      | _ :: _ => if existsb (straddles r origin) (sort_coords l) then Err TriangleError
                  else Summarize.map_result (window_cell wavg rules nl prem)
                         (groupby Summarize.coord_eqb coord3 (map (to_window r origin) (sort_coords l)))
      end.
  Proof. destruct l; reflexivity. Qed.

  (* one original cell of the slice with its adapted sub-period cells, on the grid (R = n*r, base month a0) *)
  Definition block_ok (fields : list str) (a0 : Z) (r n : nat) (b : cell * list cell) : Prop :=
    exists p ws outs,
      MINID <= a0 + p * Z.of_nat (n * r) /\ aligned (fst b) (a0 + p * Z.of_nat (n * r)) (Z.of_nat (n * r)) /\
      pe (fst b) <= ev (fst b) /\ length ws = n /\ ~ (qsum ws == 0)%Q /\
      disagg_cell r n ws fields (fst b) = Ok outs /\
      Forall2 (fun o c' => cell_of_ucell o = Some c') outs (snd b).

  (* A slice of fully observable month-aligned cells on one period grid (base month a0, resolution n*r; any number
     of periods and evaluation dates, pairwise different coordinates), every cell disaggregated into n sub-periods
     (weights may differ from cell to cell) and adapted; `blocks` pairs each original cell with its sub-period
     cells.  Re-aggregating ALL sub-period cells of the slice at the original resolution returns, whenever it
     returns anything, exactly the original cells: one output cell per original coordinate and vice versa, with
     the original metadata, each original cell's sub-periods landing in its own window, and every disaggregated
     additive field numerically equal to the original value. *)
  Theorem disaggregate_then_aggregate_slice fields a0 (r n : nat) blocks eo prem out :
    MINID < a0 -> (0 < r)%nat -> (0 < n)%nat ->
    Forall (block_ok fields a0 r n) blocks ->
    NoDup (map (fun b => coord3 (fst b)) blocks) ->
    ref_slice wavg rules nl (mkArgs (Some (RMonth (Z.of_nat (n * r)))) None (month_start a0 - 1) eo prem)
              (concat (map snd blocks)) = Ok out ->
    NoDup (map coord3 out) /\
    (forall b, In b blocks -> exists o, In o out /\ coord3 o = coord3 (fst b)) /\
    (forall o, In o out ->
       exists b, In b blocks /\ coord3 o = coord3 (fst b) /\ ckind o = KCum /\ cmeta o = cmeta (fst b) /\
         forall f v v', Units.mem_str f fields = true -> assoc f (cvals (fst b)) = Some v -> v <> VNone ->
           In (f, v') (cvals o) -> lookup_rule rules f = Some (RSum f) ->
           (prem = true \/ Summarize.mem_str f nl = false) -> value_numeq v' v).
  Proof.
    intros Ha0 Hr Hn Hblocks Hnd Href.
    set (R := Z.of_nat (n * r)) in *. set (tw := to_window (RMonth R) (month_start a0 - 1)) in *.
    (* facts per block *)
    assert (HB : forall b, In b blocks ->
               snd b <> [] /\ Forall (win_ok R a0 (fst b)) (snd b) /\
               exists kws a, (qsum (map snd kws) == 1)%Q /\
                             Forall2 (sub_cell_ok fields (fst b) a (Z.of_nat r)) kws (snd b)).
    { intros b Hb. rewrite Forall_forall in Hblocks.
      destruct (Hblocks b Hb) as (p & ws & outs & H1 & H2 & H3 & H4 & H5 & H6 & H7).
      destruct (block_facts fields (fst b) a0 p r n ws outs (snd b) Ha0 H1 Hr Hn H2 H3 H4 H5 H6 H7)
        as (Lwn & Hne & Hok & _ & Hwin).
      split; [exact Hne|]. split; [exact Hwin|].
      exists (combine (seq 0 n) (norm_weights ws)), (a0 + p * Z.of_nat (n * r)). split; [|exact Hok].
      rewrite (map_snd_combine_seq n 0%nat _ Lwn). apply norm_weights_sum. exact H5. }
    assert (Hcoord : forall b x, In b blocks -> In x (snd b) -> coord3 (tw x) = coord3 (fst b)).
    { intros b x Hb Hx. destruct (HB b Hb) as (_ & Hwin & _). rewrite Forall_forall in Hwin.
      destruct (Hwin x Hx) as (_ & Q1 & Q2 & Q3 & _).
      destruct (to_window_keeps (RMonth R) (month_start a0 - 1) x) as (E1 & _).
      unfold coord3, tw. rewrite Q1, Q2, E1, Q3. reflexivity. }
    assert (Hin_all : forall b x, In b blocks -> In x (snd b) -> In x (concat (map snd blocks))).
    { intros b x Hb Hx. apply in_concat. exists (snd b). split; [apply in_map; exact Hb|exact Hx]. }
    assert (Hall_block : forall x, In x (concat (map snd blocks)) -> exists b, In b blocks /\ In x (snd b)).
    { intros x Hx. apply in_concat in Hx.
      destruct Hx as [lb [Hlb Hxl]]. apply in_map_iff in Hlb. destruct Hlb as [b [<- Hb]]. eauto. }
    assert (Hfilter : forall b K, In b blocks -> coord3 (fst b) = K ->
              filter (fun x : cell => Summarize.coord_eqb (coord3 (tw x)) K) (concat (map snd blocks)) = snd b).
    { intros b K Hb HK. apply (filter_concat_block (fun b => coord3 (fst b)) snd _ K blocks b Hnd Hb HK).
      intros b' x' Hb' Hx'. cbv beta. rewrite (Hcoord b' x' Hb' Hx'). exact (SummarizeLib.coord_eqb_eq _ _). }
    remember (concat (map snd blocks)) as all eqn:Eall.
    destruct all as [|x0 rest].
    { rewrite ref_slice_period' in Href. cbv iota in Href. injection Href as <-.
      split; [constructor|]. split; [|intros o []].
      intros b Hb. exfalso. destruct (HB b Hb) as (Hne & _).
      destruct (snd b) as [|y ys] eqn:Eb; [congruence|]. apply (Hin_all b y Hb). rewrite Eb. left. reflexivity. }
    rewrite (ref_slice_period wavg rules nl) in Href. remember (x0 :: rest) as al eqn:Eal.
    destruct (existsb (straddles (RMonth R) (month_start a0 - 1)) (sort_coords al)); [discriminate|].
    fold tw in Href. set (l := map tw (sort_coords al)) in *.
    destruct (windows_one_cell_each wavg rules nl prem l out Href) as [Hkeys Hmem].
    assert (Hl_in : forall y, In y l <-> exists x, In x al /\ y = tw x).
    { intro y. unfold l. rewrite in_map_iff. split.
      - intros [x [<- Hx]]. exists x. split; [apply sort_coords_In; exact Hx|reflexivity].
      - intros [x [Hx ->]]. exists x. split; [reflexivity|apply sort_coords_In; exact Hx]. }
    split; [|split].
    - rewrite Hkeys. apply dedupe_NoDup. exact SummarizeLib.coord_eqb_eq.
    - intros b Hb. destruct (HB b Hb) as (Hne & _). destruct (snd b) as [|x xs] eqn:Eb; [congruence|].
      assert (Hx : In x (snd b)) by (rewrite Eb; left; reflexivity).
      assert (Hk : In (coord3 (fst b)) (map coord3 out)).
      { rewrite Hkeys. apply dedupe_In; [exact SummarizeLib.coord_eqb_eq|]. rewrite <- (Hcoord b x Hb Hx). apply in_map.
        apply Hl_in. exists x. split; [apply (Hin_all b x Hb Hx)|reflexivity]. }
      apply in_map_iff in Hk. destruct Hk as [o [Ho Hin]]. exists o. split; assumption.
    - intros o Ho. destruct (Hmem o Ho) as (Hkind & (c0 & rest0 & Hg & Hmeta) & Hscv).
      (* the block this output cell belongs to *)
      assert (Hk : In (coord3 o) (map coord3 l)).
      { apply (dedupe_In Summarize.coord_eqb SummarizeLib.coord_eqb_eq). rewrite <- Hkeys. apply in_map. exact Ho. }
      apply in_map_iff in Hk. destruct Hk as [y [Hy Hyl]]. apply Hl_in in Hyl. destruct Hyl as [x [Hx ->]].
      destruct (Hall_block x Hx) as [b [Hb Hxb]]. rewrite (Hcoord b x Hb Hxb) in Hy.
      exists b. split; [exact Hb|]. split; [symmetry; exact Hy|]. split; [exact Hkind|].
      (* the group of o is a permutation of b's sub-period cells *)
      set (K := coord3 o) in *.
      set (q := fun x : cell => Summarize.coord_eqb (coord3 (tw x)) K).
      assert (Hgq : members Summarize.coord_eqb coord3 l K = map tw (filter q (sort_coords al))).
      { unfold members, l. rewrite filter_map_comm. reflexivity. }
      assert (Hperm : Permutation (filter q (sort_coords al)) (snd b)).
      { rewrite (perm_filter q _ _ (sort_coords_perm al)). unfold q. rewrite (Hfilter b K Hb Hy). reflexivity. }
      destruct (HB b Hb) as (Hne & Hwin & kws & a & Hsum & Hok).
      destruct (Forall2_perm_r _ _ _ (Permutation_sym Hperm) kws Hok) as [kws' [Pk Hok']].
      set (g0 := filter q (sort_coords al)) in *.
      assert (Hg0ne : g0 <> []).
      { intro E. rewrite E in Hperm. apply Permutation_nil in Hperm. congruence. }
      split.
      + (* metadata: the head of the group is one of b's sub-period cells *)
        rewrite Hmeta. rewrite Hgq in Hg. destruct g0 as [|z zs] eqn:Eg0; [congruence|].
        cbn [map] in Hg. injection Hg as <- _.
        destruct (to_window_keeps (RMonth R) (month_start a0 - 1) z) as (_ & E2 & _). fold tw in E2. rewrite E2.
        assert (Hz : In z (snd b)) by (apply (Permutation_in z Hperm); left; reflexivity).
        rewrite Forall_forall in Hwin. destruct (Hwin z Hz) as (_ & _ & _ & _ & Q4). exact Q4.
      + intros f v v' Hm Hav Hnn Hin Hrule Hprem.
        assert (Hgne : members Summarize.coord_eqb coord3 l K <> []) by (rewrite Hg; discriminate).
        pose proof (scv_sum_entry wavg rules nl prem _ (cvals o) f v' Hscv Hgne Hin Hrule Hprem) as Hs.
        rewrite Hgq in Hs. unfold tw in Hs. rewrite raw_to_window in Hs.
        destruct (block_sum fields (fst b) a (Z.of_nat r) f v kws' g0 Hm Hav Hnn Hok' Hg0ne) as [t [Et Nt]].
        { rewrite <- (qsum_perm _ _ (Permutation_map snd Pk)). exact Hsum. }
        rewrite Et in Hs. injection Hs as <-. exact Nt.
  Qed.
End RoundtripSlice.
