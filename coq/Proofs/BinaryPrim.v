(* Codec lemmas (round trip / truncation / EOF) for the primitive readers of Model/Binary.v:
   fixed-width integers, floats, dates, strings, arrays, tagged values. *)
From Coq Require Import ZArith List Bool Lia ZifyBool.
From Bermuda Require Import Lib.Bytes Lib.BinParse Lib.Utf8 Lib.StrSort Model.Binary.
Import ListNotations.
Open Scope Z_scope.
Local Arguments le_enc : simpl never.

(* ------------------------------------------------------------------ fixed width *)
Lemma u8_rt n : 0 <= n < 256 -> RtAt dec_u8 (le_enc 1 n) n.
Proof.
  intros H. apply fixedp_rt. { apply le_enc_length. }
  now rewrite le_dec_enc by (change (256 ^ Z.of_nat 1) with 256; lia).
Qed.
Lemma u8_strict n : StrictAt dec_u8 (le_enc 1 n).
Proof. apply fixedp_strict, le_enc_length. Qed.

Lemma u16_rt n : 0 <= n < 65536 -> RtAt dec_u16 (le_enc 2 n) n.
Proof.
  intros H. apply fixedp_rt. { apply le_enc_length. }
  now rewrite le_dec_enc by (change (256 ^ Z.of_nat 2) with 65536; lia).
Qed.
Lemma u16_strict n : StrictAt dec_u16 (le_enc 2 n).
Proof. apply fixedp_strict, le_enc_length. Qed.
Lemma u16_eof : Eof dec_u16.
Proof. apply fixedp_eof. lia. Qed.

(* a length written with "<H" and read with "<h" *)
Lemma i16_of_u16_rt n : 0 <= n < 32768 -> RtAt dec_i16 (le_enc 2 n) n.
Proof.
  intros H. apply fixedp_rt. { apply le_enc_length. }
  rewrite le_dec_enc by (change (256 ^ Z.of_nat 2) with 65536; lia).
  unfold to_s16. destruct (Z.ltb_spec n 32768); [reflexivity|lia].
Qed.
Lemma i16_rt z : -32768 <= z < 32768 -> RtAt dec_i16 (le_enc 2 (of_s16 z)) z.
Proof.
  intros H. apply fixedp_rt. { apply le_enc_length. }
  rewrite le_dec_enc by apply of_s16_range. now rewrite s16_rt.
Qed.
Lemma i16_strict n : StrictAt dec_i16 (le_enc 2 n).
Proof. apply fixedp_strict, le_enc_length. Qed.
Lemma i16_eof : Eof dec_i16.
Proof. apply fixedp_eof. lia. Qed.

(* a pool length written with "<h" and read with "<H" *)
Lemma u16_of_i16_rt n : 0 <= n < 32768 -> RtAt dec_u16 (le_enc 2 (of_s16 n)) n.
Proof.
  intros H. unfold of_s16. rewrite Z.mod_small by lia. apply u16_rt. lia.
Qed.

Lemma u32_rt n : 0 <= n < 4294967296 -> RtAt dec_u32 (le_enc 4 n) n.
Proof.
  intros H. apply fixedp_rt. { apply le_enc_length. }
  now rewrite le_dec_enc by (change (256 ^ Z.of_nat 4) with 4294967296; lia).
Qed.
Lemma u32_strict n : StrictAt dec_u32 (le_enc 4 n).
Proof. apply fixedp_strict, le_enc_length. Qed.

Lemma i64_rt z : -9223372036854775808 <= z < 9223372036854775808 ->
  RtAt dec_i64 (le_enc 8 (of_s64 z)) z.
Proof.
  intros H. apply fixedp_rt. { apply le_enc_length. }
  rewrite le_dec_enc by apply of_s64_range. now rewrite s64_rt.
Qed.
Lemma i64_strict n : StrictAt dec_i64 (le_enc 8 n).
Proof. apply fixedp_strict, le_enc_length. Qed.

Lemma f64b_length f : f64b f = true -> length f = 8%nat.
Proof. unfold f64b. intros H. apply andb_true_iff in H as [H0 H1]. lia. Qed.

Lemma f64_rt f : f64b f = true -> RtAt dec_f64 f f.
Proof. intros H. apply fixedp_rt; auto. now apply f64b_length. Qed.
Lemma f64_strict f : f64b f = true -> StrictAt dec_f64 f.
Proof. intros H. apply fixedp_strict. now apply f64b_length. Qed.

Lemma bool_rt (b : bool) : RtAt dec_bool (le_enc 1 (if b then 1 else 0)) b.
Proof. apply fixedp_rt. { apply le_enc_length. } destruct b; reflexivity. Qed.
Lemma bool_strict n : StrictAt dec_bool (le_enc 1 n).
Proof. apply fixedp_strict, le_enc_length. Qed.

Lemma limit_rt o : limitb o = true -> RtAt dec_limit (enc_limit o) o.
Proof.
  destruct o as [f|]; simpl; intros H.
  - apply andb_true_iff in H as [Hf Hn]. apply fixedp_rt. { now apply f64b_length. }
    destruct (is_nanb f); [discriminate|reflexivity].
  - apply fixedp_rt; reflexivity.
Qed.
Lemma limit_strict o : limitb o = true -> StrictAt dec_limit (enc_limit o).
Proof.
  destruct o as [f|]; simpl; intros H.
  - apply andb_true_iff in H as [Hf Hn]. apply fixedp_strict. now apply f64b_length.
  - apply fixedp_strict. reflexivity.
Qed.
Lemma limit_eof : Eof dec_limit.
Proof. apply fixedp_eof. lia. Qed.

(* ------------------------------------------------------------------ dates *)
Lemma date_okb_range y m d : date_okb (y, m, d) = true -> 1 <= y <= 9999 /\ 1 <= m <= 12 /\ 1 <= d <= 31.
Proof.
  unfold date_okb, days_in_month. intros H.
  repeat (apply andb_true_iff in H as [H ?]).
  destruct (m =? 2); [destruct (is_leap y)|destruct ((m =? 4) || (m =? 6) || (m =? 9) || (m =? 11))]; lia.
Qed.

Lemma enc_date_length d : length (enc_date d) = 4%nat.
Proof. destruct d as [[y m] dd]. reflexivity. Qed.

Lemma date_rt d : date_okb d = true -> RtAt dec_date (enc_date d) d.
Proof.
  destruct d as [[y m] dd]. intros H. apply fixedp_rt. { reflexivity. }
  pose proof (date_okb_range _ _ _ H) as (Hy & Hm & Hd).
  unfold enc_date.
  change (le_enc 2 (of_s16 y)) with [of_s16 y mod 256; of_s16 y / 256 mod 256].
  cbn [app].
  change [of_s16 y mod 256; of_s16 y / 256 mod 256] with (le_enc 2 (of_s16 y)).
  rewrite le_dec_enc by apply of_s16_range. rewrite s16_rt by lia. now rewrite H.
Qed.
Lemma date_strict d : StrictAt dec_date (enc_date d).
Proof. apply fixedp_strict, enc_date_length. Qed.
Lemma date_eof : Eof dec_date.
Proof. apply fixedp_eof. lia. Qed.

(* ------------------------------------------------------------------ strings *)
Lemma strb_facts s : strb s = true ->
  utf8_valid s = true /\ 0 <= Z.of_nat (length s) < 32768.
Proof. unfold strb. intros H. repeat (apply andb_true_iff in H as [H ?]). split; auto. lia. Qed.

Definition str_body (len : Z) : parser (option str) :=
  pmapr (fun bs => if utf8_valid bs then ROk (Some bs) else RErr EUnicode) (read_upto len).

Lemma dec_str_cont len : 0 <= len ->
  (if len =? -1 then ret None else if len <? 0 then fail EValue else str_body len) = str_body len.
Proof.
  intros H. destruct (Z.eqb_spec len (-1)); [lia|]. destruct (Z.ltb_spec len 0); [lia|reflexivity].
Qed.

Lemma str_rt o : ostrb o = true -> RtAt dec_str (enc_str o) o.
Proof.
  destruct o as [s|]; cbn [enc_str ostrb]; intros H.
  - destruct (strb_facts _ H) as [Hu Hl]. unfold dec_str.
    apply bind_rt with (a := Z.of_nat (length s)). { now apply i16_of_u16_rt. }
    fold (str_body (Z.of_nat (length s))). rewrite dec_str_cont by lia.
    eapply pmapr_rt. { apply read_upto_rt. } now rewrite Hu.
  - unfold dec_str. rewrite <- (app_nil_r (le_enc 2 (of_s16 (-1)))).
    apply bind_rt with (a := -1). { apply i16_rt; lia. } apply ret_rt.
Qed.

Lemma str_tb o : ostrb o = true -> TbAt dec_str (enc_str o).
Proof.
  destruct o as [s|]; cbn [enc_str ostrb]; intros H.
  - destruct (strb_facts _ H) as [Hu Hl]. unfold dec_str.
    apply bind_tb_S with (a := Z.of_nat (length s)).
    { now apply i16_of_u16_rt. } { apply i16_strict. }
    fold (str_body (Z.of_nat (length s))). rewrite dec_str_cont by lia.
    apply pmapr_tb, read_upto_tb.
  - unfold dec_str. rewrite <- (app_nil_r (le_enc 2 (of_s16 (-1)))).
    apply bind_tb_S with (a := -1). { apply i16_rt; lia. } { apply i16_strict. } apply tb_nil.
Qed.

Lemma str_eof : Eof dec_str.
Proof. apply bind_eof, i16_eof. Qed.

(* ------------------------------------------------------------------ arrays *)
Definition dimb (d : Z) : bool := (0 <=? d) && (d <? 4294967296).

Lemma dims_rt dims : forallb dimb dims = true ->
  RtAt (dec_dims (length dims)) (enc_dims dims) dims.
Proof.
  induction dims as [|d r IH]; cbn [length dec_dims enc_dims forallb]; intros H.
  - apply ret_rt.
  - apply andb_true_iff in H as [Hd Hr]. unfold dimb in Hd.
    apply bind_rt with (a := d). { apply u32_rt; lia. }
    rewrite <- (app_nil_r (enc_dims r)) at 1. rewrite app_nil_r.
    eapply pmapr_rt; [apply IH, Hr | reflexivity].
Qed.

Lemma dims_strict dims : forallb dimb dims = true ->
  StrictAt (dec_dims (length dims)) (enc_dims dims).
Proof.
  induction dims as [|d r IH]; cbn [length dec_dims enc_dims forallb]; intros H.
  - apply strict_nil.
  - apply andb_true_iff in H as [Hd Hr]. unfold dimb in Hd.
    apply bind_strict_S with (a := d). { apply u32_rt; lia. } { apply u32_strict. }
    apply pmapr_strict, IH, Hr.
Qed.

Definition arr_check (dt : dtype) (nd : Z) (dims : list Z) (pl : bytes) : result gval :=
  if (Z.of_nat (length pl) =? 8 * prodZ dims) && (nd <=? 32)
  then ROk (GArr dt dims pl) else RErr EValue.

Lemma arr_facts dims pl : dimsb dims && bytesb pl && (Z.of_nat (length pl) =? 8 * prodZ dims) = true ->
  forallb dimb dims = true /\ 0 <= Z.of_nat (length dims) <= 32 /\ Z.of_nat (length pl) = 8 * prodZ dims.
Proof.
  unfold dimsb. intros H. repeat (apply andb_true_iff in H as [H ?]).
  split; [exact H|]. lia.
Qed.

Lemma arr_rt dt dims pl :
  dimsb dims && bytesb pl && (Z.of_nat (length pl) =? 8 * prodZ dims) = true ->
  RtAt (dec_arr dt) (enc_arr dims pl) (GArr dt dims pl).
Proof.
  intros H. destruct (arr_facts _ _ H) as (Hd & Hn & Hl). unfold dec_arr, enc_arr.
  apply bind_rt with (a := Z.of_nat (length dims)). { apply u8_rt; lia. }
  rewrite Nat2Z.id.
  apply bind_rt with (a := dims). { now apply dims_rt. }
  rewrite <- Hl. eapply pmapr_rt. { apply read_upto_rt. }
  rewrite Hl. destruct (Z.eqb_spec (8 * prodZ dims) (8 * prodZ dims)); [|lia].
  destruct (Z.leb_spec (Z.of_nat (length dims)) 32); [reflexivity|lia].
Qed.

Lemma payload_strict dt nd dims pl : Z.of_nat (length pl) = 8 * prodZ dims ->
  StrictAt (pmapr (fun p => if (Z.of_nat (length p) =? 8 * prodZ dims) && (nd <=? 32)
                            then ROk (GArr dt dims p) else RErr EValue)
                  (read_upto (8 * prodZ dims))) pl.
Proof.
  intros Hl n Hn. unfold pmapr. rewrite <- Hl. rewrite read_upto_prefix by assumption.
  rewrite firstn_length, Nat.min_l by lia.
  destruct (Z.eqb_spec (Z.of_nat n) (Z.of_nat (length pl))); [lia|]. apply IsErr_Err.
Qed.

Lemma arr_strict dt dims pl :
  dimsb dims && bytesb pl && (Z.of_nat (length pl) =? 8 * prodZ dims) = true ->
  StrictAt (dec_arr dt) (enc_arr dims pl).
Proof.
  intros H. destruct (arr_facts _ _ H) as (Hd & Hn & Hl). unfold dec_arr, enc_arr.
  apply bind_strict_S with (a := Z.of_nat (length dims)). { apply u8_rt; lia. } { apply u8_strict. }
  rewrite Nat2Z.id.
  apply bind_strict_S with (a := dims). { now apply dims_rt. } { now apply dims_strict. }
  now apply payload_strict.
Qed.

(* ------------------------------------------------------------------ tagged values *)
Lemma gval_rt v : gvalb v = true -> RtAt dec_gval (enc_gval v) v.
Proof.
  destruct v; cbn [gvalb enc_gval]; intros H k; cbn [app dec_gval].
  - (* GStr *) change (T_STRING =? T_STRING) with true. cbv iota.
    unfold pmap. erewrite pmapr_rt; [reflexivity | apply (str_rt (Some s)); exact H | reflexivity].
  - (* GBool *) change (T_BOOL =? T_STRING) with false. change (T_BOOL =? T_BOOL) with true. cbv iota.
    unfold pmap. erewrite pmapr_rt; [reflexivity | apply bool_rt | reflexivity].
  - (* GInt *) change (T_INT =? T_STRING) with false. change (T_INT =? T_BOOL) with false.
    change (T_INT =? T_INT) with true. cbv iota.
    unfold pmap. erewrite pmapr_rt; [reflexivity | apply i64_rt; lia | reflexivity].
  - (* GFloat *) change (T_FLOAT =? T_STRING) with false. change (T_FLOAT =? T_BOOL) with false.
    change (T_FLOAT =? T_INT) with false. change (T_FLOAT =? T_FLOAT) with true. cbv iota.
    unfold pmap. erewrite pmapr_rt; [reflexivity | apply f64_rt; exact H | reflexivity].
  - (* GDate *) change (T_DATE =? T_STRING) with false. change (T_DATE =? T_BOOL) with false.
    change (T_DATE =? T_INT) with false. change (T_DATE =? T_FLOAT) with false.
    change (T_DATE =? T_INT_ARRAY) with false. change (T_DATE =? T_FLOAT_ARRAY) with false.
    change (T_DATE =? T_DATE) with true. cbv iota.
    unfold pmap. erewrite pmapr_rt; [reflexivity | apply date_rt; exact H | reflexivity].
  - (* GNone *) reflexivity.
  - (* GArr *) destruct dt; cbn [arr_tag].
    + change (T_INT_ARRAY =? T_STRING) with false. change (T_INT_ARRAY =? T_BOOL) with false.
      change (T_INT_ARRAY =? T_INT) with false. change (T_INT_ARRAY =? T_FLOAT) with false.
      change (T_INT_ARRAY =? T_INT_ARRAY) with true. cbv iota. now apply arr_rt.
    + change (T_FLOAT_ARRAY =? T_STRING) with false. change (T_FLOAT_ARRAY =? T_BOOL) with false.
      change (T_FLOAT_ARRAY =? T_INT) with false. change (T_FLOAT_ARRAY =? T_FLOAT) with false.
      change (T_FLOAT_ARRAY =? T_INT_ARRAY) with false.
      change (T_FLOAT_ARRAY =? T_FLOAT_ARRAY) with true. cbv iota. now apply arr_rt.
Qed.

(* on a strict prefix of a value's encoding the reader fails or has swallowed everything;
   on the empty stream it RETURNS None (the fall-through of _read_generic_value) *)
Lemma gval_tb v : gvalb v = true -> TbAt dec_gval (enc_gval v).
Proof.
  intros H n Hn. destruct n as [|n].
  { right. exists GNone. reflexivity. }
  destruct v; cbn [gvalb enc_gval length] in *; cbn [firstn dec_gval].
  - change (T_STRING =? T_STRING) with true. cbv iota.
    apply (pmapr_tb _ _ _ (str_tb (Some s) H)). lia.
  - change (T_BOOL =? T_STRING) with false. change (T_BOOL =? T_BOOL) with true. cbv iota.
    left. apply (pmapr_strict _ _ _ (bool_strict _)). lia.
  - change (T_INT =? T_STRING) with false. change (T_INT =? T_BOOL) with false.
    change (T_INT =? T_INT) with true. cbv iota.
    left. apply (pmapr_strict _ _ _ (i64_strict _)). lia.
  - change (T_FLOAT =? T_STRING) with false. change (T_FLOAT =? T_BOOL) with false.
    change (T_FLOAT =? T_INT) with false. change (T_FLOAT =? T_FLOAT) with true. cbv iota.
    left. apply (pmapr_strict _ _ _ (f64_strict _ H)). lia.
  - change (T_DATE =? T_STRING) with false. change (T_DATE =? T_BOOL) with false.
    change (T_DATE =? T_INT) with false. change (T_DATE =? T_FLOAT) with false.
    change (T_DATE =? T_INT_ARRAY) with false. change (T_DATE =? T_FLOAT_ARRAY) with false.
    change (T_DATE =? T_DATE) with true. cbv iota.
    left. apply (pmapr_strict _ _ _ (date_strict _)). lia.
  - simpl in Hn. lia.
  - destruct dt; cbn [arr_tag].
    + change (T_INT_ARRAY =? T_STRING) with false. change (T_INT_ARRAY =? T_BOOL) with false.
      change (T_INT_ARRAY =? T_INT) with false. change (T_INT_ARRAY =? T_FLOAT) with false.
      change (T_INT_ARRAY =? T_INT_ARRAY) with true. cbv iota.
      left. apply (arr_strict DInt _ _ H). lia.
    + change (T_FLOAT_ARRAY =? T_STRING) with false. change (T_FLOAT_ARRAY =? T_BOOL) with false.
      change (T_FLOAT_ARRAY =? T_INT) with false. change (T_FLOAT_ARRAY =? T_FLOAT) with false.
      change (T_FLOAT_ARRAY =? T_INT_ARRAY) with false.
      change (T_FLOAT_ARRAY =? T_FLOAT_ARRAY) with true. cbv iota.
      left. apply (arr_strict DFloat _ _ H). lia.
Qed.

Lemma enc_gval_nonempty v : (0 < length (enc_gval v))%nat.
Proof. destruct v; simpl; lia. Qed.
