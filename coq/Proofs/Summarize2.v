(** C09 continued: conservation of totals, the shared-metadata rule, refusals, premium handling. *)
From Coq Require Import ZArith List Bool Lia ZifyBool.
From Bermuda Require Import Model.Base Model.Summarize Proofs.SummarizeLib Proofs.Summarize.
Import ListNotations.
Local Open Scope Z_scope.

(* ------------------------------------------------------------------ consistency / gcd helpers *)
Lemma opt_str_eqb_eq (a b : option str) : opt_eqb str_eqb a b = true <-> a = b.
Proof.
  destruct a, b; cbn; try (split; congruence). rewrite str_eqb_eq. split; congruence.
Qed.
Lemma consistent_spec (vals : list (option str)) :
  consistent str_eqb vals = true <-> exists v0 r, vals = v0 :: r /\ forall v, In v vals -> v = v0.
Proof.
  destruct vals as [|v0 r]; cbn [consistent].
  - split; [discriminate | intros (? & ? & ? & _); discriminate].
  - rewrite forallb_forall. split.
    + intros H. exists v0, r. split; [reflexivity|]. intros v [<-|Hv]; [reflexivity|].
      now apply opt_str_eqb_eq, H.
    + intros (v0' & r' & E & H). inversion E. subst. intros v Hv. apply opt_str_eqb_eq, H. now right.
Qed.
Lemma attr_gcd_str_spec (vals : list (option str)) s :
  attr_gcd str_eqb vals = Some s <-> vals <> [] /\ forall v, In v vals -> v = Some s.
Proof.
  destruct vals as [|v0 r]; cbn [attr_gcd].
  - split; [discriminate | intros [H _]; congruence].
  - destruct (forallb (fun v => opt_pyeq str_eqb v v0) (v0 :: r)) eqn:E.
    + rewrite forallb_forall in E. split.
      * intros ->. split; [discriminate|]. intros v Hv. now apply opt_str_eqb_eq, E.
      * intros [_ H]. apply H. now left.
    + split; [discriminate|]. intros [_ H]. exfalso.
      assert (forallb (fun v => opt_pyeq str_eqb v v0) (v0 :: r) = true); [|congruence].
      apply forallb_forall. intros v Hv. apply opt_str_eqb_eq. rewrite (H v Hv). symmetry. apply H. now left.
Qed.
(* numeric attribute (per_occurrence_limit): Python == is numeric; the first cell's value is kept *)
Lemma attr_gcd_num_spec (vals : list (option num)) x :
  attr_gcd num_eqb vals = Some x <->
  exists r, vals = Some x :: r /\ forall v, In v vals -> exists y, v = Some y /\ num_n y = num_n x.
Proof.
  destruct vals as [|v0 r]; cbn [attr_gcd].
  - split; [discriminate | intros (? & ? & _); discriminate].
  - destruct (forallb (fun v => opt_pyeq num_eqb v v0) (v0 :: r)) eqn:E.
    + rewrite forallb_forall in E. split.
      * intros ->. exists r. split; [reflexivity|]. intros v Hv. specialize (E v Hv).
        destruct v as [y|]; cbn in E; [|discriminate]. exists y. split; [reflexivity|].
        unfold num_eqb in E. lia.
      * intros (r' & Er & _). now inversion Er.
    + split; [discriminate|]. intros (r' & Er & H). exfalso. inversion Er. subst.
      assert (forallb (fun v => opt_pyeq num_eqb v (Some x)) (Some x :: r') = true); [|congruence].
      apply forallb_forall. intros v Hv. destruct (H v Hv) as (y & -> & Ey). cbn. unfold num_eqb. lia.
Qed.

Lemma assoc_filter {V} (p : str * V -> bool) k (d : list (str * V)) :
  NoDup (keys d) ->
  assoc k (filter p d) = match assoc k d with Some v => if p (k, v) then Some v else None | None => None end.
Proof.
  unfold keys. induction d as [|[k' v'] r IH]; cbn [filter assoc map fst]; [reflexivity|].
  intros Hnd. inversion Hnd as [|? ? Hni Hnd']. subst. destruct (str_eqb k k') eqn:E.
  - apply str_eqb_eq in E. subst k'. destruct (p (k, v')) eqn:Ep.
    + cbn [assoc]. now rewrite str_eqb_refl.
    + rewrite (IH Hnd'). assert (assoc k r = None) as ->; [|reflexivity].
      apply assoc_None_keys. exact Hni.
  - destruct (p (k', v')); [cbn [assoc]; rewrite E|]; apply (IH Hnd').
Qed.

(* _details_gcd keeps exactly the entries (key, non-None value) of the first dict that every other
   dict holds with an ==-equal value *)
Theorem details_gcd_spec d0 others k v :
  NoDup (keys d0) ->
  (assoc k (details_gcd (d0 :: others)) = Some v <->
   assoc k d0 = Some v /\ v <> MNone /\
   forall d, In d others -> exists v', assoc k d = Some v' /\ mval_pyeq v' v = true).
Proof.
  intros Hnd. cbn [details_gcd]. rewrite (assoc_filter _ _ _ Hnd).
  destruct (assoc k d0) as [v0|]; [|split; [discriminate | intros [H _]; discriminate]].
  unfold detail_shared. cbn [fst snd].
  assert (negb (mval_seqb v0 MNone) = true <-> v0 <> MNone) as HN.
  { destruct v0; cbn; split; congruence. }
  destruct (forallb _ others) eqn:E; cbn [andb].
  - rewrite forallb_forall in E. destruct (negb (mval_seqb v0 MNone)) eqn:En.
    + split.
      * intros H. inversion H. subst v0. split; [reflexivity|]. split; [now apply HN|].
        intros d Hd. specialize (E d Hd). destruct (assoc k d) as [v'|]; [eauto | discriminate].
      * intros (H & _). exact H.
    + split; [discriminate|]. intros (H & Hn & _). inversion H. subst v0. apply HN in Hn. congruence.
  - split; [discriminate|]. intros (H & _ & Hall). inversion H. subst v0. exfalso.
    assert (forallb (fun d => match assoc k d with Some v1 => mval_pyeq v1 v | None => false end) others = true);
      [|congruence].
    apply forallb_forall. intros d Hd. destruct (Hall d Hd) as (v' & -> & Ev). exact Ev.
Qed.

Section Thms2.
  Variable wavg : transform -> list value -> list value -> result value.
  Variable rules : rule_table.
  Variable nl : list str.
  Notation scv := (summarize_cell_values wavg rules nl).
  Notation summ := (summarize wavg rules nl).
  Notation lookup := (lookup_rule rules).

  (* ---------------------------------------------------------------- refusals *)
  Lemma metadata_gcd_refuses t :
    consistent str_eqb (map risk_basis (map cmeta t)) = false
    \/ consistent str_eqb (map currency (map cmeta t)) = false ->
    metadata_gcd t = Err TriangleError.
  Proof.
    unfold metadata_gcd. intros [H|H].
    - now rewrite H.
    - rewrite H. destruct (consistent str_eqb (map risk_basis (map cmeta t))); reflexivity.
  Qed.
  Lemma inconsistent_if (f : meta -> option str) t c1 c2 :
    In c1 t -> In c2 t -> f (cmeta c1) <> f (cmeta c2) ->
    consistent str_eqb (map f (map cmeta t)) = false.
  Proof.
    intros H1 H2 Hne. apply not_true_is_false. intros H. apply consistent_spec in H.
    destruct H as (v0 & r & _ & Hall). apply Hne.
    rewrite (Hall (f (cmeta c1))), (Hall (f (cmeta c2))); auto; rewrite map_map; apply in_map_iff; eauto.
  Qed.
  Theorem summarize_mixed_currency_refused prem t c1 c2 :
    In c1 t -> In c2 t -> currency (cmeta c1) <> currency (cmeta c2) ->
    summ prem t = Err TriangleError.
  Proof.
    intros H1 H2 Hne. unfold summarize. rewrite metadata_gcd_refuses; [reflexivity|].
    right. apply (inconsistent_if currency t c1 c2); assumption.
  Qed.
  Theorem summarize_mixed_risk_basis_refused prem t c1 c2 :
    In c1 t -> In c2 t -> risk_basis (cmeta c1) <> risk_basis (cmeta c2) ->
    summ prem t = Err TriangleError.
  Proof.
    intros H1 H2 Hne. unfold summarize. rewrite metadata_gcd_refuses; [reflexivity|].
    left. apply (inconsistent_if risk_basis t c1 c2); assumption.
  Qed.
  Theorem summarize_empty_refused prem : summ prem [] = Err TriangleError.
  Proof. reflexivity. Qed.

  Lemma metadata_gcd_err t e : metadata_gcd t = Err e -> e = TriangleError.
  Proof.
    unfold metadata_gcd. destruct t as [|c0 r]; [cbn; intros H; now inversion H|].
    destruct (negb (consistent str_eqb (map risk_basis (map cmeta (c0 :: r))))); [intros H; now inversion H|].
    destruct (negb (consistent str_eqb (map currency (map cmeta (c0 :: r))))); [intros H; now inversion H|].
    cbn [map]. discriminate.
  Qed.

  (* a field without a rule: never an Ok result ... *)
  Theorem summarize_unregistered_never_ok prem t out c k :
    summ prem t = Ok out -> In c t -> In k (keys (cvals c)) -> lookup k <> None.
  Proof.
    intros H Hc Hk Hl. destruct (summarize_inv _ _ _ _ _ _ H) as (m & _ & F).
    (* the group of c *)
    set (inc := inc_of t) in *.
    assert (In (coord_of inc c) (map fst (groupby coord_eqb (coord_of inc) t))) as Hg.
    { rewrite (groupby_keys coord_eqb _ coord_eqb_eq). apply dedupe_In; [exact coord_eqb_eq|]. now apply in_map. }
    apply in_map_iff in Hg. destruct Hg as ([k0 g] & Ek0 & Hg). cbn [fst] in Ek0. subst k0.
    assert (exists o, out_rel wavg rules nl prem t m (coord_of inc c, g) o) as (o & vals & Ev & _).
    { clear -F Hg. induction F as [|a b l out Hab F IH]; [destruct Hg|].
      destruct Hg as [->|Hg]; [eauto | auto]. }
    cbn [snd] in Ev.
    destruct (groupby_In coord_eqb _ coord_eqb_eq _ _ _ Hg) as [-> _].
    rewrite (scv_unregistered wavg rules nl _ _ k) in Ev; [discriminate| |exact Hl].
    apply union_keys_In. exists c. split; [|exact Hk].
    unfold members. apply filter_In. split; [exact Hc | now apply coord_eqb_eq].
  Qed.
  (* ... and every error of summarize is TriangleError or a value-level failure (shape/dtype
     mismatch, KeyError of a rule reading an absent key) raised while summarising one group *)
  Theorem summarize_error_provenance prem t e :
    summ prem t = Err e ->
    e = TriangleError \/
    exists k, In k (map (coord_of (inc_of t)) t) /\
              scv (prem_of prem t) (group_of (inc_of t) k t) = Err e.
  Proof.
    unfold summarize. destruct (metadata_gcd t) as [m|] eqn:Em; cbn [bind].
    - intros H. apply map_result_Err in H. destruct H as ([k g] & Hg & E). cbn [fst snd] in E.
      right. exists k. destruct (groupby_In coord_eqb _ coord_eqb_eq _ _ _ Hg) as [-> Hk].
      split; [exact Hk|]. unfold prem_of, inc_of, group_of.
      fold (members coord_eqb (coord_of (tri_is_incremental t)) t k).
      destruct (summarize_cell_values wavg rules nl _ _); cbn [bind] in E; [discriminate | now inversion E].
    - intros H. inversion H. subst. left. eapply metadata_gcd_err. exact Em.
  Qed.

  (* ---------------------------------------------------------------- shared metadata *)
  (* every output cell carries metadata_gcd t; its shape: *)
  Theorem metadata_gcd_shape t m :
    metadata_gcd t = Ok m ->
    exists c0 r, t = c0 :: r /\
      (forall c, In c t -> risk_basis (cmeta c) = risk_basis m /\ currency (cmeta c) = currency m) /\
      country m = attr_gcd str_eqb (map country (map cmeta t)) /\
      reinsurance_basis m = attr_gcd str_eqb (map reinsurance_basis (map cmeta t)) /\
      loss_definition m = attr_gcd str_eqb (map loss_definition (map cmeta t)) /\
      per_occurrence_limit m = attr_gcd num_eqb (map per_occurrence_limit (map cmeta t)) /\
      details m = details_gcd (map details (map cmeta t)) /\
      loss_details m = details_gcd (map loss_details (map cmeta t)).
  Proof.
    unfold metadata_gcd.
    destruct (consistent str_eqb (map risk_basis (map cmeta t))) eqn:Er; cbn [negb]; [|discriminate].
    destruct (consistent str_eqb (map currency (map cmeta t))) eqn:Ec; cbn [negb]; [|discriminate].
    destruct t as [|c0 r]; [discriminate|]. cbn [map]. intros H. inversion H. subst m. clear H.
    exists c0, r. split; [reflexivity|]. cbn. repeat split; auto.
    - apply consistent_spec in Er. destruct Er as (v0 & r' & E & Hall). inversion E. subst.
      apply Hall. change (risk_basis (cmeta c0) :: map risk_basis (map cmeta r))
        with (map risk_basis (map cmeta (c0 :: r))). rewrite map_map. apply in_map_iff. eauto.
    - apply consistent_spec in Ec. destruct Ec as (v0 & r' & E & Hall). inversion E. subst.
      apply Hall. change (currency (cmeta c0) :: map currency (map cmeta r))
        with (map currency (map cmeta (c0 :: r))). rewrite map_map. apply in_map_iff. eauto.
  Qed.

  (* a string attribute survives iff every cell has it with that value *)
  Theorem shared_str_attribute (f : meta -> option str) t s :
    t <> [] ->
    (attr_gcd str_eqb (map f (map cmeta t)) = Some s <-> forall c, In c t -> f (cmeta c) = Some s).
  Proof.
    intros Hne. rewrite attr_gcd_str_spec, map_map. split.
    - intros [_ H] c Hc. apply H. apply in_map_iff. eauto.
    - intros H. split; [destruct t; [congruence | discriminate]|].
      intros v Hv. apply in_map_iff in Hv. destruct Hv as (c & <- & Hc). auto.
  Qed.
  (* a detail entry survives iff it is not None, the first cell has it, and every cell has the key
     with an ==-equal value *)
  Theorem shared_detail_entry (f : meta -> list (str * mval)) c0 r k v :
    NoDup (keys (f (cmeta c0))) ->
    (assoc k (details_gcd (map f (map cmeta (c0 :: r)))) = Some v <->
     assoc k (f (cmeta c0)) = Some v /\ v <> MNone /\
     forall c, In c r -> exists v', assoc k (f (cmeta c)) = Some v' /\ mval_pyeq v' v = true).
  Proof.
    intros Hnd. cbn [map]. rewrite (details_gcd_spec _ _ _ _ Hnd), map_map. split.
    - intros (A & B & C). repeat split; auto. intros c Hc. apply C. apply in_map_iff. eauto.
    - intros (A & B & C). repeat split; auto. intros d Hd. apply in_map_iff in Hd.
      destruct Hd as (c & <- & Hc). auto.
  Qed.

  (* ---------------------------------------------------------------- premium handling *)
  (* summarize_premium=False on a cumulative triangle: a NON_LOSS field of an output cell is the
     value held by the first cell of its group (not a sum over the loss layers) *)
  Theorem summarize_premium_not_summed t out o k v :
    summ false t = Ok out -> inc_of t = false -> In o out -> In (k, v) (cvals o) -> mem_str k nl = true ->
    exists c g, group_of false (coord_of false o) t = c :: g /\ v = getv k c.
  Proof.
    intros H Hinc Hin Hkv Hnl. destruct (summarize_cell _ _ _ _ _ _ _ H Hin) as (Hne & Ev & _).
    unfold prem_of in Ev. rewrite Hinc in *.
    destruct (group_of false (coord_of false o) t) as [|c g] eqn:Eg; [congruence|].
    exists c, g. split; [reflexivity|].
    destruct (scv_false_entry _ _ _ _ _ _ Ev) as [_ Hall]. destruct (Hall _ _ Hkv) as [(Hn & _)|(_ & E)]; [congruence|exact E].
  Qed.

  (* ---------------------------------------------------------------- conservation *)
  Definition field_total (i : nat) (k : str) (cells : list cell) : Z :=
    zsum (map (fun c => vmeas i (getv k c)) cells).

  Lemma absent_total i k g : ~ In k (union_keys g) -> field_total i k g = 0.
  Proof.
    intros H. unfold field_total. induction g as [|c g IH]; [reflexivity|]. cbn [map zsum].
    rewrite getv_absent, IH; [reflexivity| |].
    - intros Hk. apply H. apply union_keys_In in Hk. destruct Hk as (c' & Hc' & Hk).
      apply union_keys_In. exists c'. split; [now right | exact Hk].
    - intros Hk. apply H. apply union_keys_In. exists c. split; [now left | exact Hk].
  Qed.

  (* every total of a field whose rule is "sum of its own key" is conserved, component-wise for
     array-valued fields (i ranges over the components present in every output value) *)
  Theorem conservation prem t out k i :
    summ prem t = Ok out ->
    lookup k = Some (RSum k) -> (prem_of prem t = true \/ mem_str k nl = false) ->
    (forall o, In o out -> in_range i (getv k o)) ->
    field_total i k out = field_total i k t.
  Proof.
    intros H Hl Hp Hr. unfold field_total at 2.
    rewrite <- (zsum_groupby coord_eqb (coord_of (inc_of t)) coord_eqb_eq (fun c => vmeas i (getv k c)) t).
    destruct (summarize_inv _ _ _ _ _ _ H) as (m & _ & F).
    unfold field_total. f_equal.
    apply (Forall2_map_eq _ _ _ _ _ F). intros [k0 g] o Hg Hrel. cbn [snd].
    assert (Hin : In o out).
    { clear -F Hg Hrel. induction F as [|a b l out' Hab F IH]; [destruct Hg|].
      destruct Hg as [->|Hg].
      - destruct Hrel as (v1 & E1 & ->). destruct Hab as (v2 & E2 & ->). rewrite E1 in E2. inversion E2. now left.
      - right. auto. }
    destruct (summarize_cell _ _ _ _ _ _ _ H Hin) as (_ & Ev & _).
    destruct (summarize_keys _ _ _ _ _ _ _ H Hin) as (Hnd & Hkeys).
    destruct Hrel as (vals & Evals & Eo).
    assert (Eg : group_of (inc_of t) (coord_of (inc_of t) o) t = g).
    { subst o. rewrite coord_summary_cell by (eapply group_key_shape; exact Hg).
      destruct (groupby_In coord_eqb _ coord_eqb_eq _ _ _ Hg) as [-> _]. reflexivity. }
    rewrite Eg in *.
    destruct (assoc k (cvals o)) as [v|] eqn:Ea.
    - pose proof (assoc_In _ _ _ Ea) as Hkv.
      pose proof (summarize_sums _ _ _ _ _ _ _ _ _ H Hin Hkv Hl Hp) as Hs. rewrite Eg in Hs.
      unfold getv at 1. rewrite Ea. specialize (Hr o Hin). unfold getv in Hr. rewrite Ea in Hr.
      rewrite (conforming_sum_meas i _ _ Hs Hr). unfold raw. now rewrite map_map.
    - unfold getv at 1. rewrite Ea. cbn [vmeas]. symmetry. apply absent_total.
      rewrite <- Hkeys. now apply assoc_None_keys.
  Qed.
End Thms2.
