(** C14 -- the wide form end to end:  from_wide_rows (to_wide_rows t) = Ok (floatify t). *)
From Coq Require Import ZArith List Bool Lia ZifyBool Sorting.Sorted.
From Bermuda Require Import Model.Base Model.Frame Proofs.FrameLib Proofs.FrameKey Proofs.FrameRow
     Proofs.FrameMeta Proofs.FrameValues Proofs.FrameSort Proofs.FrameWide1 Proofs.FrameWide2 Proofs.FrameWide3
     Proofs.FrameExample.
Import ListNotations.
Local Open Scope Z_scope.

(* ---------- reflexivity of the strict equalities ---------- *)
Lemma list_eqb_refl {A} (eqb : A -> A -> bool) : (forall a, eqb a a = true) -> forall l, list_eqb eqb l l = true.
Proof. intros H. induction l; cbn; auto. rewrite H, IHl. reflexivity. Qed.
Lemma num_seqb_refl x : num_seqb x x = true.
Proof. destruct x as [f n]. unfold num_seqb. cbn. rewrite Z.eqb_refl. destruct f; reflexivity. Qed.
Lemma mval_seqb_refl v : mval_seqb v v = true.
Proof.
  destruct v; cbn; auto using str_eqb_refl, num_seqb_refl, Z.eqb_refl. destruct b; reflexivity.
Qed.
Lemma opt_eqb_refl {A} (eqb : A -> A -> bool) : (forall a, eqb a a = true) -> forall o, opt_eqb eqb o o = true.
Proof. intros H [a|]; cbn; auto. Qed.
Lemma meta_seqb_refl m : meta_seqb m m = true.
Proof.
  assert (Hp : forall kv : str * mval, pair_eqb str_eqb mval_seqb kv kv = true).
  { intros [k v]. unfold pair_eqb. cbn. rewrite str_eqb_refl, mval_seqb_refl. reflexivity. }
  unfold meta_seqb. rewrite !(opt_eqb_refl str_eqb str_eqb_refl), (opt_eqb_refl num_seqb num_seqb_refl).
  rewrite !(list_eqb_refl (pair_eqb str_eqb mval_seqb) Hp). reflexivity.
Qed.

Lemma nodup_b_NoDup_map {A K} (eqb : A -> A -> bool) (f : A -> K) l :
  nodup_b eqb l = true ->
  (forall a b, In a l -> In b l -> f a = f b -> eqb a b = true) -> NoDup (map f l).
Proof.
  induction l as [|a l IH]; cbn [nodup_b map]; intros H Hf; constructor.
  - apply andb_prop in H as [H _]. apply negb_true_iff in H. intros Hin.
    apply in_map_iff in Hin as [b [E Hb]].
    assert (existsb (eqb a) l = true).
    { apply existsb_exists. exists b. split; auto. apply Hf; cbn; auto. }
    congruence.
  - apply andb_prop in H as [_ H]. apply IH; auto. intros x y Hx Hy. apply Hf; cbn; auto.
Qed.

Lemma map_result_map {A B C} (f : B -> result C) (g : A -> B) l :
  map_result f (map g l) = map_result (fun a => f (g a)) l.
Proof. induction l as [|a l IH]; cbn; auto. rewrite IH. reflexivity. Qed.

Lemma tri_is_inc_cum t : t <> [] -> forallb cum_ok t = true -> tri_is_inc t = false.
Proof.
  destruct t as [|c t]; [congruence|]. intros _ H. cbn in H. apply andb_prop in H as [H _].
  apply cum_ok_inv in H as (Hk & _). unfold tri_is_inc, is_inc. rewrite Hk. reflexivity.
Qed.
Lemma tri_is_inc_inc t : t <> [] -> forallb inc_ok t = true -> tri_is_inc t = true.
Proof.
  destruct t as [|c t]; [congruence|]. intros _ H. cbn in H. apply andb_prop in H as [H _].
  apply inc_ok_inv in H as (Hk & _). unfold tri_is_inc, is_inc. rewrite Hk. reflexivity.
Qed.

Lemma exists_first {A} (l : list A) : l <> [] -> exists a r, l = a :: r.
Proof. destruct l; [congruence|eauto]. Qed.
Lemma columns_wtable_gen d hp mn fn t c0 t' :
  t = c0 :: t' -> (1 <= nrows c0)%nat -> columns (wtable d hp mn fn t) = keys (wrow' d hp mn fn c0 0).
Proof.
  intros -> Hp. unfold wtable. cbn [flat_map]. destruct (nrows c0) as [|n]; [lia|]. rewrite seq_S_first. reflexivity.
Qed.
Lemma wtable_single d hp mn fn t :
  (forall c, In c t -> nrows c = 1%nat) -> wtable d hp mn fn t = map (fun c => wrow' d hp mn fn c 0) t.
Proof.
  unfold wtable. induction t as [|c t IH]; [reflexivity|]. intros H. cbn [flat_map map].
  rewrite (H c) by (cbn; auto). cbn [seq map app]. f_equal. apply IH. intros x Hx. apply H. cbn; auto.
Qed.

Section Main.
  Variables (sp : frame_spec) (fn dn ln : list str) (t : list cell).
  Hypothesis sp_ok : frame_spec_ok sp = true.
  Hypothesis hyps : frame_hyps fn dn ln t = true.

  Let mn := attr_names t ++ dn ++ ln.
  Let Hne := proj1 (frame_hyps_inv _ _ _ _ hyps).
  Let names := proj1 (proj2 (frame_hyps_inv _ _ _ _ hyps)).
  Let Hshape := proj1 (proj2 (proj2 (frame_hyps_inv _ _ _ _ hyps))).
  Let Hnd := proj1 (proj2 (proj2 (proj2 (frame_hyps_inv _ _ _ _ hyps)))).

  Lemma columns_wtable d hp :
    (forall c, In c t -> uniform c) -> columns (wtable d hp mn fn t) = wcols d hp mn fn.
  Proof.
    intros Hu. destruct (exists_first t Hne) as (c0 & t' & Et).
    assert (Hc0 : In c0 t) by (rewrite Et; cbn; auto).
    rewrite (columns_wtable_gen d hp mn fn t c0 t' Et (nrows_pos c0 (Hu c0 Hc0))).
    apply (keys_wrow' fn dn ln t names).
  Qed.

  (* rows of one cell *)
  Definition crows (d hp : bool) (c : cell) : list row := map (wrow' d hp mn fn c) (seq 0 (nrows c)).

  Lemma scen_wrow hp c i : scen (wrow' false hp mn fn c i) = 1024 * (Z.of_nat i + 1).
  Proof. unfold scen, wrow', adjb. rewrite get_scenario. reflexivity. Qed.

  Lemma sort_group_crows d hp c :
    uniform c -> (d = true -> nrows c = 1%nat) ->
    sort_group (wcols d hp mn fn) [c_scenario] (crows d hp c) = Ok (crows d hp c).
  Proof.
    intros Hu Hd. unfold crows. pose proof (nrows_pos c Hu) as Hp.
    destruct (nrows c) as [|[|n]] eqn:En; [lia|reflexivity|].
    destruct d; [specialize (Hd eq_refl); discriminate|].
    rewrite <- En. unfold sort_group.
    assert (E : exists r0 r1 rest, map (wrow' false hp mn fn c) (seq 0 (nrows c)) = r0 :: r1 :: rest).
    { rewrite En. cbn [seq map]. eauto. }
    destruct E as (r0 & r1 & rest & E). rewrite E. rewrite <- E.
    assert (Hm : mem c_scenario [c_scenario] = true) by (apply mem_In; cbn; auto).
    rewrite Hm. rewrite (scen_present fn dn ln t names). cbn [negb].
    f_equal. destruct (scen_seq_sorted (wrow' false hp mn fn c) (nrows c) (scen_wrow hp c)) as [ND SS].
    apply sort_scen_id; auto.
  Qed.

  Lemma values_crows d hp c :
    In c t -> uniform c -> (d = true -> nrows c = 1%nat) ->
    values_of (crows d hp c) fn = Ok (map (fun kv => (fst kv, fl_value (snd kv))) (cvals c)).
  Proof.
    intros Hc Hu Hd. destruct (cell_shape_inv _ _ _ _ (Hshape c Hc)) as (Hv & _ & _ & _ & _ & Ho & _).
    pose proof (nd_fn fn dn ln names) as NDf.
    destruct Hu as [Hs|Hs].
    - unfold crows. rewrite (nrows_scalar c Hs). cbn [seq map].
      apply scalar_values_rebuilt; auto. intros f Hf. apply (get'_field fn dn ln t names); auto.
    - unfold crows. apply sample_values_rebuilt; auto.
      intros i f Hi Hf. apply (get'_field fn dn ln t names); auto.
  Qed.

  Lemma meta_crow d hp c i :
    In c t -> meta_of_row dn ln (wrow' d hp mn fn c i) = fl_meta (cmeta c).
  Proof.
    intros Hc. destruct (cell_shape_inv _ _ _ _ (Hshape c Hc)) as (_ & _ & _ & _ & Hm & _ & Hod & Hol).
    apply (meta_of_wrow' fn dn ln t names c Hc Hod Hol); auto.
  Qed.

  (* ---------- cumulative: grouping ---------- *)
  Let dcols := dn ++ ln.

  Lemma key_const d c i :
    In c t ->
    row_key (key_cols (fs_wide_key sp) (wcols d false mn fn) dcols ln) (wrow' d false mn fn c i)
    = row_key (key_cols (fs_wide_key sp) (wcols d false mn fn) dcols ln) (wrow' d false mn fn c 0).
  Proof.
    intros Hc. destruct (cell_shape_inv _ _ _ _ (Hshape c Hc)) as (_ & _ & _ & _ & _ & _ & Hod & Hol).
    destruct (spec_ok_wide sp sp_ok) as (_ & _ & Hallowed & _).
    apply row_key_ext. intros col Hcol.
    apply (get'_indep fn dn ln t names c Hc Hod Hol).
    destruct (key_cols_allowed _ _ _ _ _ _ Hallowed Hcol) as [H|[H|H]].
    - rewrite app_assoc. apply in_or_app; left; auto.
    - apply in_or_app; right. apply in_or_app; right. exact H.
    - apply in_or_app; right. apply in_or_app; right. apply in_or_app; right. exact H.
  Qed.

  Lemma key_inj d a b :
    In a t -> In b t -> cum_ok a = true -> cum_ok b = true ->
    row_key (key_cols (fs_wide_key sp) (wcols d false mn fn) dcols ln) (wrow' d false mn fn a 0)
    = row_key (key_cols (fs_wide_key sp) (wcols d false mn fn) dcols ln) (wrow' d false mn fn b 0) ->
    same_coords a b = true.
  Proof.
    intros Ha Hb Ca Cb E.
    destruct (wide_key_same_meta sp (wcols d false mn fn) dcols ln _ _ sp_ok
                (keys_wrow' fn dn ln t names d false a 0) (keys_wrow' fn dn ln t names d false b 0)
                (fun x Hx => in_or_app _ _ _ (or_intror Hx)) E) as (Em & Eps & Epe & Eev).
    unfold dcols in Em. rewrite (pure_wcols fn dn ln names) in Em.
    rewrite !meta_crow in Em by auto.
    rewrite !(get'_ps fn dn ln t) in Eps. rewrite !(get'_pe fn dn ln t) in Epe.
    rewrite !(get'_ev fn dn ln t) in Eev.
    apply cum_ok_inv in Ca as (_ & Pa & _). apply cum_ok_inv in Cb as (_ & Pb & _).
    unfold same_coords. rewrite Pa, Pb, Em. inversion Eps. inversion Epe. inversion Eev.
    rewrite !Z.eqb_refl, meta_seqb_refl. reflexivity.
  Qed.

  Lemma cum_cell_of_group d c :
    In c t -> cum_ok c = true -> (d = true -> nrows c = 1%nat) ->
    wide_cell_of_group sp fn dn ln (wcols d false mn fn) (crows d false c) = Ok (fl_cell c).
  Proof.
    intros Hc Hk Hd. destruct (cum_ok_inv c Hk) as (Kc & Pc & Hu).
    destruct (spec_ok_wide sp sp_ok) as (_ & _ & _ & Hsort).
    unfold wide_cell_of_group.
    assert (E : exists rest, crows d false c = wrow' d false mn fn c 0 :: rest).
    { unfold crows. pose proof (nrows_pos c Hu). destruct (nrows c); [lia|]. rewrite seq_S_first. cbn [map]. eauto. }
    destruct E as [rest E]. rewrite E. rewrite <- E.
    rewrite (get'_ps fn dn ln t), (get'_pe fn dn ln t), (get'_ev fn dn ln t).
    cbn [date_of bind]. rewrite Hsort, sort_group_crows by auto. cbn [bind].
    rewrite values_crows by auto. cbn [bind]. rewrite meta_crow by auto.
    unfold fl_cell. rewrite Kc, Pc. reflexivity.
  Qed.

  Lemma inc_cell_of_row d c :
    In c t -> inc_ok c = true ->
    wide_inc_cell_of_row fn dn ln (wrow' d true mn fn c 0) = Ok (fl_cell c).
  Proof.
    intros Hc Hk. destruct (inc_ok_inv c Hk) as (Kc & [pv Pc] & Hs).
    unfold wide_inc_cell_of_row.
    rewrite (get'_ps fn dn ln t), (get'_pe fn dn ln t), (get'_ev fn dn ln t),
            (get'_prev fn dn ln t). rewrite Pc. cbn [date_of bind].
    pose proof (values_crows d true c Hc (or_introl Hs) (fun _ => nrows_scalar c Hs)) as Hv.
    unfold crows in Hv. rewrite (nrows_scalar c Hs) in Hv. cbn [seq map] in Hv. rewrite Hv. cbn [bind].
    rewrite meta_crow by auto. unfold fl_cell. rewrite Kc, Pc. reflexivity.
  Qed.

  (** (W) the wide data frame round trip, for every description with frame_spec_ok *)
  Theorem wide_round_trip : wide_trip sp fn dn ln t = Ok (floatify t).
  Proof.
    pose proof (frame_hyps_inv _ _ _ _ hyps) as HI. destruct HI as (_ & _ & _ & _ & Hkind).
    destruct (to_wide_rows_ok fn dn ln t hyps) as [d [Ew Hd]].
    unfold wide_trip. rewrite Ew. cbn [bind]. fold mn.
    assert (Hunif : forall c, In c t -> uniform c).
    { intros c Hc. destruct Hkind as [Hk|Hk]; rewrite forallb_forall in Hk; specialize (Hk c Hc).
      - apply cum_ok_inv in Hk. tauto.
      - apply inc_ok_inv in Hk. left. tauto. }
    unfold from_wide_rows. cbv zeta. rewrite (columns_wtable d (tri_is_inc t) Hunif).
    rewrite (index_cum_present fn dn ln t sp sp_ok). cbn [negb].
    rewrite (dcols_wcols fn dn ln t names sp sp_ok).
    rewrite (lcols_present dn ln). cbn [negb].
    rewrite (pure_wcols fn dn ln names).
    rewrite (prev_present fn dn ln t names).
    destruct Hkind as [Hk|Hk].
    - (* cumulative *)
      rewrite (tri_is_inc_cum t Hne Hk). rewrite forallb_forall in Hk.
      unfold wtable.
      rewrite (group_by_blocks key_eqb key_eqb_eq
                 (row_key (key_cols (fs_wide_key sp) (wcols d false mn fn) (dn ++ ln) ln))
                 (crows d false)
                 (fun c => row_key (key_cols (fs_wide_key sp) (wcols d false mn fn) (dn ++ ln) ln)
                                   (wrow' d false mn fn c 0))).
      + rewrite map_result_map. cbn [snd]. apply map_result_ok.
        intros c Hc. apply cum_cell_of_group; auto.
      + intros c Hc. unfold crows. pose proof (nrows_pos c (Hunif c Hc)).
        destruct (nrows c); [lia|]. rewrite seq_S_first. discriminate.
      + intros c Hc r Hr. unfold crows in Hr. apply in_map_iff in Hr as [i [<- _]]. apply key_const; auto.
      + apply (nodup_b_NoDup_map same_coords); auto.
        intros a b Ha Hb E. apply (key_inj d a b); auto.
    - (* incremental: one row per cell, no grouping *)
      rewrite (tri_is_inc_inc t Hne Hk). rewrite forallb_forall in Hk.
      rewrite wtable_single.
      2:{ intros c Hc. apply nrows_scalar. apply inc_ok_inv. apply Hk; auto. }
      rewrite map_result_map. apply map_result_ok. intros c Hc. apply inc_cell_of_row; auto.
  Qed.
End Main.

(** one row per cell and scenario *)
Lemma length_wtable d hp mn fn t : length (wtable d hp mn fn t) = list_sum (map nrows t).
Proof.
  unfold wtable. induction t as [|c t IH]; [reflexivity|]. cbn [flat_map map list_sum].
  rewrite app_length, map_length, seq_length, IH. reflexivity.
Qed.
Theorem wide_row_count fn dn ln t : frame_hyps fn dn ln t = true ->
  exists T, to_wide_rows fn dn ln t = Ok T /\ length T = list_sum (map nrows t).
Proof.
  intros H. destruct (to_wide_rows_ok fn dn ln t H) as [d [E _]]. eexists. split; [exact E|]. apply length_wtable.
Qed.
