(** C14 -- the long table has one row per cell, field and scenario. *)
From Coq Require Import ZArith List Bool Lia ZifyBool.
From Bermuda Require Import Model.Base Model.Frame Proofs.FrameLib Proofs.FrameRow Proofs.FrameWide2 Proofs.FrameLong.
Import ListNotations.

Lemma length_cell_rows hp mn c : length (cell_rows hp mn c) = (nrows c * length (cvals c))%nat.
Proof.
  unfold cell_rows. generalize 0%nat. induction (nrows c) as [|n IH]; intros s; [reflexivity|].
  cbn [seq flat_map]. rewrite app_length, map_length, IH. lia.
Qed.

Lemma length_flat_cell_rows hp mn t :
  length (flat_map (cell_rows hp mn) t) = list_sum (map (fun c => (nrows c * length (cvals c))%nat) t).
Proof.
  induction t as [|c t IH]; [reflexivity|]. cbn [flat_map map list_sum].
  rewrite app_length, length_cell_rows, IH. reflexivity.
Qed.

Theorem long_row_count fn dn ln t : frame_hyps fn dn ln t = true ->
  exists T, to_long_rows dn ln t = Ok T
            /\ length T = list_sum (map (fun c => (nrows c * length (cvals c))%nat) t).
Proof.
  intros H. destruct (frame_hyps_inv _ _ _ _ H) as (Hne & _ & Hshape & _ & Hkind).
  assert (Hu : forall c, In c t -> cvals c <> [] /\ scalar_cell c || sample_cell c = true).
  { intros c Hc. destruct (cell_shape_inv _ _ _ _ (Hshape c Hc)) as (Hv & _). split; auto.
    destruct Hkind as [Hk|Hk]; rewrite forallb_forall in Hk; specialize (Hk c Hc).
    - apply cum_ok_inv in Hk as (_ & _ & [Hs|Hs]); rewrite Hs; auto using orb_true_r.
    - apply inc_ok_inv in Hk as (_ & _ & Hs). rewrite Hs. reflexivity. }
  unfold to_long_rows.
  set (hp := tri_is_inc t). set (mn := attr_names t ++ dn ++ ln).
  rewrite (concat_result_ok _ (cell_rows hp mn)).
  2:{ intros c Hc. destruct (Hu c Hc). apply long_rows_ok; auto. }
  cbn [bind].
  pose proof (length_flat_cell_rows hp mn t) as Hlen.
  assert (HR : flat_map (cell_rows hp mn) t <> []).
  { destruct t as [|c0 t']; [congruence|]. destruct (Hu c0 (or_introl eq_refl)) as [Hv Hk].
    intros E. apply (f_equal (@length row)) in E. cbn [flat_map] in E. rewrite app_length, length_cell_rows in E.
    destruct (cell_kind c0 Hv Hk) as [[_ Hn]|[_ Hn]]; destruct (cvals c0); try congruence; cbn in E; lia. }
  destruct (drop_cases _ HR) as [E|[E _]]; rewrite E; eexists; split; try reflexivity; auto.
  rewrite map_length. exact Hlen.
Qed.
