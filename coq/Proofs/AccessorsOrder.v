(** C13 / C15 on top of C01's order (Model/Order.v, Proofs/OrderP.v, EqP.v, TriangleP.v):
    - the Python == on Metadata used by the accessor model (pointwise on the detail dictionaries)
      coincides with Order.meta_pyeq (equality of canonical keys) on metadata with unique dict keys;
    - for a canonical triangle (sorted by cell_cmp, cells comparable) [metadata t] is strictly
      ascending w.r.t. Metadata.__lt__ (meta_cmp = Some Lt) and duplicate-free: it IS sorted(set(..));
    - rows of a canonical triangle are in ascending evaluation date ([rows_sorted]). *)
From Coq Require Import ZArith List Bool Lia Sorted Permutation.
From Bermuda Require Import Lib.Calendar Model.Base Model.Order Model.Accessors Model.Extend
  Proofs.OrderP Proofs.EqP Proofs.TriangleP Proofs.Accessors Proofs.AccessorsTax Proofs.Extend.
Import ListNotations.
Local Open Scope Z_scope.

(* ------------------------------------------------------------------ strc vs Base.str_ltb *)
Lemma strc_Lt_ltb : forall a b, strc a b = Some Lt <-> str_ltb a b = true.
Proof.
  induction a as [|x r IH]; intros [|y s]; cbn; try (split; congruence).
  unfold zc, total. destruct (x ?= y) eqn:E.
  - apply Z.compare_eq in E. subst. rewrite Z.ltb_irrefl. apply IH.
  - rewrite Z.compare_lt_iff in E. assert (x <? y = true) as -> by lia. tauto.
  - rewrite Z.compare_gt_iff in E. assert (x <? y = false) as -> by lia. assert (y <? x = true) as -> by lia.
    split; congruence.
Qed.
Lemma strc_refl a : strc a a = Some Eq. Proof. apply (o_refl _ strc_ok). Qed.
Lemma strc_Gt_ltb a b : strc a b = Some Gt <-> str_ltb b a = true.
Proof.
  rewrite <- strc_Lt_ltb. split; intros H; apply (o_opp _ strc_ok) in H; exact H.
Qed.

(* ------------------------------------------------------------------ sort_items *)
Definition item (kv : str * mval) : str * atom := (fst kv, norm (snd kv)).
Definition klt (a b : str * atom) : bool := str_ltb (fst a) (fst b).
Definition kltP (a b : str * atom) : Prop := klt a b = true.

Lemma assoc_ins_item x l k :
  assoc k (ins_item x l) = if str_eqb k (fst x) then Some (snd x) else assoc k l.
Proof.
  destruct x as [kx ax]. cbn [fst snd]. induction l as [|[ky ay] r IH]; cbn.
  - reflexivity.
  - destruct (strc kx ky) as [[| |]|] eqn:E; cbn; try reflexivity.
    rewrite IH. destruct (str_eqb k ky) eqn:E1; [|reflexivity].
    apply Accessors.str_eqb_eq in E1. subst ky.
    destruct (str_eqb k kx) eqn:E2; [|reflexivity]. apply Accessors.str_eqb_eq in E2. subst kx.
    rewrite strc_refl in E. discriminate.
Qed.

Lemma assoc_sort_items d k : assoc k (sort_items d) = option_map norm (assoc k d).
Proof.
  induction d as [|[k1 v1] r IH]; cbn; [reflexivity|].
  rewrite assoc_ins_item. cbn. destruct (str_eqb k k1); [reflexivity|exact IH].
Qed.

Lemma In_ins_item x l y : In y (ins_item x l) <-> y = x \/ In y l.
Proof.
  induction l as [|z r IH]; cbn; [intuition|].
  destruct (strc (fst x) (fst z)) as [[| |]|]; cbn; try rewrite IH; intuition.
Qed.
Lemma keys_sort_items d k : In k (keys (sort_items d)) <-> In k (keys d).
Proof.
  unfold keys. induction d as [|[k1 v1] r IH]; cbn; [tauto|].
  rewrite in_map_iff. split.
  - intros [y [E Hy]]. apply In_ins_item in Hy. destruct Hy as [->|Hy]; [left; now symmetry|].
    right. apply IH. apply in_map_iff. eauto.
  - intros [<-|H].
    + exists (k1, norm v1). split; [reflexivity|]. apply In_ins_item. now left.
    + apply IH in H. apply in_map_iff in H. destruct H as [y [E Hy]]. exists y. split; [assumption|].
      apply In_ins_item. now right.
Qed.

Lemma ins_item_sorted x l :
  ~ In (fst x) (keys l) -> StronglySorted kltP l -> StronglySorted kltP (ins_item x l).
Proof.
  intros Hn Hs. induction Hs as [|y r Hs IH Hy]; cbn; [repeat constructor|].
  assert (Hne : fst x <> fst y) by (intros E; apply Hn; left; now symmetry).
  destruct (strc (fst x) (fst y)) as [[| |]|] eqn:E.
  - apply (o_eq _ strc_ok) in E. contradiction.
  - apply strc_Lt_ltb in E. constructor; [now constructor|]. constructor; [exact E|].
    rewrite Forall_forall in *. intros z Hz. specialize (Hy z Hz). unfold kltP, klt in *.
    eapply str_ltb_trans; eassumption.
  - apply strc_Gt_ltb in E. constructor.
    + apply IH. intros C. apply Hn. now right.
    + rewrite Forall_forall in *. intros z Hz. apply In_ins_item in Hz. destruct Hz as [->|Hz]; [exact E|auto].
  - exfalso. now apply (strc_total (fst x) (fst y)).
Qed.

Lemma sort_items_sorted d : NoDup (keys d) -> StronglySorted kltP (sort_items d).
Proof.
  induction d as [|[k v] r IH]; cbn; intros H; [constructor|]. inversion H; subst.
  apply ins_item_sorted; [|auto]. cbn. rewrite keys_sort_items. assumption.
Qed.

Lemma klt_irrefl x : klt x x = false. Proof. apply str_ltb_irrefl. Qed.
Lemma klt_trans x y z : klt x y = true -> klt y z = true -> klt x z = true.
Proof. apply str_ltb_trans. Qed.

Lemma sorted_keys_NoDup (s : list (str * atom)) : StronglySorted kltP s -> NoDup (keys s).
Proof.
  induction 1 as [|x r Hs IH Hx]; cbn; constructor; [|assumption].
  intros Hin. unfold keys in Hin. apply in_map_iff in Hin. destruct Hin as [y [E Hy]].
  rewrite Forall_forall in Hx. specialize (Hx y Hy). unfold kltP, klt in Hx. rewrite E in Hx.
  rewrite str_ltb_irrefl in Hx. discriminate.
Qed.

(* ------------------------------------------------------------------ the two Python == coincide *)
Lemma mval_pyeq_norm a b : mval_pyeq a b = true <-> norm a = norm b.
Proof.
  destruct a as [s|x|p|d|], b as [s'|x'|p'|d'|]; unfold mval_pyeq; cbn;
    try (split; congruence); rewrite ?Z.eqb_eq, ?Accessors.str_eqb_eq; split; intros H; try congruence;
    try (injection H; lia); try (f_equal; lia).
Qed.
Lemma omval_pyeq_norm a b : omval_pyeq a b = true <-> option_map norm a = option_map norm b.
Proof.
  destruct a, b; cbn; try (split; congruence). rewrite mval_pyeq_norm. split; congruence.
Qed.

Lemma dict_pyeq_sort_items d1 d2 : NoDup (keys d1) -> NoDup (keys d2) ->
  (dict_pyeq d1 d2 = true <-> sort_items d1 = sort_items d2).
Proof.
  intros N1 N2. rewrite dict_pyeq_spec. split.
  - intros H.
    apply (ssorted_unique klt klt_irrefl klt_trans); try (apply sort_items_sorted; assumption).
    intros [k a].
    pose proof (sorted_keys_NoDup _ (sort_items_sorted d1 N1)) as S1.
    pose proof (sorted_keys_NoDup _ (sort_items_sorted d2 N2)) as S2.
    assert (forall d (Sd : NoDup (keys (sort_items d))), In (k, a) (sort_items d) <-> assoc k (sort_items d) = Some a) as Hin
      by (intros d Sd; split; [apply In_assoc; assumption|apply assoc_In]).
    rewrite (Hin d1 S1), (Hin d2 S2), !assoc_sort_items.
    specialize (H k). apply omval_pyeq_norm in H. rewrite H. tauto.
  - intros E k. apply omval_pyeq_norm. rewrite <- !assoc_sort_items, E. reflexivity.
Qed.

Theorem meta_pyeq_agree a b : wf_meta a -> wf_meta b -> Accessors.meta_pyeq a b = Order.meta_pyeq a b.
Proof.
  intros [Ha1 Ha2] [Hb1 Hb2].
  destruct (Order.meta_pyeq a b) eqn:E.
  - apply meta_pyeq_key in E. unfold canonical_key in E. injection E as E1 E2 E3 E4 E5 E6 E7 E8.
    apply meta_pyeq_spec. unfold ostr_eqb, onum_pyeq. rewrite E1, E2, E3, E4, E5.
    repeat split; try apply (opt_eqb_refl _ str_eqb_refl).
    + destruct (per_occurrence_limit a) as [x|], (per_occurrence_limit b) as [y|]; cbn in *; try congruence.
      unfold num_eqb. injection E6 as ->. apply Z.eqb_refl.
    + apply dict_pyeq_sort_items; assumption.
    + apply dict_pyeq_sort_items; assumption.
  - destruct (Accessors.meta_pyeq a b) eqn:E'; [|reflexivity]. exfalso.
    apply meta_pyeq_spec in E'. destruct E' as [A1 [A2 [A3 [A4 [A5 [A6 [A7 A8]]]]]]].
    assert (Order.meta_pyeq a b = true); [|congruence]. apply meta_pyeq_key. unfold canonical_key.
    assert (forall x y : option str, ostr_eqb x y = true -> x = y) as Hs.
    { intros [x|] [y|]; cbn; try congruence. intros H. apply Accessors.str_eqb_eq in H. congruence. }
    rewrite (Hs _ _ A1), (Hs _ _ A2), (Hs _ _ A3), (Hs _ _ A4), (Hs _ _ A5).
    apply (proj1 (dict_pyeq_sort_items _ _ Ha1 Hb1)) in A7. apply (proj1 (dict_pyeq_sort_items _ _ Ha2 Hb2)) in A8.
    rewrite A7, A8. f_equal.
    destruct (per_occurrence_limit a) as [x|], (per_occurrence_limit b) as [y|]; cbn in *; try congruence.
    unfold num_eqb in A6. apply Z.eqb_eq in A6. congruence.
Qed.

(* ------------------------------------------------------------------ canonical triangles *)
(* the canonical form of C01: sorted by cell_cmp, every pair comparable (no TypeError) *)
Definition canonical (t : list cell) : Prop := StronglySorted cell_le t /\ cells_comparable t.

Lemma mk_triangle_is_canonical l t : cells_comparable l -> mk_triangle l = Ok t -> canonical t.
Proof.
  intros Hc H. destruct (mk_triangle_canonical l t Hc H) as [P [Hs _]]. split; [assumption|].
  unfold cells_comparable. eapply comparable_perm; eassumption.
Qed.

Lemma cell_cmp_meta_None a b : cell_cmp a b <> None -> meta_cmp (cmeta a) (cmeta b) <> None.
Proof. rewrite cell_cmp_unfold. unfold meta_cmp, mkey_of. destruct (mkeyc _ _) as [[| |]|]; congruence. Qed.
Lemma cell_le_meta a b : cell_le a b -> meta_cmp (cmeta b) (cmeta a) <> Some Lt.
Proof.
  unfold cell_le, le. rewrite cell_cmp_unfold. unfold meta_cmp, mkey_of.
  destruct (mkeyc _ _) as [[| |]|]; congruence.
Qed.

Definition meta_le_ok (a b : meta) : Prop := meta_cmp b a <> Some Lt /\ meta_cmp a b <> None.

Lemma canonical_metas_sorted t : canonical t -> StronglySorted meta_le_ok (map cmeta t).
Proof.
  intros [Hs Hc]. induction Hs as [|a r Hs IH Ha]; cbn; [constructor|]. constructor.
  - apply IH. intros x y Hx Hy. apply Hc; now right.
  - rewrite Forall_forall in *. intros m Hm. apply in_map_iff in Hm. destruct Hm as [c [<- Hcr]]. split.
    + apply cell_le_meta. auto.
    + apply cell_cmp_meta_None. apply Hc; [now left|now right].
Qed.

(* Metadata.__lt__ as a relation *)
Definition meta_ltP (a b : meta) : Prop := meta_cmp a b = Some Lt.

Theorem metadata_canonical t :
  canonical t -> (forall c, In c t -> wf_meta (cmeta c)) ->
  StronglySorted meta_ltP (metadata t) /\
  ForallOrdPairs (fun a b => Order.meta_pyeq a b = false) (metadata t).
Proof.
  intros Hcan Hwf.
  assert (Hm : forall m, In m (metadata t) -> wf_meta m).
  { intros m Hm. destruct (metadata_spec t) as [H _]. destruct (H m Hm) as [c [Hc <-]]. auto. }
  destruct (metadata_spec t) as [_ [_ Hd]].
  assert (Hs : StronglySorted meta_le_ok (metadata t))
    by (unfold metadata; apply dedup_SS; apply canonical_metas_sorted; assumption).
  split.
  - revert Hs Hd Hm. generalize (metadata t). intros l Hs. induction Hs as [|a r Hs IH Ha]; intros Hd Hm; [constructor|].
    inversion Hd as [|? ? Hda Hdr]; subst. constructor.
    + apply IH; [assumption|]. intros m Hin. apply Hm. now right.
    + rewrite Forall_forall in *. intros b Hb. destruct (Ha b Hb) as [H1 H2]. specialize (Hda b Hb).
      rewrite meta_pyeq_agree in Hda by (apply Hm; simpl; auto).
      unfold meta_ltP. destruct (meta_cmp a b) as [[| |]|] eqn:E; try congruence.
      * apply meta_pyeq_iff_cmp in E. congruence.
      * exfalso. apply H1. apply (f_opp _ _ meta_cmp_ok) in E. exact E.
  - revert Hd Hm. generalize (metadata t). intros l Hd. induction Hd as [|a r Ha Hr IH]; intros Hm; constructor.
    + rewrite Forall_forall in *. intros b Hb. rewrite <- meta_pyeq_agree by (apply Hm; simpl; auto). auto.
    + apply IH. intros m Hin. apply Hm. now right.
Qed.

(* ------------------------------------------------------------------ rows of a canonical triangle *)
Theorem canonical_rows_sorted t :
  canonical t -> (forall c, In c t -> wf_meta (cmeta c)) -> rows_sorted t.
Proof.
  intros [Hs Hc] Hwf pre c post E d Hd Hp Hm.
  apply in_split in Hd. destruct Hd as [t2 [t3 ->]]. subst t.
  assert (Hcd : cell_cmp c d <> None).
  { apply Hc; apply in_or_app; right; [now left|]. right. apply in_or_app. right. now left. }
  assert (Hwc : wf_meta (cmeta c)) by (apply Hwf; apply in_or_app; right; now left).
  assert (Hwd : wf_meta (cmeta d)).
  { apply Hwf. apply in_or_app. right. right. apply in_or_app. right. now left. }
  rewrite meta_pyeq_agree in Hm by assumption. apply meta_pyeq_key in Hm.
  destruct (sorted_pairs pre c t2 d t3 Hs Hcd) as [Hlt|[_ Hdates]].
  - exfalso. unfold mkey_of in Hlt. rewrite Hm in Hlt. rewrite (o_refl _ mkeyc_ok) in Hlt. discriminate.
  - unfold period in Hp. injection Hp as Hps Hpe.
    unfold cell_dates in Hdates. cbn in Hdates. unfold zc, total in Hdates.
    rewrite Hps, Hpe, !Z.compare_refl in Hdates.
    destruct (ev d ?= ev c) eqn:Ec.
    + apply Z.compare_eq in Ec. lia.
    + exfalso. apply Hdates. reflexivity.
    + rewrite Z.compare_gt_iff in Ec. lia.
Qed.

(* ------------------------------------------------------------------ results are constructible *)
Lemma lexl_zc_total : forall a b, lexl zc a b <> None.
Proof.
  induction a as [|x r IH]; intros [|y s]; cbn; try discriminate.
  unfold zc, total. destruct (x ?= y); try discriminate. apply IH.
Qed.
Lemma cell_cmp_None_meta a b : meta_cmp (cmeta a) (cmeta b) <> None -> cell_cmp a b <> None.
Proof.
  rewrite cell_cmp_unfold. unfold meta_cmp, mkey_of. destruct (mkeyc _ _) as [[| |]|]; try congruence.
  intros _. apply lexl_zc_total.
Qed.

(* a list of cumulative cells whose metadata all come from a comparable triangle: the constructor
   accepts it and returns a canonical triangle holding exactly these cells *)
Theorem new_cells_constructible t out :
  cells_comparable t ->
  (forall x, In x out -> ckind x = KCum /\ exists e, In e t /\ cmeta x = cmeta e) ->
  exists t', mk_triangle out = Ok t' /\ Permutation out t' /\ canonical t'.
Proof.
  intros Hc Hout.
  assert (Hco : cells_comparable out).
  { intros a b Ha Hb. destruct (Hout a Ha) as [_ [ea [Hea Ea]]]. destruct (Hout b Hb) as [_ [eb [Heb Eb]]].
    apply cell_cmp_None_meta. rewrite Ea, Eb. apply cell_cmp_meta_None. apply Hc; assumption. }
  assert (Hk : same_kind out = true).
  { apply same_kind_spec. exists KCum. unfold all_kind. rewrite Forall_forall. intros x Hx. apply Hout, Hx. }
  unfold mk_triangle. rewrite Hk. exists (sort_cells out). split; [reflexivity|].
  assert (H : mk_triangle out = Ok (sort_cells out)) by (unfold mk_triangle; now rewrite Hk).
  split; [apply (mk_triangle_canonical out _ Hco H)|]. eapply mk_triangle_is_canonical; eassumption.
Qed.

(* ------------------------------------------------------------------ C15 on canonical input *)
(* backfill: the extended cell is the earliest observation of its slice and period *)
Theorem backfill_earliest statics res min_lag t out :
  canonical t -> (forall c, In c t -> wf_meta (cmeta c)) ->
  0 < res -> backfill statics (Some res) min_lag t = Ok out ->
  forall x, In x out -> In x t \/
    exists c vals pres, In c t /\
      (forall d, In d t -> period d = period c -> Accessors.meta_pyeq (cmeta c) (cmeta d) = true -> ev c <= ev d) /\
      period_resolution t = Ok (Some pres) /\ backfill_values statics c = Ok vals /\
      In x (backfill_cells res (Z.max min_lag (- pres + 1)) vals c).
Proof.
  intros Hcan Hwf Hr H x Hx.
  destruct (backfill_first statics res min_lag t out Hr H x Hx) as [?|[c [vals [pre [post [pres [E [Hpre [Hp [Hv Hin]]]]]]]]]];
    [tauto|].
  right. exists c, vals, pres. split; [rewrite E; apply in_or_app; right; now left|].
  split; [|auto]. apply (first_of_period_earliest t pre c post); try assumption.
  apply canonical_rows_sorted; assumption.
Qed.

Lemma slice_edge_in_t t s e : In s (slices t) -> In e (edges s) -> In e t.
Proof.
  intros Hs He. apply slices_spec in Hs. destruct Hs as [m [_ ->]].
  destruct (edges_spec _ _ He) as [H _]. apply slice_cells_In in H. tauto.
Qed.

Theorem right_triangle_constructible u lags t :
  cells_comparable t ->
  exists t', mk_triangle (flat_map (rt_slice false u lags) (slices t)) = Ok t' /\
             Permutation (flat_map (rt_slice false u lags) (slices t)) t' /\ canonical t'.
Proof.
  intros Hc. apply (new_cells_constructible t); [assumption|]. intros x Hx.
  apply right_triangle_cum_In in Hx. destruct Hx as [s [e [l [Hs [He [_ [_ ->]]]]]]].
  split; [reflexivity|]. exists e. split; [eapply slice_edge_in_t; eassumption|reflexivity].
Qed.

Theorem right_diagonal_constructible dates t :
  cells_comparable t ->
  exists t', mk_triangle (flat_map (rd_slice false dates false) (slices t)) = Ok t' /\
             Permutation (flat_map (rd_slice false dates false) (slices t)) t' /\ canonical t'.
Proof.
  intros Hc. apply (new_cells_constructible t); [assumption|]. intros x Hx.
  apply in_flat_map in Hx. destruct Hx as [s [Hs Hx]]. apply right_diagonal_In in Hx.
  destruct Hx as [e [d [He [_ [_ [_ ->]]]]]].
  split; [reflexivity|]. exists e. split; [eapply slice_edge_in_t; eassumption|reflexivity].
Qed.
