(** C14 -- the values of a scalar cell are rebuilt (as floats) from the single row written for it. *)
From Coq Require Import ZArith List Bool Lia ZifyBool.
From Bermuda Require Import Model.Base Model.Frame Proofs.FrameLib.
Import ListNotations.
Local Open Scope Z_scope.

Lemma values_of_flat (g : list row) (ov : str -> option value) (fn : list str) :
  (forall f, In f fn -> field_value g f = Ok (ov f)) ->
  values_of g fn = Ok (flat_map (fun f => match ov f with Some v => [(f, v)] | None => [] end) fn).
Proof.
  induction fn as [|f fn IH]; cbn [values_of flat_map]; intros H; auto.
  rewrite (H f (or_introl eq_refl)). cbn [bind]. rewrite IH by (intros; apply H; cbn; auto). cbn [bind].
  destruct (ov f); reflexivity.
Qed.

Theorem scalar_values_rebuilt (fn : list str) (vals : list (str * value)) (r : row) :
  NoDup fn -> ordered_in fn (keys vals) = true ->
  forallb (fun kv => is_scalar (snd kv)) vals = true ->
  (forall f, In f fn -> get f r = field_entry (assoc f vals) 0) ->
  values_of [r] fn = Ok (map (fun kv => (fst kv, fl_value (snd kv))) vals).
Proof.
  intros ND Ho Hs Hget.
  rewrite (values_of_flat [r] (fun f => option_map fl_value (assoc f vals)) fn).
  - f_equal. rewrite <- (rebuild_dict fl_value fn ND vals (ordered_in_spec _ _ Ho)).
    apply flat_map_ext_in'. intros f Hf. destruct (assoc f vals); reflexivity.
  - intros f Hf. unfold field_value. cbn [map]. rewrite (Hget f Hf).
    destruct (assoc f vals) as [v|] eqn:E; cbn; auto.
    assert (Hv : is_scalar v = true).
    { rewrite forallb_forall in Hs. revert E. clear -Hs. induction vals as [|[k w] vals IH]; cbn; [discriminate|].
      destruct (str_eqb f k).
      - intros E; inversion E; subst. apply (Hs (k, v)); cbn; auto.
      - intros E. apply IH; auto. intros x Hx. apply Hs; cbn; auto. }
    destruct v as [[fl n]| |]; try discriminate. reflexivity.
Qed.
