(** C20 -- quantiles with linear interpolation are monotone in the probability; the summary fields
    named by their probability are therefore ordered (for ANY description satisfying labels_ok). *)
From Coq Require Import ZArith QArith Qabs Lqa List Bool.
From Bermuda Require Import Model.Base Model.Plot Proofs.JsonBase.
Import ListNotations.
Local Open Scope Q_scope.

Fixpoint sortedQ (s : list Q) : Prop :=
  match s with
  | a :: r => match r with b :: _ => a <= b /\ sortedQ r | [] => True end
  | [] => True
  end.
Definition hdQ (s : list Q) : Q := match s with a :: _ => a | [] => 0 end.
Fixpoint lastQ (s : list Q) : Q := match s with [] => 0 | a :: r => match r with [] => a | _ => lastQ r end end.

Lemma Qle_bool_false : forall a b, Qle_bool a b = false -> b < a.
Proof. intros a b H. apply Qnot_le_lt. intros C. apply Qle_bool_iff in C. congruence. Qed.

Lemma qinsert_sorted : forall x l, sortedQ l -> sortedQ (qinsert x l).
Proof.
  intros x l. induction l as [|y r IH]; intros H; [exact I|].
  cbn [qinsert]. destruct (Qle_bool x y) eqn:E.
  - apply Qle_bool_iff in E. cbn. split; [exact E|exact H].
  - apply Qle_bool_false in E. destruct r as [|z r'].
    + cbn. split; [apply Qlt_le_weak; exact E|exact I].
    + cbn [sortedQ] in H. destruct H as [H1 H2]. specialize (IH H2).
      cbn [qinsert] in IH |- *. destruct (Qle_bool x z) eqn:F.
      * cbn [sortedQ]. split; [apply Qlt_le_weak; exact E|]. exact IH.
      * cbn [sortedQ]. split; [exact H1|]. exact IH.
Qed.
Lemma qsort_sorted : forall l, sortedQ (qsort l).
Proof. induction l as [|x r IH]; [exact I|]. cbn. apply qinsert_sorted. exact IH. Qed.
Lemma qinsert_length : forall x l, List.length (qinsert x l) = S (List.length l).
Proof. intros x l. induction l as [|y r IH]; [reflexivity|]. cbn. destruct (Qle_bool x y); cbn; congruence. Qed.
Lemma qsort_length : forall l, List.length (qsort l) = List.length l.
Proof. induction l as [|x r IH]; [reflexivity|]. cbn [qsort fold_right]. fold (qsort r). rewrite qinsert_length. cbn [List.length]. congruence. Qed.

Lemma interp_bounds : forall s h, s <> [] -> sortedQ s -> 0 <= h -> hdQ s <= interp s h /\ interp s h <= lastQ s.
Proof.
  induction s as [|a r IH]; intros h Hne Hs Hh; [congruence|].
  destruct r as [|b r'].
  - cbn. split; apply Qle_refl.
  - cbn [sortedQ] in Hs. destruct Hs as [Hab Hs].
    assert (Hne' : b :: r' <> []) by discriminate.
    change (interp (a :: b :: r') h) with (if Qle_bool 1 h then interp (b :: r') (h - 1) else a + h * (b - a)).
    cbn [hdQ]. change (lastQ (a :: b :: r')) with (lastQ (b :: r')).
    destruct (Qle_bool 1 h) eqn:E.
    + apply Qle_bool_iff in E. destruct (IH (h - 1) Hne' Hs ltac:(lra)) as [H1 H2]. cbn [hdQ] in H1.
      split; [lra|exact H2].
    + apply Qle_bool_false in E. destruct (IH 0 Hne' Hs ltac:(lra)) as [H1 H2]. cbn [hdQ] in H1.
      split; [nra|]. assert (a + h * (b - a) <= b) by nra. lra.
Qed.

Lemma interp_monotone : forall s h h', sortedQ s -> 0 <= h -> h <= h' -> interp s h <= interp s h'.
Proof.
  induction s as [|a r IH]; intros h h' Hs Hh Hhh; [apply Qle_refl|].
  destruct r as [|b r']; [apply Qle_refl|].
  cbn [sortedQ] in Hs. destruct Hs as [Hab Hs].
  change (interp (a :: b :: r') h) with (if Qle_bool 1 h then interp (b :: r') (h - 1) else a + h * (b - a)).
  change (interp (a :: b :: r') h') with (if Qle_bool 1 h' then interp (b :: r') (h' - 1) else a + h' * (b - a)).
  destruct (Qle_bool 1 h) eqn:E, (Qle_bool 1 h') eqn:E'.
  - apply Qle_bool_iff in E. apply IH; [exact Hs|lra|lra].
  - apply Qle_bool_iff in E. apply Qle_bool_false in E'. lra.
  - apply Qle_bool_false in E. apply Qle_bool_iff in E'.
    destruct (interp_bounds (b :: r') (h' - 1) ltac:(discriminate) Hs ltac:(lra)) as [H1 _]. cbn [hdQ] in H1.
    assert (a + h * (b - a) <= b) by nra. lra.
  - apply Qle_bool_false in E. nra.
Qed.

Lemma qlen_pos : forall xs : list Q, xs <> [] -> 0 <= qlen xs - 1.
Proof.
  intros xs H. unfold qlen. destruct xs as [|x r]; [congruence|]. cbn [List.length].
  rewrite Nat2Z.inj_succ. unfold Z.succ. rewrite inject_Z_plus. change (inject_Z 1) with 1.
  assert (0 <= inject_Z (Z.of_nat (List.length r))) by (change 0 with (inject_Z 0); rewrite <- Zle_Qle; apply Nat2Z.is_nonneg).
  lra.
Qed.

(* p <= p' -> quantile xs p <= quantile xs p', for every non-empty sample list *)
Theorem quantile_monotone : forall xs p p', xs <> [] -> 0 <= p -> p <= p' -> quantile xs p <= quantile xs p'.
Proof.
  intros xs p p' Hne Hp Hpp. unfold quantile. pose proof (qlen_pos xs Hne) as Hl.
  apply interp_monotone; [apply qsort_sorted|nra|nra].
Qed.
Theorem quantile_between_min_max : forall xs p, xs <> [] -> 0 <= p -> p <= 1 ->
  qmin xs <= quantile xs p /\ quantile xs p <= qmax xs.
Proof.
  intros xs p Hne H0 H1. unfold qmin, qmax. split; apply quantile_monotone; try assumption; lra.
Qed.
(* min and max are the ends of the sorted sample *)
Lemma interp_ext : forall s h h', h == h' -> interp s h == interp s h'.
Proof.
  induction s as [|x t IHt]; intros h h' E; [reflexivity|]. destruct t as [|y t']; [reflexivity|].
  change (interp (x :: y :: t') h) with (if Qle_bool 1 h then interp (y :: t') (h - 1) else x + h * (y - x)).
  change (interp (x :: y :: t') h') with (if Qle_bool 1 h' then interp (y :: t') (h' - 1) else x + h' * (y - x)).
  destruct (Qle_bool 1 h) eqn:A, (Qle_bool 1 h') eqn:B.
  - apply IHt. rewrite E. reflexivity.
  - apply Qle_bool_iff in A. apply Qle_bool_false in B. rewrite E in A. lra.
  - apply Qle_bool_iff in B. apply Qle_bool_false in A. rewrite E in A. lra.
  - rewrite E. reflexivity.
Qed.
Lemma interp_zero : forall s, s <> [] -> interp s 0 == hdQ s.
Proof. intros [|a [|b r]] H; [congruence|reflexivity|]. cbn. ring. Qed.
Lemma interp_end : forall s, s <> [] -> interp s (inject_Z (Z.of_nat (List.length s)) - 1) == lastQ s.
Proof.
  induction s as [|a r IH]; intros H; [congruence|]. destruct r as [|b r'].
  - reflexivity.
  - assert (Hne : b :: r' <> []) by discriminate. specialize (IH Hne).
    change (lastQ (a :: b :: r')) with (lastQ (b :: r')). rewrite <- IH.
    set (n := List.length (b :: r')) in *.
    change (List.length (a :: b :: r')) with (Datatypes.S n).
    set (h := inject_Z (Z.of_nat (Datatypes.S n)) - 1).
    change (interp (a :: b :: r') h) with (if Qle_bool 1 h then interp (b :: r') (h - 1) else a + h * (b - a)).
    assert (Hh : h == inject_Z (Z.of_nat n)).
    { unfold h. rewrite Nat2Z.inj_succ. unfold Z.succ. rewrite inject_Z_plus. change (inject_Z 1) with 1. ring. }
    assert (Hn : 1 <= inject_Z (Z.of_nat n)).
    { unfold n. cbn [List.length]. rewrite Nat2Z.inj_succ. unfold Z.succ. rewrite inject_Z_plus. change (inject_Z 1) with 1.
      assert (0 <= inject_Z (Z.of_nat (List.length r'))) by (change 0 with (inject_Z 0); rewrite <- Zle_Qle; apply Nat2Z.is_nonneg).
      lra. }
    replace (Qle_bool 1 h) with true by (symmetry; apply Qle_bool_iff; rewrite Hh; exact Hn).
    apply interp_ext. rewrite Hh. reflexivity.
Qed.
Lemma qsort_nonempty : forall xs : list Q, xs <> [] -> qsort xs <> [].
Proof.
  intros xs H C. apply (f_equal (@List.length Q)) in C. rewrite qsort_length in C.
  destruct xs; [congruence|discriminate].
Qed.
Theorem qmin_is_first : forall xs, xs <> [] -> qmin xs == hdQ (qsort xs).
Proof.
  intros xs H. unfold qmin, quantile. rewrite <- (interp_zero _ (qsort_nonempty xs H)). apply interp_ext. ring.
Qed.
Theorem qmax_is_last : forall xs, xs <> [] -> qmax xs == lastQ (qsort xs).
Proof.
  intros xs H. unfold qmax, quantile. rewrite <- (interp_end _ (qsort_nonempty xs H)). rewrite qsort_length.
  unfold qlen. apply interp_ext. ring.
Qed.

(* ------------------------------------------------------------------ labelled summaries are ordered *)
Lemma assoc_In : forall V k (d : list (str * V)) v, assoc k d = Some v -> In (k, v) d.
Proof.
  induction d as [|[k' v'] r IH]; intros v H; cbn in H; [discriminate|].
  destruct (str_eqb k k') eqn:E.
  - apply str_eqb_eq in E. inversion H; subst. now left.
  - right. apply IH. exact H.
Qed.

Lemma labelled_is_quantile : forall d xs f l v, labels_ok d = true ->
  label_prob f = Some l -> summary_field d xs f = Some v ->
  exists p, l == p /\ 0 <= p /\ p <= 1 /\ v = quantile xs p.
Proof.
  intros d xs f l v Hok Hl Hv. unfold summary_field in Hv.
  destruct (assoc f (bindings d)) as [b|] eqn:E; [|discriminate].
  apply assoc_In in E. unfold labels_ok in Hok.
  apply andb_true_iff in Hok. destruct Hok as [Hok _]. apply andb_true_iff in Hok. destruct Hok as [Hok _].
  rewrite forallb_forall in Hok. specialize (Hok _ E). unfold binding_ok in Hok. cbn [fst snd] in Hok.
  destruct b as [| |s|p]; cbn in Hv; try discriminate.
  - apply str_eqb_eq in Hok. subst f. destruct s; vm_compute in Hl; discriminate.
  - rewrite Hl in Hok. apply andb_true_iff in Hok. destruct Hok as [Hok H1]. apply andb_true_iff in Hok.
    destruct Hok as [H2 H3]. apply Qeq_bool_iff in H2. apply Qle_bool_iff in H1, H3.
    exists p. inversion Hv. repeat split; assumption.
Qed.

(* the named summaries are monotone in the number their name states *)
Theorem summaries_monotone : forall d, labels_ok d = true ->
  forall xs f1 f2 l1 l2 v1 v2, xs <> [] ->
  label_prob f1 = Some l1 -> label_prob f2 = Some l2 -> l1 <= l2 ->
  summary_field d xs f1 = Some v1 -> summary_field d xs f2 = Some v2 -> v1 <= v2.
Proof.
  intros d Hok xs f1 f2 l1 l2 v1 v2 Hne Hl1 Hl2 Hle H1 H2.
  destruct (labelled_is_quantile d xs f1 l1 v1 Hok Hl1 H1) as (p1 & E1 & A1 & B1 & ->).
  destruct (labelled_is_quantile d xs f2 l2 v2 Hok Hl2 H2) as (p2 & E2 & A2 & B2 & ->).
  apply quantile_monotone; [exact Hne|exact A1|]. rewrite <- E1, <- E2. exact Hle.
Qed.

Lemma stat_field_is : forall d xs s v, labels_ok d = true -> summary_field d xs (stat_name s) = Some v ->
  bound_value xs (BStat s) = Some v.
Proof.
  intros d xs s v Hok Hv. unfold summary_field in Hv.
  destruct (assoc (stat_name s) (bindings d)) as [b|] eqn:E; [|discriminate].
  apply assoc_In in E. unfold labels_ok in Hok.
  apply andb_true_iff in Hok. destruct Hok as [Hok _]. apply andb_true_iff in Hok. destruct Hok as [Hok _].
  rewrite forallb_forall in Hok. specialize (Hok _ E). unfold binding_ok in Hok. cbn [fst snd] in Hok.
  destruct b as [| |s'|p]; cbn in Hv; try discriminate.
  - destruct s, s'; vm_compute in Hok; try discriminate; exact Hv.
  - destruct s; vm_compute in Hok; discriminate.
Qed.

(* min <= every labelled quantile <= max; the field labelled 50 is the median *)
Theorem summaries_within_min_max : forall d, labels_ok d = true ->
  forall xs f l v lo hi, xs <> [] -> label_prob f = Some l -> summary_field d xs f = Some v ->
  summary_field d xs (stat_name SMin) = Some lo -> summary_field d xs (stat_name SMax) = Some hi ->
  lo <= v /\ v <= hi.
Proof.
  intros d Hok xs f l v lo hi Hne Hl Hv Hlo Hhi.
  destruct (labelled_is_quantile d xs f l v Hok Hl Hv) as (p & E & A & B & ->).
  apply (stat_field_is d xs SMin lo Hok) in Hlo. apply (stat_field_is d xs SMax hi Hok) in Hhi.
  cbn in Hlo, Hhi. inversion Hlo; inversion Hhi; subst. apply quantile_between_min_max; assumption.
Qed.
Theorem median_is_q50 : forall d, labels_ok d = true ->
  forall xs f l v m, xs <> [] -> label_prob f = Some l -> l == 1 # 2 -> summary_field d xs f = Some v ->
  summary_field d xs (stat_name SMedian) = Some m -> v == m.
Proof.
  intros d Hok xs f l v m Hne Hl Hhalf Hv Hm.
  destruct (labelled_is_quantile d xs f l v Hok Hl Hv) as (p & E & A & B & ->).
  apply (stat_field_is d xs SMedian m Hok) in Hm. cbn in Hm. inversion Hm; subst. unfold median.
  apply Qle_antisym; apply quantile_monotone; try assumption; try lra; rewrite <- E, Hhalf; lra.
Qed.
