(** C03 -- frame lemmas for the heap kernels of Model/Heap.v.

    [frozen h0 h]   every object of the initial store h0 is still in h, same location, same contents.
    [fresh h0 v]    v is an immutable value or an object allocated after the call began.
    [sat h0 m Q]    started in any store that is frozen w.r.t. h0, the computation m ends -- by return
                    OR by raise -- in a store that is still frozen w.r.t. h0, and a returned value
                    satisfies Q.
    The invariant shape of DESIGN Appendix D: the target of every in-place write is [fresh]. *)
From Coq Require Import ZArith List Bool PeanoNat Lia.
From Bermuda Require Import Model.Base Model.Heap.
Import ListNotations.

Definition frozen (h0 h : heap) : Prop :=
  length h0 <= length h /\ forall l, l < length h0 -> nth_error h l = nth_error h0 l.
Definition fresh (h0 : heap) (v : val) : Prop :=
  match v with PRef l => length h0 <= l | _ => True end.
Definition sat {A} (h0 : heap) (m : M A) (Q : A -> Prop) : Prop :=
  forall h, frozen h0 h ->
            match m h with Ret h' a => frozen h0 h' /\ Q a | Raise h' _ => frozen h0 h' end.

Lemma frozen_refl h : frozen h h.
Proof. split; auto. Qed.

Lemma upd_length h l o : length (upd h l o) = length h.
Proof. revert l; induction h; intros [|l]; simpl; auto. Qed.
Lemma upd_other h l o l' : l <> l' -> nth_error (upd h l o) l' = nth_error h l'.
Proof.
  revert l l'; induction h; intros [|l] [|l'] H; simpl; auto; try congruence.
Qed.
Lemma upd_same h l o : l < length h -> nth_error (upd h l o) l = Some o.
Proof. revert l; induction h; intros [|l] H; simpl in *; try lia; auto. apply IHh; lia. Qed.

(* ------------------------------------------------------------------ rules *)
Section Rules.
  Variable h0 : heap.

  Lemma sat_ret {A} (a : A) (Q : A -> Prop) : Q a -> sat h0 (ret a) Q.
  Proof. intros H h F; simpl; auto. Qed.
  Lemma sat_raise {A} e (Q : A -> Prop) : sat h0 (raise e) Q.
  Proof. intros h F; simpl; auto. Qed.
  Lemma sat_bind {A B} (m : M A) (f : A -> M B) P Q :
    sat h0 m P -> (forall a, P a -> sat h0 (f a) Q) -> sat h0 (mbind m f) Q.
  Proof.
    intros Hm Hf h F. unfold mbind. specialize (Hm h F). destruct (m h) as [h' a|h' e]; auto.
    destruct Hm as [F' Pa]. exact (Hf a Pa h' F').
  Qed.
  Lemma sat_weaken {A} (m : M A) (P Q : A -> Prop) :
    sat h0 m P -> (forall a, P a -> Q a) -> sat h0 m Q.
  Proof.
    intros Hm HPQ h F. specialize (Hm h F). destruct (m h); auto. destruct Hm; auto.
  Qed.
  Lemma sat_alloc o : sat h0 (alloc o) (fun l => length h0 <= l).
  Proof.
    intros h [L E]; unfold alloc; simpl. split; [split|lia].
    - rewrite app_length; lia.
    - intros l Hl. rewrite nth_error_app1 by lia. auto.
  Qed.
  Lemma sat_deref l : sat h0 (deref l) (fun o => l < length h0 -> nth_error h0 l = Some o).
  Proof.
    intros h [L E]; unfold deref. destruct (nth_error h l) eqn:N; [|split; auto].
    split; [split; auto|]. intros Hl. rewrite <- E by auto. auto.
  Qed.
  (* the write rule: the target must have been allocated after the call began *)
  Lemma sat_store l o : length h0 <= l -> sat h0 (store l o) (fun _ => True).
  Proof.
    intros Hl h [L E]; unfold store. destruct (nth_error h l) eqn:N; [|split; auto].
    split; auto. split.
    - rewrite upd_length; auto.
    - intros l' Hl'. rewrite upd_other by lia. auto.
  Qed.
  Lemma sat_foldM {A B} (f : B -> A -> M B) (I : B -> Prop) :
    (forall b x, I b -> sat h0 (f b x) I) -> forall xs b, I b -> sat h0 (foldM f xs b) I.
  Proof.
    intros Hf xs; induction xs; intros b Hb; simpl.
    - apply sat_ret; auto.
    - eapply sat_bind; [apply Hf; auto|]. intros; apply IHxs; auto.
  Qed.
  Lemma sat_mapM {A B} (f : A -> M B) (R : A -> B -> Prop) :
    (forall x, sat h0 (f x) (R x)) -> forall xs, sat h0 (mapM f xs) (Forall2 R xs).
  Proof.
    intros Hf xs; induction xs; simpl.
    - apply sat_ret; constructor.
    - eapply sat_bind; [apply Hf|]. intros y Hy.
      eapply sat_bind; [apply IHxs|]. intros ys Hys. apply sat_ret; constructor; auto.
  Qed.
  Lemma sat_mapM_all {A B} (f : A -> M B) (Q : B -> Prop) :
    (forall x, sat h0 (f x) Q) -> forall xs, sat h0 (mapM f xs) (Forall Q).
  Proof.
    intros Hf xs. eapply sat_weaken; [apply (sat_mapM f (fun _ => Q)); auto|].
    intros ys H; induction H; constructor; auto.
  Qed.
  Lemma sat_true {A} (m : M A) Q : sat h0 m Q -> sat h0 m (fun _ => True).
  Proof. intros; eapply sat_weaken; eauto. Qed.

  (* ---------------------------------------------------------------- looking at values: no write *)
  Definition view_spec (v : val) (x : pv) : Prop :=
    match x with
    | PVNone => v = PNone
    | PVNum z => v = PNum z
    | PVArr l _ => v = PRef l
    | PVOther => exists l, v = PRef l
    end.
  Lemma sat_view v : sat h0 (view v) (view_spec v).
  Proof.
    destruct v; simpl; try (apply sat_ret; reflexivity).
    eapply sat_bind; [apply sat_deref|]. intros o _. apply sat_ret.
    destruct o; simpl; eauto.
  Qed.
  Lemma sat_get_dict v :
    sat h0 (get_dict v) (fun d => forall l, v = PRef l -> l < length h0 -> nth_error h0 l = Some (ODict d)).
  Proof.
    destruct v; simpl; try apply sat_raise.
    eapply sat_bind; [apply sat_deref|]. intros o Ho. destruct o; try apply sat_raise.
    apply sat_ret. intros l' E; inversion E; subst; auto.
  Qed.
  Lemma sat_get_cell v :
    sat h0 (get_cell v)
        (fun x => forall l, v = PRef l -> l < length h0 -> nth_error h0 l = Some (OCell (fst x) (snd x))).
  Proof.
    destruct v; simpl; try apply sat_raise.
    eapply sat_bind; [apply sat_deref|]. intros o Ho. destruct o; try apply sat_raise.
    apply sat_ret. intros l' E; inversion E; subst; auto.
  Qed.
  Lemma sat_cell_values c : sat h0 (cell_values c) (fun _ => True).
  Proof. unfold cell_values. eapply sat_bind; [apply sat_get_cell|]. intros; apply sat_ret; auto. Qed.
  Lemma sat_cell_items c : sat h0 (cell_items c) (fun _ => True).
  Proof.
    unfold cell_items. eapply sat_bind; [apply sat_cell_values|]. intros.
    eapply sat_true; apply sat_get_dict.
  Qed.

  (* ---------------------------------------------------------------- arithmetic *)
  Lemma sat_new_arr xs : sat h0 (new_arr xs) (fresh h0).
  Proof. unfold new_arr. eapply sat_bind; [apply sat_alloc|]. intros; apply sat_ret; auto. Qed.
  Lemma sat_new_dict d : sat h0 (new_dict d) (fresh h0).
  Proof. unfold new_dict. eapply sat_bind; [apply sat_alloc|]. intros; apply sat_ret; auto. Qed.
  Lemma sat_binop op a b : sat h0 (binop op a b) (fresh h0).
  Proof.
    unfold binop. eapply sat_bind; [apply sat_view|]. intros x _.
    eapply sat_bind; [apply sat_view|]. intros y _.
    destruct x, y; try apply sat_raise; try apply sat_new_arr; try (apply sat_ret; exact I).
    destruct (bcast op xs xs0); [apply sat_new_arr|apply sat_raise].
  Qed.
  (* in-place update: safe when the target is fresh; the binding stays fresh *)
  Lemma sat_iop op t b : fresh h0 t -> sat h0 (iop op t b) (fresh h0).
  Proof.
    intros Ft. unfold iop. eapply sat_bind; [apply sat_view|]. intros x Hx.
    destruct x; try apply sat_binop.
    simpl in Hx. subst t. simpl in Ft.
    eapply sat_bind; [apply sat_view|]. intros y _.
    destruct y; try apply sat_raise.
    - eapply sat_bind; [apply sat_store; auto|]. intros; apply sat_ret; auto.
    - destruct ((length xs =? length xs0) || (length xs0 =? 1)); [|apply sat_raise].
      destruct (bcast op xs xs0); [|apply sat_raise].
      eapply sat_bind; [apply sat_store; auto|]. intros; apply sat_ret; auto.
  Qed.

  (* ---------------------------------------------------------------- summarize.py *)
  Lemma sat_guarded_iadd total v x : fresh h0 total -> sat h0 (guarded_iadd total v x) (fresh h0).
  Proof.
    intros Ft. unfold guarded_iadd. eapply sat_bind; [apply sat_view|]. intros a _.
    eapply sat_bind; [apply sat_view|]. intros b _.
    destruct a, b; try (apply sat_iop; auto); try apply sat_raise.
    destruct (length xs =? length xs0); [apply sat_iop; auto|apply sat_raise].
  Qed.
  Lemma sat_csum_step total v : fresh h0 total -> sat h0 (csum_step total v) (fresh h0).
  Proof.
    intros Ft. destruct v; simpl; try (apply sat_guarded_iadd; auto). apply sat_ret; auto.
  Qed.
  Lemma sat_conforming_sum values : sat h0 (conforming_sum values) (fresh h0).
  Proof. apply sat_foldM; [intros; apply sat_csum_step; auto|exact I]. Qed.

  Lemma sat_cwa_step c total vw : fresh h0 total -> sat h0 (cwa_step c total vw) (fresh h0).
  Proof.
    intros Ft. unfold cwa_step. destruct (fst vw) eqn:E; [apply sat_ret; auto| |].
    all: eapply sat_bind; [apply sat_view|]; intros a _;
         eapply sat_bind; [apply sat_view|]; intros b _;
         destruct a, b;
         try (eapply sat_bind; [apply sat_binop|]; intros; apply sat_iop; auto); try apply sat_raise.
    all: destruct (length xs =? length xs0); [|apply sat_raise];
         eapply sat_bind; [apply sat_binop|]; intros; apply sat_iop; auto.
  Qed.
  Lemma sat_py_sum ws : sat h0 (py_sum_not_none ws) (fresh h0).
  Proof.
    apply sat_foldM; [|exact I]. intros b x Hb. destruct x; try apply sat_binop. apply sat_ret; auto.
  Qed.
  Lemma sat_apply_post c q : fresh h0 q -> sat h0 (apply_post c q) (fresh h0).
  Proof.
    intros Fq. unfold apply_post. destruct (post c); [|apply sat_ret; auto].
    eapply sat_bind; [apply sat_view|]. intros x _.
    destruct x; try apply sat_raise; [apply sat_ret; exact I|apply sat_new_arr].
  Qed.
  Lemma sat_py_div c total s : sat h0 (py_div c total s) (fresh h0).
  Proof.
    unfold py_div. eapply sat_bind; [apply sat_view|]. intros x _.
    eapply sat_bind; [apply sat_view|]. intros y _.
    destruct x; try apply sat_binop. destruct y; try apply sat_binop.
    destruct z0; try apply sat_binop. apply sat_raise.
  Qed.
  Lemma sat_cwa c values weights : sat h0 (conforming_weighted_average c values weights) (fresh h0).
  Proof.
    unfold conforming_weighted_average.
    eapply sat_bind; [apply sat_foldM; [intros; apply sat_cwa_step; auto|exact I]|]. intros total _.
    eapply sat_bind; [apply sat_py_sum|]. intros s _.
    eapply sat_bind; [apply sat_py_div|]. intros q Fq. apply sat_apply_post; auto.
  Qed.
  Lemma sat_agg_key c ds ks k : sat h0 (agg_key c ds ks k) (fun kv => fresh h0 (snd kv)).
  Proof.
    unfold agg_key, agg_key_gen. destruct (wavg c k).
    - destruct (memk k0 ks); [|apply sat_raise].
      eapply sat_bind; [apply sat_cwa|]. intros; apply sat_ret; auto.
    - eapply sat_bind; [apply sat_conforming_sum|]. intros; apply sat_ret; auto.
  Qed.
  Lemma sat_summarize_cell_values c cells p :
    sat h0 (summarize_cell_values c cells p)
        (fun d => p = true -> Forall (fun kv => fresh h0 (snd kv)) d).
  Proof.
    unfold summarize_cell_values, summarize_cell_values_gen. fold agg_key.
    eapply sat_bind; [apply sat_mapM_all; intros; apply sat_cell_items|]. intros ds _.
    destruct (negb _); [apply sat_raise|]. destruct p.
    - eapply sat_weaken; [apply sat_mapM_all; intros; apply sat_agg_key|]. auto.
    - eapply sat_bind; [apply sat_mapM_all; intros; apply sat_agg_key|]. intros.
      apply sat_ret. discriminate.
  Qed.

  (* ---------------------------------------------------------------- cells *)
  Lemma sat_check_values v : sat h0 (check_values v) (fun _ => True).
  Proof.
    unfold check_values. eapply sat_bind; [apply sat_get_dict|]. intros d _.
    apply sat_foldM; auto. intros b x _. eapply sat_bind; [apply sat_view|]. intros y _.
    destruct y; try apply sat_raise; apply sat_ret; auto.
  Qed.
  Lemma sat_new_cell validate tag vals : sat h0 (new_cell validate tag vals) (fresh h0).
  Proof.
    unfold new_cell. eapply sat_bind with (P := fun _ => True).
    - destruct validate; [|apply sat_ret; auto].
      eapply sat_bind; [apply sat_check_values|]. intros _ _.
      destruct (tag <? 0)%Z; [apply sat_raise|apply sat_ret; auto].
    - intros _ _. eapply sat_bind with (P := fun _ => True).
      + destruct vals; try (apply sat_ret; auto).
        eapply sat_bind; [apply sat_alloc|]. intros; apply sat_ret; auto.
      + intros v' _. eapply sat_bind; [apply sat_alloc|]. intros; apply sat_ret; auto.
  Qed.
  Lemma sat_base_replace validate self defs : sat h0 (base_replace validate self defs) (fresh h0).
  Proof.
    unfold base_replace. eapply sat_bind; [apply sat_get_cell|]. intros; apply sat_new_cell.
  Qed.
  Lemma sat_replace self defs : sat h0 (replace self defs) (fresh h0).
  Proof.
    unfold replace. eapply sat_bind with (P := fun _ => True).
    - apply sat_foldM; auto. intros; eapply sat_true; apply sat_base_replace.
    - intros; apply sat_base_replace.
  Qed.
  Lemma sat_select self ks : sat h0 (select self ks) (fresh h0).
  Proof.
    unfold select. eapply sat_bind; [apply sat_cell_items|]. intros d _.
    eapply sat_bind; [apply sat_new_dict|]. intros; apply sat_replace.
  Qed.
  Lemma sat_derive_fields self defs :
    sat h0 (derive_fields self defs) (fun r => defs <> [] -> fresh h0 r).
  Proof.
    unfold derive_fields. destruct defs as [|kv defs]; [apply sat_ret; congruence|].
    eapply sat_weaken with (P := fresh h0); [|auto]. simpl.
    assert (step : forall cell kv,
               sat h0 (d <- cell_items cell;; nv <- new_dict (dunion d [kv]);; replace cell [DValues nv])
                   (fresh h0)).
    { intros. eapply sat_bind; [apply sat_cell_items|]. intros d _.
      eapply sat_bind; [apply sat_new_dict|]. intros; apply sat_replace. }
    eapply sat_bind; [apply step|]. intros c Fc.
    apply sat_foldM; auto. intros; apply step.
  Qed.
  Lemma sat_add_statics self source fields : sat h0 (add_statics self source fields) (fresh h0).
  Proof.
    unfold add_statics. eapply sat_bind; [apply sat_cell_items|]. intros sd _.
    eapply sat_bind; [apply sat_cell_items|]. intros d _.
    eapply sat_bind; [apply sat_new_dict|]. intros; apply sat_replace.
  Qed.
  Lemma sat_merge_cell_pair c1 c2 :
    sat h0 (merge_cell_pair c1 c2) (fun r => c1 <> PNone -> c2 <> PNone -> fresh h0 r).
  Proof.
    assert (both : sat h0 (d1 <- cell_items c1;; d2 <- cell_items c2;;
                           nv <- new_dict (dunion d1 d2);; replace c1 [DValues nv]) (fresh h0)).
    { eapply sat_bind; [apply sat_cell_items|]. intros d1 _.
      eapply sat_bind; [apply sat_cell_items|]. intros d2 _.
      eapply sat_bind; [apply sat_new_dict|]. intros; apply sat_replace. }
    unfold merge_cell_pair.
    destruct c1; [apply sat_ret; congruence| |]; (destruct c2; [apply sat_ret; congruence| |]);
      (eapply sat_weaken; [apply both|auto]).
  Qed.
  Lemma sat_overwrite_values c1 c2 s : sat h0 (overwrite_values c1 c2 s) (fresh h0).
  Proof.
    unfold overwrite_values. eapply sat_bind; [apply sat_cell_items|]. intros d2 _.
    eapply sat_bind; [apply sat_cell_items|]. intros d1 _.
    eapply sat_bind; [apply sat_new_dict|]. intros; apply sat_replace.
  Qed.
  (* thinning one entry: the entry itself (same object) or a fresh array under the same key *)
  Lemma sat_thin_value ndxs kv :
    sat h0 (thin_value ndxs kv) (fun kv' => kv' = kv \/ (fst kv' = fst kv /\ fresh h0 (snd kv'))).
  Proof.
    unfold thin_value. eapply sat_bind; [apply sat_view|]. intros x _.
    destruct x; try (apply sat_ret; auto).
    destruct (1 <? length xs); [|apply sat_ret; auto].
    destruct (take_ndxs xs ndxs); [|apply sat_raise].
    eapply sat_bind; [apply sat_new_arr|]. intros a Fa. apply sat_ret; auto.
  Qed.
  Lemma sat_thin_cell cell ndxs : sat h0 (thin_cell cell ndxs) (fresh h0).
  Proof.
    unfold thin_cell. eapply sat_bind; [apply sat_cell_items|]. intros d _.
    eapply sat_bind; [apply sat_mapM_all; intros; eapply sat_true; apply sat_thin_value|]. intros nd _.
    eapply sat_bind; [apply sat_new_dict|]. intros; apply sat_replace.
  Qed.

  (* ---------------------------------------------------------------- basis.py *)
  (* entry-level alias prediction: "earned_premium" is the very object held by next_values, every
     other entry is a number or a fresh array *)
  Lemma sat_values_combine c op swap a next :
    sat h0 (values_combine c op swap a next)
        (fun d => forall dn l, next = PRef l -> l < length h0 -> nth_error h0 l = Some (ODict dn) ->
                  Forall (fun kv => if (fst kv =? EP)%Z then dget EP dn = Some (snd kv)
                                    else fresh h0 (snd kv)) d).
  Proof.
    unfold values_combine. eapply sat_bind; [apply sat_get_dict|]. intros da _.
    eapply sat_bind; [apply sat_get_dict|]. intros dn Hdn.
    destruct (negb _); [apply sat_raise|].
    eapply sat_weaken.
    - apply sat_mapM_all with
        (Q := fun kv => if (fst kv =? EP)%Z then dget EP dn = Some (snd kv) else fresh h0 (snd kv)).
      intros k. destruct (dget k da) eqn:Ga; [|apply sat_raise].
      destruct (dget k dn) eqn:G; [|apply sat_raise].
      destruct (k =? EP)%Z eqn:K.
      + apply sat_ret; simpl. rewrite K. apply Z.eqb_eq in K. rewrite <- K. auto.
      + eapply sat_bind with (P := fresh h0); [destruct swap; apply sat_binop|].
        intros r Fr. apply sat_ret; simpl. rewrite K; auto.
    - intros d Hd dn' l E Hl N. specialize (Hdn l E Hl). rewrite N in Hdn.
      inversion Hdn; subst; auto.
  Qed.
  Lemma sat_values_add c a b : sat h0 (values_add c a b) (fresh h0).
  Proof. unfold values_add. eapply sat_bind; [apply sat_values_combine|]. intros; apply sat_new_dict. Qed.
  Lemma sat_values_diff c a b : sat h0 (values_diff c a b) (fresh h0).
  Proof. unfold values_diff. eapply sat_bind; [apply sat_values_combine|]. intros; apply sat_new_dict. Qed.
  Lemma sat_deepcopy_items v : sat h0 (deepcopy_items v) (Forall (fun kv => fresh h0 (snd kv))).
  Proof.
    unfold deepcopy_items. eapply sat_bind; [apply sat_get_dict|]. intros d Hd.
    (* entries that are not arrays are immutable values or (refused) other objects *)
    apply sat_mapM_all. intros kv. eapply sat_bind; [apply sat_view|]. intros x Hx.
    destruct x; simpl in Hx.
    - apply sat_ret. rewrite Hx; exact I.
    - apply sat_ret. rewrite Hx; exact I.
    - eapply sat_bind; [apply sat_new_arr|]. intros; apply sat_ret; auto.
    - apply sat_raise.
  Qed.
End Rules.
