(** C14 -- proofs about the Matrix index and the array data frame (Model/MatrixIx.v).

    1. calendar facts on month ids 0..1571 (1970-01 .. 2100-12), by enumeration;
    2. resolve_* / unresolve_* are inverse on grid points (any step kind), the F12 witness for
       mixed steps;
    3. a grid cell's indices turn back into its coordinates;
    4. from_array rebuilds the cells of an array data frame row by row. *)
From Coq Require Import ZArith List Bool Lia ZifyBool Permutation.
From Bermuda Require Import Model.Base Lib.Calendar Model.Frame Model.MatrixIx.
Import ListNotations.
Local Open Scope Z_scope.

(* ====================================================================================== *)
(** * 1. Calendar facts by enumeration over the month ids 0..1571 *)

Lemma forallb_zrange_lift (P : Z -> bool) (n : nat) :
  forallb P (map Z.of_nat (seq 0 n)) = true ->
  forall i, 0 <= i < Z.of_nat n -> P i = true.
Proof.
  intros H i Hi.
  rewrite forallb_forall in H. apply H.
  apply in_map_iff. exists (Z.to_nat i). split; [lia|].
  apply in_seq. lia.
Qed.

Definition month_ids : list Z := map Z.of_nat (seq 0 1572).

Lemma month_ids_lift (P : Z -> bool) :
  forallb P month_ids = true -> forall i, 0 <= i <= 1571 -> P i = true.
Proof. intros H i Hi. apply (forallb_zrange_lift P 1572 H). lia. Qed.

(* the facts are stated as literal lambdas so that lifting needs only a beta step (unfolding a
   named predicate makes the kernel normalise calendar terms on a symbolic id at Qed time) *)
Lemma cal_fact_ids_all :
  forallb (fun i => (month_id (month_start i) =? i) && (month_id (month_end i) =? i)) month_ids = true.
Proof. vm_compute. reflexivity. Qed.
Lemma cal_fact_ends_all :
  forallb (fun i => is_month_end (month_end i) && negb (is_month_end (month_start i))
                    && (day_of (month_start i) =? 1)) month_ids = true.
Proof. vm_compute. reflexivity. Qed.
Lemma cal_fact_dim_all :
  forallb (fun i => 28 <=? days_in_month (1970 + i / 12) (i mod 12 + 1)) month_ids = true.
Proof. vm_compute. reflexivity. Qed.

Lemma month_id_start : forall i, 0 <= i <= 1571 -> month_id (month_start i) = i.
Proof.
  intros i Hi. pose proof (month_ids_lift _ cal_fact_ids_all i Hi) as H.
  cbv beta in H. apply andb_true_iff in H. destruct H as [H _].
  apply Z.eqb_eq in H. exact H.
Qed.
Lemma month_id_end : forall i, 0 <= i <= 1571 -> month_id (month_end i) = i.
Proof.
  intros i Hi. pose proof (month_ids_lift _ cal_fact_ids_all i Hi) as H.
  cbv beta in H. apply andb_true_iff in H. destruct H as [_ H].
  apply Z.eqb_eq in H. exact H.
Qed.
Lemma month_end_is_end : forall i, 0 <= i <= 1571 -> is_month_end (month_end i) = true.
Proof.
  intros i Hi. pose proof (month_ids_lift _ cal_fact_ends_all i Hi) as H.
  cbv beta in H. rewrite !andb_true_iff in H. tauto.
Qed.
Lemma month_start_not_end : forall i, 0 <= i <= 1571 ->
  is_month_end (month_start i) = false /\ day_of (month_start i) = 1.
Proof.
  intros i Hi. pose proof (month_ids_lift _ cal_fact_ends_all i Hi) as H.
  cbv beta in H. rewrite !andb_true_iff in H. destruct H as [[_ H1] H2].
  split; [apply negb_true_iff; exact H1 | apply Z.eqb_eq; exact H2].
Qed.
Lemma month_start_is_start : forall i, 0 <= i <= 1571 -> is_month_start (month_start i) = true.
Proof.
  intros i Hi. unfold is_month_start. destruct (month_start_not_end i Hi) as [_ H].
  rewrite H. reflexivity.
Qed.
Lemma days_in_month_ge_28 : forall i, 0 <= i <= 1571 ->
  28 <= days_in_month (1970 + i / 12) (i mod 12 + 1).
Proof.
  intros i Hi. pose proof (month_ids_lift _ cal_fact_dim_all i Hi) as H.
  cbv beta in H. apply Z.leb_le in H. exact H.
Qed.

Lemma addm_month_end : forall i k, 0 <= i <= 1571 -> 0 <= i + k <= 1571 ->
  addm (month_end i) k = month_end (i + k).
Proof.
  intros i k Hi _. unfold addm.
  rewrite (month_end_is_end i Hi), (month_id_end i Hi). reflexivity.
Qed.
Lemma addm_month_start : forall i k, 0 <= i <= 1571 -> 0 <= i + k <= 1571 ->
  addm (month_start i) k = month_start (i + k).
Proof.
  intros i k Hi Hk. unfold addm.
  destruct (month_start_not_end i Hi) as [H1 H2].
  rewrite H1, H2, (month_id_start i Hi).
  pose proof (days_in_month_ge_28 (i + k) Hk) as Hd.
  rewrite Z.min_l by lia. reflexivity.
Qed.
Lemma lag_months_ends : forall a b, 0 <= a <= 1571 -> 0 <= b <= 1571 ->
  lag_months (month_end a) (month_end b) = b - a.
Proof.
  intros a b Ha Hb. unfold lag_months. rewrite (month_id_end a Ha), (month_id_end b Hb). reflexivity.
Qed.
(* the period end computed by from_array: addm ps r - 1 *)
Lemma addm_start_pred_is_end : forall i r, 0 <= i <= 1571 -> 0 <= i + r <= 1571 ->
  addm (month_start i) r - 1 = month_end (i + r - 1).
Proof.
  intros i r Hi Hr. rewrite (addm_month_start i r Hi Hr). unfold month_end.
  replace (i + r - 1 + 1) with (i + r) by lia. reflexivity.
Qed.

(* ====================================================================================== *)
(** * 2. Index inverse *)

Lemma resolve_unresolve_dev : forall k ix n, 0 < step_of k ix -> 0 <= n ->
  resolve_dev k ix (unresolve_dev k ix n) = Ok n.
Proof.
  intros k ix n Hs Hn. unfold resolve_dev, unresolve_dev.
  replace (dev_origin ix + n * step_of k ix - dev_origin ix) with (n * step_of k ix) by lia.
  rewrite Z.quot_mul by lia.
  destruct (n <? 0) eqn:E; [lia | reflexivity].
Qed.

Lemma unresolve_resolve_dev : forall k ix lag, 0 < step_of k ix -> dev_origin ix <= lag ->
  (step_of k ix | lag - dev_origin ix) ->
  exists n, resolve_dev k ix lag = Ok n /\ 0 <= n /\ unresolve_dev k ix n = lag.
Proof.
  intros k ix lag Hs Hl [q Hq]. exists q.
  assert (Hq0 : 0 <= q) by nia.
  unfold resolve_dev, unresolve_dev. rewrite Hq, Z.quot_mul by lia.
  destruct (q <? 0) eqn:E; [lia|]. repeat split; lia.
Qed.

Lemma resolve_dev_injective : forall k ix l1 l2 n, 0 < step_of k ix ->
  dev_origin ix <= l1 -> dev_origin ix <= l2 ->
  (step_of k ix | l1 - dev_origin ix) -> (step_of k ix | l2 - dev_origin ix) ->
  resolve_dev k ix l1 = Ok n -> resolve_dev k ix l2 = Ok n -> l1 = l2.
Proof.
  intros k ix l1 l2 n Hs H1 H2 D1 D2 R1 R2.
  destruct (unresolve_resolve_dev k ix l1 Hs H1 D1) as [n1 [E1 [_ U1]]].
  destruct (unresolve_resolve_dev k ix l2 Hs H2 D2) as [n2 [E2 [_ U2]]].
  rewrite R1 in E1. rewrite R2 in E2. inversion E1. inversion E2. subst. reflexivity.
Qed.

Lemma nested_step_divides : forall ix a b, 0 < dev_res ix -> 0 < exp_res ix ->
  ((dev_res ix | exp_res ix) \/ (exp_res ix | dev_res ix)) ->
  (dev_res ix | a) -> (exp_res ix | b) -> (step_of SMin ix | a - b).
Proof.
  intros ix a b Hd He Hn Da Db. unfold step_of.
  destruct Hn as [Hn | Hn].
  - assert (dev_res ix <= exp_res ix) by (apply Z.divide_pos_le; assumption).
    rewrite Z.min_l by lia. apply Z.divide_sub_r; [assumption|].
    apply (Z.divide_trans _ (exp_res ix)); assumption.
  - assert (exp_res ix <= dev_res ix) by (apply Z.divide_pos_le; assumption).
    rewrite Z.min_r by lia. apply Z.divide_sub_r; [|assumption].
    apply (Z.divide_trans _ (dev_res ix)); assumption.
Qed.

(* F12: index built with min(dev_res, exp_res), inverse with dev_res *)
Lemma mixed_steps_refuted : exists ix lag,
  0 < dev_res ix /\ 0 < exp_res ix /\ dev_origin ix <= lag /\
  (step_of SMin ix | lag - dev_origin ix) /\
  match resolve_dev SMin ix lag with
  | Ok n => unresolve_dev SDev ix n <> lag
  | Err _ => False
  end.
Proof.
  exists (mkIx [] [] 0 12 0 24), 24.
  split; [reflexivity|]. split; [reflexivity|]. split; [discriminate|].
  split; [exists 2; reflexivity|].
  vm_compute. discriminate.
Qed.

Lemma resolve_unresolve_exp : forall ix n, 0 < exp_res ix -> 0 <= n ->
  0 <= exp_origin ix + n * exp_res ix <= 1571 ->
  resolve_exp ix (unresolve_exp_start ix n) = Ok n.
Proof.
  intros ix n He Hn Hr. unfold resolve_exp, unresolve_exp_start.
  rewrite (month_id_start _ Hr).
  replace (exp_origin ix + n * exp_res ix - exp_origin ix) with (n * exp_res ix) by lia.
  rewrite Z.div_mul by lia.
  destruct (n <? 0) eqn:E; [lia | reflexivity].
Qed.

Lemma unresolve_resolve_exp : forall ix s, 0 < exp_res ix -> exp_origin ix <= s -> 0 <= s <= 1571 ->
  (exp_res ix | s - exp_origin ix) ->
  exists p, resolve_exp ix (month_start s) = Ok p /\ 0 <= p /\ exp_origin ix + p * exp_res ix = s.
Proof.
  intros ix s He Ho Hs [q Hq]. exists q.
  assert (Hq0 : 0 <= q) by nia.
  unfold resolve_exp. rewrite (month_id_start s Hs), Hq, Z.div_mul by lia.
  destruct (q <? 0) eqn:E; [lia|]. repeat split; lia.
Qed.

(* ====================================================================================== *)
(** * 3. Cell level: the indices of a grid cell turn back into its coordinates *)

Lemma coords_roundtrip : forall k ix s lag,
  0 < exp_res ix -> 0 < step_of k ix ->
  (exp_res ix | s - exp_origin ix) -> exp_origin ix <= s ->
  dev_origin ix <= lag -> (step_of k ix | lag - dev_origin ix) ->
  0 <= s -> 0 <= s + exp_res ix - 1 + lag -> s + exp_res ix - 1 <= 1571 ->
  s + exp_res ix - 1 + lag <= 1571 ->
  exists p d,
    resolve_exp ix (month_start s) = Ok p /\ resolve_dev k ix lag = Ok d /\
    cell_coords_from_index k ix p d
    = (month_start s, month_end (s + exp_res ix - 1), month_end (s + exp_res ix - 1 + lag)).
Proof.
  intros k ix s lag He Hk De Ho Hl Dl Hs0 Hev0 Hpe Hev.
  destruct (unresolve_resolve_exp ix s He Ho ltac:(lia) De) as [p [Ep [Hp Up]]].
  destruct (unresolve_resolve_dev k ix lag Hk Hl Dl) as [d [Ed [Hd Ud]]].
  exists p, d. repeat split; try assumption.
  unfold cell_coords_from_index, unresolve_exp_start, unresolve_exp_end.
  rewrite Ud, Up.
  replace (exp_origin ix + (p + 1) * exp_res ix - 1) with (s + exp_res ix - 1) by lia.
  rewrite addm_month_end by lia. reflexivity.
Qed.

(* ====================================================================================== *)
(** * 4. Array data frame: from_array rebuilds the cells, row by row *)

(* cells of one period row with all entries present *)
Definition arow_cells (f : str) (m : meta) (res s : Z) (lv : list (Z * Z)) : list cell :=
  map (fun '(lag, x) =>
         mkCell KCum (month_start s) (month_end (s + res - 1)) (month_end (s + res - 1 + lag)) None m
                [(f, VNum (Num true x))]) lv.
(* ... with missing (NaN / None) entries skipped *)
Definition arow_cells_opt (f : str) (m : meta) (res s : Z) (lv : list (Z * option Z)) : list cell :=
  flat_map (fun hv => match snd hv with
                      | Some x => [mkCell KCum (month_start s) (month_end (s + res - 1))
                                          (month_end (s + res - 1 + fst hv)) None m [(f, VNum (Num true x))]]
                      | None => []
                      end) lv.
Definition aframe_cells (f : str) (m : meta) (res : Z) (lags : list Z)
           (rows : list (Z * list (option Z))) : list cell :=
  flat_map (fun r => arow_cells_opt f m res (fst r) (combine lags (snd r))) rows.

(* side conditions of one row: period [s, s+res-1] and every evaluation month inside 1970-2100 *)
Definition arow_ok (res : Z) (lags : list Z) (s : Z) : Prop :=
  0 <= s <= 1571 /\ 0 <= s + res - 1 /\ s + res <= 1571 /\
  Forall (fun lag => 0 <= s + res - 1 + lag <= 1571) lags.

Lemma arow_cells_opt_some : forall f m res s lags vals,
  arow_cells_opt f m res s (combine lags (map Some vals)) = arow_cells f m res s (combine lags vals).
Proof.
  intros f m res s. induction lags as [|l lags IH]; intros vals; [reflexivity|].
  destruct vals as [|v vals]; [reflexivity|].
  unfold arow_cells_opt, arow_cells in *. cbn [map combine flat_map fst snd app].
  rewrite IH. reflexivity.
Qed.

Lemma from_array_nil : forall lags f r m, from_array (mkAF lags []) f r m = [].
Proof. reflexivity. Qed.
Lemma from_array_app : forall lags rows1 rows2 f r m,
  from_array (mkAF lags (rows1 ++ rows2)) f r m
  = from_array (mkAF lags rows1) f r m ++ from_array (mkAF lags rows2) f r m.
Proof. intros. unfold from_array. cbn [af_rows af_lags]. apply flat_map_app. Qed.
Lemma from_array_cons : forall lags row rows f r m,
  from_array (mkAF lags (row :: rows)) f r m
  = from_array (mkAF lags [row]) f r m ++ from_array (mkAF lags rows) f r m.
Proof. intros. apply (from_array_app lags [row] rows). Qed.

Lemma from_array_row_body : forall f m ps e lags (ovals : list (option Z)),
  0 <= e <= 1571 -> Forall (fun lag => 0 <= e + lag <= 1571) lags ->
  flat_map (fun hv : Z * option Z =>
              match snd hv with
              | Some x => [mkCell KCum ps (month_end e) (addm (month_end e) (fst hv)) None m
                                  [(f, VNum (Num true x))]]
              | None => []
              end) (combine lags ovals)
  = flat_map (fun hv : Z * option Z =>
              match snd hv with
              | Some x => [mkCell KCum ps (month_end e) (month_end (e + fst hv)) None m
                                  [(f, VNum (Num true x))]]
              | None => []
              end) (combine lags ovals).
Proof.
  intros f m ps e lags ovals He. revert ovals.
  induction lags as [|l lags IH]; intros ovals HF; [reflexivity|].
  destruct ovals as [|o ovals]; [reflexivity|].
  inversion HF as [|? ? Hl HF']; subst.
  cbn [combine flat_map fst snd]. rewrite (IH ovals HF').
  rewrite (addm_month_end e l He Hl). reflexivity.
Qed.

Lemma from_array_row_opt : forall f m res s lags ovals,
  arow_ok res lags s ->
  from_array (mkAF lags [(month_start s, ovals)]) f res m
  = arow_cells_opt f m res s (combine lags ovals).
Proof.
  intros f m res s lags ovals (Hs & Hpe & Hn & HF).
  unfold from_array, arow_cells_opt. cbn [af_rows af_lags flat_map fst snd].
  rewrite app_nil_r.
  rewrite (addm_start_pred_is_end s res) by lia.
  apply from_array_row_body; [lia | exact HF].
Qed.

Lemma from_array_row : forall f m res s lags vals,
  arow_ok res lags s -> length lags = length vals ->
  from_array (mkAF lags [(month_start s, map Some vals)]) f res m
  = arow_cells f m res s (combine lags vals).
Proof.
  intros f m res s lags vals Hok _.
  rewrite (from_array_row_opt f m res s lags (map Some vals) Hok).
  apply arow_cells_opt_some.
Qed.

Lemma from_array_rows : forall f m res lags (rows : list (Z * list (option Z))),
  Forall (fun r => arow_ok res lags (fst r)) rows ->
  from_array (mkAF lags (map (fun r => (month_start (fst r), snd r)) rows)) f res m
  = aframe_cells f m res lags rows.
Proof.
  intros f m res lags rows. induction rows as [|[s ov] rows IH]; intros HF; [reflexivity|].
  inversion HF as [|? ? Hr HF']; subst.
  cbn [map fst snd]. rewrite from_array_cons, (IH HF').
  transitivity (arow_cells_opt f m res s (combine lags ov) ++ aframe_cells f m res lags rows);
    [|reflexivity].
  f_equal. exact (from_array_row_opt f m res s lags ov Hr).
Qed.

(* every rebuilt cell carries its lag: cell_lag reads back the column name *)
Lemma arow_cells_opt_lag : forall f m res s lv c,
  0 <= s + res - 1 <= 1571 ->
  Forall (fun hv => 0 <= s + res - 1 + fst hv <= 1571) lv ->
  In c (arow_cells_opt f m res s lv) ->
  exists lag x, In (lag, Some x) lv /\ cell_lag c = lag /\ ps c = month_start s /\
                pe c = month_end (s + res - 1) /\ cvals c = [(f, VNum (Num true x))].
Proof.
  intros f m res s lv c He HF Hin. unfold arow_cells_opt in Hin.
  apply in_flat_map in Hin. destruct Hin as [[lag ox] [Hlv Hc]].
  rewrite Forall_forall in HF. pose proof (HF _ Hlv) as Hr. cbn [fst snd] in *.
  destruct ox as [x|]; [|contradiction].
  destruct Hc as [Hc|[]]. subst c. exists lag, x. cbn [ps pe ev cvals].
  unfold cell_lag. cbn [pe ev]. rewrite lag_months_ends by lia.
  repeat split; try assumption. lia.
Qed.

(* ====================================================================================== *)
(** * 5a. Facts about the index computed by index_from_triangle (towards the Matrix theorem) *)

Lemma list_min_le_d : forall l d, list_min d l <= d.
Proof.
  unfold list_min. induction l as [|a l IH]; intros d; cbn [fold_left]; [lia|].
  specialize (IH (Z.min d a)). lia.
Qed.
Lemma list_min_le_in : forall l d x, In x l -> list_min d l <= x.
Proof.
  unfold list_min. induction l as [|a l IH]; intros d x Hin; [contradiction|].
  cbn [fold_left]. destruct Hin as [->|Hin].
  - pose proof (list_min_le_d l (Z.min d x)) as H. unfold list_min in H. lia.
  - apply IH. exact Hin.
Qed.
Lemma list_min_in : forall l d, list_min d l = d \/ In (list_min d l) l.
Proof.
  unfold list_min. induction l as [|a l IH]; intros d; cbn [fold_left]; [left; reflexivity|].
  destruct (IH (Z.min d a)) as [H|H].
  - rewrite H. destruct (Z.min_spec d a) as [[_ E]|[_ E]]; rewrite E; [left; reflexivity|right; left; reflexivity].
  - right. right. exact H.
Qed.
(* the minimum of a non-empty list, as used by index_from_triangle: list_min (head) (whole list) *)
Lemma list_min_head_le : forall x r y, In y (x :: r) -> list_min x (x :: r) <= y.
Proof. intros. apply list_min_le_in. assumption. Qed.
Lemma list_min_head_in : forall x r, In (list_min x (x :: r)) (x :: r).
Proof. intros. destruct (list_min_in (x :: r) x) as [H|H]; [rewrite H; left; reflexivity|exact H]. Qed.
Lemma list_min_head_dup : forall x r, list_min x (x :: r) = list_min x r.
Proof. intros. unfold list_min. cbn [fold_left]. rewrite Z.min_id. reflexivity. Qed.

Lemma gcd_fold_divides : forall m l g0,
  let G := fold_left (fun g y => Z.gcd g (y - m)) l g0 in
  (G | g0) /\ forall y, In y l -> (G | y - m).
Proof.
  intros m. induction l as [|a l IH]; intros g0; cbn [fold_left].
  - split; [apply Z.divide_refl|intros y []].
  - destruct (IH (Z.gcd g0 (a - m))) as [H1 H2]. split.
    + eapply Z.divide_trans; [exact H1|apply Z.gcd_divide_l].
    + intros y [->|Hy]; [|apply H2; exact Hy].
      eapply Z.divide_trans; [exact H1|apply Z.gcd_divide_r].
Qed.
Lemma gcd_fold_nonneg : forall m l g0, 0 <= g0 -> 0 <= fold_left (fun g y => Z.gcd g (y - m)) l g0.
Proof.
  intros m. induction l as [|a l IH]; intros g0 H; cbn [fold_left]; [exact H|].
  apply IH. apply Z.gcd_nonneg.
Qed.

Lemma gcd_offsets_nonneg : forall l, 0 <= gcd_offsets l.
Proof. intros [|x r]; [reflexivity|]. unfold gcd_offsets. apply gcd_fold_nonneg. lia. Qed.
Lemma gcd_offsets_divides : forall x r y, In y (x :: r) ->
  (gcd_offsets (x :: r) | y - list_min x r).
Proof.
  intros x r y Hy. unfold gcd_offsets.
  destruct (gcd_fold_divides (list_min x r) (x :: r) 0) as [_ H]. apply H. exact Hy.
Qed.
(* any two entries differ by a multiple of the gcd *)
Lemma gcd_offsets_divides_diff : forall l y z, In y l -> In z l -> (gcd_offsets l | y - z).
Proof.
  intros [|x r] y z Hy Hz; [contradiction|].
  replace (y - z) with ((y - list_min x r) - (z - list_min x r)) by lia.
  apply Z.divide_sub_r; apply gcd_offsets_divides; assumption.
Qed.
Lemma gcd_offsets_pos : forall l y z, In y l -> In z l -> y <> z -> 0 < gcd_offsets l.
Proof.
  intros l y z Hy Hz Hne. pose proof (gcd_offsets_nonneg l) as H0.
  destruct (Z.eq_dec (gcd_offsets l) 0) as [E|E]; [|lia].
  pose proof (gcd_offsets_divides_diff l y z Hy Hz) as [q Hq]. rewrite E in Hq. lia.
Qed.

(* what index_from_triangle returns *)
Lemma index_from_triangle_inv : forall t fields ix,
  index_from_triangle t fields = Ok ix ->
  exists c0 t', t = c0 :: t' /\ fields <> [] /\
    ix = mkIx (dedup meta_seqb (map cmeta t)) fields
              (list_min (month_id (ps c0)) (map (fun c => month_id (ps c)) t))
              (gcd_offsets (map (fun c => month_id (ps c)) t ++ map (fun c => month_id (pe c) + 1) t))
              (list_min (cell_lag c0) (map cell_lag t))
              (gcd_offsets (map (fun c => month_id (ev c)) t)) /\
    gcd_offsets (map (fun c => month_id (ev c)) t) <> 0.
Proof.
  intros t fields ix H. unfold index_from_triangle in H.
  destruct t as [|c0 t']; [discriminate|]. exists c0, t'.
  destruct (gcd_offsets (map (fun c => month_id (ev c)) (c0 :: t')) =? 0) eqn:Eg; [discriminate|].
  destruct fields as [|f0 fs]; [discriminate|].
  inversion H. repeat split; try reflexivity; [discriminate | lia].
Qed.

(* every cell of the triangle lies on the grid of the computed index *)
Lemma index_from_triangle_grid : forall t fields ix,
  index_from_triangle t fields = Ok ix ->
  ix_slices ix = dedup meta_seqb (map cmeta t) /\ ix_fields ix = fields /\ 0 < dev_res ix /\
  (forall c, In c t ->
     exp_origin ix <= month_id (ps c) /\
     (exp_res ix | month_id (ps c) - exp_origin ix) /\
     (exp_res ix | month_id (pe c) + 1 - month_id (ps c)) /\
     dev_origin ix <= cell_lag c) /\
  (exists c1, In c1 t /\ dev_origin ix = cell_lag c1) /\
  (forall c c', In c t -> In c' t ->
     (dev_res ix | month_id (ev c) - month_id (ev c')) /\
     (exp_res ix | month_id (pe c) - month_id (pe c'))).
Proof.
  intros t fields ix H.
  destruct (index_from_triangle_inv t fields ix H) as (c0 & t' & -> & Hf & -> & Hg).
  cbn [ix_slices ix_fields exp_origin exp_res dev_origin dev_res].
  set (t := c0 :: t') in *.
  set (starts := map (fun c => month_id (ps c)) t).
  set (nexts := map (fun c => month_id (pe c) + 1) t).
  assert (Hs : forall c, In c t -> In (month_id (ps c)) (starts ++ nexts))
    by (intros c Hc; apply in_or_app; left; apply (in_map (fun c => month_id (ps c))); exact Hc).
  assert (Hn : forall c, In c t -> In (month_id (pe c) + 1) (starts ++ nexts))
    by (intros c Hc; apply in_or_app; right; apply (in_map (fun c => month_id (pe c) + 1)); exact Hc).
  split; [reflexivity|]. split; [reflexivity|].
  split; [pose proof (gcd_offsets_nonneg (map (fun c => month_id (ev c)) t)); lia|].
  split; [|split].
  - intros c Hc.
    assert (Hin0 : In (list_min (month_id (ps c0)) starts) (starts ++ nexts)).
    { apply in_or_app. left. exact (list_min_head_in (month_id (ps c0)) _). }
    split; [apply list_min_le_in; apply (in_map (fun c => month_id (ps c))); exact Hc|].
    split; [apply gcd_offsets_divides_diff; [apply Hs; exact Hc|exact Hin0]|].
    split; [apply gcd_offsets_divides_diff; [apply Hn; exact Hc|apply Hs; exact Hc]|].
    apply list_min_le_in. apply in_map. exact Hc.
  - pose proof (list_min_head_in (cell_lag c0) (map cell_lag t')) as Hin.
    change (cell_lag c0 :: map cell_lag t') with (map cell_lag t) in Hin.
    apply in_map_iff in Hin. destruct Hin as [c1 [E Hc1]]. exists c1. split; [exact Hc1|].
    symmetry. exact E.
  - intros c c' Hc Hc'. split.
    + apply gcd_offsets_divides_diff; apply (in_map (fun c => month_id (ev c))); assumption.
    + replace (month_id (pe c) - month_id (pe c')) with ((month_id (pe c) + 1) - (month_id (pe c') + 1)) by lia.
      apply gcd_offsets_divides_diff; apply Hn; assumption.
Qed.

(* nested resolutions: every lag is dev_origin + a multiple of min(dev_res, exp_res) *)
Lemma index_from_triangle_lag_grid : forall t fields ix,
  index_from_triangle t fields = Ok ix -> 0 < exp_res ix ->
  ((dev_res ix | exp_res ix) \/ (exp_res ix | dev_res ix)) ->
  forall c, In c t -> (step_of SMin ix | cell_lag c - dev_origin ix).
Proof.
  intros t fields ix H He Hn c Hc.
  destruct (index_from_triangle_grid t fields ix H) as (_ & _ & Hd & _ & (c1 & Hc1 & E) & Hdiff).
  rewrite E. unfold cell_lag, lag_months.
  replace (month_id (ev c) - month_id (pe c) - (month_id (ev c1) - month_id (pe c1)))
    with ((month_id (ev c) - month_id (ev c1)) - (month_id (pe c) - month_id (pe c1))) by lia.
  destruct (Hdiff c c1 Hc Hc1) as [D1 D2].
  apply nested_step_divides; assumption.
Qed.

(* a triangle with a cell whose period is non-empty has a positive experience resolution *)
Lemma index_from_triangle_exp_res_pos : forall t fields ix c,
  index_from_triangle t fields = Ok ix -> In c t -> month_id (ps c) <= month_id (pe c) ->
  0 < exp_res ix.
Proof.
  intros t fields ix c H Hc Hle.
  destruct (index_from_triangle_inv t fields ix H) as (c0 & t' & -> & Hf & -> & Hg).
  cbn [exp_res].
  apply (gcd_offsets_pos _ (month_id (ps c)) (month_id (pe c) + 1)); [| |lia].
  - apply in_or_app; left. apply (in_map (fun c => month_id (ps c))). exact Hc.
  - apply in_or_app; right. apply (in_map (fun c => month_id (pe c) + 1)). exact Hc.
Qed.

(* ====================================================================================== *)
(** * 5b. Generic list lemmas (towards the Matrix theorem) *)

Lemma mx_list_eqb_eq {A} (eqb : A -> A -> bool) :
  (forall a b, eqb a b = true <-> a = b) ->
  forall l1 l2, list_eqb eqb l1 l2 = true <-> l1 = l2.
Proof.
  intros H l1; induction l1 as [|a l1 IH]; destruct l2 as [|b l2]; cbn [list_eqb]; split; intros E;
    try congruence; try discriminate.
  - apply andb_true_iff in E as [E1 E2]. apply H in E1. apply IH in E2. congruence.
  - inversion E; subst. apply andb_true_iff; split; [now apply H | now apply IH].
Qed.
Lemma mx_str_eqb_eq a b : str_eqb a b = true <-> a = b.
Proof. apply mx_list_eqb_eq. intros; apply Z.eqb_eq. Qed.
Lemma mx_opt_eqb_eq {A} (eqb : A -> A -> bool) :
  (forall a b, eqb a b = true <-> a = b) ->
  forall x y, opt_eqb eqb x y = true <-> x = y.
Proof.
  intros H [a|] [b|]; cbn [opt_eqb]; split; intros E; try congruence; try discriminate.
  - apply H in E; congruence.
  - inversion E; now apply H.
Qed.
Lemma mx_num_seqb_eq a b : num_seqb a b = true <-> a = b.
Proof.
  destruct a as [f n], b as [g m]; unfold num_seqb; cbn [num_isf num_n].
  rewrite andb_true_iff, eqb_true_iff, Z.eqb_eq. split; [intros [-> ->]; auto | inversion 1; auto].
Qed.
Lemma mx_mval_seqb_eq a b : mval_seqb a b = true <-> a = b.
Proof.
  destruct a, b; cbn [mval_seqb]; try (split; intros E; [discriminate | congruence]); try tauto.
  - rewrite mx_str_eqb_eq. split; [congruence | inversion 1; auto].
  - rewrite mx_num_seqb_eq. split; [congruence | inversion 1; auto].
  - rewrite eqb_true_iff. split; [congruence | inversion 1; auto].
  - rewrite Z.eqb_eq. split; [congruence | inversion 1; auto].
Qed.
Lemma mx_pair_eqb_eq {A B} (ea : A -> A -> bool) (eb : B -> B -> bool) :
  (forall a b, ea a b = true <-> a = b) -> (forall a b, eb a b = true <-> a = b) ->
  forall x y, pair_eqb ea eb x y = true <-> x = y.
Proof.
  intros Ha Hb [a b] [a' b']; unfold pair_eqb; cbn [fst snd]. rewrite andb_true_iff, Ha, Hb.
  split; [intros [-> ->]; auto | inversion 1; auto].
Qed.
Lemma mx_meta_seqb_eq a b : meta_seqb a b = true <-> a = b.
Proof.
  destruct a, b; unfold meta_seqb; simpl.
  rewrite !andb_true_iff.
  rewrite !(mx_opt_eqb_eq str_eqb mx_str_eqb_eq), (mx_opt_eqb_eq num_seqb mx_num_seqb_eq).
  rewrite !(mx_list_eqb_eq _ (mx_pair_eqb_eq _ _ mx_str_eqb_eq mx_mval_seqb_eq)).
  split.
  - intros [[[[[[[-> ->] ->] ->] ->] ->] ->] ->]; reflexivity.
  - inversion 1; subst; repeat split; reflexivity.
Qed.

Lemma flat_map_ext_in' {A B} (f g : A -> list B) l :
  (forall a, In a l -> f a = g a) -> flat_map f l = flat_map g l.
Proof.
  induction l as [|a l IH]; intros H; [reflexivity|]. cbn [flat_map].
  rewrite (H a (or_introl eq_refl)), IH; [reflexivity|]. intros; apply H; right; assumption.
Qed.
Lemma flat_map_map' {A B C} (f : A -> B) (g : B -> list C) l :
  flat_map g (map f l) = flat_map (fun a => g (f a)) l.
Proof. induction l as [|a l IH]; [reflexivity|]. cbn [map flat_map]. rewrite IH. reflexivity. Qed.
Lemma flat_map_nil' {A B} (f : A -> list B) l : (forall a, In a l -> f a = []) -> flat_map f l = [].
Proof.
  induction l as [|a l IH]; intros H; [reflexivity|]. cbn [flat_map].
  rewrite (H a (or_introl eq_refl)), IH; [reflexivity|]. intros; apply H; right; assumption.
Qed.
Lemma flat_map_singleton_map {A B} (f : A -> B) l : flat_map (fun a => [f a]) l = map f l.
Proof. induction l as [|a l IH]; [reflexivity|]. cbn [map flat_map app]. rewrite IH. reflexivity. Qed.
Lemma flat_map_prod {A B C} (h : A -> B -> list C) la lb :
  flat_map (fun a => flat_map (fun b => h a b) lb) la
  = flat_map (fun ab => h (fst ab) (snd ab)) (list_prod la lb).
Proof.
  induction la as [|a la IH]; [reflexivity|]. cbn [flat_map list_prod].
  rewrite flat_map_app, <- IH, flat_map_map'. reflexivity.
Qed.

Lemma NoDup_app' {A} (l1 l2 : list A) :
  NoDup l1 -> NoDup l2 -> (forall x, In x l1 -> ~ In x l2) -> NoDup (l1 ++ l2).
Proof.
  induction l1 as [|a l1 IH]; intros H1 H2 H; [exact H2|].
  inversion H1; subst. cbn [app]. constructor.
  - intros Hin. apply in_app_or in Hin. destruct Hin as [Hin|Hin]; [contradiction|].
    exact (H a (or_introl eq_refl) Hin).
  - apply IH; [assumption|assumption|]. intros x Hx. apply H. right. exact Hx.
Qed.
Lemma NoDup_map_pair {A B} (a : A) (lb : list B) : NoDup lb -> NoDup (map (pair a) lb).
Proof.
  induction 1 as [|b lb Hb Hn IH]; [constructor|]. cbn [map]. constructor; [|exact IH].
  intros Hin. apply in_map_iff in Hin. destruct Hin as [b' [E Hb']]. inversion E; subst. contradiction.
Qed.
Lemma NoDup_list_prod' {A B} (la : list A) (lb : list B) :
  NoDup la -> NoDup lb -> NoDup (list_prod la lb).
Proof.
  intros Ha Hb. induction Ha as [|a la Hna Hn IH]; [constructor|]. cbn [list_prod].
  apply NoDup_app'; [apply NoDup_map_pair; exact Hb|exact IH|].
  intros [a' b'] H1 H2. apply in_map_iff in H1. destruct H1 as [b'' [E _]]. inversion E; subst.
  apply in_prod_iff in H2. destruct H2 as [H2 _]. contradiction.
Qed.
Lemma NoDup_split_at {A} (g : A) l : NoDup l -> In g l ->
  exists l1 l2, l = l1 ++ g :: l2 /\ ~ In g l1 /\ ~ In g l2.
Proof.
  intros Hn Hin. destruct (in_split g l Hin) as [l1 [l2 E]]. exists l1, l2. split; [exact E|].
  subst l. pose proof (NoDup_remove_2 l1 l2 g Hn) as H. split; intros Hx; apply H; apply in_or_app; auto.
Qed.

Lemma flat_map_app_perm {A B} (f g : A -> list B) l :
  Permutation (flat_map (fun a => f a ++ g a) l) (flat_map f l ++ flat_map g l).
Proof.
  induction l as [|a l IH]; [constructor|]. cbn [flat_map].
  rewrite IH. rewrite <- !app_assoc. apply Permutation_app_head.
  rewrite !app_assoc. apply Permutation_app_tail. apply Permutation_app_comm.
Qed.

(* distributing the elements of t over the buckets of a grid, each element in exactly one bucket,
   permutes t *)
Lemma bucket_perm {A K} (sel : K -> A -> bool) (grid : list K) (t : list A) :
  (forall c, In c t -> exists g1 g g2, grid = g1 ++ g :: g2 /\ sel g c = true /\
                                       (forall g', In g' g1 \/ In g' g2 -> sel g' c = false)) ->
  Permutation (flat_map (fun g => filter (fun c => sel g c) t) grid) t.
Proof.
  induction t as [|c t IH]; intros H.
  - rewrite flat_map_nil'; [constructor|reflexivity].
  - cbn [filter].
    assert (E : flat_map (fun g => if sel g c then c :: filter (fun c0 => sel g c0) t
                                   else filter (fun c0 => sel g c0) t) grid
                = flat_map (fun g => (if sel g c then [c] else []) ++ filter (fun c0 => sel g c0) t) grid).
    { apply flat_map_ext. intros g. destruct (sel g c); reflexivity. }
    rewrite E, flat_map_app_perm.
    destruct (H c (or_introl eq_refl)) as (g1 & g & g2 & -> & Hs & Ho).
    rewrite (flat_map_app (fun g0 => if sel g0 c then [c] else [])). cbn [flat_map]. rewrite Hs.
    rewrite (flat_map_nil' _ g1), (flat_map_nil' _ g2).
    + cbn [app]. constructor. apply IH. intros c' Hc'. apply H. right. exact Hc'.
    + intros g' Hg'. rewrite (Ho g' (or_intror Hg')). reflexivity.
    + intros g' Hg'. rewrite (Ho g' (or_introl Hg')). reflexivity.
Qed.
