(** C14 -- shared lemmas about the rows the writers produce: result-monad plumbing, the common
    sample length of a cell, the name lists, and what the metadata columns of a row carry. *)
From Coq Require Import ZArith List Bool Lia ZifyBool.
From Bermuda Require Import Model.Base Model.Frame Proofs.FrameLib.
Import ListNotations.
Local Open Scope Z_scope.

(* ---------- result monad ---------- *)
Lemma concat_result_ok {A B} (f : A -> result (list B)) (g : A -> list B) (l : list A) :
  (forall a, In a l -> f a = Ok (g a)) -> concat_result (map f l) = Ok (flat_map g l).
Proof.
  induction l as [|a l IH]; cbn; auto. intros H. rewrite (H a) by auto. cbn. rewrite IH by auto. reflexivity.
Qed.
Lemma map_result_ok {A B} (f : A -> result B) (g : A -> B) (l : list A) :
  (forall a, In a l -> f a = Ok (g a)) -> map_result f l = Ok (map g l).
Proof.
  induction l as [|a l IH]; cbn; auto. intros H. rewrite (H a) by auto. cbn. rewrite IH by auto. reflexivity.
Qed.

(* ---------- small list facts ---------- *)
Lemma all_eq_repeat {A} (x : A) l : (forall y, In y l -> y = x) -> l = repeat x (length l).
Proof. induction l as [|a l IH]; cbn; auto. intros H. rewrite (H a) by auto. f_equal. apply IH. auto. Qed.
Lemma dedup_repeat k n : dedup Z.eqb (repeat k (S n)) = [k].
Proof.
  rewrite <- (app_nil_r (repeat k (S n))). rewrite (dedup_block Z.eqb Z.eqb_eq); auto.
Qed.
Lemma filter_all {A} (p : A -> bool) l : (forall x, In x l -> p x = true) -> filter p l = l.
Proof. induction l as [|a l IH]; cbn; auto. intros H. rewrite H by auto. f_equal. apply IH. auto. Qed.
Lemma filter_none {A} (p : A -> bool) l : (forall x, In x l -> p x = false) -> filter p l = [].
Proof. induction l as [|a l IH]; cbn; auto. intros H. rewrite H by auto. apply IH. auto. Qed.
Lemma NoDup_app_l {A} (a b : list A) : NoDup (a ++ b) -> NoDup a.
Proof. induction a as [|x a IH]; cbn; intros H; [constructor|]. inversion H; subst. constructor; auto.
  intros Hx. apply H2. apply in_or_app; auto. Qed.
Lemma NoDup_app_r {A} (a b : list A) : NoDup (a ++ b) -> NoDup b.
Proof. induction a as [|x a IH]; cbn; auto. intros H. inversion H; auto. Qed.
Lemma NoDup_app_disj {A} (a b : list A) x : NoDup (a ++ b) -> In x a -> In x b -> False.
Proof.
  induction a as [|y a IH]; cbn; [tauto|]. intros H [->|Hx] Hb; inversion H; subst.
  - apply H2. apply in_or_app; auto.
  - eapply IH; eauto.
Qed.

Lemma ordered_in_incl U ks : ordered_in U ks = true -> incl ks U.
Proof.
  intros H x Hx. apply ordered_in_spec in H. rewrite H in Hx. apply filter_In in Hx. tauto.
Qed.
Lemma assoc_In {V} k (d : list (str * V)) v : assoc k d = Some v -> In (k, v) d.
Proof.
  induction d as [|[k' w] d IH]; cbn; [discriminate|]. destruct (str_eqb k k') eqn:E.
  - intros H; inversion H; subst. apply str_eqb_eq in E; subst; auto.
  - auto.
Qed.
Lemma In_keys_assoc {V} k (d : list (str * V)) : In k (keys d) -> exists v, assoc k d = Some v.
Proof.
  induction d as [|[k' w] d IH]; cbn; [tauto|]. intros H. destruct (str_eqb k k') eqn:E; eauto.
  destruct H as [->|H]; [rewrite str_eqb_refl in E; discriminate | auto].
Qed.

(* ---------- the common sample length of a cell ---------- *)
Definition nrows (c : cell) : nat :=
  match cvals c with (_, VArr _ xs) :: _ => length xs | _ => 1%nat end.

Lemma scalar_assoc c f v : scalar_cell c = true -> assoc f (cvals c) = Some v -> exists x, v = VNum x.
Proof.
  unfold scalar_cell. rewrite forallb_forall. intros H E. apply assoc_In in E. specialize (H _ E). cbn in H.
  destruct v; try discriminate; eauto.
Qed.
Lemma sample_assoc c f v : sample_cell c = true -> assoc f (cvals c) = Some v ->
  exists b xs, v = VArr b xs /\ length xs = nrows c /\ (2 <= nrows c)%nat.
Proof.
  unfold sample_cell, nrows. destruct (cvals c) as [|[k0 [x| |b0 xs0]] r] eqn:Ec; try discriminate.
  intros H E. apply andb_prop in H as [H2 H]. rewrite forallb_forall in H. apply assoc_In in E.
  specialize (H _ E). cbn in H. destruct v as [x| |b xs]; try discriminate.
  exists b, xs. repeat split; auto. apply Nat.eqb_eq in H; auto. apply Nat.leb_le in H2; auto.
Qed.

Lemma common_len_scalar c nm :
  scalar_cell c = true -> nm <> [] -> common_len c nm = Ok 1%nat.
Proof.
  intros Hs Hnm. unfold common_len.
  assert (E : filter (fun n => negb (n =? 1)) (map (fun f => vsize (assoc f (cvals c))) nm) = []).
  { apply filter_none. intros x Hx. apply in_map_iff in Hx as [f [<- _]].
    destruct (assoc f (cvals c)) as [v|] eqn:Ea; cbn; auto.
    destruct (scalar_assoc c f v Hs Ea) as [x ->]. reflexivity. }
  rewrite E. cbn. destruct nm; [congruence|reflexivity].
Qed.

Lemma common_len_sample c nm :
  sample_cell c = true -> (exists k, In k (keys (cvals c)) /\ In k nm) -> common_len c nm = Ok (nrows c).
Proof.
  intros Hs [k [Hk Hnm]]. unfold common_len.
  set (sizes := map (fun f => vsize (assoc f (cvals c))) nm).
  assert (Hall : forall x, In x (filter (fun n => negb (n =? 1)) sizes) -> x = Z.of_nat (nrows c)).
  { intros x Hx. apply filter_In in Hx as [Hx Hne]. apply in_map_iff in Hx as [f [<- _]].
    destruct (assoc f (cvals c)) as [v|] eqn:Ea; cbn in *; [|discriminate].
    destruct (sample_assoc c f v Hs Ea) as (b & xs & -> & Hl & _). cbn. rewrite Hl. reflexivity. }
  assert (Hne : In (Z.of_nat (nrows c)) (filter (fun n => negb (n =? 1)) sizes)).
  { destruct (In_keys_assoc k (cvals c) Hk) as [v Ea].
    destruct (sample_assoc c k v Hs Ea) as (b & xs & -> & Hl & H2).
    apply filter_In. split.
    - apply in_map_iff. exists k. split; auto. rewrite Ea. cbn. rewrite Hl. reflexivity.
    - apply negb_true_iff. apply Z.eqb_neq. lia. }
  rewrite (all_eq_repeat _ _ Hall).
  destruct (length (filter (fun n => negb (n =? 1)) sizes)) eqn:El.
  - apply length_zero_iff_nil in El. rewrite El in Hne. destruct Hne.
  - rewrite dedup_repeat. rewrite Nat2Z.id. reflexivity.
Qed.

(* ---------- names ---------- *)
Lemma keys_attr_dict m : keys (attr_dict m) =
  [c_currency; c_country; c_risk_basis; c_reinsurance_basis; c_loss_definition; c_pol].
Proof. reflexivity. Qed.
Lemma meta_col_names_attr n m : In n meta_col_names <-> In n (keys (attr_dict m)).
Proof. rewrite keys_attr_dict. unfold meta_col_names. cbn. tauto. Qed.

Lemma attr_names_incl t n : In n (attr_names t) -> In n meta_col_names.
Proof.
  unfold attr_names. intros H. apply (proj1 (In_dedup str_eqb str_eqb_eq _ _)) in H.
  apply in_flat_map in H as [c [_ H]]. unfold nonnan_keys, keys in H. apply in_map_iff in H as [[k v] [<- H]].
  apply filter_In in H as [H _]. apply (meta_col_names_attr _ (cmeta c)). apply in_map_iff. exists (k, v); auto.
Qed.
Lemma attr_names_complete t c n :
  In c t -> In n meta_col_names -> ~ In n (attr_names t) -> get n (attr_dict (cmeta c)) = TNaN.
Proof.
  intros Hc Hn Hno.
  assert (H : get n (attr_dict (cmeta c)) <> TNaN -> In n (attr_names t)).
  { intros Hne. unfold attr_names. apply (In_dedup str_eqb str_eqb_eq). apply in_flat_map. exists c. split; auto.
    unfold get in Hne. destruct (assoc n (attr_dict (cmeta c))) as [v|] eqn:Ea; [|congruence].
    apply assoc_In in Ea. unfold nonnan_keys, keys. apply in_map_iff. exists (n, v). split; auto.
    apply filter_In. split; auto. cbn. destruct v; try reflexivity. congruence. }
  destruct (get n (attr_dict (cmeta c))); auto; exfalso; apply Hno, H; discriminate.
Qed.

(* value carried by the metadata columns [mn = attr_names t ++ dn ++ ln] of a cell of [t] *)
Section MetaCols.
  Variables (t : list cell) (fn dn ln : list str).
  Hypothesis names : NoDup (reserved_names ++ fn ++ dn ++ ln).
  Let mn := attr_names t ++ dn ++ ln.

  Lemma reserved_meta n : In n meta_col_names -> In n reserved_names.
  Proof. unfold reserved_names. intros H. apply in_or_app; right. apply in_or_app; left; auto. Qed.
  Lemma dn_not_reserved n : In n dn -> ~ In n reserved_names.
  Proof.
    intros Hd Hr. apply (NoDup_app_disj _ _ n names Hr). apply in_or_app; right. apply in_or_app; left; auto.
  Qed.
  Lemma ln_not_reserved n : In n ln -> ~ In n reserved_names.
  Proof.
    intros Hd Hr. apply (NoDup_app_disj _ _ n names Hr). apply in_or_app; right. apply in_or_app; right; auto.
  Qed.
  Lemma fn_not_reserved n : In n fn -> ~ In n reserved_names.
  Proof. intros Hd Hr. apply (NoDup_app_disj _ _ n names Hr). apply in_or_app; left; auto. Qed.
  Lemma nd_fn : NoDup fn. Proof. apply NoDup_app_r in names. apply NoDup_app_l in names; auto. Qed.
  Lemma nd_dn : NoDup dn.
  Proof. apply NoDup_app_r in names. apply NoDup_app_r in names. apply NoDup_app_l in names; auto. Qed.
  Lemma nd_ln : NoDup ln.
  Proof. apply NoDup_app_r in names. apply NoDup_app_r in names. apply NoDup_app_r in names; auto. Qed.
  Lemma fn_dn_disj n : In n fn -> In n dn -> False.
  Proof.
    intros Hf Hd. apply NoDup_app_r in names. apply (NoDup_app_disj _ _ n names Hf). apply in_or_app; auto.
  Qed.
  Lemma fn_ln_disj n : In n fn -> In n ln -> False.
  Proof.
    intros Hf Hd. apply NoDup_app_r in names. apply (NoDup_app_disj _ _ n names Hf). apply in_or_app; auto.
  Qed.
  Lemma dn_ln_disj n : In n dn -> In n ln -> False.
  Proof.
    intros Hf Hd. apply NoDup_app_r in names. apply NoDup_app_r in names. apply (NoDup_app_disj _ _ n names Hf Hd).
  Qed.

  Lemma get_meta_cols n m : In n mn -> get n (meta_cols mn m) = get n (flat_dict m).
  Proof. intros H. unfold get at 1, meta_cols. rewrite (assoc_map_pair (fun x => get x (flat_dict m))); auto. Qed.
  Lemma get_meta_cols_absent n m : ~ In n mn -> get n (meta_cols mn m) = TNaN.
  Proof. intros H. unfold get, meta_cols. rewrite assoc_notin; auto. rewrite keys_map_pair; auto. Qed.

  Variable c : cell.
  Hypothesis c_in : In c t.
  Hypothesis od : ordered_in dn (keys (details (cmeta c))) = true.
  Hypothesis ol : ordered_in ln (keys (loss_details (cmeta c))) = true.

  Lemma keys_tdict d : keys (tdict d) = keys d.
  Proof. unfold keys, tdict. rewrite map_map. reflexivity. Qed.

  Lemma meta_cols_attr n : In n meta_col_names ->
    get n (meta_cols mn (cmeta c)) = get n (attr_dict (cmeta c)).
  Proof.
    intros Hn. destruct (in_dec (list_eq_dec Z.eq_dec) n (attr_names t)) as [Hin|Hout].
    - rewrite get_meta_cols by (apply in_or_app; auto). unfold flat_dict. rewrite get_app.
      destruct (In_keys_assoc n (attr_dict (cmeta c)) (proj1 (meta_col_names_attr n _) Hn)) as [v Ev].
      rewrite Ev. unfold get. rewrite Ev. reflexivity.
    - rewrite get_meta_cols_absent.
      + symmetry. apply (attr_names_complete t c n); auto.
      + intros H. apply in_app_or in H as [H|H]; [tauto|]. apply in_app_or in H as [H|H].
        * apply (dn_not_reserved n H). apply reserved_meta; auto.
        * apply (ln_not_reserved n H). apply reserved_meta; auto.
  Qed.
  Lemma meta_cols_detail n : In n dn ->
    get n (meta_cols mn (cmeta c)) = get n (tdict (details (cmeta c))).
  Proof.
    intros Hn. rewrite get_meta_cols by (apply in_or_app; right; apply in_or_app; auto).
    unfold flat_dict. rewrite get_app_notin.
    2:{ intros H. apply (dn_not_reserved n Hn). apply reserved_meta. apply (meta_col_names_attr n (cmeta c)); auto. }
    rewrite get_app. unfold get at 2. destruct (assoc n (tdict (details (cmeta c)))); auto.
    unfold get. rewrite assoc_notin; auto. rewrite keys_tdict. intros H.
    apply (dn_ln_disj n Hn). apply (ordered_in_incl _ _ ol); auto.
  Qed.
  Lemma meta_cols_loss n : In n ln ->
    get n (meta_cols mn (cmeta c)) = get n (tdict (loss_details (cmeta c))).
  Proof.
    intros Hn. rewrite get_meta_cols by (apply in_or_app; right; apply in_or_app; auto).
    unfold flat_dict. rewrite get_app_notin.
    2:{ intros H. apply (ln_not_reserved n Hn). apply reserved_meta. apply (meta_col_names_attr n (cmeta c)); auto. }
    rewrite get_app_notin; auto. rewrite keys_tdict. intros H.
    apply (dn_ln_disj n); auto. apply (ordered_in_incl _ _ od); auto.
  Qed.
End MetaCols.
