(* C06 proofs: the model's writer produces the documented layout, the layout determines the bytes,
   hence every file satisfying the layout is read back exactly. *)
From Coq Require Import ZArith List Bool Lia ZifyBool.
From Bermuda Require Import Lib.Bytes Lib.BinParse Lib.Utf8 Lib.StrSort Model.Binary Model.BinLayout
     Proofs.BinaryPrim Proofs.BinaryRec Proofs.BinaryTop.
Import ListNotations.
Open Scope Z_scope.
Local Arguments le_enc : simpl never.

(* ------------------------------------------------------------------ numbers *)
Lemma LE_enc w : forall n, 0 <= n < 256 ^ Z.of_nat w -> LE w n (le_enc w n).
Proof.
  induction w as [|w IH]; intros n H.
  - simpl in H. assert (n = 0) by lia. subst. constructor.
  - rewrite Nat2Z.inj_succ, Z.pow_succ_r in H by lia.
    change (le_enc (S w) n) with ((n mod 256) :: le_enc w (n / 256)).
    pose proof (Z.div_mod n 256 ltac:(lia)) as E.
    pose proof (Z.mod_pos_bound n 256 ltac:(lia)) as B.
    replace n with (n mod 256 + 256 * (n / 256)) at 1 by lia.
    constructor; [lia|]. apply IH. split.
    + apply Z.div_pos; lia.
    + apply Z.div_lt_upper_bound; lia.
Qed.

Lemma LE_det w : forall n bs bs', LE w n bs -> LE w n bs' -> bs = bs'.
Proof.
  induction w as [|w IH]; intros n bs bs' H1 H2.
  - inversion H1; inversion H2; subst; reflexivity.
  - inversion H1 as [|w1 b1 n1 r1 Hb1 Hr1 Ew1 En1 Ebs1].
    inversion H2 as [|w2 b2 n2 r2 Hb2 Hr2 Ew2 En2 Ebs2].
    assert (b1 = b2 /\ n1 = n2) as [E1 E2] by lia.
    subst. f_equal. eapply IH; eauto.
Qed.

Lemma SLE16_enc z : -32768 <= z < 32768 -> SLE 2 z (le_enc 2 (of_s16 z)).
Proof.
  intros H. unfold SLE. replace (twos 2 z) with (of_s16 z).
  - apply LE_enc, of_s16_range.
  - unfold twos, of_s16. change (256 ^ Z.of_nat 2) with 65536.
    destruct (Z.ltb_spec z 0); Z.div_mod_to_equations; lia.
Qed.

Lemma SLE64_enc z : -9223372036854775808 <= z < 9223372036854775808 -> SLE 8 z (le_enc 8 (of_s64 z)).
Proof.
  intros H. unfold SLE. replace (twos 8 z) with (of_s64 z).
  - apply LE_enc, of_s64_range.
  - unfold twos, of_s64. change (256 ^ Z.of_nat 8) with 18446744073709551616.
    destruct (Z.ltb_spec z 0); Z.div_mod_to_equations; lia.
Qed.

(* ------------------------------------------------------------------ ser satisfies the layout *)
Lemma text_layout o : ostrb o = true -> LText o (enc_str o).
Proof.
  destruct o as [s|]; cbn [ostrb enc_str]; intros H.
  - destruct (strb_facts _ H) as [_ Hl]. constructor. apply LE_enc.
    change (256 ^ Z.of_nat 2) with 65536. lia.
  - constructor. apply SLE16_enc. lia.
Qed.

Lemma date_layout d : date_okb d = true -> LDate d (enc_date d).
Proof.
  destruct d as [[y m] dd]. intros H. pose proof (date_okb_range _ _ _ H).
  unfold enc_date. constructor. apply SLE16_enc. lia.
Qed.

Lemma dims_layout dims : forallb dimb dims = true -> LDims dims (enc_dims dims).
Proof.
  induction dims as [|d r IH]; cbn [forallb enc_dims]; intros H; [constructor|].
  apply andb_true_iff in H as [Hd Hr]. unfold dimb in Hd. constructor; auto.
  apply LE_enc. change (256 ^ Z.of_nat 4) with 4294967296. lia.
Qed.

Lemma val_layout v : gvalb v = true -> LVal v (enc_gval v).
Proof.
  destruct v; cbn [gvalb enc_gval]; intros H.
  - constructor. now apply (text_layout (Some s)).
  - destruct b; constructor.
  - constructor. apply SLE64_enc. lia.
  - constructor.
  - constructor. now apply date_layout.
  - constructor.
  - destruct (arr_facts _ _ H) as (Hd & Hn & Hl). unfold enc_arr.
    replace (arr_tag dt) with (match dt with DInt => 134 | DFloat => 135 end) by (destruct dt; reflexivity).
    constructor; [|now apply dims_layout].
    apply LE_enc. change (256 ^ Z.of_nat 1) with 256. lia.
Qed.

Section Pool.
  Variable pool : list str.
  Hypothesis pool_small : Z.of_nat (length pool) <= 32767.

  (* what the LAYOUT needs of a dictionary entry: the key is in the pool and the value is encodable.
     (Nothing about pool indices with low byte 0x88: the F9 ambiguity concerns readers only.) *)
  Definition entry_okL (kv : str * gval) : Prop := In (fst kv) pool /\ gvalb (snd kv) = true.
  Definition meta_okL (m : meta) : Prop :=
    ostrb (m_risk_basis m) = true /\ ostrb (m_country m) = true /\ ostrb (m_currency m) = true
    /\ ostrb (m_reinsurance_basis m) = true /\ ostrb (m_loss_definition m) = true
    /\ limitb (m_limit m) = true /\ Forall entry_okL (m_details m) /\ Forall entry_okL (m_loss_details m).
  Definition cell_okL (c : cell) : Prop :=
    cellb c = true /\ Forall entry_okL (c_values c) /\ meta_okL (c_meta c).

  Lemma dict_layout d : Forall entry_okL d -> LDict pool d (enc_dict pool d).
  Proof.
    induction d as [|[k v] r IH]; intros H; cbn [enc_dict]; [constructor|].
    inversion H as [|? ? [Hin Hv] Hr]; subst. cbn [fst snd] in *.
    pose proof (index_of_range _ _ Hin) as Hi.
    apply LD_entry with (i := Z.to_nat (index_of k pool)).
    - now apply index_of_nth.
    - rewrite Z2Nat.id by lia. apply LE_enc. change (256 ^ Z.of_nat 2) with 65536. lia.
    - now apply val_layout.
    - now apply IH.
  Qed.

  Lemma limit_layout o : LLimit o (enc_limit o).
  Proof. destruct o; constructor. Qed.

  Lemma meta_layout m : meta_okL m -> LMeta pool m (enc_meta pool m).
  Proof.
    intros (H1 & H2 & H3 & H4 & H5 & H6 & H7 & H8). unfold enc_meta.
    constructor; auto using text_layout, limit_layout, dict_layout.
  Qed.

  Lemma cell_layout c : cell_okL c -> LCell pool c (cell_tag (c_kind c) :: enc_cell pool c).
  Proof.
    intros (Hc & Hv & _).
    destruct (cellb_facts pool _ Hc) as (D1 & D2 & D3 & _ & _ & _ & _ & Hp).
    unfold enc_cell, prevb in *.
    destruct (c_kind c) eqn:Ek; destruct (c_prev c) as [p|] eqn:Ep; try discriminate; cbn [cell_tag].
    - rewrite app_nil_r. apply LCell_plain; auto using date_layout, dict_layout.
    - rewrite app_nil_r. apply LCell_cum; auto using date_layout, dict_layout.
    - apply andb_true_iff in Hp as [Hp1 Hp2].
      eapply LCell_inc; eauto using date_layout, dict_layout.
  Qed.

  Lemma texts_layout l : forallb strb l = true -> LTexts l (enc_strs l).
  Proof.
    induction l as [|s r IH]; cbn [forallb enc_strs]; intros H; [constructor|].
    apply andb_true_iff in H as [Hs Hr]. constructor; auto. now apply (text_layout (Some s)).
  Qed.
End Pool.

(* reflexivity of the structural equality tests *)
Lemma date_eqb_refl d : date_eqb d d = true.
Proof. destruct d as [[y m] dd]. unfold date_eqb. lia. Qed.
Lemma gval_eqb_refl v : gval_eqb v v = true.
Proof.
  destruct v; simpl; auto using zlist_eqb_refl, date_eqb_refl, Z.eqb_refl, Bool.eqb_reflx.
  rewrite !zlist_eqb_refl. destruct dt; reflexivity.
Qed.
Lemma dict_eqb_refl d : dict_eqb d d = true.
Proof. induction d as [|[k v] r IH]; simpl; auto. now rewrite zlist_eqb_refl, gval_eqb_refl, IH. Qed.
Lemma ostr_eqb_refl o : ostr_eqb o o = true.
Proof. destruct o; simpl; auto using zlist_eqb_refl. Qed.
Lemma meta_eqb_refl m : meta_eqb m m = true.
Proof. unfold meta_eqb. now rewrite !ostr_eqb_refl, !dict_eqb_refl. Qed.

Lemma body_layout pool t : Z.of_nat (length pool) <= 32767 -> Forall (cell_okL pool) t -> forall prev,
  LBody pool prev t (enc_body pool prev t).
Proof.
  intros Hsmall.
  induction 1 as [|c cs Hc Hcs IH]; intros prev; cbn [enc_body]; [constructor|].
  destruct (ometa_eqb prev (c_meta c)) eqn:E.
  - apply ometa_eqb_eq in E. subst prev.
    change (LBody pool (Some (c_meta c)) (c :: cs)
              ((cell_tag (c_kind c) :: enc_cell pool c) ++ enc_body pool (Some (c_meta c)) cs)).
    apply LB_same; auto. now apply cell_layout.
  - change (LBody pool prev (c :: cs)
              (16 :: enc_meta pool (c_meta c) ++
               (cell_tag (c_kind c) :: enc_cell pool c) ++ enc_body pool (Some (c_meta c)) cs)).
    apply LB_change; auto.
    + intros ->. cbn [ometa_eqb] in E. rewrite meta_eqb_refl in E. discriminate.
    + apply meta_layout; [exact Hsmall | apply Hc].
    + now apply cell_layout.
Qed.

Lemma is_pool_of t : IsPool t (pool_of t).
Proof.
  split; [apply sort_dedup_sorted|]. intros k. unfold pool_of. rewrite sort_dedup_in.
  unfold all_keys, KeyOf, meta_keys, dict_keys. rewrite in_app_iff, !in_flat_map. split.
  - intros [[c [Hc Hk]]|[c [Hc Hk]]]; exists c; split; auto.
    apply in_app_or in Hk as [Hk|Hk]; auto.
  - intros [c [Hc [Hk|[Hk|Hk]]]]; [left|right|right]; exists c; split; auto; apply in_or_app; auto.
Qed.

Lemma dict_okL_of pool d :
  dictb d = true -> (forall k, In k (dict_keys d) -> In k pool) -> Forall (entry_okL pool) d.
Proof.
  intros Hd Hin. destruct (dictb_facts _ Hd) as [Hkv _].
  apply Forall_forall. intros kv Hkvin. split.
  - apply Hin. now apply in_map.
  - apply Hkv, Hkvin.
Qed.

Lemma cells_okL_of t : wf t -> Forall (cell_okL (pool_of t)) t.
Proof.
  unfold wf, wfb. intros Hwf. apply andb_true_iff in Hwf as [Hcells _].
  rewrite forallb_forall in Hcells. apply Forall_forall. intros c Hc. specialize (Hcells c Hc).
  destruct (cellb_parts _ Hcells) as [Hv Hm].
  destruct (metab_facts _ Hm) as (M1 & M2 & M3 & M4 & M5 & M6 & M7 & M8).
  split; [exact Hcells|]. split.
  - apply dict_okL_of; auto. intros k Hk. apply sort_dedup_in. eapply in_all_keys_values; eauto.
  - refine (conj M1 (conj M2 (conj M3 (conj M4 (conj M5 (conj M6 (conj _ _))))))).
    + apply dict_okL_of; auto. intros k Hk. apply sort_dedup_in. eapply in_all_keys_details; eauto.
    + apply dict_okL_of; auto. intros k Hk. apply sort_dedup_in. eapply in_all_keys_loss; eauto.
Qed.

Theorem ser_layout t : wf t -> Layout t (ser t).
Proof.
  intros Hwf. unfold ser.
  pose proof (pool_small_of _ Hwf) as Hs. pose proof (pool_strs_ok _ Hwf) as Hp.
  change MAGIC with [175; 54; 1; 0]. change [VERSION] with [1]. unfold enc_pool.
  apply Layout_i with (pool := pool_of t).
  - apply is_pool_of.
  - unfold of_s16. rewrite Z.mod_small by lia. apply LE_enc. change (256 ^ Z.of_nat 2) with 65536. lia.
  - now apply texts_layout.
  - apply body_layout; [exact Hs | now apply cells_okL_of].
Qed.

(* ------------------------------------------------------------------ the layout determines the bytes *)
Lemma LText_det o bs bs' : LText o bs -> LText o bs' -> bs = bs'.
Proof.
  intros H1 H2. inversion H1; subst; inversion H2; subst.
  - eapply LE_det; eauto.
  - f_equal. eapply LE_det; eauto.
Qed.

Lemma LDate_det d bs bs' : LDate d bs -> LDate d bs' -> bs = bs'.
Proof.
  intros H1 H2. inversion H1; subst; inversion H2; subst. f_equal. eapply LE_det; eauto.
Qed.

Lemma LDims_det dims : forall bs bs', LDims dims bs -> LDims dims bs' -> bs = bs'.
Proof.
  induction dims as [|d r IH]; intros bs bs' H1 H2; inversion H1; subst; inversion H2; subst; auto.
  f_equal; [eapply LE_det; eauto | eapply IH; eauto].
Qed.

Lemma LVal_det v bs bs' : LVal v bs -> LVal v bs' -> bs = bs'.
Proof.
  intros H1 H2. inversion H1; subst; inversion H2; subst; auto.
  - f_equal. eapply LText_det; eauto.
  - f_equal. eapply LE_det; eauto.
  - f_equal. eapply LDate_det; eauto.
  - f_equal. f_equal; [eapply LE_det; eauto|]. f_equal. eapply LDims_det; eauto.
Qed.

Lemma ssorted_NoDup l : ssorted l -> NoDup l.
Proof.
  induction l as [|h t IH]; intros H; constructor.
  - intros Hin. pose proof (ssorted_head_lt _ _ H _ Hin) as A. rewrite str_cmp_refl in A. discriminate.
  - apply IH. apply H.
Qed.

Lemma LDict_det pool d : NoDup pool -> forall bs bs', LDict pool d bs -> LDict pool d bs' -> bs = bs'.
Proof.
  intros Hnd. induction d as [|[k v] r IH]; intros bs bs' H1 H2;
    inversion H1; subst; inversion H2; subst; auto.
  assert (i = i0).
  { apply (proj1 (NoDup_nth_error pool) Hnd).
    - apply nth_error_Some. congruence.
    - congruence. }
  subst i0. f_equal; [eapply LE_det; eauto|]. f_equal; [eapply LVal_det; eauto | eapply IH; eauto].
Qed.

Lemma LLimit_det o bs bs' : LLimit o bs -> LLimit o bs' -> bs = bs'.
Proof. intros H1 H2. inversion H1; subst; inversion H2; subst; auto. Qed.

Lemma LMeta_det pool m bs bs' : NoDup pool -> LMeta pool m bs -> LMeta pool m bs' -> bs = bs'.
Proof.
  intros Hnd H1 H2. inversion H1; subst; inversion H2; subst.
  repeat (f_equal; [first [solve [eapply LText_det; eauto] | solve [eapply LLimit_det; eauto] | solve [eapply LDict_det; eauto]]|]).
  eapply LDict_det; eauto.
Qed.

Lemma LCell_det pool c bs bs' : NoDup pool -> LCell pool c bs -> LCell pool c bs' -> bs = bs'.
Proof.
  intros Hnd H1 H2. inversion H1; subst; inversion H2; subst; try congruence.
  - f_equal. repeat (f_equal; [solve [eapply LDate_det; eauto]|]). eapply LDict_det; eauto.
  - f_equal. repeat (f_equal; [solve [eapply LDate_det; eauto]|]). eapply LDict_det; eauto.
  - assert (p = p0) by congruence. subst p0.
    f_equal. repeat (f_equal; [solve [eapply LDate_det; eauto]|]).
    f_equal; [eapply LDict_det; eauto | eapply LDate_det; eauto].
Qed.

Lemma LBody_det pool t : NoDup pool -> forall prev bs bs',
  LBody pool prev t bs -> LBody pool prev t bs' -> bs = bs'.
Proof.
  intros Hnd. induction t as [|c cs IH]; intros prev bs bs' H1 H2;
    inversion H1; subst; inversion H2; subst; auto; try congruence.
  - f_equal; [eapply LCell_det; eauto | eapply IH; eauto].
  - f_equal. f_equal; [eapply LMeta_det; eauto|].
    f_equal; [eapply LCell_det; eauto | eapply IH; eauto].
Qed.

Lemma LTexts_det l : forall bs bs', LTexts l bs -> LTexts l bs' -> bs = bs'.
Proof.
  induction l as [|s r IH]; intros bs bs' H1 H2; inversion H1; subst; inversion H2; subst; auto.
  f_equal; [eapply LText_det; eauto | eapply IH; eauto].
Qed.

Lemma IsPool_unique t p p' : IsPool t p -> IsPool t p' -> p = p'.
Proof.
  intros [S1 I1] [S2 I2]. apply ssorted_unique; auto. intros k. rewrite I1, I2. tauto.
Qed.

Theorem layout_det t bs bs' : Layout t bs -> Layout t bs' -> bs = bs'.
Proof.
  intros H1 H2. inversion H1 as [? p1 hd1 ps1 bb1 P1 L1 T1 B1]; subst.
  inversion H2 as [? p2 hd2 ps2 bb2 P2 L2 T2 B2]; subst.
  pose proof (IsPool_unique _ _ _ P1 P2). subst p2.
  assert (Hnd : NoDup p1) by (apply ssorted_NoDup, P1).
  f_equal. f_equal. f_equal; [f_equal; [eapply LE_det; eauto | eapply LTexts_det; eauto]|].
  eapply LBody_det; eauto.
Qed.

(* files satisfying the layout -- whoever wrote them -- are read back exactly *)
Theorem layout_parse t bs : wf t -> no_0x88_key t -> Layout t bs -> parse bs = ROk (cells t).
Proof.
  intros Hwf H88 HL. rewrite (layout_det t bs (ser t) HL (ser_layout t Hwf)). now apply parse_ser.
Qed.

(* ------------------------------------------------------------------ faithful vs structural writer *)
(* on coherent triangles the writer with Python's == and the structural writer emit the same file *)
Lemma enc_body_coherent meq pool t : forall prev,
  (forall c, In c t -> meq (c_meta c) (c_meta c) = true) -> rep_with meq prev prev t = t ->
  enc_body_with meq pool prev t = enc_body pool prev t.
Proof.
  induction t as [|c cs IH]; intros prev Hr Hrep; cbn [enc_body_with enc_body]; [reflexivity|].
  cbn [rep_with] in Hrep.
  destruct (same_meta meq prev (c_meta c)) eqn:E.
  - destruct prev as [p|]; cbn [same_meta] in E; [|discriminate].
    injection Hrep as Hc Hcs. cbn [cur_meta] in Hc.
    assert (p = c_meta c) by (rewrite <- Hc; reflexivity). subst p.
    cbn [ometa_eqb]. rewrite meta_eqb_refl. rewrite IH; auto. intros d Hd. apply Hr. now right.
  - injection Hrep as Hcs.
    assert (ometa_eqb prev (c_meta c) = false) as ->.
    { destruct prev as [p|]; [|reflexivity]. cbn [ometa_eqb same_meta] in *.
      destruct (meta_eqb p (c_meta c)) eqn:E2; [|reflexivity].
      apply meta_eqb_eq in E2. subst p. rewrite (Hr c (or_introl eq_refl)) in E. discriminate. }
    rewrite IH; auto. intros d Hd. apply Hr. now right.
Qed.

Theorem ser_py_coherent t : coherentb t = true -> pyeq_reflb t = true -> ser_py t = ser t.
Proof.
  intros Hc Hr. unfold ser_py, ser_with, ser. do 3 f_equal.
  apply enc_body_coherent.
  - intros c Hin. unfold pyeq_reflb in Hr. rewrite forallb_forall in Hr. now apply Hr.
  - apply cells_eqb_eq. exact Hc.
Qed.

Theorem ser_py_layout t : wf t -> coherentb t = true -> pyeq_reflb t = true -> Layout t (ser_py t).
Proof. intros H1 H2 H3. rewrite (ser_py_coherent t H2 H3). now apply ser_layout. Qed.
