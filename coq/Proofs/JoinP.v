(** C10 -- lemmas about Model/Join.v.  (statements fixed by wp-join) *)
From Coq Require Import ZArith List Bool Lia ZifyBool Permutation Sorted RelationClasses.
From Bermuda Require Import Model.Base Model.Select Model.Join Proofs.SelectP.
Import ListNotations.
Local Open Scope Z_scope.

(* ================================================================ generic helpers *)
Lemma jlist_eqb_eq : forall {A} (eqb : A -> A -> bool),
  (forall a b, eqb a b = true <-> a = b) ->
  forall l1 l2, list_eqb eqb l1 l2 = true <-> l1 = l2.
Proof.
  intros A eqb H. induction l1 as [|a l1 IH]; intros [|b l2]; cbn [list_eqb];
    split; intros E; try discriminate E; try reflexivity.
  - apply andb_true_iff in E. destruct E as [E1 E2]. apply H in E1. apply IH in E2.
    subst. reflexivity.
  - inversion E; subst. apply andb_true_iff. split; [apply H|apply IH]; reflexivity.
Qed.
Lemma jstr_eqb_eq : forall a b : str, str_eqb a b = true <-> a = b.
Proof. exact (jlist_eqb_eq Z.eqb Z.eqb_eq). Qed.
Lemma jstr_eqb_refl : forall a : str, str_eqb a a = true.
Proof. intros a. apply jstr_eqb_eq. reflexivity. Qed.

Lemma jexistsb_false : forall {A} (f : A -> bool) l,
  existsb f l = false <-> forall x, In x l -> f x = false.
Proof.
  intros A f l. induction l as [|a l IH]; cbn [existsb In].
  - split; [intros _ x []|reflexivity].
  - rewrite orb_false_iff, IH. split.
    + intros [H1 H2] x [<-|Hx]; [exact H1|apply H2, Hx].
    + intros H. split; [apply H; left; reflexivity|intros x Hx; apply H; right; exact Hx].
Qed.

Lemma jfilter_all : forall {A} (p : A -> bool) l, (forall x, In x l -> p x = true) -> filter p l = l.
Proof.
  intros A p l. induction l as [|a l IH]; intros H; cbn [filter]; [reflexivity|].
  rewrite (H a (or_introl eq_refl)). f_equal. apply IH. intros x Hx. apply H. right. exact Hx.
Qed.
Lemma jfilter_none : forall {A} (p : A -> bool) l, (forall x, In x l -> p x = false) <-> filter p l = [].
Proof.
  intros A p l. induction l as [|a l IH]; cbn [filter].
  - split; [reflexivity|intros _ x []].
  - split.
    + intros H. rewrite (H a (or_introl eq_refl)). apply IH. intros x Hx. apply H. right. exact Hx.
    + destruct (p a) eqn:E; [discriminate|]. intros H x [<-|Hx]; [exact E|]. apply IH; assumption.
Qed.

Section ListEqv.
  Context {A : Type} (eqb : A -> A -> bool).
  Hypothesis e_refl : forall a, eqb a a = true.
  Hypothesis e_sym : forall a b, eqb a b = eqb b a.
  Hypothesis e_trans : forall a b c, eqb a b = true -> eqb b c = true -> eqb a c = true.
  Lemma jlist_eqb_refl : forall l, list_eqb eqb l l = true.
  Proof using e_refl.
    induction l as [|x l IH]; cbn [list_eqb]; [reflexivity|]. rewrite e_refl, IH. reflexivity.
  Qed.
  Lemma jlist_eqb_sym : forall l1 l2, list_eqb eqb l1 l2 = list_eqb eqb l2 l1.
  Proof using e_sym.
    induction l1 as [|x l1 IH]; intros [|y l2]; cbn [list_eqb]; try reflexivity.
    rewrite e_sym, IH. reflexivity.
  Qed.
  Lemma jlist_eqb_trans : forall l1 l2 l3,
    list_eqb eqb l1 l2 = true -> list_eqb eqb l2 l3 = true -> list_eqb eqb l1 l3 = true.
  Proof using e_trans.
    induction l1 as [|x l1 IH]; intros [|y l2] [|z l3]; cbn [list_eqb]; intros H1 H2;
      try discriminate; try reflexivity.
    apply andb_true_iff in H1, H2. destruct H1 as [A1 A2], H2 as [B1 B2].
    apply andb_true_iff; split; [eapply e_trans|eapply IH]; eauto.
  Qed.
End ListEqv.

(* ---------- ForallOrdPairs *)
Lemma jFOP_app : forall {A} (R : A -> A -> Prop) l1 l2,
  ForallOrdPairs R (l1 ++ l2) <->
  ForallOrdPairs R l1 /\ ForallOrdPairs R l2 /\ (forall x y, In x l1 -> In y l2 -> R x y).
Proof.
  intros A R l1 l2. induction l1 as [|a l1 IH]; cbn [app].
  - split.
    + intros H. split; [constructor|]. split; [exact H|]. intros x y [].
    + intros [_ [H _]]; exact H.
  - split.
    + intros H. inversion H as [|? ? HF HP]; subst. apply IH in HP. destruct HP as [H1 [H2 H3]].
      apply Forall_app in HF. destruct HF as [HF1 HF2].
      split; [constructor; assumption|]. split; [assumption|].
      intros x y [<-|Hx] Hy; [|apply H3; assumption].
      rewrite Forall_forall in HF2. apply HF2; assumption.
    + intros [H1 [H2 H3]]. inversion H1 as [|? ? HF HP]; subst. constructor.
      * apply Forall_app. split; [assumption|]. apply Forall_forall. intros y Hy.
        apply H3; [left; reflexivity|assumption].
      * apply IH. split; [assumption|]. split; [assumption|].
        intros x y Hx Hy. apply H3; [right|]; assumption.
Qed.
Lemma jFOP_filter : forall {A} (R : A -> A -> Prop) p l,
  ForallOrdPairs R l -> ForallOrdPairs R (filter p l).
Proof.
  intros A R p l H. induction H as [|a l HF HP IH]; cbn [filter]; [constructor|].
  destruct (p a); [|exact IH]. constructor; [|exact IH].
  rewrite Forall_forall in *. intros x Hx. apply filter_In in Hx. apply HF, Hx.
Qed.
Lemma jFOP_map : forall {A B} (f : A -> B) (R : B -> B -> Prop) l,
  ForallOrdPairs R (map f l) <-> ForallOrdPairs (fun a b => R (f a) (f b)) l.
Proof.
  intros A B f R l. induction l as [|a l IH]; cbn [map]; split; intros H; try constructor.
  - inversion H as [|? ? HF HP]; subst. rewrite Forall_forall in *. intros x Hx. apply HF, in_map, Hx.
  - inversion H; subst. apply IH. assumption.
  - inversion H as [|? ? HF HP]; subst. rewrite Forall_forall in *. intros y Hy.
    apply in_map_iff in Hy. destruct Hy as [x [<- Hx]]. apply HF, Hx.
  - inversion H; subst. apply IH. assumption.
Qed.
Lemma jFOP_impl_in : forall {A} (R R' : A -> A -> Prop) l,
  (forall x y, In x l -> In y l -> R x y -> R' x y) -> ForallOrdPairs R l -> ForallOrdPairs R' l.
Proof.
  intros A R R' l H HP. induction HP as [|a l HF HP IH]; constructor.
  - rewrite Forall_forall in *. intros y Hy.
    apply H; [left; reflexivity|right; exact Hy|apply HF, Hy].
  - apply IH. intros x y Hx Hy. apply H; right; assumption.
Qed.

(* ---------- keyed dictionaries over an abstract equivalence *)
Section KDictP.
  Context {K V : Type} (keqb : K -> K -> bool).
  Hypothesis k_refl : forall a, keqb a a = true.
  Hypothesis k_sym : forall a b, keqb a b = keqb b a.
  Hypothesis k_trans : forall a b c, keqb a b = true -> keqb b c = true -> keqb a c = true.

  Lemma k_cong_r : forall a b c, keqb a b = true -> keqb a c = keqb b c.
  Proof using k_refl k_sym k_trans.
    intros a b c H. destruct (keqb a c) eqn:E1, (keqb b c) eqn:E2; try reflexivity.
    - rewrite k_sym in H. rewrite (k_trans _ _ _ H E1) in E2. discriminate.
    - rewrite (k_trans _ _ _ H E2) in E1. discriminate.
  Qed.
  Lemma k_cong_l : forall a b c, keqb a b = true -> keqb c a = keqb c b.
  Proof using k_refl k_sym k_trans.
    intros a b c H. rewrite (k_sym c a), (k_sym c b). apply k_cong_r; assumption.
  Qed.

  Definition kdistinct (l : list K) : Prop := ForallOrdPairs (fun a b => keqb a b = false) l.

  Lemma kassoc_kset : forall k k' (v : V) d,
    kassoc keqb k (kset keqb k' v d) = if keqb k' k then Some v else kassoc keqb k d.
  Proof using k_refl k_sym k_trans.
    intros k k' v d. induction d as [|[k1 v1] r IH]; cbn [kset kassoc].
    - reflexivity.
    - destruct (keqb k1 k') eqn:E1; cbn [kassoc].
      + rewrite (k_cong_r _ _ k E1). destruct (keqb k' k); reflexivity.
      + rewrite IH. destruct (keqb k1 k) eqn:E2; [|reflexivity].
        destruct (keqb k' k) eqn:E3; [|reflexivity].
        rewrite k_sym in E3. rewrite (k_trans _ _ _ E2 E3) in E1. discriminate.
  Qed.
  Lemma kassoc_kset_first : forall k k' (v : V) d,
    kassoc keqb k (kset_first keqb k' v d) =
    match kassoc keqb k d with Some x => Some x | None => if keqb k' k then Some v else None end.
  Proof using k_refl k_sym k_trans.
    intros k k' v d. induction d as [|[k1 v1] r IH]; cbn [kset_first kassoc].
    - reflexivity.
    - destruct (keqb k1 k') eqn:E1; cbn [kassoc].
      + destruct (keqb k1 k) eqn:E2; [reflexivity|].
        rewrite <- (k_cong_r _ _ k E1), E2. destruct (kassoc keqb k r); reflexivity.
      + rewrite IH. destruct (keqb k1 k); reflexivity.
  Qed.
  Lemma kmem_existsb : forall k (d : list (K * V)),
    kmem keqb k d = existsb (fun x => keqb x k) (map fst d).
  Proof using.
    intros k d. unfold kmem. induction d as [|[k1 v1] r IH]; cbn [kassoc map fst existsb].
    - reflexivity.
    - destruct (keqb k1 k); [reflexivity|exact IH].
  Qed.
  Lemma kmem_true : forall k (d : list (K * V)),
    kmem keqb k d = true <-> exists x, In x (map fst d) /\ keqb x k = true.
  Proof using. intros k d. rewrite kmem_existsb. apply existsb_exists. Qed.
  Lemma kmem_false : forall k (d : list (K * V)),
    kmem keqb k d = false <-> forall x, In x (map fst d) -> keqb x k = false.
  Proof using. intros k d. rewrite kmem_existsb. apply jexistsb_false. Qed.
  Lemma kset_keys : forall k (v : V) d,
    map fst (kset keqb k v d) = if kmem keqb k d then map fst d else map fst d ++ [k].
  Proof using.
    intros k v d. unfold kmem. induction d as [|[k1 v1] r IH]; cbn [kset kassoc map fst app].
    - reflexivity.
    - destruct (keqb k1 k) eqn:E; cbn [map fst]; [reflexivity|].
      rewrite IH. destruct (kassoc keqb k r); reflexivity.
  Qed.
  Lemma kset_first_keys : forall k (v : V) d,
    map fst (kset_first keqb k v d) = if kmem keqb k d then map fst d else map fst d ++ [k].
  Proof using.
    intros k v d. unfold kmem. induction d as [|[k1 v1] r IH]; cbn [kset_first kassoc map fst app].
    - reflexivity.
    - destruct (keqb k1 k) eqn:E; cbn [map fst]; [reflexivity|].
      rewrite IH. destruct (kassoc keqb k r); reflexivity.
  Qed.
  Lemma kset_first_in : forall k (v : V) d e, In e (kset_first keqb k v d) -> In e d \/ e = (k, v).
  Proof using.
    intros k v d e. induction d as [|[k1 v1] r IH]; cbn [kset_first].
    - intros [<-|[]]. right. reflexivity.
    - destruct (keqb k1 k); [intros H; left; exact H|].
      intros [<-|H]; [left; left; reflexivity|]. destruct (IH H) as [H'|H']; [left; right; exact H'|right; exact H'].
  Qed.
  Lemma kdistinct_snoc : forall l k, kdistinct l -> (forall x, In x l -> keqb x k = false) ->
    kdistinct (l ++ [k]).
  Proof using.
    intros l k H1 H2. apply jFOP_app. split; [exact H1|]. split.
    - constructor; constructor.
    - intros x y Hx [<-|[]]. apply H2, Hx.
  Qed.
  Lemma kassoc_in_distinct : forall (d : list (K * V)) k v,
    kdistinct (map fst d) -> In (k, v) d -> kassoc keqb k d = Some v.
  Proof using k_refl.
    induction d as [|[k1 v1] r IH]; intros k v Hd Hin; [destruct Hin|].
    cbn [map fst] in Hd. inversion Hd as [|? ? HF HP]; subst. cbn [kassoc].
    destruct Hin as [E|Hin].
    - inversion E; subst. rewrite k_refl. reflexivity.
    - destruct (keqb k1 k) eqn:E.
      + rewrite Forall_forall in HF. rewrite (HF k) in E; [discriminate|].
        apply in_map_iff. exists (k, v). split; [reflexivity|exact Hin].
      + apply IH; assumption.
  Qed.
End KDictP.

(* ================================================================ keys *)
Lemma joptz_eqb_eq : forall a b, opt_eqb Z.eqb a b = true <-> a = b.
Proof.
  intros [x|] [y|]; cbn [opt_eqb]; split; intros E; try discriminate E; try reflexivity.
  - apply Z.eqb_eq in E. subst. reflexivity.
  - inversion E. apply Z.eqb_refl.
Qed.
Lemma kval_eqb_refl : forall a, kval_eqb a a = true.
Proof. intros [m|d]; cbn [kval_eqb]; [apply meta_pyeq_refl|apply joptz_eqb_eq; reflexivity]. Qed.
Lemma kval_eqb_sym : forall a b, kval_eqb a b = kval_eqb b a.
Proof.
  intros [m|d] [m'|d']; cbn [kval_eqb]; try reflexivity; [apply meta_pyeq_sym|].
  destruct d, d'; cbn [opt_eqb]; try reflexivity. apply Z.eqb_sym.
Qed.
Lemma kval_eqb_trans : forall a b c, kval_eqb a b = true -> kval_eqb b c = true -> kval_eqb a c = true.
Proof.
  intros [m|d] [m'|d'] [m''|d'']; cbn [kval_eqb]; intros H1 H2; try discriminate.
  - eapply meta_pyeq_trans; eassumption.
  - apply joptz_eqb_eq in H1, H2. apply joptz_eqb_eq. congruence.
Qed.

Lemma ckey_eqb_refl : forall a, ckey_eqb a a = true.
Proof. exact (jlist_eqb_refl kval_eqb kval_eqb_refl). Qed.
Lemma ckey_eqb_sym : forall a b, ckey_eqb a b = ckey_eqb b a.
Proof. exact (jlist_eqb_sym kval_eqb kval_eqb_sym). Qed.
Lemma ckey_eqb_trans : forall a b c, ckey_eqb a b = true -> ckey_eqb b c = true -> ckey_eqb a c = true.
Proof. exact (jlist_eqb_trans kval_eqb kval_eqb_trans). Qed.

Definition ck_cong_r := k_cong_r ckey_eqb ckey_eqb_refl ckey_eqb_sym ckey_eqb_trans.
Definition ck_cong_l := k_cong_l ckey_eqb ckey_eqb_refl ckey_eqb_sym ckey_eqb_trans.
Notation ckd := (kdistinct ckey_eqb).

Lemma index_cells_snoc : forall ks t c,
  index_cells ks (t ++ [c]) = kset ckey_eqb (key_of ks c) c (index_cells ks t).
Proof. intros. unfold index_cells. rewrite fold_left_app. reflexivity. Qed.
Lemma last_with_snoc : forall ks k t c,
  last_with ks k (t ++ [c]) = if ckey_eqb k (key_of ks c) then Some c else last_with ks k t.
Proof. intros. unfold last_with. rewrite fold_left_app. reflexivity. Qed.
Lemma has_key_in_snoc : forall ks k t c,
  has_key_in ks k (t ++ [c]) = has_key_in ks k t || ckey_eqb k (key_of ks c).
Proof.
  intros. unfold has_key_in. rewrite existsb_app. cbn [existsb]. rewrite orb_false_r. reflexivity.
Qed.

(* the index dictionary {key(cell): cell for cell in t}: lookup = the LAST cell with that key *)
Lemma index_cells_lookup : forall ks t k, kassoc ckey_eqb k (index_cells ks t) = last_with ks k t.
Proof.
  intros ks t k. induction t as [|c t IH] using rev_ind; [reflexivity|].
  rewrite index_cells_snoc, last_with_snoc,
    (kassoc_kset ckey_eqb ckey_eqb_refl ckey_eqb_sym ckey_eqb_trans), IH, ckey_eqb_sym.
  reflexivity.
Qed.
Lemma last_with_some : forall ks k t c, last_with ks k t = Some c -> In c t /\ ckey_eqb k (key_of ks c) = true.
Proof.
  intros ks k t c. induction t as [|x t IH] using rev_ind; [discriminate|].
  rewrite last_with_snoc. destruct (ckey_eqb k (key_of ks x)) eqn:E.
  - intros H. inversion H; subst. split; [apply in_or_app; right; left; reflexivity|exact E].
  - intros H. destruct (IH H) as [H1 H2]. split; [apply in_or_app; left; exact H1|exact H2].
Qed.
Lemma last_with_none : forall ks k t, last_with ks k t = None <-> has_key_in ks k t = false.
Proof.
  intros ks k t. induction t as [|x t IH] using rev_ind; [split; reflexivity|].
  rewrite last_with_snoc, has_key_in_snoc. destruct (ckey_eqb k (key_of ks x)).
  - rewrite orb_true_r. split; discriminate.
  - rewrite orb_false_r. exact IH.
Qed.
Lemma last_with_equiv : forall ks k k' t, ckey_eqb k k' = true -> last_with ks k t = last_with ks k' t.
Proof.
  intros ks k k' t H. induction t as [|x t IH] using rev_ind; [reflexivity|].
  rewrite !last_with_snoc, (ck_cong_r k k' _ H), IH. reflexivity.
Qed.
Lemma has_key_in_equiv : forall ks k k' t, ckey_eqb k k' = true -> has_key_in ks k t = has_key_in ks k' t.
Proof.
  intros ks k k' t H. induction t as [|x t IH] using rev_ind; [reflexivity|].
  rewrite !has_key_in_snoc, (ck_cong_r k k' _ H), IH. reflexivity.
Qed.
Lemma index_cells_mem : forall ks t k, kmem ckey_eqb k (index_cells ks t) = has_key_in ks k t.
Proof.
  intros ks t k. unfold kmem. rewrite index_cells_lookup.
  destruct (last_with ks k t) eqn:E; destruct (has_key_in ks k t) eqn:E2; try reflexivity.
  - apply last_with_none in E2. congruence.
  - apply last_with_none in E. congruence.
Qed.
Lemma opt_present_last : forall ks k t, opt_present (last_with ks k t) = has_key_in ks k t.
Proof. intros. rewrite <- index_cells_mem, <- index_cells_lookup. reflexivity. Qed.
Lemma index_cells_ckd : forall ks t, ckd (map fst (index_cells ks t)).
Proof.
  intros ks t. induction t as [|c t IH] using rev_ind; [constructor|].
  rewrite index_cells_snoc, kset_keys. destruct (kmem ckey_eqb (key_of ks c) (index_cells ks t)) eqn:E.
  - exact IH.
  - apply kdistinct_snoc; [exact IH|]. apply kmem_false. exact E.
Qed.
Lemma index_cells_keys_distinct : forall ks t,
  ForallOrdPairs (fun a b => ckey_eqb (fst a) (fst b) = false) (index_cells ks t).
Proof. intros ks t. apply (jFOP_map fst (fun a b => ckey_eqb a b = false)). apply index_cells_ckd. Qed.

(* ================================================================ join *)
Lemma wanted_table : forall l r,
  wanted s_full l r = (l || r) /\ wanted s_inner l r = (l && r) /\ wanted s_left l r = l
  /\ wanted s_right l r = r /\ wanted s_left_anti l r = (l && negb r)
  /\ wanted s_right_anti l r = (r && negb l).
Proof. intros [] []; vm_compute; repeat split. Qed.

Definition key_in_out (ks : list kattr) (k : ckey) (out : list (option cell * option cell)) : Prop :=
  exists p k', In p out /\ pair_key ks p = Some k' /\ ckey_eqb k k' = true.

Definition six : list str := [s_full; s_left; s_right; s_inner; s_left_anti; s_right_anti].
Lemma str_mem_In : forall k l, str_mem k l = true <-> In k l.
Proof.
  intros k l. unfold str_mem. rewrite existsb_exists. split.
  - intros [x [Hx E]]. apply jstr_eqb_eq in E. subst. exact Hx.
  - intros H. exists k. split; [exact H|apply jstr_eqb_refl].
Qed.
Lemma truth3_eqb_eq : forall a b, truth3_eqb a b = true -> a = b.
Proof.
  intros [[[] []] []] [[[] []] []]; cbn; intros H; try discriminate H; reflexivity.
Qed.
Lemma wanted_ff : forall jt, wanted jt false false = false.
Proof. intros jt. unfold wanted. repeat destruct (str_eqb _ _); reflexivity. Qed.
Lemma wanted_six : forall jt, In jt six ->
  exists tr, In (jt, tr) expected_join_table /\
             forall l r, l || r = true -> keep3 tr l r = wanted jt l r.
Proof.
  intros jt H. unfold six in H. cbn [In] in H.
  destruct H as [<-|[<-|[<-|[<-|[<-|[<-|[]]]]]]].
  - exists (true, true, true). split; [unfold expected_join_table; cbn [In]; auto 10|].
    intros [] [] H; try discriminate H; vm_compute; reflexivity.
  - exists (true, true, false). split; [unfold expected_join_table; cbn [In]; auto 10|].
    intros [] [] H; try discriminate H; vm_compute; reflexivity.
  - exists (true, false, true). split; [unfold expected_join_table; cbn [In]; auto 10|].
    intros [] [] H; try discriminate H; vm_compute; reflexivity.
  - exists (true, false, false). split; [unfold expected_join_table; cbn [In]; auto 10|].
    intros [] [] H; try discriminate H; vm_compute; reflexivity.
  - exists (false, true, false). split; [unfold expected_join_table; cbn [In]; auto 10|].
    intros [] [] H; try discriminate H; vm_compute; reflexivity.
  - exists (false, false, true). split; [unfold expected_join_table; cbn [In]; auto 10|].
    intros [] [] H; try discriminate H; vm_compute; reflexivity.
Qed.
Lemma assoc_some_in : forall {V} k (d : list (str * V)) v, assoc k d = Some v -> In (k, v) d.
Proof.
  intros V k d v. induction d as [|[k1 v1] r IH]; cbn [assoc]; [discriminate|].
  destruct (str_eqb k k1) eqn:E.
  - intros H. inversion H; subst. apply jstr_eqb_eq in E. subst. left. reflexivity.
  - intros H. right. apply IH, H.
Qed.
Lemma table_some : forall tbl jt tb, table_agrees tbl = true -> assoc jt tbl = Some tb ->
  In jt six /\ forall l r, l || r = true -> keep3 tb l r = wanted jt l r.
Proof.
  intros tbl jt tb H Ha. unfold table_agrees in H. apply andb_true_iff in H. destruct H as [H1 H2].
  rewrite forallb_forall in H1, H2.
  assert (Hin : In jt six).
  { apply assoc_some_in in Ha. apply H2 in Ha. cbn [fst] in Ha. apply str_mem_In in Ha. exact Ha. }
  split; [exact Hin|].
  destruct (wanted_six jt Hin) as [tr [Htr Hw]]. apply H1 in Htr. cbn [fst snd] in Htr.
  rewrite Ha in Htr. apply truth3_eqb_eq in Htr. subst. exact Hw.
Qed.
Lemma table_none : forall tbl jt, table_agrees tbl = true ->
  (assoc jt tbl = None <-> str_mem jt six = false).
Proof.
  intros tbl jt H. split; intros E.
  - destruct (str_mem jt six) eqn:E2; [|reflexivity]. apply str_mem_In in E2.
    destruct (wanted_six jt E2) as [tr [Htr _]].
    unfold table_agrees in H. apply andb_true_iff in H. destruct H as [H1 _].
    rewrite forallb_forall in H1. apply H1 in Htr. cbn [fst] in Htr. rewrite E in Htr. discriminate.
  - destruct (assoc jt tbl) eqn:E2; [|reflexivity].
    destruct (table_some _ _ _ H E2) as [Hin _]. apply str_mem_In in Hin. congruence.
Qed.

Lemma kattr_eqb_eq : forall a b, kattr_eqb a b = true <-> a = b.
Proof. intros [] []; cbn; split; intros H; try discriminate H; reflexivity. Qed.

Definition jmk (ks : list kattr) (a b : list cell) (k : ckey) : option cell * option cell :=
  (last_with ks k a, last_with ks k b).
Definition juniv (ks : list kattr) (a b : list cell) : list ckey :=
  map fst (index_cells ks a)
  ++ filter (fun k => negb (has_key_in ks k a)) (map fst (index_cells ks b)).

Lemma join_unfold : forall jd jt on t1 t2, join_desc_ok jd = true ->
  join jd jt on t1 t2 =
  if kinds_clash t1 t2 then Err ValueError else
  match assoc jt (jd_table jd) with
  | None => Err ValueError
  | Some tb =>
      Ok (filter (fun p => keep3 tb (opt_present (fst p)) (opt_present (snd p)))
                 (map (jmk (cum_key (tri_is_inc (reduce_on on t1))) (reduce_on on t1) (reduce_on on t2))
                      (juniv (cum_key (tri_is_inc (reduce_on on t1))) (reduce_on on t1) (reduce_on on t2))))
  end.
Proof.
  intros jd jt on t1 t2 H. unfold join_desc_ok in H.
  apply andb_true_iff in H. destruct H as [H H4].
  apply andb_true_iff in H. destruct H as [H H3].
  apply andb_true_iff in H. destruct H as [H1 H2].
  apply (jlist_eqb_eq kattr_eqb kattr_eqb_eq) in H1, H2.
  unfold join. destruct (kinds_clash t1 t2); [reflexivity|]. cbv zeta.
  replace (if tri_is_inc (reduce_on on t1) then jd_key_inc jd else jd_key_cum jd)
    with (cum_key (tri_is_inc (reduce_on on t1))) by (unfold cum_key; rewrite H1, H2; reflexivity).
  destruct (assoc jt (jd_table jd)); [|reflexivity].
  destruct (jd_universe jd); try discriminate H3.
  unfold universe, juniv. f_equal. f_equal.
  set (ks := cum_key (tri_is_inc (reduce_on on t1))).
  erewrite map_ext; [f_equal|].
  - apply f_equal. apply filter_ext. intros k. rewrite index_cells_mem. reflexivity.
  - intros k. cbv beta. unfold jmk. rewrite !index_cells_lookup. reflexivity.
Qed.

Lemma juniv_present : forall ks a b k, In k (juniv ks a b) ->
  has_key_in ks k a || has_key_in ks k b = true.
Proof.
  intros ks a b k H. unfold juniv in H. apply in_app_or in H. destruct H as [H|H].
  - rewrite <- index_cells_mem.
    assert (kmem ckey_eqb k (index_cells ks a) = true) as ->; [|reflexivity].
    apply kmem_true. exists k. split; [exact H|apply ckey_eqb_refl].
  - apply filter_In in H. destruct H as [H _]. rewrite <- (index_cells_mem ks b).
    assert (kmem ckey_eqb k (index_cells ks b) = true) as ->; [|apply orb_true_r].
    apply kmem_true. exists k. split; [exact H|apply ckey_eqb_refl].
Qed.
Lemma juniv_distinct : forall ks a b, ckd (juniv ks a b).
Proof.
  intros ks a b. unfold juniv. apply jFOP_app. split; [apply index_cells_ckd|]. split.
  - apply jFOP_filter. apply index_cells_ckd.
  - intros x y Hx Hy. apply filter_In in Hy. destruct Hy as [_ Hy]. apply negb_true_iff in Hy.
    destruct (ckey_eqb x y) eqn:E; [|reflexivity].
    rewrite <- (has_key_in_equiv ks x y a E), <- index_cells_mem in Hy.
    apply (kmem_false ckey_eqb) with (x := x) in Hy; [|exact Hx]. rewrite ckey_eqb_refl in Hy. discriminate.
Qed.
Lemma juniv_cover : forall ks a b k, has_key_in ks k a || has_key_in ks k b = true ->
  exists k', In k' (juniv ks a b) /\ ckey_eqb k' k = true.
Proof.
  intros ks a b k H. destruct (has_key_in ks k a) eqn:Ea.
  - rewrite <- index_cells_mem in Ea. apply kmem_true in Ea. destruct Ea as [x [Hx E]].
    exists x. split; [apply in_or_app; left; exact Hx|exact E].
  - cbn [orb] in H. rewrite <- index_cells_mem in H. apply kmem_true in H. destruct H as [x [Hx E]].
    exists x. split; [|exact E]. apply in_or_app. right. apply filter_In. split; [exact Hx|].
    rewrite (has_key_in_equiv ks x k a E), Ea. reflexivity.
Qed.
Lemma jmk_key : forall ks a b k1 k, pair_key ks (jmk ks a b k1) = Some k -> ckey_eqb k1 k = true.
Proof.
  intros ks a b k1 k. unfold jmk, pair_key.
  destruct (last_with ks k1 a) eqn:Ea.
  - intros H. inversion H; subst. apply last_with_some in Ea. apply Ea.
  - destruct (last_with ks k1 b) eqn:Eb; [|discriminate].
    intros H. inversion H; subst. apply last_with_some in Eb. apply Eb.
Qed.
Lemma jmk_key_ex : forall ks a b k1, has_key_in ks k1 a || has_key_in ks k1 b = true ->
  exists k, pair_key ks (jmk ks a b k1) = Some k.
Proof.
  intros ks a b k1 H. unfold jmk, pair_key. rewrite <- !opt_present_last in H.
  destruct (last_with ks k1 a); [eexists; reflexivity|].
  destruct (last_with ks k1 b); [eexists; reflexivity|discriminate H].
Qed.

Section JoinFacts.
  Context (jd : join_desc) (jt : str) (on : option (list str)) (t1 t2 : list cell)
          (out : list (option cell * option cell)).
  Hypothesis Hjd : join_desc_ok jd = true.
  Hypothesis Hout : join jd jt on t1 t2 = Ok out.
  Let a := reduce_on on t1.
  Let b := reduce_on on t2.
  Let ks := cum_key (tri_is_inc a).

  Lemma join_out_form : exists tb, table_agrees (jd_table jd) = true /\ assoc jt (jd_table jd) = Some tb /\
    out = filter (fun p => keep3 tb (opt_present (fst p)) (opt_present (snd p)))
                 (map (jmk ks a b) (juniv ks a b)).
  Proof using Hjd Hout.
    pose proof Hout as H. rewrite (join_unfold _ _ _ _ _ Hjd) in H.
    destruct (kinds_clash t1 t2); [discriminate|].
    destruct (assoc jt (jd_table jd)) as [tb|] eqn:E; [|discriminate].
    exists tb. split; [|split; [reflexivity|inversion H; reflexivity]].
    unfold join_desc_ok in Hjd. apply andb_true_iff in Hjd. apply Hjd.
  Qed.

  Lemma join_in_out : forall p, In p out <->
    exists k', In k' (juniv ks a b) /\ p = jmk ks a b k'
               /\ wanted jt (has_key_in ks k' a) (has_key_in ks k' b) = true.
  Proof using Hjd Hout.
    destruct join_out_form as [tb [Ht [Ha Ho]]]. intros p. rewrite Ho, filter_In, in_map_iff.
    split.
    - intros [[k' [<- Hk]] Hkeep]. exists k'. split; [exact Hk|]. split; [reflexivity|].
      unfold jmk in Hkeep. cbn [fst snd] in Hkeep. rewrite !opt_present_last in Hkeep.
      destruct (table_some _ _ _ Ht Ha) as [_ Hw]. rewrite <- Hw; [exact Hkeep|].
      apply juniv_present. exact Hk.
    - intros [k' [Hk [-> Hw]]]. split; [exists k'; split; [reflexivity|exact Hk]|].
      unfold jmk. cbn [fst snd]. rewrite !opt_present_last.
      destruct (table_some _ _ _ Ht Ha) as [_ Hw']. rewrite Hw'; [exact Hw|].
      apply juniv_present. exact Hk.
  Qed.

  (* the key set of the result is the set operation of the join type *)
  Lemma join_keys : forall k,
    key_in_out ks k out <-> wanted jt (has_key_in ks k a) (has_key_in ks k b) = true.
  Proof using Hjd Hout.
    intros k. split.
    - intros [p [k'' [Hp [Hk E]]]]. apply join_in_out in Hp. destruct Hp as [k' [Hk' [-> Hw]]].
      apply jmk_key in Hk.
      assert (E' : ckey_eqb k k' = true).
      { rewrite ckey_eqb_sym in Hk. exact (ckey_eqb_trans _ _ _ E Hk). }
      rewrite (has_key_in_equiv ks k k' a E'), (has_key_in_equiv ks k k' b E'). exact Hw.
    - intros Hw.
      assert (Hp : has_key_in ks k a || has_key_in ks k b = true).
      { destruct (has_key_in ks k a), (has_key_in ks k b); try reflexivity.
        rewrite wanted_ff in Hw. discriminate. }
      destruct (juniv_cover ks a b k Hp) as [k' [Hk' E]].
      rewrite <- (has_key_in_equiv ks k' k a E), <- (has_key_in_equiv ks k' k b E) in Hw, Hp.
      destruct (jmk_key_ex ks a b k' Hp) as [k'' Hk''].
      exists (jmk ks a b k'), k''. split; [|split; [exact Hk''|]].
      + apply join_in_out. exists k'. split; [exact Hk'|]. split; [reflexivity|exact Hw].
      + apply jmk_key in Hk''. rewrite ckey_eqb_sym in E. exact (ckey_eqb_trans _ _ _ E Hk'').
  Qed.
  (* every pair carries the original (metadata-reduced) cells of its key: the last one on each side *)
  Lemma join_cells : forall p, In p out ->
    exists k, pair_key ks p = Some k /\ fst p = last_with ks k a /\ snd p = last_with ks k b.
  Proof using Hjd Hout.
    intros p Hp. apply join_in_out in Hp. destruct Hp as [k' [Hk' [-> Hw]]].
    destruct (jmk_key_ex ks a b k' (juniv_present _ _ _ _ Hk')) as [k Hk].
    exists k. split; [exact Hk|]. apply jmk_key in Hk. unfold jmk. cbn [fst snd].
    split; apply last_with_equiv; exact Hk.
  Qed.
  (* one pair per key *)
  Lemma join_one_pair_per_key :
    ForallOrdPairs (fun p q => forall k k', pair_key ks p = Some k -> pair_key ks q = Some k' ->
                                            ckey_eqb k k' = false) out.
  Proof using Hjd Hout.
    destruct join_out_form as [tb [Ht [Ha Ho]]]. rewrite Ho. apply jFOP_filter. apply jFOP_map.
    eapply jFOP_impl_in; [|apply juniv_distinct].
    cbv beta. intros x y _ _ Hxy k k' Hk Hk'. apply jmk_key in Hk, Hk'.
    destruct (ckey_eqb k k') eqn:E; [|reflexivity].
    rewrite ckey_eqb_sym in Hk'.
    rewrite (ckey_eqb_trans _ _ _ (ckey_eqb_trans _ _ _ Hk E) Hk') in Hxy. discriminate.
  Qed.
End JoinFacts.

Lemma join_clash : forall jd jt on t1 t2, kinds_clash t1 t2 = true -> join jd jt on t1 t2 = Err ValueError.
Proof. intros jd jt on t1 t2 H. unfold join. rewrite H. reflexivity. Qed.
Lemma join_unknown_type : forall jd jt on t1 t2, join_desc_ok jd = true ->
  str_mem jt [s_full; s_left; s_right; s_inner; s_left_anti; s_right_anti] = false ->
  join jd jt on t1 t2 = Err ValueError.
Proof.
  intros jd jt on t1 t2 H Hm. rewrite (join_unfold _ _ _ _ _ H).
  destruct (kinds_clash t1 t2); [reflexivity|].
  unfold join_desc_ok in H. apply andb_true_iff in H. destruct H as [_ H].
  apply (table_none _ jt H) in Hm. rewrite Hm. reflexivity.
Qed.
Lemma join_total : forall jd jt on t1 t2, join_desc_ok jd = true -> kinds_clash t1 t2 = false ->
  str_mem jt [s_full; s_left; s_right; s_inner; s_left_anti; s_right_anti] = true ->
  exists out, join jd jt on t1 t2 = Ok out.
Proof.
  intros jd jt on t1 t2 H Hc Hm. rewrite (join_unfold _ _ _ _ _ H), Hc.
  unfold join_desc_ok in H. apply andb_true_iff in H. destruct H as [_ H].
  destruct (assoc jt (jd_table jd)) eqn:E; [eexists; reflexivity|].
  apply (table_none _ jt H) in E. fold six in Hm. congruence.
Qed.
Lemma reduce_on_nil : forall on, reduce_on on [] = [].
Proof. intros [[|x l]|]; reflexivity. Qed.
(* empty operands are ordinary operands *)
Lemma join_empty_left : forall jd on t2, join_desc_ok jd = true ->
  exists out, join jd s_full on [] t2 = Ok out /\ forall p, In p out -> fst p = None.
Proof.
  intros jd on t2 H.
  destruct (join_total jd s_full on [] t2 H eq_refl eq_refl) as [out Ho].
  exists out. split; [exact Ho|]. intros p Hp.
  destruct (join_cells jd s_full on [] t2 out H Ho p Hp) as [k [_ [Hf _]]].
  rewrite Hf, reduce_on_nil. reflexivity.
Qed.
Lemma reduce_on_length : forall on t, length (reduce_on on t) = length t.
Proof. intros [[|x l]|] t; cbn [reduce_on]; try reflexivity. apply map_length. Qed.
Lemma reduce_on_none : forall t, reduce_on None t = t /\ reduce_on (Some []) t = t.
Proof. intros t. split; reflexivity. Qed.
Lemma reduce_on_cell : forall l t c', l <> [] -> In c' (reduce_on (Some l) t) ->
  exists c, In c t /\ c' = set_meta c (select_metadata l (cmeta c)).
Proof.
  intros [|x l] t c' Hl H; [contradiction|]. cbn [reduce_on] in H. apply in_map_iff in H.
  destruct H as [c [<- Hc]]. exists c. split; [exact Hc|reflexivity].
Qed.

(* ================================================================ merge *)
Lemma assoc_app : forall {V} k (l1 l2 : list (str * V)),
  assoc k (l1 ++ l2) = match assoc k l1 with Some v => Some v | None => assoc k l2 end.
Proof.
  intros V k l1 l2. induction l1 as [|[k1 v1] r IH]; cbn [app assoc]; [reflexivity|].
  destruct (str_eqb k k1); [reflexivity|exact IH].
Qed.
Lemma assoc_dict_set : forall {V} k k' (v : V) d,
  assoc k (dict_set k' v d) = if str_eqb k k' then Some v else assoc k d.
Proof.
  intros V k k' v d. induction d as [|[k1 v1] r IH]; cbn [dict_set assoc]; [reflexivity|].
  destruct (str_eqb k' k1) eqn:E1; cbn [assoc].
  - apply jstr_eqb_eq in E1. subst k1. destruct (str_eqb k k'); reflexivity.
  - rewrite IH. destruct (str_eqb k k1) eqn:E2; [|reflexivity].
    destruct (str_eqb k k') eqn:E3; [|reflexivity].
    apply jstr_eqb_eq in E2, E3. subst. rewrite jstr_eqb_refl in E1. discriminate.
Qed.
(* {**a, **b}: the right operand wins, keys of the left keep their position *)
Lemma dict_union_assoc : forall {V} (a b : list (str * V)) k,
  assoc k (dict_union a b) = match assoc k (rev b) with Some v => Some v | None => assoc k a end.
Proof.
  intros V a b k. unfold dict_union. revert a. induction b as [|[k1 v1] b IH]; intros a.
  - reflexivity.
  - cbn [fold_left rev fst snd]. rewrite IH, assoc_app, assoc_dict_set. cbn [assoc].
    destruct (assoc k (rev b)); [reflexivity|]. destruct (str_eqb k k1); reflexivity.
Qed.
Lemma dict_set_same : forall {V} k (v : V) d, NoDup (keys d) -> In (k, v) d -> dict_set k v d = d.
Proof.
  intros V k v d. induction d as [|[k1 v1] r IH]; intros Hn Hin; [destruct Hin|].
  unfold keys in Hn. cbn [map fst] in Hn. inversion Hn as [|? ? Hnot Hn']; subst.
  cbn [dict_set]. destruct (str_eqb k k1) eqn:E.
  - apply jstr_eqb_eq in E. subst k1. destruct Hin as [Hin|Hin].
    + inversion Hin; subst. reflexivity.
    + exfalso. apply Hnot. apply in_map_iff. exists (k, v). split; [reflexivity|exact Hin].
  - destruct Hin as [Hin|Hin].
    + inversion Hin; subst. rewrite jstr_eqb_refl in E. discriminate.
    + f_equal. apply IH; assumption.
Qed.
Lemma dict_union_self : forall {V} (a : list (str * V)), NoDup (keys a) -> dict_union a a = a.
Proof.
  intros V a Hn. unfold dict_union.
  assert (G : forall l, incl l a -> fold_left (fun acc kv => dict_set (fst kv) (snd kv) acc) l a = a).
  { induction l as [|[k v] l IH]; intros Hi; [reflexivity|]. cbn [fold_left fst snd].
    rewrite dict_set_same; [|exact Hn|apply Hi; left; reflexivity].
    apply IH. intros x Hx. apply Hi. right. exact Hx. }
  apply G. apply incl_refl.
Qed.
Lemma merge_unfold : forall jd md jt on t1 t2 out, merge jd md jt on t1 t2 = Ok out ->
  exists pairs, join jd jt on t1 t2 = Ok pairs /\ out = flat_map (merge_pair md) pairs.
Proof.
  intros jd md jt on t1 t2 out H. unfold merge in H.
  destruct (join jd jt on t1 t2) as [pairs|e]; cbn [bind] in H; [|discriminate].
  exists pairs. split; [reflexivity|]. inversion H. reflexivity.
Qed.
Lemma merge_pair_ok : forall md, merge_desc_ok md = true ->
  (forall c1 c2, merge_pair md (Some c1, Some c2) = [set_vals c1 (dict_union (cvals c1) (cvals c2))])
  /\ (forall c1, merge_pair md (Some c1, None) = [c1])
  /\ (forall c2, merge_pair md (None, Some c2) = [c2]).
Proof.
  intros md H. unfold merge_desc_ok in H.
  apply andb_true_iff in H. destruct H as [H _].
  apply andb_true_iff in H. destruct H as [H _].
  apply andb_true_iff in H. destruct H as [H1 H2].
  split; [|split; reflexivity]. intros c1 c2. unfold merge_pair. rewrite H1, H2. reflexivity.
Qed.
(* one result cell per joined pair: matched -> left cell with the right-biased union of the fields,
   unmatched -> the cell itself *)
Lemma merge_cells : forall jd md jt on t1 t2 out, join_desc_ok jd = true -> merge_desc_ok md = true ->
  merge jd md jt on t1 t2 = Ok out ->
  exists pairs, join jd jt on t1 t2 = Ok pairs /\ length out = length pairs /\
    Forall2 (fun p o => match p with
                        | (Some c1, Some c2) => o = set_vals c1 (dict_union (cvals c1) (cvals c2))
                        | (Some c1, None) => o = c1
                        | (None, Some c2) => o = c2
                        | (None, None) => False
                        end) pairs out.
Proof.
  intros jd md jt on t1 t2 out Hjd Hmd H. apply merge_unfold in H. destruct H as [pairs [Hj ->]].
  exists pairs. split; [exact Hj|].
  assert (Hne : forall p, In p pairs -> p <> (None, None)).
  { intros p Hp. destruct (join_cells jd jt on t1 t2 pairs Hjd Hj p Hp) as [k [Hk _]].
    intros ->. discriminate Hk. }
  destruct (merge_pair_ok md Hmd) as [M1 [M2 M3]].
  clear Hj. induction pairs as [|p pairs IH]; [split; [reflexivity|constructor]|].
  destruct IH as [IH1 IH2]; [intros q Hq; apply Hne; right; exact Hq|].
  assert (Hp := Hne p (or_introl eq_refl)).
  cbn [flat_map]. destruct p as [[c1|] [c2|]].
  - rewrite M1. cbn [app length]. split; [rewrite IH1; reflexivity|constructor; [reflexivity|exact IH2]].
  - rewrite M2. cbn [app length]. split; [rewrite IH1; reflexivity|constructor; [reflexivity|exact IH2]].
  - rewrite M3. cbn [app length]. split; [rewrite IH1; reflexivity|constructor; [reflexivity|exact IH2]].
  - exfalso. apply Hp. reflexivity.
Qed.
(* merge t t = t for a triangle without duplicate coordinates whose cells have unique field names *)
Definition wf_tri (t : list cell) : Prop :=
  ForallOrdPairs (fun c d => ckey_eqb (key_of (cum_key (tri_is_inc t)) c) (key_of (cum_key (tri_is_inc t)) d) = false) t
  /\ Forall (fun c => NoDup (keys (cvals c))) t.

Lemma kset_append : forall {K V} (keqb : K -> K -> bool) k (v : V) d,
  (forall e, In e d -> keqb (fst e) k = false) -> kset keqb k v d = d ++ [(k, v)].
Proof.
  intros K V keqb k v d. induction d as [|[k1 v1] r IHd]; intros Hk; cbn [kset app]; [reflexivity|].
  pose proof (Hk (k1, v1) (or_introl eq_refl)) as E. cbn [fst] in E. rewrite E. f_equal.
  apply IHd. intros e He. apply Hk. right. exact He.
Qed.
Lemma index_cells_distinct_map : forall ks t,
  ForallOrdPairs (fun c d => ckey_eqb (key_of ks c) (key_of ks d) = false) t ->
  index_cells ks t = map (fun c => (key_of ks c, c)) t.
Proof.
  intros ks t. induction t as [|x t IH] using rev_ind; intros H; [reflexivity|].
  apply jFOP_app in H. destruct H as [H1 [_ H3]].
  rewrite index_cells_snoc, map_app, (IH H1). cbn [map]. apply kset_append.
  intros e He. apply in_map_iff in He. destruct He as [c [<- Hc]].
  cbn [fst]. apply H3; [exact Hc|left; reflexivity].
Qed.
Lemma last_with_distinct : forall ks t c,
  ForallOrdPairs (fun c d => ckey_eqb (key_of ks c) (key_of ks d) = false) t ->
  In c t -> last_with ks (key_of ks c) t = Some c.
Proof.
  intros ks t c. induction t as [|x t IH] using rev_ind; intros H Hin; [destruct Hin|].
  apply jFOP_app in H. destruct H as [H1 [_ H3]]. rewrite last_with_snoc.
  apply in_app_or in Hin. destruct Hin as [Hin|[<-|[]]].
  - rewrite (H3 c x Hin (or_introl eq_refl)). apply IH; assumption.
  - rewrite ckey_eqb_refl. reflexivity.
Qed.
Lemma set_vals_self : forall c, set_vals c (cvals c) = c.
Proof. intros []. reflexivity. Qed.
Lemma kind_eqb_refl : forall k, kind_eqb k k = true.
Proof. intros []; reflexivity. Qed.
Lemma kinds_clash_self : forall t, kinds_clash t t = false.
Proof. intros [|c t]; [reflexivity|]. unfold kinds_clash. cbn [first_kind]. rewrite kind_eqb_refl. reflexivity. Qed.

Lemma merge_idem : forall jd md t, join_desc_ok jd = true -> merge_desc_ok md = true -> wf_tri t ->
  merge jd md s_full None t t = Ok t.
Proof.
  intros jd md t Hjd Hmd [Hd Hn].
  destruct (join_total jd s_full None t t Hjd (kinds_clash_self t) eq_refl) as [pairs Hp].
  unfold merge. rewrite Hp. cbn [bind]. f_equal.
  destruct (join_out_form jd s_full None t t pairs Hjd Hp) as [tb [Ht [Ha Ho]]].
  cbn [reduce_on] in Ho. set (ks := cum_key (tri_is_inc t)) in *.
  assert (Hu : map (jmk ks t t) (juniv ks t t) = map (fun c => (Some c, Some c)) t).
  { unfold juniv. rewrite (index_cells_distinct_map ks t Hd), map_map. cbn [fst].
    replace (filter _ _) with (@nil ckey).
    - rewrite app_nil_r, map_map. apply map_ext_in. intros c Hc. unfold jmk.
      rewrite (last_with_distinct ks t c Hd Hc). reflexivity.
    - symmetry. apply jfilter_none. intros k Hk. apply in_map_iff in Hk. destruct Hk as [c [<- Hc]].
      rewrite <- opt_present_last, (last_with_distinct ks t c Hd Hc). reflexivity. }
  rewrite Hu in Ho. rewrite jfilter_all in Ho.
  - subst pairs. destruct (merge_pair_ok md Hmd) as [M1 _].
    clear - Hn M1. induction t as [|c t IH]; [reflexivity|].
    inversion Hn as [|? ? Hc Hn']; subst. cbn [map flat_map].
    rewrite M1, (dict_union_self _ Hc), set_vals_self, IH by exact Hn'. reflexivity.
  - intros p Hp'. apply in_map_iff in Hp'. destruct Hp' as [c [<- _]]. cbn [fst snd opt_present].
    destruct (table_some _ _ _ Ht Ha) as [_ Hw]. rewrite (Hw true true eq_refl). reflexivity.
Qed.

(* ================================================================ coalesce *)
Definition co_ks : list kattr := [KMeta; KPs; KPe; KEv].
Lemma first_with_app : forall ks k t u,
  first_with ks k (t ++ u) = match first_with ks k t with Some c => Some c | None => first_with ks k u end.
Proof.
  intros ks k t u. unfold first_with. induction t as [|x t IH]; cbn [app find]; [reflexivity|].
  destruct (ckey_eqb k (key_of ks x)); [reflexivity|exact IH].
Qed.

Lemma kassoc_some_in : forall {K V} (keqb : K -> K -> bool) k (d : list (K * V)) v,
  kassoc keqb k d = Some v -> exists k', In (k', v) d /\ keqb k' k = true.
Proof.
  intros K V keqb k d v. induction d as [|[k1 v1] r IH]; cbn [kassoc]; [discriminate|].
  destruct (keqb k1 k) eqn:E.
  - intros H. inversion H; subst. exists k1. split; [left; reflexivity|exact E].
  - intros H. destruct (IH H) as [k' [H1 H2]]. exists k'. split; [right; exact H1|exact H2].
Qed.

Definition co_dict (l : list cell) : list (ckey * cell) :=
  fold_left (fun d c => kset_first ckey_eqb (key_of co_ks c) c d) l [].
Lemma coalesce_form : forall md ts, merge_desc_ok md = true ->
  coalesce md ts = map snd (co_dict (concat ts)).
Proof.
  intros md ts H. unfold merge_desc_ok in H.
  apply andb_true_iff in H. destruct H as [H H4].
  apply andb_true_iff in H. destruct H as [_ H3].
  apply (jlist_eqb_eq kattr_eqb kattr_eqb_eq) in H3.
  unfold coalesce. rewrite H4, H3. reflexivity.
Qed.
Lemma co_dict_snoc : forall l c,
  co_dict (l ++ [c]) = kset_first ckey_eqb (key_of co_ks c) c (co_dict l).
Proof. intros. unfold co_dict. rewrite fold_left_app. reflexivity. Qed.
Lemma co_dict_lookup : forall l k, kassoc ckey_eqb k (co_dict l) = first_with co_ks k l.
Proof.
  intros l k. induction l as [|c l IH] using rev_ind; [reflexivity|].
  rewrite co_dict_snoc, (kassoc_kset_first ckey_eqb ckey_eqb_refl ckey_eqb_sym ckey_eqb_trans),
    IH, first_with_app.
  unfold first_with at 3. cbn [find]. rewrite ckey_eqb_sym. reflexivity.
Qed.
Lemma co_dict_entries : forall l e, In e (co_dict l) -> fst e = key_of co_ks (snd e) /\ In (snd e) l.
Proof.
  intros l e. induction l as [|c l IH] using rev_ind; [intros []|].
  rewrite co_dict_snoc. intros H. apply kset_first_in in H. destruct H as [H| ->].
  - destruct (IH H) as [H1 H2]. split; [exact H1|apply in_or_app; left; exact H2].
  - split; [reflexivity|apply in_or_app; right; left; reflexivity].
Qed.
Lemma co_dict_ckd : forall l, ckd (map fst (co_dict l)).
Proof.
  intros l. induction l as [|c l IH] using rev_ind; [constructor|].
  rewrite co_dict_snoc, kset_first_keys.
  destruct (kmem ckey_eqb (key_of co_ks c) (co_dict l)) eqn:E.
  - exact IH.
  - apply kdistinct_snoc; [exact IH|]. apply kmem_false. exact E.
Qed.
(* every result cell is, unmodified, the FIRST cell of the concatenated operands with its coordinate *)
Lemma coalesce_first_wins : forall md ts o, merge_desc_ok md = true -> In o (coalesce md ts) ->
  first_with co_ks (key_of co_ks o) (concat ts) = Some o.
Proof.
  intros md ts o H Ho. rewrite (coalesce_form _ _ H) in Ho. apply in_map_iff in Ho.
  destruct Ho as [[k v] [E He]]. cbn [snd] in E. subst v.
  destruct (co_dict_entries _ _ He) as [Hk _]. cbn [fst snd] in Hk. subst k.
  rewrite <- co_dict_lookup. apply (kassoc_in_distinct ckey_eqb ckey_eqb_refl); [apply co_dict_ckd|exact He].
Qed.
Lemma coalesce_covers : forall md ts c, merge_desc_ok md = true -> In c (concat ts) ->
  has_key_in co_ks (key_of co_ks c) (coalesce md ts) = true.
Proof.
  intros md ts c H Hc. rewrite (coalesce_form _ _ H).
  destruct (first_with co_ks (key_of co_ks c) (concat ts)) as [v|] eqn:E.
  - pose proof E as E'. unfold first_with in E'. apply find_some in E'. destruct E' as [_ Hv].
    rewrite <- co_dict_lookup in E. apply kassoc_some_in in E. destruct E as [k' [He _]].
    unfold has_key_in. apply existsb_exists. exists v. split; [|exact Hv].
    apply in_map_iff. exists (k', v). split; [reflexivity|exact He].
  - unfold first_with in E. apply (find_none _ _ E) in Hc. rewrite ckey_eqb_refl in Hc. discriminate.
Qed.
Lemma coalesce_one_per_key : forall md ts, merge_desc_ok md = true ->
  ForallOrdPairs (fun c d => ckey_eqb (key_of co_ks c) (key_of co_ks d) = false) (coalesce md ts).
Proof.
  intros md ts H. rewrite (coalesce_form _ _ H). apply jFOP_map.
  eapply jFOP_impl_in; [|apply (jFOP_map fst (fun a b => ckey_eqb a b = false)); apply co_dict_ckd].
  cbv beta. intros x y Hx Hy Hxy.
  destruct (co_dict_entries _ _ Hx) as [<- _]. destruct (co_dict_entries _ _ Hy) as [<- _]. exact Hxy.
Qed.

(* ================================================================ add_statics *)
Definition strip (c : cell) : cell := set_vals c [].

Local Notation lstep := (fun (best : option cell) (x : cell) =>
  match best with
  | None => Some x
  | Some b => if ev b <=? ev x then Some x else Some b
  end).
Lemma latest_acc : forall row b, exists s, fold_left lstep row (Some b) = Some s /\
  (s = b \/ In s row) /\ ev b <= ev s /\ forall x, In x row -> ev x <= ev s.
Proof.
  induction row as [|x row IH]; intros b; cbn [fold_left].
  - exists b. split; [reflexivity|]. split; [left; reflexivity|]. split; [lia|intros x []].
  - destruct (ev b <=? ev x) eqn:E.
    + destruct (IH x) as [s [H0 [H1 [H2 H3]]]]. exists s. split; [exact H0|]. split.
      * destruct H1 as [->|H1]; right; [left; reflexivity|right; exact H1].
      * split; [lia|]. intros y [<-|Hy]; [exact H2|apply H3, Hy].
    + destruct (IH b) as [s [H0 [H1 [H2 H3]]]]. exists s. split; [exact H0|]. split.
      * destruct H1 as [H1|H1]; [left|right; right]; exact H1.
      * split; [exact H2|]. intros y [<-|Hy]; [lia|apply H3, Hy].
Qed.
Lemma latest_some : forall row s, latest row = Some s -> In s row /\ forall x, In x row -> ev x <= ev s.
Proof.
  intros [|x row] s H; [discriminate|]. unfold latest in H. cbn [fold_left] in H.
  destruct (latest_acc row x) as [s' [H0 [H1 [H2 H3]]]]. rewrite H0 in H. inversion H; subst s'.
  split.
  - destruct H1 as [->|H1]; [left; reflexivity|right; exact H1].
  - intros y [<-|Hy]; [exact H2|apply H3, Hy].
Qed.
Lemma latest_none : forall row, latest row = None <-> row = [].
Proof.
  intros [|x row]; [split; reflexivity|]. unfold latest. cbn [fold_left].
  destruct (latest_acc row x) as [s' [H0 _]]. rewrite H0. split; discriminate.
Qed.
(* the source cell: the latest cell of the same slice and period *)
Lemma source_cell_some : forall src c s, source_cell src c = Some s ->
  In s src /\ same_row c s = true /\ forall x, In x src -> same_row c x = true -> ev x <= ev s.
Proof.
  intros src c s H. unfold source_cell in H. apply latest_some in H. destruct H as [H1 H2].
  apply filter_In in H1. destruct H1 as [H1 H1']. split; [exact H1|]. split; [exact H1'|].
  intros x Hx Hr. apply H2. apply filter_In. split; assumption.
Qed.
Lemma source_cell_none : forall src c, source_cell src c = None <->
  forall x, In x src -> same_row c x = false.
Proof.
  intros src c. unfold source_cell. rewrite latest_none. symmetry.
  apply (jfilter_none (fun s => same_row c s)).
Qed.
(* coordinates, metadata, class unchanged; only the requested fields are copied *)
Lemma add_statics_cell_strip : forall fields src c, strip (add_statics_cell fields src c) = strip c.
Proof. intros fields src c. unfold add_statics_cell. destruct (source_cell src c); reflexivity. Qed.
Lemma rev_filter : forall {A} (p : A -> bool) l, rev (filter p l) = filter p (rev l).
Proof.
  intros A p l. induction l as [|a l IH]; cbn [filter rev]; [reflexivity|].
  rewrite filter_app, <- IH. cbn [filter]. destruct (p a); cbn [rev]; [reflexivity|].
  rewrite app_nil_r. reflexivity.
Qed.
Lemma assoc_filter_key : forall {V} fields k (l : list (str * V)),
  assoc k (filter (fun kv => str_mem (fst kv) fields) l) = if str_mem k fields then assoc k l else None.
Proof.
  intros V fields k l. induction l as [|[k1 v1] r IH]; cbn [filter assoc fst].
  - destruct (str_mem k fields); reflexivity.
  - destruct (str_mem k1 fields) eqn:E1; cbn [assoc]; destruct (str_eqb k k1) eqn:E2.
    + apply jstr_eqb_eq in E2. subst k1. rewrite E1. reflexivity.
    + exact IH.
    + apply jstr_eqb_eq in E2. subst k1. rewrite E1 in IH |- *. exact IH.
    + exact IH.
Qed.
Lemma add_statics_cell_values : forall fields src c k,
  assoc k (cvals (add_statics_cell fields src c)) =
  match source_cell src c with
  | None => assoc k (cvals c)
  | Some s => if str_mem k fields
              then match assoc k (rev (cvals s)) with Some v => Some v | None => assoc k (cvals c) end
              else assoc k (cvals c)
  end.
Proof.
  intros fields src c k. unfold add_statics_cell. destruct (source_cell src c) as [s|]; [|reflexivity].
  unfold cell_add_statics, set_vals. cbn [cvals].
  rewrite dict_union_assoc, rev_filter, assoc_filter_key. destruct (str_mem k fields); reflexivity.
Qed.
Lemma flat_map_groups : forall {K A B} (f : A -> B) (G : list (K * list A)),
  flat_map (fun g => map f (snd g)) G = map f (concat (map snd G)).
Proof.
  intros K A B f G. induction G as [|g G IH]; cbn [flat_map map concat]; [reflexivity|].
  rewrite map_app, IH. reflexivity.
Qed.
Lemma add_statics_perm : forall fields t src,
  Permutation (add_statics fields t src) (map (add_statics_cell fields src) t).
Proof.
  intros fields t src. unfold add_statics. rewrite flat_map_groups. apply Permutation_map.
  apply Permutation_sym. unfold slices.
  apply (group_by_perm meta_pyeq cmeta meta_pyeq_refl meta_pyeq_sym meta_pyeq_trans).
Qed.
Lemma add_statics_length : forall fields t src, length (add_statics fields t src) = length t.
Proof.
  intros fields t src. rewrite (Permutation_length (add_statics_perm fields t src)). apply map_length.
Qed.

(* ================================================================ period_merge *)
Lemma period_merge_clash : forall sfx t1 t2, kinds_clash t1 t2 = true -> period_merge sfx t1 t2 = Err ValueError.
Proof. intros sfx t1 t2 H. unfold period_merge. rewrite H. reflexivity. Qed.

Definition pm_sel (t2 : list cell) (k : ckey) : list cell := filter (fun c => ckey_eqb k (pm_key c)) t2.
Definition pm_step (sfx : option str) (t2 : list cell) (acc : result (list cell)) (g : ckey * list cell)
  : result (list cell) :=
  bind acc (fun out =>
    match filter (fun c => ckey_eqb (fst g) (pm_key c)) t2 with
    | [] => Ok (out ++ snd g)
    | [r] => Ok (out ++ map (fun c => overwrite_values sfx c r) (snd g))
    | _ => Err ValueError
    end).
Definition pm_rel (sfx : option str) (t2 : list cell) (g : ckey * list cell) (o : list cell) : Prop :=
  (pm_sel t2 (fst g) = [] /\ o = snd g)
  \/ (exists r, pm_sel t2 (fst g) = [r] /\ o = map (fun c => overwrite_values sfx c r) (snd g)).
Lemma period_merge_form : forall sfx t1 t2, period_merge sfx t1 t2 =
  if kinds_clash t1 t2 then Err ValueError
  else fold_left (pm_step sfx t2) (group_by ckey_eqb pm_key t1) (Ok []).
Proof. reflexivity. Qed.
Lemma pm_fold_err : forall sfx t2 G e, fold_left (pm_step sfx t2) G (Err e) = Err e.
Proof. intros sfx t2 G e. induction G as [|g G IH]; cbn [fold_left]; [reflexivity|exact IH]. Qed.
Lemma pm_fold : forall sfx t2 G acc,
  ((exists g, In g G /\ (2 <= length (pm_sel t2 (fst g)))%nat)
   /\ fold_left (pm_step sfx t2) G (Ok acc) = Err ValueError)
  \/ (exists outs, fold_left (pm_step sfx t2) G (Ok acc) = Ok (acc ++ concat outs)
                   /\ Forall2 (pm_rel sfx t2) G outs).
Proof.
  intros sfx t2 G. induction G as [|g G IH]; intros acc.
  - right. exists []. cbn [fold_left concat]. rewrite app_nil_r. split; [reflexivity|constructor].
  - cbn [fold_left].
    assert (Hs : pm_step sfx t2 (Ok acc) g =
                 match pm_sel t2 (fst g) with
                 | [] => Ok (acc ++ snd g)
                 | [r] => Ok (acc ++ map (fun c => overwrite_values sfx c r) (snd g))
                 | _ => Err ValueError
                 end) by reflexivity.
    rewrite Hs. clear Hs.
    destruct (pm_sel t2 (fst g)) as [|r [|r' rest]] eqn:E.
    + destruct (IH (acc ++ snd g)) as [[[g' [Hg' Hl]] He]|[outs [Ho HF]]].
      * left. split; [exists g'; split; [right; exact Hg'|exact Hl]|exact He].
      * right. exists (snd g :: outs). cbn [concat]. rewrite app_assoc. split; [exact Ho|].
        constructor; [left; split; [exact E|reflexivity]|exact HF].
    + destruct (IH (acc ++ map (fun c => overwrite_values sfx c r) (snd g)))
        as [[[g' [Hg' Hl]] He]|[outs [Ho HF]]].
      * left. split; [exists g'; split; [right; exact Hg'|exact Hl]|exact He].
      * right. exists (map (fun c => overwrite_values sfx c r) (snd g) :: outs). cbn [concat].
        rewrite app_assoc. split; [exact Ho|].
        constructor; [right; exists r; split; [exact E|reflexivity]|exact HF].
    + left. split; [|apply pm_fold_err]. exists g. split; [left; reflexivity|].
      rewrite E. cbn [length]. lia.
Qed.
Lemma pm_rel_facts : forall sfx t2 G outs, Forall2 (pm_rel sfx t2) G outs ->
  length (concat outs) = length (concat (map snd G))
  /\ map strip (concat outs) = map strip (concat (map snd G))
  /\ (forall o, In o (concat outs) -> exists g oi, In g G /\ pm_rel sfx t2 g oi /\ In o oi)
  /\ (forall g, In g G -> (length (pm_sel t2 (fst g)) < 2)%nat).
Proof.
  intros sfx t2 G outs H. induction H as [|g oi G outs Hr HF IH].
  - split; [reflexivity|]. split; [reflexivity|]. split; intros ? [].
  - destruct IH as [I1 [I2 [I3 I4]]]. cbn [concat map]. rewrite !app_length, !map_app, I1, I2.
    assert (Hl : length oi = length (snd g) /\ map strip oi = map strip (snd g)
                 /\ (length (pm_sel t2 (fst g)) < 2)%nat).
    { destruct Hr as [[E ->]|[r [E ->]]]; rewrite E; cbn [length].
      - split; [reflexivity|]. split; [reflexivity|lia].
      - split; [apply map_length|]. split; [|lia]. rewrite map_map. reflexivity. }
    destruct Hl as [L1 [L2 L3]]. rewrite L1, L2.
    split; [reflexivity|]. split; [reflexivity|]. split.
    + intros o Ho. apply in_app_or in Ho. destruct Ho as [Ho|Ho].
      * exists g, oi. split; [left; reflexivity|]. split; assumption.
      * destruct (I3 o Ho) as [g' [oi' [A1 [A2 A3]]]]. exists g', oi'.
        split; [right; exact A1|]. split; assumption.
    + intros g' [<-|Hg']; [exact L3|apply I4, Hg'].
Qed.
Definition pm_keyed := group_by_keyed ckey_eqb pm_key ckey_eqb_refl ckey_eqb_sym ckey_eqb_trans.
Definition pm_perm := group_by_perm ckey_eqb pm_key ckey_eqb_refl ckey_eqb_sym ckey_eqb_trans.
Lemma pm_sel_equiv : forall t2 k c, ckey_eqb k (pm_key c) = true ->
  filter (fun r => ckey_eqb (pm_key c) (pm_key r)) t2 = pm_sel t2 k.
Proof.
  intros t2 k c H. unfold pm_sel. apply filter_ext. intros r. symmetry. apply ck_cong_r. exact H.
Qed.
(* cell count and coordinates unchanged; every cell is either untouched (no cell of t2 in its
   slice and period) or overwritten with the fields of THE cell of t2 in its slice and period *)
Lemma period_merge_ok : forall sfx t1 t2 out, period_merge sfx t1 t2 = Ok out ->
  length out = length t1
  /\ Permutation (map strip out) (map strip t1)
  /\ (forall o, In o out -> exists c, In c t1 /\
        ((o = c /\ filter (fun r => ckey_eqb (pm_key c) (pm_key r)) t2 = [])
         \/ (exists r, filter (fun r => ckey_eqb (pm_key c) (pm_key r)) t2 = [r]
                       /\ o = overwrite_values sfx c r))).
Proof.
  intros sfx t1 t2 out H. rewrite period_merge_form in H.
  destruct (kinds_clash t1 t2); [discriminate|].
  destruct (pm_fold sfx t2 (group_by ckey_eqb pm_key t1) []) as [[_ He]|[outs [Ho HF]]];
    [rewrite He in H; discriminate|].
  rewrite Ho in H. cbn [app] in H. inversion H; subst out. clear H Ho.
  destruct (pm_rel_facts _ _ _ _ HF) as [F1 [F2 [F3 _]]].
  split; [|split].
  - rewrite F1. symmetry. apply Permutation_length. apply pm_perm.
  - rewrite F2. apply Permutation_map. apply Permutation_sym. apply pm_perm.
  - intros o Hin. destruct (F3 o Hin) as [[k m] [oi [Hg [Hr Hoi]]]].
    destruct (pm_keyed t1 k m Hg) as [Hm _]. cbn [fst snd] in Hr.
    destruct Hr as [[E ->]|[r [E ->]]].
    + rewrite Hm in Hoi. apply filter_In in Hoi. destruct Hoi as [Hc Hk].
      exists o. split; [exact Hc|]. left. split; [reflexivity|].
      rewrite (pm_sel_equiv t2 k o Hk). exact E.
    + apply in_map_iff in Hoi. destruct Hoi as [c [<- Hc]].
      rewrite Hm in Hc. apply filter_In in Hc. destruct Hc as [Hc Hk].
      exists c. split; [exact Hc|]. right. exists r. split; [|reflexivity].
      rewrite (pm_sel_equiv t2 k c Hk). exact E.
Qed.
Lemma period_merge_err : forall sfx t1 t2, kinds_clash t1 t2 = false ->
  (period_merge sfx t1 t2 = Err ValueError <->
   exists c, In c t1 /\ (2 <= length (filter (fun r => ckey_eqb (pm_key c) (pm_key r)) t2))%nat).
Proof.
  intros sfx t1 t2 Hc. rewrite period_merge_form, Hc.
  destruct (pm_fold sfx t2 (group_by ckey_eqb pm_key t1) []) as [[[g [Hg Hl]] He]|[outs [Ho HF]]].
  - split; [intros _|intros _; exact He]. destruct g as [k m].
    destruct (pm_keyed t1 k m Hg) as [Hm [Hne _]]. destruct m as [|c m]; [contradiction|].
    assert (Hin : In c (c :: m)) by (left; reflexivity).
    rewrite Hm in Hin. apply filter_In in Hin. destruct Hin as [Hin Hk].
    exists c. split; [exact Hin|]. rewrite (pm_sel_equiv t2 k c Hk). exact Hl.
  - rewrite Ho. split; [discriminate|]. intros [c [Hin Hl]]. exfalso.
    destruct (pm_rel_facts _ _ _ _ HF) as [_ [_ [_ F4]]].
    pose proof (Permutation_in c (pm_perm t1) Hin) as Hcc.
    apply in_concat in Hcc. destruct Hcc as [m [Hm Hcm]]. apply in_map_iff in Hm.
    destruct Hm as [[k m'] [E Hg]]. cbn [snd] in E. subst m'.
    destruct (pm_keyed t1 k m Hg) as [Hm _]. rewrite Hm in Hcm. apply filter_In in Hcm.
    destruct Hcm as [_ Hk]. rewrite (pm_sel_equiv t2 k c Hk) in Hl.
    specialize (F4 (k, m) Hg). cbn [fst] in F4. lia.
Qed.
