(** Calendar, one 400-year Gregorian cycle: definitions of the Boolean checks that are evaluated by
    the kernel over the whole cycle (CalendarCycleA.v: every ordinal 1..146097; CalendarCycleB.v:
    every valid (y,m,d) with 1 <= y <= 400) and the lemma that turns an evaluated range check into a
    forall-statement.  CalendarP.v extends the facts to all years >= 1 by periodicity. *)
From Coq Require Import ZArith Bool List Lia.
From Bermuda Require Import Lib.Calendar.
Import ListNotations.
Local Open Scope Z_scope.

Definition valid_ymdb (y m d : Z) : bool :=
  (1 <=? y) && (1 <=? m) && (m <=? 12) && (1 <=? d) && (d <=? days_in_month y m).

(* ordinal n: its (y,m,d) is a valid date of the first cycle and maps back to n *)
Definition ord_ok (n : Z) : bool :=
  let '(y, m, d) := ymd_of_ord n in
  valid_ymdb y m d && (y <=? 400) && (ord_of_ymd y m d =? n).

Definition days31 : list Z :=
  [1;2;3;4;5;6;7;8;9;10;11;12;13;14;15;16;17;18;19;20;21;22;23;24;25;26;27;28;29;30;31].
Definition months12 : list Z := [1;2;3;4;5;6;7;8;9;10;11;12].
Definition ymd_eqb (a : Z * Z * Z) (y m d : Z) : bool :=
  let '(y', m', d') := a in (y' =? y) && (m' =? m) && (d' =? d).
(* year y: every valid (y,m,d) is recovered from its ordinal *)
Definition ymd_ok (y : Z) : bool :=
  forallb (fun m => forallb (fun d => (days_in_month y m <? d)
                                       || ymd_eqb (ymd_of_ord (ord_of_ymd y m d)) y m d) days31)
          months12.

(* f holds on lo, lo+1, ..., lo + 2^depth - 1 *)
Fixpoint range_all (depth : nat) (lo : Z) (f : Z -> bool) : bool :=
  match depth with
  | O => f lo
  | S k => if range_all k lo f then range_all k (lo + 2 ^ Z.of_nat k) f else false
  end.

Lemma range_all_spec f : forall depth lo,
  range_all depth lo f = true -> forall n, lo <= n < lo + 2 ^ Z.of_nat depth -> f n = true.
Proof.
  induction depth as [|k IH]; intros lo H n Hn.
  - cbn in Hn. assert (n = lo) by lia. subst. exact H.
  - cbn [range_all] in H. destruct (range_all k lo f) eqn:E; [|discriminate].
    rewrite Nat2Z.inj_succ, Z.pow_succ_r in Hn by lia.
    destruct (Z_lt_le_dec n (lo + 2 ^ Z.of_nat k)).
    + apply (IH lo E). lia.
    + apply (IH _ H). lia.
Qed.

(* guards: only 1..146097 resp. 1..400 of the power-of-two ranges are constrained *)
Definition okA (n : Z) : bool := (146097 <? n) || ord_ok n.
Definition okB (y : Z) : bool := (400 <? y) || ymd_ok y.
