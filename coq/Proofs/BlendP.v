(** C16 -- lemmas about Model/Blend.v *)
From Coq Require Import ZArith QArith Qabs List Bool Lia Lqa Arith.
From Bermuda Require Import Model.Base Model.Blend.
Import ListNotations.
Local Open Scope Q_scope.

(* ------------------------------------------------------------------ strict equalities are Leibniz *)
Lemma list_eqb_eq {A} (eqb : A -> A -> bool) :
  (forall a b, eqb a b = true -> a = b) -> forall l1 l2, list_eqb eqb l1 l2 = true -> l1 = l2.
Proof.
  intros H l1. induction l1 as [|a r IH]; intros [|b s] E; simpl in E; try discriminate; auto.
  apply andb_true_iff in E. destruct E as [E1 E2]. f_equal; auto.
Qed.
Lemma list_eqb_refl {A} (eqb : A -> A -> bool) :
  (forall a, eqb a a = true) -> forall l, list_eqb eqb l l = true.
Proof. intros H l. induction l; simpl; auto. rewrite H, IHl. reflexivity. Qed.
Lemma str_eqb_eq a b : str_eqb a b = true -> a = b.
Proof. apply list_eqb_eq. intros x y. apply Z.eqb_eq. Qed.
Lemma str_eqb_refl a : str_eqb a a = true.
Proof. apply list_eqb_refl. apply Z.eqb_refl. Qed.
Lemma opt_eqb_eq {A} (eqb : A -> A -> bool) :
  (forall a b, eqb a b = true -> a = b) -> forall x y, opt_eqb eqb x y = true -> x = y.
Proof. intros H [x|] [y|] E; simpl in E; try discriminate; auto. f_equal. auto. Qed.
Lemma opt_eqb_refl {A} (eqb : A -> A -> bool) :
  (forall a, eqb a a = true) -> forall x, opt_eqb eqb x x = true.
Proof. intros H [x|]; simpl; auto. Qed.
Lemma num_seqb_eq a b : num_seqb a b = true -> a = b.
Proof.
  destruct a as [f n], b as [g k]. unfold num_seqb. simpl. intro E.
  apply andb_true_iff in E. destruct E as [E1 E2].
  apply eqb_prop in E1. apply Z.eqb_eq in E2. congruence.
Qed.
Lemma num_seqb_refl a : num_seqb a a = true.
Proof. destruct a. unfold num_seqb. simpl. rewrite eqb_reflx, Z.eqb_refl. reflexivity. Qed.
Lemma mval_seqb_eq a b : mval_seqb a b = true -> a = b.
Proof.
  destruct a, b; simpl; intro E; try discriminate; auto; f_equal.
  - apply str_eqb_eq; auto.
  - apply num_seqb_eq; auto.
  - apply eqb_prop; auto.
  - apply Z.eqb_eq; auto.
Qed.
Lemma mval_seqb_refl a : mval_seqb a a = true.
Proof.
  destruct a; simpl; auto using str_eqb_refl, num_seqb_refl, eqb_reflx, Z.eqb_refl.
Qed.
Lemma pair_sm_eq (x y : str * mval) : pair_eqb str_eqb mval_seqb x y = true -> x = y.
Proof.
  destruct x, y. unfold pair_eqb. simpl. intro E. apply andb_true_iff in E. destruct E.
  f_equal; auto using str_eqb_eq, mval_seqb_eq.
Qed.
Lemma pair_sm_refl (x : str * mval) : pair_eqb str_eqb mval_seqb x x = true.
Proof. destruct x. unfold pair_eqb. simpl. rewrite str_eqb_refl, mval_seqb_refl. reflexivity. Qed.
Lemma meta_seqb_eq a b : meta_seqb a b = true -> a = b.
Proof.
  destruct a, b. unfold meta_seqb. simpl. intro E.
  repeat (apply andb_true_iff in E; let E' := fresh "E" in destruct E as [E E']).
  f_equal; try (eapply opt_eqb_eq; [|eassumption]; auto using str_eqb_eq, num_seqb_eq);
    (eapply list_eqb_eq; [|eassumption]; apply pair_sm_eq).
Qed.
Lemma meta_seqb_refl a : meta_seqb a a = true.
Proof.
  destruct a. unfold meta_seqb. simpl.
  rewrite !(opt_eqb_refl str_eqb str_eqb_refl), (opt_eqb_refl num_seqb num_seqb_refl),
    !(list_eqb_refl _ pair_sm_refl). reflexivity.
Qed.
Lemma coord_eqb_eq a b : coord_eqb a b = true -> a = b.
Proof.
  destruct a as [am a1 a2 a3 a4], b as [bm b1 b2 b3 b4]. unfold coord_eqb. cbn [k_meta k_ps k_pe k_ev k_prev]. intro E.
  apply andb_true_iff in E. destruct E as [E E5]. apply andb_true_iff in E. destruct E as [E E4].
  apply andb_true_iff in E. destruct E as [E E3]. apply andb_true_iff in E. destruct E as [E1 E2].
  apply meta_seqb_eq in E1. apply Z.eqb_eq in E2. apply Z.eqb_eq in E3. apply Z.eqb_eq in E4.
  apply (opt_eqb_eq Z.eqb) in E5; [|intros x y; apply Z.eqb_eq]. congruence.
Qed.
Lemma coord_eqb_refl a : coord_eqb a a = true.
Proof.
  destruct a as [am a1 a2 a3 a4]. unfold coord_eqb. cbn [k_meta k_ps k_pe k_ev k_prev].
  rewrite meta_seqb_refl, !Z.eqb_refl, (opt_eqb_refl Z.eqb Z.eqb_refl). reflexivity.
Qed.
Lemma coord_eqb_neq a b : a <> b -> coord_eqb a b = false.
Proof. intro H. destruct (coord_eqb a b) eqn:E; auto. apply coord_eqb_eq in E. contradiction. Qed.

(* ------------------------------------------------------------------ the coordinate index *)
Lemma cd_get_in k d c : cd_get k d = Some c -> In (k, c) d.
Proof.
  induction d as [|[k' c'] r IH]; simpl; [discriminate|].
  destruct (coord_eqb k k') eqn:E.
  - intro H. inversion H. subst. apply coord_eqb_eq in E. subst. left. reflexivity.
  - intro H. right. auto.
Qed.
Lemma cd_get_notin k d : ~ In k (map fst d) -> cd_get k d = None.
Proof.
  induction d as [|[k' c'] r IH]; simpl; auto. intro H.
  rewrite coord_eqb_neq by (intro; subst; apply H; left; reflexivity). apply IH. tauto.
Qed.
Lemma cd_get_some_in k d : In k (map fst d) -> exists c, cd_get k d = Some c.
Proof.
  induction d as [|[k' c'] r IH]; simpl; [tauto|]. intros [H|H].
  - subst. rewrite coord_eqb_refl. eauto.
  - destruct (coord_eqb k k'); eauto.
Qed.
Lemma cd_set_in k c d x : In x (cd_set k c d) -> In x d \/ x = (k, c).
Proof.
  induction d as [|[k' c'] r IH]; simpl.
  - intros [H|[]]. right. auto.
  - destruct (coord_eqb k k') eqn:E; simpl.
    + intros [H|H]; [|tauto]. apply coord_eqb_eq in E. subst. right. reflexivity.
    + intros [H|H]; [tauto|]. destruct (IH H); tauto.
Qed.
Lemma cd_set_keys_fresh k c d : ~ In k (map fst d) -> cd_set k c d = d ++ [(k, c)].
Proof.
  induction d as [|[k' c'] r IH]; simpl; auto. intro H.
  rewrite coord_eqb_neq by (intro; subst; apply H; left; reflexivity). f_equal. apply IH. tauto.
Qed.
Lemma cd_set_length k c d : (length (cd_set k c d) <= S (length d))%nat.
Proof.
  induction d as [|[k' c'] r IH]; simpl; auto. destruct (coord_eqb k k'); simpl; lia.
Qed.

Lemma cd_set_nodup k c d : NoDup (map fst d) -> NoDup (map fst (cd_set k c d)).
Proof.
  induction d as [|[k' c'] r IH]; simpl; intro H.
  - constructor; [tauto|constructor].
  - destruct (coord_eqb k k') eqn:E; simpl; auto.
    inversion H as [|x l Hn Hr]. subst. constructor; auto.
    intro Hin. apply in_map_iff in Hin. destruct Hin as [[x cx] [Hx Hin]]. simpl in Hx. subst x.
    apply cd_set_in in Hin. destruct Hin as [Hin|Hin].
    + apply Hn. apply in_map_iff. exists (k', cx). auto.
    + inversion Hin. subst. rewrite coord_eqb_refl in E. discriminate.
Qed.
Lemma cd_get_nodup_in k c d : NoDup (map fst d) -> In (k, c) d -> cd_get k d = Some c.
Proof.
  induction d as [|[k' c'] r IH]; simpl; intros H Hin; [tauto|].
  inversion H as [|x l Hn Hr]. subst. destruct Hin as [Hin|Hin].
  - inversion Hin. subst. rewrite coord_eqb_refl. reflexivity.
  - rewrite coord_eqb_neq; auto. intro. subst k'. apply Hn. apply in_map_iff. exists (k, c). auto.
Qed.
Lemma index_fold_keys_nodup t : forall acc, NoDup (map fst acc) ->
  NoDup (map fst (fold_left (fun acc c => cd_set (coord_of c) c acc) t acc)).
Proof. induction t as [|c r IH]; simpl; intros acc H; auto. apply IH. apply cd_set_nodup. exact H. Qed.
Lemma index_tri_keys_nodup t : NoDup (map fst (index_tri t)).
Proof. apply (index_fold_keys_nodup t []). constructor. Qed.

Lemma index_fold_in t : forall acc x,
  In x (fold_left (fun acc c => cd_set (coord_of c) c acc) t acc) ->
  In x acc \/ (In (snd x) t /\ fst x = coord_of (snd x)).
Proof.
  induction t as [|c r IH]; simpl; intros acc x H; [tauto|].
  apply IH in H. destruct H as [H|[H1 H2]]; [|right; tauto].
  apply cd_set_in in H. destruct H as [H|H]; [tauto|]. subst x. simpl. right. tauto.
Qed.
Lemma index_tri_in t k c : In (k, c) (index_tri t) -> In c t /\ k = coord_of c.
Proof. intro H. apply index_fold_in in H. simpl in H. tauto. Qed.

Lemma index_fold_length t : forall acc,
  (length (fold_left (fun acc c => cd_set (coord_of c) c acc) t acc) <= length acc + length t)%nat.
Proof.
  induction t as [|c r IH]; simpl; intros acc; [lia|].
  specialize (IH (cd_set (coord_of c) c acc)). pose proof (cd_set_length (coord_of c) c acc). lia.
Qed.
Lemma index_tri_length t : (length (index_tri t) <= length t)%nat.
Proof. apply (index_fold_length t []). Qed.

Lemma index_fold_nodup t : forall acc,
  NoDup (map fst acc ++ map coord_of t) ->
  fold_left (fun acc c => cd_set (coord_of c) c acc) t acc = acc ++ map (fun c => (coord_of c, c)) t.
Proof.
  induction t as [|c r IH]; simpl; intros acc H.
  - rewrite app_nil_r. reflexivity.
  - assert (Hn : ~ In (coord_of c) (map fst acc)).
    { intro Hin. apply NoDup_remove_2 in H. apply H. apply in_or_app. left. exact Hin. }
    rewrite cd_set_keys_fresh by exact Hn. rewrite IH.
    + rewrite <- app_assoc. reflexivity.
    + rewrite map_app. simpl. rewrite <- app_assoc. simpl.
      replace (map fst acc ++ coord_of c :: map coord_of r)
        with (map fst acc ++ [coord_of c] ++ map coord_of r) in H by reflexivity.
      apply NoDup_remove_1 in H as H1.
      (* move the key from the middle to the end of the first part *)
      revert H. clear. intro H.
      assert (P : forall (l1 : list coord) x l2, NoDup (l1 ++ x :: l2) -> NoDup (l1 ++ [x] ++ l2)) by (intros; assumption).
      exact (P _ _ _ H).
Qed.
(* a well-formed triangle (distinct coordinates): the index lists the cells in triangle order *)
Lemma index_tri_nodup t :
  NoDup (map coord_of t) -> index_tri t = map (fun c => (coord_of c, c)) t.
Proof. intro H. apply (index_fold_nodup t []). exact H. Qed.

(* ------------------------------------------------------------------ result plumbing *)
Lemma bind_ok {A B} (r : result A) (f : A -> result B) b :
  bind r f = Ok b -> exists a, r = Ok a /\ f a = Ok b.
Proof. destruct r; simpl; [eauto|discriminate]. Qed.

Lemma all_some_spec {A} (l : list (option A)) r : all_some l = Some r -> l = map Some r.
Proof.
  revert r. induction l as [|[a|] l IH]; simpl; intros r H; try discriminate.
  - inversion H. reflexivity.
  - destruct (all_some l) eqn:E; [|discriminate]. inversion H. subst. simpl. f_equal. auto.
Qed.
Lemma all_some_none {A} (l : list (option A)) : In None l -> all_some l = None.
Proof.
  induction l as [|[a|] l IH]; simpl; intro H; auto; [tauto|].
  destruct H as [H|H]; [discriminate|]. rewrite IH; auto.
Qed.
Lemma all_some_length {A} (l : list (option A)) r : all_some l = Some r -> length r = length l.
Proof. intro H. apply all_some_spec in H. subst. rewrite map_length. reflexivity. Qed.

Lemma map_result_spec {A B} (f : A -> result B) l r :
  map_result f l = Ok r -> Forall2 (fun a b => f a = Ok b) l r.
Proof.
  revert r. induction l as [|a l IH]; simpl; intros r H.
  - inversion H. constructor.
  - apply bind_ok in H. destruct H as [b [Hb H]]. apply bind_ok in H. destruct H as [bs [Hbs H]].
    inversion H. subst. constructor; auto.
Qed.

(* ------------------------------------------------------------------ blend_field *)
Definition field_vals (cells : list cell) (f : str) : option (list value) :=
  all_some (map (fun c => assoc f (cvals c)) cells).
Definition eff_weights (w : option (list Q)) (M : nat) : list Q :=
  match w with None => uniform M | Some ws => ws end.

Lemma blend_field_linear d cells w f v :
  blend_field d cells w MLinear f = Ok v ->
  exists vals vs,
    field_vals cells f = Some vals /\ all_some (map samples vals) = Some vs /\
    length (eff_weights w (length vals)) = length vals /\
    Forall (fun x => length x = max_len vs \/ length x = 1%nat) vs /\
    v = QArr (map (linear_at (eff_weights w (length vals)) vs) (seq 0 (max_len vs))).
Proof.
  unfold blend_field, field_vals. destruct (all_some (map _ cells)) as [vals|] eqn:E; [|discriminate].
  destruct vals as [|v0 rest]; [discriminate|]. simpl is_mixture. cbv iota. simpl andb. cbv iota.
  intro H. apply bind_ok in H. destruct H as [xs [H Hv]]. inversion Hv. subst v. clear Hv.
  unfold blend_samples in H.
  fold (eff_weights w (length (v0 :: rest))) in H.
  destruct (length (eff_weights w (length (v0 :: rest))) =? length (v0 :: rest))%nat eqn:EL; [|discriminate].
  simpl negb in H. cbv iota in H.
  destruct (all_some (map samples (v0 :: rest))) as [vs|] eqn:ES; [|discriminate].
  unfold linear_blend in H.
  destruct (forallb _ vs) eqn:EF; [|discriminate]. inversion H. subst xs.
  exists (v0 :: rest), vs. repeat split; auto.
  - apply Nat.eqb_eq. exact EL.
  - apply Forall_forall. intros x Hx. rewrite forallb_forall in EF. specialize (EF x Hx).
    apply orb_true_iff in EF. destruct EF as [EF|EF]; apply Nat.eqb_eq in EF; auto.
Qed.

Lemma blend_field_mixture_scalar d cells w f v v0 rest :
  blend_field d cells w MMixture f = Ok v ->
  field_vals cells f = Some (v0 :: rest) -> is_scalar v0 = true ->
  v = QKeep v0 /\ Forall (fun x => vtype x = vtype v0 /\ val_pyeq x v0 = true) rest.
Proof.
  unfold blend_field, field_vals. intros H E Hs. rewrite E in H. simpl is_mixture in H. simpl andb in H.
  destruct (forallb (fun v => (vtype v =? vtype v0)%nat) rest) eqn:ET; simpl in H; [|discriminate].
  rewrite Hs in H.
  destruct (existsb (fun v => negb (val_pyeq v v0)) rest) eqn:EE; [discriminate|].
  inversion H. split; auto. apply Forall_forall. intros x Hx. split.
  - rewrite forallb_forall in ET. apply Nat.eqb_eq. auto.
  - destruct (val_pyeq x v0) eqn:EV; auto.
    assert (existsb (fun v => negb (val_pyeq v v0)) rest = true).
    { apply existsb_exists. exists x. rewrite EV. auto. }
    congruence.
Qed.

Lemma blend_field_mixture_samples d cells w f v v0 rest :
  blend_field d cells w MMixture f = Ok v ->
  field_vals cells f = Some (v0 :: rest) -> is_scalar v0 = false ->
  let vals := v0 :: rest in
  let S := length (arr_of v0) in
  Forall (fun x => vtype x = vtype v0) rest /\
  probs_ok (eff_weights w (length vals)) = true /\
  length (eff_weights w (length vals)) = length vals /\
  draw_ok (length vals) S d = true /\
  Forall (fun x => length (arr_of x) = S) vals /\
  v = QArr (map (mixture_at (map arr_of vals) d) (seq 0 S)).
Proof.
  unfold blend_field, field_vals. intros H E Hs. rewrite E in H. simpl is_mixture in H. simpl andb in H.
  destruct (forallb (fun v => (vtype v =? vtype v0)%nat) rest) eqn:ET; simpl in H; [|discriminate].
  rewrite Hs in H. apply bind_ok in H. destruct H as [xs [H Hv]]. inversion Hv. subst v. clear Hv.
  unfold blend_samples in H. fold (eff_weights w (length (v0 :: rest))) in H.
  destruct (length (eff_weights w (length (v0 :: rest))) =? length (v0 :: rest))%nat eqn:EL; [|discriminate].
  simpl negb in H. cbv iota in H. unfold mixture_blend in H.
  destruct (Qle_bool (Qabs (qsum (eff_weights w (length (v0 :: rest))) - 1)) qtol) eqn:EQ; [|discriminate].
  simpl negb in H. cbv iota in H.
  destruct v0 as [x| |fl x0]; [discriminate Hs | discriminate H | ].
  cbv iota in H. simpl length in *.
  destruct (probs_ok (eff_weights w (S (length rest)))) eqn:EP; [|discriminate].
  simpl negb in H. cbv iota in H.
  destruct (draw_ok (S (length rest)) (length x0) d) eqn:ED; [|discriminate].
  simpl negb in H. cbv iota in H.
  destruct ((length (arr_of (VArr fl x0)) =? length x0)%nat
            && forallb (fun v => (length (arr_of v) =? length x0)%nat) rest) eqn:EF; [|discriminate].
  simpl negb in H. cbv iota in H. inversion H. subst xs.
  assert (HS : length (arr_of (VArr fl x0)) = length x0) by (unfold arr_of; simpl; apply map_length).
  cbv zeta. rewrite HS. apply andb_true_iff in EF. destruct EF as [_ EF].
  repeat split; auto.
  - apply Forall_forall. intros x Hx. rewrite forallb_forall in ET. apply Nat.eqb_eq. auto.
  - apply Nat.eqb_eq. exact EL.
  - constructor; auto. apply Forall_forall. intros x Hx. rewrite forallb_forall in EF. apply Nat.eqb_eq. auto.
Qed.

(* ------------------------------------------------------------------ blend_cells *)
Lemma blend_cells_spec fo dr cells w m o :
  blend_cells fo dr cells w m = Ok o ->
  exists c0 rest, cells = c0 :: rest /\ qhdr o = hdr c0 /\
    map fst (qvals o) = fo (keys (cvals c0)) /\
    Forall (fun c => keyset_eqb (keys (cvals c0)) (keys (cvals c)) = true) rest /\
    forall f v, In (f, v) (qvals o) -> blend_field (dr f) cells w m f = Ok v.
Proof.
  unfold blend_cells. destruct cells as [|c0 rest]; [discriminate|].
  destruct (forallb (fun c => keyset_eqb (keys (cvals c0)) (keys (cvals c))) rest) eqn:EK; simpl; [|discriminate].
  intro H. apply bind_ok in H. destruct H as [vs [Hm H]]. inversion H. subst o. clear H. simpl.
  apply map_result_spec in Hm.
  exists c0, rest. repeat split; auto.
  - clear EK. induction Hm as [|a b l r Hab Hm IH]; simpl; auto.
    apply bind_ok in Hab. destruct Hab as [v [_ Hv]]. inversion Hv. simpl. f_equal. exact IH.
  - apply Forall_forall. intros c Hc. rewrite forallb_forall in EK. auto.
  - intros f v Hin. clear EK. induction Hm as [|a b l r Hab Hm IH]; simpl in Hin; [tauto|].
    destruct Hin as [Hin|Hin]; auto. subst b.
    apply bind_ok in Hab. destruct Hab as [v' [Hv' Hv]]. inversion Hv. subst. exact Hv'.
Qed.

(* ------------------------------------------------------------------ the loop over coordinates *)
Lemma blend_loop_spec fo draw idxs m : forall idx0 wl i out,
  blend_loop fo draw i idx0 wl idxs m = Ok out ->
  length out = Nat.min (length idx0) (length wl) /\
  forall j o, nth_error out j = Some o ->
    exists k c0 w cells,
      nth_error idx0 j = Some (k, c0) /\ nth_error wl j = Some w /\
      all_some (map (cd_get k) idxs) = Some cells /\
      blend_cells fo (draw (i + j)%nat) cells w m = Ok o.
Proof.
  induction idx0 as [|[k c0] r IH]; intros wl i out H.
  - simpl in H. inversion H. split; auto. intros [|j] o Hj; discriminate.
  - destruct wl as [|w wr].
    + simpl in H. inversion H. split; auto. intros [|j] o Hj; discriminate.
    + simpl in H. destruct (all_some (map (cd_get k) idxs)) as [cells|] eqn:EC; [|discriminate].
      apply bind_ok in H. destruct H as [c [Hc H]]. apply bind_ok in H. destruct H as [cs [Hcs H]].
      inversion H. subst out. clear H. specialize (IH wr (S i) cs Hcs). destruct IH as [IH1 IH2].
      split; [simpl; congruence|].
      intros [|j] o Hj; simpl in Hj.
      * inversion Hj. subst o. exists k, c0, w, cells. rewrite Nat.add_0_r. simpl. auto.
      * destruct (IH2 j o Hj) as [k' [c0' [w' [cells' [H1 [H2 [H3 H4]]]]]]].
        exists k', c0', w', cells'. simpl. replace (i + S j)%nat with (S i + j)%nat by lia. auto.
Qed.

(* when a coordinate of the first triangle is missing somewhere, the loop cannot succeed *)
Lemma blend_loop_first_missing fo draw i k c0 r w wr idxs m :
  In None (map (cd_get k) idxs) ->
  blend_loop fo draw i ((k, c0) :: r) (w :: wr) idxs m = Err ValueError.
Proof. intro H. simpl. rewrite (all_some_none _ H). reflexivity. Qed.

(* ------------------------------------------------------------------ weight normalisation *)
Lemma weight_list_length w n wl : weight_list w n = Ok wl -> length wl = n.
Proof.
  destruct w as [|ws|rows|]; simpl; intro H; try discriminate.
  - inversion H. apply repeat_length.
  - inversion H. apply repeat_length.
  - destruct rows as [|r0 rows]; [discriminate|].
    destruct (forallb (fun r => (length r =? length r0)%nat) (r0 :: rows)); simpl in H; [|discriminate].
    unfold transpose in H. rewrite !map_length, !seq_length in H.
    destruct (length r0 =? 1)%nat eqn:E1; simpl in H.
    + inversion H. apply repeat_length.
    + destruct (length r0 =? n)%nat eqn:E2; simpl in H; [|discriminate].
      inversion H. rewrite !map_length, seq_length. apply Nat.eqb_eq. exact E2.
Qed.

Definition column (rows : list (list Q)) (j : nat) : list Q := map (fun r => nth j r 0) rows.

Lemma weight_list_dict_global rows n :
  rows <> [] -> Forall (fun r => length r = 1%nat) rows ->
  weight_list (WDict rows) n = Ok (repeat (Some (column rows 0)) n).
Proof.
  intros Hne Hall. destruct rows as [|r0 rows]; [congruence|]. unfold weight_list.
  assert (L0 : length r0 = 1%nat) by (inversion Hall; auto).
  assert (EF : forallb (fun r => (length r =? length r0)%nat) (r0 :: rows) = true).
  { apply forallb_forall. intros x Hx. rewrite Forall_forall in Hall. rewrite (Hall x Hx), L0. reflexivity. }
  rewrite EF. simpl negb. cbv iota. unfold transpose. rewrite !map_length, !seq_length, L0. simpl.
  reflexivity.
Qed.

Lemma weight_list_dict_cell rows n :
  rows <> [] -> n <> 1%nat -> Forall (fun r => length r = n) rows ->
  weight_list (WDict rows) n = Ok (map (fun j => Some (column rows j)) (seq 0 n)).
Proof.
  intros Hne Hn Hall. destruct rows as [|r0 rows]; [congruence|]. unfold weight_list.
  assert (L0 : length r0 = n) by (inversion Hall; auto).
  assert (EF : forallb (fun r => (length r =? length r0)%nat) (r0 :: rows) = true).
  { apply forallb_forall. intros x Hx. rewrite Forall_forall in Hall. rewrite (Hall x Hx), L0. apply Nat.eqb_refl. }
  rewrite EF. simpl negb. cbv iota. unfold transpose. rewrite !map_length, !seq_length, L0.
  rewrite Nat.eqb_refl. simpl negb. rewrite andb_false_r.
  destruct (n =? 1)%nat eqn:E1; [apply Nat.eqb_eq in E1; contradiction|].
  rewrite map_map. reflexivity.
Qed.

Lemma nth_error_repeat {A} (a : A) n i : (i < n)%nat -> nth_error (repeat a n) i = Some a.
Proof. revert i. induction n; intros [|i] H; simpl; try lia; auto. apply IHn. lia. Qed.
Lemma nth_error_map_seq {A} (f : nat -> A) n i : (i < n)%nat -> nth_error (map f (seq 0 n)) i = Some (f i).
Proof.
  intro H. rewrite nth_error_map. rewrite (nth_error_nth' (seq 0 n) 0%nat) by (rewrite seq_length; auto).
  rewrite seq_nth by auto. reflexivity.
Qed.

(* ------------------------------------------------------------------ blend: inversion *)
Lemma blend_ok_inv fo draw tris w m out :
  blend fo draw tris w m = Ok out ->
  exists t0 rest wl,
    tris = t0 :: rest /\ m <> MBad /\ single_check tris w = None /\
    Forall (fun t => length t = length t0) rest /\
    Forall (fun t => first_kind t = first_kind t0) rest /\
    weight_list w (length t0) = Ok wl /\
    blend_loop fo draw O (index_tri t0) wl (map index_tri tris) m = Ok out.
Proof.
  unfold blend. destruct (single_check tris w) eqn:ES; [discriminate|].
  intro H. assert (Hm : m <> MBad) by (intro; subst; discriminate).
  assert (H' : match tris with
               | [] => Err IndexError
               | t0 :: rest =>
                   let n := length t0 in
                   if negb (forallb (fun t => (length t =? n)%nat) rest) then Err ValueError
                   else if (n =? 0)%nat && negb (length rest =? 0)%nat then Err IndexError
                   else if negb (forallb (fun t => okind_eqb (first_kind t) (first_kind t0)) rest) then Err ValueError
                   else bind (weight_list w n)
                     (fun wl => blend_loop fo draw O (index_tri t0) wl (map index_tri tris) m)
               end = Ok out) by (destruct m; auto; congruence).
  clear H. destruct tris as [|t0 rest]; [discriminate|]. cbv zeta in H'.
  destruct (forallb (fun t => (length t =? length t0)%nat) rest) eqn:EL; simpl negb in H'; cbv iota in H'; [|discriminate].
  destruct ((length t0 =? 0)%nat && negb (length rest =? 0)%nat); [discriminate|].
  destruct (forallb (fun t => okind_eqb (first_kind t) (first_kind t0)) rest) eqn:EK; simpl negb in H'; cbv iota in H'; [|discriminate].
  apply bind_ok in H'. destruct H' as [wl [Hw Hl]].
  exists t0, rest, wl. repeat split; auto.
  - apply Forall_forall. intros t Ht. rewrite forallb_forall in EL. apply Nat.eqb_eq. auto.
  - apply Forall_forall. intros t Ht. rewrite forallb_forall in EK. specialize (EK t Ht).
    unfold okind_eqb in EK. eapply opt_eqb_eq; [|exact EK]. intros a b. destruct a, b; simpl; congruence.
Qed.

(* every output cell is blend_cells of the cells found at the i-th coordinate of the first triangle in
   every triangle, with the i-th normalised weight vector *)
Lemma blend_cellwise fo draw tris w m out :
  blend fo draw tris w m = Ok out ->
  exists t0 rest wl,
    tris = t0 :: rest /\ weight_list w (length t0) = Ok wl /\
    length out = length (index_tri t0) /\
    forall i o, nth_error out i = Some o ->
      exists k c0 wi cells,
        nth_error (index_tri t0) i = Some (k, c0) /\ nth_error wl i = Some wi /\
        length cells = length tris /\
        Forall2 (fun t c => In c t /\ coord_of c = k) tris cells /\
        hd_error cells = Some c0 /\
        blend_cells fo (draw i) cells wi m = Ok o.
Proof.
  intro H. apply blend_ok_inv in H.
  destruct H as [t0 [rest [wl [Ht [Hm [Hs [HL [HK [Hw Hl]]]]]]]]].
  exists t0, rest, wl. split; auto. split; auto.
  apply blend_loop_spec in Hl. destruct Hl as [Hlen Hl].
  pose proof (weight_list_length _ _ _ Hw) as Hwl. pose proof (index_tri_length t0) as Hil.
  split; [rewrite Hlen; lia|].
  intros i o Hi. destruct (Hl i o Hi) as [k [c0 [wi [cells [H1 [H2 [H3 H4]]]]]]].
  exists k, c0, wi, cells. simpl in H4. repeat split; auto.
  - apply all_some_length in H3. rewrite H3, !map_length. reflexivity.
  - apply all_some_spec in H3. subst tris. clear - H3.
    revert cells H3. generalize (t0 :: rest) as ts. induction ts as [|t ts IH]; intros [|c cs] H; simpl in H; try discriminate.
    + constructor.
    + inversion H. constructor; auto.
      apply cd_get_in in H1. apply index_tri_in in H1. destruct H1. split; auto.
  - subst tris. simpl in H3. apply nth_error_In in H1 as Hin.
    rewrite (cd_get_nodup_in _ _ _ (index_tri_keys_nodup t0) Hin) in H3.
    destruct (all_some (map (cd_get k) (map index_tri rest))); [|discriminate].
    inversion H3. reflexivity.
Qed.
