(** Unbounded facts about Lib/Calendar.v: all proleptic Gregorian dates with year >= 1
    (ordinal >= 1, month id >= MINID = month id of January of year 1).

    Route: Gregorian periodicity (ord_of_ymd / ymd_of_ord commute with shifting by q cycles of
    400 years = 146097 days, proved analytically for every integer q) + kernel evaluation over ONE
    cycle (CalendarCycleA/B.v).  No axioms.  Summary of the main statements at the end of the file. *)
From Coq Require Import ZArith Bool List Lia ZifyBool.
From Bermuda Require Import Lib.Calendar Proofs.CalendarCycle Proofs.CalendarCycleA
     Proofs.CalendarCycleB.
Import ListNotations.
Local Open Scope Z_scope.

Definition valid_ymd (y m d : Z) : Prop := 1 <= y /\ 1 <= m <= 12 /\ 1 <= d <= days_in_month y m.

Lemma valid_ymdb_iff y m d : valid_ymdb y m d = true <-> valid_ymd y m d.
Proof. unfold valid_ymdb, valid_ymd. lia. Qed.

(* ------------------------------------------------------------------ 0. periodicity *)
Lemma mod4_shift y q : (y + 400 * q) mod 4 = y mod 4.
Proof. replace (y + 400 * q) with (y + (100 * q) * 4) by lia. apply Z.mod_add. lia. Qed.
Lemma mod100_shift y q : (y + 400 * q) mod 100 = y mod 100.
Proof. replace (y + 400 * q) with (y + (4 * q) * 100) by lia. apply Z.mod_add. lia. Qed.
Lemma mod400_shift y q : (y + 400 * q) mod 400 = y mod 400.
Proof. replace (y + 400 * q) with (y + q * 400) by lia. apply Z.mod_add. lia. Qed.

Lemma is_leap_shift y q : is_leap (y + 400 * q) = is_leap y.
Proof. unfold is_leap. now rewrite mod4_shift, mod100_shift, mod400_shift. Qed.
Lemma days_in_month_shift y q m : days_in_month (y + 400 * q) m = days_in_month y m.
Proof. unfold days_in_month. now rewrite is_leap_shift. Qed.
Lemma days_before_month_shift y q m : days_before_month (y + 400 * q) m = days_before_month y m.
Proof. unfold days_before_month. now rewrite is_leap_shift. Qed.
Lemma days_before_year_shift y q : days_before_year (y + 400 * q) = days_before_year y + 146097 * q.
Proof.
  unfold days_before_year. cbv zeta.
  replace (y + 400 * q - 1) with (y - 1 + q * 400) by lia.
  rewrite Z.div_add by lia.
  replace (y - 1 + q * 400) with (y - 1 + (100 * q) * 4) at 2 by lia. rewrite Z.div_add by lia.
  replace (y - 1 + q * 400) with (y - 1 + (4 * q) * 100) at 2 by lia. rewrite Z.div_add by lia.
  lia.
Qed.

Lemma ord_of_ymd_shift y m d q : ord_of_ymd (y + 400 * q) m d = ord_of_ymd y m d + 146097 * q.
Proof. unfold ord_of_ymd. rewrite days_before_year_shift, days_before_month_shift. lia. Qed.

Definition shift_ymd (a : Z * Z * Z) (q : Z) : Z * Z * Z := let '(y, m, d) := a in (y + 400 * q, m, d).

Lemma ymd_of_ord_shift n q : ymd_of_ord (n + 146097 * q) = shift_ymd (ymd_of_ord n) q.
Proof.
  unfold ymd_of_ord. cbv zeta.
  replace (n + 146097 * q - 1) with (n - 1 + q * 146097) by lia.
  rewrite Z.div_add, Z.mod_add by lia.
  set (r := (n - 1) mod 146097). set (a := (n - 1) / 146097).
  set (n100 := r / 36524). set (r1 := r mod 36524).
  set (n4 := r1 / 1461). set (r2 := r1 mod 1461).
  set (n1 := r2 / 365). set (r3 := r2 mod 365).
  destruct ((n1 =? 4) || (n100 =? 4)).
  - unfold shift_ymd. f_equal. f_equal. lia.
  - set (leap := (n1 =? 3) && (negb (n4 =? 24) || (n100 =? 3))).
    set (mth := Z.shiftr (r3 + 50) 5).
    destruct (r3 <? dbm_tbl mth + (if (2 <? mth) && leap then 1 else 0));
      unfold shift_ymd; f_equal; f_equal; lia.
Qed.

(* ------------------------------------------------------------------ one cycle, from the kernel evaluation *)
Lemma cycleA_fact r : 1 <= r <= 146097 -> ord_ok r = true.
Proof.
  intros H. pose proof (range_all_spec okA 18 1 cycleA r) as K. unfold okA in K.
  assert (E : 146097 <? r = false) by lia. rewrite E in K. apply K.
  change (2 ^ Z.of_nat 18) with 262144. lia.
Qed.

Lemma In_months12 m : 1 <= m <= 12 -> In m months12.
Proof.
  intros H. assert (m = 1 \/ m = 2 \/ m = 3 \/ m = 4 \/ m = 5 \/ m = 6 \/ m = 7 \/ m = 8 \/ m = 9
                    \/ m = 10 \/ m = 11 \/ m = 12) as K by lia.
  unfold months12. cbn [In]. intuition.
Qed.
Lemma In_days31 d : 1 <= d <= 31 -> In d days31.
Proof.
  intros H. unfold days31.
  assert (K : exists k, (k < 31)%nat /\ d = 1 + Z.of_nat k) by (exists (Z.to_nat (d - 1)); lia).
  destruct K as [k [Hk ->]].
  do 31 (destruct k as [|k]; [cbn; tauto|]). lia.
Qed.

Lemma days_in_month_bounds y m : 28 <= days_in_month y m <= 31.
Proof. unfold days_in_month. destruct (m =? 2), (is_leap y), ((m =? 4) || (m =? 6) || (m =? 9) || (m =? 11)); lia. Qed.

Lemma cycleB_fact y m d :
  1 <= y <= 400 -> 1 <= m <= 12 -> 1 <= d <= days_in_month y m ->
  ymd_of_ord (ord_of_ymd y m d) = (y, m, d).
Proof.
  intros Hy Hm Hd. pose proof (range_all_spec okB 9 1 cycleB y) as K. unfold okB in K.
  assert (E : 400 <? y = false) by lia. rewrite E in K. cbn [orb] in K.
  assert (K' : ymd_ok y = true) by (apply K; change (2 ^ Z.of_nat 9) with 512; lia). clear K.
  unfold ymd_ok in K'. rewrite forallb_forall in K'. specialize (K' m (In_months12 m Hm)).
  rewrite forallb_forall in K'. pose proof (days_in_month_bounds y m).
  specialize (K' d (In_days31 d ltac:(lia))).
  assert (E2 : days_in_month y m <? d = false) by lia. rewrite E2 in K'. cbn [orb] in K'.
  unfold ymd_eqb in K'. destruct (ymd_of_ord (ord_of_ymd y m d)) as [[y' m'] d'].
  assert (y' = y /\ m' = m /\ d' = d) as [-> [-> ->]] by lia. reflexivity.
Qed.

(* ------------------------------------------------------------------ 1. the two conversions are inverse *)
Theorem ymd_of_ord_spec n :
  1 <= n ->
  let '(y, m, d) := ymd_of_ord n in valid_ymd y m d /\ ord_of_ymd y m d = n.
Proof.
  intros Hn.
  pose proof (Z.div_mod (n - 1) 146097 ltac:(lia)) as DM.
  pose proof (Z.mod_pos_bound (n - 1) 146097 ltac:(lia)) as MB.
  pose proof (Z.div_pos (n - 1) 146097 ltac:(lia) ltac:(lia)) as QP.
  set (q := (n - 1) / 146097) in *. set (r := (n - 1) mod 146097 + 1).
  replace n with (r + 146097 * q) by (unfold r; lia).
  rewrite ymd_of_ord_shift.
  pose proof (cycleA_fact r ltac:(unfold r; lia)) as OK. unfold ord_ok in OK.
  destruct (ymd_of_ord r) as [[y m] d]. unfold shift_ymd.
  apply andb_prop in OK as [OK E3]. apply andb_prop in OK as [V Y4].
  apply valid_ymdb_iff in V. destruct V as [V1 [V2 V3]].
  split.
  - unfold valid_ymd. rewrite days_in_month_shift. lia.
  - rewrite ord_of_ymd_shift. lia.
Qed.

Theorem ymd_of_ord_of_ymd y m d : valid_ymd y m d -> ymd_of_ord (ord_of_ymd y m d) = (y, m, d).
Proof.
  intros [Hy [Hm Hd]].
  pose proof (Z.div_mod (y - 1) 400 ltac:(lia)) as DM.
  pose proof (Z.mod_pos_bound (y - 1) 400 ltac:(lia)) as MB.
  set (q := (y - 1) / 400) in *. set (y0 := (y - 1) mod 400 + 1).
  assert (Ey : y = y0 + 400 * q) by (unfold y0; lia).
  rewrite Ey in Hd |- *. rewrite days_in_month_shift in Hd.
  rewrite ord_of_ymd_shift, ymd_of_ord_shift.
  assert (Hy0 : 1 <= y0 <= 400) by (unfold y0; lia).
  rewrite (cycleB_fact y0 m d Hy0 Hm Hd). reflexivity.
Qed.

Corollary ord_of_ymd_of_ord n :
  1 <= n -> ord_of_ymd (year_of n) (month_of n) (day_of n) = n.
Proof.
  intros H. pose proof (ymd_of_ord_spec n H) as K. unfold year_of, month_of, day_of.
  destruct (ymd_of_ord n) as [[y m] d]. tauto.
Qed.
Corollary ymd_of_ord_valid n : 1 <= n -> valid_ymd (year_of n) (month_of n) (day_of n).
Proof.
  intros H. pose proof (ymd_of_ord_spec n H) as K. unfold year_of, month_of, day_of.
  destruct (ymd_of_ord n) as [[y m] d]. tauto.
Qed.

(* from here on lia eliminates div/mod by constants *)
Ltac Zify.zify_post_hook ::= Z.div_mod_to_equations.

Lemma days_before_year_nonneg y : 1 <= y -> 0 <= days_before_year y.
Proof. intros H. unfold days_before_year. cbv zeta. lia. Qed.

Lemma ord_of_ymd_ge_1 y m d : valid_ymd y m d -> 1 <= ord_of_ymd y m d.
Proof.
  intros [Hy [Hm Hd]]. unfold ord_of_ymd. pose proof (days_before_year_nonneg y Hy).
  assert (0 <= days_before_month y m).
  { unfold days_before_month, dbm_tbl.
    destruct ((2 <? m) && is_leap y); repeat (destruct (m =? _)); lia. }
  lia.
Qed.

Lemma ord_of_ymd_inj y m d y' m' d' :
  valid_ymd y m d -> valid_ymd y' m' d' -> ord_of_ymd y m d = ord_of_ymd y' m' d' ->
  (y, m, d) = (y', m', d').
Proof.
  intros V V' E. rewrite <- (ymd_of_ord_of_ymd y m d V), <- (ymd_of_ord_of_ymd y' m' d' V').
  now rewrite E.
Qed.

(* ------------------------------------------------------------------ 2. months *)
(* month id of January of year 1; ids below belong to years < 1 *)
Definition MINID : Z := -23628.

Lemma ord_of_ymd_day y m d : ord_of_ymd y m d = ord_of_ymd y m 1 + d - 1.
Proof. unfold ord_of_ymd. lia. Qed.

Lemma days_before_year_succ y :
  days_before_year (y + 1) = days_before_year y + (if is_leap y then 366 else 365).
Proof.
  unfold days_before_year. cbv zeta. replace (y + 1 - 1) with y by lia.
  destruct (is_leap y) eqn:L; unfold is_leap in L; lia.
Qed.

(* first day of a month + its length = first day of the next month (every integer year) *)
Lemma next_month y m :
  1 <= m <= 12 ->
  ord_of_ymd y m 1 + days_in_month y m =
  if m =? 12 then ord_of_ymd (y + 1) 1 1 else ord_of_ymd y (m + 1) 1.
Proof.
  intros Hm.
  assert (K : m = 1 \/ m = 2 \/ m = 3 \/ m = 4 \/ m = 5 \/ m = 6 \/ m = 7 \/ m = 8 \/ m = 9
              \/ m = 10 \/ m = 11 \/ m = 12) by lia.
  unfold ord_of_ymd, days_before_month, days_in_month.
  destruct K as [->|[->|[->|[->|[->|[->|[->|[->|[->|[->|[->| ->]]]]]]]]]]]; cbn;
    try (destruct (is_leap y); lia).
  rewrite days_before_year_succ. destruct (is_leap y), (is_leap (y + 1)); lia.
Qed.

Lemma month_start_succ id :
  month_start (id + 1) = month_start id + days_in_month (1970 + id / 12) (id mod 12 + 1).
Proof.
  unfold month_start.
  assert (Hm : 1 <= id mod 12 + 1 <= 12) by lia.
  pose proof (next_month (1970 + id / 12) (id mod 12 + 1) Hm) as N.
  assert (C : ((id + 1) / 12 = id / 12 /\ (id + 1) mod 12 = id mod 12 + 1 /\ id mod 12 < 11)
              \/ ((id + 1) / 12 = id / 12 + 1 /\ (id + 1) mod 12 = 0 /\ id mod 12 = 11)) by lia.
  destruct C as [[E1 [E2 E3]]|[E1 [E2 E3]]]; rewrite E1, E2.
  - assert (Q : id mod 12 + 1 =? 12 = false) by lia. rewrite Q in N. lia.
  - assert (Q : id mod 12 + 1 =? 12 = true) by lia. rewrite Q in N.
    replace (1970 + (id / 12 + 1)) with (1970 + id / 12 + 1) by lia.
    replace (0 + 1) with 1 by reflexivity. lia.
Qed.

Lemma month_start_step id : 28 <= month_start (id + 1) - month_start id <= 31.
Proof. rewrite month_start_succ. pose proof (days_in_month_bounds (1970 + id / 12) (id mod 12 + 1)). lia. Qed.

Theorem month_start_lt_succ id : month_start id < month_start (id + 1).
Proof. pose proof (month_start_step id). lia. Qed.

Lemma month_start_lt_nat a : forall n : nat, month_start a < month_start (a + 1 + Z.of_nat n).
Proof.
  induction n as [|n IH].
  - replace (a + 1 + Z.of_nat 0) with (a + 1) by lia. apply month_start_lt_succ.
  - replace (a + 1 + Z.of_nat (S n)) with (a + 1 + Z.of_nat n + 1) by lia.
    pose proof (month_start_lt_succ (a + 1 + Z.of_nat n)). lia.
Qed.
Theorem month_start_strict_mono a b : a < b -> month_start a < month_start b.
Proof.
  intros H. replace b with (a + 1 + Z.of_nat (Z.to_nat (b - a - 1))) by lia. apply month_start_lt_nat.
Qed.
Corollary month_start_mono a b : a <= b -> month_start a <= month_start b.
Proof.
  intros H. destruct (Z.eq_dec a b) as [->|N]; [lia|]. pose proof (month_start_strict_mono a b). lia.
Qed.
Corollary month_start_inj a b : month_start a = month_start b -> a = b.
Proof.
  intros H. destruct (Z.lt_trichotomy a b) as [L|[E|L]]; auto;
    apply month_start_strict_mono in L; lia.
Qed.

Theorem month_end_succ id : month_end id + 1 = month_start (id + 1).
Proof. unfold month_end. lia. Qed.

Lemma month_end_eq id :
  month_end id = ord_of_ymd (1970 + id / 12) (id mod 12 + 1) (days_in_month (1970 + id / 12) (id mod 12 + 1)).
Proof. unfold month_end. rewrite month_start_succ, ord_of_ymd_day. unfold month_start. lia. Qed.

Lemma month_start_le_end id : month_start id <= month_end id.
Proof. unfold month_end. pose proof (month_start_step id). lia. Qed.

Lemma month_ym_valid id d :
  MINID <= id -> 1 <= d <= 28 -> valid_ymd (1970 + id / 12) (id mod 12 + 1) d.
Proof.
  unfold MINID, valid_ymd. intros H Hd.
  pose proof (days_in_month_bounds (1970 + id / 12) (id mod 12 + 1)). lia.
Qed.

Lemma ymd_month_start id :
  MINID <= id -> ymd_of_ord (month_start id) = (1970 + id / 12, id mod 12 + 1, 1).
Proof. intros H. unfold month_start. apply ymd_of_ord_of_ymd, month_ym_valid; lia. Qed.

Lemma ymd_month_end id :
  MINID <= id ->
  ymd_of_ord (month_end id) =
  (1970 + id / 12, id mod 12 + 1, days_in_month (1970 + id / 12) (id mod 12 + 1)).
Proof.
  intros H. rewrite month_end_eq. apply ymd_of_ord_of_ymd.
  pose proof (month_ym_valid id 1 H ltac:(lia)) as [V1 [V2 _]].
  pose proof (days_in_month_bounds (1970 + id / 12) (id mod 12 + 1)).
  unfold valid_ymd. lia.
Qed.

Theorem month_id_month_start id : MINID <= id -> month_id (month_start id) = id.
Proof. intros H. unfold month_id. rewrite ymd_month_start by auto. lia. Qed.
Theorem month_id_month_end id : MINID <= id -> month_id (month_end id) = id.
Proof. intros H. unfold month_id. rewrite ymd_month_end by auto. lia. Qed.

Lemma month_start_MINID : month_start MINID = 1.
Proof. reflexivity. Qed.
Lemma month_start_ge_1 id : MINID <= id -> 1 <= month_start id.
Proof. intros H. rewrite <- month_start_MINID. now apply month_start_mono. Qed.

(* the month of an ordinal *)
Lemma month_id_spec o :
  1 <= o ->
  let id := month_id o in
  MINID <= id /\ 1970 + id / 12 = year_of o /\ id mod 12 + 1 = month_of o
  /\ o = month_start id + day_of o - 1 /\ 1 <= day_of o <= days_in_month (year_of o) (month_of o).
Proof.
  intros H. pose proof (ymd_of_ord_spec o H) as K.
  unfold month_id, year_of, month_of, day_of, month_start, MINID.
  destruct (ymd_of_ord o) as [[y m] d]. destruct K as [[V1 [V2 V3]] E]. cbv zeta.
  assert (E1 : (12 * (y - 1970) + m - 1) / 12 = y - 1970) by lia.
  assert (E2 : (12 * (y - 1970) + m - 1) mod 12 = m - 1) by lia.
  rewrite E1, E2. replace (1970 + (y - 1970)) with y by lia. replace (m - 1 + 1) with m by lia.
  rewrite (ord_of_ymd_day y m d) in E. repeat split; lia.
Qed.

Theorem month_id_ge_MINID o : 1 <= o -> MINID <= month_id o.
Proof. intros H. apply (month_id_spec o H). Qed.

Theorem month_bracket o : 1 <= o -> month_start (month_id o) <= o <= month_end (month_id o).
Proof.
  intros H. destruct (month_id_spec o H) as [M [Y [Mo [E D]]]]. cbv zeta in *.
  rewrite month_end_eq, Y, Mo, ord_of_ymd_day.
  change (ord_of_ymd (year_of o) (month_of o) 1) with (ord_of_ymd (year_of o) (month_of o) 1).
  assert (S : month_start (month_id o) = ord_of_ymd (year_of o) (month_of o) 1)
    by (unfold month_start; now rewrite Y, Mo).
  lia.
Qed.

(* an ordinal inside the bracket of a month has that month id *)
Theorem month_id_unique o id :
  MINID <= id -> month_start id <= o <= month_end id -> month_id o = id.
Proof.
  intros H B. pose proof (month_start_ge_1 id H).
  assert (Ho : 1 <= o) by lia. pose proof (month_bracket o Ho) as B'.
  destruct (Z.lt_trichotomy (month_id o) id) as [L|[E|L]]; auto; exfalso.
  - assert (month_start (month_id o + 1) <= month_start id) by (apply month_start_mono; lia).
    pose proof (month_end_succ (month_id o)). lia.
  - assert (month_start (id + 1) <= month_start (month_id o)) by (apply month_start_mono; lia).
    pose proof (month_end_succ id). lia.
Qed.

Theorem month_id_mono o1 o2 : 1 <= o1 -> o1 <= o2 -> month_id o1 <= month_id o2.
Proof.
  intros H1 H2. pose proof (month_bracket o1 H1). pose proof (month_bracket o2 ltac:(lia)).
  destruct (Z_le_gt_dec (month_id o1) (month_id o2)); auto. exfalso.
  assert (month_start (month_id o2 + 1) <= month_start (month_id o1)) by (apply month_start_mono; lia).
  pose proof (month_end_succ (month_id o2)). lia.
Qed.

Lemma day_of_month_start id : MINID <= id -> day_of (month_start id) = 1.
Proof. intros H. unfold day_of. now rewrite ymd_month_start. Qed.

Theorem is_month_start_month_start id : MINID <= id -> is_month_start (month_start id) = true.
Proof. intros H. unfold is_month_start. rewrite day_of_month_start by auto. reflexivity. Qed.
Theorem is_month_end_month_end id : MINID <= id -> is_month_end (month_end id) = true.
Proof.
  intros H. unfold is_month_end. rewrite month_end_succ, day_of_month_start by lia. reflexivity.
Qed.

Theorem is_month_start_iff o : 1 <= o -> (is_month_start o = true <-> o = month_start (month_id o)).
Proof.
  intros H. destruct (month_id_spec o H) as [M [_ [_ [E _]]]]. cbv zeta in *.
  unfold is_month_start. split.
  - intros D. lia.
  - intros E'. rewrite E'. rewrite day_of_month_start by auto. reflexivity.
Qed.

Theorem is_month_end_iff o : 1 <= o -> (is_month_end o = true <-> o = month_end (month_id o)).
Proof.
  intros H. split.
  - intros D. unfold is_month_end in D.
    assert (H1 : 1 <= o + 1) by lia.
    pose proof (proj1 (is_month_start_iff (o + 1) H1)) as S. unfold is_month_start in S.
    specialize (S D). pose proof (month_id_ge_MINID (o + 1) H1) as M.
    set (id' := month_id (o + 1)) in *.
    assert (id' <> MINID).
    { intros E. rewrite E, month_start_MINID in S. lia. }
    assert (Eo : o = month_end (id' - 1)).
    { pose proof (month_end_succ (id' - 1)) as Q. replace (id' - 1 + 1) with id' in Q by lia. lia. }
    rewrite Eo at 2. rewrite month_id_month_end by lia. exact Eo.
  - intros E. rewrite E. apply is_month_end_month_end. now apply month_id_ge_MINID.
Qed.

Lemma is_month_end_month_start id : MINID <= id -> is_month_end (month_start id) = false.
Proof.
  intros H. unfold is_month_end, day_of, month_start.
  replace (ord_of_ymd (1970 + id / 12) (id mod 12 + 1) 1 + 1)
    with (ord_of_ymd (1970 + id / 12) (id mod 12 + 1) 2) by (unfold ord_of_ymd; lia).
  rewrite ymd_of_ord_of_ymd by (apply month_ym_valid; lia). reflexivity.
Qed.

(* ------------------------------------------------------------------ 3. addm, lags, period length *)
Theorem addm_month_end id k :
  MINID <= id -> addm (month_end id) k = month_end (id + k).
Proof.
  intros H. unfold addm. rewrite is_month_end_month_end, month_id_month_end by auto. reflexivity.
Qed.

Theorem addm_month_start id k :
  MINID <= id -> addm (month_start id) k = month_start (id + k).
Proof.
  intros H. unfold addm.
  rewrite is_month_end_month_start, month_id_month_start, day_of_month_start by auto.
  pose proof (days_in_month_bounds (1970 + (id + k) / 12) ((id + k) mod 12 + 1)).
  rewrite Z.min_l by lia. reflexivity.
Qed.

Definition month_aligned (o : Z) : Prop :=
  exists id, MINID <= id /\ (o = month_start id \/ o = month_end id).

Lemma month_aligned_b o :
  1 <= o -> (is_month_start o || is_month_end o = true <-> month_aligned o).
Proof.
  intros H. pose proof (month_id_ge_MINID o H). rewrite orb_true_iff, is_month_start_iff, is_month_end_iff by auto.
  split.
  - intros [E|E]; exists (month_id o); auto.
  - intros [id [M [E|E]]]; [left|right]; rewrite E at 2.
    + now rewrite month_id_month_start.
    + now rewrite month_id_month_end.
Qed.

Theorem addm_additive o k1 k2 :
  month_aligned o -> MINID <= month_id o + k1 ->
  addm (addm o k1) k2 = addm o (k1 + k2).
Proof.
  intros [id [M [ -> | -> ]]] H.
  - rewrite month_id_month_start in H by auto.
    rewrite !addm_month_start by auto. f_equal. lia.
  - rewrite month_id_month_end in H by auto.
    rewrite !addm_month_end by auto. f_equal. lia.
Qed.

Theorem addm_inverse o k :
  month_aligned o -> MINID <= month_id o + k -> addm (addm o k) (- k) = o.
Proof.
  intros A H. rewrite addm_additive by auto. destruct A as [id [M [ -> | -> ]]].
  - rewrite addm_month_start by auto. f_equal. lia.
  - rewrite addm_month_end by auto. f_equal. lia.
Qed.

Theorem addm_zero o : month_aligned o -> addm o 0 = o.
Proof.
  intros [id [M [ -> | -> ]]]; [rewrite addm_month_start | rewrite addm_month_end]; auto; f_equal; lia.
Qed.

Theorem lag_months_month_ends a b :
  MINID <= a -> MINID <= b -> lag_months (month_end a) (month_end b) = b - a.
Proof. intros Ha Hb. unfold lag_months. now rewrite !month_id_month_end. Qed.

Theorem period_length_aligned a b :
  MINID <= a -> MINID <= b -> period_length (month_start a) (month_end b) = b - a + 1.
Proof. intros Ha Hb. unfold period_length. now rewrite month_id_month_start, month_id_month_end. Qed.

(* Python's date range: ordinals 1 .. 3652059 (9999-12-31), month ids MINID .. 96359 *)
Lemma python_date_range :
  ymd_of_ord 1 = (1, 1, 1) /\ ymd_of_ord 3652059 = (9999, 12, 31)
  /\ month_id 1 = MINID /\ month_id 3652059 = 96359 /\ month_end 96359 = 3652059.
Proof. repeat split; reflexivity. Qed.

Print Assumptions ymd_of_ord_spec.
Print Assumptions ymd_of_ord_of_ymd.
Print Assumptions month_id_month_start.
Print Assumptions month_id_month_end.
Print Assumptions month_start_strict_mono.
Print Assumptions month_bracket.
Print Assumptions month_id_unique.
Print Assumptions is_month_end_iff.
Print Assumptions is_month_start_iff.
Print Assumptions addm_month_end.
Print Assumptions addm_month_start.
Print Assumptions addm_additive.
Print Assumptions addm_inverse.
Print Assumptions lag_months_month_ends.
Print Assumptions period_length_aligned.
