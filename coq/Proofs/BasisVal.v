(** C04 helper lemmas 2: value arithmetic and the two dict combinators. *)
From Coq Require Import ZArith List Bool Lia.
From Bermuda Require Import Model.Base Model.Basis Proofs.BasisEq.
Import ListNotations.
Local Open Scope Z_scope.

(* ---------------------------------------------------------------- arrays *)
Lemma zmap2_length f xs ys : length xs = length ys -> length (zmap2 f xs ys) = length xs.
Proof.
  revert ys; induction xs as [|x xs IH]; destruct ys; simpl; intros H; try discriminate; auto.
Qed.
Lemma zmap2_add_sub xs ys : length xs = length ys -> zmap2 Z.add xs (zmap2 Z.sub ys xs) = ys.
Proof.
  revert ys; induction xs as [|x xs IH]; destruct ys; simpl; intros H; try discriminate; auto.
  f_equal; [lia | auto].
Qed.
Lemma zmap2_sub_add xs ys : length xs = length ys -> zmap2 Z.sub (zmap2 Z.add xs ys) xs = ys.
Proof.
  revert ys; induction xs as [|x xs IH]; destruct ys; simpl; intros H; try discriminate; auto.
  f_equal; [lia | auto].
Qed.
Lemma arr_op_eqlen f xs ys : length xs = length ys -> arr_op f xs ys = Ok (zmap2 f xs ys).
Proof. intros H. unfold arr_op. rewrite H, Nat.eqb_refl. reflexivity. Qed.

(* ---------------------------------------------------------------- shapes *)
Definition vshape (v : value) : option (bool * option nat) :=
  match v with
  | VNum x => Some (num_isf x, None)
  | VArr f xs => Some (f, Some (length xs))
  | VNone => None
  end.

Lemma val_compatb_shape m a a' b : vshape a = vshape a' -> val_compatb m a b = val_compatb m a' b.
Proof.
  destruct a as [[f n]| |f xs], a' as [[f' n']| |f' xs']; simpl; intros H; try discriminate; auto.
  - injection H as ->. reflexivity.
  - injection H as -> L. destruct b; auto. now rewrite L.
Qed.

Lemma implb_or a b : implb a b = true -> a || b = b.
Proof. destruct a, b; simpl; auto. Qed.

(* next - prev, then prev + that = next *)
Lemma val_sub_add p n :
  val_compatb true p n = true ->
  exists dv, val_sub n p = Ok dv /\ val_add p dv = Ok n.
Proof.
  destruct p as [[f a]| |f xs], n as [[g b]| |g ys]; simpl; intros H; try discriminate.
  - eexists; split; [reflexivity|]. unfold val_add; simpl.
    apply implb_or in H. do 3 f_equal.
    + rewrite (orb_comm g f), orb_assoc, orb_diag. exact H.
    + lia.
  - apply andb_true_iff in H as [H L]. apply Nat.eqb_eq in L. apply implb_or in H.
    unfold val_sub, val_add; simpl. rewrite (arr_op_eqlen _ ys xs) by auto; simpl.
    eexists; split; [reflexivity|]. simpl.
    rewrite arr_op_eqlen by (rewrite zmap2_length; auto). simpl.
    rewrite zmap2_add_sub by auto. do 2 f_equal.
    rewrite (orb_comm g f), orb_assoc, orb_diag. exact H.
Qed.

(* cur + inc, then that - cur = inc; the sum has the shape of inc *)
Lemma val_add_sub c x :
  val_compatb true c x = true ->
  exists s, val_add c x = Ok s /\ val_sub s c = Ok x /\ vshape s = vshape x.
Proof.
  destruct c as [[f a]| |f xs], x as [[g b]| |g ys]; simpl; intros H; try discriminate.
  - eexists; split; [reflexivity|]. apply implb_or in H. split.
    + unfold val_sub; simpl. do 3 f_equal.
      * rewrite <- orb_assoc, (orb_comm g f), orb_assoc, orb_diag. exact H.
      * lia.
    + simpl. now rewrite H.
  - apply andb_true_iff in H as [H L]. apply Nat.eqb_eq in L. apply implb_or in H.
    unfold val_sub, val_add; simpl. rewrite (arr_op_eqlen _ xs ys) by auto; simpl.
    eexists; split; [reflexivity|]. simpl.
    rewrite arr_op_eqlen by (rewrite zmap2_length; auto). simpl.
    rewrite zmap2_sub_add by auto. split.
    + do 2 f_equal. rewrite <- orb_assoc, (orb_comm g f), orb_assoc, orb_diag. exact H.
    + rewrite H, zmap2_length by auto. now rewrite L.
Qed.

(* the difference is defined (and keeps the shape class) under the weak compatibility *)
Lemma val_sub_defined p n :
  val_compatb false p n = true -> exists dv, val_sub n p = Ok dv.
Proof.
  destruct p as [[f a]| |f xs], n as [[g b]| |g ys]; simpl; intros H; try discriminate.
  - eexists; reflexivity.
  - apply Nat.eqb_eq in H. unfold val_sub; simpl. rewrite (arr_op_eqlen _ ys xs) by auto.
    eexists; reflexivity.
Qed.

Lemma val_compatb_weaken p n : val_compatb true p n = true -> val_compatb false p n = true.
Proof.
  destruct p as [[f a]| |f xs], n as [[g b]| |g ys]; simpl; intros H; try discriminate; auto.
  apply andb_true_iff in H as [_ H]; exact H.
Qed.

(* ---------------------------------------------------------------- dict combinators, pointwise *)
Definition comb1 (carry : str) (op : value -> value -> result value) (k : str) (a b : value)
  : result (str * value) :=
  if str_eqb k carry then Ok (k, b) else bind (op a b) (fun v => Ok (k, v)).

Fixpoint zipM (carry : str) (op : value -> value -> result value)
         (p n : list (str * value)) : result (list (str * value)) :=
  match p, n with
  | [], [] => Ok []
  | (k, a) :: p', (_, b) :: n' =>
      bind (comb1 carry op k a b) (fun kv => bind (zipM carry op p' n') (fun r => Ok (kv :: r)))
  | _, _ => Err KeyError
  end.

Lemma assoc_In_nodup {V} k (v : V) l : NoDup (keys l) -> In (k, v) l -> assoc k l = Some v.
Proof.
  induction l as [|[k' v'] l IH]; simpl; [tauto|]. intros ND [E|H].
  - inversion E; subst. now rewrite str_eqb_refl.
  - inversion ND; subst. destruct (str_eqb k k') eqn:E.
    + apply str_eqb_eq in E; subst. exfalso. apply H2.
      change (In (fst (k', v)) (map fst l)). now apply in_map.
    + auto.
Qed.

Lemma mapM_zip carry op N : forall p n,
  keys p = keys n -> (forall k v, In (k, v) n -> assoc k N = Some v) ->
  mapM (fun kv => match assoc (fst kv) N with
                  | None => Err KeyError
                  | Some s => if str_eqb (fst kv) carry then Ok (fst kv, s)
                              else bind (op (snd kv) s) (fun v => Ok (fst kv, v))
                  end) p = zipM carry op p n.
Proof.
  induction p as [|[k a] p IH]; destruct n as [|[k' b] n]; simpl; intros K H; try discriminate; auto.
  inversion K; subst k'. rewrite (H k b) by auto. unfold comb1.
  rewrite (IH n) by auto. reflexivity.
Qed.

Lemma values_combine_zip carry op p n :
  keys p = keys n -> NoDup (keys n) -> values_combine carry op p n = zipM carry op p n.
Proof.
  intros K ND. unfold values_combine.
  rewrite (subset_keys_same p n K), (subset_keys_same n p (eq_sym K)). simpl.
  apply mapM_zip; auto. intros k v H. now apply assoc_In_nodup.
Qed.

Lemma vals_compatb_keys m carry p n : vals_compatb m carry p n = true -> keys p = keys n.
Proof.
  revert n; induction p as [|[k a] p IH]; destruct n as [|[k' b] n]; simpl; intros H;
    try discriminate; auto.
  apply andb_true_iff in H as [H H3]. apply andb_true_iff in H as [H1 _].
  apply str_eqb_eq in H1; subst. f_equal. now apply IH.
Qed.

Lemma vals_compatb_weaken carry p n :
  vals_compatb true carry p n = true -> vals_compatb false carry p n = true.
Proof.
  revert n; induction p as [|[k a] p IH]; destruct n as [|[k' b] n]; simpl; intros H; auto.
  apply andb_true_iff in H as [H H3]. apply andb_true_iff in H as [H1 H2].
  rewrite H1, (IH _ H3). simpl. rewrite andb_true_r.
  apply orb_true_iff in H2 as [H2|H2]; [now rewrite H2|].
  rewrite (val_compatb_weaken _ _ H2). apply orb_true_r.
Qed.

Definition kshape (kv : str * value) := (fst kv, vshape (snd kv)).

Lemma vals_compatb_shape m carry a a' b :
  map kshape a = map kshape a' -> vals_compatb m carry a b = vals_compatb m carry a' b.
Proof.
  revert a' b; induction a as [|[k x] a IH]; destruct a' as [|[k' x'] a']; simpl; intros b H;
    try discriminate; auto.
  inversion H; subst. destruct b as [|[kb y] b]; auto.
  rewrite (val_compatb_shape m x x' y H2), (IH a' b H3). reflexivity.
Qed.

Lemma zipM_cons carry op k a p k' b n :
  zipM carry op ((k, a) :: p) ((k', b) :: n) =
  bind (comb1 carry op k a b) (fun kv => bind (zipM carry op p n) (fun r => Ok (kv :: r))).
Proof. reflexivity. Qed.
Lemma comb1_carry carry op k a b : str_eqb k carry = true -> comb1 carry op k a b = Ok (k, b).
Proof. unfold comb1. now intros ->. Qed.
Lemma comb1_op carry op k a b :
  str_eqb k carry = false -> comb1 carry op k a b = bind (op a b) (fun v => Ok (k, v)).
Proof. unfold comb1. now intros ->. Qed.
Lemma vals_compatb_cons m carry k a p k' b n :
  vals_compatb m carry ((k, a) :: p) ((k', b) :: n) = true ->
  k = k' /\ (str_eqb k carry = true \/ str_eqb k carry = false /\ val_compatb m a b = true)
  /\ vals_compatb m carry p n = true.
Proof.
  cbn [vals_compatb]. intros H.
  apply andb_true_iff in H as [H H3]. apply andb_true_iff in H as [H1 H2].
  apply str_eqb_eq in H1. repeat split; auto.
  destruct (str_eqb k carry); auto.
Qed.

(* dict level: next - prev, then prev + that *)
Lemma zip_sub_add carry p n :
  vals_compatb true carry p n = true ->
  exists dv, zipM carry (fun a b => val_sub b a) p n = Ok dv
             /\ zipM carry val_add p dv = Ok n /\ keys dv = keys p.
Proof.
  revert n; induction p as [|[k a] p IH]; destruct n as [|[k' b] n]; intros H;
    try discriminate.
  - exists []; auto.
  - apply vals_compatb_cons in H as [<- [H2 H3]].
    destruct (IH _ H3) as [dv [E1 [E2 E3]]]. rewrite zipM_cons.
    destruct H2 as [C|[C H2]].
    + rewrite comb1_carry, E1 by auto. cbn [bind]. eexists; split; [reflexivity|].
      rewrite zipM_cons, comb1_carry, E2 by auto. cbn [bind]. split; [reflexivity|].
      cbn [keys map fst]. f_equal. exact E3.
    + destruct (val_sub_add _ _ H2) as [v [V1 V2]].
      rewrite comb1_op, V1, E1 by auto. cbn [bind]. eexists; split; [reflexivity|].
      rewrite zipM_cons, comb1_op, V2, E2 by auto. cbn [bind]. split; [reflexivity|].
      cbn [keys map fst]. f_equal. exact E3.
Qed.

(* dict level: the difference is defined under the weak compatibility *)
Lemma zip_sub_defined carry p n :
  vals_compatb false carry p n = true ->
  exists dv, zipM carry (fun a b => val_sub b a) p n = Ok dv /\ keys dv = keys p.
Proof.
  revert n; induction p as [|[k a] p IH]; destruct n as [|[k' b] n]; intros H;
    try discriminate.
  - exists []; auto.
  - apply vals_compatb_cons in H as [<- [H2 H3]].
    destruct (IH _ H3) as [dv [E1 E3]]. rewrite zipM_cons.
    destruct H2 as [C|[C H2]].
    + rewrite comb1_carry, E1 by auto. cbn [bind]. eexists; split; [reflexivity|].
      cbn [keys map fst]. f_equal. exact E3.
    + destruct (val_sub_defined _ _ H2) as [v V1].
      rewrite comb1_op, V1, E1 by auto. cbn [bind]. eexists; split; [reflexivity|].
      cbn [keys map fst]. f_equal. exact E3.
Qed.

(* dict level: cur + inc, then that - cur *)
Lemma zip_add_sub carry c x :
  vals_compatb true carry c x = true ->
  exists s, zipM carry val_add c x = Ok s
            /\ zipM carry (fun a b => val_sub b a) c s = Ok x
            /\ map kshape s = map kshape x /\ keys s = keys c.
Proof.
  revert x; induction c as [|[k a] c IH]; destruct x as [|[k' b] x]; intros H;
    try discriminate.
  - exists []; auto.
  - apply vals_compatb_cons in H as [<- [H2 H3]].
    destruct (IH _ H3) as [s [E1 [E2 [E3 E4]]]]. rewrite zipM_cons.
    destruct H2 as [C|[C H2]].
    + rewrite comb1_carry, E1 by auto. cbn [bind]. eexists; split; [reflexivity|].
      rewrite zipM_cons, comb1_carry, E2 by auto. cbn [bind]. split; [reflexivity|].
      cbn [keys map fst]. split; f_equal; assumption.
    + destruct (val_add_sub _ _ H2) as [v [V1 [V2 V3]]].
      rewrite comb1_op, V1, E1 by auto. cbn [bind]. eexists; split; [reflexivity|].
      rewrite zipM_cons, comb1_op, V2, E2 by auto. cbn [bind]. split; [reflexivity|].
      cbn [keys map fst]. split; f_equal; try assumption.
      unfold kshape. cbn [fst snd]. now rewrite V3.
Qed.

(* refusal: different key sets *)
Lemma values_combine_keys_differ carry op p n :
  keyset_eqb p n = false -> values_combine carry op p n = Err TriangleError.
Proof. unfold keyset_eqb, values_combine. now intros ->. Qed.
