(** C01 / C02 / C11 (round 8/9): the ORDER in which a Metadata's details / loss_details dict was written is
    invisible to Metadata's `<`, `==` and to the canonical sort key (a dict with another insertion order is what
    derive_metadata, merge and the readers hand out). *)
From Coq Require Import ZArith List Bool Lia Sorted Permutation.
From Bermuda Require Import Model.Base Model.Order Model.Accessors Proofs.EqP Proofs.Accessors Proofs.AccessorsOrder.
Import ListNotations.

Lemma perm_keys {V} (d d' : list (str * V)) : Permutation d d' -> Permutation (keys d) (keys d').
Proof. intros P. unfold keys. now apply Permutation_map. Qed.

Lemma assoc_perm {V} (d d' : list (str * V)) k :
  Permutation d d' -> NoDup (keys d) -> assoc k d' = assoc k d.
Proof.
  intros P N.
  assert (N' : NoDup (keys d')) by (eapply Permutation_NoDup; [apply perm_keys; exact P|exact N]).
  destruct (assoc k d) as [v|] eqn:E.
  - apply assoc_In in E. apply In_assoc; [exact N'|]. eapply Permutation_in; eauto.
  - destruct (assoc k d') as [v|] eqn:E'; [|reflexivity].
    apply assoc_In in E'. apply (Permutation_in _ (Permutation_sym P)) in E'.
    apply (In_assoc _ _ _ N) in E'. congruence.
Qed.

Lemma sort_items_perm d d' : Permutation d d' -> NoDup (keys d) -> sort_items d' = sort_items d.
Proof.
  intros P N.
  assert (N' : NoDup (keys d')) by (eapply Permutation_NoDup; [apply perm_keys; exact P|exact N]).
  apply dict_pyeq_sort_items; [exact N'|exact N|].
  apply dict_pyeq_spec. intros k. rewrite (assoc_perm d d' k P N).
  destruct (assoc k d) as [v|]; cbn; [apply mval_pyeq_refl|reflexivity].
Qed.

Definition respelled (a b : meta) : Prop :=
  risk_basis a = risk_basis b /\ country a = country b /\ currency a = currency b /\
  reinsurance_basis a = reinsurance_basis b /\ loss_definition a = loss_definition b /\
  per_occurrence_limit a = per_occurrence_limit b /\
  Permutation (details b) (details a) /\ Permutation (loss_details b) (loss_details a) /\
  NoDup (keys (details b)) /\ NoDup (keys (loss_details b)).

Lemma canonical_key_respelled a b : respelled a b -> canonical_key a = canonical_key b.
Proof.
  intros (E1 & E2 & E3 & E4 & E5 & E6 & P1 & P2 & N1 & N2). unfold canonical_key.
  rewrite E1, E2, E3, E4, E5, E6, (sort_items_perm _ _ P1 N1), (sort_items_perm _ _ P2 N2). reflexivity.
Qed.
