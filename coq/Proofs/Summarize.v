(** Lemmas about Model/Summarize.v (property C09).  Everything holds for EVERY rule table, every
    NON_LOSS list and every weighted-average oracle; the hypotheses about particular keys
    ([lookup_rule rules k = Some (RSum k)]) are discharged for the generated table through
    [table_ok] in GenProps/C09_rules.v. *)
From Coq Require Import ZArith List Bool Lia ZifyBool.
From Bermuda Require Import Model.Base Model.Summarize Proofs.SummarizeLib.
Import ListNotations.
Local Open Scope Z_scope.

(* ------------------------------------------------------------------ small facts *)
Lemma nodup_str_In k l : In k (nodup_str l) <-> In k l.
Proof.
  induction l as [|x l IH]; cbn [nodup_str]; [reflexivity|]. cbn [In]. rewrite filter_In, IH.
  destruct (str_eqb k x) eqn:E.
  - apply str_eqb_eq in E. subst. cbn. intuition congruence.
  - apply str_eqb_neq in E. cbn. intuition congruence.
Qed.
Lemma NoDup_filter {X} (p : X -> bool) l : NoDup l -> NoDup (filter p l).
Proof.
  induction 1 as [|x l Hni Hnd IH]; cbn [filter]; [constructor|].
  destruct (p x); [constructor; [|exact IH]|exact IH]. rewrite filter_In. tauto.
Qed.
Lemma NoDup_app_intro {X} (a b : list X) :
  NoDup a -> NoDup b -> (forall x, In x a -> ~ In x b) -> NoDup (a ++ b).
Proof.
  induction 1 as [|x a Hni Hnd IH]; intros Hb Hd; cbn [app]; [exact Hb|]. constructor.
  - rewrite in_app_iff. intros [H|H]; [contradiction|]. apply (Hd x); [now left | exact H].
  - apply IH; [exact Hb|]. intros y Hy. apply Hd. now right.
Qed.
Lemma nodup_str_NoDup l : NoDup (nodup_str l).
Proof.
  induction l as [|x l IH]; cbn [nodup_str]; constructor.
  - rewrite filter_In. intros [_ H]. now rewrite str_eqb_refl in H.
  - now apply NoDup_filter.
Qed.
Lemma union_keys_In k cells : In k (union_keys cells) <-> exists c, In c cells /\ In k (keys (cvals c)).
Proof. unfold union_keys. rewrite nodup_str_In, in_flat_map. reflexivity. Qed.
Lemma getv_absent k c : ~ In k (keys (cvals c)) -> getv k c = VNone.
Proof. intros H. unfold getv. apply assoc_None_keys in H. now rewrite H. Qed.

Lemma Forall2_map_eq {X Y Z} (R : X -> Y -> Prop) (F : X -> Z) (G : Y -> Z) l out :
  Forall2 R l out -> (forall a b, In a l -> R a b -> G b = F a) -> map G out = map F l.
Proof.
  induction 1 as [|a b l out Hab H IH]; intros HR; [reflexivity|]. cbn [map]. f_equal.
  - apply HR; [now left | exact Hab].
  - apply IH. intros a' b' Ha'. apply HR. now right.
Qed.

Lemma Forall2_weaken {X Y} (R S : X -> Y -> Prop) l out :
  (forall a b, R a b -> S a b) -> Forall2 R l out -> Forall2 S l out.
Proof. intros H. induction 1; constructor; auto. Qed.

Section Thms.
  Variable wavg : transform -> list value -> list value -> result value.
  Variable rules : rule_table.
  Variable nl : list str.

  Notation scv := (summarize_cell_values wavg rules nl).
  Notation summ := (summarize wavg rules nl).
  Notation lookup := (lookup_rule rules).

  (* ---------------------------------------------------------------- summarize_cell_values *)
  Lemma eval_key_fst vk g k kv : eval_key wavg rules vk g k = Ok kv -> fst kv = k.
  Proof.
    unfold eval_key. destruct (lookup k); [|discriminate].
    destruct (eval_rule wavg r vk g); cbn [bind]; [|discriminate]. intros H. now inversion H.
  Qed.
  Lemma map_result_keys {X} (f : str -> result (str * X)) ks out :
    (forall k kv, f k = Ok kv -> fst kv = k) -> map_result f ks = Ok out -> keys out = ks.
  Proof.
    intros Hf H. apply map_result_Ok in H. unfold keys.
    rewrite (Forall2_map_eq _ (fun k => k) fst _ _ H); [apply map_id|]. intros a b _. apply Hf.
  Qed.

  (* refusal: a key without a rule *)
  Theorem scv_unregistered prem g k :
    In k (union_keys g) -> lookup k = None -> scv prem g = Err TriangleError.
  Proof.
    intros Hin Hl. unfold summarize_cell_values.
    assert (keys_registered rules (union_keys g) = false) as ->; [|reflexivity].
    unfold keys_registered. apply not_true_is_false. intros H. rewrite forallb_forall in H.
    specialize (H k Hin). now rewrite Hl in H.
  Qed.

  (* what an entry of the result is, all fields summarised (summarize_premium=True) *)
  Lemma scv_true_entry g vals :
    scv true g = Ok vals ->
    keys vals = union_keys g /\
    forall k v, In (k, v) vals ->
      exists r, lookup k = Some r /\ eval_rule wavg r (union_keys g) g = Ok v.
  Proof.
    unfold summarize_cell_values. destruct (negb (keys_registered rules (union_keys g))); [discriminate|].
    intros H. split.
    - eapply map_result_keys; [|exact H]. apply eval_key_fst.
    - intros k v Hin. apply map_result_Ok in H.
      destruct (Forall2_In_r _ _ _ _ H Hin) as (k' & _ & E).
      pose proof (eval_key_fst _ _ _ _ E) as Ek. cbn [fst] in Ek. subst k'.
      unfold eval_key in E. destruct (lookup k) as [r|]; [|discriminate]. exists r. split; [reflexivity|].
      destruct (eval_rule wavg r (union_keys g) g); cbn [bind] in E; [|discriminate]. now inversion E.
  Qed.

  Lemma first_distinct c r : non_loss_distinct_indices (c :: r) = O :: distinct_idx_from 1 [cmeta c] r.
  Proof. reflexivity. Qed.
  Lemma select_first k c r :
    select_idx_from O (non_loss_distinct_indices (c :: r)) (raw k (c :: r))
    = getv k c :: select_idx_from 1 (non_loss_distinct_indices (c :: r)) (raw k r).
  Proof. rewrite first_distinct. reflexivity. Qed.

  (* summarize_premium=False: loss keys as above, NON_LOSS keys copy the first cell of the group *)
  Lemma scv_false_entry c g vals :
    scv false (c :: g) = Ok vals ->
    let vk := union_keys (c :: g) in
    keys vals = filter (fun k => negb (mem_str k nl)) vk ++ filter (fun k => mem_str k nl) vk /\
    forall k v, In (k, v) vals ->
      (mem_str k nl = false /\ exists r, lookup k = Some r /\ eval_rule wavg r vk (c :: g) = Ok v)
      \/ (mem_str k nl = true /\ v = getv k c).
  Proof.
    unfold summarize_cell_values.
    destruct (negb (keys_registered rules (union_keys (c :: g)))); [discriminate|].
    set (vk := union_keys (c :: g)).
    destruct (map_result (eval_key wavg rules vk (c :: g)) (filter (fun k => negb (mem_str k nl)) vk))
      as [loss|] eqn:EL; cbn [bind]; [|discriminate].
    match goal with |- context [map_result ?f (filter (fun k => mem_str k nl) vk)] => set (fn := f) end.
    destruct (map_result fn (filter (fun k => mem_str k nl) vk)) as [nonloss|] eqn:EN; cbn [bind]; [|discriminate].
    intros H. inversion H. subst vals. clear H.
    assert (Hfn : forall k kv, fn k = Ok kv -> kv = (k, getv k c)).
    { intros k kv. unfold fn. rewrite select_first. intros E. now inversion E. }
    split.
    - unfold keys. rewrite map_app. f_equal.
      + eapply map_result_keys; [|exact EL]. apply eval_key_fst.
      + eapply map_result_keys; [|exact EN]. intros k kv E. now rewrite (Hfn _ _ E).
    - intros k v Hin. apply in_app_or in Hin. destruct Hin as [Hin|Hin].
      + left. apply map_result_Ok in EL. destruct (Forall2_In_r _ _ _ _ EL Hin) as (k' & Hk' & E).
        pose proof (eval_key_fst _ _ _ _ E) as Ek. cbn [fst] in Ek. subst k'.
        apply filter_In in Hk'. destruct Hk' as [_ Hk']. apply negb_true_iff in Hk'. split; [exact Hk'|].
        unfold eval_key in E. destruct (lookup k) as [r|]; [|discriminate]. exists r. split; [reflexivity|].
        destruct (eval_rule wavg r vk (c :: g)); cbn [bind] in E; [|discriminate]. now inversion E.
      + right. apply map_result_Ok in EN. destruct (Forall2_In_r _ _ _ _ EN Hin) as (k' & Hk' & E).
        apply Hfn in E. inversion E. subst. apply filter_In in Hk'. tauto.
  Qed.

  (* a Sum rule bound to the key itself yields the conforming sum over the group *)
  Lemma eval_rule_sum vk g k v :
    In k vk -> eval_rule wavg (RSum k) vk g = Ok v -> conforming_sum (raw k g) = Ok v.
  Proof.
    intros Hin. cbn [eval_rule]. unfold vd. apply mem_str_In in Hin. rewrite Hin. cbn [bind]. auto.
  Qed.
  (* a weighted-average rule hands exactly (values of a, values of w) to the oracle *)
  Lemma eval_rule_wavg vk g a w tr v :
    eval_rule wavg (RWAvg a w tr) vk g = Ok v ->
    In a vk /\ In w vk /\ wavg tr (raw a g) (raw w g) = Ok v.
  Proof.
    cbn [eval_rule]. unfold vd. destruct (mem_str a vk) eqn:Ea; cbn [bind]; [|discriminate].
    destruct (mem_str w vk) eqn:Ew; cbn [bind]; [|discriminate].
    apply mem_str_In in Ea, Ew. auto.
  Qed.

  (* ---------------------------------------------------------------- summarize: structure *)
  Definition inc_of (t : list cell) := tri_is_incremental t.
  Definition prem_of (prem : bool) (t : list cell) := if inc_of t then true else prem.
  Definition out_rel (prem : bool) (t : list cell) (m : meta) (g : coord * list cell) (o : cell) : Prop :=
    exists vals, scv (prem_of prem t) (snd g) = Ok vals /\ o = summary_cell (inc_of t) m (fst g) vals.

  Lemma summarize_inv prem t out :
    summ prem t = Ok out ->
    exists m, metadata_gcd t = Ok m /\
      Forall2 (out_rel prem t m) (groupby coord_eqb (coord_of (inc_of t)) t) out.
  Proof.
    unfold summarize. destruct (metadata_gcd t) as [m|] eqn:Em; cbn [bind]; [|discriminate].
    intros H. exists m. split; [reflexivity|]. apply map_result_Ok in H.
    eapply Forall2_weaken; [|exact H]. intros g o. unfold out_rel, prem_of, inc_of.
    destruct (summarize_cell_values wavg rules nl _ (snd g)) as [vals|]; cbn [bind]; [|discriminate].
    intros E. exists vals. split; [reflexivity | now inversion E].
  Qed.

  Lemma coord_summary_cell inc m k vals :
    (inc = false -> snd k = None) -> coord_of inc (summary_cell inc m k vals) = k.
  Proof.
    destruct k as [[[s e] v] p]. cbn [snd]. intros H. unfold coord_of, summary_cell. cbn.
    destruct inc; [reflexivity|]. now rewrite H.
  Qed.
  Lemma coord_of_false_snd c : snd (coord_of false c) = None.
  Proof. reflexivity. Qed.

  Lemma group_key_shape t k g :
    In (k, g) (groupby coord_eqb (coord_of (inc_of t)) t) -> (inc_of t = false -> snd k = None).
  Proof.
    intros Hin Hf. apply (groupby_In coord_eqb _ coord_eqb_eq) in Hin. destruct Hin as [_ Hin].
    apply in_map_iff in Hin. destruct Hin as (c & <- & _). rewrite Hf. reflexivity.
  Qed.

  (* one output cell per distinct coordinate, in first-occurrence order *)
  Theorem summarize_coordinates prem t out :
    summ prem t = Ok out ->
    map (coord_of (inc_of t)) out = dedupe coord_eqb (map (coord_of (inc_of t)) t).
  Proof.
    intros H. destruct (summarize_inv _ _ _ H) as (m & _ & F).
    rewrite <- (groupby_keys coord_eqb (coord_of (inc_of t)) coord_eqb_eq).
    apply (Forall2_map_eq _ _ _ _ _ F). intros [k g] o Hin (vals & _ & ->). cbn [fst].
    apply coord_summary_cell. eapply group_key_shape. exact Hin.
  Qed.
  Corollary summarize_one_cell_per_coordinate prem t out :
    summ prem t = Ok out ->
    NoDup (map (coord_of (inc_of t)) out) /\
    (forall k, In k (map (coord_of (inc_of t)) out) <-> In k (map (coord_of (inc_of t)) t)).
  Proof.
    intros H. rewrite (summarize_coordinates _ _ _ H). split.
    - apply dedupe_NoDup. exact coord_eqb_eq.
    - intros k. apply dedupe_In. exact coord_eqb_eq.
  Qed.

  (* every output cell summarises exactly the input cells holding its coordinate *)
  Theorem summarize_cell prem t out o :
    summ prem t = Ok out -> In o out ->
    let g := group_of (inc_of t) (coord_of (inc_of t) o) t in
    g <> [] /\
    scv (prem_of prem t) g = Ok (cvals o) /\
    metadata_gcd t = Ok (cmeta o) /\
    ckind o = (if inc_of t then KInc else KCum) /\
    (inc_of t = false -> prev o = None).
  Proof.
    intros H Hin. destruct (summarize_inv _ _ _ H) as (m & Em & F).
    destruct (Forall2_In_r _ _ _ _ F Hin) as ([k g] & Hg & (vals & Ev & ->)). cbn [fst snd] in *.
    pose proof (group_key_shape _ _ _ Hg) as Hs.
    rewrite (coord_summary_cell _ _ _ _ Hs).
    destruct (groupby_In coord_eqb _ coord_eqb_eq _ _ _ Hg) as [-> Hk].
    change (group_of (inc_of t) k t) with (members coord_eqb (coord_of (inc_of t)) t k).
    split; [now apply members_nonempty; [exact coord_eqb_eq|]|].
    destruct k as [[[s e] v] p]. cbn. repeat split; auto.
    intros Hf. rewrite Hf. reflexivity.
  Qed.

  (* ---------------------------------------------------------------- additive fields are sums *)
  Theorem summarize_sums prem t out o k v :
    summ prem t = Ok out -> In o out -> In (k, v) (cvals o) ->
    lookup k = Some (RSum k) -> (prem_of prem t = true \/ mem_str k nl = false) ->
    conforming_sum (raw k (group_of (inc_of t) (coord_of (inc_of t) o) t)) = Ok v.
  Proof.
    intros H Hin Hkv Hl Hp. destruct (summarize_cell _ _ _ _ H Hin) as (Hne & Ev & _).
    set (g := group_of (inc_of t) (coord_of (inc_of t) o) t) in *.
    destruct (prem_of prem t) eqn:Ep.
    - destruct (scv_true_entry _ _ Ev) as [Ek Hall]. destruct (Hall _ _ Hkv) as (r & Er & Ee).
      rewrite Hl in Er. inversion Er. subst r. eapply eval_rule_sum; [|exact Ee].
      rewrite <- Ek. apply (in_map fst) in Hkv. exact Hkv.
    - destruct Hp as [Hp|Hp]; [discriminate|]. destruct g as [|c g'] eqn:Eg; [congruence|].
      destruct (scv_false_entry _ _ _ Ev) as [Ek Hall]. destruct (Hall _ _ Hkv) as [(_ & r & Er & Ee)|(Hn & _)].
      + rewrite Hl in Er. inversion Er. subst r. eapply eval_rule_sum; [|exact Ee].
        assert (In k (keys (cvals o))) as Hk by (apply (in_map fst) in Hkv; exact Hkv).
        rewrite Ek, in_app_iff, !filter_In in Hk. tauto.
      + congruence.
  Qed.

  (* ratio fields: the oracle receives the values of key a and of weight key w over the group *)
  Theorem summarize_wavg prem t out o k v a w tr :
    summ prem t = Ok out -> In o out -> In (k, v) (cvals o) ->
    lookup k = Some (RWAvg a w tr) -> (prem_of prem t = true \/ mem_str k nl = false) ->
    let g := group_of (inc_of t) (coord_of (inc_of t) o) t in
    wavg tr (raw a g) (raw w g) = Ok v.
  Proof.
    intros H Hin Hkv Hl Hp. destruct (summarize_cell _ _ _ _ H Hin) as (Hne & Ev & _).
    set (g := group_of (inc_of t) (coord_of (inc_of t) o) t) in *. cbv zeta.
    destruct (prem_of prem t) eqn:Ep.
    - destruct (scv_true_entry _ _ Ev) as [Ek Hall]. destruct (Hall _ _ Hkv) as (r & Er & Ee).
      rewrite Hl in Er. inversion Er. subst r. now apply eval_rule_wavg in Ee.
    - destruct Hp as [Hp|Hp]; [discriminate|]. destruct g as [|c g'] eqn:Eg; [congruence|].
      destruct (scv_false_entry _ _ _ Ev) as [Ek Hall]. destruct (Hall _ _ Hkv) as [(_ & r & Er & Ee)|(Hn & _)].
      + rewrite Hl in Er. inversion Er. subst r. now apply eval_rule_wavg in Ee.
      + congruence.
  Qed.

  (* the keys of an output cell are exactly the keys present in its group, each once *)
  Theorem summarize_keys prem t out o :
    summ prem t = Ok out -> In o out ->
    NoDup (keys (cvals o)) /\
    forall k, In k (keys (cvals o)) <-> In k (union_keys (group_of (inc_of t) (coord_of (inc_of t) o) t)).
  Proof.
    intros H Hin. destruct (summarize_cell _ _ _ _ H Hin) as (Hne & Ev & _).
    set (g := group_of (inc_of t) (coord_of (inc_of t) o) t) in *.
    destruct (prem_of prem t).
    - destruct (scv_true_entry _ _ Ev) as [-> _]. split; [apply nodup_str_NoDup | reflexivity].
    - destruct g as [|c g'] eqn:Eg; [congruence|].
      destruct (scv_false_entry _ _ _ Ev) as [-> _]. split.
      + apply NoDup_app_intro; try (apply NoDup_filter; apply nodup_str_NoDup).
        intros x. rewrite !filter_In. intros [_ A] [_ B]. rewrite B in A. discriminate.
      + intros k. rewrite in_app_iff, !filter_In. destruct (mem_str k nl); cbn [negb]; intuition congruence.
  Qed.
End Thms.
