(* Codec lemmas for the composite readers: dictionaries (the peek loop), metadata and cell
   records, the string pool, the marker loop, and the two top-level theorems
     parse_ser        (C05)  parse (ser t) = ROk t
     parse_prefix     (C19)  every strict prefix fails or yields a leading segment of the cells. *)
From Coq Require Import ZArith List Bool Lia ZifyBool.
From Bermuda Require Import Lib.Bytes Lib.BinParse Lib.Utf8 Lib.StrSort Model.Binary Proofs.BinaryPrim.
Import ListNotations.
Open Scope Z_scope.
Local Arguments le_enc : simpl never.

(* ------------------------------------------------------------------ structural equality is equality *)
Lemma zlist_eqb_eq a b : zlist_eqb a b = true -> a = b.
Proof.
  revert b; induction a; destruct b; simpl; intros H; try discriminate; auto.
  apply andb_true_iff in H as [H1 H2]. f_equal; [lia | auto].
Qed.
Lemma zlist_eqb_refl a : zlist_eqb a a = true.
Proof. induction a; simpl; auto. rewrite Z.eqb_refl. auto. Qed.
Lemma ostr_eqb_eq a b : ostr_eqb a b = true -> a = b.
Proof. destruct a, b; simpl; intros H; try discriminate; auto. f_equal. now apply zlist_eqb_eq. Qed.
Lemma date_eqb_eq a b : date_eqb a b = true -> a = b.
Proof.
  destruct a as [[y1 m1] d1], b as [[y2 m2] d2]. unfold date_eqb. intros H.
  repeat (apply andb_true_iff in H as [H ?]). repeat f_equal; lia.
Qed.
Lemma gval_eqb_eq a b : gval_eqb a b = true -> a = b.
Proof.
  destruct a, b; simpl; intros H; try discriminate; auto.
  - f_equal. now apply zlist_eqb_eq.
  - f_equal. now apply Bool.eqb_prop.
  - f_equal. lia.
  - f_equal. now apply zlist_eqb_eq.
  - f_equal. now apply date_eqb_eq.
  - repeat (apply andb_true_iff in H as [H ?]).
    f_equal; try (now apply zlist_eqb_eq). destruct dt, dt0; simpl in H; congruence.
Qed.
Lemma dict_eqb_eq a b : dict_eqb a b = true -> a = b.
Proof.
  revert b; induction a as [|[k1 v1] a IH]; destruct b as [|[k2 v2] b]; simpl; intros H;
    try discriminate; auto.
  repeat (apply andb_true_iff in H as [H ?]).
  f_equal; [f_equal; [now apply zlist_eqb_eq | now apply gval_eqb_eq] | auto].
Qed.
Lemma meta_eqb_eq a b : meta_eqb a b = true -> a = b.
Proof.
  destruct a, b. unfold meta_eqb. simpl. intros H.
  repeat (apply andb_true_iff in H as [H ?]).
  f_equal; try (now apply ostr_eqb_eq); now apply dict_eqb_eq.
Qed.
Lemma ometa_eqb_eq p m : ometa_eqb p m = true -> p = Some m.
Proof. destruct p; simpl; intros H; [f_equal; now apply meta_eqb_eq | discriminate]. Qed.

(* ------------------------------------------------------------------ dictionaries *)
Section Dict.
  Variable pool : list str.
  Hypothesis pool_small : Z.of_nat (length pool) <= 32767.
  Let rpool := map (@Some str) pool.

  (* what the codec needs of one entry: the key is in the pool, its index does not look like
     DICT_END, and the value is encodable *)
  Definition entry_ok (kv : str * gval) : Prop :=
    In (fst kv) pool /\ index_of (fst kv) pool mod 256 <> DICT_END /\ gvalb (snd kv) = true.

  Lemma pool_get_index k : In k pool -> pool_get rpool (index_of k pool) = ROk k.
  Proof.
    intros H. unfold pool_get, rpool. rewrite nth_error_map, index_of_nth by assumption. reflexivity.
  Qed.

  Lemma index_u16 k : In k pool -> 0 <= index_of k pool < 65536.
  Proof. intros H. pose proof (index_of_range _ _ H). lia. Qed.

  Definition entry_cont (fuel : nat) (acc : dict) (i : Z) : parser dict :=
    match pool_get rpool i with
    | RErr e => fail e
    | ROk k => bind dec_gval (fun v => dec_dict rpool fuel (dict_set acc k v))
    end.

  Lemma dec_dict_step fuel acc b r : b <> DICT_END ->
    dec_dict rpool (S fuel) acc (b :: r) = bind dec_u16 (entry_cont fuel acc) (b :: r).
  Proof.
    intros H. cbn [dec_dict]. destruct (Z.eqb_spec b DICT_END); [contradiction|reflexivity].
  Qed.

  Lemma dec_dict_eof fuel acc : Eof (dec_dict rpool fuel acc).
  Proof. destruct fuel; apply IsErr_Err. Qed.

  Lemma le_enc2_cons i : le_enc 2 i = (i mod 256) :: le_enc 1 (i / 256).
  Proof. reflexivity. Qed.

  Lemma dict_set_fresh acc k v :
    (forall kv, In kv acc -> fst kv <> k) -> dict_set acc k v = acc ++ [(k, v)].
  Proof.
    induction acc as [|[k' v'] acc IH]; intros H; [reflexivity|].
    cbn [dict_set app]. destruct (str_eqb k' k) eqn:E.
    - apply str_eqb_eq in E. exfalso. apply (H (k', v')); [now left | exact E].
    - f_equal. apply IH. intros kv Hin. apply H. now right.
  Qed.

  Definition keys_fresh (acc d : dict) : Prop :=
    forall kv kv', In kv acc -> In kv' d -> fst kv <> fst kv'.

  Lemma dict_rt_gen d : forall fuel acc k,
    Forall entry_ok d -> NoDup (dict_keys d) -> keys_fresh acc d -> (length d < fuel)%nat ->
    dec_dict rpool fuel acc (enc_dict pool d ++ k) = Ok (acc ++ d) k.
  Proof.
    induction d as [|[key v] d IH]; intros fuel acc k Hok Hnd Hfr Hfuel.
    - destruct fuel; [simpl in Hfuel; lia|]. cbn [enc_dict app dec_dict].
      change (DICT_END =? DICT_END) with true. cbv iota. now rewrite app_nil_r.
    - destruct fuel; [simpl in Hfuel; lia|].
      inversion Hok as [|? ? [Hin [H88 Hv]] Hok']; subst. cbn [fst snd] in *.
      cbn [dict_keys map fst] in Hnd. inversion Hnd as [|? ? Hnotin Hnd']; subst.
      cbn [enc_dict]. rewrite le_enc2_cons. cbn [app].
      rewrite dec_dict_step by assumption.
      change ((index_of key pool mod 256) :: (le_enc 1 (index_of key pool / 256) ++
              enc_gval v ++ enc_dict pool d) ++ k)
        with (le_enc 2 (index_of key pool) ++ ((enc_gval v ++ enc_dict pool d) ++ k)).
      unfold bind at 1. rewrite (u16_rt _ (index_u16 _ Hin)).
      unfold entry_cont. rewrite pool_get_index by assumption.
      unfold bind. rewrite <- app_assoc. rewrite (gval_rt _ Hv).
      rewrite dict_set_fresh.
      2:{ intros kv Hkv. apply (Hfr kv (key, v) Hkv). now left. }
      rewrite IH; auto.
      + now rewrite <- app_assoc.
      + intros kv kv' H1 H2. apply in_app_or in H1 as [H1|[<-|[]]].
        * apply (Hfr kv kv' H1). now right.
        * cbn [fst]. intros ->. apply Hnotin. now apply in_map.
      + simpl in Hfuel. lia.
  Qed.

  Lemma dict_rt d fuel : Forall entry_ok d -> NoDup (dict_keys d) -> (length d < fuel)%nat ->
    RtAt (dec_dict rpool fuel []) (enc_dict pool d) d.
  Proof.
    intros H1 H2 H3 k. rewrite dict_rt_gen; auto. intros kv kv' [].
  Qed.

  Lemma dict_strict d : forall fuel acc, Forall entry_ok d ->
    StrictAt (dec_dict rpool fuel acc) (enc_dict pool d).
  Proof.
    induction d as [|[key v] d IH]; intros fuel acc Hok n Hn.
    - cbn [enc_dict length] in Hn. assert (n = 0)%nat by lia. subst. apply dec_dict_eof.
    - destruct fuel; [apply IsErr_Err|].
      destruct n as [|n]; [apply IsErr_Err|].
      inversion Hok as [|? ? [Hin [H88 Hv]] Hok']; subst. cbn [fst snd] in *.
      cbn [enc_dict] in *. rewrite le_enc2_cons in *. cbn [app firstn].
      rewrite dec_dict_step by assumption.
      change ((index_of key pool mod 256) :: firstn n (le_enc 1 (index_of key pool / 256) ++
              enc_gval v ++ enc_dict pool d))
        with (firstn (S n) (le_enc 2 (index_of key pool) ++ (enc_gval v ++ enc_dict pool d))).
      apply (bind_strict_S dec_u16 (entry_cont fuel acc) _ _ (index_of key pool)).
      + apply u16_rt, index_u16, Hin.
      + apply u16_strict.
      + unfold entry_cont. rewrite pool_get_index by assumption.
        apply bind_strict_T with (a := v).
        * now apply gval_rt.
        * now apply gval_tb.
        * intros y. apply dec_dict_eof.
        * apply IH, Hok'.
      + exact Hn.
  Qed.

  Lemma enc_dict_length d : (length d < length (enc_dict pool d))%nat.
  Proof.
    induction d as [|[k v] d IH]; cbn [enc_dict length]; [lia|].
    rewrite !app_length, le_enc_length. lia.
  Qed.

  Lemma dict_top_rt d : Forall entry_ok d -> NoDup (dict_keys d) ->
    RtAt (dec_dict_top rpool) (enc_dict pool d) d.
  Proof.
    intros H1 H2 k. unfold dec_dict_top. rewrite dict_rt_gen; auto.
    - intros kv kv' [].
    - pose proof (enc_dict_length d). rewrite app_length. lia.
  Qed.

  Lemma dict_top_strict d : Forall entry_ok d -> StrictAt (dec_dict_top rpool) (enc_dict pool d).
  Proof. intros H n Hn. unfold dec_dict_top. now apply dict_strict. Qed.

  Lemma dict_top_eof : Eof (dec_dict_top rpool).
  Proof. apply IsErr_Err. Qed.

  (* ---------------------------------------------------------------- metadata record *)
  Definition dict_ok (d : dict) : Prop := Forall entry_ok d /\ NoDup (dict_keys d).

  Definition meta_ok (m : meta) : Prop :=
    ostrb (m_risk_basis m) = true /\ ostrb (m_country m) = true /\ ostrb (m_currency m) = true
    /\ ostrb (m_reinsurance_basis m) = true /\ ostrb (m_loss_definition m) = true
    /\ limitb (m_limit m) = true /\ dict_ok (m_details m) /\ dict_ok (m_loss_details m).

  Lemma meta_rt m : meta_ok m -> RtAt (dec_meta rpool) (enc_meta pool m) m.
  Proof.
    intros (H1 & H2 & H3 & H4 & H5 & H6 & [H7 H7'] & [H8 H8']).
    unfold enc_meta, dec_meta.
    apply bind_rt with (a := m_risk_basis m); [now apply str_rt|].
    apply bind_rt with (a := m_country m); [now apply str_rt|].
    apply bind_rt with (a := m_currency m); [now apply str_rt|].
    apply bind_rt with (a := m_reinsurance_basis m); [now apply str_rt|].
    apply bind_rt with (a := m_loss_definition m); [now apply str_rt|].
    apply bind_rt with (a := m_limit m); [now apply limit_rt|].
    apply bind_rt with (a := m_details m); [now apply dict_top_rt|].
    eapply pmapr_rt; [now apply dict_top_rt|]. destruct m; reflexivity.
  Qed.

  Lemma meta_strict m : meta_ok m -> StrictAt (dec_meta rpool) (enc_meta pool m).
  Proof.
    intros (H1 & H2 & H3 & H4 & H5 & H6 & [H7 H7'] & [H8 H8']).
    unfold enc_meta, dec_meta.
    apply bind_strict_T with (a := m_risk_basis m);
      [now apply str_rt | now apply str_tb | intros; apply bind_eof, str_eof |].
    apply bind_strict_T with (a := m_country m);
      [now apply str_rt | now apply str_tb | intros; apply bind_eof, str_eof |].
    apply bind_strict_T with (a := m_currency m);
      [now apply str_rt | now apply str_tb | intros; apply bind_eof, str_eof |].
    apply bind_strict_T with (a := m_reinsurance_basis m);
      [now apply str_rt | now apply str_tb | intros; apply bind_eof, str_eof |].
    apply bind_strict_T with (a := m_loss_definition m);
      [now apply str_rt | now apply str_tb | intros; apply bind_eof, limit_eof |].
    apply bind_strict_S with (a := m_limit m); [now apply limit_rt | now apply limit_strict |].
    apply bind_strict_S with (a := m_details m);
      [now apply dict_top_rt | now apply dict_top_strict |].
    apply pmapr_strict. now apply dict_top_strict.
  Qed.

  Lemma enc_meta_nonempty m : enc_meta pool m <> [].
  Proof.
    unfold enc_meta. destruct (m_risk_basis m); cbn [enc_str]; rewrite le_enc2_cons; discriminate.
  Qed.

  (* ---------------------------------------------------------------- cell record *)
  Definition cell_ok (c : cell) : Prop :=
    cellb c = true /\ dict_ok (c_values c) /\ meta_ok (c_meta c).

  Lemma date_leb_not_ltb a b : date_leb a b = true -> date_ltb b a = false.
  Proof.
    destruct a as [[y1 m1] d1], b as [[y2 m2] d2]. unfold date_leb, date_ltb, date_eqb. lia.
  Qed.
  Lemma date_ltb_not_leb a b : date_ltb a b = true -> date_leb b a = false.
  Proof.
    destruct a as [[y1 m1] d1], b as [[y2 m2] d2]. unfold date_leb, date_ltb, date_eqb. lia.
  Qed.

  Lemma cellb_facts c : cellb c = true ->
    date_okb (c_pstart c) = true /\ date_okb (c_pend c) = true /\ date_okb (c_eval c) = true
    /\ date_ltb (c_pend c) (c_pstart c) = false /\ date_ltb (c_eval c) (c_pstart c) = false
    /\ date_eqb (c_eval c) DATE_MAX = false
    /\ forallb (fun kv => cellval_okb (snd kv)) (c_values c) = true /\ prevb c = true.
  Proof.
    unfold cellb. intros H. repeat (apply andb_true_iff in H as [H ?]).
    repeat split; auto using date_leb_not_ltb.
    destruct (date_eqb (c_eval c) DATE_MAX); [discriminate|reflexivity].
  Qed.

  Lemma set_meta_id c : set_meta c (c_meta c) = c.
  Proof. destruct c; reflexivity. Qed.

  (* the reader builds the cell with whatever metadata record it read last *)
  Lemma mk_cell_ok' c cur : cellb c = true ->
    mk_cell (c_kind c) (c_pstart c) (c_pend c) (c_eval c) (c_values c) (c_prev c) cur
    = ROk (set_meta c (cur_meta cur)).
  Proof.
    intros H. destruct (cellb_facts _ H) as (_ & _ & _ & H4 & H5 & H6 & H7 & H8).
    unfold mk_cell. rewrite H7, H4, H5, H6. cbn [negb].
    unfold prevb in H8. destruct c as [k ps pe ev vals pv m]; cbn [c_kind c_prev c_eval] in *.
    destruct pv as [p|].
    - destruct k; try discriminate. apply andb_true_iff in H8 as [_ H8].
      rewrite (date_ltb_not_leb _ _ H8). destruct cur; reflexivity.
    - destruct cur; reflexivity.
  Qed.

  Lemma mk_cell_ok c : cellb c = true ->
    mk_cell (c_kind c) (c_pstart c) (c_pend c) (c_eval c) (c_values c) (c_prev c) (Some (c_meta c))
    = ROk c.
  Proof. intros H. rewrite (mk_cell_ok' c (Some (c_meta c)) H). cbn [cur_meta]. now rewrite set_meta_id. Qed.

  Lemma cell_tag_cases k :
    (k = KCell /\ cell_tag k = R_CELL) \/ (k = KCum /\ cell_tag k = R_CUM) \/ (k = KInc /\ cell_tag k = R_INC).
  Proof. destruct k; auto. Qed.

  Lemma cell_rt' c cur : cell_ok c ->
    RtAt (dec_cell rpool (cell_tag (c_kind c)) cur) (enc_cell pool c) (set_meta c (cur_meta cur)).
  Proof.
    intros (Hc & [Hv Hv'] & _).
    destruct (cellb_facts _ Hc) as (D1 & D2 & D3 & _ & _ & _ & _ & Hp).
    pose proof (mk_cell_ok' _ cur Hc) as Hmk.
    unfold enc_cell, dec_cell.
    apply bind_rt with (a := c_pstart c); [now apply date_rt|].
    apply bind_rt with (a := c_pend c); [now apply date_rt|].
    apply bind_rt with (a := c_eval c); [now apply date_rt|].
    unfold prevb in Hp.
    destruct (c_kind c) eqn:Ek; destruct (c_prev c) as [p|] eqn:Ep; try discriminate;
      cbn [cell_tag].
    - change (R_CELL =? R_CUM) with false. change (R_CELL =? R_INC) with false. cbv iota.
      rewrite app_nil_r. eapply pmapr_rt; [now apply dict_top_rt | exact Hmk].
    - change (R_CUM =? R_CUM) with true. cbv iota.
      rewrite app_nil_r. eapply pmapr_rt; [now apply dict_top_rt | exact Hmk].
    - change (R_INC =? R_CUM) with false. change (R_INC =? R_INC) with true. cbv iota.
      apply andb_true_iff in Hp as [Hp1 Hp2].
      apply bind_rt with (a := c_values c); [now apply dict_top_rt|].
      eapply pmapr_rt; [now apply date_rt | exact Hmk].
  Qed.

  Lemma cell_rt c : cell_ok c ->
    RtAt (dec_cell rpool (cell_tag (c_kind c)) (Some (c_meta c))) (enc_cell pool c) c.
  Proof.
    intros H. pose proof (cell_rt' c (Some (c_meta c)) H) as R. cbn [cur_meta] in R.
    now rewrite set_meta_id in R.
  Qed.

  Lemma cell_strict c cur : cell_ok c ->
    StrictAt (dec_cell rpool (cell_tag (c_kind c)) cur) (enc_cell pool c).
  Proof.
    intros (Hc & [Hv Hv'] & _).
    destruct (cellb_facts _ Hc) as (D1 & D2 & D3 & _ & _ & _ & _ & Hp).
    unfold enc_cell, dec_cell.
    apply bind_strict_S with (a := c_pstart c); [now apply date_rt | apply date_strict |].
    apply bind_strict_S with (a := c_pend c); [now apply date_rt | apply date_strict |].
    apply bind_strict_S with (a := c_eval c); [now apply date_rt | apply date_strict |].
    unfold prevb in Hp.
    destruct (c_kind c) eqn:Ek; destruct (c_prev c) as [p|] eqn:Ep; try discriminate;
      cbn [cell_tag].
    - change (R_CELL =? R_CUM) with false. change (R_CELL =? R_INC) with false. cbv iota.
      rewrite app_nil_r. apply pmapr_strict. now apply dict_top_strict.
    - change (R_CUM =? R_CUM) with true. cbv iota.
      rewrite app_nil_r. apply pmapr_strict. now apply dict_top_strict.
    - change (R_INC =? R_CUM) with false. change (R_INC =? R_INC) with true. cbv iota.
      apply bind_strict_S with (a := c_values c);
        [now apply dict_top_rt | now apply dict_top_strict |].
      apply pmapr_strict, date_strict.
  Qed.

  Lemma enc_cell_nonempty c : enc_cell pool c <> [].
  Proof. unfold enc_cell. destruct (c_pstart c) as [[y m] d]. cbn [enc_date]. rewrite le_enc2_cons. discriminate. Qed.

  (* ---------------------------------------------------------------- the marker loop *)
  Lemma cell_tag_dispatch k :
    (cell_tag k =? R_METADATA) = false /\
    ((cell_tag k =? R_CELL) || (cell_tag k =? R_CUM) || (cell_tag k =? R_INC)) = true.
  Proof. destruct k; split; reflexivity. Qed.

  Lemma body_step_meta flag fuel cur acc r :
    dec_body flag rpool (S fuel) cur acc (R_METADATA :: r) =
    bind (dec_meta rpool) (fun md => dec_body flag rpool fuel (Some md) acc) r.
  Proof. reflexivity. Qed.

  Lemma body_step_cell flag fuel cur acc k r :
    dec_body flag rpool (S fuel) cur acc (cell_tag k :: r) =
    bind (dec_cell rpool (cell_tag k) cur) (fun c => dec_body flag rpool fuel cur (c :: acc)) r.
  Proof.
    cbn [dec_body]. destruct (cell_tag_dispatch k) as [-> ->]. reflexivity.
  Qed.

  Section WithMeq.
  Variable meq : meta -> meta -> bool.

  Lemma enc_body_with_length prev t : (2 * length t <= length (enc_body_with meq pool prev t))%nat.
  Proof.
    revert prev; induction t as [|c cs IH]; intros prev; cbn [enc_body_with length]; [lia|].
    rewrite !app_length. cbn [length]. specialize (IH (Some (c_meta c))).
    pose proof (enc_cell_nonempty c). destruct (enc_cell pool c); [congruence|]. cbn [length]. lia.
  Qed.

  (* writer state [prev] (the previous cell's metadata) and reader state [cur] (the last metadata
     record read) evolve independently; what comes back is [rep_with meq prev cur t] *)
  Lemma body_rt_with flag t : forall fuel prev cur acc,
    Forall cell_ok t -> (length (enc_body_with meq pool prev t) < fuel)%nat ->
    dec_body flag rpool fuel cur acc (enc_body_with meq pool prev t)
    = at_end flag (rev acc ++ rep_with meq prev cur t).
  Proof.
    induction t as [|c cs IH]; intros fuel prev cur acc Hok Hf.
    - destruct fuel; [simpl in Hf; lia|]. cbn [enc_body_with rep_with dec_body]. now rewrite app_nil_r.
    - inversion Hok as [|? ? Hc Hcs]; subst.
      cbn [enc_body_with rep_with] in *. rewrite !app_length in Hf. cbn [length] in Hf.
      destruct (same_meta meq prev (c_meta c)) eqn:E.
      + cbn [app].
        destruct fuel; [lia|]. rewrite body_step_cell.
        unfold bind. rewrite (cell_rt' _ cur Hc).
        rewrite IH; auto; [|cbn [length] in Hf; lia].
        cbn [rev]. now rewrite <- app_assoc.
      + cbn [app]. destruct fuel; [cbn [length] in Hf; lia|]. rewrite body_step_meta.
        unfold bind at 1. rewrite (meta_rt _ (proj2 (proj2 Hc))).
        cbn [app]. destruct fuel; [cbn [length] in Hf; lia|].
        rewrite body_step_cell. unfold bind. rewrite (cell_rt _ Hc).
        rewrite IH; auto.
        * cbn [rev]. now rewrite <- app_assoc.
        * cbn [length] in Hf. lia.
  Qed.

  (* outcome on a prefix: failure, or (for a plain file) exactly a leading segment of the cells *)
  Definition PrefixOutcome (flag : bool) (acc t : list cell) (r : res (list cell)) : Prop :=
    IsErr r \/ exists j, r = at_end flag (rev acc ++ firstn j t).

  Lemma body_trunc_with flag t : forall fuel prev cur acc n,
    Forall cell_ok t -> (n < length (enc_body_with meq pool prev t))%nat -> (n < fuel)%nat ->
    PrefixOutcome flag acc (rep_with meq prev cur t)
      (dec_body flag rpool fuel cur acc (firstn n (enc_body_with meq pool prev t))).
  Proof.
    induction t as [|c cs IH]; intros fuel prev cur acc n Hok Hn Hf.
    - cbn [enc_body_with length] in Hn. lia.
    - inversion Hok as [|? ? Hc Hcs]; subst.
      destruct fuel; [lia|].
      destruct n as [|n].
      { right. exists O. cbn [firstn dec_body]. now rewrite app_nil_r. }
      cbn [enc_body_with rep_with] in *.
      (* the cell record, then the rest: common to both branches; [cur'] = reader state when the
         cell record starts, [c'] = the cell it yields *)
      assert (Hcellpart : forall fuel' cur' m,
                 (m < S (length (enc_cell pool c)) + length (enc_body_with meq pool (Some (c_meta c)) cs))%nat ->
                 (m < fuel')%nat ->
                 PrefixOutcome flag acc
                   (set_meta c (cur_meta cur') :: rep_with meq (Some (c_meta c)) cur' cs)
                   (dec_body flag rpool fuel' cur' acc
                      (firstn m ((cell_tag (c_kind c) :: enc_cell pool c)
                                   ++ enc_body_with meq pool (Some (c_meta c)) cs)))).
      { intros fuel' cur' m Hm Hf'.
        destruct fuel'; [lia|].
        destruct m as [|m].
        { right. exists O. cbn [firstn dec_body]. now rewrite app_nil_r. }
        cbn [app firstn]. rewrite body_step_cell.
        destruct (Nat.lt_ge_cases m (length (enc_cell pool c))) as [Hlt|Hge].
        - left. rewrite firstn_app_lt by assumption. unfold bind.
          destruct (cell_strict c cur' Hc m Hlt) as [e ->]. apply IsErr_Err.
        - rewrite firstn_app_ge by assumption. unfold bind. rewrite (cell_rt' _ cur' Hc).
          destruct (Nat.eq_dec (m - length (enc_cell pool c)) O) as [Hz|Hnz].
          + rewrite Hz. cbn [firstn]. right. exists 1%nat.
            destruct fuel'; [lia|]. cbn [dec_body rev firstn]. reflexivity.
          + destruct (IH fuel' (Some (c_meta c)) cur' (set_meta c (cur_meta cur') :: acc)
                         (m - length (enc_cell pool c))%nat Hcs)
              as [He|[j Hj]]; [lia | lia | left; exact He |].
            right. exists (S j). rewrite Hj. cbn [rev firstn]. now rewrite <- app_assoc. }
      destruct (same_meta meq prev (c_meta c)) eqn:E.
      + cbn [app] in *.
        apply (Hcellpart (S fuel) cur (S n)); auto.
        cbn [length] in Hn; rewrite ?app_length in Hn; cbn [length] in Hn; rewrite ?app_length in Hn; cbn [length] in Hn. lia.
      + cbn [app] in Hn |- *. cbn [firstn]. rewrite body_step_meta.
        cbn [length] in Hn; rewrite ?app_length in Hn; cbn [length] in Hn; rewrite ?app_length in Hn; cbn [length] in Hn.
        destruct (Nat.lt_ge_cases n (length (enc_meta pool (c_meta c)))) as [Hlt|Hge].
        * left. rewrite firstn_app_lt by assumption. unfold bind.
          destruct (meta_strict _ (proj2 (proj2 Hc)) n Hlt) as [e ->]. apply IsErr_Err.
        * rewrite firstn_app_ge by assumption. unfold bind.
          rewrite (meta_rt _ (proj2 (proj2 Hc))).
          rewrite <- (set_meta_id c) at 1.
          apply (Hcellpart fuel (Some (c_meta c))); [cbn [length] in Hn; lia|].
          pose proof (enc_meta_nonempty (c_meta c)).
          destruct (enc_meta pool (c_meta c)); [congruence|]. cbn [length] in *. lia.
  Qed.
  End WithMeq.

  (* the structural writer is the instance meq := meta_eqb; nothing is collapsed *)
  Lemma enc_body_is_with prev t : enc_body pool prev t = enc_body_with meta_eqb pool prev t.
  Proof.
    revert prev; induction t as [|c cs IH]; intros prev; cbn [enc_body enc_body_with]; [reflexivity|].
    rewrite IH. destruct prev; reflexivity.
  Qed.

  Lemma rep_structural prev t : rep_with meta_eqb prev prev t = t.
  Proof.
    revert prev; induction t as [|c cs IH]; intros prev; cbn [rep_with]; [reflexivity|].
    destruct (same_meta meta_eqb prev (c_meta c)) eqn:E.
    - destruct prev as [p|]; cbn [same_meta] in E; [|discriminate].
      apply meta_eqb_eq in E. subst p. cbn [cur_meta]. now rewrite set_meta_id, IH.
    - now rewrite IH.
  Qed.

  Lemma enc_body_length prev t : (2 * length t <= length (enc_body pool prev t))%nat.
  Proof. rewrite enc_body_is_with. apply enc_body_with_length. Qed.

  Lemma body_rt flag t : forall fuel prev acc,
    Forall cell_ok t -> (length (enc_body pool prev t) < fuel)%nat ->
    dec_body flag rpool fuel prev acc (enc_body pool prev t) = at_end flag (rev acc ++ t).
  Proof.
    intros fuel prev acc Hok Hf. rewrite enc_body_is_with in *.
    rewrite (body_rt_with meta_eqb flag t fuel prev prev acc Hok Hf). now rewrite rep_structural.
  Qed.

  Lemma body_trunc flag t : forall fuel prev acc n,
    Forall cell_ok t -> (n < length (enc_body pool prev t))%nat -> (n < fuel)%nat ->
    PrefixOutcome flag acc t (dec_body flag rpool fuel prev acc (firstn n (enc_body pool prev t))).
  Proof.
    intros fuel prev acc n Hok Hn Hf. rewrite enc_body_is_with in *.
    pose proof (body_trunc_with meta_eqb flag t fuel prev prev acc n Hok Hn Hf) as H.
    now rewrite rep_structural in H.
  Qed.

  (* ---------------------------------------------------------------- the string pool *)
  Lemma strs_rt l : forallb strb l = true ->
    RtAt (dec_strs (length l)) (enc_strs l) (map (@Some str) l).
  Proof.
    induction l as [|s r IH]; cbn [length dec_strs enc_strs forallb map]; intros H.
    - apply ret_rt.
    - apply andb_true_iff in H as [Hs Hr].
      apply bind_rt with (a := Some s). { now apply (str_rt (Some s)). }
      eapply pmapr_rt; [apply IH, Hr | reflexivity].
  Qed.

  Lemma strs_tb l : forallb strb l = true -> TbAt (dec_strs (length l)) (enc_strs l).
  Proof.
    induction l as [|s r IH]; cbn [length dec_strs enc_strs forallb]; intros H.
    - apply tb_nil.
    - apply andb_true_iff in H as [Hs Hr].
      apply bind_tb_T with (a := Some s).
      + now apply (str_rt (Some s)).
      + now apply (str_tb (Some s)).
      + intros y. unfold pmap, pmapr. destruct (length r); cbn [dec_strs].
        * right. eexists. reflexivity.
        * left. unfold bind. destruct str_eof as [e ->]. apply IsErr_Err.
      + apply pmapr_tb, IH, Hr.
  Qed.
End Dict.
