(** C04 helper lemmas 4: grouping, row order, and lifting the row theorems to whole triangles. *)
From Coq Require Import ZArith List Bool Lia.
From Bermuda Require Import Model.Base Model.Basis Proofs.BasisEq Proofs.BasisVal Proofs.BasisRow.
Import ListNotations.
Local Open Scope Z_scope.

(* ---------------------------------------------------------------- groupby on a list of rows *)
Definition head_key_ne (k : date * date * meta) (g : list cell) : Prop :=
  match g with [] => False | h :: _ => ckey h <> k end.
Definition ins := (fun (gs : list (list cell)) (c : cell) => group_insert c gs).

Lemma group_insert_new c gs :
  Forall (head_key_ne (ckey c)) gs -> group_insert c gs = gs ++ [[c]].
Proof.
  induction gs as [|g gs IH]; intros H; cbn [group_insert app]; auto.
  inversion H as [|? ? Hg Hgs]; subst. destruct g as [|h t]; [destruct Hg|].
  cbn [head_key_ne] in Hg. apply same_key_false in Hg. rewrite Hg. now rewrite IH.
Qed.

Lemma group_insert_last c pre h t :
  Forall (head_key_ne (ckey c)) pre -> ckey h = ckey c ->
  group_insert c (pre ++ [h :: t]) = pre ++ [(h :: t) ++ [c]].
Proof.
  induction pre as [|g gs IH]; intros H K; cbn [group_insert app].
  - apply same_key_iff in K. now rewrite K.
  - inversion H as [|? ? Hg Hgs]; subst. destruct g as [|h' t']; [destruct Hg|].
    cbn [head_key_ne] in Hg. apply same_key_false in Hg. rewrite Hg. now rewrite IH.
Qed.

Lemma fold_row h : forall cs pre t,
  Forall (fun c => ckey c = ckey h) cs -> Forall (head_key_ne (ckey h)) pre ->
  fold_left ins cs (pre ++ [h :: t]) = pre ++ [(h :: t) ++ cs].
Proof.
  induction cs as [|c cs IH]; intros pre t HC HP; cbn [fold_left].
  - now rewrite app_nil_r.
  - inversion HC as [|? ? Hc Hcs]; subst. unfold ins at 2.
    rewrite group_insert_last by (rewrite ?Hc; auto).
    change ((h :: t) ++ [c]) with (h :: (t ++ [c])). rewrite IH by auto.
    cbn [app]. now rewrite <- app_assoc.
Qed.

Lemma row_key_okb_spec row :
  row_key_okb row = true -> exists h cs, row = h :: cs /\ Forall (fun c => ckey c = ckey h) cs.
Proof.
  destruct row as [|h cs]; [discriminate|]. cbn [row_key_okb]. intros H.
  exists h, cs; split; auto. apply Forall_forall. intros c Hc.
  rewrite forallb_forall in H. symmetry. now apply same_key_iff, H.
Qed.

Lemma group_concat : forall rows pre,
  forallb row_key_okb rows = true -> heads_distinctb rows = true ->
  (forall h t, In (h :: t) rows -> Forall (head_key_ne (ckey h)) pre) ->
  fold_left ins (concat rows) pre = pre ++ rows.
Proof.
  induction rows as [|row rs IH]; intros pre HK HD HP; cbn [concat fold_left].
  - now rewrite app_nil_r.
  - cbn [forallb] in HK. apply andb_true_iff in HK as [HK1 HK2].
    destruct (row_key_okb_spec _ HK1) as [h [cs [-> HC]]].
    cbn [heads_distinctb] in HD. apply andb_true_iff in HD as [HD1 HD2].
    cbn [app fold_left]. rewrite fold_left_app. unfold ins at 3.
    rewrite group_insert_new by (apply (HP h cs); left; reflexivity).
    rewrite fold_row by (auto; apply (HP h cs); left; reflexivity).
    rewrite IH; auto.
    + now rewrite <- app_assoc.
    + intros h' t' Hin. apply Forall_app; split.
      * apply (HP h' t'). now right.
      * constructor; [|constructor]. cbn [head_key_ne].
        rewrite forallb_forall in HD1. specialize (HD1 _ Hin). cbn in HD1.
        apply negb_true_iff, same_key_false in HD1. congruence.
Qed.

Lemma group_cells_concat rows : rows_okb rows = true -> group_cells (concat rows) = rows.
Proof.
  unfold rows_okb. rewrite andb_true_iff. intros [H1 H2]. unfold group_cells.
  change (fun gs c => group_insert c gs) with ins. rewrite group_concat; auto.
Qed.

(* ---------------------------------------------------------------- sorted rows *)
Fixpoint ascb (p : cell) (rest : list cell) : bool :=
  match rest with [] => true | n :: r => (ev p <? ev n) && ascb n r end.
Definition row_ascb (row : list cell) : bool :=
  match row with [] => true | p :: rest => ascb p rest end.

Lemma sort_row_asc : forall rest p, ascb p rest = true -> sort_row (p :: rest) = p :: rest.
Proof.
  induction rest as [|n r IH]; intros p H; [reflexivity|].
  cbn [ascb] in H. apply andb_true_iff in H as [L A].
  change (sort_row (p :: n :: r)) with (row_insert p (sort_row (n :: r))).
  rewrite IH by auto. cbn [row_insert]. unfold row_ltb.
  apply Z.ltb_lt in L.
  replace (ev n <? ev p) with false by (symmetry; apply Z.ltb_ge; lia).
  replace (ev n =? ev p) with false by (symmetry; apply Z.eqb_neq; lia). reflexivity.
Qed.
Lemma sort_row_ascb row : row_ascb row = true -> sort_row row = row.
Proof. destruct row; [reflexivity|]. apply sort_row_asc. Qed.

Lemma rows_of_concat rows :
  rows_okb rows = true -> forallb row_ascb rows = true -> rows_of (concat rows) = rows.
Proof.
  intros H A. unfold rows_of. rewrite group_cells_concat by auto.
  rewrite forallb_forall in A. induction rows as [|r rs IH]; [reflexivity|].
  cbn [map]. rewrite sort_row_ascb by (apply A; now left). f_equal. apply IH.
  - unfold rows_okb in *. cbn [forallb heads_distinctb] in H.
    rewrite !andb_true_iff in H. rewrite andb_true_iff. tauto.
  - intros x Hx. apply A. now right.
Qed.

Lemma cum_tail_okb_asc d m c0 : forall rest p, cum_tail_okb d m c0 p rest = true -> ascb p rest = true.
Proof.
  induction rest as [|n r IH]; intros p H; [reflexivity|].
  apply cum_tail_okb_cons in H as [_ [_ [_ [L [_ T]]]]]. cbn [ascb].
  apply Z.ltb_lt in L. rewrite L. now apply IH.
Qed.
Lemma inc_tail_okb_asc d c0 : forall rest p, inc_tail_okb d c0 p rest = true -> ascb p rest = true.
Proof.
  induction rest as [|n r IH]; intros p H; [reflexivity|].
  apply inc_tail_okb_cons in H as [_ [_ [_ [_ [L [_ T]]]]]]. cbn [ascb].
  apply Z.ltb_lt in L. rewrite L. now apply IH.
Qed.
Lemma cum_row_okb_asc d m row : cum_row_okb d m row = true -> row_ascb row = true.
Proof.
  destruct row; [discriminate|]. cbn [cum_row_okb row_ascb]. rewrite !andb_true_iff.
  intros [_ T]. exact (cum_tail_okb_asc _ _ _ _ _ T).
Qed.
Lemma inc_row_okb_asc d row : inc_row_okb d row = true -> row_ascb row = true.
Proof.
  destruct row; [discriminate|]. cbn [inc_row_okb row_ascb]. rewrite !andb_true_iff.
  intros [_ T]. exact (inc_tail_okb_asc _ _ _ _ T).
Qed.

(* ---------------------------------------------------------------- rows with the same coordinates *)
Definition row_sim (row out : list cell) : Prop :=
  map ckey out = map ckey row /\ map ev out = map ev row.

Lemma same_key_ext a b a' b' : ckey a = ckey a' -> ckey b = ckey b' -> same_key a b = same_key a' b'.
Proof.
  intros Ha Hb. destruct (same_key a b) eqn:E, (same_key a' b') eqn:F; auto.
  - apply same_key_iff in E. apply same_key_false in F. congruence.
  - apply same_key_iff in F. apply same_key_false in E. congruence.
Qed.

Lemma cons_inv {A} (a b : A) l l' : a :: l = b :: l' -> a = b /\ l = l'.
Proof. inversion 1; auto. Qed.

Lemma forallb_same_key_ext h h' : forall cs cs',
  ckey h = ckey h' -> map ckey cs = map ckey cs' ->
  forallb (same_key h) cs = forallb (same_key h') cs'.
Proof.
  induction cs as [|c cs IH]; destruct cs' as [|c' cs']; cbn [map forallb]; intros Hh H;
    try discriminate; auto.
  apply cons_inv in H as [Hc H]. rewrite (same_key_ext h c h' c') by auto. f_equal. now apply IH.
Qed.

Lemma row_key_okb_ext row out : map ckey out = map ckey row -> row_key_okb out = row_key_okb row.
Proof.
  destruct row as [|h cs], out as [|h' cs']; cbn [map row_key_okb]; intros H; try discriminate; auto.
  apply cons_inv in H as [Hh H]. now apply forallb_same_key_ext.
Qed.

Lemma heads_distinctb_ext : forall rows outs,
  Forall2 row_sim rows outs -> heads_distinctb outs = heads_distinctb rows.
Proof.
  induction 1 as [|row out rows outs [HK _] HR IH]; [reflexivity|].
  cbn [heads_distinctb]. rewrite IH. f_equal.
  destruct row as [|h cs], out as [|h' cs']; cbn [map] in HK; try discriminate; auto.
  apply cons_inv in HK as [Hh _].
  clear IH. induction HR as [|r o rs os [HK' _] _ IH']; [reflexivity|].
  cbn [forallb]. rewrite IH'. f_equal.
  destruct r as [|x xs], o as [|x' xs']; cbn [map] in HK'; try discriminate; auto.
  apply cons_inv in HK' as [Hx _]. f_equal. now apply same_key_ext.
Qed.

Lemma rows_okb_ext rows outs : Forall2 row_sim rows outs -> rows_okb outs = rows_okb rows.
Proof.
  intros H. unfold rows_okb. rewrite (heads_distinctb_ext _ _ H). f_equal.
  induction H as [|row out rows outs [HK _] _ IH]; [reflexivity|].
  cbn [forallb]. rewrite IH. f_equal. now apply row_key_okb_ext.
Qed.

Lemma ascb_ext : forall rest rest' p p',
  ev p = ev p' -> map ev rest = map ev rest' -> ascb p rest = ascb p' rest'.
Proof.
  induction rest as [|n r IH]; destruct rest' as [|n' r']; cbn [map ascb]; intros p p' Hp H;
    try discriminate; auto.
  apply cons_inv in H as [Hn H]. rewrite Hp, Hn. f_equal. now apply IH.
Qed.
Lemma rows_ascb_ext rows outs :
  Forall2 row_sim rows outs -> forallb row_ascb outs = forallb row_ascb rows.
Proof.
  induction 1 as [|row out rows outs [_ HE] _ IH]; [reflexivity|].
  cbn [forallb]. rewrite IH. f_equal.
  destruct row as [|h cs], out as [|h' cs']; cbn [map] in HE; try discriminate; auto.
  apply cons_inv in HE as [Hh HE]. cbn [row_ascb]. now apply ascb_ext.
Qed.

(* shape of the outputs of the two row conversions (any description) *)
Lemma inc_tail_shape d s e m : forall rest pev pv incs,
  inc_tail d s e m pev pv rest = Ok incs ->
  map ckey incs = map (fun _ => (s, e, m)) rest /\ map ev incs = map ev rest
  /\ Forall (fun o => is_inc o = true) incs.
Proof.
  induction rest as [|n r IH]; intros pev pv incs H; cbn [inc_tail] in H.
  - inversion H; subst; repeat split; constructor.
  - destruct (values_diff d pv (cvals n)) as [vs|]; [|discriminate]. cbn [bind] in H.
    unfold mk_inc in H. destruct (cell_dates_ok s e (ev n) && (pev <? ev n)); [|discriminate].
    cbn [bind] in H. destruct (inc_tail d s e m (ev n) (cvals n) r) as [cs|] eqn:E; [|discriminate].
    cbn [bind] in H. inversion H; subst. destruct (IH _ _ _ E) as [A [B C]].
    cbn [map]. rewrite A, B. repeat split; auto.
Qed.
Lemma cum_tail_shape d s e m : forall rest cur_ev cur cums,
  cum_tail d s e m cur_ev cur rest = Ok cums ->
  map ckey cums = map (fun _ => (s, e, m)) rest /\ map ev cums = map ev rest
  /\ Forall (fun o => is_inc o = false) cums.
Proof.
  induction rest as [|n r IH]; intros cur_ev cur cums H; cbn [cum_tail] in H.
  - inversion H; subst; repeat split; constructor.
  - destruct (prev n); [|discriminate]. destruct (negb (d0 =? cur_ev)); [discriminate|].
    destruct (values_add d cur (cvals n)) as [vs|]; [|discriminate]. cbn [bind] in H.
    unfold mk_cum in H. destruct (cell_dates_ok s e (ev n)); [|discriminate]. cbn [bind] in H.
    destruct (cum_tail d s e m (ev n) vs r) as [cs|] eqn:E; [|discriminate]. cbn [bind] in H.
    inversion H; subst. destruct (IH _ _ _ E) as [A [B C]].
    cbn [map]. rewrite A, B. repeat split; auto.
Qed.

Lemma const_keys h : forall cs,
  Forall (fun c => ckey c = ckey h) cs -> map (fun _ => ckey h) cs = map ckey cs.
Proof. induction 1; cbn [map]; congruence. Qed.

Lemma row_inc_shape d row incs :
  row_key_okb row = true -> row_to_incremental d row = Ok incs ->
  row_sim row incs /\ Forall (fun o => is_inc o = true) incs.
Proof.
  intros HK H. destruct (row_key_okb_spec _ HK) as [h [cs [-> HC]]].
  cbn [row_to_incremental] in H. unfold mk_inc in H.
  destruct (cell_dates_ok (ps h) (pe h) (ev h) && _); [|discriminate]. cbn [bind] in H.
  destruct (inc_tail d (ps h) (pe h) (cmeta h) (ev h) (cvals h) cs) as [o|] eqn:E; [|discriminate].
  cbn [bind] in H. inversion H; subst. destruct (inc_tail_shape _ _ _ _ _ _ _ _ E) as [A [B C]].
  split; [split|]; cbn [map].
  - f_equal. rewrite A. now apply (const_keys h).
  - f_equal. exact B.
  - constructor; auto.
Qed.
Lemma row_cum_shape d row cums :
  row_key_okb row = true -> row_to_cumulative d row = Ok cums ->
  row_sim row cums /\ Forall (fun o => is_inc o = false) cums.
Proof.
  intros HK H. destruct (row_key_okb_spec _ HK) as [h [cs [-> HC]]].
  cbn [row_to_cumulative] in H. destruct (prev h); [|discriminate].
  destruct (negb _); [discriminate|]. unfold mk_cum in H.
  destruct (cell_dates_ok (ps h) (pe h) (ev h)); [|discriminate]. cbn [bind] in H.
  destruct (cum_tail d (ps h) (pe h) (cmeta h) (ev h) (cvals h) cs) as [o|] eqn:E; [|discriminate].
  cbn [bind] in H. inversion H; subst. destruct (cum_tail_shape _ _ _ _ _ _ _ _ E) as [A [B C]].
  split; [split|]; cbn [map].
  - f_equal. rewrite A. now apply (const_keys h).
  - f_equal. exact B.
  - constructor; auto.
Qed.

(* ---------------------------------------------------------------- mapM over rows *)
Lemma mapM_Forall {A B} (f : A -> result B) (P : A -> B -> Prop) : forall l,
  Forall (fun a => exists b, f a = Ok b /\ P a b) l ->
  exists bs, mapM f l = Ok bs /\ Forall2 P l bs.
Proof.
  induction 1 as [|a l [b [E Pb]] _ [bs [Es Ps]]].
  - exists []; split; [reflexivity | constructor].
  - exists (b :: bs). cbn [mapM]. rewrite E. cbn [bind]. rewrite Es. split; [reflexivity|].
    now constructor.
Qed.

Lemma forallb_Forall {A} (f : A -> bool) l : forallb f l = true -> Forall (fun a => f a = true) l.
Proof. rewrite forallb_forall, Forall_forall. auto. Qed.

Lemma is_incremental_concat_false rows :
  Forall (fun r => match r with [] => False | c :: _ => is_inc c = false end) rows ->
  is_incremental (concat rows) = false.
Proof.
  destruct 1 as [|r rs H _]; [reflexivity|]. destruct r; [destruct H|]. exact H.
Qed.
Lemma is_incremental_concat_true r rs :
  (match r with [] => False | c :: _ => is_inc c = true end) ->
  is_incremental (concat (r :: rs)) = true.
Proof. destruct r; [tauto|]. auto. Qed.

(* lifting: a triangle given by its rows is converted row by row *)
Lemma to_incremental_rows d rows :
  rows_okb rows = true -> forallb row_ascb rows = true -> is_incremental (concat rows) = false ->
  to_incremental d (concat rows) =
  bind (mapM (row_to_incremental d) rows) (fun outs => Ok (concat outs)).
Proof. intros H A I. unfold to_incremental. now rewrite I, rows_of_concat. Qed.
Lemma to_cumulative_rows d rows :
  rows_okb rows = true -> forallb row_ascb rows = true -> is_incremental (concat rows) = true ->
  to_cumulative d (concat rows) =
  bind (mapM (row_to_cumulative d) rows) (fun outs => Ok (concat outs)).
Proof. intros H A I. unfold to_cumulative. rewrite I. cbn [negb]. now rewrite rows_of_concat. Qed.

Lemma rows_okb_row_key rows : rows_okb rows = true -> Forall (fun r => row_key_okb r = true) rows.
Proof. unfold rows_okb. rewrite andb_true_iff. intros [H _]. now apply forallb_Forall. Qed.

Lemma Forall2_and {A B} (P Q : A -> B -> Prop) l l' :
  Forall2 (fun a b => P a b /\ Q a b) l l' -> Forall2 P l l' /\ Forall2 Q l l'.
Proof. induction 1 as [|? ? ? ? [? ?] _ [? ?]]; split; constructor; auto. Qed.

Lemma Forall2_mapM {A B} (f : A -> result B) l out :
  Forall2 (fun a b => f a = Ok b) l out -> mapM f l = Ok out.
Proof. apply mapM_ok_Forall2. Qed.

Lemma Forall2_mapM_flip {A B C} (f : B -> result C) (g : A -> C) l out :
  Forall2 (fun a b => f b = Ok (g a)) l out -> mapM f out = Ok (map g l).
Proof.
  induction 1 as [|a b l out E _ IH]; [reflexivity|]. cbn [mapM map]. rewrite E. cbn [bind].
  rewrite IH. reflexivity.
Qed.

Lemma rows_structb_Forall2 : forall rows outs,
  Forall2 (fun r o => inc_row_structb r o = true) rows outs -> rows_structb rows outs = true.
Proof. induction 1; cbn [rows_structb]; auto. rewrite H, IHForall2. reflexivity. Qed.

Lemma Forall2_right {A B} (Q : B -> Prop) (l : list A) l' :
  Forall2 (fun _ b => Q b) l l' -> Forall Q l'.
Proof. induction 1; constructor; auto. Qed.

Definition head_inc (b : bool) (o : list cell) : Prop :=
  match o with [] => False | c :: _ => is_inc c = b end.
Lemma head_inc_of b r o :
  row_key_okb r = true -> row_sim r o -> Forall (fun c => is_inc c = b) o -> head_inc b o.
Proof.
  intros HK [K _] F. destruct r; [discriminate|]. destruct o; [discriminate|].
  inversion F as [|? ? Hc _]. exact Hc.
Qed.

(* ---------------------------------------------------------------- triangle-level theorems *)
Lemma cum_rows_not_inc m rows :
  forallb (cum_row_okb SD m) rows = true ->
  Forall (fun r => match r with [] => False | c :: _ => is_inc c = false end) rows.
Proof.
  intros H. apply forallb_Forall in H. eapply Forall_impl; [|exact H].
  intros [|c r]; [discriminate|]. cbn [cum_row_okb]. rewrite !andb_true_iff, negb_true_iff. tauto.
Qed.
Lemma inc_rows_inc rows :
  forallb (inc_row_okb SD) rows = true ->
  Forall (fun r => match r with [] => False | c :: _ => is_inc c = true end) rows.
Proof.
  intros H. apply forallb_Forall in H. eapply Forall_impl; [|exact H].
  intros [|c r]; [discriminate|]. cbn [inc_row_okb]. rewrite !andb_true_iff. tauto.
Qed.

Lemma rows_asc_of (P : list cell -> bool) rows :
  (forall r, P r = true -> row_ascb r = true) -> forallb P rows = true -> forallb row_ascb rows = true.
Proof. intros H. rewrite !forallb_forall. auto. Qed.

Lemma tri_inc_struct rows :
  rows_okb rows = true -> forallb (cum_row_okb SD false) rows = true ->
  exists outs, to_incremental SD (concat rows) = Ok (concat outs) /\ rows_structb rows outs = true
               /\ Forall2 row_sim rows outs.
Proof.
  intros HR HC.
  pose proof (rows_asc_of _ _ (cum_row_okb_asc SD false) HC) as HA.
  rewrite to_incremental_rows by (auto; apply is_incremental_concat_false; eapply cum_rows_not_inc; eauto).
  destruct (mapM_Forall (row_to_incremental SD)
              (fun r o => inc_row_structb r o = true /\ row_sim r o) rows) as [outs [E F]].
  { pose proof (rows_okb_row_key _ HR) as HK. apply forallb_Forall in HC.
    rewrite Forall_forall in *. intros r Hr.
    destruct (row_inc_struct r (HC r Hr)) as [o [E S]]. exists o; repeat split; auto;
    apply (row_inc_shape SD r o (HK r Hr) E). }
  rewrite E. cbn [bind]. apply Forall2_and in F as [F1 F2].
  exists outs; repeat split; auto. now apply rows_structb_Forall2.
Qed.

Lemma tri_inc_struct_heads rows :
  rows_okb rows = true -> forallb (cum_row_okb SD false) rows = true ->
  exists outs, to_incremental SD (concat rows) = Ok (concat outs) /\ rows_structb rows outs = true
               /\ Forall2 row_sim rows outs /\ Forall (head_inc true) outs.
Proof.
  intros HR HC.
  pose proof (rows_asc_of _ _ (cum_row_okb_asc SD false) HC) as HA.
  rewrite to_incremental_rows by (auto; apply is_incremental_concat_false; eapply cum_rows_not_inc; eauto).
  destruct (mapM_Forall (row_to_incremental SD)
              (fun r o => inc_row_structb r o = true /\ (row_sim r o /\ head_inc true o)) rows)
    as [outs [E F]].
  { pose proof (rows_okb_row_key _ HR) as HK. apply forallb_Forall in HC.
    rewrite Forall_forall in *. intros r Hr.
    destruct (row_inc_struct r (HC r Hr)) as [o [E S]]. exists o.
    destruct (row_inc_shape SD r o (HK r Hr) E) as [S1 S2].
    repeat split; auto; try apply S1. eapply head_inc_of; eauto. }
  rewrite E. cbn [bind]. apply Forall2_and in F as [F1 F2]. apply Forall2_and in F2 as [F2 F3].
  exists outs; repeat split; auto.
  - now apply rows_structb_Forall2.
  - exact (Forall2_right _ _ _ F3).
Qed.

Lemma tri_inc_cum rows :
  rows_okb rows = true -> forallb (cum_row_okb SD true) rows = true ->
  exists incs, to_incremental SD (concat rows) = Ok incs
               /\ to_cumulative SD incs = Ok (map retag_cum (concat rows)).
Proof.
  intros HR HC.
  pose proof (rows_asc_of _ _ (cum_row_okb_asc SD true) HC) as HA.
  rewrite to_incremental_rows by (auto; apply is_incremental_concat_false; eapply cum_rows_not_inc; eauto).
  destruct (mapM_Forall (row_to_incremental SD)
              (fun r o => (row_to_cumulative SD o = Ok (map retag_cum r))
                          /\ (row_sim r o /\ head_inc true o)) rows)
    as [outs [E F]].
  { pose proof (rows_okb_row_key _ HR) as HK. apply forallb_Forall in HC.
    rewrite Forall_forall in *. intros r Hr.
    destruct (row_inc_cum r (HC r Hr)) as [o [E S]]. exists o.
    destruct (row_inc_shape SD r o (HK r Hr) E) as [S1 S2].
    repeat split; auto; try apply S1. eapply head_inc_of; eauto. }
  rewrite E. cbn [bind]. eexists; split; [reflexivity|].
  apply Forall2_and in F as [F1 F2]. apply Forall2_and in F2 as [F2 F3].
  destruct rows as [|r rs].
  - inversion F1; subst. reflexivity.
  - inversion F3 as [|? o ? os Ho _]; subst.
    rewrite to_cumulative_rows.
    + rewrite (Forall2_mapM_flip _ _ _ _ F1). cbn [bind]. now rewrite concat_map.
    + now rewrite (rows_okb_ext _ _ F2).
    + now rewrite (rows_ascb_ext _ _ F2).
    + apply is_incremental_concat_true. exact Ho.
Qed.

Lemma tri_cum_inc rows :
  rows_okb rows = true -> forallb (inc_row_okb SD) rows = true ->
  exists cums, to_cumulative SD (concat rows) = Ok cums
               /\ to_incremental SD cums = Ok (concat rows).
Proof.
  intros HR HC.
  pose proof (rows_asc_of _ _ (inc_row_okb_asc SD) HC) as HA.
  destruct rows as [|r0 rs0] eqn:ER; [exists []; split; reflexivity|]. rewrite <- ER in *.
  rewrite to_cumulative_rows;
    [|auto|auto|subst rows; apply is_incremental_concat_true;
      pose proof (inc_rows_inc _ HC) as Q; now inversion Q].
  destruct (mapM_Forall (row_to_cumulative SD)
              (fun r o => (row_to_incremental SD o = Ok r)
                          /\ (row_sim r o /\ head_inc false o)) rows)
    as [outs [E F]].
  { pose proof (rows_okb_row_key _ HR) as HK. apply forallb_Forall in HC.
    rewrite Forall_forall in *. intros r Hr.
    destruct (row_cum_inc r (HC r Hr)) as [o [E S]]. exists o.
    destruct (row_cum_shape SD r o (HK r Hr) E) as [S1 S2].
    repeat split; auto; try apply S1. eapply head_inc_of; eauto. }
  rewrite E. cbn [bind]. eexists; split; [reflexivity|].
  apply Forall2_and in F as [F1 F2]. apply Forall2_and in F2 as [F2 F3].
  rewrite to_incremental_rows.
  - rewrite (Forall2_mapM_flip _ (fun r => r) _ _ F1). cbn [bind]. now rewrite map_id.
  - now rewrite (rows_okb_ext _ _ F2).
  - now rewrite (rows_ascb_ext _ _ F2).
  - apply is_incremental_concat_false. exact (Forall2_right _ _ _ F3).
Qed.

(* refusal lifted: rows before convert, this one is refused -> the triangle is refused *)
Lemma tri_cum_refused rows1 row rows2 outs e :
  rows_okb (rows1 ++ row :: rows2) = true -> forallb row_ascb (rows1 ++ row :: rows2) = true ->
  is_incremental (concat (rows1 ++ row :: rows2)) = true ->
  mapM (row_to_cumulative SD) rows1 = Ok outs -> row_to_cumulative SD row = Err e ->
  to_cumulative SD (concat (rows1 ++ row :: rows2)) = Err e.
Proof.
  intros HR HA HI H1 H2. rewrite to_cumulative_rows by auto.
  now rewrite (mapM_err _ _ _ _ _ _ H1 H2).
Qed.
Lemma tri_inc_refused rows1 row rows2 outs e :
  rows_okb (rows1 ++ row :: rows2) = true -> forallb row_ascb (rows1 ++ row :: rows2) = true ->
  is_incremental (concat (rows1 ++ row :: rows2)) = false ->
  mapM (row_to_incremental SD) rows1 = Ok outs -> row_to_incremental SD row = Err e ->
  to_incremental SD (concat (rows1 ++ row :: rows2)) = Err e.
Proof.
  intros HR HA HI H1 H2. rewrite to_incremental_rows by auto.
  now rewrite (mapM_err _ _ _ _ _ _ H1 H2).
Qed.
