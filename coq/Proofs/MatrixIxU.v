(** C14 -- proofs about the Matrix index and the array data frame (Model/MatrixIx.v), UNBOUNDED version
    of Proofs/MatrixIxP.v: the calendar facts come from Proofs/CalendarP.v (all month ids >= MINID, the
    month id of 0001-01), so the only calendar side conditions left are lower bounds `MINID <= id`.

    1. calendar facts (thin wrappers around CalendarP, same names as in MatrixIxP.v);
    2. resolve_* / unresolve_* are inverse on grid points (any step kind), the F12 witness for
       mixed steps;
    3. a grid cell's indices turn back into its coordinates;
    4. from_array rebuilds the cells of an array data frame row by row;
    5. triangle level: matrix_round_trip returns a permutation of the float-normalised cells
       (matrix_round_trip_perm for any step kind under explicit grid conditions,
       matrix_round_trip_nested with the conditions derived from index_from_triangle). *)
From Coq Require Import ZArith List Bool Lia ZifyBool Permutation.
From Bermuda Require Import Model.Base Lib.Calendar Model.Frame Model.MatrixIx.
From Bermuda Require Export Proofs.CalendarP.
Import ListNotations.
Local Open Scope Z_scope.

(* ====================================================================================== *)
(** * 1. Calendar facts: wrappers around Proofs/CalendarP.v (month ids >= MINID = -23628) *)

Lemma forallb_zrange_lift (P : Z -> bool) (n : nat) :
  forallb P (map Z.of_nat (seq 0 n)) = true ->
  forall i, 0 <= i < Z.of_nat n -> P i = true.
Proof.
  intros H i Hi.
  rewrite forallb_forall in H. apply H.
  apply in_map_iff. exists (Z.to_nat i). split; [lia|].
  apply in_seq. lia.
Qed.

Lemma month_id_start : forall i, MINID <= i -> month_id (month_start i) = i.
Proof. exact month_id_month_start. Qed.
Lemma month_id_end : forall i, MINID <= i -> month_id (month_end i) = i.
Proof. exact month_id_month_end. Qed.
Lemma month_end_is_end : forall i, MINID <= i -> is_month_end (month_end i) = true.
Proof. exact is_month_end_month_end. Qed.
Lemma month_start_not_end : forall i, MINID <= i ->
  is_month_end (month_start i) = false /\ day_of (month_start i) = 1.
Proof. intros i Hi. split; [apply is_month_end_month_start|apply day_of_month_start]; exact Hi. Qed.
Lemma month_start_is_start : forall i, MINID <= i -> is_month_start (month_start i) = true.
Proof. exact is_month_start_month_start. Qed.

Lemma addm_month_end : forall i k, MINID <= i -> addm (month_end i) k = month_end (i + k).
Proof. intros i k Hi. apply CalendarP.addm_month_end. exact Hi. Qed.
Lemma addm_month_start : forall i k, MINID <= i -> addm (month_start i) k = month_start (i + k).
Proof. intros i k Hi. apply CalendarP.addm_month_start. exact Hi. Qed.
Lemma lag_months_ends : forall a b, MINID <= a -> MINID <= b ->
  lag_months (month_end a) (month_end b) = b - a.
Proof. exact lag_months_month_ends. Qed.
(* the period end computed by from_array: addm ps r - 1 *)
Lemma addm_start_pred_is_end : forall i r, MINID <= i ->
  addm (month_start i) r - 1 = month_end (i + r - 1).
Proof.
  intros i r Hi. rewrite (addm_month_start i r Hi). unfold month_end.
  replace (i + r - 1 + 1) with (i + r) by lia. reflexivity.
Qed.
Lemma month_start_lt : forall a b, a < b -> month_start a < month_start b.
Proof. exact month_start_strict_mono. Qed.
Lemma month_start_inj : forall a b, month_start a = month_start b -> a = b.
Proof. exact CalendarP.month_start_inj. Qed.
Lemma month_end_inj : forall a b, month_end a = month_end b -> a = b.
Proof.
  intros a b E. unfold month_end in E. assert (H : a + 1 = b + 1) by (apply month_start_inj; lia). lia.
Qed.

(* ====================================================================================== *)
(** * 2. Index inverse *)

Lemma resolve_unresolve_dev : forall k ix n, 0 < step_of k ix -> 0 <= n ->
  resolve_dev k ix (unresolve_dev k ix n) = Ok n.
Proof.
  intros k ix n Hs Hn. unfold resolve_dev, unresolve_dev.
  replace (dev_origin ix + n * step_of k ix - dev_origin ix) with (n * step_of k ix) by lia.
  rewrite Z.quot_mul by lia.
  destruct (n <? 0) eqn:E; [lia | reflexivity].
Qed.

Lemma unresolve_resolve_dev : forall k ix lag, 0 < step_of k ix -> dev_origin ix <= lag ->
  (step_of k ix | lag - dev_origin ix) ->
  exists n, resolve_dev k ix lag = Ok n /\ 0 <= n /\ unresolve_dev k ix n = lag.
Proof.
  intros k ix lag Hs Hl [q Hq]. exists q.
  assert (Hq0 : 0 <= q) by nia.
  unfold resolve_dev, unresolve_dev. rewrite Hq, Z.quot_mul by lia.
  destruct (q <? 0) eqn:E; [lia|]. repeat split; lia.
Qed.

Lemma resolve_dev_injective : forall k ix l1 l2 n, 0 < step_of k ix ->
  dev_origin ix <= l1 -> dev_origin ix <= l2 ->
  (step_of k ix | l1 - dev_origin ix) -> (step_of k ix | l2 - dev_origin ix) ->
  resolve_dev k ix l1 = Ok n -> resolve_dev k ix l2 = Ok n -> l1 = l2.
Proof.
  intros k ix l1 l2 n Hs H1 H2 D1 D2 R1 R2.
  destruct (unresolve_resolve_dev k ix l1 Hs H1 D1) as [n1 [E1 [_ U1]]].
  destruct (unresolve_resolve_dev k ix l2 Hs H2 D2) as [n2 [E2 [_ U2]]].
  rewrite R1 in E1. rewrite R2 in E2. inversion E1. inversion E2. subst. reflexivity.
Qed.

Lemma nested_step_divides : forall ix a b, 0 < dev_res ix -> 0 < exp_res ix ->
  ((dev_res ix | exp_res ix) \/ (exp_res ix | dev_res ix)) ->
  (dev_res ix | a) -> (exp_res ix | b) -> (step_of SMin ix | a - b).
Proof.
  intros ix a b Hd He Hn Da Db. unfold step_of.
  destruct Hn as [Hn | Hn].
  - assert (dev_res ix <= exp_res ix) by (apply Z.divide_pos_le; assumption).
    rewrite Z.min_l by lia. apply Z.divide_sub_r; [assumption|].
    apply (Z.divide_trans _ (exp_res ix)); assumption.
  - assert (exp_res ix <= dev_res ix) by (apply Z.divide_pos_le; assumption).
    rewrite Z.min_r by lia. apply Z.divide_sub_r; [|assumption].
    apply (Z.divide_trans _ (dev_res ix)); assumption.
Qed.

(* F12: index built with min(dev_res, exp_res), inverse with dev_res *)
Lemma mixed_steps_refuted : exists ix lag,
  0 < dev_res ix /\ 0 < exp_res ix /\ dev_origin ix <= lag /\
  (step_of SMin ix | lag - dev_origin ix) /\
  match resolve_dev SMin ix lag with
  | Ok n => unresolve_dev SDev ix n <> lag
  | Err _ => False
  end.
Proof.
  exists (mkIx [] [] 0 12 0 24), 24.
  split; [reflexivity|]. split; [reflexivity|]. split; [discriminate|].
  split; [exists 2; reflexivity|].
  vm_compute. discriminate.
Qed.

Lemma resolve_unresolve_exp : forall ix n, 0 < exp_res ix -> 0 <= n ->
  MINID <= exp_origin ix + n * exp_res ix ->
  resolve_exp ix (unresolve_exp_start ix n) = Ok n.
Proof.
  intros ix n He Hn Hr. unfold resolve_exp, unresolve_exp_start.
  rewrite (month_id_start _ Hr).
  replace (exp_origin ix + n * exp_res ix - exp_origin ix) with (n * exp_res ix) by lia.
  rewrite Z.div_mul by lia.
  destruct (n <? 0) eqn:E; [lia | reflexivity].
Qed.

Lemma unresolve_resolve_exp : forall ix s, 0 < exp_res ix -> exp_origin ix <= s -> MINID <= s ->
  (exp_res ix | s - exp_origin ix) ->
  exists p, resolve_exp ix (month_start s) = Ok p /\ 0 <= p /\ exp_origin ix + p * exp_res ix = s.
Proof.
  intros ix s He Ho Hs [q Hq]. exists q.
  assert (Hq0 : 0 <= q) by nia.
  unfold resolve_exp. rewrite (month_id_start s Hs), Hq, Z.div_mul by lia.
  destruct (q <? 0) eqn:E; [lia|]. repeat split; lia.
Qed.

(* ====================================================================================== *)
(** * 3. Cell level: the indices of a grid cell turn back into its coordinates *)

Lemma coords_roundtrip : forall k ix s lag,
  0 < exp_res ix -> 0 < step_of k ix ->
  (exp_res ix | s - exp_origin ix) -> exp_origin ix <= s ->
  dev_origin ix <= lag -> (step_of k ix | lag - dev_origin ix) ->
  MINID <= s ->
  exists p d,
    resolve_exp ix (month_start s) = Ok p /\ resolve_dev k ix lag = Ok d /\
    cell_coords_from_index k ix p d
    = (month_start s, month_end (s + exp_res ix - 1), month_end (s + exp_res ix - 1 + lag)).
Proof.
  intros k ix s lag He Hk De Ho Hl Dl Hs0.
  destruct (unresolve_resolve_exp ix s He Ho Hs0 De) as [p [Ep [Hp Up]]].
  destruct (unresolve_resolve_dev k ix lag Hk Hl Dl) as [d [Ed [Hd Ud]]].
  exists p, d. repeat split; try assumption.
  unfold cell_coords_from_index, unresolve_exp_start, unresolve_exp_end.
  rewrite Ud, Up.
  replace (exp_origin ix + (p + 1) * exp_res ix - 1) with (s + exp_res ix - 1) by lia.
  rewrite addm_month_end by lia. reflexivity.
Qed.

(* ====================================================================================== *)
(** * 4. Array data frame: from_array rebuilds the cells, row by row *)

(* cells of one period row with all entries present *)
Definition arow_cells (f : str) (m : meta) (res s : Z) (lv : list (Z * Z)) : list cell :=
  map (fun '(lag, x) =>
         mkCell KCum (month_start s) (month_end (s + res - 1)) (month_end (s + res - 1 + lag)) None m
                [(f, VNum (Num true x))]) lv.
(* ... with missing (NaN / None) entries skipped *)
Definition arow_cells_opt (f : str) (m : meta) (res s : Z) (lv : list (Z * option Z)) : list cell :=
  flat_map (fun hv => match snd hv with
                      | Some x => [mkCell KCum (month_start s) (month_end (s + res - 1))
                                          (month_end (s + res - 1 + fst hv)) None m [(f, VNum (Num true x))]]
                      | None => []
                      end) lv.
Definition aframe_cells (f : str) (m : meta) (res : Z) (lags : list Z)
           (rows : list (Z * list (option Z))) : list cell :=
  flat_map (fun r => arow_cells_opt f m res (fst r) (combine lags (snd r))) rows.

(* side conditions of one row: period start and period end not before 0001-01 (the header `lags` is
   kept as an argument only for compatibility with Proofs/MatrixIxP.v; no condition on the lags) *)
Definition arow_ok (res : Z) (lags : list Z) (s : Z) : Prop :=
  MINID <= s /\ MINID <= s + res - 1.

Lemma arow_cells_opt_some : forall f m res s lags vals,
  arow_cells_opt f m res s (combine lags (map Some vals)) = arow_cells f m res s (combine lags vals).
Proof.
  intros f m res s. induction lags as [|l lags IH]; intros vals; [reflexivity|].
  destruct vals as [|v vals]; [reflexivity|].
  unfold arow_cells_opt, arow_cells in *. cbn [map combine flat_map fst snd app].
  rewrite IH. reflexivity.
Qed.

Lemma from_array_nil : forall lags f r m, from_array (mkAF lags []) f r m = [].
Proof. reflexivity. Qed.
Lemma from_array_app : forall lags rows1 rows2 f r m,
  from_array (mkAF lags (rows1 ++ rows2)) f r m
  = from_array (mkAF lags rows1) f r m ++ from_array (mkAF lags rows2) f r m.
Proof. intros. unfold from_array. cbn [af_rows af_lags]. apply flat_map_app. Qed.
Lemma from_array_cons : forall lags row rows f r m,
  from_array (mkAF lags (row :: rows)) f r m
  = from_array (mkAF lags [row]) f r m ++ from_array (mkAF lags rows) f r m.
Proof. intros. apply (from_array_app lags [row] rows). Qed.

Lemma from_array_row_body : forall f m ps e lags (ovals : list (option Z)),
  MINID <= e ->
  flat_map (fun hv : Z * option Z =>
              match snd hv with
              | Some x => [mkCell KCum ps (month_end e) (addm (month_end e) (fst hv)) None m
                                  [(f, VNum (Num true x))]]
              | None => []
              end) (combine lags ovals)
  = flat_map (fun hv : Z * option Z =>
              match snd hv with
              | Some x => [mkCell KCum ps (month_end e) (month_end (e + fst hv)) None m
                                  [(f, VNum (Num true x))]]
              | None => []
              end) (combine lags ovals).
Proof.
  intros f m ps e lags ovals He. revert ovals.
  induction lags as [|l lags IH]; intros ovals; [reflexivity|].
  destruct ovals as [|o ovals]; [reflexivity|].
  cbn [combine flat_map fst snd]. rewrite (IH ovals).
  rewrite (addm_month_end e l He). reflexivity.
Qed.

Lemma from_array_row_opt : forall f m res s lags ovals,
  arow_ok res lags s ->
  from_array (mkAF lags [(month_start s, ovals)]) f res m
  = arow_cells_opt f m res s (combine lags ovals).
Proof.
  intros f m res s lags ovals (Hs & Hpe).
  unfold from_array, arow_cells_opt. cbn [af_rows af_lags flat_map fst snd].
  rewrite app_nil_r.
  rewrite (addm_start_pred_is_end s res) by exact Hs.
  apply from_array_row_body. exact Hpe.
Qed.

Lemma from_array_row : forall f m res s lags vals,
  arow_ok res lags s -> length lags = length vals ->
  from_array (mkAF lags [(month_start s, map Some vals)]) f res m
  = arow_cells f m res s (combine lags vals).
Proof.
  intros f m res s lags vals Hok _.
  rewrite (from_array_row_opt f m res s lags (map Some vals) Hok).
  apply arow_cells_opt_some.
Qed.

Lemma from_array_rows : forall f m res lags (rows : list (Z * list (option Z))),
  Forall (fun r => arow_ok res lags (fst r)) rows ->
  from_array (mkAF lags (map (fun r => (month_start (fst r), snd r)) rows)) f res m
  = aframe_cells f m res lags rows.
Proof.
  intros f m res lags rows. induction rows as [|[s ov] rows IH]; intros HF; [reflexivity|].
  inversion HF as [|? ? Hr HF']; subst.
  cbn [map fst snd]. rewrite from_array_cons, (IH HF').
  transitivity (arow_cells_opt f m res s (combine lags ov) ++ aframe_cells f m res lags rows);
    [|reflexivity].
  f_equal. exact (from_array_row_opt f m res s lags ov Hr).
Qed.

(* every rebuilt cell carries its lag: cell_lag reads back the column name *)
Lemma arow_cells_opt_lag : forall f m res s lv c,
  MINID <= s + res - 1 ->
  Forall (fun hv => MINID <= s + res - 1 + fst hv) lv ->
  In c (arow_cells_opt f m res s lv) ->
  exists lag x, In (lag, Some x) lv /\ cell_lag c = lag /\ ps c = month_start s /\
                pe c = month_end (s + res - 1) /\ cvals c = [(f, VNum (Num true x))].
Proof.
  intros f m res s lv c He HF Hin. unfold arow_cells_opt in Hin.
  apply in_flat_map in Hin. destruct Hin as [[lag ox] [Hlv Hc]].
  rewrite Forall_forall in HF. pose proof (HF _ Hlv) as Hr. cbn [fst snd] in *.
  destruct ox as [x|]; [|contradiction].
  destruct Hc as [Hc|[]]. subst c. exists lag, x. cbn [ps pe ev cvals].
  unfold cell_lag. cbn [pe ev]. rewrite lag_months_ends by lia.
  repeat split; try assumption. lia.
Qed.

(* ====================================================================================== *)
(** * 5a. Facts about the index computed by index_from_triangle (towards the Matrix theorem) *)

Lemma list_min_le_d : forall l d, list_min d l <= d.
Proof.
  unfold list_min. induction l as [|a l IH]; intros d; cbn [fold_left]; [lia|].
  specialize (IH (Z.min d a)). lia.
Qed.
Lemma list_min_le_in : forall l d x, In x l -> list_min d l <= x.
Proof.
  unfold list_min. induction l as [|a l IH]; intros d x Hin; [contradiction|].
  cbn [fold_left]. destruct Hin as [->|Hin].
  - pose proof (list_min_le_d l (Z.min d x)) as H. unfold list_min in H. lia.
  - apply IH. exact Hin.
Qed.
Lemma list_min_in : forall l d, list_min d l = d \/ In (list_min d l) l.
Proof.
  unfold list_min. induction l as [|a l IH]; intros d; cbn [fold_left]; [left; reflexivity|].
  destruct (IH (Z.min d a)) as [H|H].
  - rewrite H. destruct (Z.min_spec d a) as [[_ E]|[_ E]]; rewrite E; [left; reflexivity|right; left; reflexivity].
  - right. right. exact H.
Qed.
(* the minimum of a non-empty list, as used by index_from_triangle: list_min (head) (whole list) *)
Lemma list_min_head_le : forall x r y, In y (x :: r) -> list_min x (x :: r) <= y.
Proof. intros. apply list_min_le_in. assumption. Qed.
Lemma list_min_head_in : forall x r, In (list_min x (x :: r)) (x :: r).
Proof. intros. destruct (list_min_in (x :: r) x) as [H|H]; [rewrite H; left; reflexivity|exact H]. Qed.
Lemma list_min_head_dup : forall x r, list_min x (x :: r) = list_min x r.
Proof. intros. unfold list_min. cbn [fold_left]. rewrite Z.min_id. reflexivity. Qed.

Lemma gcd_fold_divides : forall m l g0,
  let G := fold_left (fun g y => Z.gcd g (y - m)) l g0 in
  (G | g0) /\ forall y, In y l -> (G | y - m).
Proof.
  intros m. induction l as [|a l IH]; intros g0; cbn [fold_left].
  - split; [apply Z.divide_refl|intros y []].
  - destruct (IH (Z.gcd g0 (a - m))) as [H1 H2]. split.
    + eapply Z.divide_trans; [exact H1|apply Z.gcd_divide_l].
    + intros y [->|Hy]; [|apply H2; exact Hy].
      eapply Z.divide_trans; [exact H1|apply Z.gcd_divide_r].
Qed.
Lemma gcd_fold_nonneg : forall m l g0, 0 <= g0 -> 0 <= fold_left (fun g y => Z.gcd g (y - m)) l g0.
Proof.
  intros m. induction l as [|a l IH]; intros g0 H; cbn [fold_left]; [exact H|].
  apply IH. apply Z.gcd_nonneg.
Qed.

Lemma gcd_offsets_nonneg : forall l, 0 <= gcd_offsets l.
Proof. intros [|x r]; [reflexivity|]. unfold gcd_offsets. apply gcd_fold_nonneg. lia. Qed.
Lemma gcd_offsets_divides : forall x r y, In y (x :: r) ->
  (gcd_offsets (x :: r) | y - list_min x r).
Proof.
  intros x r y Hy. unfold gcd_offsets.
  destruct (gcd_fold_divides (list_min x r) (x :: r) 0) as [_ H]. apply H. exact Hy.
Qed.
(* any two entries differ by a multiple of the gcd *)
Lemma gcd_offsets_divides_diff : forall l y z, In y l -> In z l -> (gcd_offsets l | y - z).
Proof.
  intros [|x r] y z Hy Hz; [contradiction|].
  replace (y - z) with ((y - list_min x r) - (z - list_min x r)) by lia.
  apply Z.divide_sub_r; apply gcd_offsets_divides; assumption.
Qed.
Lemma gcd_offsets_pos : forall l y z, In y l -> In z l -> y <> z -> 0 < gcd_offsets l.
Proof.
  intros l y z Hy Hz Hne. pose proof (gcd_offsets_nonneg l) as H0.
  destruct (Z.eq_dec (gcd_offsets l) 0) as [E|E]; [|lia].
  pose proof (gcd_offsets_divides_diff l y z Hy Hz) as [q Hq]. rewrite E in Hq. lia.
Qed.

(* what index_from_triangle returns *)
Lemma index_from_triangle_inv : forall t fields ix,
  index_from_triangle t fields = Ok ix ->
  exists c0 t', t = c0 :: t' /\ fields <> [] /\
    ix = mkIx (dedup meta_seqb (map cmeta t)) fields
              (list_min (month_id (ps c0)) (map (fun c => month_id (ps c)) t))
              (gcd_offsets (map (fun c => month_id (ps c)) t ++ map (fun c => month_id (pe c) + 1) t))
              (list_min (cell_lag c0) (map cell_lag t))
              (gcd_offsets (map (fun c => month_id (ev c)) t)) /\
    gcd_offsets (map (fun c => month_id (ev c)) t) <> 0.
Proof.
  intros t fields ix H. unfold index_from_triangle in H.
  destruct t as [|c0 t']; [discriminate|]. exists c0, t'.
  destruct (gcd_offsets (map (fun c => month_id (ev c)) (c0 :: t')) =? 0) eqn:Eg; [discriminate|].
  destruct fields as [|f0 fs]; [discriminate|].
  inversion H. repeat split; try reflexivity; [discriminate | lia].
Qed.

(* every cell of the triangle lies on the grid of the computed index *)
Lemma index_from_triangle_grid : forall t fields ix,
  index_from_triangle t fields = Ok ix ->
  ix_slices ix = dedup meta_seqb (map cmeta t) /\ ix_fields ix = fields /\ 0 < dev_res ix /\
  (forall c, In c t ->
     exp_origin ix <= month_id (ps c) /\
     (exp_res ix | month_id (ps c) - exp_origin ix) /\
     (exp_res ix | month_id (pe c) + 1 - month_id (ps c)) /\
     dev_origin ix <= cell_lag c) /\
  (exists c1, In c1 t /\ dev_origin ix = cell_lag c1) /\
  (forall c c', In c t -> In c' t ->
     (dev_res ix | month_id (ev c) - month_id (ev c')) /\
     (exp_res ix | month_id (pe c) - month_id (pe c'))).
Proof.
  intros t fields ix H.
  destruct (index_from_triangle_inv t fields ix H) as (c0 & t' & -> & Hf & -> & Hg).
  cbn [ix_slices ix_fields exp_origin exp_res dev_origin dev_res].
  set (t := c0 :: t') in *.
  set (starts := map (fun c => month_id (ps c)) t).
  set (nexts := map (fun c => month_id (pe c) + 1) t).
  assert (Hs : forall c, In c t -> In (month_id (ps c)) (starts ++ nexts))
    by (intros c Hc; apply in_or_app; left; apply (in_map (fun c => month_id (ps c))); exact Hc).
  assert (Hn : forall c, In c t -> In (month_id (pe c) + 1) (starts ++ nexts))
    by (intros c Hc; apply in_or_app; right; apply (in_map (fun c => month_id (pe c) + 1)); exact Hc).
  split; [reflexivity|]. split; [reflexivity|].
  split; [pose proof (gcd_offsets_nonneg (map (fun c => month_id (ev c)) t)); lia|].
  split; [|split].
  - intros c Hc.
    assert (Hin0 : In (list_min (month_id (ps c0)) starts) (starts ++ nexts)).
    { apply in_or_app. left. exact (list_min_head_in (month_id (ps c0)) _). }
    split; [apply list_min_le_in; apply (in_map (fun c => month_id (ps c))); exact Hc|].
    split; [apply gcd_offsets_divides_diff; [apply Hs; exact Hc|exact Hin0]|].
    split; [apply gcd_offsets_divides_diff; [apply Hn; exact Hc|apply Hs; exact Hc]|].
    apply list_min_le_in. apply in_map. exact Hc.
  - pose proof (list_min_head_in (cell_lag c0) (map cell_lag t')) as Hin.
    change (cell_lag c0 :: map cell_lag t') with (map cell_lag t) in Hin.
    apply in_map_iff in Hin. destruct Hin as [c1 [E Hc1]]. exists c1. split; [exact Hc1|].
    symmetry. exact E.
  - intros c c' Hc Hc'. split.
    + apply gcd_offsets_divides_diff; apply (in_map (fun c => month_id (ev c))); assumption.
    + replace (month_id (pe c) - month_id (pe c')) with ((month_id (pe c) + 1) - (month_id (pe c') + 1)) by lia.
      apply gcd_offsets_divides_diff; apply Hn; assumption.
Qed.

(* nested resolutions: every lag is dev_origin + a multiple of min(dev_res, exp_res) *)
Lemma index_from_triangle_lag_grid : forall t fields ix,
  index_from_triangle t fields = Ok ix -> 0 < exp_res ix ->
  ((dev_res ix | exp_res ix) \/ (exp_res ix | dev_res ix)) ->
  forall c, In c t -> (step_of SMin ix | cell_lag c - dev_origin ix).
Proof.
  intros t fields ix H He Hn c Hc.
  destruct (index_from_triangle_grid t fields ix H) as (_ & _ & Hd & _ & (c1 & Hc1 & E) & Hdiff).
  rewrite E. unfold cell_lag, lag_months.
  replace (month_id (ev c) - month_id (pe c) - (month_id (ev c1) - month_id (pe c1)))
    with ((month_id (ev c) - month_id (ev c1)) - (month_id (pe c) - month_id (pe c1))) by lia.
  destruct (Hdiff c c1 Hc Hc1) as [D1 D2].
  apply nested_step_divides; assumption.
Qed.

(* a triangle with a cell whose period is non-empty has a positive experience resolution *)
Lemma index_from_triangle_exp_res_pos : forall t fields ix c,
  index_from_triangle t fields = Ok ix -> In c t -> month_id (ps c) <= month_id (pe c) ->
  0 < exp_res ix.
Proof.
  intros t fields ix c H Hc Hle.
  destruct (index_from_triangle_inv t fields ix H) as (c0 & t' & -> & Hf & -> & Hg).
  cbn [exp_res].
  apply (gcd_offsets_pos _ (month_id (ps c)) (month_id (pe c) + 1)); [| |lia].
  - apply in_or_app; left. apply (in_map (fun c => month_id (ps c))). exact Hc.
  - apply in_or_app; right. apply (in_map (fun c => month_id (pe c) + 1)). exact Hc.
Qed.

(* ====================================================================================== *)
(** * 5b. Generic list lemmas (towards the Matrix theorem) *)

Lemma mx_list_eqb_eq {A} (eqb : A -> A -> bool) :
  (forall a b, eqb a b = true <-> a = b) ->
  forall l1 l2, list_eqb eqb l1 l2 = true <-> l1 = l2.
Proof.
  intros H l1; induction l1 as [|a l1 IH]; destruct l2 as [|b l2]; cbn [list_eqb]; split; intros E;
    try congruence; try discriminate.
  - apply andb_true_iff in E as [E1 E2]. apply H in E1. apply IH in E2. congruence.
  - inversion E; subst. apply andb_true_iff; split; [now apply H | now apply IH].
Qed.
Lemma mx_str_eqb_eq a b : str_eqb a b = true <-> a = b.
Proof. apply mx_list_eqb_eq. intros; apply Z.eqb_eq. Qed.
Lemma mx_opt_eqb_eq {A} (eqb : A -> A -> bool) :
  (forall a b, eqb a b = true <-> a = b) ->
  forall x y, opt_eqb eqb x y = true <-> x = y.
Proof.
  intros H [a|] [b|]; cbn [opt_eqb]; split; intros E; try congruence; try discriminate.
  - apply H in E; congruence.
  - inversion E; now apply H.
Qed.
Lemma mx_num_seqb_eq a b : num_seqb a b = true <-> a = b.
Proof.
  destruct a as [f n], b as [g m]; unfold num_seqb; cbn [num_isf num_n].
  rewrite andb_true_iff, eqb_true_iff, Z.eqb_eq. split; [intros [-> ->]; auto | inversion 1; auto].
Qed.
Lemma mx_mval_seqb_eq a b : mval_seqb a b = true <-> a = b.
Proof.
  destruct a, b; cbn [mval_seqb]; try (split; intros E; [discriminate | congruence]); try tauto.
  - rewrite mx_str_eqb_eq. split; [congruence | inversion 1; auto].
  - rewrite mx_num_seqb_eq. split; [congruence | inversion 1; auto].
  - rewrite eqb_true_iff. split; [congruence | inversion 1; auto].
  - rewrite Z.eqb_eq. split; [congruence | inversion 1; auto].
Qed.
Lemma mx_pair_eqb_eq {A B} (ea : A -> A -> bool) (eb : B -> B -> bool) :
  (forall a b, ea a b = true <-> a = b) -> (forall a b, eb a b = true <-> a = b) ->
  forall x y, pair_eqb ea eb x y = true <-> x = y.
Proof.
  intros Ha Hb [a b] [a' b']; unfold pair_eqb; cbn [fst snd]. rewrite andb_true_iff, Ha, Hb.
  split; [intros [-> ->]; auto | inversion 1; auto].
Qed.
Lemma mx_meta_seqb_eq a b : meta_seqb a b = true <-> a = b.
Proof.
  destruct a, b; unfold meta_seqb; simpl.
  rewrite !andb_true_iff.
  rewrite !(mx_opt_eqb_eq str_eqb mx_str_eqb_eq), (mx_opt_eqb_eq num_seqb mx_num_seqb_eq).
  rewrite !(mx_list_eqb_eq _ (mx_pair_eqb_eq _ _ mx_str_eqb_eq mx_mval_seqb_eq)).
  split.
  - intros [[[[[[[-> ->] ->] ->] ->] ->] ->] ->]; reflexivity.
  - inversion 1; subst; repeat split; reflexivity.
Qed.

Lemma flat_map_ext_in' {A B} (f g : A -> list B) l :
  (forall a, In a l -> f a = g a) -> flat_map f l = flat_map g l.
Proof.
  induction l as [|a l IH]; intros H; [reflexivity|]. cbn [flat_map].
  rewrite (H a (or_introl eq_refl)), IH; [reflexivity|]. intros; apply H; right; assumption.
Qed.
Lemma flat_map_map' {A B C} (f : A -> B) (g : B -> list C) l :
  flat_map g (map f l) = flat_map (fun a => g (f a)) l.
Proof. induction l as [|a l IH]; [reflexivity|]. cbn [map flat_map]. rewrite IH. reflexivity. Qed.
Lemma flat_map_nil' {A B} (f : A -> list B) l : (forall a, In a l -> f a = []) -> flat_map f l = [].
Proof.
  induction l as [|a l IH]; intros H; [reflexivity|]. cbn [flat_map].
  rewrite (H a (or_introl eq_refl)), IH; [reflexivity|]. intros; apply H; right; assumption.
Qed.
Lemma flat_map_singleton_map {A B} (f : A -> B) l : flat_map (fun a => [f a]) l = map f l.
Proof. induction l as [|a l IH]; [reflexivity|]. cbn [map flat_map app]. rewrite IH. reflexivity. Qed.
Lemma flat_map_prod {A B C} (h : A -> B -> list C) la lb :
  flat_map (fun a => flat_map (fun b => h a b) lb) la
  = flat_map (fun ab => h (fst ab) (snd ab)) (list_prod la lb).
Proof.
  induction la as [|a la IH]; [reflexivity|]. cbn [flat_map list_prod].
  rewrite flat_map_app, <- IH, flat_map_map'. reflexivity.
Qed.

Lemma NoDup_app' {A} (l1 l2 : list A) :
  NoDup l1 -> NoDup l2 -> (forall x, In x l1 -> ~ In x l2) -> NoDup (l1 ++ l2).
Proof.
  induction l1 as [|a l1 IH]; intros H1 H2 H; [exact H2|].
  inversion H1; subst. cbn [app]. constructor.
  - intros Hin. apply in_app_or in Hin. destruct Hin as [Hin|Hin]; [contradiction|].
    exact (H a (or_introl eq_refl) Hin).
  - apply IH; [assumption|assumption|]. intros x Hx. apply H. right. exact Hx.
Qed.
Lemma NoDup_map_pair {A B} (a : A) (lb : list B) : NoDup lb -> NoDup (map (pair a) lb).
Proof.
  induction 1 as [|b lb Hb Hn IH]; [constructor|]. cbn [map]. constructor; [|exact IH].
  intros Hin. apply in_map_iff in Hin. destruct Hin as [b' [E Hb']]. inversion E; subst. contradiction.
Qed.
Lemma NoDup_list_prod' {A B} (la : list A) (lb : list B) :
  NoDup la -> NoDup lb -> NoDup (list_prod la lb).
Proof.
  intros Ha Hb. induction Ha as [|a la Hna Hn IH]; [constructor|]. cbn [list_prod].
  apply NoDup_app'; [apply NoDup_map_pair; exact Hb|exact IH|].
  intros [a' b'] H1 H2. apply in_map_iff in H1. destruct H1 as [b'' [E _]]. inversion E; subst.
  apply in_prod_iff in H2. destruct H2 as [H2 _]. contradiction.
Qed.
Lemma NoDup_split_at {A} (g : A) l : NoDup l -> In g l ->
  exists l1 l2, l = l1 ++ g :: l2 /\ ~ In g l1 /\ ~ In g l2.
Proof.
  intros Hn Hin. destruct (in_split g l Hin) as [l1 [l2 E]]. exists l1, l2. split; [exact E|].
  subst l. pose proof (NoDup_remove_2 l1 l2 g Hn) as H. split; intros Hx; apply H; apply in_or_app; auto.
Qed.

Lemma flat_map_app_perm {A B} (f g : A -> list B) l :
  Permutation (flat_map (fun a => f a ++ g a) l) (flat_map f l ++ flat_map g l).
Proof.
  induction l as [|a l IH]; [constructor|]. cbn [flat_map].
  rewrite IH. rewrite <- !app_assoc. apply Permutation_app_head.
  rewrite !app_assoc. apply Permutation_app_tail. apply Permutation_app_comm.
Qed.

(* distributing the elements of t over the buckets of a grid, each element in exactly one bucket,
   permutes t *)
Lemma bucket_perm {A K} (sel : K -> A -> bool) (grid : list K) (t : list A) :
  (forall c, In c t -> exists g1 g g2, grid = g1 ++ g :: g2 /\ sel g c = true /\
                                       (forall g', In g' g1 \/ In g' g2 -> sel g' c = false)) ->
  Permutation (flat_map (fun g => filter (fun c => sel g c) t) grid) t.
Proof.
  induction t as [|c t IH]; intros H.
  - rewrite flat_map_nil'; [constructor|reflexivity].
  - cbn [filter].
    assert (E : flat_map (fun g => if sel g c then c :: filter (fun c0 => sel g c0) t
                                   else filter (fun c0 => sel g c0) t) grid
                = flat_map (fun g => (if sel g c then [c] else []) ++ filter (fun c0 => sel g c0) t) grid).
    { apply flat_map_ext. intros g. destruct (sel g c); reflexivity. }
    rewrite E, flat_map_app_perm.
    destruct (H c (or_introl eq_refl)) as (g1 & g & g2 & -> & Hs & Ho).
    rewrite (flat_map_app (fun g0 => if sel g0 c then [c] else [])). cbn [flat_map]. rewrite Hs.
    rewrite (flat_map_nil' _ g1), (flat_map_nil' _ g2).
    + cbn [app]. constructor. apply IH. intros c' Hc'. apply H. right. exact Hc'.
    + intros g' Hg'. rewrite (Ho g' (or_intror Hg')). reflexivity.
    + intros g' Hg'. rewrite (Ho g' (or_introl Hg')). reflexivity.
Qed.

(* ---------- index_of / zrange / dedup ---------- *)
Section IndexOf.
  Context {A : Type} (eqb : A -> A -> bool).
  Hypothesis eqb_eq : forall a b, eqb a b = true <-> a = b.

  Lemma index_of_nonneg : forall l a i, index_of eqb a l = Some i -> 0 <= i.
  Proof.
    induction l as [|x r IH]; intros a i H; cbn [index_of] in H; [discriminate|].
    destruct (eqb a x); [inversion H; lia|].
    destruct (index_of eqb a r) as [j|] eqn:E; [|discriminate].
    cbn [option_map] in H. inversion H. specialize (IH a j E). lia.
  Qed.
  Lemma index_of_inj : forall l a b i,
    index_of eqb a l = Some i -> index_of eqb b l = Some i -> a = b.
  Proof.
    induction l as [|x r IH]; intros a b i Ha Hb; cbn [index_of] in *; [discriminate|].
    destruct (eqb a x) eqn:Ea, (eqb b x) eqn:Eb.
    - apply eqb_eq in Ea, Eb. congruence.
    - inversion Ha; subst. destruct (index_of eqb b r) as [j|] eqn:E; [|discriminate].
      cbn [option_map] in Hb. inversion Hb. pose proof (index_of_nonneg r b j E). lia.
    - inversion Hb; subst. destruct (index_of eqb a r) as [j|] eqn:E; [|discriminate].
      cbn [option_map] in Ha. inversion Ha. pose proof (index_of_nonneg r a j E). lia.
    - destruct (index_of eqb a r) as [j|] eqn:E1; [|discriminate].
      destruct (index_of eqb b r) as [j'|] eqn:E2; [|discriminate].
      cbn [option_map] in *. inversion Ha. inversion Hb. apply (IH a b j); [exact E1|].
      rewrite E2. f_equal. lia.
  Qed.
  Lemma index_of_in : forall l a, In a l -> exists i, index_of eqb a l = Some i.
  Proof.
    induction l as [|x r IH]; intros a Hin; [contradiction|]. cbn [index_of].
    destruct (eqb a x) eqn:E; [exists 0; reflexivity|].
    destruct Hin as [->|Hin]; [assert (eqb a a = true) by (apply eqb_eq; reflexivity); congruence|].
    destruct (IH a Hin) as [i Hi]. rewrite Hi. exists (Z.succ i). reflexivity.
  Qed.

  Definition idx (l : list A) (a : A) : Z := match index_of eqb a l with Some i => i | None => 0 end.

  Lemma zrange_S : forall n, zrange (Z.of_nat (S n)) = 0 :: map Z.succ (zrange (Z.of_nat n)).
  Proof.
    intros n. unfold zrange. rewrite !Nat2Z.id. cbn [seq map]. f_equal.
    rewrite <- seq_shift, !map_map. apply map_ext. intros a. lia.
  Qed.
  Lemma combine_map_l : forall {X Y Z'} (f : X -> Y) (l : list X) (l' : list Z'),
    combine (map f l) l' = map (fun p => (f (fst p), snd p)) (combine l l').
  Proof.
    induction l as [|x l IH]; intros l'; [reflexivity|]. destruct l' as [|y l']; [reflexivity|].
    cbn [map combine fst snd]. rewrite IH. reflexivity.
  Qed.
  Lemma combine_zrange_idx : forall l, NoDup l ->
    combine (zrange (Z.of_nat (length l))) l = map (fun a => (idx l a, a)) l.
  Proof.
    induction l as [|x r IH]; intros Hn; [reflexivity|].
    inversion Hn as [|? ? Hx Hr]; subst. cbn [length]. rewrite zrange_S. cbn [combine map].
    f_equal.
    - unfold idx. cbn [index_of]. assert (E : eqb x x = true) by (apply eqb_eq; reflexivity).
      rewrite E. reflexivity.
    - rewrite combine_map_l, (IH Hr), map_map. apply map_ext_in. intros a Ha. cbn [fst snd].
      f_equal. unfold idx. cbn [index_of].
      destruct (eqb a x) eqn:E; [apply eqb_eq in E; subst; contradiction|].
      destruct (index_of_in r a Ha) as [i Hi]. rewrite Hi. reflexivity.
  Qed.
  Lemma idx_index_of : forall l a, In a l -> index_of eqb a l = Some (idx l a).
  Proof. intros l a H. unfold idx. destruct (index_of_in l a H) as [i Hi]. rewrite Hi. reflexivity. Qed.
  Lemma idx_inj : forall l a b, In a l -> In b l -> idx l a = idx l b -> a = b.
  Proof.
    intros l a b Ha Hb E. apply (index_of_inj l a b (idx l a)); [apply idx_index_of; exact Ha|].
    rewrite E. apply idx_index_of. exact Hb.
  Qed.

  Lemma dedup_in : forall l a, In a l -> In a (dedup eqb l).
  Proof.
    induction l as [|x r IH]; intros a Hin; [contradiction|]. cbn [dedup].
    destruct (eqb a x) eqn:E; [apply eqb_eq in E; subst; left; reflexivity|].
    destruct Hin as [->|Hin]; [left; reflexivity|]. right. apply filter_In. split; [apply IH; exact Hin|].
    rewrite E. reflexivity.
  Qed.
  Lemma dedup_NoDup : forall l, NoDup (dedup eqb l).
  Proof.
    induction l as [|x r IH]; [constructor|]. cbn [dedup]. constructor; [|apply NoDup_filter; exact IH].
    intros Hin. apply filter_In in Hin. destruct Hin as [_ H].
    assert (E : eqb x x = true) by (apply eqb_eq; reflexivity). rewrite E in H. discriminate.
  Qed.
End IndexOf.

Lemma zrange_In : forall n i, In i (zrange n) <-> 0 <= i < n.
Proof.
  intros n i. unfold zrange. rewrite in_map_iff. split.
  - intros [x [E Hx]]. apply in_seq in Hx. lia.
  - intros H. exists (Z.to_nat i). split; [lia|]. apply in_seq. lia.
Qed.
Lemma zrange_NoDup : forall n, NoDup (zrange n).
Proof.
  intros n. unfold zrange. generalize (seq_NoDup (Z.to_nat n) 0). generalize (seq 0 (Z.to_nat n)).
  induction 1 as [|a l Ha Hn IH]; [constructor|]. cbn [map]. constructor; [|exact IH].
  intros Hin. apply in_map_iff in Hin. destruct Hin as [b [E Hb]].
  apply Nat2Z.inj in E. subst. contradiction.
Qed.

Lemma list_max_ge_d : forall l d, d <= list_max d l.
Proof.
  unfold list_max. induction l as [|a l IH]; intros d; cbn [fold_left]; [lia|].
  specialize (IH (Z.max d a)). lia.
Qed.
Lemma list_max_ge_in : forall l d x, In x l -> x <= list_max d l.
Proof.
  unfold list_max. induction l as [|a l IH]; intros d x Hin; [contradiction|].
  cbn [fold_left]. destruct Hin as [->|Hin].
  - pose proof (list_max_ge_d l (Z.max d x)) as H. unfold list_max in H. lia.
  - apply IH. exact Hin.
Qed.
Lemma list_max_in : forall l d, list_max d l = d \/ In (list_max d l) l.
Proof.
  unfold list_max. induction l as [|a l IH]; intros d; cbn [fold_left]; [left; reflexivity|].
  destruct (IH (Z.max d a)) as [H|H].
  - rewrite H. destruct (Z.max_spec d a) as [[_ E]|[_ E]]; rewrite E; [right; left; reflexivity|left; reflexivity].
  - right. right. exact H.
Qed.

(* ====================================================================================== *)
(** * 5c. What triangle_to_matrix writes and what a look-up returns *)

Definition key3_eqb (a b : Z * Z * Z) : bool :=
  let '(a1, a2, a3) := a in let '(b1, b2, b3) := b in (a1 =? b1) && (a2 =? b2) && (a3 =? b3).
Lemma key3_eqb_eq a b : key3_eqb a b = true <-> a = b.
Proof.
  destruct a as [[a1 a2] a3], b as [[b1 b2] b3]. unfold key3_eqb. rewrite !andb_true_iff, !Z.eqb_eq.
  split; [intros [[-> ->] ->]; reflexivity | inversion 1; auto].
Qed.
Lemma mkey_eqb_eq a b : mkey_eqb a b = true <-> a = b.
Proof.
  destruct a as [[[a1 a2] a3] a4], b as [[[b1 b2] b3] b4]. unfold mkey_eqb.
  rewrite !andb_true_iff, !Z.eqb_eq.
  split; [intros [[[-> ->] ->] ->]; reflexivity | inversion 1; auto].
Qed.

Lemma mlookup_app k a b :
  mlookup k (a ++ b) = match mlookup k a with Some v => Some v | None => mlookup k b end.
Proof.
  induction a as [|[k' v] a IH]; [reflexivity|]. cbn [app mlookup].
  destruct (mkey_eqb k k'); [reflexivity|exact IH].
Qed.
Lemma mlookup_none k d : (forall e, In e d -> fst e <> k) -> mlookup k d = None.
Proof.
  induction d as [|[k' v] d IH]; intros H; [reflexivity|]. cbn [mlookup].
  destruct (mkey_eqb k k') eqn:E.
  - apply mkey_eqb_eq in E. exfalso. apply (H (k', v)); [left; reflexivity|cbn [fst]; congruence].
  - apply IH. intros; apply H; right; assumption.
Qed.
Lemma mlookup_in_nodup k v d : NoDup (map fst d) -> In (k, v) d -> mlookup k d = Some v.
Proof.
  induction d as [|[k' v'] d IH]; intros Hn Hin; [contradiction|].
  cbn [map fst] in Hn. inversion Hn as [|? ? Hk' Hd]; subst. cbn [mlookup].
  destruct Hin as [E|Hin].
  - inversion E; subst. rewrite (proj2 (mkey_eqb_eq k k) eq_refl). reflexivity.
  - destruct (mkey_eqb k k') eqn:E.
    + apply mkey_eqb_eq in E; subst. exfalso. apply Hk'. apply (in_map fst) in Hin. exact Hin.
    + apply IH; assumption.
Qed.

Section Written.
  Variables (msp : matrix_spec) (ix : mindex) (k : stepkind).
  Hypothesis Hk : ms_resolve_step msp = k.

  Definition si_of (c : cell) : Z := idx meta_seqb (ix_slices ix) (cmeta c).
  Definition p_of (c : cell) : Z := match resolve_exp ix (ps c) with Ok p => p | Err _ => 0 end.
  Definition d_of (c : cell) : Z := match resolve_dev k ix (cell_lag c) with Ok d => d | Err _ => 0 end.
  Definition vnum (v : value) : Z := match v with VNum x => num_n x | _ => 0 end.
  Definition ckey (c : cell) : Z * Z * Z := (si_of c, p_of c, d_of c).
  Definition entry (c : cell) (fv : str * value) : mkey * Z :=
    ((si_of c, idx str_eqb (ix_fields ix) (fst fv), p_of c, d_of c), vnum (snd fv)).
  Definition cell_entries (c : cell) : list (mkey * Z) := rev (map (entry c) (cvals c)).
  Definition writable (c : cell) : Prop :=
    In (cmeta c) (ix_slices ix) /\ (exists p, resolve_exp ix (ps c) = Ok p) /\
    (exists d, resolve_dev k ix (cell_lag c) = Ok d) /\
    Forall (fun fv => In (fst fv) (ix_fields ix) /\ exists x, snd fv = VNum x) (cvals c).

  Lemma write_cell_ok : forall c d0, writable c ->
    write_cell msp ix (Ok d0) c = Ok (cell_entries c ++ d0).
  Proof.
    intros c d0 (Hm & [p Hp] & [d Hd] & HF). unfold write_cell, cell_entries.
    rewrite (idx_index_of meta_seqb mx_meta_seqb_eq _ _ Hm), Hp, Hk, Hd. cbn [bind].
    assert (Ee : forall fv x, snd fv = VNum x ->
              entry c fv = ((idx meta_seqb (ix_slices ix) (cmeta c), idx str_eqb (ix_fields ix) (fst fv), p, d),
                            num_n x)).
    { intros fv x Hx. unfold entry, si_of, p_of, d_of, vnum. rewrite Hp, Hd, Hx. reflexivity. }
    set (l := cvals c) in *. clearbody l. revert d0.
    induction HF as [|fv l [Hf [x Hx]] HF IH]; intros d0; [reflexivity|].
    cbn [fold_left map rev bind].
    rewrite (idx_index_of str_eqb mx_str_eqb_eq _ _ Hf), Hx.
    rewrite IH, (Ee fv x Hx), <- app_assoc. reflexivity.
  Qed.

  Lemma fold_write_ok : forall t, (forall c, In c t -> writable c) -> forall d0,
    fold_left (write_cell msp ix) t (Ok d0) = Ok (flat_map cell_entries (rev t) ++ d0).
  Proof.
    induction t as [|c t IH]; intros H d0; [reflexivity|]. cbn [fold_left rev].
    rewrite write_cell_ok by (apply H; left; reflexivity).
    rewrite IH by (intros; apply H; right; assumption).
    rewrite flat_map_app. cbn [flat_map]. rewrite app_nil_r, <- app_assoc. reflexivity.
  Qed.

  Lemma entries_key : forall c e, In e (cell_entries c) -> exists fv, In fv (cvals c) /\ e = entry c fv.
  Proof.
    unfold cell_entries. intros c e H. apply in_rev in H. apply in_map_iff in H.
    destruct H as [fv [E H]]. exists fv; auto.
  Qed.
  Lemma mlookup_entries_other : forall c si fi j kk, ckey c <> (si, j, kk) ->
    mlookup (si, fi, j, kk) (cell_entries c) = None.
  Proof.
    intros c si fi j kk H. apply mlookup_none. intros e He.
    destruct (entries_key c e He) as [fv [_ ->]]. unfold entry; cbn [fst]. intros E. apply H.
    unfold ckey. congruence.
  Qed.
  Lemma mlookup_flat_none : forall l si fi j kk, (forall c, In c l -> ckey c <> (si, j, kk)) ->
    mlookup (si, fi, j, kk) (flat_map cell_entries l) = None.
  Proof.
    induction l as [|a l IH]; intros si fi j kk H; [reflexivity|]. cbn [flat_map].
    rewrite mlookup_app, mlookup_entries_other by (apply H; left; reflexivity).
    apply IH. intros; apply H; right; assumption.
  Qed.
  Lemma mlookup_flat_unique : forall l c fi,
    (forall c', In c' l -> ckey c' = ckey c -> c' = c) ->
    (mlookup (si_of c, fi, p_of c, d_of c) (cell_entries c) = None ->
     mlookup (si_of c, fi, p_of c, d_of c) (flat_map cell_entries l) = None) /\
    (In c l -> mlookup (si_of c, fi, p_of c, d_of c) (flat_map cell_entries l)
               = mlookup (si_of c, fi, p_of c, d_of c) (cell_entries c)).
  Proof.
    induction l as [|a l IH]; intros c fi H; [split; [reflexivity|contradiction]|].
    destruct (IH c fi ltac:(intros; apply H; [right; assumption|assumption])) as [IHa IHb].
    cbn [flat_map]. rewrite mlookup_app.
    destruct (key3_eqb (ckey a) (ckey c)) eqn:E.
    - apply key3_eqb_eq in E. assert (a = c) by (apply H; [left; reflexivity|exact E]). subst a.
      split.
      + intros Hn. rewrite Hn. apply IHa; exact Hn.
      + intros _. destruct (mlookup (si_of c, fi, p_of c, d_of c) (cell_entries c)) eqn:Em; [reflexivity|].
        apply IHa. reflexivity.
    - assert (Hne : ckey a <> (si_of c, p_of c, d_of c)).
      { intros X. change (si_of c, p_of c, d_of c) with (ckey c) in X. rewrite X in E.
        rewrite (proj2 (key3_eqb_eq (ckey c) (ckey c)) eq_refl) in E. discriminate. }
      rewrite (mlookup_entries_other a _ fi _ _ Hne). split; [exact IHa|].
      intros [->|Hin]; [exfalso; apply Hne; reflexivity|apply IHb; exact Hin].
  Qed.
End Written.

(* ====================================================================================== *)
(** * 5d. One matrix entry turns back into the cell that was written there *)

Lemma NoDup_map_inj_in {A B} (g : A -> B) l :
  (forall a b, In a l -> In b l -> g a = g b -> a = b) -> NoDup l -> NoDup (map g l).
Proof.
  intros Hinj Hn. induction Hn as [|a l Ha Hn IH]; [constructor|]. cbn [map]. constructor.
  - intros Hin. apply in_map_iff in Hin. destruct Hin as [b [E Hb]].
    assert (b = a) by (apply Hinj; [right; exact Hb|left; reflexivity|exact E]). subst. contradiction.
  - apply IH. intros x y Hx Hy. apply Hinj; right; assumption.
Qed.
Lemma filter_nil_false {A} (f : A -> bool) l : filter f l = [] -> forall x, In x l -> f x = false.
Proof.
  intros E x Hx. destruct (f x) eqn:Ef; [|reflexivity].
  assert (H : In x (filter f l)) by (apply filter_In; auto). rewrite E in H. contradiction.
Qed.
Lemma map_flat_map' {A B C} (f : B -> C) (F : A -> list B) l :
  flat_map (fun g => map f (F g)) l = map f (flat_map F l).
Proof. induction l as [|a l IH]; [reflexivity|]. cbn [flat_map]. rewrite map_app, IH. reflexivity. Qed.
Lemma flat_map_prod3 {A B C D} (h : A -> B -> C -> list D) la lb lc :
  flat_map (fun a => flat_map (fun b => flat_map (fun c => h a b c) lc) lb) la
  = flat_map (fun g => h (fst g) (fst (snd g)) (snd (snd g))) (list_prod la (list_prod lb lc)).
Proof.
  transitivity (flat_map (fun a => flat_map (fun bc => h a (fst bc) (snd bc)) (list_prod lb lc)) la).
  - apply flat_map_ext. intros a. apply (flat_map_prod (h a)).
  - apply (flat_map_prod (fun a bc => h a (fst bc) (snd bc))).
Qed.

(** a cell on the grid of the index [ix], cumulative, with exactly the fields of the index as
    scalar numbers, and metadata that is already float-normalised *)
Definition cell_ok (k : stepkind) (ix : mindex) (c : cell) : Prop :=
  exists s lag,
    ps c = month_start s /\ pe c = month_end (s + exp_res ix - 1) /\
    ev c = month_end (s + exp_res ix - 1 + lag) /\
    MINID <= s /\ MINID <= s + exp_res ix - 1 + lag /\
    exp_origin ix <= s /\ (exp_res ix | s - exp_origin ix) /\
    dev_origin ix <= lag /\ (step_of k ix | lag - dev_origin ix) /\
    ckind c = KCum /\ prev c = None /\
    map fst (cvals c) = ix_fields ix /\ Forall (fun fv => exists x, snd fv = VNum x) (cvals c) /\
    fl_meta (cmeta c) = cmeta c /\ In (cmeta c) (ix_slices ix).

Section MatrixCell.
  Variables (msp : matrix_spec) (ix : mindex) (k : stepkind).
  Hypothesis Hk : ms_resolve_step msp = k.
  Hypothesis Hres : 0 < exp_res ix.
  Hypothesis Hstep : 0 < step_of k ix.
  Hypothesis Hfields : NoDup (ix_fields ix).
  Hypothesis Hfields_ne : ix_fields ix <> [].
  Hypothesis Hslices : NoDup (ix_slices ix).

  Notation si_of' := (si_of ix).
  Notation p_of' := (p_of ix).
  Notation d_of' := (d_of ix k).
  Notation ckey' := (ckey ix k).
  Notation cell_entries' := (cell_entries ix k).

  Lemma cell_ok_keys : forall c, cell_ok k ix c ->
    exists s lag,
      ps c = month_start s /\ pe c = month_end (s + exp_res ix - 1) /\
      ev c = month_end (s + exp_res ix - 1 + lag) /\
      MINID <= s /\ MINID <= s + exp_res ix - 1 + lag /\
      cell_lag c = lag /\
      resolve_exp ix (ps c) = Ok (p_of' c) /\ resolve_dev k ix (cell_lag c) = Ok (d_of' c) /\
      0 <= p_of' c /\ 0 <= d_of' c /\
      s = exp_origin ix + p_of' c * exp_res ix /\ lag = dev_origin ix + d_of' c * step_of k ix.
  Proof.
    intros c (s & lag & Hps & Hpe & Hev & Hs & Hr1 & Ho & De & Hl & Dl & _).
    assert (Hlag : cell_lag c = lag).
    { unfold cell_lag. rewrite Hpe, Hev, lag_months_ends by lia. lia. }
    destruct (unresolve_resolve_exp ix s Hres Ho Hs De) as [p [Ep [Hp Up]]].
    destruct (unresolve_resolve_dev k ix lag Hstep Hl Dl) as [d [Ed [Hd Ud]]].
    unfold unresolve_dev in Ud.
    exists s, lag. unfold p_of, d_of. rewrite Hlag, Hps, Ep, Ed.
    repeat split; try assumption; try lia.
  Qed.

  Lemma cell_ok_writable : forall c, cell_ok k ix c -> writable ix k c.
  Proof.
    intros c Hc. destruct (cell_ok_keys c Hc) as (s & lag & _ & _ & _ & _ & _ & _ & Ep & Ed & _).
    destruct Hc as (_ & _ & _ & _ & _ & _ & _ & _ & _ & _ & _ & _ & _ & Hf & Hv & _ & Hm).
    split; [exact Hm|]. split; [eexists; exact Ep|]. split; [eexists; exact Ed|].
    rewrite Forall_forall in *. intros fv Hfv. split; [|apply Hv; exact Hfv].
    rewrite <- Hf. apply in_map. exact Hfv.
  Qed.

  Lemma ckey_coords : forall c c', cell_ok k ix c -> cell_ok k ix c' -> ckey' c = ckey' c' ->
    cmeta c = cmeta c' /\ ps c = ps c' /\ ev c = ev c'.
  Proof.
    intros c c' Hc Hc' E.
    destruct (cell_ok_keys c Hc) as (s & lag & Hps & _ & Hev & _ & _ & _ & _ & _ & _ & _ & Us & Ul).
    destruct (cell_ok_keys c' Hc') as (s' & lag' & Hps' & _ & Hev' & _ & _ & _ & _ & _ & _ & _ & Us' & Ul').
    destruct Hc as (_ & _ & _ & _ & _ & _ & _ & _ & _ & _ & _ & _ & _ & _ & _ & _ & Hm).
    destruct Hc' as (_ & _ & _ & _ & _ & _ & _ & _ & _ & _ & _ & _ & _ & _ & _ & _ & Hm').
    unfold ckey in E. inversion E as [[E1 E2 E3]].
    split; [apply (idx_inj meta_seqb mx_meta_seqb_eq (ix_slices ix)); assumption|].
    rewrite Hps, Hps', Hev, Hev', Us, Us', Ul, Ul', E2, E3. split; reflexivity.
  Qed.

  Variable t : list cell.
  Hypothesis Hok : forall c, In c t -> cell_ok k ix c.
  Hypothesis Huniq : forall c c', In c t -> In c' t ->
    cmeta c = cmeta c' -> ps c = ps c' -> ev c = ev c' -> c = c'.

  Lemma ckey_unique : forall c c', In c t -> In c' t -> ckey' c' = ckey' c -> c' = c.
  Proof.
    intros c c' Hc Hc' E. destruct (ckey_coords c' c (Hok c' Hc') (Hok c Hc) E) as (E1 & E2 & E3).
    apply Huniq; assumption.
  Qed.

  Lemma entries_NoDup : forall c, cell_ok k ix c -> NoDup (map fst (cell_entries' c)).
  Proof.
    intros c Hc. destruct Hc as (_ & _ & _ & _ & _ & _ & _ & _ & _ & _ & _ & _ & _ & Hf & _).
    unfold cell_entries. rewrite map_rev. apply NoDup_rev. rewrite map_map.
    unfold entry. cbn [fst].
    rewrite <- (map_map fst (fun f => (si_of' c, idx str_eqb (ix_fields ix) f, p_of' c, d_of' c))).
    rewrite Hf. apply NoDup_map_inj_in; [|exact Hfields].
    intros a b Ha Hb E. inversion E. apply (idx_inj str_eqb mx_str_eqb_eq (ix_fields ix)); assumption.
  Qed.

  Let data := flat_map cell_entries' (rev t).

  Lemma lookup_written : forall c fv, In c t -> In fv (cvals c) ->
    mlookup (si_of' c, idx str_eqb (ix_fields ix) (fst fv), p_of' c, d_of' c) data = Some (vnum (snd fv)).
  Proof.
    intros c fv Hc Hfv. unfold data.
    destruct (mlookup_flat_unique ix k (rev t) c (idx str_eqb (ix_fields ix) (fst fv))) as [_ Hb].
    { intros c' Hc' E. apply ckey_unique; [exact Hc|apply in_rev; exact Hc'|exact E]. }
    rewrite Hb by (apply in_rev; rewrite rev_involutive; exact Hc).
    apply mlookup_in_nodup; [apply entries_NoDup; apply Hok; exact Hc|].
    unfold cell_entries. apply in_rev. rewrite rev_involutive.
    apply (in_map (entry ix k c)) in Hfv. exact Hfv.
  Qed.

  Lemma vals_of_cell : forall c, In c t ->
    flat_map (fun fi_f : Z * str =>
                match mlookup (si_of' c, fst fi_f, p_of' c, d_of' c) data with
                | Some x => [(snd fi_f, VNum (Num true x))]
                | None => []
                end)
             (combine (zrange (Z.of_nat (List.length (ix_fields ix)))) (ix_fields ix))
    = map (fun kv => (fst kv, fl_value (snd kv))) (cvals c).
  Proof.
    intros c Hc.
    rewrite (combine_zrange_idx str_eqb mx_str_eqb_eq _ Hfields), flat_map_map'. cbn [fst snd].
    pose proof (Hok c Hc) as (_ & _ & _ & _ & _ & _ & _ & _ & _ & _ & _ & _ & _ & Hf & Hv & _).
    assert (G : forall l, (forall fv, In fv l -> In fv (cvals c)) ->
              flat_map (fun f : str =>
                          match mlookup (si_of' c, idx str_eqb (ix_fields ix) f, p_of' c, d_of' c) data with
                          | Some x => [(f, VNum (Num true x))]
                          | None => []
                          end) (map fst l)
              = map (fun kv => (fst kv, fl_value (snd kv))) l).
    { induction l as [|fv l IH]; intros Hl; [reflexivity|]. cbn [map flat_map].
      rewrite (lookup_written c fv Hc (Hl fv (or_introl eq_refl))).
      rewrite IH by (intros; apply Hl; right; assumption).
      rewrite Forall_forall in Hv. destruct (Hv fv (Hl fv (or_introl eq_refl))) as [x Hx].
      rewrite Hx. reflexivity. }
    rewrite <- (G (cvals c)) by auto. rewrite Hf. reflexivity.
  Qed.

  Variables np nd : Z.
  Let mat := mkMat ix false np nd data.

  Lemma matrix_cell_hit : forall c, In c t ->
    matrix_cell k mat (si_of' c) (cmeta c) (p_of' c) (d_of' c) = [fl_cell c].
  Proof.
    intros c Hc. unfold matrix_cell, mat. cbn [m_index m_data m_incremental].
    rewrite (vals_of_cell c Hc).
    destruct (cell_ok_keys c (Hok c Hc))
      as (s & lag & Hps & Hpe & Hev & Hs & Hr1 & _ & _ & _ & _ & _ & Us & Ul).
    pose proof (Hok c Hc) as (_ & _ & _ & _ & _ & _ & _ & _ & _ & _ & _ & Hkd & Hpv & Hf & _ & Hfm & _).
    destruct (cvals c) as [|fv0 l0] eqn:Ecv.
    { exfalso. apply Hfields_ne. rewrite <- Hf. reflexivity. }
    cbn [map]. unfold fl_cell. rewrite Ecv, Hkd, Hpv, Hfm, Hps, Hpe, Hev. cbn [map].
    unfold unresolve_exp_start, unresolve_exp_end, unresolve_dev. rewrite <- Ul, <- Us.
    replace (exp_origin ix + (p_of' c + 1) * exp_res ix - 1) with (s + exp_res ix - 1) by lia.
    rewrite addm_month_end by lia. reflexivity.
  Qed.

  Lemma matrix_cell_miss : forall si m j kk, (forall c, In c t -> ckey' c <> (si, j, kk)) ->
    matrix_cell k mat si m j kk = [].
  Proof.
    intros si m j kk H. unfold matrix_cell, mat. cbn [m_index m_data m_incremental].
    rewrite flat_map_nil'; [reflexivity|]. intros [fi f] _. cbn [fst snd]. unfold data.
    rewrite mlookup_flat_none; [reflexivity|]. intros c Hc. apply H. apply in_rev. exact Hc.
  Qed.

  Hypothesis Hnodup : NoDup t.

  (* the entry (m, j, kk) of the matrix turns back into exactly the cells of t with that key *)
  Lemma matrix_cell_bucket : forall m j kk, In m (ix_slices ix) ->
    matrix_cell k mat (idx meta_seqb (ix_slices ix) m) m j kk
    = map fl_cell (filter (fun c => key3_eqb (ckey' c) (idx meta_seqb (ix_slices ix) m, j, kk)) t).
  Proof.
    intros m j kk Hm.
    destruct (filter (fun c => key3_eqb (ckey' c) (idx meta_seqb (ix_slices ix) m, j, kk)) t)
      as [|c rest] eqn:F.
    - cbn [map]. apply matrix_cell_miss. intros c Hc E.
      pose proof (filter_nil_false _ _ F c Hc) as Hf. cbv beta in Hf.
      rewrite E, (proj2 (key3_eqb_eq _ _) eq_refl) in Hf. discriminate.
    - assert (Hin : In c (c :: rest)) by (left; reflexivity). rewrite <- F in Hin.
      apply filter_In in Hin. destruct Hin as [Hc Ek]. apply key3_eqb_eq in Ek.
      assert (Hrest : rest = []).
      { destruct rest as [|r rest']; [reflexivity|]. exfalso.
        assert (Hr : In r (c :: r :: rest')) by (right; left; reflexivity). rewrite <- F in Hr.
        apply filter_In in Hr. destruct Hr as [Hr Er]. apply key3_eqb_eq in Er.
        assert (r = c) by (apply ckey_unique; [exact Hc|exact Hr|congruence]). subst r.
        pose proof (NoDup_filter (fun c => key3_eqb (ckey' c) (idx meta_seqb (ix_slices ix) m, j, kk)) Hnodup) as Hn.
        rewrite F in Hn. inversion Hn as [|? ? Hx _]. apply Hx. left. reflexivity. }
      subst rest. cbn [map]. unfold ckey in Ek. injection Ek as E1 E2 E3.
      assert (Em : cmeta c = m).
      { pose proof (Hok c Hc) as (_ & _ & _ & _ & _ & _ & _ & _ & _ & _ & _ & _ & _ & _ & _ & _ & Hcm).
        apply (idx_inj meta_seqb mx_meta_seqb_eq (ix_slices ix)); assumption. }
      rewrite <- E2, <- E3, <- Em. exact (matrix_cell_hit c Hc).
  Qed.
End MatrixCell.

(* ====================================================================================== *)
(** * 5e. Triangle level: triangle -> Matrix -> triangle is a permutation of the float-normalised cells *)

Lemma list_max_map_in {A} (f : A -> Z) (c0 : A) (l : list A) :
  exists c1, In c1 (c0 :: l) /\ list_max (f c0) (map f (c0 :: l)) = f c1 /\
             forall c, In c (c0 :: l) -> f c <= f c1.
Proof.
  assert (Hge : forall c, In c (c0 :: l) -> f c <= list_max (f c0) (map f (c0 :: l)))
    by (intros c Hc; apply list_max_ge_in; apply in_map; exact Hc).
  destruct (list_max_in (map f (c0 :: l)) (f c0)) as [E|Hin].
  - exists c0. split; [left; reflexivity|]. split; [exact E|]. intros c Hc. rewrite <- E. apply Hge. exact Hc.
  - apply in_map_iff in Hin. destruct Hin as [c1 [E Hc1]]. exists c1. split; [exact Hc1|].
    split; [symmetry; exact E|]. intros c Hc. rewrite E. apply Hge. exact Hc.
Qed.

Lemma p_of_mono : forall ix k c c1, 0 < exp_res ix -> 0 < step_of k ix ->
  cell_ok k ix c -> cell_ok k ix c1 -> ps c <= ps c1 -> p_of ix c <= p_of ix c1.
Proof.
  intros ix k c c1 Hres Hstep Hc Hc1 Hle.
  destruct (cell_ok_keys ix k Hres Hstep c Hc) as (s & lag & Hps & _ & _ & Hs & _ & _ & _ & _ & _ & _ & Us & _).
  destruct (cell_ok_keys ix k Hres Hstep c1 Hc1) as (s1 & lag1 & Hps1 & _ & _ & Hs1 & _ & _ & _ & _ & _ & _ & Us1 & _).
  rewrite Hps, Hps1 in Hle.
  assert (Hss : s <= s1).
  { destruct (Z_le_gt_dec s s1) as [H|H]; [exact H|]. exfalso.
    pose proof (month_start_lt s1 s ltac:(lia)). lia. }
  nia.
Qed.
Lemma d_of_mono : forall ix k c c1, 0 < exp_res ix -> 0 < step_of k ix ->
  cell_ok k ix c -> cell_ok k ix c1 -> cell_lag c <= cell_lag c1 -> d_of ix k c <= d_of ix k c1.
Proof.
  intros ix k c c1 Hres Hstep Hc Hc1 Hle.
  destruct (cell_ok_keys ix k Hres Hstep c Hc) as (s & lag & _ & _ & _ & _ & _ & Hl & _ & _ & _ & _ & _ & Ul).
  destruct (cell_ok_keys ix k Hres Hstep c1 Hc1) as (s1 & lag1 & _ & _ & _ & _ & _ & Hl1 & _ & _ & _ & _ & _ & Ul1).
  rewrite Hl, Hl1 in Hle. nia.
Qed.

Theorem matrix_round_trip_perm : forall msp k t fields ix,
  ms_resolve_step msp = k -> ms_inverse_step msp = k ->
  forallb month_aligned_cell t = true -> semi_regular t = true ->
  index_from_triangle t fields = Ok ix ->
  0 < exp_res ix -> 0 < step_of k ix -> NoDup fields ->
  (forall c, In c t -> cell_ok k ix c) ->
  NoDup t ->
  (forall c c', In c t -> In c' t -> cmeta c = cmeta c' -> ps c = ps c' -> ev c = ev c' -> c = c') ->
  exists out, matrix_round_trip msp t fields = Ok out /\ Permutation out (floatify t).
Proof.
  intros msp k t fields ix Hk Hinv Hal Hsr Hix Hres Hstep Hfn Hok Hnd Huniq.
  destruct (index_from_triangle_grid t fields ix Hix) as (Hsl & Hfl & _).
  destruct (index_from_triangle_inv t fields ix Hix) as (c0 & t' & Et & Hfne & _).
  assert (Hslices : NoDup (ix_slices ix)) by (rewrite Hsl; apply (dedup_NoDup meta_seqb mx_meta_seqb_eq)).
  assert (Hfields : NoDup (ix_fields ix)) by (rewrite Hfl; exact Hfn).
  assert (Hfields_ne : ix_fields ix <> []) by (rewrite Hfl; exact Hfne).
  unfold matrix_round_trip, triangle_to_matrix. rewrite Hal, Hsr. cbn [negb]. rewrite Hix. cbn [bind].
  rewrite Et. cbv beta iota zeta.
  destruct (list_max_map_in ps c0 t') as (c1 & Hc1 & E1 & Hmax1).
  destruct (list_max_map_in cell_lag c0 t') as (c2 & Hc2 & E2 & Hmax2).
  change (list_max (ps c0) (map ps (c0 :: t')) = ps c1) in E1.
  rewrite E1, E2. rewrite <- Et in Hc1, Hc2, Hmax1, Hmax2 |- *.
  destruct (cell_ok_keys ix k Hres Hstep c1 (Hok c1 Hc1)) as (s1 & lag1 & _ & _ & _ & _ & _ & _ & Ep1 & _ & Hp1 & _).
  destruct (cell_ok_keys ix k Hres Hstep c2 (Hok c2 Hc2)) as (s2 & lag2 & _ & _ & _ & _ & _ & _ & _ & Ed2 & _ & Hd2 & _).
  rewrite Ep1, Hk, Ed2. cbn [bind].
  rewrite (fold_write_ok msp ix k Hk t (fun c Hc => cell_ok_writable ix k Hres Hstep c (Hok c Hc))).
  cbn [bind]. rewrite app_nil_r.
  eexists. split; [reflexivity|].
  unfold matrix_to_triangle. rewrite Hinv. unfold matrix_to_triangle_with. cbn [m_index m_np m_nd].
  assert (Einc : tri_is_inc t = false).
  { rewrite Et. unfold tri_is_inc, is_inc.
    pose proof (Hok c0 ltac:(rewrite Et; left; reflexivity)) as (_ & _ & _ & _ & _ & _ & _ & _ & _ & _ & _ & Hkd & _).
    rewrite Hkd. reflexivity. }
  rewrite Einc.
  set (mat := mkMat ix false (p_of ix c1 + 1) (d_of ix k c2 + 1) (flat_map (cell_entries ix k) (rev t))).
  rewrite (combine_zrange_idx meta_seqb mx_meta_seqb_eq _ Hslices), flat_map_map'. cbn [fst snd].
  rewrite (flat_map_prod3 (fun m j kk => matrix_cell k mat (idx meta_seqb (ix_slices ix) m) m j kk)).
  set (grid := list_prod (ix_slices ix) (list_prod (zrange (m_np mat)) (zrange (m_nd mat)))).
  set (sel := fun (g : meta * (Z * Z)) (c : cell) =>
                key3_eqb (ckey ix k c) (idx meta_seqb (ix_slices ix) (fst g), fst (snd g), snd (snd g))).
  rewrite (flat_map_ext_in' _ (fun g => map fl_cell (filter (fun c => sel g c) t))).
  2:{ intros [m [j kk]] Hg. cbn [fst snd]. apply in_prod_iff in Hg. destruct Hg as [Hm _].
      apply (matrix_cell_bucket ix k Hres Hstep Hfields Hfields_ne t Hok Huniq); assumption. }
  rewrite map_flat_map'. unfold floatify. apply Permutation_map. apply bucket_perm.
  intros c Hc.
  assert (Hgrid : NoDup grid).
  { apply NoDup_list_prod'; [exact Hslices|]. apply NoDup_list_prod'; apply zrange_NoDup. }
  pose proof (Hok c Hc) as Hcok.
  destruct (cell_ok_keys ix k Hres Hstep c Hcok) as (s & lag & _ & _ & _ & _ & _ & _ & _ & _ & Hp & Hd & _).
  assert (Hcm : In (cmeta c) (ix_slices ix)).
  { destruct Hcok as (_ & _ & _ & _ & _ & _ & _ & _ & _ & _ & _ & _ & _ & _ & _ & _ & H). exact H. }
  assert (Hin : In (cmeta c, (p_of ix c, d_of ix k c)) grid).
  { apply in_prod_iff. split; [exact Hcm|]. apply in_prod_iff. unfold mat. cbn [m_np m_nd].
    split; apply zrange_In.
    - pose proof (p_of_mono ix k c c1 Hres Hstep Hcok (Hok c1 Hc1) (Hmax1 c Hc)). lia.
    - pose proof (d_of_mono ix k c c2 Hres Hstep Hcok (Hok c2 Hc2) (Hmax2 c Hc)). lia. }
  destruct (NoDup_split_at _ _ Hgrid Hin) as (g1 & g2 & Eg & Hn1 & Hn2).
  exists g1, (cmeta c, (p_of ix c, d_of ix k c)), g2. split; [exact Eg|]. split.
  - unfold sel. cbn [fst snd]. apply key3_eqb_eq. reflexivity.
  - intros g' Hg'. destruct (sel g' c) eqn:Es; [|reflexivity]. exfalso.
    unfold sel in Es. apply key3_eqb_eq in Es. unfold ckey in Es. injection Es as Es1 Es2 Es3.
    assert (Hg'in : In g' grid) by (rewrite Eg; apply in_or_app; destruct Hg'; [left|right; right]; assumption).
    destruct g' as [m' [j' kk']]. cbn [fst snd] in *.
    apply in_prod_iff in Hg'in. destruct Hg'in as [Hm' _].
    assert (cmeta c = m') by (apply (idx_inj meta_seqb mx_meta_seqb_eq (ix_slices ix)); assumption).
    subst m' j' kk'. destruct Hg'; contradiction.
Qed.

(** The same theorem with the index side conditions discharged: resolve and inverse step both
    min(dev_res, exp_res), nested resolutions, every period exactly exp_res months long. *)
Definition grid_cell (L : Z) (fields : list str) (c : cell) : Prop :=
  exists s e,
    ps c = month_start s /\ pe c = month_end (s + L - 1) /\ ev c = month_end e /\
    MINID <= s /\ 0 < L /\ MINID <= e /\
    ckind c = KCum /\ prev c = None /\
    map fst (cvals c) = fields /\ Forall (fun fv => exists x, snd fv = VNum x) (cvals c) /\
    fl_meta (cmeta c) = cmeta c.

Lemma grid_cell_ok : forall t fields ix c,
  index_from_triangle t fields = Ok ix ->
  ((dev_res ix | exp_res ix) \/ (exp_res ix | dev_res ix)) ->
  In c t -> grid_cell (exp_res ix) fields c -> cell_ok SMin ix c.
Proof.
  intros t fields ix c Hix Hn Hc (s & e & Hps & Hpe & Hev & Hs & HL & He & Hkd & Hpv & Hf & Hv & Hfm).
  destruct (index_from_triangle_grid t fields ix Hix) as (Hsl & Hfl & Hdr & Hg & _).
  destruct (Hg c Hc) as (Ho & De & _ & Hlo).
  pose proof (index_from_triangle_lag_grid t fields ix Hix HL Hn c Hc) as Dl.
  assert (Hlag : cell_lag c = e - (s + exp_res ix - 1)).
  { unfold cell_lag. rewrite Hpe, Hev, lag_months_ends by lia. reflexivity. }
  rewrite Hps, month_id_start in Ho, De by lia. rewrite Hlag in Hlo, Dl.
  exists s, (e - (s + exp_res ix - 1)).
  replace (s + exp_res ix - 1 + (e - (s + exp_res ix - 1))) with e by lia.
  repeat split; try assumption; try lia.
  - rewrite Hfl. exact Hf.
  - rewrite Hsl. apply (dedup_in meta_seqb mx_meta_seqb_eq). apply in_map. exact Hc.
Qed.

Theorem matrix_round_trip_nested : forall msp t fields ix,
  ms_resolve_step msp = SMin -> ms_inverse_step msp = SMin ->
  semi_regular t = true ->
  index_from_triangle t fields = Ok ix ->
  ((dev_res ix | exp_res ix) \/ (exp_res ix | dev_res ix)) ->
  NoDup fields ->
  (forall c, In c t -> grid_cell (exp_res ix) fields c) ->
  NoDup t ->
  (forall c c', In c t -> In c' t -> cmeta c = cmeta c' -> ps c = ps c' -> ev c = ev c' -> c = c') ->
  exists out, matrix_round_trip msp t fields = Ok out /\ Permutation out (floatify t).
Proof.
  intros msp t fields ix Hk Hinv Hsr Hix Hn Hfn Hgc Hnd Huniq.
  destruct (index_from_triangle_grid t fields ix Hix) as (_ & _ & Hdr & _).
  destruct (index_from_triangle_inv t fields ix Hix) as (c0 & t' & Et & _).
  assert (Hres : 0 < exp_res ix).
  { destruct (Hgc c0 ltac:(rewrite Et; left; reflexivity)) as (s & e & _ & _ & _ & _ & HL & _). exact HL. }
  apply (matrix_round_trip_perm msp SMin t fields ix); try assumption.
  - apply forallb_forall. intros c Hc.
    destruct (Hgc c Hc) as (s & e & Hps & Hpe & Hev & Hs & HL & He & _).
    unfold month_aligned_cell. rewrite Hps, Hpe, Hev.
    rewrite month_start_is_start, !month_end_is_end by lia. reflexivity.
  - unfold step_of. lia.
  - intros c Hc. apply (grid_cell_ok t fields ix c Hix Hn Hc). apply Hgc. exact Hc.
Qed.

(* Continued in Proofs/MatrixIxU2.v (cells with a subset of the fields, incremental triangles) and
   Proofs/MatrixIxUArr.v (the to_array direction and the full array-frame round trip).
   NOT PROVED anywhere: cells holding one-element sample arrays (VArr _ [x] is written as x and comes
   back as VNum), cells with fields outside `fields` (dropped), ms_rich_inverse_step
   (rich_matrix_to_triangle is not modelled in Model/MatrixIx.v beyond the flag). *)
