(** C03 -- frame + alias lemmas for the entry points of Model/HeapApi2.v, obtained from the kernel lemmas
    of Proofs/HeapFrame.v / HeapKernels.v through the composition rules (sat_bind / sat_mapM / sat_foldM). *)
From Coq Require Import ZArith List Bool PeanoNat Lia.
From Bermuda Require Import Model.Base Model.Heap Model.HeapApi Model.HeapApi2
     Proofs.HeapFrame Proofs.HeapKernels Proofs.HeapApi.
Import ListNotations.

Section Api2.
  Variable h0 : heap.

  Lemma glookup_incl cells k gs l :
    Forall (fun g : Z * list val => incl (snd g) cells) gs -> glookup k gs = Some l -> incl l cells.
  Proof.
    induction 1 as [|[k' l'] r H F IH]; simpl; [discriminate|].
    destruct (k =? k')%Z; [intros E; inversion E; subst; auto|auto].
  Qed.
  Lemma dset_P (P : val -> Prop) k c (ix : items) :
    P c -> Forall (fun kc => P (snd kc)) ix -> Forall (fun kc => P (snd kc)) (dset k c ix).
  Proof.
    intros Hc. induction 1 as [|[k' v] r H F IH]; simpl; [constructor; auto|].
    destruct (k =? k')%Z; constructor; auto.
  Qed.
  Lemma dget_P (P : val -> Prop) k (ix : items) c :
    Forall (fun kc => P (snd kc)) ix -> dget k ix = Some c -> P c.
  Proof.
    induction 1 as [|[k' v] r H F IH]; simpl; [discriminate|].
    destruct (k =? k')%Z; [intros E; inversion E; subst; auto|auto].
  Qed.
  Lemma Forall_incl_in {A} (P : A -> Prop) (l cells : list A) :
    incl l cells -> Forall (fun r => P r \/ In r cells) l.
  Proof. intros H. apply Forall_forall. intros x Hx. right. apply H; auto. Qed.

  (* ---------------------------------------------------------------- merge.py: period_merge *)
  (* every output cell is new (matched group) or IS a cell of tri1 (no tri2 cell at its index) *)
  Lemma sat_api_period_merge g st s cells1 cells2 :
    sat h0 (api_period_merge g st s cells1 cells2) (Forall (fun r => fresh h0 r \/ In r cells1)).
  Proof.
    unfold api_period_merge. destruct (negb st); [apply sat_raise|].
    eapply sat_bind; [apply sat_group_cells|]. intros g1 H1.
    eapply sat_bind; [apply sat_group_cells|]. intros g2 _.
    eapply sat_bind.
    { apply sat_mapM_in with (Q := Forall (fun r => fresh h0 r \/ In r cells1)). intros grp Hgrp.
      rewrite Forall_forall in H1. specialize (H1 grp Hgrp).
      destruct (glookup (fst grp) g2) as [[|rc [|rc' rr]]|].
      - apply sat_ret. apply Forall_incl_in; auto.
      - eapply sat_weaken; [apply sat_mapM_all; intros; apply sat_overwrite_values|].
        intros r H. eapply Forall_impl; [|exact H]. auto.
      - apply sat_raise.
      - apply sat_ret. apply Forall_incl_in; auto. }
    intros outs H. apply sat_ret. apply Forall_concat'; auto.
  Qed.

  (* ---------------------------------------------------------------- currency.py *)
  Lemma sat_convert_value c g rate kv :
    sat h0 (convert_value c g rate kv)
        (fun kv' => if is_cur g (fst kv) then fst kv' = fst kv /\ fresh h0 (snd kv') else kv' = kv).
  Proof.
    unfold convert_value. destruct (is_cur g (fst kv)); [|apply sat_ret; auto].
    eapply sat_bind; [apply sat_binop|]. intros r Fr. apply sat_ret; auto.
  Qed.
  Lemma sat_convert_cell_currency c g cell rate : sat h0 (convert_cell_currency c g cell rate) (fresh h0).
  Proof.
    unfold convert_cell_currency. eapply sat_bind; [apply sat_get_cell|]. intros x _.
    eapply sat_bind; [apply sat_get_dict|]. intros d _.
    eapply sat_bind; [apply sat_mapM_all; intros; eapply sat_true; apply sat_convert_value|]. intros nd _.
    eapply sat_bind; [apply sat_new_dict|]. intros; apply sat_replace.
  Qed.
  Lemma sat_api_convert_currency f g c cells :
    sat h0 (api_convert_currency f g c cells) (Forall (fun r => fresh h0 r \/ In r cells)).
  Proof.
    unfold api_convert_currency, api_convert_currency_gen.
    eapply sat_bind; [apply sat_group_cells|]. intros slices Hs.
    eapply sat_bind.
    { apply sat_mapM_in with (Q := Forall (fun r => fresh h0 r \/ In r cells)). intros s Hin.
      rewrite Forall_forall in Hs. specialize (Hs s Hin).
      destruct (cur_dec g (fst s)); try apply sat_raise.
      - apply sat_ret. apply Forall_incl_in; auto.
      - eapply sat_weaken; [apply sat_mapM_all; intros; apply sat_convert_cell_currency|].
        intros r H. eapply Forall_impl; [|exact H]. auto. }
    intros outs H. apply sat_ret. apply Forall_concat'; auto.
  Qed.

  (* ---------------------------------------------------------------- fill.py *)
  Lemma sat_fill_row g fill_none res plan row :
    sat h0 (fill_row g fill_none res plan row) (Forall (fun r => fresh h0 r \/ In r row)).
  Proof.
    unfold fill_row.
    eapply sat_bind; [apply sat_index_cells|]. intros pc Hpc.
    eapply sat_bind.
    { apply sat_foldM with (I := Forall (fun kc : key * val => fresh h0 (snd kc) \/ In (snd kc) row)).
      - intros pc' lt Hpc'. destruct (dget (fst lt - res)%Z pc'); [|apply sat_raise].
        eapply sat_bind; [apply sat_replace|]. intros nc Fnc.
        eapply sat_bind with (P := fresh h0).
        + destruct fill_none; [|apply sat_ret; auto].
          eapply sat_bind; [apply sat_cell_items|]. intros d _.
          eapply sat_bind; [apply sat_new_dict|]. intros; apply sat_replace.
        + intros nc' Fnc'. apply sat_ret.
          apply (dset_P (fun v => fresh h0 v \/ In v row)); auto.
      - eapply Forall_impl; [|exact Hpc]. auto. }
    intros pc' H. apply sat_ret. apply Forall_forall. intros r Hr.
    apply in_map_iff in Hr. destruct Hr as [kc [E Hkc]]. subst r.
    rewrite Forall_forall in H. apply H; auto.
  Qed.
  Lemma sat_api_fill_forward_gaps f g fill_none res plan cells :
    sat h0 (api_fill_forward_gaps f g fill_none res plan cells) (Forall (fun r => fresh h0 r \/ In r cells)).
  Proof.
    unfold api_fill_forward_gaps.
    eapply sat_bind; [apply sat_group_cells|]. intros rows Hrows.
    eapply sat_bind.
    { apply sat_mapM_in with (Q := Forall (fun r => fresh h0 r \/ In r cells)). intros r Hin.
      rewrite Forall_forall in Hrows. specialize (Hrows r Hin).
      eapply sat_weaken; [apply sat_fill_row|]. intros out H.
      eapply Forall_impl; [|exact H]. intros x [F|I]; auto. }
    intros outs H. apply sat_ret. apply Forall_concat'; auto.
  Qed.

  (* ---------------------------------------------------------------- backfill.py *)
  (* an exception handler does not weaken the frame: [sat] covers the raising outcome *)
  Lemma sat_try_value_error {A} (m : M A) (Q : A -> Prop) :
    sat h0 m Q -> sat h0 (try_value_error m) (fun o => match o with Some a => Q a | None => True end).
  Proof.
    intros H h F. specialize (H h F). unfold try_value_error.
    destruct (m h) as [h' a|h' e]; auto. destruct (err_eqb e ValueError); auto.
  Qed.
  Lemma sat_backfill_new first repl tags : sat h0 (backfill_new first repl tags) (Forall (fresh h0)).
  Proof.
    induction tags as [|t r IH]; simpl; [apply sat_ret; constructor|].
    eapply sat_bind; [apply sat_new_dict|]. intros nv _.
    eapply sat_bind; [apply sat_try_value_error; apply sat_replace|]. intros o Ho.
    destruct o as [nc|]; [|apply sat_ret; constructor].
    eapply sat_bind; [apply IH|]. intros rest Hrest. apply sat_ret; constructor; auto.
  Qed.
  Lemma sat_backfill_row g statics plan row : sat h0 (backfill_row g statics plan row) (Forall (fresh h0)).
  Proof.
    unfold backfill_row. eapply sat_bind.
    { apply sat_mapM_all with (Q := fun _ => True). intros c.
      eapply sat_bind; [apply sat_get_cell|]. intros; apply sat_ret; auto. }
    intros tr _. destruct (pick_first g tr) as [[t first]|]; [|apply sat_ret; constructor].
    eapply sat_bind; [apply sat_cell_items|]. intros d _.
    eapply sat_bind.
    { apply sat_foldM with (I := fun _ => True); auto. intros acc k _.
      destruct (dget k d); [apply sat_ret; auto|apply sat_raise]. }
    intros repl _. apply sat_backfill_new.
  Qed.
  (* the argument's own cells, followed by new ones *)
  Lemma sat_api_backfill f g statics plan cells :
    sat h0 (api_backfill f g statics plan cells)
        (fun r => exists add, r = cells ++ add /\ Forall (fresh h0) add).
  Proof.
    unfold api_backfill. eapply sat_bind; [apply sat_group_cells|]. intros rows _.
    eapply sat_bind; [apply sat_mapM_all; intros; apply sat_backfill_row|]. intros add H.
    apply sat_ret. exists (concat add). split; auto. apply Forall_concat'; auto.
  Qed.

  (* ---------------------------------------------------------------- derive_metadata *)
  Lemma sat_derive_metadata_cell gs cell :
    sat h0 (derive_metadata_cell gs cell) (fun r => (gs = [] -> r = cell) /\ (gs <> [] -> fresh h0 r)).
  Proof.
    unfold derive_metadata_cell. destruct gs as [|g0 gs]; [apply sat_ret; split; congruence|].
    eapply sat_weaken with (P := fresh h0); [|intros r F; split; [discriminate|auto]]. simpl.
    assert (step : forall c gf, sat h0 (x <- get_cell c;; base_replace true c [DTag (gf (fst x))]) (fresh h0)).
    { intros. eapply sat_bind; [apply sat_get_cell|]. intros; apply sat_base_replace. }
    eapply sat_bind; [apply step|]. intros c Fc.
    apply sat_foldM; auto; intros; apply step.
  Qed.
  Lemma sat_api_derive_metadata gs cells :
    sat h0 (api_derive_metadata gs cells) (fun r => (gs = [] -> r = cells) /\ (gs <> [] -> Forall (fresh h0) r)).
  Proof.
    unfold api_derive_metadata. eapply sat_weaken.
    - apply (sat_mapM h0 (derive_metadata_cell gs)
                      (fun cell r => (gs = [] -> r = cell) /\ (gs <> [] -> fresh h0 r))).
      intros; apply sat_derive_metadata_cell.
    - intros r H. split; intros G.
      + induction H as [|x y l l' [Hxy _] _ IH]; auto. rewrite (Hxy G), IH; auto.
      + induction H as [|x y l l' [_ Hxy] _ IH]; constructor; auto.
  Qed.

  Lemma sat_run_api2 f g c a : sat h0 (run_api2 f g c a) (fun _ => True).
  Proof.
    unfold run_api2. eapply sat_lift. destruct a.
    - eapply sat_true; apply sat_api_period_merge.
    - eapply sat_true; apply sat_api_convert_currency.
    - eapply sat_true; apply sat_api_fill_forward_gaps.
    - eapply sat_true; apply sat_api_backfill.
    - eapply sat_true; apply sat_api_derive_metadata.
  Qed.
End Api2.

(* ------------------------------------------------------------------ the lifting lemma applied: the new
   cell-level kernel and the exception handler are [framed] steps, so they compose like the others *)
Lemma framed_convert_cell_currency c g cell rate : framed (convert_cell_currency c g cell rate).
Proof. apply sat_framed. intros h0. eapply sat_true. apply sat_convert_cell_currency. Qed.
Lemma framed_try_value_error {A} (m : M A) : framed m -> framed (try_value_error m).
Proof.
  intros F. apply sat_framed. intros h0. eapply sat_true.
  apply sat_try_value_error with (Q := fun _ => True). apply framed_sat; auto.
Qed.

(* ------------------------------------------------------------------ statements for Props/C03b.v *)
Theorem api2_frame : forall f g c h a, outcome_frame h (run_api2 f g c a h).
Proof. intros. eapply sat_frame. apply sat_run_api2. Qed.
Theorem api2_framed : forall f g c a, framed (run_api2 f g c a).
Proof. intros f g c a h. apply api2_frame. Qed.
Theorem api2_frame_reachable : forall f g c h a,
  heap_ok h -> Forall (val_ok (length h)) (api2_args a) ->
  match run_api2 f g c a h with
  | Ret h' _ | Raise h' _ => forall x l, In x (api2_args a) -> reach h x l -> nth_error h' l = nth_error h l
  end.
Proof.
  intros f g c h a Hh Ha. pose proof (api2_frame f g c h a) as F. unfold outcome_frame in F.
  destruct (run_api2 f g c a h) as [h1 r1|h1 e1]; destruct F as [_ F]; intros x l Hin R; apply F;
    (eapply reach_valid; [exact Hh| |exact R]); rewrite Forall_forall in Ha; auto.
Qed.
