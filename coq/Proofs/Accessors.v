(** C13 lemmas, part 1: sorted(set(..)) images, de-duplication, counts, num_samples, evaluation_date,
    Python equality on metadata. *)
From Coq Require Import ZArith List Bool Lia Sorted Permutation.
From Bermuda Require Import Lib.Calendar Model.Base Model.Accessors.
Import ListNotations.
Local Open Scope Z_scope.

(* ------------------------------------------------------------------ sort_u *)
Section SortUFacts.
  Context {A : Type} (ltb : A -> A -> bool).
  Hypothesis ltb_irrefl : forall x, ltb x x = false.
  Hypothesis ltb_trans : forall x y z, ltb x y = true -> ltb y z = true -> ltb x z = true.
  Hypothesis ltb_tricho : forall x y, ltb x y = false -> ltb y x = false -> x = y.
  Definition ltP (x y : A) : Prop := ltb x y = true.

  Lemma insert_u_In x y l : In y (insert_u ltb x l) <-> y = x \/ In y l.
  Proof.
    induction l as [|a r IH]; simpl.
    - intuition.
    - destruct (ltb x a) eqn:E1; simpl; [intuition|].
      destruct (ltb a x) eqn:E2; simpl.
      + rewrite IH. intuition.
      + assert (x = a) by (apply ltb_tricho; assumption). subst. intuition.
  Qed.

  Lemma insert_u_sorted x l : StronglySorted ltP l -> StronglySorted ltP (insert_u ltb x l).
  Proof.
    induction l as [|a r IH]; simpl; intros H.
    - constructor; constructor.
    - inversion H as [|? ? Hs Hf]; subst.
      destruct (ltb x a) eqn:E1.
      + constructor; [assumption|]. constructor; [exact E1|].
        rewrite Forall_forall in *. intros z Hz. apply (ltb_trans x a z); [exact E1|apply Hf, Hz].
      + destruct (ltb a x) eqn:E2; [|assumption].
        constructor; [apply IH, Hs|]. rewrite Forall_forall in *. intros z Hz.
        apply insert_u_In in Hz. destruct Hz as [->|Hz]; [exact E2|apply Hf, Hz].
  Qed.

  Lemma sort_u_In l y : In y (sort_u ltb l) <-> In y l.
  Proof.
    induction l as [|a r IH]; simpl; [tauto|].
    rewrite insert_u_In, IH. intuition.
  Qed.

  Lemma sort_u_sorted l : StronglySorted ltP (sort_u ltb l).
  Proof. induction l; simpl; [constructor|]. now apply insert_u_sorted. Qed.

  Lemma ssorted_NoDup l : StronglySorted ltP l -> NoDup l.
  Proof.
    induction 1 as [|a r Hs IH Hf]; constructor; [|assumption].
    intros Hin. rewrite Forall_forall in Hf. specialize (Hf _ Hin). unfold ltP in Hf.
    rewrite ltb_irrefl in Hf. discriminate.
  Qed.

  Lemma sort_u_NoDup l : NoDup (sort_u ltb l).
  Proof. apply ssorted_NoDup, sort_u_sorted. Qed.

  (* a strictly sorted list is determined by its elements: sorted(set(xs)) is THE such list *)
  Lemma ssorted_unique : forall l1 l2, StronglySorted ltP l1 -> StronglySorted ltP l2 ->
    (forall x, In x l1 <-> In x l2) -> l1 = l2.
  Proof.
    induction l1 as [|a r1 IH]; intros [|b r2] H1 H2 Hin.
    - reflexivity.
    - exfalso. apply (proj2 (Hin b)). now left.
    - exfalso. apply (proj1 (Hin a)). now left.
    - inversion H1 as [|? ? Hs1 Hf1]; inversion H2 as [|? ? Hs2 Hf2]; subst.
      rewrite Forall_forall in Hf1, Hf2.
      assert (a = b).
      { destruct (proj1 (Hin a) (or_introl eq_refl)) as [E|Ha]; [now symmetry|].
        destruct (proj2 (Hin b) (or_introl eq_refl)) as [E|Hb]; [assumption|].
        specialize (Hf2 _ Ha). specialize (Hf1 _ Hb). unfold ltP in *.
        pose proof (ltb_trans _ _ _ Hf1 Hf2) as C. rewrite ltb_irrefl in C. discriminate. }
      subst b. f_equal. apply IH; [assumption..|].
      intros x. split; intros Hx.
      + destruct (proj1 (Hin x) (or_intror Hx)) as [E|?]; [|assumption].
        subst x. specialize (Hf1 _ Hx). unfold ltP in Hf1. rewrite ltb_irrefl in Hf1. discriminate.
      + destruct (proj2 (Hin x) (or_intror Hx)) as [E|?]; [|assumption].
        subst x. specialize (Hf2 _ Hx). unfold ltP in Hf2. rewrite ltb_irrefl in Hf2. discriminate.
  Qed.

  Theorem sort_u_characterised l out :
    (StronglySorted ltP out /\ forall x, In x out <-> In x l) <-> out = sort_u ltb l.
  Proof.
    split.
    - intros [Hs Hin]. apply ssorted_unique; [assumption|apply sort_u_sorted|].
      intros x. rewrite Hin, sort_u_In. tauto.
    - intros ->. split; [apply sort_u_sorted|apply sort_u_In].
  Qed.
End SortUFacts.

(* ------------------------------------------------------------------ the orders owned here *)
Lemma zltb_irrefl x : Z.ltb x x = false. Proof. apply Z.ltb_irrefl. Qed.
Lemma zltb_trans x y z : Z.ltb x y = true -> Z.ltb y z = true -> Z.ltb x z = true.
Proof. rewrite !Z.ltb_lt. lia. Qed.
Lemma zltb_tricho x y : Z.ltb x y = false -> Z.ltb y x = false -> x = y.
Proof. rewrite !Z.ltb_ge. lia. Qed.

Lemma pair_ltb_spec a b :
  pair_ltb a b = true <-> (fst a < fst b \/ (fst a = fst b /\ snd a < snd b)).
Proof.
  unfold pair_ltb. destruct (fst a <? fst b) eqn:E1; [lia|].
  destruct (fst b <? fst a) eqn:E2; [split; [discriminate|lia]|].
  rewrite Z.ltb_lt. lia.
Qed.
Lemma pair_ltb_irrefl x : pair_ltb x x = false.
Proof. destruct (pair_ltb x x) eqn:E; [|reflexivity]. apply pair_ltb_spec in E. lia. Qed.
Lemma pair_ltb_trans x y z : pair_ltb x y = true -> pair_ltb y z = true -> pair_ltb x z = true.
Proof. rewrite !pair_ltb_spec. lia. Qed.
Lemma pair_ltb_tricho x y : pair_ltb x y = false -> pair_ltb y x = false -> x = y.
Proof.
  intros H1 H2. destruct x as [a b], y as [c d].
  assert (~ (a < c \/ (a = c /\ b < d))) by (intros C; apply (pair_ltb_spec (a, b) (c, d)) in C; congruence).
  assert (~ (c < a \/ (c = a /\ d < b))) by (intros C; apply (pair_ltb_spec (c, d) (a, b)) in C; congruence).
  f_equal; lia.
Qed.

Lemma str_ltb_irrefl x : str_ltb x x = false.
Proof. induction x as [|a x IH]; simpl; [reflexivity|]. now rewrite Z.ltb_irrefl. Qed.
Lemma str_ltb_trans : forall x y z, str_ltb x y = true -> str_ltb y z = true -> str_ltb x z = true.
Proof.
  induction x as [|a x IH]; intros [|b y] [|c z]; simpl; try congruence.
  destruct (a <? b) eqn:E1; destruct (b <? a) eqn:E2; destruct (b <? c) eqn:E3;
    destruct (c <? b) eqn:E4; destruct (a <? c) eqn:E5; destruct (c <? a) eqn:E6;
    try congruence; try lia; eauto.
Qed.
Lemma str_ltb_tricho : forall x y, str_ltb x y = false -> str_ltb y x = false -> x = y.
Proof.
  induction x as [|a x IH]; intros [|b y]; simpl; try congruence.
  destruct (a <? b) eqn:E1; destruct (b <? a) eqn:E2; try congruence.
  intros H1 H2. f_equal; [lia|auto].
Qed.

(* ------------------------------------------------------------------ boolean equalities reflect *)
Lemma str_eqb_eq : forall a b, str_eqb a b = true <-> a = b.
Proof.
  unfold str_eqb. induction a as [|x a IH]; intros [|y b]; simpl; try (split; congruence).
  rewrite andb_true_iff, Z.eqb_eq, IH. split; [intros [-> ->]; reflexivity|intros E; inversion E; auto].
Qed.
Lemma str_eqb_refl a : str_eqb a a = true. Proof. now apply str_eqb_eq. Qed.
Lemma str_eqb_sym a b : str_eqb a b = str_eqb b a.
Proof.
  destruct (str_eqb a b) eqn:E1, (str_eqb b a) eqn:E2; try reflexivity.
  - apply str_eqb_eq in E1. subst. now rewrite str_eqb_refl in E2.
  - apply str_eqb_eq in E2. subst. now rewrite str_eqb_refl in E1.
Qed.

Lemma assoc_None_keys {V} k (d : list (str * V)) : assoc k d = None <-> ~ In k (keys d).
Proof.
  induction d as [|[k' v] r IH]; simpl; [tauto|].
  destruct (str_eqb k k') eqn:E.
  - apply str_eqb_eq in E. subst. split; [discriminate|]. intros H. exfalso. apply H. now left.
  - rewrite IH. split; [|tauto]. intros H [C|C]; [|tauto]. subst. now rewrite str_eqb_refl in E.
Qed.
Lemma assoc_Some_In {V} k v (d : list (str * V)) : assoc k d = Some v -> In (k, v) d.
Proof.
  induction d as [|[k' v'] r IH]; simpl; [discriminate|].
  destruct (str_eqb k k') eqn:E; [|auto].
  apply str_eqb_eq in E. subst. intros H. inversion H. now left.
Qed.
Lemma assoc_app {V} k (a b : list (str * V)) :
  assoc k (a ++ b) = match assoc k a with Some v => Some v | None => assoc k b end.
Proof.
  induction a as [|[k' v'] r IH]; simpl; [reflexivity|]. destruct (str_eqb k k'); auto.
Qed.
Lemma has_key_false {V} k (d : list (str * V)) : has_key k d = false <-> assoc k d = None.
Proof. unfold has_key. destruct (assoc k d); split; congruence. Qed.

(* ------------------------------------------------------------------ instantiated image theorems *)
Definition zlt (a b : Z) : Prop := Z.ltb a b = true.
Definition plt (a b : Z * Z) : Prop := pair_ltb a b = true.
Definition slt (a b : str) : Prop := str_ltb a b = true.

Lemma periods_spec t :
  StronglySorted plt (periods t) /\ NoDup (periods t) /\
  forall p, In p (periods t) <-> exists c, In c t /\ period c = p.
Proof.
  unfold periods. repeat split.
  - apply (sort_u_sorted pair_ltb pair_ltb_trans pair_ltb_tricho).
  - apply (sort_u_NoDup pair_ltb pair_ltb_irrefl pair_ltb_trans pair_ltb_tricho).
  - rewrite (sort_u_In pair_ltb pair_ltb_tricho), in_map_iff. intros [c [E H]]. eauto.
  - rewrite (sort_u_In pair_ltb pair_ltb_tricho), in_map_iff. intros [c [H E]]. eauto.
Qed.

Lemma zimage_spec {A} (f : A -> Z) (l : list A) :
  StronglySorted zlt (sort_u Z.ltb (map f l)) /\ NoDup (sort_u Z.ltb (map f l)) /\
  forall x, In x (sort_u Z.ltb (map f l)) <-> exists c, In c l /\ f c = x.
Proof.
  repeat split.
  - apply (sort_u_sorted Z.ltb zltb_trans zltb_tricho).
  - apply (sort_u_NoDup Z.ltb zltb_irrefl zltb_trans zltb_tricho).
  - rewrite (sort_u_In Z.ltb zltb_tricho), in_map_iff. intros [c [E H]]. eauto.
  - rewrite (sort_u_In Z.ltb zltb_tricho), in_map_iff. intros [c [H E]]. eauto.
Qed.

Lemma evaluation_dates_spec t :
  StronglySorted zlt (evaluation_dates t) /\ NoDup (evaluation_dates t) /\
  forall d, In d (evaluation_dates t) <-> exists c, In c t /\ ev c = d.
Proof. apply zimage_spec. Qed.

Lemma dev_lags_spec u t :
  StronglySorted zlt (dev_lags u t) /\ NoDup (dev_lags u t) /\
  forall k, In k (dev_lags u t) <-> exists c, In c t /\ cell_lag u c = k.
Proof. apply zimage_spec. Qed.

Lemma fields_spec t :
  StronglySorted slt (fields t) /\ NoDup (fields t) /\
  forall f, In f (fields t) <-> exists c, In c t /\ In f (keys (cvals c)).
Proof.
  unfold fields. repeat split.
  - apply (sort_u_sorted str_ltb str_ltb_trans str_ltb_tricho).
  - apply (sort_u_NoDup str_ltb str_ltb_irrefl str_ltb_trans str_ltb_tricho).
  - rewrite (sort_u_In str_ltb str_ltb_tricho), in_flat_map. intros [c [H E]]. eauto.
  - rewrite (sort_u_In str_ltb str_ltb_tricho), in_flat_map. intros [c [H E]]. eauto.
Qed.

(* the accessor outputs are THE sorted duplicate-free lists with those elements *)
Lemma periods_exact t out :
  (StronglySorted plt out /\ forall p, In p out <-> exists c, In c t /\ period c = p) -> out = periods t.
Proof.
  intros [Hs Hin]. apply (ssorted_unique pair_ltb pair_ltb_irrefl pair_ltb_trans); [assumption|apply periods_spec|].
  intros x. rewrite Hin. symmetry. apply periods_spec.
Qed.
Lemma zimage_exact {A} (f : A -> Z) l out :
  (StronglySorted zlt out /\ forall x, In x out <-> exists c, In c l /\ f c = x) -> out = sort_u Z.ltb (map f l).
Proof.
  intros [Hs Hin]. apply (ssorted_unique Z.ltb zltb_irrefl zltb_trans); [assumption|apply zimage_spec|].
  intros x. rewrite Hin. symmetry. apply zimage_spec.
Qed.
Lemma fields_exact t out :
  (StronglySorted slt out /\ forall f, In f out <-> exists c, In c t /\ In f (keys (cvals c))) -> out = fields t.
Proof.
  intros [Hs Hin]. apply (ssorted_unique str_ltb str_ltb_irrefl str_ltb_trans); [assumption|apply fields_spec|].
  intros x. rewrite Hin. symmetry. apply fields_spec.
Qed.

(* ------------------------------------------------------------------ evaluation_date = max *)
Lemma list_max_ge l : forall d, d <= list_max l d /\ (forall x, In x l -> x <= list_max l d)
                                 /\ In (list_max l d) (d :: l).
Proof.
  unfold list_max. induction l as [|a r IH]; intros d; simpl.
  - repeat split; [lia|tauto|now left].
  - destruct (IH (Z.max d a)) as [H1 [H2 H3]]. repeat split.
    + lia.
    + intros x [->|Hx]; [lia|auto].
    + destruct H3 as [H3|H3]; [|tauto]. rewrite <- H3.
      destruct (Z.max_spec d a) as [[_ ->]|[_ ->]]; tauto.
Qed.

Lemma evaluation_date_spec t :
  (t = [] <-> evaluation_date t = Err TriangleError) /\
  (forall d, evaluation_date t = Ok d ->
     (exists c, In c t /\ ev c = d) /\ forall c, In c t -> ev c <= d).
Proof.
  unfold evaluation_date. destruct (evaluation_dates_spec t) as [_ [_ Hin]].
  destruct (evaluation_dates t) as [|d0 r] eqn:E.
  - split.
    + split; [reflexivity|]. intros _. destruct t as [|c t']; [reflexivity|].
      exfalso. apply (proj2 (Hin (ev c))). exists c. split; [now left|reflexivity].
    + discriminate.
  - split.
    + split; [|discriminate]. intros ->. exfalso. destruct (proj1 (Hin d0) (or_introl eq_refl)) as [c [[] _]].
    + intros d Hd. inversion Hd; subst. destruct (list_max_ge r d0) as [H1 [H2 H3]]. split.
      * apply Hin. exact H3.
      * intros c Hc. assert (Hi : In (ev c) (d0 :: r)) by (apply Hin; eauto).
        destruct Hi as [<-|Hi]; [assumption|auto].
Qed.

(* ------------------------------------------------------------------ counts *)
Lemma field_cell_counts_spec t :
  map fst (field_cell_counts t) = fields t /\
  forall f n, In (f, n) (field_cell_counts t) <->
    In f (fields t) /\ n = Z.of_nat (length (filter (fun c => has_key f (cvals c)) t)).
Proof.
  unfold field_cell_counts. split.
  - rewrite map_map. simpl. apply map_id.
  - intros f n. rewrite in_map_iff. unfold count. split.
    + intros [f' [E H]]. inversion E; subst. auto.
    + intros [H ->]. exists f. auto.
Qed.

Lemma field_slice_counts_spec t :
  map fst (field_slice_counts t) = fields t /\
  forall f n, In (f, n) (field_slice_counts t) <->
    In f (fields t) /\
    n = Z.of_nat (length (filter (fun m => existsb (fun c => has_key f (cvals c)) (slice_cells m t))
                                 (metadata t))).
Proof.
  unfold field_slice_counts. split.
  - rewrite map_map. simpl. apply map_id.
  - intros f n. rewrite in_map_iff. unfold count. split.
    + intros [f' [E H]]. inversion E; subst. auto.
    + intros [H ->]. exists f. auto.
Qed.

(* a slice holds a field iff one of its cells does *)
Lemma slice_has_field f m t :
  existsb (fun c => has_key f (cvals c)) (slice_cells m t) = true <->
  exists c, In c t /\ meta_pyeq m (cmeta c) = true /\ has_key f (cvals c) = true.
Proof.
  unfold slice_cells. rewrite existsb_exists. split.
  - intros [c [Hc H]]. apply filter_In in Hc. exists c. tauto.
  - intros [c [H1 [H2 H3]]]. exists c. split; [apply filter_In; tauto|assumption].
Qed.

(* ------------------------------------------------------------------ num_samples *)
Definition big_sizes (vs : list value) : list Z :=
  flat_map (fun v => match value_size v with Some n => [n] | None => [] end) vs.
Definition sizes (t : list cell) : list Z := big_sizes (all_values t).

Lemma ns_scan_spec : forall vs acc,
  ns_scan acc vs =
  match acc with
  | Some m => if forallb (Z.eqb m) (big_sizes vs) then Ok (Some m) else Err ValueError
  | None => match big_sizes vs with
            | [] => Ok None
            | h :: r => if forallb (Z.eqb h) r then Ok (Some h) else Err ValueError
            end
  end.
Proof.
  induction vs as [|v r IH]; intros acc; simpl.
  - destruct acc; reflexivity.
  - unfold big_sizes in *. simpl. destruct (value_size v) as [n|]; simpl.
    + destruct acc as [m|].
      * destruct (m =? n) eqn:E; simpl; [|reflexivity]. rewrite IH. reflexivity.
      * rewrite IH. reflexivity.
    + apply IH.
Qed.

Lemma num_samples_spec t :
  num_samples t = match sizes t with
                  | [] => Ok 1
                  | h :: r => if forallb (Z.eqb h) r then Ok h else Err ValueError
                  end.
Proof.
  unfold num_samples, sizes. rewrite ns_scan_spec.
  destruct (big_sizes (all_values t)) as [|h r]; [reflexivity|]. destruct (forallb (Z.eqb h) r); reflexivity.
Qed.

Lemma num_samples_ok t n :
  num_samples t = Ok n <->
  (sizes t = [] /\ n = 1) \/ (In n (sizes t) /\ forall s, In s (sizes t) -> s = n).
Proof.
  rewrite num_samples_spec. destruct (sizes t) as [|h r].
  - split; [intros H; inversion H; auto|]. intros [[_ ->]|[[] _]]. reflexivity.
  - destruct (forallb (Z.eqb h) r) eqn:E.
    + rewrite forallb_forall in E. split.
      * intros H. inversion H; subst. right. split; [now left|].
        intros s [<-|Hs]; [reflexivity|]. specialize (E _ Hs). lia.
      * intros [[C _]|[Hin Hall]]; [discriminate|]. f_equal. apply Hall. now left.
    + split; [discriminate|]. intros [[C _]|[Hin Hall]]; [discriminate|]. exfalso.
      assert (forallb (Z.eqb h) r = true); [|congruence].
      apply forallb_forall. intros s Hs. rewrite (Hall h (or_introl eq_refl)), (Hall s (or_intror Hs)). lia.
Qed.

Lemma num_samples_err t e :
  num_samples t = Err e <-> e = ValueError /\ exists a b, In a (sizes t) /\ In b (sizes t) /\ a <> b.
Proof.
  rewrite num_samples_spec. destruct (sizes t) as [|h r].
  - split; [discriminate|]. intros [_ [a [b [[] _]]]].
  - destruct (forallb (Z.eqb h) r) eqn:E.
    + rewrite forallb_forall in E. split; [discriminate|]. intros [_ [a [b [Ha [Hb Hab]]]]]. exfalso. apply Hab.
      assert (forall s, In s (h :: r) -> s = h) as Hs
        by (intros s [<-|Hs]; [reflexivity|specialize (E _ Hs); lia]).
      rewrite (Hs a Ha), (Hs b Hb). reflexivity.
    + split.
      * intros H. inversion H; subst. split; [reflexivity|].
        destruct (forallb_forall (Z.eqb h) r) as [_ Hf].
        assert (~ forall x, In x r -> h =? x = true) as Hn by (intros C; rewrite (Hf C) in E; discriminate).
        clear Hf E H. induction r as [|x r IH].
        -- exfalso. apply Hn. intros ? [].
        -- destruct (h =? x) eqn:E.
           ++ destruct IH as [a [b [Ha [Hb Hab]]]].
              { intros C. apply Hn. intros y [<-|Hy]; auto. }
              exists a, b. repeat split; [destruct Ha; [left|right; right]; auto|destruct Hb; [left|right; right]; auto|assumption].
           ++ exists h, x. repeat split; [now left|right; now left|]. intros ->. rewrite Z.eqb_refl in E. discriminate.
      * intros [-> _]. reflexivity.
Qed.

Lemma sizes_spec t n :
  In n (sizes t) <-> exists c k f xs, In c t /\ In (k, VArr f xs) (cvals c) /\ n = Z.of_nat (length xs) /\ 1 < n.
Proof.
  unfold sizes, big_sizes, all_values. rewrite in_flat_map. split.
  - intros [v [Hv Hn]]. apply in_flat_map in Hv. destruct Hv as [c [Hc Hv]].
    apply in_map_iff in Hv. destruct Hv as [[k v'] [E Hkv]]. simpl in E. subst v'.
    destruct v as [x| |f xs]; simpl in Hn; try contradiction.
    destruct (1 <? Z.of_nat (length xs)) eqn:E1; [|contradiction].
    destruct Hn as [<-|[]]. exists c, k, f, xs. repeat split; auto. lia.
  - intros [c [k [f [xs [Hc [Hkv [-> H1]]]]]]]. exists (VArr f xs). split.
    + apply in_flat_map. exists c. split; [assumption|]. apply in_map_iff. exists (k, VArr f xs). auto.
    + simpl. destruct (1 <? Z.of_nat (length xs)) eqn:E1; [now left|lia].
Qed.

(* ------------------------------------------------------------------ de-duplication *)
Section DedupFacts.
  Context {A : Type} (eqb : A -> A -> bool).
  Hypothesis eqb_refl : forall x, eqb x x = true.
  Hypothesis eqb_sym : forall x y, eqb x y = eqb y x.
  Hypothesis eqb_trans : forall x y z, eqb x y = true -> eqb y z = true -> eqb x z = true.

  Lemma dedup_sub l y : In y (dedup eqb l) -> In y l.
  Proof.
    revert y. induction l as [|x r IH]; simpl; [tauto|].
    intros y [->|H]; [now left|]. apply filter_In in H. right. apply IH. tauto.
  Qed.

  Lemma dedup_complete l x : In x l -> exists y, In y (dedup eqb l) /\ eqb y x = true.
  Proof.
    induction l as [|a r IH]; simpl; [tauto|].
    intros [->|H].
    - exists x. split; [now left|apply eqb_refl].
    - destruct (IH H) as [y [Hy E]]. destruct (eqb a y) eqn:Ea.
      + exists a. split; [now left|]. eapply eqb_trans; eassumption.
      + exists y. split; [|assumption]. right. apply filter_In. split; [assumption|]. now rewrite Ea.
  Qed.

  Lemma FOP_filter (R : A -> A -> Prop) f l : ForallOrdPairs R l -> ForallOrdPairs R (filter f l).
  Proof.
    induction 1 as [|a r Hf Hr IH]; simpl; [constructor|].
    destruct (f a); [|assumption]. constructor; [|assumption].
    rewrite Forall_forall in *. intros y Hy. apply filter_In in Hy. apply Hf. tauto.
  Qed.

  Lemma dedup_distinct l : ForallOrdPairs (fun a b => eqb a b = false) (dedup eqb l).
  Proof.
    induction l as [|x r IH]; simpl; [constructor|]. constructor.
    - rewrite Forall_forall. intros y Hy. apply filter_In in Hy. destruct Hy as [_ Hy].
      now apply negb_true_iff in Hy.
    - apply FOP_filter. assumption.
  Qed.

  Lemma SS_filter (R : A -> A -> Prop) f l : StronglySorted R l -> StronglySorted R (filter f l).
  Proof.
    induction 1 as [|a r Hs IH Hf]; simpl; [constructor|].
    destruct (f a); [|assumption]. constructor; [assumption|].
    rewrite Forall_forall in *. intros y Hy. apply filter_In in Hy. apply Hf. tauto.
  Qed.

  Lemma dedup_SS (R : A -> A -> Prop) l : StronglySorted R l -> StronglySorted R (dedup eqb l).
  Proof.
    induction 1 as [|a r Hs IH Hf]; simpl; [constructor|]. constructor.
    - apply SS_filter. assumption.
    - rewrite Forall_forall in *. intros y Hy. apply filter_In in Hy. apply Hf. apply dedup_sub. tauto.
  Qed.

  Lemma SS_FOP_combine (R1 R2 R3 : A -> A -> Prop) l :
    (forall a b, R1 a b -> R2 a b -> R3 a b) ->
    StronglySorted R1 l -> ForallOrdPairs R2 l -> StronglySorted R3 l.
  Proof.
    intros H Hs. induction Hs as [|a r Hs IH Hf]; intros Hp; [constructor|].
    inversion Hp as [|? ? Hf2 Hp2]; subst. constructor; [auto|].
    rewrite Forall_forall in *. intros y Hy. apply H; auto.
  Qed.

  (* already-grouped input (sorted cells): de-duplication does not reorder *)
  Lemma dedup_sorted_input (ltb : A -> A -> bool) l :
    (forall a b, ltb b a = false -> eqb a b = false -> ltb a b = true) ->
    StronglySorted (fun a b => ltb b a = false) l ->
    StronglySorted (fun a b => ltb a b = true) (dedup eqb l).
  Proof.
    intros Htot Hs.
    apply (SS_FOP_combine (fun a b => ltb b a = false) (fun a b => eqb a b = false)); [exact Htot| |].
    - apply dedup_SS. assumption.
    - apply dedup_distinct.
  Qed.
End DedupFacts.

(* ------------------------------------------------------------------ Python == on metadata is an equivalence *)
Lemma mval_pyeq_refl v : mval_pyeq v v = true.
Proof.
  destruct v as [s|x|b|d|]; unfold mval_pyeq; simpl;
    try apply Z.eqb_refl; try apply str_eqb_refl; try reflexivity.
Qed.
Lemma mval_pyeq_sym a b : mval_pyeq a b = mval_pyeq b a.
Proof.
  destruct a as [s|x|b1|d|], b as [s'|x'|b2|d'|]; unfold mval_pyeq; simpl;
    try reflexivity; try apply Z.eqb_sym; apply str_eqb_sym.
Qed.
Lemma mval_pyeq_trans a b c : mval_pyeq a b = true -> mval_pyeq b c = true -> mval_pyeq a c = true.
Proof.
  destruct a as [s|x|b1|d|], b as [s'|x'|b2|d'|], c as [s''|x''|b3|d''|]; unfold mval_pyeq; simpl;
    try congruence; rewrite ?Z.eqb_eq, ?str_eqb_eq; try congruence; try lia.
Qed.

Section OptEq.
  Context {A : Type} (eqb : A -> A -> bool).
  Hypothesis r : forall x, eqb x x = true.
  Hypothesis s : forall x y, eqb x y = eqb y x.
  Hypothesis tr : forall x y z, eqb x y = true -> eqb y z = true -> eqb x z = true.
  Lemma opt_eqb_refl o : opt_eqb eqb o o = true. Proof. destruct o; simpl; auto. Qed.
  Lemma opt_eqb_sym a b : opt_eqb eqb a b = opt_eqb eqb b a. Proof. destruct a, b; simpl; auto. Qed.
  Lemma opt_eqb_trans a b c : opt_eqb eqb a b = true -> opt_eqb eqb b c = true -> opt_eqb eqb a c = true.
  Proof. destruct a, b, c; simpl; try congruence. apply tr. Qed.
End OptEq.

Lemma str_eqb_trans a b c : str_eqb a b = true -> str_eqb b c = true -> str_eqb a c = true.
Proof. rewrite !str_eqb_eq. congruence. Qed.
Lemma num_eqb_refl x : num_eqb x x = true. Proof. apply Z.eqb_refl. Qed.
Lemma num_eqb_sym x y : num_eqb x y = num_eqb y x. Proof. apply Z.eqb_sym. Qed.
Lemma num_eqb_trans x y z : num_eqb x y = true -> num_eqb y z = true -> num_eqb x z = true.
Proof. unfold num_eqb. rewrite !Z.eqb_eq. congruence. Qed.

Lemma dict_pyeq_spec a b :
  dict_pyeq a b = true <-> forall k, omval_pyeq (assoc k a) (assoc k b) = true.
Proof.
  unfold dict_pyeq. rewrite forallb_forall. split; [|auto].
  intros H k. destruct (in_dec (list_eq_dec Z.eq_dec) k (keys a ++ keys b)) as [Hin|Hn]; [auto|].
  assert (assoc k a = None) as -> by (apply assoc_None_keys; intros C; apply Hn, in_or_app; auto).
  assert (assoc k b = None) as -> by (apply assoc_None_keys; intros C; apply Hn, in_or_app; auto).
  reflexivity.
Qed.
Lemma omval_refl o : omval_pyeq o o = true.
Proof. apply opt_eqb_refl, mval_pyeq_refl. Qed.
Lemma omval_sym a b : omval_pyeq a b = omval_pyeq b a.
Proof. apply opt_eqb_sym, mval_pyeq_sym. Qed.
Lemma omval_trans a b c : omval_pyeq a b = true -> omval_pyeq b c = true -> omval_pyeq a c = true.
Proof. apply opt_eqb_trans, mval_pyeq_trans. Qed.

Lemma dict_pyeq_refl a : dict_pyeq a a = true.
Proof. apply dict_pyeq_spec. intros k. apply omval_refl. Qed.
Lemma dict_pyeq_sym a b : dict_pyeq a b = dict_pyeq b a.
Proof.
  destruct (dict_pyeq a b) eqn:E1, (dict_pyeq b a) eqn:E2; try reflexivity.
  - rewrite dict_pyeq_spec in E1. assert (dict_pyeq b a = true); [|congruence].
    apply dict_pyeq_spec. intros k. rewrite omval_sym. auto.
  - rewrite dict_pyeq_spec in E2. assert (dict_pyeq a b = true); [|congruence].
    apply dict_pyeq_spec. intros k. rewrite omval_sym. auto.
Qed.
Lemma dict_pyeq_trans a b c : dict_pyeq a b = true -> dict_pyeq b c = true -> dict_pyeq a c = true.
Proof. rewrite !dict_pyeq_spec. intros H1 H2 k. eapply omval_trans; eauto. Qed.

Lemma meta_pyeq_spec a b :
  meta_pyeq a b = true <->
  ostr_eqb (risk_basis a) (risk_basis b) = true /\ ostr_eqb (country a) (country b) = true /\
  ostr_eqb (currency a) (currency b) = true /\
  ostr_eqb (reinsurance_basis a) (reinsurance_basis b) = true /\
  ostr_eqb (loss_definition a) (loss_definition b) = true /\
  onum_pyeq (per_occurrence_limit a) (per_occurrence_limit b) = true /\
  dict_pyeq (details a) (details b) = true /\ dict_pyeq (loss_details a) (loss_details b) = true.
Proof. unfold meta_pyeq. rewrite !andb_true_iff. tauto. Qed.

Lemma meta_pyeq_refl a : meta_pyeq a a = true.
Proof.
  apply meta_pyeq_spec. unfold ostr_eqb, onum_pyeq.
  repeat split; try apply (opt_eqb_refl _ str_eqb_refl); try apply (opt_eqb_refl _ num_eqb_refl);
    apply dict_pyeq_refl.
Qed.
Lemma meta_pyeq_sym a b : meta_pyeq a b = meta_pyeq b a.
Proof.
  unfold meta_pyeq, ostr_eqb, onum_pyeq.
  rewrite (opt_eqb_sym _ str_eqb_sym (risk_basis a)), (opt_eqb_sym _ str_eqb_sym (country a)),
    (opt_eqb_sym _ str_eqb_sym (currency a)), (opt_eqb_sym _ str_eqb_sym (reinsurance_basis a)),
    (opt_eqb_sym _ str_eqb_sym (loss_definition a)), (opt_eqb_sym _ num_eqb_sym (per_occurrence_limit a)),
    (dict_pyeq_sym (details a)), (dict_pyeq_sym (loss_details a)). reflexivity.
Qed.
Lemma meta_pyeq_trans a b c : meta_pyeq a b = true -> meta_pyeq b c = true -> meta_pyeq a c = true.
Proof.
  rewrite !meta_pyeq_spec. unfold ostr_eqb, onum_pyeq.
  intros [A1 [A2 [A3 [A4 [A5 [A6 [A7 A8]]]]]]] [B1 [B2 [B3 [B4 [B5 [B6 [B7 B8]]]]]]].
  repeat split;
    try (eapply (opt_eqb_trans _ str_eqb_trans); eassumption);
    try (eapply (opt_eqb_trans _ num_eqb_trans); eassumption);
    eapply dict_pyeq_trans; eassumption.
Qed.

(* ------------------------------------------------------------------ metadata accessor *)
Lemma metadata_spec t :
  (forall m, In m (metadata t) -> exists c, In c t /\ cmeta c = m) /\
  (forall c, In c t -> exists m, In m (metadata t) /\ meta_pyeq m (cmeta c) = true) /\
  ForallOrdPairs (fun a b => meta_pyeq a b = false) (metadata t).
Proof.
  unfold metadata. repeat split.
  - intros m H. apply dedup_sub in H. apply in_map_iff in H. destruct H as [c [E H]]. eauto.
  - intros c H. apply (dedup_complete meta_pyeq meta_pyeq_refl meta_pyeq_trans). now apply in_map.
  - apply dedup_distinct.
Qed.

(* sortedness: given that the cells are sorted metadata-major by a total order compatible with == *)
Lemma metadata_sorted (mlt : meta -> meta -> bool) t :
  (forall a b, mlt b a = false -> meta_pyeq a b = false -> mlt a b = true) ->
  StronglySorted (fun a b => mlt b a = false) (map cmeta t) ->
  StronglySorted (fun a b => mlt a b = true) (metadata t).
Proof. intros Htot Hs. unfold metadata. now apply dedup_sorted_input. Qed.
