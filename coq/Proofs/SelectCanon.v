(** C11 / C10 -- the modelled selections ARE what the constructor call in the source returns.
    Link between Model/Select.v (selection from an already sorted list) and C01's constructor
    model (Model/Order.v: cell_cmp, sort_cells, mk_triangle; Proofs/TriangleP.v).
    NOTE: Model.Order and Model.Select both define a `meta_pyeq`; Order is imported FIRST so that
    unqualified names are Select's.  (statements fixed by wp-join; proofs to be filled) *)
From Coq Require Import ZArith List Bool Lia ZifyBool Permutation Sorted RelationClasses.
From Bermuda Require Import Model.Base Model.Order Proofs.OrderP Proofs.TriangleP.
From Bermuda Require Import Lib.Calendar Model.Select Proofs.SelectP Proofs.CalendarP.
Import ListNotations.
Local Open Scope Z_scope.

(* a canonical triangle: what mk_triangle returns *)
Definition canonical (t : list cell) : Prop := StronglySorted cell_le t /\ same_kind t = true.

Lemma canonical_fixpoint : forall t, canonical t -> mk_triangle t = Ok t.
Proof.
  intros t [Hs Hk]. unfold mk_triangle. rewrite Hk. f_equal. now apply sorted_is_fixpoint.
Qed.
Lemma mk_triangle_canonical_iff : forall t, cells_comparable t -> (mk_triangle t = Ok t <-> canonical t).
Proof.
  intros t Hc. split.
  - intros H. destruct (mk_triangle_canonical t t Hc H) as [_ [Hs Hk]]. split; assumption.
  - apply canonical_fixpoint.
Qed.
Lemma sublist_same_kind : forall l1 l2 : list cell, sublist l1 l2 -> same_kind l2 = true -> same_kind l1 = true.
Proof.
  intros l1 l2 H Hk. apply same_kind_spec in Hk. destruct Hk as [k Hk].
  apply same_kind_spec. exists k. unfold all_kind in *.
  eapply sublist_Forall; eassumption.
Qed.
Lemma sublist_canonical : forall out t, sublist out t -> canonical t -> canonical out.
Proof.
  intros out t H [Hs Hk]. split.
  - eapply sublist_StronglySorted; eassumption.
  - eapply sublist_same_kind; eassumption.
Qed.
(* THE corollary: Triangle(<cells selected from a triangle, in order>) is that very list *)
Lemma selection_is_constructor_fixpoint : forall out t, sublist out t -> canonical t -> mk_triangle out = Ok out.
Proof.
  intros out t H Hc. apply canonical_fixpoint. eapply sublist_canonical; eassumption.
Qed.

(* instances: every removing operation of C11 *)
Lemma filter_constructor : forall p t, canonical t -> mk_triangle (tri_filter p t) = Ok (tri_filter p t).
Proof.
  intros p t Hc. apply (selection_is_constructor_fixpoint _ t); [|exact Hc].
  unfold tri_filter. apply filter_sublist.
Qed.
Lemma clip_constructor : forall s a t, canonical t -> mk_triangle (clip s a t) = Ok (clip s a t).
Proof.
  intros s a t Hc. apply (selection_is_constructor_fixpoint _ t); [|exact Hc]. apply clip_sublist.
Qed.
Lemma right_edge_constructor : forall t, canonical t -> mk_triangle (right_edge t) = Ok (right_edge t).
Proof.
  intros t Hc. apply (selection_is_constructor_fixpoint _ t); [|exact Hc]. apply right_edge_sublist.
Qed.
Lemma slices_constructor : forall t m g, canonical t -> In (m, g) (slices t) -> mk_triangle g = Ok g.
Proof.
  intros t m g Hc H. apply (selection_is_constructor_fixpoint _ t); [|exact Hc].
  unfold slices in H.
  destruct (group_by_keyed Select.meta_pyeq cmeta meta_pyeq_refl meta_pyeq_sym meta_pyeq_trans t m g H)
    as [_ [_ [Hsub _]]]. exact Hsub.
Qed.
Lemma split_constructor : forall ks t k g, canonical t -> In (k, g) (split ks t) -> mk_triangle g = Ok g.
Proof.
  intros ks t k g Hc H. apply (selection_is_constructor_fixpoint _ t); [|exact Hc].
  unfold split in H.
  destruct (group_by_keyed detail_key_eqb (detail_key ks) detail_key_eqb_refl detail_key_eqb_sym
              detail_key_eqb_trans t k g H) as [_ [_ [Hsub _]]]. exact Hsub.
Qed.
(* every Triangle-valued index result is a sublist of the triangle, hence a constructor fixpoint *)
Lemma getitem_tri_sublist : forall g s ix t r, getitem g s ix t = Ok (GTri r) -> sublist r t.
Proof.
  intros g s ix t r H. destruct ix as [i|a b st|p e m|].
  - cbn [getitem] in H.
    match type of H with (if ?b then _ else _) = _ => destruct b end; [discriminate|].
    destruct (nth_cell _ t); cbn [bind] in H; discriminate.
  - cbn [getitem] in H. injection H as <-. apply list_slice_sublist.
  - unfold getitem in H.
    destruct (pidx_bounds p) as [pb|]; cbn [bind] in H; [|discriminate].
    destruct (pidx_bounds e) as [eb|]; cbn [bind] in H; [|discriminate].
    destruct (is_slice_p p || is_slice_p e || match m with MAll => true | _ => false end).
    + injection H as <-.
      eapply sublist_trans; [apply clip_sublist|].
      eapply sublist_trans; [apply filter_sublist|].
      destruct m; try apply sublist_refl. apply filter_sublist.
    + destruct (clip s _ _); discriminate.
  - discriminate.
Qed.
Lemma getitem_constructor : forall g s ix t r, canonical t -> getitem g s ix t = Ok (GTri r) -> mk_triangle r = Ok r.
Proof.
  intros g s ix t r Hc H. apply (selection_is_constructor_fixpoint _ t); [|exact Hc].
  eapply getitem_tri_sublist; eassumption.
Qed.
Lemma slice_getitem_constructor : forall g s ix t r, canonical t ->
  slice_getitem g s ix t = Ok (GTri r) -> mk_triangle r = Ok r.
Proof.
  intros g s ix t r Hc H. destruct ix as [p e|]; cbn [slice_getitem] in H; [|discriminate].
  eapply getitem_constructor; eassumption.
Qed.

(* operations that rebuild cells with unchanged class, metadata and coordinates *)
Lemma map_canonical : forall (f : cell -> cell) t,
  (forall a, cell_tuple (f a) = cell_tuple a) -> (forall a, ckind (f a) = ckind a) ->
  canonical t -> canonical (map f t).
Proof.
  intros f t Ht Hk [Hs Hsk]. split.
  - assert (Hle : forall a b, cell_le a b -> cell_le (f a) (f b)).
    { intros a b. unfold cell_le, le, cell_cmp. rewrite !Ht. auto. }
    induction Hs as [|a l Hs IH HF]; cbn [map]; constructor.
    + apply IH. apply same_kind_spec in Hsk. destruct Hsk as [k Hk']. apply same_kind_spec.
      exists k. inversion Hk'; assumption.
    + rewrite Forall_forall in *. intros y Hy. apply in_map_iff in Hy.
      destruct Hy as [x [<- Hx]]. apply Hle. apply HF. exact Hx.
  - apply same_kind_spec in Hsk. destruct Hsk as [k Hk']. apply same_kind_spec. exists k.
    unfold all_kind in *. rewrite Forall_forall in *. intros y Hy. apply in_map_iff in Hy.
    destruct Hy as [x [<- Hx]]. rewrite Hk. apply Hk'. exact Hx.
Qed.
Lemma select_constructor : forall ks t, canonical t -> mk_triangle (tri_select ks t) = Ok (tri_select ks t).
Proof.
  intros ks t Hc. apply canonical_fixpoint. unfold tri_select. apply map_canonical.
  - intros a. reflexivity.
  - intros a. reflexivity.
  - exact Hc.
Qed.

(* negative steps: t[::-1] selects the cells in reverse; the constructor restores the canonical
   order -- the same triangle when no two cells are order-equivalent (duplicates of one coordinate
   would come back in swapped relative order, the sort being stable) *)
(* ---- helpers for the full reversed slice ---- *)
Lemma down_positions_full : forall n,
  down_positions n (Z.of_nat n - 1) (-1) (Z.pos 1) = map Z.of_nat (rev (seq 0 n)).
Proof.
  induction n as [|n IH].
  - reflexivity.
  - rewrite seq_S, rev_app_distr. cbn [down_positions rev app map Nat.add].
    replace (-1 <? Z.of_nat (S n) - 1) with true by (symmetry; apply Z.ltb_lt; lia).
    replace (Z.of_nat (S n) - 1) with (Z.of_nat n) by lia.
    f_equal. exact IH.
Qed.
Lemma pick_app : forall l1 l2 t, pick (l1 ++ l2) t = pick l1 t ++ pick l2 t.
Proof. intros. unfold pick. apply flat_map_app. Qed.
Lemma pick_rev : forall l t, pick (rev l) t = rev (pick l t).
Proof.
  induction l as [|i l IH]; intros t; [reflexivity|].
  cbn [rev]. rewrite pick_app, IH. change (i :: l) with ([i] ++ l). rewrite pick_app, rev_app_distr.
  f_equal. unfold pick. cbn [flat_map]. rewrite app_nil_r.
  destruct (nth_error t i); reflexivity.
Qed.
Lemma pick_seq : forall pre r, pick (seq (length pre) (length r)) (pre ++ r) = r.
Proof.
  intros pre r. revert pre. induction r as [|c r IH]; intros pre; [reflexivity|].
  cbn [length seq]. unfold pick. cbn [flat_map]. fold (pick (seq (S (length pre)) (length r)) (pre ++ c :: r)).
  rewrite nth_error_app2 by lia. rewrite Nat.sub_diag. cbn [nth_error app].
  f_equal. specialize (IH (pre ++ [c])). rewrite app_length in IH. cbn [length] in IH.
  rewrite Nat.add_1_r, <- app_assoc in IH. exact IH.
Qed.

Lemma list_slice_neg_full : forall t, list_slice_neg None None 1%positive t = rev t.
Proof.
  intros t. unfold list_slice_neg. cbn [norm_bound_neg].
  rewrite down_positions_full, map_map.
  rewrite (map_ext _ (fun x => x)) by (intros; apply Nat2Z.id). rewrite map_id.
  rewrite pick_rev. f_equal. apply (pick_seq [] t).
Qed.
Lemma list_slice_neg_perm_sub : forall t, Permutation (list_slice_neg None None 1%positive t) t.
Proof.
  intros t. rewrite list_slice_neg_full. apply Permutation_sym, Permutation_rev.
Qed.
Lemma reversed_triangle_is_the_triangle : forall t,
  cells_comparable t -> cells_separated t -> canonical t ->
  mk_triangle (list_slice_neg None None 1%positive t) = Ok t
  /\ getitem_neg_step sort_cells None None 1%positive t = GTri t.
Proof.
  intros t Hc Hs Hcan.
  assert (E : mk_triangle (rev t) = Ok t).
  { rewrite <- (mk_triangle_perm t (rev t) (Permutation_rev t) Hc Hs). now apply canonical_fixpoint. }
  split.
  - rewrite list_slice_neg_full. exact E.
  - unfold getitem_neg_step. rewrite list_slice_neg_full. unfold mk_triangle in E.
    rewrite <- (same_kind_perm _ _ (Permutation_rev t)) in E. destruct Hcan as [_ Hk].
    rewrite Hk in E. injection E as E. now rewrite E.
Qed.
Lemma list_slice_neg_in : forall a b s t c, In c (list_slice_neg a b s t) -> In c t.
Proof.
  intros a b s t c. unfold list_slice_neg, pick. rewrite in_flat_map.
  intros [i [_ Hi]]. destruct (nth_error t i) as [d|] eqn:E; [|destruct Hi].
  destruct Hi as [<-|[]]. eapply nth_error_In; eassumption.
Qed.
(* any negative-step selection: the constructor returns a canonical permutation of the selected cells *)
Lemma neg_step_canonical : forall a b s t r, cells_comparable t -> canonical t ->
  mk_triangle (list_slice_neg a b s t) = Ok r ->
  Permutation (list_slice_neg a b s t) r /\ canonical r.
Proof.
  intros a b s t r Hc _ H.
  assert (Hc' : cells_comparable (list_slice_neg a b s t)).
  { intros x y Hx Hy. apply Hc; eapply list_slice_neg_in; eassumption. }
  destruct (mk_triangle_canonical _ _ Hc' H) as [P [Hs Hk]].
  split; [exact P|split; assumption].
Qed.

(* development-lag bounds in days: the model compares 1024 * (ev - pe) with the bound n/1024-coded;
   for whole days (what a datetime.timedelta of n days, or the int n, denotes) that is the
   comparison of the day counts *)
Lemma day_bounds_compare_day_counts : forall s f1 f2 lo hi t c, clip_spec_ok s = true ->
  (In c (clip s (mkClip None None None None (Some (Num f1 (1024 * lo))) (Some (Num f2 (1024 * hi))) UDay) t)
   <-> In c t /\ lo <= ev c - pe c <= hi).
Proof.
  intros s f1 f2 lo hi t c H. rewrite (clip_in_iff s _ t c H).
  cbn [min_eval max_eval min_period max_period min_dev max_dev dev_unit]. unfold dev_lag. split.
  - intros (Hin & _ & _ & _ & _ & H5 & H6).
    specialize (H5 _ eq_refl). specialize (H6 _ eq_refl). unfold num_n in H5, H6.
    split; [exact Hin|lia].
  - intros (Hin & Hb). split; [exact Hin|].
    repeat split; try (intros; discriminate);
      intros x E;
      match type of E with Some ?v = Some _ => assert (E' : x = v) by congruence; rewrite E' end;
      unfold num_n; lia.
Qed.

(* month lags of month-aligned cells, every year >= 1 (CalendarP; MINID = -23628) *)
Lemma month_lag_month_aligned : forall c a b, MINID <= a -> MINID <= b ->
  pe c = month_end a -> ev c = month_end b -> dev_lag UMonth c = b - a.
Proof.
  intros c a b Ha Hb Hp He. unfold dev_lag. rewrite Hp, He.
  now apply CalendarP.lag_months_month_ends.
Qed.
Lemma month_lag_of_month_end_dates : forall c, 1 <= pe c -> 1 <= ev c ->
  is_month_end (pe c) = true -> is_month_end (ev c) = true ->
  pe c = month_end (month_id (pe c)) /\ ev c = month_end (month_id (ev c))
  /\ dev_lag UMonth c = month_id (ev c) - month_id (pe c).
Proof.
  intros c Hp He Mp Me.
  apply (is_month_end_iff _ Hp) in Mp. apply (is_month_end_iff _ He) in Me.
  split; [exact Mp|]. split; [exact Me|]. reflexivity.
Qed.
