(** C04 helper lemmas 1: the strict Boolean equalities of Base.v reflect Leibniz equality;
    mapM; association lists. *)
From Coq Require Import ZArith List Bool Lia.
From Bermuda Require Import Model.Base Model.Basis.
Import ListNotations.
Local Open Scope Z_scope.

Lemma list_eqb_eq {A} (eqb : A -> A -> bool) :
  (forall a b, eqb a b = true <-> a = b) ->
  forall l1 l2, list_eqb eqb l1 l2 = true <-> l1 = l2.
Proof.
  intros H l1; induction l1 as [|a l1 IH]; destruct l2 as [|b l2]; simpl; split; intros E;
    try congruence; try discriminate.
  - apply andb_true_iff in E as [E1 E2]. apply H in E1. apply IH in E2. congruence.
  - inversion E; subst. apply andb_true_iff; split; [now apply H | now apply IH].
Qed.

Lemma str_eqb_eq a b : str_eqb a b = true <-> a = b.
Proof. apply list_eqb_eq. intros; apply Z.eqb_eq. Qed.
Lemma str_eqb_refl a : str_eqb a a = true.
Proof. now apply str_eqb_eq. Qed.
Lemma str_eqb_sym a b : str_eqb a b = str_eqb b a.
Proof.
  destruct (str_eqb a b) eqn:E, (str_eqb b a) eqn:F; auto.
  - apply str_eqb_eq in E; subst. now rewrite str_eqb_refl in F.
  - apply str_eqb_eq in F; subst. now rewrite str_eqb_refl in E.
Qed.

Lemma opt_eqb_eq {A} (eqb : A -> A -> bool) :
  (forall a b, eqb a b = true <-> a = b) ->
  forall x y, opt_eqb eqb x y = true <-> x = y.
Proof.
  intros H [a|] [b|]; simpl; split; intros E; try congruence; try discriminate.
  - apply H in E; congruence.
  - inversion E; now apply H.
Qed.

Lemma num_seqb_eq a b : num_seqb a b = true <-> a = b.
Proof.
  destruct a as [f n], b as [g m]; unfold num_seqb; simpl.
  rewrite andb_true_iff, eqb_true_iff, Z.eqb_eq. split; [intros [-> ->]; auto | inversion 1; auto].
Qed.

Lemma mval_seqb_eq a b : mval_seqb a b = true <-> a = b.
Proof.
  destruct a, b; simpl; try (split; intros E; [discriminate | congruence]); try tauto.
  - rewrite str_eqb_eq. split; [congruence | inversion 1; auto].
  - rewrite num_seqb_eq. split; [congruence | inversion 1; auto].
  - rewrite eqb_true_iff. split; [congruence | inversion 1; auto].
  - rewrite Z.eqb_eq. split; [congruence | inversion 1; auto].
Qed.

Lemma pair_eqb_eq {A B} (ea : A -> A -> bool) (eb : B -> B -> bool) :
  (forall a b, ea a b = true <-> a = b) -> (forall a b, eb a b = true <-> a = b) ->
  forall x y, pair_eqb ea eb x y = true <-> x = y.
Proof.
  intros Ha Hb [a b] [a' b']; unfold pair_eqb; simpl. rewrite andb_true_iff, Ha, Hb.
  split; [intros [-> ->]; auto | inversion 1; auto].
Qed.

Lemma meta_seqb_eq a b : meta_seqb a b = true <-> a = b.
Proof.
  destruct a, b; unfold meta_seqb; simpl.
  rewrite !andb_true_iff.
  rewrite !(opt_eqb_eq str_eqb str_eqb_eq), (opt_eqb_eq num_seqb num_seqb_eq).
  rewrite !(list_eqb_eq _ (pair_eqb_eq _ _ str_eqb_eq mval_seqb_eq)).
  split.
  - intros [[[[[[[-> ->] ->] ->] ->] ->] ->] ->]; reflexivity.
  - inversion 1; subst; repeat split; reflexivity.
Qed.

Definition ckey (c : cell) : date * date * meta := (ps c, pe c, cmeta c).

Lemma same_key_iff a b : same_key a b = true <-> ckey a = ckey b.
Proof.
  unfold same_key, ckey. rewrite !andb_true_iff, !Z.eqb_eq, meta_seqb_eq.
  split; [intros [[-> ->] ->]; auto | inversion 1; auto].
Qed.
Lemma same_key_false a b : same_key a b = false <-> ckey a <> ckey b.
Proof.
  rewrite <- same_key_iff. destruct (same_key a b); split; congruence.
Qed.
Lemma same_key_refl a : same_key a a = true.
Proof. now apply same_key_iff. Qed.

Lemma value_seqb_eq a b : value_seqb a b = true <-> a = b.
Proof.
  destruct a, b; simpl; try (split; intros E; [discriminate | congruence]); try tauto.
  - rewrite num_seqb_eq. split; [congruence | inversion 1; auto].
  - rewrite andb_true_iff, eqb_true_iff, (list_eqb_eq Z.eqb Z.eqb_eq).
    split; [intros [-> ->]; auto | inversion 1; auto].
Qed.

Lemma cell_seqb_eq a b : cell_seqb a b = true <-> a = b.
Proof.
  destruct a, b; unfold cell_seqb; simpl.
  rewrite !andb_true_iff, !Z.eqb_eq, meta_seqb_eq, (opt_eqb_eq Z.eqb Z.eqb_eq).
  rewrite (list_eqb_eq _ (pair_eqb_eq _ _ str_eqb_eq value_seqb_eq)).
  split.
  - intros [[[[[[K ->] ->] ->] ->] ->] ->]. destruct ckind, ckind0; simpl in K; congruence.
  - inversion 1; subst. repeat split; try reflexivity. destruct ckind0; reflexivity.
Qed.
Lemma cells_eqb_eq a b : cells_eqb a b = true <-> a = b.
Proof. apply list_eqb_eq, cell_seqb_eq. Qed.

(* ---------------------------------------------------------------- mapM *)
Lemma mapM_app {A B} (f : A -> result B) l1 l2 :
  mapM f (l1 ++ l2) =
  bind (mapM f l1) (fun a => bind (mapM f l2) (fun b => Ok (a ++ b))).
Proof.
  induction l1 as [|x l1 IH]; simpl.
  - destruct (mapM f l2); reflexivity.
  - destruct (f x); simpl; auto. rewrite IH.
    destruct (mapM f l1); simpl; auto. destruct (mapM f l2); reflexivity.
Qed.

Lemma mapM_ok_Forall2 {A B} (f : A -> result B) l out :
  mapM f l = Ok out <-> Forall2 (fun a b => f a = Ok b) l out.
Proof.
  revert out; induction l as [|x l IH]; intros out; simpl.
  - split; [inversion 1; constructor | inversion 1; reflexivity].
  - split.
    + destruct (f x) eqn:E; simpl; try discriminate.
      destruct (mapM f l) eqn:F; simpl; try discriminate.
      inversion 1; subst. constructor; auto. now apply IH.
    + inversion 1; subst. rewrite H2; simpl.
      apply IH in H4. rewrite H4; reflexivity.
Qed.

(* first error wins: rows before are fine, this one fails *)
Lemma mapM_err {A B} (f : A -> result B) pre x post outs e :
  mapM f pre = Ok outs -> f x = Err e -> mapM f (pre ++ x :: post) = Err e.
Proof.
  intros H1 H2. rewrite mapM_app, H1; simpl. rewrite H2; reflexivity.
Qed.

(* ---------------------------------------------------------------- association lists *)
Lemma existsb_str_In k l : existsb (str_eqb k) l = true <-> In k l.
Proof.
  rewrite existsb_exists. split.
  - intros [x [Hx E]]. apply str_eqb_eq in E; subst; auto.
  - intros H; exists k; split; auto. apply str_eqb_refl.
Qed.

Lemma nodupb_NoDup l : nodupb l = true -> NoDup l.
Proof.
  induction l as [|k l IH]; simpl; intros H; constructor.
  - apply andb_true_iff in H as [H _]. intros Hin. apply existsb_str_In in Hin.
    rewrite Hin in H; discriminate.
  - apply andb_true_iff in H as [_ H]; auto.
Qed.

Lemma assoc_not_in {V} k (l : list (str * V)) : ~ In k (keys l) -> assoc k l = None.
Proof.
  induction l as [|[k' v] l IH]; simpl; auto. intros H.
  destruct (str_eqb k k') eqn:E.
  - apply str_eqb_eq in E; subst. exfalso; apply H; auto.
  - apply IH; intros Hin; apply H; auto.
Qed.

Lemma has_key_In {V} k (l : list (str * V)) : In k (keys l) -> has_key k l = true.
Proof.
  unfold has_key. induction l as [|[k' v] l IH]; simpl; [tauto|].
  intros [->|H]; [now rewrite str_eqb_refl|].
  destruct (str_eqb k k'); auto.
Qed.

Lemma subset_keys_same (a b : list (str * value)) : keys a = keys b -> subset_keys a b = true.
Proof.
  intros H. unfold subset_keys. apply forallb_forall. intros k Hk. apply has_key_In. congruence.
Qed.
