(* Top-level codec theorems: from the Boolean well-formedness predicates of Model/Binary.v to
     parse_ser_gen     : parse_gen flag (ser t) = if flag then RErr EEof else ROk t
     parse_prefix_gen  : every strict prefix of ser t is rejected or read as a leading segment of t
   ([flag = true] is the truncated-gzip reading of DESIGN 3: the stream raises at exhaustion). *)
From Coq Require Import ZArith List Bool Lia ZifyBool.
From Bermuda Require Import Lib.Bytes Lib.BinParse Lib.Utf8 Lib.StrSort Model.Binary
     Proofs.BinaryPrim Proofs.BinaryRec.
Import ListNotations.
Open Scope Z_scope.
Local Arguments le_enc : simpl never.

(* ------------------------------------------------------------------ Boolean -> Prop bridges *)
Lemma existsb_str_in h t : existsb (str_eqb h) t = false -> ~ In h t.
Proof.
  induction t as [|x t IH]; simpl; intros H; [tauto|].
  apply orb_false_iff in H as [H1 H2]. intros [->|Hin].
  - rewrite str_eqb_refl in H1. discriminate.
  - now apply IH.
Qed.

Lemma nodupb_NoDup l : nodupb l = true -> NoDup l.
Proof.
  induction l as [|h t IH]; simpl; intros H; constructor.
  - apply andb_true_iff in H as [H _]. apply existsb_str_in.
    destruct (existsb (str_eqb h) t); [discriminate|reflexivity].
  - apply andb_true_iff in H as [_ H]. auto.
Qed.

Lemma in_all_keys_values t c k : In c t -> In k (dict_keys (c_values c)) -> In k (all_keys t).
Proof.
  intros Hc Hk. unfold all_keys. apply in_or_app. left. apply in_flat_map. exists c. auto.
Qed.
Lemma in_all_keys_details t c k : In c t -> In k (dict_keys (m_details (c_meta c))) -> In k (all_keys t).
Proof.
  intros Hc Hk. unfold all_keys. apply in_or_app. right. apply in_flat_map. exists c. split; auto.
  unfold meta_keys. apply in_or_app. now left.
Qed.
Lemma in_all_keys_loss t c k :
  In c t -> In k (dict_keys (m_loss_details (c_meta c))) -> In k (all_keys t).
Proof.
  intros Hc Hk. unfold all_keys. apply in_or_app. right. apply in_flat_map. exists c. split; auto.
  unfold meta_keys. apply in_or_app. now right.
Qed.

Lemma dictb_facts d : dictb d = true ->
  (forall kv, In kv d -> strb (fst kv) = true /\ gvalb (snd kv) = true) /\ NoDup (dict_keys d).
Proof.
  unfold dictb. intros H. apply andb_true_iff in H as [H1 H2]. split.
  - intros kv Hin. rewrite forallb_forall in H1. specialize (H1 kv Hin).
    now apply andb_true_iff in H1.
  - now apply nodupb_NoDup.
Qed.

Lemma dict_ok_of pool d :
  dictb d = true -> no88_dictb pool d = true -> (forall k, In k (dict_keys d) -> In k pool) ->
  dict_ok pool d.
Proof.
  intros Hd H88 Hin. destruct (dictb_facts _ Hd) as [Hkv Hnd]. split; auto.
  apply Forall_forall. intros kv Hkvin. unfold no88_dictb in H88. rewrite forallb_forall in H88.
  specialize (H88 kv Hkvin). repeat split.
  - apply Hin. now apply in_map.
  - intros E. rewrite E in H88. discriminate.
  - apply Hkv, Hkvin.
Qed.

Lemma metab_facts m : metab m = true ->
  ostrb (m_risk_basis m) = true /\ ostrb (m_country m) = true /\ ostrb (m_currency m) = true
  /\ ostrb (m_reinsurance_basis m) = true /\ ostrb (m_loss_definition m) = true
  /\ limitb (m_limit m) = true /\ dictb (m_details m) = true /\ dictb (m_loss_details m) = true.
Proof. unfold metab. intros H. repeat (apply andb_true_iff in H as [H ?]). repeat split; auto. Qed.

Lemma cellb_parts c : cellb c = true -> dictb (c_values c) = true /\ metab (c_meta c) = true.
Proof. unfold cellb. intros H. repeat (apply andb_true_iff in H as [H ?]). split; auto. Qed.

Lemma cells_ok_of t : wf t -> no_0x88_key t -> Forall (cell_ok (pool_of t)) t.
Proof.
  unfold wf, wfb, no_0x88_key, no_0x88_keyb. intros Hwf H88.
  apply andb_true_iff in Hwf as [Hcells _].
  rewrite forallb_forall in Hcells, H88. apply Forall_forall. intros c Hc.
  specialize (Hcells c Hc). specialize (H88 c Hc). unfold no88_cellb in H88.
  repeat (apply andb_true_iff in H88 as [H88 ?]).
  destruct (cellb_parts _ Hcells) as [Hv Hm].
  destruct (metab_facts _ Hm) as (M1 & M2 & M3 & M4 & M5 & M6 & M7 & M8).
  split; [exact Hcells|]. split.
  - apply dict_ok_of; auto. intros k Hk. apply sort_dedup_in. eapply in_all_keys_values; eauto.
  - refine (conj M1 (conj M2 (conj M3 (conj M4 (conj M5 (conj M6 (conj _ _))))))).
    + apply dict_ok_of; auto. intros k Hk. apply sort_dedup_in. eapply in_all_keys_details; eauto.
    + apply dict_ok_of; auto. intros k Hk. apply sort_dedup_in. eapply in_all_keys_loss; eauto.
Qed.

Lemma dict_keys_strb d k : dictb d = true -> In k (dict_keys d) -> strb k = true.
Proof.
  intros Hd Hk. destruct (dictb_facts _ Hd) as [Hkv _].
  unfold dict_keys in Hk. apply in_map_iff in Hk as [kv [<- Hin]]. apply Hkv, Hin.
Qed.

Lemma pool_strs_ok t : wf t -> forallb strb (pool_of t) = true.
Proof.
  unfold wf, wfb. intros Hwf. apply andb_true_iff in Hwf as [Hcells _].
  rewrite forallb_forall in Hcells. apply forallb_forall. intros k Hk.
  unfold pool_of in Hk. apply (proj1 (sort_dedup_in _ _)) in Hk. unfold all_keys in Hk.
  apply in_app_or in Hk as [Hk|Hk]; apply in_flat_map in Hk as [c [Hc Hk]];
    specialize (Hcells c Hc); destruct (cellb_parts _ Hcells) as [Hv Hm].
  - eapply dict_keys_strb; eauto.
  - destruct (metab_facts _ Hm) as (_ & _ & _ & _ & _ & _ & M7 & M8).
    unfold meta_keys in Hk. apply in_app_or in Hk as [Hk|Hk].
    + eapply dict_keys_strb; [exact M7|exact Hk].
    + eapply dict_keys_strb; [exact M8|exact Hk].
Qed.

Lemma pool_small_of t : wf t -> Z.of_nat (length (pool_of t)) <= 32767.
Proof. unfold wf, wfb, POOL_MAX. intros H. apply andb_true_iff in H as [_ H]. lia. Qed.

(* ------------------------------------------------------------------ pool record *)
Lemma pool_rt pool : Z.of_nat (length pool) <= 32767 -> forallb strb pool = true ->
  RtAt dec_pool (enc_pool pool) (map (@Some str) pool).
Proof.
  intros Hs Hp. unfold dec_pool, enc_pool.
  apply bind_rt with (a := Z.of_nat (length pool)). { apply u16_of_i16_rt. lia. }
  rewrite Nat2Z.id. now apply strs_rt.
Qed.

Lemma pool_tb pool : Z.of_nat (length pool) <= 32767 -> forallb strb pool = true ->
  TbAt dec_pool (enc_pool pool).
Proof.
  intros Hs Hp. unfold dec_pool, enc_pool.
  apply bind_tb_S with (a := Z.of_nat (length pool)).
  { apply u16_of_i16_rt. lia. } { apply u16_strict. }
  rewrite Nat2Z.id. now apply strs_tb.
Qed.

(* ------------------------------------------------------------------ header *)
Definition after_header (flag : bool) (total : nat) (R : bytes) : result (list cell) :=
  match dec_pool R with
  | Err e => RErr e
  | Ok pool r3 =>
    match dec_body flag pool (S total) None [] r3 with
    | Ok cs _ => ROk cs
    | Err e => RErr e
    end
  end.

Lemma parse_gen_hdr flag R :
  parse_gen flag (MAGIC ++ [VERSION] ++ R) = after_header flag (5 + length R) R.
Proof. reflexivity. Qed.

Lemma parse_gen_short flag R n : (n < 5)%nat ->
  exists e, parse_gen flag (firstn n (MAGIC ++ [VERSION] ++ R)) = RErr e.
Proof.
  intros H. destruct n as [|[|[|[|[|n]]]]]; try lia; eexists; reflexivity.
Qed.

Lemma firstn_hdr n R :
  firstn (5 + n) (MAGIC ++ [VERSION] ++ R) = MAGIC ++ [VERSION] ++ firstn n R.
Proof. reflexivity. Qed.

Definition final (flag : bool) (cs : list cell) : result (list cell) :=
  if flag then RErr EEof else ROk cs.

Lemma at_end_final flag cs :
  match at_end flag cs with Ok c _ => ROk c | Err e => RErr e end = final flag cs.
Proof. destruct flag; reflexivity. Qed.

(* ------------------------------------------------------------------ C05 *)
Theorem parse_ser_gen flag t : wf t -> no_0x88_key t -> parse_gen flag (ser t) = final flag t.
Proof.
  intros Hwf H88. unfold ser. rewrite parse_gen_hdr. unfold after_header.
  pose proof (pool_small_of _ Hwf) as Hs. pose proof (pool_strs_ok _ Hwf) as Hp.
  rewrite (pool_rt _ Hs Hp).
  rewrite (body_rt (pool_of t) Hs flag t).
  - cbn [rev app]. apply at_end_final.
  - now apply cells_ok_of.
  - rewrite app_length. lia.
Qed.

(* ------------------------------------------------------------------ C19 *)
Definition PrefixResult (flag : bool) (t : list cell) (r : result (list cell)) : Prop :=
  (exists e, r = RErr e) \/ exists k, r = final flag (firstn k t).

Theorem parse_prefix_gen flag t n : wf t -> no_0x88_key t -> (n < length (ser t))%nat ->
  PrefixResult flag t (parse_gen flag (firstn n (ser t))).
Proof.
  intros Hwf H88 Hn. unfold ser in *.
  pose proof (pool_small_of _ Hwf) as Hs. pose proof (pool_strs_ok _ Hwf) as Hp.
  pose proof (cells_ok_of _ Hwf H88) as Hok.
  set (pool := pool_of t) in *.
  destruct (Nat.lt_ge_cases n 5) as [Hlt|Hge].
  { left. now apply parse_gen_short. }
  replace n with (5 + (n - 5))%nat by lia. rewrite firstn_hdr, parse_gen_hdr.
  set (m := (n - 5)%nat).
  assert (Hm : (m < length (enc_pool pool ++ enc_body pool None t))%nat).
  { change (length (MAGIC ++ [VERSION] ++ enc_pool pool ++ enc_body pool None t))
      with (5 + length (enc_pool pool ++ enc_body pool None t))%nat in Hn. lia. }
  unfold after_header.
  assert (Hfu : (m < S (5 + length (firstn m (enc_pool pool ++ enc_body pool None t))))%nat).
  { rewrite firstn_length. lia. }
  set (fuel := S (5 + length (firstn m (enc_pool pool ++ enc_body pool None t)))) in *.
  clearbody fuel.
  destruct (Nat.lt_ge_cases m (length (enc_pool pool))) as [Hlt|Hge'].
  - rewrite firstn_app_lt by assumption.
    destruct (pool_tb pool Hs Hp m Hlt) as [[e ->]|[y ->]].
    + left. now exists e.
    + right. exists O. destruct fuel; [lia|]. cbn [dec_body rev firstn]. apply at_end_final.
  - rewrite firstn_app_ge by assumption. rewrite (pool_rt pool Hs Hp).
    rewrite app_length in Hm.
    destruct (body_trunc pool Hs flag t fuel
                None [] (m - length (enc_pool pool))%nat Hok) as [[e He]|[j Hj]].
    + lia.
    + lia.
    + left. exists e. now rewrite He.
    + right. exists j. rewrite Hj. cbn [rev app]. apply at_end_final.
Qed.

(* ------------------------------------------------------------------ the same two theorems for the
   writer parametrised by an ARBITRARY metadata test: what comes back is [rep_with meq None None t] *)
Theorem parse_ser_with_gen meq flag t : wf t -> no_0x88_key t ->
  parse_gen flag (ser_with meq t) = final flag (rep_with meq None None t).
Proof.
  intros Hwf H88. unfold ser_with. rewrite parse_gen_hdr. unfold after_header.
  pose proof (pool_small_of _ Hwf) as Hs. pose proof (pool_strs_ok _ Hwf) as Hp.
  rewrite (pool_rt _ Hs Hp).
  rewrite (body_rt_with (pool_of t) Hs meq flag t).
  - cbn [rev app]. apply at_end_final.
  - now apply cells_ok_of.
  - rewrite app_length. lia.
Qed.



Theorem parse_prefix_with_gen meq flag t n : wf t -> no_0x88_key t -> (n < length (ser_with meq t))%nat ->
  PrefixResult flag (rep_with meq None None t) (parse_gen flag (firstn n (ser_with meq t))).
Proof.
  intros Hwf H88 Hn. unfold ser_with in *.
  pose proof (pool_small_of _ Hwf) as Hs. pose proof (pool_strs_ok _ Hwf) as Hp.
  pose proof (cells_ok_of _ Hwf H88) as Hok.
  set (pool := pool_of t) in *.
  destruct (Nat.lt_ge_cases n 5) as [Hlt|Hge].
  { left. now apply parse_gen_short. }
  replace n with (5 + (n - 5))%nat by lia. rewrite firstn_hdr, parse_gen_hdr.
  set (m := (n - 5)%nat).
  assert (Hm : (m < length (enc_pool pool ++ enc_body_with meq pool None t))%nat).
  { change (length (MAGIC ++ [VERSION] ++ enc_pool pool ++ enc_body_with meq pool None t))
      with (5 + length (enc_pool pool ++ enc_body_with meq pool None t))%nat in Hn. lia. }
  unfold after_header.
  assert (Hfu : (m < S (5 + length (firstn m (enc_pool pool ++ enc_body_with meq pool None t))))%nat).
  { rewrite firstn_length. lia. }
  set (fuel := S (5 + length (firstn m (enc_pool pool ++ enc_body_with meq pool None t)))) in *.
  clearbody fuel.
  destruct (Nat.lt_ge_cases m (length (enc_pool pool))) as [Hlt|Hge'].
  - rewrite firstn_app_lt by assumption.
    destruct (pool_tb pool Hs Hp m Hlt) as [[e ->]|[y ->]].
    + left. now exists e.
    + right. exists O. destruct fuel; [lia|]. cbn [dec_body rev firstn]. apply at_end_final.
  - rewrite firstn_app_ge by assumption. rewrite (pool_rt pool Hs Hp).
    rewrite app_length in Hm.
    destruct (body_trunc_with pool Hs meq flag t fuel
                None None [] (m - length (enc_pool pool))%nat Hok) as [[e He]|[j Hj]].
    + lia.
    + lia.
    + left. exists e. now rewrite He.
    + right. exists j. rewrite Hj. cbn [rev app]. apply at_end_final.
Qed.

(* plain files *)
Corollary parse_ser t : wf t -> no_0x88_key t -> parse (ser t) = ROk (cells t).
Proof. intros H1 H2. apply (parse_ser_gen false t H1 H2). Qed.

Corollary parse_prefix t n : wf t -> no_0x88_key t -> (n < length (ser t))%nat ->
  (exists e, parse (firstn n (ser t)) = RErr e) \/
  (exists k, parse (firstn n (ser t)) = ROk (firstn k (cells t))).
Proof. intros H1 H2 H3. apply (parse_prefix_gen false t n H1 H2 H3). Qed.

(* a stream that raises at exhaustion (truncated gzip member): every prefix, the whole plaintext
   included, is rejected *)
Corollary parse_raising_prefix t n : wf t -> no_0x88_key t -> (n <= length (ser t))%nat ->
  exists e, parse_gen true (firstn n (ser t)) = RErr e.
Proof.
  intros H1 H2 H3. destruct (Nat.eq_dec n (length (ser t))) as [->|Hne].
  - rewrite firstn_all. rewrite (parse_ser_gen true t H1 H2). now exists EEof.
  - destruct (parse_prefix_gen true t n H1 H2) as [He|[k Hk]]; [lia | exact He |].
    rewrite Hk. now exists EEof.
Qed.

(* wrong magic / version *)
Lemma parse_bad_magic bs : zlist_eqb (fst (take 4 bs)) MAGIC = false -> parse bs = RErr EValue.
Proof.
  intros H. unfold parse, parse_gen. destruct (take 4 bs) as [mg r]. cbn [fst] in H. now rewrite H.
Qed.

Lemma parse_bad_version v r : v <> VERSION -> parse (MAGIC ++ v :: r) = RErr EValue.
Proof.
  intros H. unfold parse, parse_gen. change (take 4 (MAGIC ++ v :: r)) with (MAGIC, v :: r).
  cbn [negb zlist_eqb MAGIC]. cbn. destruct (Z.eqb_spec v VERSION); [contradiction|reflexivity].
Qed.

(* compression dispatch *)
Lemma dispatch_conventional c :
  read_flavour None (conventional_ext c) = ROk (write_flavour c (conventional_ext c)) /\
  read_flavour (Some c) (conventional_ext c) = ROk (write_flavour c (conventional_ext c)).
Proof. destruct c; split; reflexivity. Qed.

(* an explicit compress argument (True or False) is honoured whatever the extension *)
Lemma dispatch_explicit_honoured c e : read_flavour (Some c) e = ROk (write_flavour c e).
Proof. reflexivity. Qed.

Lemma dispatch_unknown_ext : read_flavour None ExtOther = RErr EValue.
Proof. reflexivity. Qed.

(* ------------------------------------------------------------------ Python's == as the writer's test *)
Corollary parse_ser_py t : wf t -> no_0x88_key t -> parse (ser_py t) = ROk (rep_py t).
Proof. intros H1 H2. apply (parse_ser_with_gen meta_pyeqb false t H1 H2). Qed.

Corollary parse_prefix_py t n : wf t -> no_0x88_key t -> (n < length (ser_py t))%nat ->
  (exists e, parse (firstn n (ser_py t)) = RErr e) \/
  (exists k, parse (firstn n (ser_py t)) = ROk (firstn k (rep_py t))).
Proof. intros H1 H2 H3. apply (parse_prefix_with_gen meta_pyeqb false t n H1 H2 H3). Qed.

Lemma cell_eqb_eq a b : cell_eqb a b = true -> a = b.
Proof.
  destruct a, b. unfold cell_eqb. cbn. intros H. repeat (apply andb_true_iff in H as [H ?]).
  f_equal; try (now apply date_eqb_eq); try (now apply dict_eqb_eq); try (now apply meta_eqb_eq).
  - destruct c_kind, c_kind0; cbn in H; congruence.
  - destruct c_prev, c_prev0; cbn in *; try discriminate; auto. f_equal. now apply date_eqb_eq.
Qed.
Lemma cells_eqb_eq a : forall b, cells_eqb a b = true -> a = b.
Proof.
  induction a as [|x a IH]; destruct b as [|y b]; cbn; intros H; try discriminate; auto.
  apply andb_true_iff in H as [H1 H2]. f_equal; [now apply cell_eqb_eq | now apply IH].
Qed.

(* on coherent triangles (Python-equal adjacent metadata are structurally equal) nothing is
   collapsed: the faithful writer round-trips exactly *)
Corollary parse_ser_py_coherent t : wf t -> no_0x88_key t -> coherentb t = true ->
  parse (ser_py t) = ROk (cells t).
Proof.
  intros H1 H2 H3. rewrite (parse_ser_py t H1 H2). f_equal. now apply cells_eqb_eq.
Qed.

Corollary parse_prefix_py_coherent t n : wf t -> no_0x88_key t -> coherentb t = true ->
  (n < length (ser_py t))%nat ->
  (exists e, parse (firstn n (ser_py t)) = RErr e) \/
  (exists k, parse (firstn n (ser_py t)) = ROk (firstn k (cells t))).
Proof.
  intros H1 H2 H3 H4. apply cells_eqb_eq in H3.
  destruct (parse_prefix_py t n H1 H2 H4) as [He|[k Hk]]; [now left|].
  right. exists k. rewrite Hk. unfold cells. now rewrite H3.
Qed.
