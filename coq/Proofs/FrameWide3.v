(** C14 -- reader side, preparation: the columns of the written table, the column sets the reader
    derives from them, what each column of a (possibly scenario-less) row carries, and the values
    of a sample cell rebuilt from its rows. *)
From Coq Require Import ZArith List Bool Lia ZifyBool.
From Bermuda Require Import Model.Base Model.Frame Proofs.FrameLib Proofs.FrameKey Proofs.FrameRow
     Proofs.FrameMeta Proofs.FrameValues Proofs.FrameWide1 Proofs.FrameWide2.
Import ListNotations.
Local Open Scope Z_scope.

Definition wcols (d hp : bool) (mn fn : list str) : list str :=
  base_keys hp ++ (if d then [] else [c_scenario]) ++ fn ++ mn.

Lemma nth_error_seq_map {A} (xs : list A) :
  map (fun i => nth_error xs i) (seq 0 (length xs)) = map Some xs.
Proof.
  induction xs as [|x xs IH]; [reflexivity|]. cbn [length]. rewrite seq_S_first. cbn [map nth_error].
  f_equal. rewrite <- seq_shift, map_map. exact IH.
Qed.
Lemma all_nums_TNum xs : all_nums (map TNum xs) = Some xs.
Proof. induction xs as [|x xs IH]; cbn; auto. rewrite IH. reflexivity. Qed.

Section Wide.
  Variables (fn dn ln : list str) (t : list cell).
  Hypothesis names : NoDup (reserved_names ++ fn ++ dn ++ ln).
  Let an := attr_names t.
  Let mn := an ++ dn ++ ln.

  Lemma mn_not_scenario n : In n mn -> n <> c_scenario.
  Proof.
    intros H E. subst n. apply in_app_or in H as [H|H].
    - apply scenario_not_meta. apply (attr_names_incl t); auto.
    - apply in_app_or in H as [H|H].
      + apply (dn_not_reserved fn dn ln names _ H). apply scenario_reserved.
      + apply (ln_not_reserved fn dn ln names _ H). apply scenario_reserved.
  Qed.
  Lemma fn_not_scenario n : In n fn -> n <> c_scenario.
  Proof. intros H E. subst n. apply (fn_not_reserved fn dn ln names _ H). apply scenario_reserved. Qed.
  Lemma base_not_scenario hp n : In n (base_keys hp) -> n <> c_scenario.
  Proof. intros H E. subst n. apply scenario_not_idx4. eapply base_keys_idx4; eauto. Qed.

  Lemma keys_wrow' d hp c ndx : keys (wrow' d hp mn fn c ndx) = wcols d hp mn fn.
  Proof.
    unfold wrow', adjb, wcols. destruct d; [|apply keys_wrow].
    rewrite keys_drop_col, keys_wrow. rewrite !filter_app.
    rewrite (filter_all _ (base_keys hp)), (filter_all _ fn), (filter_all _ mn).
    - cbn [filter]. rewrite str_eqb_refl. reflexivity.
    - intros x Hx. apply negb_true_iff, str_eqb_neq. apply mn_not_scenario; auto.
    - intros x Hx. apply negb_true_iff, str_eqb_neq. apply fn_not_scenario; auto.
    - intros x Hx. apply negb_true_iff, str_eqb_neq. eapply base_not_scenario; eauto.
  Qed.

  Lemma get_wrow' d hp c ndx n : n <> c_scenario -> get n (wrow' d hp mn fn c ndx) = get n (wrow hp mn fn c ndx).
  Proof. intros H. unfold wrow', adjb. destruct d; auto. apply get_drop_col; auto. Qed.

  Lemma ps_ne_scen : c_ps <> c_scenario. Proof. apply (base_not_scenario false). cbn; auto. Qed.
  Lemma pe_ne_scen : c_pe <> c_scenario. Proof. apply (base_not_scenario false). cbn; auto. Qed.
  Lemma ev_ne_scen : c_ev <> c_scenario. Proof. apply (base_not_scenario false). cbn; auto. Qed.
  Lemma prev_ne_scen : c_prev <> c_scenario. Proof. apply (base_not_scenario true). cbn; auto 10. Qed.

  Lemma get'_ps d hp c ndx : get c_ps (wrow' d hp mn fn c ndx) = TDate (ps c).
  Proof. rewrite get_wrow' by apply ps_ne_scen. apply get_ps. Qed.
  Lemma get'_pe d hp c ndx : get c_pe (wrow' d hp mn fn c ndx) = TDate (pe c).
  Proof. rewrite get_wrow' by apply pe_ne_scen. apply get_pe. Qed.
  Lemma get'_ev d hp c ndx : get c_ev (wrow' d hp mn fn c ndx) = TDate (ev c).
  Proof. rewrite get_wrow' by apply ev_ne_scen. apply get_ev. Qed.
  Lemma get'_prev d c ndx : get c_prev (wrow' d true mn fn c ndx) = match prev c with Some x => TDate x | None => TNaN end.
  Proof. rewrite get_wrow' by apply prev_ne_scen. apply get_prev. Qed.
  Lemma get'_field d hp c ndx f : In f fn ->
    get f (wrow' d hp mn fn c ndx) = field_entry (assoc f (cvals c)) ndx.
  Proof. intros Hf. rewrite get_wrow' by (apply fn_not_scenario; auto). apply (get_field fn dn ln names); auto. Qed.

  Section Cell.
    Variable c : cell.
    Hypothesis c_in : In c t.
    Hypothesis od : ordered_in dn (keys (details (cmeta c))) = true.
    Hypothesis ol : ordered_in ln (keys (loss_details (cmeta c))) = true.

    Lemma get'_attr d hp ndx n : In n meta_col_names ->
      get n (wrow' d hp mn fn c ndx) = get n (attr_dict (cmeta c)).
    Proof.
      intros Hn. rewrite get_wrow' by (intros E; subst; apply scenario_not_meta; auto).
      rewrite (meta_name_in_meta fn dn ln names) by auto.
      apply (meta_cols_attr t fn dn ln names c c_in); auto.
    Qed.
    Lemma get'_detail d hp ndx n : In n dn ->
      get n (wrow' d hp mn fn c ndx) = get n (tdict (details (cmeta c))).
    Proof.
      intros Hn. rewrite get_wrow' by (apply mn_not_scenario; apply in_or_app; right; apply in_or_app; auto).
      rewrite (dn_name_in_meta fn dn ln names) by auto.
      apply (meta_cols_detail t fn dn ln names c ol); auto.
    Qed.
    Lemma get'_loss d hp ndx n : In n ln ->
      get n (wrow' d hp mn fn c ndx) = get n (tdict (loss_details (cmeta c))).
    Proof.
      intros Hn. rewrite get_wrow' by (apply mn_not_scenario; apply in_or_app; right; apply in_or_app; auto).
      rewrite (ln_name_in_meta fn dn ln names) by auto.
      apply (meta_cols_loss t fn dn ln names c od); auto.
    Qed.

    (* coordinate, metadata and detail columns do not depend on the scenario index *)
    Lemma get'_indep d hp ndx n : In n (coord_cols ++ meta_col_names ++ dn ++ ln) ->
      get n (wrow' d hp mn fn c ndx) = get n (wrow' d hp mn fn c 0).
    Proof.
      intros H. apply in_app_or in H as [H|H].
      - cbn in H. destruct H as [<-|[<-|[<-|[]]]]; rewrite ?get'_ps, ?get'_pe, ?get'_ev; reflexivity.
      - apply in_app_or in H as [H|H]; [rewrite !get'_attr by auto; reflexivity|].
        apply in_app_or in H as [H|H]; [rewrite !get'_detail by auto | rewrite !get'_loss by auto]; reflexivity.
    Qed.

    Lemma meta_of_wrow' d hp ndx :
      meta_ok (cmeta c) = true ->
      meta_of_row dn ln (wrow' d hp mn fn c ndx) = fl_meta (cmeta c).
    Proof.
      intros Hok. apply meta_rebuilt; auto.
      - apply (nd_dn fn dn ln names).
      - apply (nd_ln fn dn ln names).
      - intros n Hn. apply get'_attr; auto.
      - intros n Hn. apply get'_detail; auto.
      - intros n Hn. apply get'_loss; auto.
    Qed.
  End Cell.

  (* ---------- what the reader computes from the columns ---------- *)
  Variable sp : frame_spec.
  Hypothesis sp_ok : frame_spec_ok sp = true.

  Lemma core_reserved n : In n (fs_core sp) -> In n reserved_names.
  Proof.
    intros H. apply (proj2 (spec_ok_consts sp sp_ok)) in H. rewrite reserved_split.
    change ([c_ps; c_pe; c_ev; c_prev]) with idx4 in H.
    apply in_app_or in H as [H|H]; [apply in_or_app; auto|]. apply in_or_app; right.
    apply in_app_or in H as [H|H]; apply in_or_app; [auto|]. right. cbn in *. tauto.
  Qed.
  Lemma core_idx4 n : In n idx4 -> In n (fs_core sp).
  Proof. intros H. apply (proj2 (spec_ok_consts sp sp_ok)). apply in_or_app; auto. Qed.
  Lemma core_meta n : In n meta_col_names -> In n (fs_core sp).
  Proof. intros H. apply (proj2 (spec_ok_consts sp sp_ok)). apply in_or_app; right. apply in_or_app; auto. Qed.
  Lemma core_scen : In c_scenario (fs_core sp).
  Proof. apply (proj2 (spec_ok_consts sp sp_ok)). apply in_or_app; right. apply in_or_app; right. cbn; auto. Qed.

  Lemma dcols_wcols d hp :
    filter (fun c => not_in (fs_core sp) c && not_in fn c) (wcols d hp mn fn) = dn ++ ln.
  Proof.
    unfold wcols, mn. rewrite !filter_app.
    rewrite (filter_none _ (base_keys hp)).
    2:{ intros x Hx. unfold not_in. rewrite (proj2 (mem_In x (fs_core sp))); auto.
        apply core_idx4. eapply base_keys_idx4; eauto. }
    rewrite (filter_none _ (if d then [] else [c_scenario])).
    2:{ intros x Hx. destruct d; [destruct Hx|]. destruct Hx as [<-|[]]. unfold not_in.
        rewrite (proj2 (mem_In _ _) core_scen). reflexivity. }
    rewrite (filter_none _ fn).
    2:{ intros x Hx. unfold not_in. rewrite (proj2 (mem_In x fn) Hx). apply andb_false_r. }
    rewrite (filter_none _ an).
    2:{ intros x Hx. unfold not_in. rewrite (proj2 (mem_In x (fs_core sp))); auto.
        apply core_meta. apply (attr_names_incl t); auto. }
    cbn [app]. f_equal; apply filter_all; intros x Hx; unfold not_in; apply andb_true_iff; split;
      apply negb_true_iff, mem_false.
    - intros H. apply (dn_not_reserved fn dn ln names x Hx). apply core_reserved; auto.
    - intros H. apply (fn_dn_disj fn dn ln names x H Hx).
    - intros H. apply (ln_not_reserved fn dn ln names x Hx). apply core_reserved; auto.
    - intros H. apply (fn_ln_disj fn dn ln names x H Hx).
  Qed.
  Lemma pure_wcols : filter (not_in ln) (dn ++ ln) = dn.
  Proof.
    rewrite filter_app. rewrite (filter_all _ dn), (filter_none _ ln); [apply app_nil_r| |].
    - intros x Hx. unfold not_in. rewrite (proj2 (mem_In x ln) Hx). reflexivity.
    - intros x Hx. unfold not_in. apply negb_true_iff, mem_false. intros H. apply (dn_ln_disj fn dn ln names x Hx H).
  Qed.
  Lemma index_cum_present d hp : forallb (fun c => mem c (wcols d hp mn fn)) (fs_index_cum sp) = true.
  Proof.
    rewrite (proj1 (spec_ok_consts sp sp_ok)). unfold wcols. apply forallb_forall. intros x Hx. apply mem_In.
    apply in_or_app; left. destruct hp; cbn in *; tauto.
  Qed.
  Lemma lcols_present : forallb (fun c => mem c (dn ++ ln)) ln = true.
  Proof. apply forallb_forall. intros x Hx. apply mem_In. apply in_or_app; auto. Qed.
  Lemma prev_present d hp : mem c_prev (wcols d hp mn fn) = hp.
  Proof.
    destruct hp.
    - apply mem_In. unfold wcols. apply in_or_app; left. cbn; auto 10.
    - apply mem_false. unfold wcols. intros H.
      assert (Hp : In c_prev idx4) by (cbn; auto 10).
      apply in_app_or in H as [H|H].
      { revert H. apply mem_false. vm_compute. reflexivity. }
      apply in_app_or in H as [H|H].
      { destruct d; [destruct H|]. destruct H as [E|[]]. apply scenario_not_idx4. rewrite E. exact Hp. }
      apply in_app_or in H as [H|H].
      { apply (fn_not_reserved fn dn ln names _ H). apply idx4_reserved; auto. }
      apply in_app_or in H as [H|H].
      { apply (meta_not_idx4 c_prev); auto. apply (attr_names_incl t); auto. }
      apply in_app_or in H as [H|H].
      { apply (dn_not_reserved fn dn ln names _ H). apply idx4_reserved; auto. }
      { apply (ln_not_reserved fn dn ln names _ H). apply idx4_reserved; auto. }
  Qed.
  Lemma scen_present d hp : mem c_scenario (wcols d hp mn fn) = negb d.
  Proof.
    destruct d; cbn [negb].
    - apply mem_false. unfold wcols. cbn [app]. intros H. apply in_app_or in H as [H|H].
      { eapply base_not_scenario; eauto. }
      apply in_app_or in H as [H|H]; [eapply fn_not_scenario | eapply mn_not_scenario]; eauto.
    - apply mem_In. unfold wcols. apply in_or_app; right. cbn; auto.
  Qed.
End Wide.

(* ---------- the values of a sample cell, rebuilt from its rows in scenario order ---------- *)
Theorem sample_values_rebuilt (fn : list str) (c : cell) (mk : nat -> row) :
  NoDup fn -> ordered_in fn (keys (cvals c)) = true -> sample_cell c = true ->
  (forall i f, (i < nrows c)%nat -> In f fn -> get f (mk i) = field_entry (assoc f (cvals c)) i) ->
  values_of (map mk (seq 0 (nrows c))) fn = Ok (map (fun kv => (fst kv, fl_value (snd kv))) (cvals c)).
Proof.
  intros ND Ho Hs Hget. pose proof (nrows_sample c Hs) as H2.
  rewrite (values_of_flat _ (fun f => option_map fl_value (assoc f (cvals c))) fn).
  - f_equal. rewrite <- (rebuild_dict fl_value fn ND (cvals c) (ordered_in_spec _ _ Ho)).
    apply flat_map_ext_in'. intros f Hf. destruct (assoc f (cvals c)); reflexivity.
  - intros f Hf. unfold field_value. rewrite map_map.
    assert (E : map (fun i => get f (mk i)) (seq 0 (nrows c))
                = map (fun i => field_entry (assoc f (cvals c)) i) (seq 0 (nrows c))).
    { apply map_ext_in. intros i Hi. apply in_seq in Hi. apply Hget; auto. lia. }
    rewrite E. clear E.
    destruct (assoc f (cvals c)) as [v|] eqn:Ea.
    + destruct (sample_assoc c f v Hs Ea) as (b & xs & -> & Hl & _).
      assert (E2 : map (fun i => field_entry (Some (VArr b xs)) i) (seq 0 (nrows c)) = map TNum xs).
      { rewrite <- Hl. destruct xs as [|x0 [|x1 xs']]; [cbn in Hl; lia | cbn in Hl; lia|].
        transitivity (map (fun o => match o with Some x => TNum x | None => TNaN end)
                          (map (fun i => nth_error (x0 :: x1 :: xs') i) (seq 0 (length (x0 :: x1 :: xs'))))).
        { rewrite map_map. reflexivity. }
        rewrite nth_error_seq_map, map_map. reflexivity. }
      rewrite E2. destruct xs as [|x0 [|x1 xs']]; [cbn in Hl; lia | cbn in Hl; lia|].
      cbn [map]. cbn [forallb is_nan andb]. 
      change (TNum x0 :: TNum x1 :: map TNum xs') with (map TNum (x0 :: x1 :: xs')).
      rewrite all_nums_TNum. reflexivity.
    + cbn [field_entry option_map]. destruct (nrows c) as [|[|n]]; [lia|lia|].
      cbn [seq map]. 
      assert (Hn : forallb is_nan (TNaN :: TNaN :: map (fun _ : nat => TNaN) (seq 2 n)) = true).
      { cbn. apply forallb_forall. intros x Hx. apply in_map_iff in Hx as [? [<- _]]. reflexivity. }
      rewrite Hn. reflexivity.
Qed.
