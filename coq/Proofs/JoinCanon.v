(** C10 -- results through C01's constructor (Model/Order.v, Proofs/TriangleP.v).
    add_statics rebuilds every cell with unchanged class, metadata and coordinates: for a canonical
    triangle the constructor returns the cells position by position. *)
From Coq Require Import ZArith List Bool Lia Permutation Sorted.
From Bermuda Require Import Model.Base Model.Order Proofs.OrderP Proofs.TriangleP.
From Bermuda Require Import Model.Select Model.Join Proofs.SelectP Proofs.JoinP Proofs.SelectCanon.
Import ListNotations.
Local Open Scope Z_scope.

Lemma add_statics_cell_tuple : forall fields src c,
  cell_tuple (add_statics_cell fields src c) = cell_tuple c.
Proof. intros. unfold add_statics_cell. destruct (source_cell src c); reflexivity. Qed.
Lemma add_statics_cell_kind : forall fields src c, ckind (add_statics_cell fields src c) = ckind c.
Proof. intros. unfold add_statics_cell. destruct (source_cell src c); reflexivity. Qed.
Lemma overwrite_values_tuple : forall sfx c r,
  cell_tuple (overwrite_values sfx c r) = cell_tuple c /\ ckind (overwrite_values sfx c r) = ckind c.
Proof. intros. split; reflexivity. Qed.

Lemma cell_cmp_tuple : forall a b a' b', cell_tuple a = cell_tuple a' -> cell_tuple b = cell_tuple b' ->
  cell_cmp a b = cell_cmp a' b'.
Proof. intros a b a' b' Ha Hb. unfold cell_cmp. now rewrite Ha, Hb. Qed.

Lemma map_comparable : forall (f : cell -> cell) t, (forall a, cell_tuple (f a) = cell_tuple a) ->
  cells_comparable t -> cells_comparable (map f t).
Proof.
  intros f t Hf Hc a b Ha Hb. apply in_map_iff in Ha. apply in_map_iff in Hb.
  destruct Ha as (a0 & <- & Ha0). destruct Hb as (b0 & <- & Hb0).
  rewrite (cell_cmp_tuple _ _ a0 b0 (Hf a0) (Hf b0)). now apply Hc.
Qed.
Lemma map_separated : forall (f : cell -> cell) t, (forall a, cell_tuple (f a) = cell_tuple a) ->
  cells_separated t -> cells_separated (map f t).
Proof.
  intros f t Hf Hs a b Ha Hb E. apply in_map_iff in Ha. apply in_map_iff in Hb.
  destruct Ha as (a0 & <- & Ha0). destruct Hb as (b0 & <- & Hb0).
  rewrite (cell_cmp_tuple _ _ a0 b0 (Hf a0) (Hf b0)) in E. now rewrite (Hs a0 b0 Ha0 Hb0 E).
Qed.

(* position by position *)
Lemma add_statics_map_constructor : forall fields src t, canonical t ->
  mk_triangle (map (add_statics_cell fields src) t) = Ok (map (add_statics_cell fields src) t).
Proof.
  intros fields src t Hc. apply canonical_fixpoint. apply map_canonical; auto.
  - intro a. apply add_statics_cell_tuple.
  - intro a. apply add_statics_cell_kind.
Qed.
(* Triangle(rich_cells): the slice-by-slice list of the source goes through the constructor and
   comes out as the input triangle's cells, each enriched, in the input's order *)
Lemma add_statics_constructor : forall fields src t,
  cells_comparable t -> cells_separated t -> canonical t ->
  mk_triangle (add_statics fields t src) = Ok (map (add_statics_cell fields src) t).
Proof.
  intros fields src t Hc Hs Hk.
  rewrite <- (add_statics_map_constructor fields src t Hk). symmetry.
  apply mk_triangle_perm.
  - apply Permutation_sym. apply add_statics_perm.
  - apply map_comparable; auto. intro a. apply add_statics_cell_tuple.
  - apply map_separated; auto. intro a. apply add_statics_cell_tuple.
Qed.

(* join/merge/coalesce/period_merge build their cell list in model order; whatever that order,
   the constructor returns a canonical permutation of it *)
Lemma model_result_through_constructor : forall out r, cells_comparable out -> mk_triangle out = Ok r ->
  Permutation out r /\ canonical r.
Proof. intros out r Hc H. destruct (mk_triangle_canonical out r Hc H) as (P & S & K). repeat split; auto. Qed.
