(** C16 -- for ANY description d with blend_spec_ok d = true, the model parametrised by d (Model/BlendDesc.v)
    is, function by function, the model of Model/Blend.v; hence it satisfies every statement of Props/C16.v. *)
From Coq Require Import ZArith QArith Qabs List Bool Lia String.
From Bermuda Require Import Model.Base Model.Blend Model.BlendDesc Proofs.BlendP Proofs.BlendQ Proofs.BlendTop.
Import ListNotations.
Local Open Scope Q_scope.
Local Notation length := Datatypes.length.

Lemma err_eqb_eq a b : err_eqb a b = true -> a = b.
Proof. destruct a, b; simpl; intro H; try reflexivity; discriminate H. Qed.
Lemma helper_eqb_eq a b : helper_eqb a b = true -> a = b.
Proof. destruct a, b; simpl; intro H; try reflexivity; discriminate H. Qed.
Lemma bcheck_eqb_eq a b : bcheck_eqb a b = true -> a = b.
Proof. destruct a, b; simpl; intro H; try reflexivity; discriminate H. Qed.
Lemma pform_eqb_eq a b : pform_eqb a b = true -> a = b.
Proof. destruct a, b; simpl; intro H; try reflexivity; discriminate H. Qed.
Lemma pair_eqb_eq {A B} (ea : A -> A -> bool) (eb : B -> B -> bool) :
  (forall a b, ea a b = true -> a = b) -> (forall a b, eb a b = true -> a = b) ->
  forall x y, pair_eqb ea eb x y = true -> x = y.
Proof.
  intros Ha Hb [a b] [a' b'] H. unfold pair_eqb in H. simpl in H. apply andb_true_iff in H. destruct H as [H1 H2].
  f_equal; auto.
Qed.

(* what blend_spec_ok decides about the interpreted part of a description *)
Record decided (d : blend_desc) : Prop := mkDecided {
  dc_mix : existsb (str_eqb MIXTURE) (bd_methods d) = true;
  dc_lin : existsb (str_eqb LINEAR) (bd_methods d) = true;
  dc_checks : bd_checks d = checks_ref;
  dc_T : bd_dict_transposed d = true;
  dc_dl : bd_dict_len_err d = Some ValueError;
  dc_missing : bd_missing_err d = ValueError;
  dc_dm : assoc MIXTURE (bd_dispatch d) = Some HMixture;
  dc_dlin : assoc LINEAR (bd_dispatch d) = Some HLinear;
  dc_else : bd_dispatch_else d = ValueError;
  dc_len : bd_len_err d = Some ValueError;
  dc_linlen : bd_linlen_err d = Some ValueError;
  dc_sum : bd_sum_err d = Some ValueError;
  dc_p : bd_choice_p d = PWeights;
  dc_fs : bd_fieldset_err d = Some ValueError;
  dc_mt : bd_mixtype_err d = Some TypeError;
  dc_ms : bd_mixscalar_err d = Some ValueError;
  dc_hdr : bd_header_from d = O
}.

Lemma spec_ok_decided d : blend_spec_ok d = true -> decided d.
Proof.
  unfold blend_spec_ok, decisions_ok. intro H.
  apply andb_true_iff in H. destruct H as [H _].
  repeat match type of H with (_ && _ = true) => apply andb_true_iff in H; let H' := fresh "E" in destruct H as [H H'] end.
  constructor.
  - exact E16.
  - exact E15.
  - apply (list_eqb_eq _ (pair_eqb_eq _ _ bcheck_eqb_eq err_eqb_eq)). exact E14.
  - apply Bool.eqb_prop in E13. exact E13.
  - apply (opt_eqb_eq _ err_eqb_eq). exact E12.
  - apply err_eqb_eq. exact E11.
  - apply (opt_eqb_eq _ helper_eqb_eq). exact E10.
  - apply (opt_eqb_eq _ helper_eqb_eq). exact E9.
  - apply err_eqb_eq. exact E7.
  - apply (opt_eqb_eq _ err_eqb_eq). exact E6.
  - apply (opt_eqb_eq _ err_eqb_eq). exact E5.
  - apply (opt_eqb_eq _ err_eqb_eq). exact E4.
  - apply pform_eqb_eq. exact E3.
  - apply (opt_eqb_eq _ err_eqb_eq). exact E2.
  - apply (opt_eqb_eq _ err_eqb_eq). exact E1.
  - apply (opt_eqb_eq _ err_eqb_eq). exact E0.
  - apply Nat.eqb_eq. exact E.
Qed.

Lemma map_result_ext {A B} (f g : A -> result B) l : (forall a, f a = g a) -> map_result f l = map_result g l.
Proof. intro H. induction l as [|a r IH]; simpl; [reflexivity|]. rewrite H, IH. reflexivity. Qed.

Section Eq.
Variable d : blend_desc.
Hypothesis Hd : decided d.

Lemma linear_blendD_eq vs ws : linear_blendD d vs ws = linear_blend vs ws.
Proof.
  unfold linear_blendD, linear_blend. rewrite (dc_linlen d Hd). unfold opt_refuse.
  destruct (forallb _ vs); reflexivity.
Qed.

Lemma mixture_blendD_eq vals ws dr : mixture_blendD d vals ws dr = mixture_blend vals ws dr.
Proof.
  unfold mixture_blendD, mixture_blend. rewrite (dc_sum d Hd), (dc_p d Hd). unfold opt_refuse. reflexivity.
Qed.

Lemma blend_samplesD_eq dr vals w m : blend_samplesD d dr vals w m = blend_samples dr vals w m.
Proof.
  unfold blend_samplesD, blend_samples. rewrite (dc_len d Hd), (dc_else d Hd). unfold opt_refuse.
  destruct (negb _); [reflexivity|].
  destruct m; cbn [name_of].
  - rewrite (dc_dm d Hd). apply mixture_blendD_eq.
  - rewrite (dc_dlin d Hd). destruct (all_some _); [apply linear_blendD_eq | reflexivity].
  - reflexivity.
Qed.

Lemma blend_fieldD_eq dr cells w m f : blend_fieldD d dr cells w m f = blend_field dr cells w m f.
Proof.
  unfold blend_fieldD, blend_field. destruct (all_some _) as [[|v0 rest]|]; try reflexivity.
  rewrite (dc_mt d Hd), (dc_ms d Hd). unfold opt_refuse. rewrite blend_samplesD_eq. reflexivity.
Qed.

Lemma blend_cellsD_eq fo draw cells w m : blend_cellsD d fo draw cells w m = blend_cells fo draw cells w m.
Proof.
  unfold blend_cellsD, blend_cells. destruct cells as [|c0 rest]; [reflexivity|].
  rewrite (dc_fs d Hd), (dc_hdr d Hd). unfold opt_refuse. cbn [nth].
  rewrite (map_result_ext _ (fun f => bind (blend_field (draw f) (c0 :: rest) w m f) (fun v => Ok (f, v)))).
  - reflexivity.
  - intro a. rewrite blend_fieldD_eq. reflexivity.
Qed.

Lemma weight_listD_eq w n : weight_listD d w n = weight_list w n.
Proof.
  unfold weight_listD, weight_list. destruct w as [|ws|rows|]; try reflexivity.
  destruct rows as [|r0 rs]; [reflexivity|]. rewrite (dc_T d Hd), (dc_dl d Hd). unfold opt_refuse. reflexivity.
Qed.

Lemma blend_loopD_eq fo draw idxs m : forall idx0 i wl,
  blend_loopD d fo draw i idx0 wl idxs m = blend_loop fo draw i idx0 wl idxs m.
Proof.
  induction idx0 as [|[k c] r IH]; intros i wl; [reflexivity|].
  destruct wl as [|w wr]; [reflexivity|]. cbn [blend_loopD blend_loop].
  destruct (all_some _); [|rewrite (dc_missing d Hd); reflexivity].
  rewrite blend_cellsD_eq. destruct (blend_cells _ _ _ _ _); [|reflexivity]. cbn [bind]. rewrite IH. reflexivity.
Qed.

Lemma run_single tris w m : run_check d CkSingle ValueError tris w m = single_check tris w.
Proof. reflexivity. Qed.

Theorem blendD_eq fo draw tris w m : blendD d fo draw tris w m = blend fo draw tris w m.
Proof.
  unfold blendD, blend. rewrite (dc_checks d Hd). unfold checks_ref.
  cbn [first_refusal]. rewrite run_single. cbn [run_check].
  destruct (single_check tris w); [reflexivity|].
  destruct m; cbn [name_of]; try reflexivity.
  - rewrite (dc_mix d Hd). destruct tris as [|t0 rest]; [reflexivity|].
    destruct (negb (forallb _ rest)); [reflexivity|].
    destruct ((length t0 =? 0)%nat && negb (length rest =? 0)%nat); [reflexivity|].
    destruct (negb (forallb _ rest)); [reflexivity|].
    rewrite weight_listD_eq. destruct (weight_list w (length t0)); [|reflexivity]. cbn [bind]. apply blend_loopD_eq.
  - rewrite (dc_lin d Hd). destruct tris as [|t0 rest]; [reflexivity|].
    destruct (negb (forallb _ rest)); [reflexivity|].
    destruct ((length t0 =? 0)%nat && negb (length rest =? 0)%nat); [reflexivity|].
    destruct (negb (forallb _ rest)); [reflexivity|].
    rewrite weight_listD_eq. destruct (weight_list w (length t0)); [|reflexivity]. cbn [bind]. apply blend_loopD_eq.
Qed.
End Eq.

(* ------------------------------------------------------------------ the statements of Props/C16.v, for any d *)
Section Generic.
Variable d : blend_desc.
Hypothesis OK : blend_spec_ok d = true.
Let Hd : decided d := spec_ok_decided d OK.

Theorem blendD_is_blend : forall fo draw tris w m, blendD d fo draw tris w m = blend fo draw tris w m.
Proof. intros. apply blendD_eq. exact Hd. Qed.

Theorem blendD_structure : forall fo draw tris w m out,
  blendD d fo draw tris w m = Ok out ->
  exists t0 rest, tris = t0 :: rest /\
    map qhdr out = map (fun kc => hdr (snd kc)) (index_tri t0) /\
    Forall2 (fun o kc => map fst (qvals o) = fo (keys (cvals (snd kc)))) out (index_tri t0).
Proof. intros fo draw tris w m out. rewrite (blendD_eq d Hd). apply blend_structure. Qed.

Theorem blendD_structure_wellformed : forall fo draw t0 rest w m out,
  blendD d fo draw (t0 :: rest) w m = Ok out -> NoDup (map coord_of t0) ->
  map qhdr out = map hdr t0 /\
  Forall2 (fun o c0 => map fst (qvals o) = fo (keys (cvals c0))) out t0.
Proof. intros fo draw t0 rest w m out. rewrite (blendD_eq d Hd). apply blend_structure_nodup. Qed.

Theorem blendD_cellwise : forall fo draw tris w m out,
  blendD d fo draw tris w m = Ok out ->
  exists t0 rest wl, tris = t0 :: rest /\ weight_listD d w (length t0) = Ok wl /\
    length out = length (index_tri t0) /\
    forall i o, nth_error out i = Some o ->
      exists k c0 wi cells,
        nth_error (index_tri t0) i = Some (k, c0) /\ In c0 t0 /\ k = coord_of c0 /\
        nth_error wl i = Some wi /\ at_coordinate tris k c0 cells /\
        qhdr o = hdr c0 /\ map fst (qvals o) = fo (keys (cvals c0)) /\
        Forall (fun c => keyset_eqb (keys (cvals c0)) (keys (cvals c)) = true) (tl cells) /\
        forall f v, In (f, v) (qvals o) -> blend_fieldD d (draw i f) cells wi m f = Ok v.
Proof.
  intros fo draw tris w m out. rewrite (blendD_eq d Hd). intro H.
  destruct (blend_fieldwise _ _ _ _ _ _ H) as [t0 [rest [wl [E1 [E2 [E3 E4]]]]]].
  exists t0, rest, wl. rewrite (weight_listD_eq d Hd). split; [exact E1|]. split; [exact E2|]. split; [exact E3|].
  intros i o Ho. destruct (E4 i o Ho) as [k [c0 [wi [cells R]]]]. exists k, c0, wi, cells.
  destruct R as [R1 [R2 [R3 [R4 [R5 [R6 [R7 [R8 R9]]]]]]]].
  split; [exact R1|]. split; [exact R2|]. split; [exact R3|]. split; [exact R4|]. split; [exact R5|].
  split; [exact R6|]. split; [exact R7|]. split; [exact R8|].
  intros f v Hin. rewrite (blend_fieldD_eq d Hd). apply R9. exact Hin.
Qed.

Theorem blendD_linear : forall fo draw tris w out,
  blendD d fo draw tris w MLinear = Ok out ->
  exists t0 rest wl, tris = t0 :: rest /\ weight_listD d w (length t0) = Ok wl /\
    forall i o f v, nth_error out i = Some o -> In (f, v) (qvals o) ->
      exists k c0 wi cells vals vs xs,
        nth_error (index_tri t0) i = Some (k, c0) /\ nth_error wl i = Some wi /\
        at_coordinate tris k c0 cells /\
        field_vals cells f = Some vals /\ all_some (map samples vals) = Some vs /\
        v = QArr xs /\ length xs = max_len vs /\
        let ws := eff_weights wi (length vals) in
        length ws = length vs /\
        (forall j, (j < max_len vs)%nat -> nth j xs 0 = dot ws (map (fun x => pick x j) vs)) /\
        (convex ws -> forall j lo hi, (j < max_len vs)%nat ->
           Forall (fun x => lo <= pick x j /\ pick x j <= hi) vs -> lo <= nth j xs 0 /\ nth j xs 0 <= hi) /\
        (qsum ws == 1 -> forall j c, (j < max_len vs)%nat ->
           Forall (fun x => pick x j == c) vs -> nth j xs 0 == c).
Proof.
  intros fo draw tris w out H. rewrite (blendD_eq d Hd) in H.
  destruct (blend_linear_top _ _ _ _ _ H) as [t0 [rest [wl [E1 [E2 E3]]]]].
  exists t0, rest, wl. rewrite (weight_listD_eq d Hd). split; [exact E1|]. split; [exact E2|]. exact E3.
Qed.

Theorem blendD_mixture : forall fo draw tris w out,
  blendD d fo draw tris w MMixture = Ok out ->
  exists t0 rest wl, tris = t0 :: rest /\ weight_listD d w (length t0) = Ok wl /\
    forall i o f v, nth_error out i = Some o -> In (f, v) (qvals o) ->
      exists k c0 wi cells v0 others,
        nth_error (index_tri t0) i = Some (k, c0) /\ nth_error wl i = Some wi /\
        at_coordinate tris k c0 cells /\
        field_vals cells f = Some (v0 :: others) /\
        (is_scalar v0 = true ->
           v = QKeep v0 /\ Forall (fun x => vtype x = vtype v0 /\ val_pyeq x v0 = true) others) /\
        (is_scalar v0 = false ->
           exists xs, v = QArr xs /\ length xs = length (arr_of v0) /\ length (draw i f) = length xs /\
             forall j, (j < length xs)%nat ->
               let pickd := nth j (draw i f) O in
               (pickd < length (v0 :: others))%nat /\
               nth j xs 0 = nth j (arr_of (nth pickd (v0 :: others) VNone)) 0 /\
               length (arr_of (nth pickd (v0 :: others) VNone)) = length xs).
Proof.
  intros fo draw tris w out H. rewrite (blendD_eq d Hd) in H.
  destruct (blend_mixture_top _ _ _ _ _ H) as [t0 [rest [wl [E1 [E2 E3]]]]].
  exists t0, rest, wl. rewrite (weight_listD_eq d Hd). split; [exact E1|]. split; [exact E2|]. exact E3.
Qed.

Theorem blendD_refuses_different_lengths : forall fo draw t0 rest w m,
  single_check (t0 :: rest) w = None -> m <> MBad ->
  Exists (fun t => length t <> length t0) rest ->
  blendD d fo draw (t0 :: rest) w m = Err ValueError.
Proof. intros fo draw t0 rest w m. rewrite (blendD_eq d Hd). apply blend_refuses_lengths. Qed.

Theorem blendD_refuses_different_cell_types : forall fo draw t0 rest w m,
  single_check (t0 :: rest) w = None -> m <> MBad -> t0 <> [] ->
  Forall (fun t => length t = length t0) rest ->
  Exists (fun t => first_kind t <> first_kind t0) rest ->
  blendD d fo draw (t0 :: rest) w m = Err ValueError.
Proof. intros fo draw t0 rest w m. rewrite (blendD_eq d Hd). apply blend_refuses_cell_types. Qed.

Theorem blendD_refuses_different_coordinates : forall fo draw tris w m out,
  blendD d fo draw tris w m = Ok out ->
  exists t0 rest, tris = t0 :: rest /\
    forall k c0, In (k, c0) (index_tri t0) ->
      Forall (fun t => exists c, In c t /\ coord_of c = k) tris.
Proof. intros fo draw tris w m out. rewrite (blendD_eq d Hd). apply blend_ok_coordinates. Qed.

Theorem blendD_refuses_missing_first_coordinate : forall fo draw c rest0 rest w m,
  let t0 := c :: rest0 in
  single_check (t0 :: rest) w = None -> m <> MBad ->
  Forall (fun t => length t = length t0) rest ->
  Forall (fun t => first_kind t = first_kind t0) rest ->
  (exists wl, weight_listD d w (length t0) = Ok wl) ->
  Exists (fun t => forall c', In c' t -> coord_of c' <> coord_of c) rest ->
  blendD d fo draw (t0 :: rest) w m = Err ValueError.
Proof.
  intros fo draw c rest0 rest w m. cbv zeta. intros H1 H2 H3 H4 [wl Hwl] H6.
  rewrite (weight_listD_eq d Hd) in Hwl. rewrite (blendD_eq d Hd).
  apply blend_refuses_first_coordinate; auto. exists wl. exact Hwl.
Qed.

Theorem blend_cellsD_refuses_different_field_sets : forall fo dr c0 rest w m,
  Exists (fun c => keyset_eqb (keys (cvals c0)) (keys (cvals c)) = false) rest ->
  blend_cellsD d fo dr (c0 :: rest) w m = Err ValueError.
Proof. intros fo dr c0 rest w m. rewrite (blend_cellsD_eq d Hd). apply cells_refuse_field_sets. Qed.

Theorem blend_fieldD_mixture_refuses_unequal_scalars : forall dr cells w f v0 rest,
  field_vals cells f = Some (v0 :: rest) -> is_scalar v0 = true ->
  Forall (fun x => vtype x = vtype v0) rest -> Exists (fun x => val_pyeq x v0 = false) rest ->
  blend_fieldD d dr cells w MMixture f = Err ValueError.
Proof. intros dr cells w f v0 rest. rewrite (blend_fieldD_eq d Hd). apply mixture_refuses_unequal_scalars. Qed.

Theorem blend_fieldD_mixture_refuses_mixed_value_types : forall dr cells w f v0 rest,
  field_vals cells f = Some (v0 :: rest) -> Exists (fun x => vtype x <> vtype v0) rest ->
  blend_fieldD d dr cells w MMixture f = Err TypeError.
Proof. intros dr cells w f v0 rest. rewrite (blend_fieldD_eq d Hd). apply mixture_refuses_types. Qed.

Theorem linear_blendD_refuses_sample_lengths : forall vs ws,
  Exists (fun x => length x <> max_len vs /\ length x <> 1%nat) vs -> linear_blendD d vs ws = Err ValueError.
Proof. intros vs ws. rewrite (linear_blendD_eq d Hd). apply linear_refuses_sample_lengths. Qed.

Theorem mixture_blendD_refuses_sample_lengths : forall fl x0 rest ws dr,
  probs_ok ws = true -> draw_ok (length (VArr fl x0 :: rest)) (length x0) dr = true ->
  Exists (fun v => length (arr_of v) <> length x0) rest ->
  mixture_blendD d (VArr fl x0 :: rest) ws dr = Err IndexError.
Proof. intros fl x0 rest ws dr. rewrite (mixture_blendD_eq d Hd). apply mixture_refuses_sample_lengths. Qed.

Theorem blend_samplesD_refuses_wrong_number_of_weights : forall dr vals w m,
  length (eff_weights w (length vals)) <> length vals -> blend_samplesD d dr vals w m = Err ValueError.
Proof. intros dr vals w m. rewrite (blend_samplesD_eq d Hd). apply samples_refuses_weight_length. Qed.

Theorem weight_listD_dict_per_cell : forall rows n i,
  rows <> [] -> n <> 1%nat -> Forall (fun r => length r = n) rows -> (i < n)%nat ->
  exists wl, weight_listD d (WDict rows) n = Ok wl /\ nth_error wl i = Some (Some (column rows i)).
Proof.
  intros rows n i H1 H2 H3 H4. rewrite (weight_listD_eq d Hd). eexists.
  split; [apply weight_list_dict_cell; assumption|].
  apply (nth_error_map_seq (fun j => Some (column rows j))). exact H4.
Qed.

Theorem weight_listD_dict_global : forall rows n i,
  rows <> [] -> Forall (fun r => length r = 1%nat) rows -> (i < n)%nat ->
  exists wl, weight_listD d (WDict rows) n = Ok wl /\ nth_error wl i = Some (Some (column rows 0)).
Proof.
  intros rows n i H1 H2 H3. rewrite (weight_listD_eq d Hd). eexists.
  split; [apply weight_list_dict_global; assumption|]. apply nth_error_repeat. exact H3.
Qed.
End Generic.
