(** C08, phase 2: the two families of resolutions satisfy [grid_ok].

    - day / week units: G k = origin + k*q, for every q >= 1 and every index range (no bound);
    - month / quarter / year units: G k = month_end (month_id origin + k*q) for an origin that is a
      month end of ANY year >= 1 (ordinal >= 1), every q >= 1, no upper bound on dates; the lower end of
      the index range is where month ids reach MINID = -23628 (January of year 1).  The calendar
      facts are the unbounded, axiom-free theorems of wp-basis's Proofs/CalendarP.v.
    TIE: Calendar.addm equals the source's float add_months only where the C12 bridge theorem
    C12_add_months_agrees_with_Z_calendar says so (month-aligned dates, results in 1970-2100; known
    finding F10 before 1970); outside that range these theorems are about the Z-model and the per-run
    correspondence is the tie. *)
From Coq Require Import ZArith List Bool Lia ZifyBool.
From Bermuda Require Import Model.Base Lib.Calendar Model.Summarize Model.Basis Model.Aggregate
  Proofs.CalendarP Proofs.Aggregate Proofs.AggregateGrid.
Import ListNotations.
Local Open Scope Z_scope.

(* ================================================================== day / week units *)
Definition day_G (origin q k : Z) : Z := origin + k * q.
Definition day_kidx (origin q d : Z) : Z := (d - (origin + 1)) / q.

Theorem day_grid_ok q origin klo khi :
  1 <= q -> klo <= 0 -> 0 < khi -> grid_ok (RDay q) origin (day_G origin q) klo khi (day_kidx origin q).
Proof.
  intros Hq Hlo Hhi. unfold day_G, day_kidx. constructor; auto.
  - lia.
  - intros k _. cbn [delta]. ring.
  - intros k _. cbn [delta]. ring.
  - intros k _. nia.
  - intros d Hd. set (a := d - (origin + 1)).
    pose proof (Z.mul_div_le a q ltac:(lia)) as H1. pose proof (Z.mul_succ_div_gt a q ltac:(lia)) as H2.
    assert (klo <= a / q) by (apply Z.div_le_lower_bound; [lia|]; subst a; nia).
    assert (a / q < khi) by (apply Z.div_lt_upper_bound; [lia|]; subst a; nia).
    subst a. split; [lia|]. nia.
  - intros d _. cbn [window_of]. f_equal; ring.
  - intros e He. cbn [on_grid]. rewrite Z.eqb_eq. split.
    + intros Hm. exists ((e - origin) / q).
      pose proof (Z.div_mod (e - origin) q ltac:(lia)) as Hdm. rewrite Hm in Hdm.
      split; [nia | nia].
    + intros (j & _ & ->). replace (origin + j * q - origin) with (j * q) by ring. apply Z.mod_mul. lia.
Qed.

(* ================================================================== month ends, any year >= 1 *)
Lemma me_le i j : i <= j -> month_end i <= month_end j.
Proof. intros H. unfold month_end. pose proof (CalendarP.month_start_mono (i + 1) (j + 1)). lia. Qed.
Lemma me_lt i j : i < j -> month_end i < month_end j.
Proof. intros H. unfold month_end. pose proof (CalendarP.month_start_strict_mono (i + 1) (j + 1)). lia. Qed.
Lemma me_lt_inv i j : month_end i < month_end j -> i < j.
Proof. intros H. destruct (Z_lt_le_dec i j) as [|Hge]; [assumption|]. pose proof (me_le j i Hge). lia. Qed.
Lemma me_succ i : month_end i + 1 = month_start (i + 1).
Proof. unfold month_end. lia. Qed.
Lemma me_ge_1 i : MINID <= i -> 1 <= month_end i.
Proof. intros H. pose proof (CalendarP.month_start_ge_1 i H). pose proof (CalendarP.month_start_le_end i). lia. Qed.

(* ================================================================== month / quarter / year units *)
Definition month_G (origin q k : Z) : Z := month_end (month_id origin + k * q).
Definition month_kidx (origin q d : Z) : Z := (month_id d - (month_id origin + 1)) / q.
(* the lowest index whose month id is still a month of year >= 1 *)
Definition month_klo (origin q : Z) : Z := - ((month_id origin - MINID) / q).

(* the origin is a month end (of any year >= 1) *)
Definition month_origin_ok (origin q : Z) : Prop :=
  1 <= q /\ 1 <= origin /\ is_month_end origin = true.

Section MonthGrid.
  Variables (origin q : Z).
  Hypothesis Hok : month_origin_ok origin q.
  Let o := month_id origin.
  Let klo := month_klo origin q.

  Lemma month_idx_range k : klo <= k -> MINID <= o + k * q.
  Proof.
    destruct Hok as (Hq & Hr & Hme). pose proof (CalendarP.month_id_ge_MINID origin Hr) as Ho. fold o in Ho.
    unfold klo, month_klo. fold o. intros Hk.
    pose proof (Z.mul_div_le (o - MINID) q ltac:(lia)). nia.
  Qed.

  Theorem month_grid_ok khi : 0 < khi ->
    grid_ok (RMonth q) origin (month_G origin q) klo khi (month_kidx origin q).
  Proof.
    intros Hhi. pose proof Hok as (Hq & Hr & Hme).
    pose proof (CalendarP.month_id_ge_MINID origin Hr) as Ho. fold o in Ho.
    assert (Hlo : klo <= 0).
    { unfold klo, month_klo. fold o. pose proof (Z.div_pos (o - MINID) q ltac:(lia) ltac:(lia)). lia. }
    assert (HG : forall k, month_G origin q k = month_end (o + k * q)) by reflexivity.
    assert (Hstep : forall k, klo <= k < khi -> delta (RMonth q) false (month_G origin q k) = month_G origin q (k + 1)).
    { intros k Hk. rewrite !HG. cbn [delta]. rewrite CalendarP.addm_month_end by (apply month_idx_range; lia). f_equal. ring. }
    assert (Hmono : forall k, klo <= k < khi -> month_G origin q k < month_G origin q (k + 1)).
    { intros k Hk. rewrite !HG. apply me_lt. nia. }
    (* a date after the first grid point is a date of year >= 1 *)
    assert (Hpos : forall d, month_G origin q klo < d -> 1 <= d).
    { intros d Hd. rewrite HG in Hd. pose proof (me_ge_1 _ (month_idx_range klo ltac:(lia))). lia. }
    assert (Hid : forall d, month_G origin q klo < d <= month_G origin q khi ->
                  o + klo * q < month_id d <= o + khi * q /\
                  month_start (month_id d) <= d <= month_end (month_id d)).
    { intros d Hd. pose proof (CalendarP.month_bracket d (Hpos d ltac:(lia))) as Hin. rewrite !HG in Hd.
      split; [|exact Hin]. split.
      - apply me_lt_inv. lia.
      - destruct (Z_le_gt_dec (month_id d) (o + khi * q)) as [|Hgt]; [assumption|]. exfalso.
        pose proof (me_le (o + khi * q) (month_id d - 1) ltac:(lia)).
        pose proof (me_succ (month_id d - 1)). replace (month_id d - 1 + 1) with (month_id d) in * by lia. lia. }
    constructor.
    - (* G 0 = origin *) rewrite HG. replace (o + 0 * q) with o by ring. symmetry.
      apply (CalendarP.is_month_end_iff origin Hr). exact Hme.
    - exact Hlo.
    - exact Hhi.
    - exact Hstep.
    - (* back *) intros k Hk. rewrite !HG. cbn [delta].
      rewrite CalendarP.addm_month_end by (apply month_idx_range; lia). f_equal. ring.
    - exact Hmono.
    - (* window index *)
      intros d Hd. destruct (Hid d Hd) as ((Hi1 & Hi2) & Hin). unfold month_kidx. fold o.
      set (a := month_id d - (o + 1)).
      pose proof (Z.mul_div_le a q ltac:(lia)) as H1. pose proof (Z.mul_succ_div_gt a q ltac:(lia)) as H2.
      assert (Hk1 : klo <= a / q) by (apply Z.div_le_lower_bound; [lia|]; subst a; nia).
      assert (Hk2 : a / q < khi) by (apply Z.div_lt_upper_bound; [lia|]; subst a; nia).
      split; [lia|]. rewrite !HG. split.
      + pose proof (me_le (o + a / q * q) (month_id d - 1) ltac:(subst a; nia)).
        pose proof (me_succ (month_id d - 1)). replace (month_id d - 1 + 1) with (month_id d) in * by lia. lia.
      + pose proof (me_le (month_id d) (o + (a / q + 1) * q) ltac:(subst a; nia)). lia.
    - (* window_of *)
      intros d _. cbn [window_of]. cbv zeta. unfold month_kidx, month_G. fold o.
      rewrite me_succ. f_equal; f_equal; ring.
    - (* on_grid *)
      intros e He. destruct (Hid e He) as ((Hi1 & Hi2) & Hin). cbn [on_grid]. fold o.
      rewrite andb_true_iff, Z.eqb_eq. split.
      + intros [Hm Hmod]. pose proof (proj1 (CalendarP.is_month_end_iff e (Hpos e ltac:(lia))) Hm) as Hee.
        exists ((month_id e - o) / q).
        pose proof (Z.div_mod (month_id e - o) q ltac:(lia)) as Hdm. rewrite Hmod in Hdm.
        split; [nia|]. rewrite HG, Hee at 1. f_equal. nia.
      + intros (j & Hj & ->). rewrite HG. pose proof (month_idx_range j ltac:(lia)) as Rj.
        rewrite CalendarP.is_month_end_month_end, CalendarP.month_id_month_end by exact Rj. split; [reflexivity|].
        replace (o + j * q - o) with (j * q) by ring. apply Z.mod_mul. lia.
  Qed.

  (* a sufficient, origin-independent lower bound on the dates: after the first q months of year 1 *)
  Lemma month_range_lower d : month_end (MINID + q - 1) < d -> month_G origin q klo < d.
  Proof.
    pose proof Hok as (Hq & Hr & Hme). pose proof (CalendarP.month_id_ge_MINID origin Hr) as Ho. fold o in Ho.
    intros Hd. unfold month_G. fold o.
    assert (o + klo * q <= MINID + q - 1).
    { unfold klo, month_klo. fold o. pose proof (Z.mod_pos_bound (o - MINID) q ltac:(lia)).
      pose proof (Z.div_mod (o - MINID) q ltac:(lia)). nia. }
    pose proof (me_le (o + klo * q) (MINID + q - 1) ltac:(lia)). lia.
  Qed.
End MonthGrid.

(* resolution_delta of a month end is the month end q months later / earlier, windows start the day
   after a month end -- for every month of year >= 1 *)
Theorem month_window_unbounded i q : MINID <= i ->
  delta (RMonth q) false (month_end i) = month_end (i + q) /\
  delta (RMonth q) true (month_end i) = month_end (i - q) /\
  month_end i + 1 = month_start (i + 1).
Proof.
  intros Hi. cbn [delta]. rewrite !CalendarP.addm_month_end by exact Hi. repeat split; try (f_equal; lia).
  apply me_succ.
Qed.
