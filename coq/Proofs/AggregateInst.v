(** C08, phase 2: the two families of resolutions satisfy [grid_ok].

    - day / week units: G k = origin + k*q, for every q >= 1 and every index range (no bound);
    - month / quarter / year units: G k = month_end (month_id origin + k*q) for an origin that is a
      month end of 1970-2100, indices such that the month ids stay in 0..1571.  The calendar facts
      are kernel computations over all 1572 month ids and all 47 847 ordinals of 1970-01-01 ..
      2100-12-31 (the bound is part of every statement).
    The bridge from the source's float add_months to Calendar.addm on these dates is theorem
    C12_add_months_agrees_with_Z_calendar of the C12 check. *)
From Coq Require Import ZArith List Bool Lia ZifyBool.
From Bermuda Require Import Model.Base Lib.Calendar Model.Summarize Model.Basis Model.Aggregate
  Proofs.Aggregate Proofs.AggregateGrid.
Import ListNotations.
Local Open Scope Z_scope.

(* ================================================================== day / week units *)
Definition day_G (origin q k : Z) : Z := origin + k * q.
Definition day_kidx (origin q d : Z) : Z := (d - (origin + 1)) / q.

Theorem day_grid_ok q origin klo khi :
  1 <= q -> klo <= 0 -> 0 < khi -> grid_ok (RDay q) origin (day_G origin q) klo khi (day_kidx origin q).
Proof.
  intros Hq Hlo Hhi. unfold day_G, day_kidx. constructor; auto.
  - lia.
  - intros k _. cbn [delta]. ring.
  - intros k _. cbn [delta]. ring.
  - intros k _. nia.
  - intros d Hd. set (a := d - (origin + 1)).
    pose proof (Z.mul_div_le a q ltac:(lia)) as H1. pose proof (Z.mul_succ_div_gt a q ltac:(lia)) as H2.
    assert (klo <= a / q) by (apply Z.div_le_lower_bound; [lia|]; subst a; nia).
    assert (a / q < khi) by (apply Z.div_lt_upper_bound; [lia|]; subst a; nia).
    subst a. split; [lia|]. nia.
  - intros d _. cbn [window_of]. f_equal; ring.
  - intros e He. cbn [on_grid]. rewrite Z.eqb_eq. split.
    + intros Hm. exists ((e - origin) / q).
      pose proof (Z.div_mod (e - origin) q ltac:(lia)) as Hdm. rewrite Hm in Hdm.
      split; [nia | nia].
    + intros (j & _ & ->). replace (origin + j * q - origin) with (j * q) by ring. apply Z.mod_mul. lia.
Qed.

(* ================================================================== calendar facts, 1970-2100 *)
Definition LO : Z := 719163.      (* 1970-01-01 *)
Definition HI : Z := 767009.      (* 2100-12-31 *)

Fixpoint all_from (n : nat) (i : Z) (p : Z -> bool) : bool :=
  match n with O => true | S k => if p i then all_from k (i + 1) p else false end.
Lemma all_from_spec n : forall i p, all_from n i p = true -> forall j, i <= j < i + Z.of_nat n -> p j = true.
Proof.
  induction n as [|n IH]; intros i p H j Hj; [lia|]. cbn [all_from] in H.
  destruct (p i) eqn:E; [|discriminate].
  destruct (Z.eq_dec j i) as [->|Hne]; [exact E|]. apply (IH (i + 1) p H). lia.
Qed.
Definition ord_ok (o : Z) : bool :=
  let i := month_id o in
  (0 <=? i) && (i <=? 1571) && (month_start i <=? o) && (o <=? month_end i)
  && (if is_month_end o then o =? month_end i else true).
Lemma ords_ok : all_from (Z.to_nat 47847) 719163 ord_ok = true.
Proof. vm_cast_no_check (eq_refl true). Qed.

(* every date of 1970-01-01 .. 2100-12-31 lies in the month its month id names *)
Theorem ord_facts d : LO <= d <= HI ->
  0 <= month_id d <= 1571 /\ month_start (month_id d) <= d <= month_end (month_id d) /\
  (is_month_end d = true -> d = month_end (month_id d)).
Proof.
  unfold LO, HI. intros Hd. pose proof (all_from_spec _ _ _ ords_ok d ltac:(lia)) as H.
  unfold ord_ok in H. cbv zeta in H. rewrite !andb_true_iff in H.
  destruct H as [[[[H1 H2] H3] H4] H5]. repeat split; try lia; try (intros E; rewrite E in H5; lia).
Qed.
Lemma month_end_le i j : 0 <= i -> j <= 1572 -> i <= j -> month_end i <= month_end j.
Proof.
  intros Hi Hj Hij. destruct (Z.eq_dec i j) as [->|Hne]; [lia|].
  pose proof (month_end_increasing i j Hi Hj ltac:(lia)). lia.
Qed.
Lemma month_end_lt_inv i j : 0 <= i <= 1572 -> 0 <= j <= 1572 -> month_end i < month_end j -> i < j.
Proof.
  intros Hi Hj H. destruct (Z_lt_le_dec i j) as [|Hge]; [assumption|].
  pose proof (month_end_le j i ltac:(lia) ltac:(lia) Hge). lia.
Qed.
Lemma month_end_0 : month_end 0 = 719193. Proof. vm_compute. reflexivity. Qed.
Lemma month_end_1571 : month_end 1571 = 767009. Proof. vm_compute. reflexivity. Qed.
Lemma month_end_range i : 0 <= i <= 1571 -> LO <= month_end i <= HI.
Proof.
  intros Hi. pose proof (month_end_le 0 i ltac:(lia) ltac:(lia) ltac:(lia)).
  pose proof (month_end_le i 1571 ltac:(lia) ltac:(lia) ltac:(lia)).
  rewrite month_end_0 in *. rewrite month_end_1571 in *. unfold LO, HI. lia.
Qed.
Lemma month_end_succ i : month_end i + 1 = month_start (i + 1).
Proof. unfold month_end. lia. Qed.

(* ================================================================== month / quarter / year units *)
Definition month_G (origin q k : Z) : Z := month_end (month_id origin + k * q).
Definition month_kidx (origin q d : Z) : Z := (month_id d - (month_id origin + 1)) / q.
Definition month_klo (origin q : Z) : Z := - (month_id origin / q).
Definition month_khi (origin q : Z) : Z := (1571 - month_id origin) / q.

(* the origin is a month end of 1970-2100 and at least one whole window after it stays in range *)
Definition month_origin_ok (origin q : Z) : Prop :=
  1 <= q /\ LO <= origin <= HI /\ is_month_end origin = true /\ month_id origin + q <= 1571.

Section MonthGrid.
  Variables (origin q : Z).
  Hypothesis Hok : month_origin_ok origin q.
  Let o := month_id origin.
  Let klo := month_klo origin q.
  Let khi := month_khi origin q.

  Lemma month_idx_range k : klo <= k <= khi -> 0 <= o + k * q <= 1571.
  Proof.
    destruct Hok as (Hq & Hr & Hme & Hw). destruct (ord_facts origin Hr) as ((Ho1 & Ho2) & _).
    fold o in Ho1, Ho2, Hw. unfold klo, khi, month_klo, month_khi. fold o. intros Hk.
    pose proof (Z.mul_div_le o q ltac:(lia)). pose proof (Z.mul_div_le (1571 - o) q ltac:(lia)).
    split; nia.
  Qed.

  Theorem month_grid_ok : grid_ok (RMonth q) origin (month_G origin q) klo khi (month_kidx origin q).
  Proof.
    pose proof Hok as (Hq & Hr & Hme & Hw). destruct (ord_facts origin Hr) as ((Ho1 & Ho2) & _ & Hoe).
    fold o in Ho1, Ho2, Hw.
    assert (Hlo : klo <= 0).
    { unfold klo, month_klo. fold o. pose proof (Z.div_pos o q ltac:(lia) ltac:(lia)). lia. }
    assert (Hhi : 0 < khi).
    { unfold khi, month_khi. fold o. pose proof (Z.div_le_lower_bound (1571 - o) q 1 ltac:(lia) ltac:(lia)). lia. }
    assert (HG : forall k, month_G origin q k = month_end (o + k * q)) by reflexivity.
    assert (Hstep : forall k, klo <= k < khi -> delta (RMonth q) false (month_G origin q k) = month_G origin q (k + 1)).
    { intros k Hk. rewrite !HG. cbn [delta]. rewrite addm_month_end by (apply month_idx_range; lia). f_equal. ring. }
    assert (Hmono : forall k, klo <= k < khi -> month_G origin q k < month_G origin q (k + 1)).
    { intros k Hk. rewrite !HG. pose proof (month_idx_range k ltac:(lia)). pose proof (month_idx_range (k + 1) ltac:(lia)).
      apply month_end_increasing; nia. }
    (* dates between the first and the last grid point are dates of 1970-2100 *)
    assert (Hrange : forall d, month_G origin q klo < d <= month_G origin q khi -> LO <= d <= HI).
    { intros d Hd. rewrite !HG in Hd.
      pose proof (month_end_range _ (month_idx_range klo ltac:(lia))).
      pose proof (month_end_range _ (month_idx_range khi ltac:(lia))). lia. }
    (* the month id of such a date, relative to the grid *)
    assert (Hid : forall d, month_G origin q klo < d <= month_G origin q khi ->
                  0 <= month_id d <= 1571 /\ o + klo * q < month_id d <= o + khi * q /\
                  month_start (month_id d) <= d <= month_end (month_id d)).
    { intros d Hd. destruct (ord_facts d (Hrange d Hd)) as (Hi & Hin & _). rewrite !HG in Hd.
      pose proof (month_idx_range klo ltac:(lia)) as R1. pose proof (month_idx_range khi ltac:(lia)) as R2.
      split; [exact Hi|]. split; [|exact Hin]. split.
      - apply month_end_lt_inv; lia.
      - destruct (Z_le_gt_dec (month_id d) (o + khi * q)) as [|Hgt]; [assumption|]. exfalso.
        pose proof (month_end_le (o + khi * q) (month_id d - 1) ltac:(lia) ltac:(lia) ltac:(lia)).
        pose proof (month_end_succ (month_id d - 1)). replace (month_id d - 1 + 1) with (month_id d) in * by lia. lia. }
    constructor.
    - (* G 0 = origin *) rewrite HG. replace (o + 0 * q) with o by ring. symmetry. apply Hoe. exact Hme.
    - exact Hlo.
    - exact Hhi.
    - exact Hstep.
    - (* back *) intros k Hk. rewrite !HG. cbn [delta]. rewrite addm_month_end by (apply month_idx_range; lia). f_equal. ring.
    - exact Hmono.
    - (* window index *)
      intros d Hd. destruct (Hid d Hd) as (Hi & (Hi1 & Hi2) & Hin). unfold month_kidx. fold o.
      set (a := month_id d - (o + 1)).
      pose proof (Z.mul_div_le a q ltac:(lia)) as H1. pose proof (Z.mul_succ_div_gt a q ltac:(lia)) as H2.
      assert (Hk1 : klo <= a / q) by (apply Z.div_le_lower_bound; [lia|]; subst a; nia).
      assert (Hk2 : a / q < khi) by (apply Z.div_lt_upper_bound; [lia|]; subst a; nia).
      split; [lia|]. rewrite !HG.
      pose proof (month_idx_range (a / q) ltac:(lia)) as R1. pose proof (month_idx_range (a / q + 1) ltac:(lia)) as R2.
      split.
      + pose proof (month_end_le (o + a / q * q) (month_id d - 1) ltac:(lia) ltac:(lia) ltac:(subst a; nia)).
        pose proof (month_end_succ (month_id d - 1)). replace (month_id d - 1 + 1) with (month_id d) in * by lia. lia.
      + pose proof (month_end_le (month_id d) (o + (a / q + 1) * q) ltac:(lia) ltac:(lia) ltac:(subst a; nia)). lia.
    - (* window_of *)
      intros d _. cbn [window_of]. cbv zeta. unfold month_kidx, month_G. fold o.
      rewrite month_end_succ. f_equal; f_equal; ring.
    - (* on_grid *)
      intros e He. destruct (Hid e He) as (Hi & (Hi1 & Hi2) & Hin). cbn [on_grid]. fold o.
      rewrite andb_true_iff, Z.eqb_eq. split.
      + intros [Hm Hmod]. destruct (ord_facts e (Hrange e He)) as (_ & _ & Hee). specialize (Hee Hm).
        exists ((month_id e - o) / q).
        pose proof (Z.div_mod (month_id e - o) q ltac:(lia)) as Hdm. rewrite Hmod in Hdm.
        split; [nia|]. rewrite HG, Hee at 1. f_equal. nia.
      + intros (j & Hj & ->). rewrite HG. pose proof (month_idx_range j Hj) as Rj.
        destruct (month_end_facts _ Rj) as (E1 & E2 & _). rewrite E1, E2. split; [reflexivity|].
        replace (o + j * q - o) with (j * q) by ring. apply Z.mod_mul. lia.
  Qed.

  (* a sufficient, origin-independent description of the date range *)
  Lemma month_range_sufficient d :
    q <= 786 -> month_end (q - 1) < d <= month_end (1571 - q) ->
    month_G origin q klo < d < month_G origin q khi.
  Proof.
    pose proof Hok as (Hq & Hr & Hme & Hw). destruct (ord_facts origin Hr) as ((Ho1 & Ho2) & _).
    fold o in Ho1, Ho2, Hw. intros Hq2 Hd. unfold month_G. fold o.
    pose proof (month_idx_range klo ltac:(unfold klo, khi, month_klo, month_khi; fold o;
      pose proof (Z.div_pos o q ltac:(lia) ltac:(lia)); pose proof (Z.div_pos (1571 - o) q ltac:(lia) ltac:(lia)); lia)) as R1.
    pose proof (month_idx_range khi ltac:(unfold klo, khi, month_klo, month_khi; fold o;
      pose proof (Z.div_pos o q ltac:(lia) ltac:(lia)); pose proof (Z.div_pos (1571 - o) q ltac:(lia) ltac:(lia)); lia)) as R2.
    assert (o + klo * q <= q - 1).
    { unfold klo, month_klo. fold o. pose proof (Z.mod_pos_bound o q ltac:(lia)). pose proof (Z.div_mod o q ltac:(lia)). nia. }
    assert (1572 - q <= o + khi * q).
    { unfold khi, month_khi. fold o. pose proof (Z.mod_pos_bound (1571 - o) q ltac:(lia)).
      pose proof (Z.div_mod (1571 - o) q ltac:(lia)). nia. }
    pose proof (month_end_le (o + klo * q) (q - 1) ltac:(lia) ltac:(lia) ltac:(lia)).
    pose proof (month_end_increasing (1571 - q) (o + khi * q) ltac:(lia) ltac:(lia) ltac:(lia)). lia.
  Qed.
End MonthGrid.
