(** C20 -- records (one per cell, in order, own coordinates), row neighbours (same slice and period),
    the metric table. *)
From Coq Require Import ZArith QArith List Bool Lia String.
From Bermuda Require Import Model.Base Model.Plot Proofs.JsonBase.
Import ListNotations.
Local Open Scope string_scope.

(* ------------------------------------------------------------------ one record per cell, in cell order *)
Lemma records_coords : forall d t,
  map (fun r => (r_ps r, r_pe r, r_ev r, r_lag r)) (build_plot_data d t)
  = map (fun c => (pc_ps c, pc_pe c, pc_ev c, pc_lag c)) t.
Proof. intros. unfold build_plot_data. rewrite map_map. reflexivity. Qed.
Lemma records_length : forall d t, List.length (build_plot_data d t) = List.length t.
Proof. intros. unfold build_plot_data. apply map_length. Qed.
(* the summaries of the i-th record are those the table holds for the i-th cell *)
Lemma records_summaries : forall d t,
  map r_summaries (build_plot_data d t) = map (fun c => lookup_last c (summary_table d t) []) t.
Proof. intros. unfold build_plot_data. rewrite map_map. reflexivity. Qed.

(* ------------------------------------------------------------------ rows *)
Definition row_inv (bs : bool) (t : list pcell) (r : list pcell) : Prop :=
  (forall x, In x r -> In x t) /\ (forall x y, In x r -> In y r -> same_row bs x y = true).

Lemma same_row_refl : forall bs x, same_row bs x x = true.
Proof. intros. unfold same_row. rewrite !Z.eqb_refl. destruct bs; reflexivity. Qed.
Lemma same_row_sym : forall bs x y, same_row bs x y = true -> same_row bs y x = true.
Proof.
  intros bs x y H. unfold same_row in *. destruct bs; cbn in *;
    repeat (apply andb_true_iff in H; destruct H as [H ?]);
    repeat (apply andb_true_iff; split); try reflexivity; apply Z.eqb_eq; symmetry; apply Z.eqb_eq; assumption.
Qed.
Lemma same_row_trans : forall bs x y z, same_row bs x y = true -> same_row bs y z = true -> same_row bs x z = true.
Proof.
  intros bs x y z H1 H2. unfold same_row in *. destruct bs; cbn in *;
    repeat (apply andb_true_iff in H1; destruct H1 as [H1 ?]);
    repeat (apply andb_true_iff in H2; destruct H2 as [H2 ?]);
    repeat (apply andb_true_iff; split); try reflexivity;
    repeat match goal with H : (_ =? _)%Z = true |- _ => apply Z.eqb_eq in H end; apply Z.eqb_eq; congruence.
Qed.

Lemma row_add_inv : forall bs t c rows, In c t -> Forall (row_inv bs t) rows -> Forall (row_inv bs t) (row_add bs c rows).
Proof.
  intros bs t c rows Hc H. induction H as [|r rest Hr Hrest IH]; cbn [row_add].
  - constructor; [|constructor]. split.
    + intros x [<-|[]]. exact Hc.
    + intros x y [<-|[]] [<-|[]]. apply same_row_refl.
  - destruct r as [|h r'].
    + constructor; [|exact Hrest]. split.
      * intros x [<-|[]]. exact Hc.
      * intros x y [<-|[]] [<-|[]]. apply same_row_refl.
    + destruct (same_row bs h c) eqn:E.
      * constructor; [|exact Hrest]. destruct Hr as [H1 H2]. split.
        -- intros x Hx. apply in_app_or in Hx. destruct Hx as [Hx|[<-|[]]]; [apply H1; exact Hx|exact Hc].
        -- assert (Hh : In h (h :: r')) by now left.
           assert (G : forall x, In x ((h :: r') ++ [c]) -> same_row bs h x = true).
           { intros x Hx. apply in_app_or in Hx. destruct Hx as [Hx|[<-|[]]]; [apply H2; assumption|exact E]. }
           intros x y Hx Hy. apply (same_row_trans bs x h y); [apply same_row_sym; apply G; exact Hx|apply G; exact Hy].
      * constructor; [exact Hr|exact IH].
Qed.
Lemma group_rows_inv : forall bs t, Forall (row_inv bs t) (group_rows bs t).
Proof.
  intros bs t. unfold group_rows.
  assert (G : forall l acc, (forall x, In x l -> In x t) -> Forall (row_inv bs t) acc ->
              Forall (row_inv bs t) (fold_left (fun rows c => row_add bs c rows) l acc)).
  { induction l as [|c r IH]; intros acc Hl Ha; [exact Ha|]. cbn [fold_left]. apply IH.
    - intros x Hx. apply Hl. now right.
    - apply row_add_inv; [apply Hl; now left|exact Ha]. }
  apply G; [tauto|constructor].
Qed.

Lemma ev_insert_In : forall c l x, In x (ev_insert c l) <-> x = c \/ In x l.
Proof.
  intros c l x. induction l as [|y r IH]; cbn [ev_insert].
  - cbn. intuition.
  - destruct (pc_ev c <? pc_ev y)%Z; cbn [In]; [intuition|]. rewrite IH. cbn [In]. intuition.
Qed.
Lemma ev_sort_In : forall l x, In x (ev_sort l) <-> In x l.
Proof.
  intros l x. unfold ev_sort.
  assert (G : forall l acc, In x (fold_left (fun a c => ev_insert c a) l acc) <-> In x acc \/ In x l).
  { induction l0 as [|c r IH]; intros acc; cbn [fold_left]; [cbn; tauto|].
    rewrite IH, ev_insert_In. cbn [In]. intuition. }
  rewrite G. cbn. tauto.
Qed.
Fixpoint ev_sorted (l : list pcell) : Prop :=
  match l with a :: r => match r with b :: _ => (pc_ev a <= pc_ev b)%Z /\ ev_sorted r | [] => True end | [] => True end.
Lemma ev_insert_sorted : forall c l, ev_sorted l -> ev_sorted (ev_insert c l).
Proof.
  intros c l. induction l as [|y r IH]; intros H; [exact I|].
  cbn [ev_insert]. destruct (pc_ev c <? pc_ev y)%Z eqn:E.
  - cbn. split; [lia|exact H].
  - destruct r as [|z r'].
    + cbn. split; [lia|exact I].
    + cbn [ev_sorted] in H. destruct H as [H1 H2]. specialize (IH H2).
      cbn [ev_insert] in IH |- *. destruct (pc_ev c <? pc_ev z)%Z eqn:F.
      * cbn [ev_sorted]. split; [lia|]. exact IH.
      * cbn [ev_sorted]. split; [exact H1|]. exact IH.
Qed.
Lemma ev_sort_sorted : forall l, ev_sorted (ev_sort l).
Proof.
  intros l. unfold ev_sort.
  assert (G : forall l acc, ev_sorted acc -> ev_sorted (fold_left (fun a c => ev_insert c a) l acc)).
  { induction l0 as [|c r IH]; intros acc H; [exact H|]. cbn [fold_left]. apply IH. apply ev_insert_sorted. exact H. }
  apply G. exact I.
Qed.

(* triples of a row: the successor is the element right after the cell, the predecessor the one before *)
Lemma triples_spec : forall row p0 c p n, In (c, p, n) (triples_from p0 row) -> ev_sorted row ->
  In c row /\ (forall x, n = Some x -> In x row /\ (pc_ev c <= pc_ev x)%Z) /\
  (forall x, p = Some x -> p = p0 \/ (In x row /\ (pc_ev x <= pc_ev c)%Z)).
Proof.
  induction row as [|a r IH]; intros p0 c p n H Hs; [destruct H|].
  cbn [triples_from] in H. destruct H as [H|H].
  - inversion H; subst. split; [now left|]. split.
    + intros x Hx. destruct r as [|b r']; [discriminate|]. inversion Hx; subst. cbn in Hs. split; [right; now left|tauto].
    + intros x Hx. now left.
  - assert (Hs' : ev_sorted r) by (destruct r; [exact I|cbn in Hs; tauto]).
    destruct (IH (Some a) c p n H Hs') as (H1 & H2 & H3). split; [now right|]. split.
    + intros x Hx. destruct (H2 x Hx). split; [now right|assumption].
    + intros x Hx. right. destruct (H3 x Hx) as [E|[E1 E2]].
      * rewrite Hx in E. inversion E; subst. split; [now left|].
        (* a precedes every element of r *)
        clear - H1 Hs. revert a Hs H1. induction r as [|b r' IHr]; intros a Hs H1; [destruct H1|].
        cbn in Hs. destruct Hs as [Hab Hs]. destruct H1 as [<-|H1]; [exact Hab|].
        specialize (IHr b Hs H1). lia.
      * split; [now right|assumption].
Qed.

(* F17: the neighbours used for age-to-age metrics are cells of the triangle in the same slice and
   period as the cell, the successor not earlier and the predecessor not later *)
Theorem neighbours_same_row : forall d t c p n, In (c, p, n) (all_triples d t) ->
  In c t /\
  (forall x, n = Some x -> In x t /\ same_row (by_slice d) c x = true /\ (pc_ev c <= pc_ev x)%Z) /\
  (forall x, p = Some x -> In x t /\ same_row (by_slice d) c x = true /\ (pc_ev x <= pc_ev c)%Z).
Proof.
  intros d t c p n H. unfold all_triples, rows in H. apply in_flat_map in H. destruct H as [row [Hrow H]].
  apply in_map_iff in Hrow. destruct Hrow as [g [<- Hg]].
  pose proof (group_rows_inv (by_slice d) t) as G. rewrite Forall_forall in G. destruct (G g Hg) as [G1 G2].
  destruct (triples_spec _ _ _ _ _ H (ev_sort_sorted g)) as (H1 & H2 & H3).
  apply (proj1 (ev_sort_In _ _)) in H1. split; [apply G1; exact H1|]. split.
  - intros x Hx. destruct (H2 x Hx) as [A B]. apply (proj1 (ev_sort_In _ _)) in A. repeat split; [apply G1; exact A|apply G2; assumption|exact B].
  - intros x Hx. destruct (H3 x Hx) as [E|[A B]]; [rewrite Hx in E; discriminate|].
    apply (proj1 (ev_sort_In _ _)) in A. repeat split; [apply G1; exact A|apply G2; assumption|exact B].
Qed.
(* every cell of the triangle gets exactly the entries computed from such a triple *)
Lemma summary_table_entries : forall d t c s, In (c, s) (summary_table d t) ->
  exists p n, In (c, p, n) (all_triples d t) /\ s = cell_summaries d c p n.
Proof.
  intros d t c s H. unfold summary_table in H. apply in_map_iff in H. destruct H as [[[c' p] n] [E H]].
  inversion E; subst. exists p, n. split; [exact H|reflexivity].
Qed.

(* ------------------------------------------------------------------ the metric table *)
Definition metric_value (d : pdesc) (name : str) (c : pcell) (p n : option pcell) : option pval :=
  match assoc name (D_metrics d) with Some (_, e) => eval e c p n | None => None end.
Definition own (c : pcell) (f : String.string) : option pval := field_of (Some c) (STR f).
(* 100 * loss / earned_premium of the cell's own fields *)
Definition spec_ratio (c : pcell) (loss : String.string) : option pval :=
  match own c loss, own c "earned_premium" with
  | Some l, Some e => match vop OMul (PNum (inject_Z 100)) l with Some x => vop ODiv x e | None => None end
  | _, _ => None
  end.
(* next cell's loss / this cell's loss *)
Definition spec_ata (c : pcell) (n : option pcell) (loss : String.string) : option pval :=
  match field_of n (STR loss), own c loss with Some a, Some b => vop ODiv a b | _, _ => None end.
Definition spec_inc_ata (c : pcell) (n : option pcell) (loss : String.string) : option pval :=
  match spec_ata c n loss with Some x => vop OSub x (PNum (inject_Z 1)) | None => None end.

Definition metric_table_spec (ms : list (str * (nat * mexpr))) : Prop :=
  let mv name c p n := match assoc (STR name) ms with Some (_, e) => eval e c p n | None => None end in
  forall c p n,
  mv "Paid Loss Ratio"%string c p n = spec_ratio c "paid_loss" /\
  mv "Reported Loss Ratio"%string c p n = spec_ratio c "reported_loss" /\
  mv "Incurred Loss Ratio"%string c p n = spec_ratio c "incurred_loss" /\
  mv "Paid Loss"%string c p n = own c "paid_loss" /\
  mv "Reported Loss"%string c p n = own c "reported_loss" /\
  mv "Incurred Loss"%string c p n = own c "incurred_loss" /\
  mv "Earned Premium"%string c p n = own c "earned_premium" /\
  mv "Reported Claims"%string c p n = own c "reported_claims" /\
  mv "Paid ATA"%string c p n = spec_ata c n "paid_loss" /\
  mv "Reported ATA"%string c p n = spec_ata c n "reported_loss" /\
  mv "Paid Incremental ATA"%string c p n = spec_inc_ata c n "paid_loss" /\
  mv "Reported Incremental ATA"%string c p n = spec_inc_ata c n "reported_loss" /\
  map fst ms = map STR ["Paid Loss Ratio"; "Reported Loss Ratio"; "Incurred Loss Ratio"; "Paid Loss";
                        "Reported Loss"; "Incurred Loss"; "Earned Premium"; "Reported Claims"; "Paid ATA";
                        "Reported ATA"; "Paid Incremental ATA"; "Reported Incremental ATA"]%string.

Ltac crunch :=
  repeat first [reflexivity
               | match goal with |- context [match ?x with _ => _ end] =>
                   lazymatch x with
                   | context [match _ with _ => _ end] => fail
                   | _ => destruct x
                   end end].
Lemma metric_table_std : metric_table_spec (D_metrics std_desc).
Proof.
  unfold metric_table_spec. cbv zeta. intros c p n.
  repeat match goal with |- _ /\ _ => split end.
  all: try reflexivity.
  all: unfold spec_ratio, spec_inc_ata, spec_ata, own; cbn -[Qmult Qdiv Qplus Qminus Qeq_bool inject_Z]; crunch.
Qed.

(* absent inputs give no summary: if the metric has no value, the record has no entry for it *)
Lemma no_value_no_summary : forall d, metric_summary d None = None.
Proof. reflexivity. Qed.

(* ------------------------------------------------------------------ a summary exists IFF the metric has a value *)
Lemma summary_iff_value : forall d v,
  metric_summary d v = None <-> (v = None \/ v = Some PNoneV \/ v = Some (PArr [])).
Proof.
  intros d v. destruct v as [[q|l|]|]; cbn [metric_summary].
  - split; [discriminate|intros [H|[H|H]]; discriminate].
  - destruct l as [|x [|y r]]; split; try discriminate; try tauto; intros [H|[H|H]]; discriminate.
  - split; tauto.
  - split; tauto.
Qed.
Lemma vop_not_nonev : forall op a b, vop op a b <> Some PNoneV.
Proof.
  intros op a b. destruct a as [x|l|], b as [y|m|]; cbn [vop]; try discriminate.
  - destruct (qop op x y); discriminate.
  - destruct (opt_all _); discriminate.
  - destruct (opt_all _); discriminate.
  - destruct (zip_with _ _ _); [destruct (opt_all _)|]; discriminate.
Qed.
Lemma eval_not_nonev : forall e c p n, eval e c p n <> Some PNoneV.
Proof.
  intros e c p n. destruct e as [w f|z|op a b]; cbn [eval].
  - destruct w; unfold field_of; [|destruct p|destruct n]; try discriminate;
      match goal with |- context [assoc ?k ?d] => destruct (assoc k d) as [[]|] end; discriminate.
  - discriminate.
  - destruct (eval a c p n), (eval b c p n); try discriminate. apply vop_not_nonev.
Qed.
(* no summary IFF the metric has no value (an input missing / None / an undefined division) or the
   value is an empty sample array; in particular a value that is exactly zero IS summarised *)
Theorem summary_iff_inputs_present : forall d e c p n,
  metric_summary d (eval e c p n) = None <-> (eval e c p n = None \/ eval e c p n = Some (PArr [])).
Proof.
  intros. rewrite summary_iff_value. pose proof (eval_not_nonev e c p n). tauto.
Qed.
Theorem scalar_ratio_present : forall c loss l e,
  own c loss = Some (PNum l) -> own c "earned_premium" = Some (PNum e) -> ~ e == 0 ->
  spec_ratio c loss = Some (PNum (inject_Z 100 * l / e)).
Proof.
  intros c loss l e H1 H2 H3. unfold spec_ratio. rewrite H1, H2. cbn [vop qop option_map].
  destruct (Qeq_bool e 0) eqn:E; [apply Qeq_bool_iff in E; contradiction|reflexivity].
Qed.
