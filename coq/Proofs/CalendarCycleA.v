(** Kernel evaluation over every ordinal of the first 400-year cycle (1 .. 146097). *)
From Coq Require Import ZArith Bool.
From Bermuda Require Import Lib.Calendar Proofs.CalendarCycle.
Lemma cycleA : range_all 18 1 okA = true.
Proof. vm_cast_no_check (eq_refl true). Qed.
